package main

// 2D analogues: Manifold / InconsistentVertices, Repair, RepairNormals,
// MeshToHierarchy / Contains / FullMesh on polygon scenes.

import (
	"fmt"
	"math"
	"math/rand"
	"sort"

	"github.com/unixpickle/model3d/model2d"
	"verif/vlib"
)

type C2 = model2d.Coord
type Seg = vlib.Seg

var libRayDir2 = C2{X: 0.5224892708603626, Y: 0.10494477243214506}

func xy(x, y float64) C2 { return C2{X: x, Y: y} }

func cleanZero2(c C2) C2 {
	if c.X == 0 {
		c.X = 0
	}
	if c.Y == 0 {
		c.Y = 0
	}
	return c
}

func flipSeg(s Seg) Seg { return Seg{s[1], s[0]} }

// polygon: star-shaped loop around center, counter-clockwise.
func polygon2(center C2, radius float64, n int, noise float64, phase float64, rng *rand.Rand) []Seg {
	pts := make([]C2, n)
	for i := range pts {
		th := phase + 2*math.Pi*(float64(i)+0.4*(rng.Float64()-0.5))/float64(n)
		rr := radius * (1 - noise*rng.Float64())
		pts[i] = cleanZero2(center.Add(xy(math.Cos(th), math.Sin(th)).Scale(rr)))
	}
	segs := make([]Seg, n)
	for i := range pts {
		segs[i] = Seg{pts[i], pts[(i+1)%n]}
	}
	return segs
}

// rect2: rotated rectangle with each side split into sub collinear pieces, CCW.
func rect2(center C2, hx, hy float64, sub int, angle float64) []Seg {
	ca, sa := math.Cos(angle), math.Sin(angle)
	pt := func(x, y float64) C2 {
		return cleanZero2(center.Add(xy(ca*x-sa*y, sa*x+ca*y)))
	}
	corners := [][2]float64{{-hx, -hy}, {hx, -hy}, {hx, hy}, {-hx, hy}}
	var pts []C2
	for i := 0; i < 4; i++ {
		a, b := corners[i], corners[(i+1)%4]
		for k := 0; k < sub; k++ {
			f := float64(k) / float64(sub)
			pts = append(pts, pt(a[0]+(b[0]-a[0])*f, a[1]+(b[1]-a[1])*f))
		}
	}
	segs := make([]Seg, len(pts))
	for i := range pts {
		segs[i] = Seg{pts[i], pts[(i+1)%len(pts)]}
	}
	return segs
}

func pointSegDist(p C2, s Seg) float64 {
	d := s[1].Sub(s[0])
	l2 := d.Dot(d)
	if l2 == 0 {
		return p.Dist(s[0])
	}
	t := p.Sub(s[0]).Dot(d) / l2
	t = math.Max(0, math.Min(1, t))
	return p.Dist(s[0].Add(d.Scale(t)))
}

func minDistSegs(p C2, segs []Seg) float64 {
	best := math.Inf(1)
	for _, s := range segs {
		if d := pointSegDist(p, s); d < best {
			best = d
		}
	}
	return best
}

// winding2 of a closed loop set around p (angle sum); frac = distance from an integer.
func winding2(segs []Seg, p C2) (int, float64) {
	var total float64
	for _, s := range segs {
		a, b := s[0].Sub(p), s[1].Sub(p)
		total += math.Atan2(a.X*b.Y-a.Y*b.X, a.Dot(b))
	}
	w := total / (2 * math.Pi)
	r := math.Round(w)
	return int(r), math.Abs(w - r)
}

func evenOdd2(comps [][]Seg, p C2) (inside bool, depth int, worst float64) {
	for _, c := range comps {
		w, frac := winding2(c, p)
		if frac > worst {
			worst = frac
		}
		if w%2 != 0 {
			depth++
		}
	}
	return depth%2 == 1, depth, worst
}

type comp2 struct {
	segs    []Seg
	kind    string
	center  C2
	rOut    float64
	parent  int
	freeRad float64
}

type scene2 struct {
	comps []*comp2
	desc  []string
}

func (s *scene2) allSegs() []Seg {
	var res []Seg
	for _, c := range s.comps {
		res = append(res, c.segs...)
	}
	return res
}

func (s *scene2) describe() string { return fmt.Sprint(s.desc) }

type scene2Opts struct {
	maxDepth, maxComps int
	childProb          float64
	grid               int
}

func (s *scene2) place(rng *rand.Rand, o *scene2Opts, center C2, radius float64, depthLeft, parent int) {
	if len(s.comps) >= o.maxComps {
		return
	}
	c := &comp2{center: center, parent: parent}
	rOut := radius * (0.8 + 0.19*rng.Float64())
	if rng.Intn(3) == 0 {
		asp := 0.5 + 0.5*rng.Float64()
		hx := rOut / math.Hypot(1, asp)
		sub := 1 + rng.Intn(3)
		c.segs = rect2(center, hx, hx*asp, sub, rng.Float64()*math.Pi)
		c.kind = fmt.Sprintf("rect(sub=%d)", sub)
	} else {
		n := 3 + rng.Intn(12)
		noise := 0.0
		if rng.Intn(2) == 0 {
			noise = 0.4 * rng.Float64()
		}
		c.segs = polygon2(center, rOut, n, noise, rng.Float64()*7, rng)
		c.kind = fmt.Sprintf("poly(n=%d,noise=%.2f)", n, noise)
	}
	if rng.Intn(2) == 0 { // clockwise loop
		for i := range c.segs {
			c.segs[i] = flipSeg(c.segs[i])
		}
		c.kind += "cw"
	}
	c.rOut = rOut
	idx := len(s.comps)
	s.comps = append(s.comps, c)
	s.desc = append(s.desc, fmt.Sprintf("%d<-%d:%s", idx, parent, c.kind))
	c.freeRad = 0.9 * minDistSegs(center, c.segs)
	if depthLeft <= 0 || rng.Float64() >= o.childProb {
		return
	}
	k := 1 + rng.Intn(3)
	type ball struct {
		c C2
		r float64
	}
	var balls []ball
	for i := 0; i < k; i++ {
		for try := 0; try < 20; try++ {
			var rr float64
			if k == 1 {
				rr = c.freeRad * (0.4 + 0.55*rng.Float64())
			} else {
				rr = c.freeRad * (0.2 + 0.25*rng.Float64())
			}
			th := rng.Float64() * 2 * math.Pi
			off := xy(math.Cos(th), math.Sin(th)).Scale((c.freeRad - rr) * math.Sqrt(rng.Float64()) * 0.98)
			cc := center.Add(off)
			ok := true
			for _, b := range balls {
				if b.c.Dist(cc) < (b.r+rr)*1.02 {
					ok = false
					break
				}
			}
			if ok {
				balls = append(balls, ball{cc, rr})
				break
			}
		}
	}
	for _, b := range balls {
		s.place(rng, o, b.c, b.r, depthLeft-1, idx)
	}
}

func buildScene2(rng *rand.Rand, o scene2Opts) *scene2 {
	s := &scene2{}
	if o.grid > 0 {
		g := o.grid
		cell := 2.0 / float64(g)
		occupied := 0
		for i := 0; i < g; i++ {
			for j := 0; j < g; j++ {
				if rng.Intn(4) == 0 && occupied > 0 {
					continue
				}
				occupied++
				rad := cell * 0.5 * (0.5 + 0.45*rng.Float64())
				slack := cell*0.5 - rad
				ctr := xy(-1+cell*(float64(i)+0.5)+(rng.Float64()*2-1)*slack*0.95, -1+cell*(float64(j)+0.5)+(rng.Float64()*2-1)*slack*0.95)
				s.place(rng, &o, ctr, rad, o.maxDepth, -1)
			}
		}
		return s
	}
	s.place(rng, &o, xy(rng.NormFloat64()*0.3, rng.NormFloat64()*0.3), 1, o.maxDepth, -1)
	return s
}

func (s *scene2) randomTransform(rng *rand.Rand) {
	if rng.Intn(3) != 0 {
		return
	}
	scale := math.Ldexp(1, rng.Intn(25)-12)
	var off C2
	if rng.Intn(2) == 0 {
		off = xy(float64(rng.Intn(2001)-1000), float64(rng.Intn(2001)-1000)).Scale(scale)
	}
	f := func(p C2) C2 { return cleanZero2(p.Scale(scale).Add(off)) }
	for _, c := range s.comps {
		for i, sg := range c.segs {
			c.segs[i] = Seg{f(sg[0]), f(sg[1])}
		}
		c.center = f(c.center)
		c.rOut *= scale
		c.freeRad *= scale
	}
	s.desc = append(s.desc, fmt.Sprintf("x%g+%v", scale, off))
}

func mesh2Of(segs []Seg) *model2d.Mesh {
	m := model2d.NewMesh()
	for _, s := range segs {
		m.Add(&model2d.Segment{s[0], s[1]})
	}
	return m
}

func shuffleSegs(rng *rand.Rand, segs []Seg) []Seg {
	res := append([]Seg{}, segs...)
	rng.Shuffle(len(res), func(i, j int) { res[i], res[j] = res[j], res[i] })
	return res
}

func hexSegs(segs []Seg, max int) []string {
	var res []string
	for i, s := range segs {
		if i >= max {
			res = append(res, fmt.Sprintf("... %d more", len(segs)-max))
			break
		}
		res = append(res, fmt.Sprintf("[(%x,%x) (%x,%x)]", s[0].X, s[0].Y, s[1].X, s[1].Y))
	}
	return res
}

func vertsOf2(segs []Seg) []C2 {
	seen := map[C2]bool{}
	var res []C2
	for _, s := range segs {
		for _, p := range s {
			if !seen[p] {
				seen[p] = true
				res = append(res, p)
			}
		}
	}
	return res
}

func dropDegenerate2(segs []Seg) []Seg {
	res := segs[:0:0]
	for _, s := range segs {
		if s[0] != s[1] {
			res = append(res, s)
		}
	}
	return res
}

type skey [2]C2

func keyOf2(s Seg) skey {
	a, b := cleanZero2(s[0]), cleanZero2(s[1])
	if a.X < b.X || (a.X == b.X && a.Y < b.Y) {
		return skey{a, b}
	}
	return skey{b, a}
}

func damage2(rng *rand.Rand, segs []Seg, nOps int) ([]Seg, []string) {
	res := append([]Seg{}, segs...)
	var log []string
	for op := 0; op < nOps && len(res) > 0; op++ {
		switch rng.Intn(6) {
		case 0:
			j := rng.Intn(len(res))
			res[j] = res[len(res)-1]
			res = res[:len(res)-1]
			log = append(log, "remove")
		case 1:
			s := res[rng.Intn(len(res))]
			if rng.Intn(2) == 0 {
				s = flipSeg(s)
			}
			res = append(res, s)
			log = append(log, "dup")
		case 2:
			k := 1 + rng.Intn(3)
			for i := 0; i < k; i++ {
				j := rng.Intn(len(res))
				res[j] = flipSeg(res[j])
			}
			log = append(log, fmt.Sprintf("flip%d", k))
		case 3:
			vs := vertsOf2(res)
			a, b := vs[rng.Intn(len(vs))], vs[rng.Intn(len(vs))]
			if a == b {
				continue
			}
			for i, s := range res {
				for k := 0; k < 2; k++ {
					if s[k] == a {
						s[k] = b
					}
				}
				res[i] = s
			}
			res = dropDegenerate2(res)
			log = append(log, "pinch")
		case 4:
			vs := vertsOf2(res)
			v := vs[rng.Intn(len(vs))]
			v2 := v.Add(xy(1.0/1024, -1.0/2048))
			for i, s := range res {
				if rng.Intn(2) == 0 {
					continue
				}
				for k := 0; k < 2; k++ {
					if s[k] == v {
						s[k] = v2
					}
				}
				res[i] = s
			}
			log = append(log, "crack")
		default:
			// an extra chord between two existing vertices
			vs := vertsOf2(res)
			a, b := vs[rng.Intn(len(vs))], vs[rng.Intn(len(vs))]
			if a != b {
				res = append(res, Seg{a, b})
				log = append(log, "chord")
			}
		}
	}
	return dropDegenerate2(res), log
}

func depthByWinding2(comps [][]Seg) (encl [][]bool, depth []int, ok bool) {
	n := len(comps)
	encl = make([][]bool, n)
	depth = make([]int, n)
	ok = true
	for a := range encl {
		encl[a] = make([]bool, n)
	}
	for b := 0; b < n; b++ {
		p := comps[b][0][0]
		for a := 0; a < n; a++ {
			if a == b {
				continue
			}
			w, frac := winding2(comps[a], p)
			if frac > 1e-6 {
				ok = false
			}
			if w%2 != 0 {
				encl[a][b] = true
				depth[b]++
			}
		}
	}
	return
}

func rayNearVertex2(segs []Seg, p, dir C2) float64 {
	d := dir.Scale(1 / dir.Norm())
	best := math.Inf(1)
	for _, s := range segs {
		for _, v := range s {
			w := v.Sub(p)
			t := w.Dot(d)
			var dist float64
			if t < 0 {
				dist = w.Norm()
			} else {
				dist = math.Abs(w.X*d.Y - w.Y*d.X)
			}
			if dist < best {
				best = dist
			}
		}
	}
	return best
}

func sceneCheck2(c *vlib.Case, s *scene2, tag string) (comps [][]Seg, encl [][]bool, depth []int, ok bool) {
	comps = make([][]Seg, len(s.comps))
	for i, cc := range s.comps {
		comps[i] = cc.segs
	}
	topo := vlib.AnalyzeSegs(s.allSegs())
	if !topo.ClosedOrientedManifold() || topo.Components != len(comps) {
		c.Undecided("harness." + tag + ".clean-not-manifold")
		return nil, nil, nil, false
	}
	encl, depth, ok = depthByWinding2(comps)
	if !ok {
		c.Undecided(tag + ".winding-margin")
		return nil, nil, nil, false
	}
	for b, cb := range s.comps {
		d := 0
		for p := cb.parent; p >= 0; p = s.comps[p].parent {
			d++
			if !encl[p][b] {
				c.Undecided("harness." + tag + ".nesting-mismatch")
				return nil, nil, nil, false
			}
		}
		if d != depth[b] {
			c.Undecided("harness." + tag + ".nesting-mismatch")
			return nil, nil, nil, false
		}
	}
	return comps, encl, depth, true
}

type hnode2 struct {
	h        *model2d.MeshHierarchy
	comp     int
	parent   int
	children []int
}

func flattenHier2(roots []*model2d.MeshHierarchy) []*hnode2 {
	var nodes []*hnode2
	var walk func(h *model2d.MeshHierarchy, parent int) int
	walk = func(h *model2d.MeshHierarchy, parent int) int {
		idx := len(nodes)
		nodes = append(nodes, &hnode2{h: h, comp: -1, parent: parent})
		for _, ch := range h.Children {
			ci := walk(ch, idx)
			nodes[idx].children = append(nodes[idx].children, ci)
		}
		return idx
	}
	for _, h := range roots {
		walk(h, -1)
	}
	return nodes
}

func boundsOf2(segs []Seg) (lo, hi C2) {
	lo = xy(math.Inf(1), math.Inf(1))
	hi = xy(math.Inf(-1), math.Inf(-1))
	for _, s := range segs {
		for _, p := range s {
			lo = lo.Min(p)
			hi = hi.Max(p)
		}
	}
	return
}

func segDiff(a, b []Seg) int {
	count := map[Seg]int{}
	for _, s := range vlib.CanonSegs(b) {
		count[s]++
	}
	d := 0
	for _, s := range vlib.CanonSegs(a) {
		if count[s] > 0 {
			count[s]--
		} else {
			d++
		}
	}
	return d
}

func twoDSections(r *vlib.Run) {
	// ---- diagnostics
	r.Section("diag2", r.N(8000, 120000), vlib.SectionOpts{}, func(c *vlib.Case) {
		rng := c.Rng
		s := buildScene2(rng, scene2Opts{maxDepth: rng.Intn(3), maxComps: 1 + rng.Intn(4), childProb: 0.7})
		nOps := 0
		if rng.Intn(4) != 0 {
			nOps = 1 + rng.Intn(4)
		}
		segs, log := damage2(rng, s.allSegs(), nOps)
		if len(segs) == 0 {
			c.Undecided("diag2.empty")
			return
		}
		segs = shuffleSegs(rng, segs)
		wit := func() interface{} {
			return map[string]interface{}{"scene": s.describe(), "damage": log, "segments_hex": hexSegs(segs, 60)}
		}
		inc := map[C2]int{}
		first := map[C2]int{}
		second := map[C2]int{}
		for _, sg := range segs {
			inc[cleanZero2(sg[0])]++
			inc[cleanZero2(sg[1])]++
			first[cleanZero2(sg[0])]++
			second[cleanZero2(sg[1])]++
		}
		wantManifold := true
		for _, n := range inc {
			if n != 2 {
				wantManifold = false
			}
		}
		wantInc := map[C2]bool{}
		for v := range inc {
			if first[v] > 1 || second[v] > 1 {
				wantInc[v] = true
			}
		}
		m := mesh2Of(segs)
		c.Count("diag2.meshes", 1)
		c.Count(fmt.Sprintf("diag2.Manifold.ref_%v", wantManifold), 1)
		if got := m.Manifold(); got != wantManifold {
			c.Violationf("model2d.Mesh.Manifold/vertex-degree", wit(), "Manifold()=%v but the vertex degree census says %v", got, wantManifold)
		}
		got := m.InconsistentVertices()
		seen := map[C2]bool{}
		for _, v := range got {
			v = cleanZero2(v)
			if seen[v] {
				c.Violationf("model2d.Mesh.InconsistentVertices/duplicate-entry", wit(), "vertex %v reported twice", v)
			}
			seen[v] = true
		}
		if len(wantInc) > 0 {
			c.Count("diag2.InconsistentVertices.ref_nonempty", 1)
		}
		for v := range wantInc {
			if !seen[v] {
				c.Violationf("model2d.Mesh.InconsistentVertices/missing", wit(), "vertex %v starts %d and ends %d segments but is not reported", v, first[v], second[v])
				break
			}
		}
		for v := range seen {
			if !wantInc[v] {
				c.Violationf("model2d.Mesh.InconsistentVertices/extra", wit(), "vertex %v reported but starts %d and ends %d segments", v, first[v], second[v])
				break
			}
		}
		if nOps > 0 && (!wantManifold || len(wantInc) > 0) {
			c.Nontrivial(fmt.Sprintf("diag2|%s|%v", s.describe(), log))
		}
	})

	// ---- Repair
	r.Section("repair2", r.N(1500, 20000), vlib.SectionOpts{}, func(c *vlib.Case) {
		rng := c.Rng
		var clean []Seg
		var desc string
		lattice := rng.Intn(4) == 0
		if lattice {
			n := 1 + rng.Intn(4)
			h := float64(n) / 2
			ctr := xy(float64(rng.Intn(5)-2)+h, float64(rng.Intn(5)-2)+h)
			clean = rect2(ctr, h, h, n, 0)
			desc = fmt.Sprintf("latticesquare(n=%d)", n)
		} else {
			s := buildScene2(rng, scene2Opts{maxDepth: rng.Intn(3), maxComps: 1 + rng.Intn(4), childProb: 0.7})
			clean = s.allSegs()
			desc = s.describe()
		}
		if !vlib.AnalyzeSegs(clean).ClosedOrientedManifold() {
			c.Undecided("harness.repair2.clean-not-manifold")
			return
		}
		vs := vertsOf2(clean)
		dmin := math.Inf(1)
		for i := range vs {
			for j := i + 1; j < len(vs); j++ {
				d := math.Max(math.Abs(vs[i].X-vs[j].X), math.Abs(vs[i].Y-vs[j].Y))
				if d < dmin {
					dmin = d
				}
			}
		}
		var eps float64
		if lattice {
			eps = 2 / float64(2*(3+rng.Intn(4))+1)
		} else {
			eps = dmin / 3 * (0.2 + 0.79*rng.Float64())
		}
		if !(eps > 0) || dmin < 3*eps {
			c.Undecided("repair2.separation")
			return
		}
		// split every vertex with probability 0.6: the two incident segments get different copies
		jit := func() float64 {
			switch rng.Intn(6) {
			case 0:
				return eps / 4
			case 1:
				return -eps / 4
			default:
				return (rng.Float64()*2 - 1) * eps / 4
			}
		}
		origOf := map[C2]C2{}
		damaged := append([]Seg{}, clean...)
		splits := 0
		for _, v := range vs {
			split := rng.Float64() < 0.6
			if split {
				splits++
			}
			var cur C2
			n := 0
			for i, sg := range damaged {
				for k := 0; k < 2; k++ {
					if clean[i][k] != v {
						continue
					}
					if n == 0 || split {
						if n == 0 && rng.Intn(2) == 0 {
							cur = v
						} else {
							cur = cleanZero2(xy(v.X+jit(), v.Y+jit()))
						}
						origOf[cur] = v
					}
					n++
					sg[k] = cur
				}
				damaged[i] = sg
			}
		}
		damaged = shuffleSegs(rng, damaged)
		wit := func() interface{} {
			return map[string]interface{}{"clean": desc, "eps": eps, "eps_hex": vlib.Hex(eps), "min_linf_vertex_distance": dmin, "split_vertices": splits, "damaged_segments_hex": hexSegs(damaged, 40)}
		}
		m := mesh2Of(damaged)
		beforeRep := snap2(m)
		out := m.Repair(eps)
		untouched2(c, "model2d.Mesh.Repair", m, beforeRep)
		c.Count("repair2.decided", 1)
		if splits > 0 {
			c.Nontrivial(fmt.Sprintf("repair2|%s|%d|%x", desc, splits, eps))
		}
		outSegs := vlib.Segs(out)
		if len(outSegs) != len(clean) {
			c.Violationf("model2d.Mesh.Repair/face-count", wit(), "%d segments out for %d in", len(outSegs), len(clean))
			return
		}
		rep := map[C2]C2{}
		mapped := make([]Seg, len(outSegs))
		for i, sg := range outSegs {
			for k, p := range sg {
				o, ok := origOf[cleanZero2(p)]
				if !ok {
					c.Violationf("model2d.Mesh.Repair/foreign-vertex", wit(), "output vertex %v is not an input vertex", p)
					return
				}
				if prev, ok := rep[o]; ok && prev != cleanZero2(p) {
					c.Violationf("model2d.Mesh.Repair/merge-classes", wit(), "copies %v and %v of one vertex (<= eps/2 apart per axis, eps=%g) were not merged", prev, p, eps)
					return
				}
				rep[o] = cleanZero2(p)
				mapped[i][k] = o
			}
		}
		if ok, diff := vlib.EqualCanonSegs(vlib.CanonSegs(mapped), vlib.CanonSegs(clean)); !ok {
			c.Violationf("model2d.Mesh.Repair/face-multiset", wit(), "repaired mesh is not the clean mesh: %s", diff)
			return
		}
		if !out.Manifold() {
			c.Violationf("model2d.Mesh.Repair/diagnostics-clean", wit(), "Manifold() is false on a repaired mesh whose every vertex has degree two")
		}
		if iv := out.InconsistentVertices(); len(iv) != 0 {
			c.Violationf("model2d.Mesh.Repair/diagnostics-clean", wit(), "InconsistentVertices() returned %d vertices on a repaired, consistently oriented mesh", len(iv))
		}
	})

	// ---- RepairNormals
	r.Section("normals2", r.N(1500, 20000), vlib.SectionOpts{}, func(c *vlib.Case) {
		rng := c.Rng
		s := buildScene2(rng, scene2Opts{maxDepth: rng.Intn(5), maxComps: 1 + rng.Intn(10), childProb: 0.8})
		s.randomTransform(rng)
		comps, _, depth, ok := sceneCheck2(c, s, "normals2")
		if !ok {
			return
		}
		clean := s.allSegs()
		damaged := append([]Seg{}, clean...)
		nflip := 0
		p := []float64{0, 1, 0.5, 0.1, rng.Float64()}[rng.Intn(5)]
		for i := range damaged {
			if rng.Float64() < p {
				damaged[i] = flipSeg(damaged[i])
				nflip++
			}
		}
		damaged = shuffleSegs(rng, damaged)
		minR := math.Inf(1)
		for _, cc := range s.comps {
			minR = math.Min(minR, cc.rOut)
		}
		eps := minR * []float64{1e-2, 1e-3, 1e-4}[rng.Intn(3)]
		compOf := map[skey]int{}
		for ci, ss := range comps {
			for _, sg := range ss {
				compOf[keyOf2(sg)] = ci
			}
		}
		expected := make([]Seg, len(damaged))
		want := 0
		for i, sg := range damaged {
			d := sg[1].Sub(sg[0])
			n := xy(-d.Y, d.X)
			n = n.Scale(1 / n.Norm())
			moved := sg[0].Add(sg[1]).Scale(0.5).Add(n.Scale(eps))
			if minDistSegs(moved, clean) < eps*0.5 {
				c.Undecided("normals2.probe-too-close")
				return
			}
			inside, _, worst := evenOdd2(comps, moved)
			if worst > 1e-6 {
				c.Undecided("normals2.winding-margin")
				return
			}
			// definition: with w = winding of the own loop around points just left of the
			// segment... decided geometrically instead: a probe on the other side must be
			// classified oppositely, otherwise eps is not safe for this geometry.
			other := sg[0].Add(sg[1]).Scale(0.5).Sub(n.Scale(eps))
			insideOther, _, worst2 := evenOdd2(comps, other)
			if worst2 > 1e-6 || insideOther == inside {
				c.Undecided("normals2.eps-not-safe")
				return
			}
			if inside {
				expected[i] = flipSeg(sg)
				want++
			} else {
				expected[i] = sg
			}
		}
		m := mesh2Of(damaged)
		beforeRN := snap2(m)
		out, count := m.RepairNormals(eps)
		untouched2(c, "model2d.Mesh.RepairNormals", m, beforeRN)
		c.Count("normals2.decided", 1)
		maxDepth := 0
		for _, d := range depth {
			if d > maxDepth {
				maxDepth = d
			}
		}
		c.Count(fmt.Sprintf("normals2.scene_depth_%d", maxDepth), 1)
		if nflip > 0 {
			c.Nontrivial(fmt.Sprintf("normals2|%s|%d", s.describe(), nflip))
		}
		wit := map[string]interface{}{"scene": s.describe(), "eps": eps, "eps_hex": vlib.Hex(eps), "flipped": nflip, "depths": depth, "damaged_segments_hex": hexSegs(damaged, 40)}
		outSegs := vlib.Segs(out)
		if ok, diff := vlib.EqualCanonSegs(vlib.CanonSegs(outSegs), vlib.CanonSegs(expected)); !ok {
			c.Violationf("model2d.Mesh.RepairNormals/even-odd-orientation", wit, "output differs from the mesh whose every normal leaves the even-odd shape: %s", diff)
		} else if !vlib.AnalyzeSegs(outSegs).ClosedOrientedManifold() {
			c.Violationf("model2d.Mesh.RepairNormals/consistent", wit, "repaired mesh is not consistently oriented")
		}
		if count != want {
			c.Violationf("model2d.Mesh.RepairNormals/flip-count", wit, "reported %d modified segments, reference %d", count, want)
		}
		if d := segDiff(damaged, outSegs); d != count {
			c.Violationf("model2d.Mesh.RepairNormals/reported-vs-diff", wit, "reported %d modified segments but %d differ between input and output", count, d)
		}
	})

	// ---- hierarchy
	quick := r.Quick()
	r.Section("hier2", r.N(3000, 40000), vlib.SectionOpts{}, func(c *vlib.Case) {
		rng := c.Rng
		var s *scene2
		var shape string
		switch rng.Intn(6) {
		case 0:
			s, shape = buildScene2(rng, scene2Opts{maxDepth: 4 + rng.Intn(3), maxComps: 60, childProb: 1}), "deep"
		case 1:
			g := 2 + rng.Intn(13)
			if quick && g > 8 {
				g = 8
			}
			s, shape = buildScene2(rng, scene2Opts{maxDepth: rng.Intn(2), maxComps: 220, childProb: 0.3, grid: g}), fmt.Sprintf("grid%d", g)
		case 2:
			s, shape = buildScene2(rng, scene2Opts{maxDepth: 0, maxComps: 1}), "single"
		default:
			s, shape = buildScene2(rng, scene2Opts{maxDepth: 1 + rng.Intn(4), maxComps: 4 + rng.Intn(30), childProb: 0.85}), "tree"
		}
		s.randomTransform(rng)
		comps, encl, depth, ok := sceneCheck2(c, s, "hier2")
		if !ok {
			return
		}
		clean := s.allSegs()
		input := shuffleSegs(rng, clean)
		compOf := map[skey]int{}
		for ci, ss := range comps {
			for _, sg := range ss {
				compOf[keyOf2(sg)] = ci
			}
		}
		wit := func(extra map[string]interface{}) interface{} {
			w := map[string]interface{}{"scene": s.describe(), "shape": shape, "components": len(comps), "reference_depths": depth, "segments_hex": hexSegs(input, 40)}
			for k, v := range extra {
				w[k] = v
			}
			return w
		}
		m := mesh2Of(input)
		beforeH := snap2(m)
		roots := model2d.MeshToHierarchy(m)
		untouched2(c, "model2d.MeshToHierarchy", m, beforeH)
		nodes := flattenHier2(roots)
		c.Count("hier2.decided", 1)
		maxDepth := 0
		for _, d := range depth {
			if d > maxDepth {
				maxDepth = d
			}
		}
		c.Count(fmt.Sprintf("hier2.depth_%d", maxDepth), 1)
		c.Max("hier2.max_components", float64(len(comps)))
		if maxDepth > 0 {
			c.Count("hier2.nested_cases", 1)
		}
		if len(comps) >= 2 {
			c.Nontrivial("hier2|" + s.describe())
		}
		var union []Seg
		for _, n := range nodes {
			union = append(union, vlib.Segs(n.h.Mesh)...)
		}
		if ok, diff := vlib.EqualCanonSegs(vlib.CanonSegs(union), vlib.CanonSegs(input)); !ok {
			c.Violationf("model2d.MeshToHierarchy/face-multiset", wit(nil), "union of all node meshes differs from the input: %s", diff)
			return
		}
		nodeOfComp := make([]int, len(comps))
		for i := range nodeOfComp {
			nodeOfComp[i] = -1
		}
		for ni, n := range nodes {
			ss := vlib.Segs(n.h.Mesh)
			if len(ss) == 0 {
				c.Violationf("model2d.MeshToHierarchy/node-is-component", wit(nil), "node %d has an empty mesh", ni)
				return
			}
			ci := compOf[keyOf2(ss[0])]
			for _, sg := range ss {
				if compOf[keyOf2(sg)] != ci {
					c.Violationf("model2d.MeshToHierarchy/node-is-component", wit(nil), "node %d mixes components", ni)
					return
				}
			}
			if len(ss) != len(comps[ci]) || nodeOfComp[ci] >= 0 {
				c.Violationf("model2d.MeshToHierarchy/node-is-component", wit(nil), "component %d is split over several nodes", ci)
				return
			}
			nodeOfComp[ci] = ni
			n.comp = ci
		}
		for ni, n := range nodes {
			anc := map[int]bool{}
			for p := n.parent; p >= 0; p = nodes[p].parent {
				anc[nodes[p].comp] = true
			}
			for a := range comps {
				if a != n.comp && encl[a][n.comp] != anc[a] {
					c.Violationf("model2d.MeshToHierarchy/nesting", wit(map[string]interface{}{"component": n.comp, "other": a}),
						"component %d: reference says component %d encloses it = %v, hierarchy ancestors say %v (node %d)", n.comp, a, encl[a][n.comp], anc[a], ni)
					return
				}
			}
		}
		var subtree func(ni int) []Seg
		subtree = func(ni int) []Seg {
			res := vlib.Segs(nodes[ni].h.Mesh)
			for _, ch := range nodes[ni].children {
				res = append(res, subtree(ch)...)
			}
			return res
		}
		for ni, n := range nodes {
			if len(n.children) == 0 && rng.Intn(4) != 0 {
				continue
			}
			c.Count("hier2.FullMesh.calls", 1)
			if ok, diff := vlib.EqualCanonSegs(vlib.CanonSegs(vlib.Segs(n.h.FullMesh())), vlib.CanonSegs(subtree(ni))); !ok {
				c.Violationf("model2d.MeshHierarchy.FullMesh/subtree-multiset", wit(map[string]interface{}{"node": ni}), "FullMesh of node %d differs from its subtree: %s", ni, diff)
				break
			}
		}
		for ni, n := range nodes {
			lo, hi := boundsOf2(vlib.Segs(n.h.Mesh))
			if n.h.Min() != lo || n.h.Max() != hi {
				c.Violationf("model2d.MeshHierarchy.Min/bounds", wit(map[string]interface{}{"node": ni}), "node %d: Min/Max = %v %v, bounding box of its mesh = %v %v", ni, n.h.Min(), n.h.Max(), lo, hi)
				break
			}
		}
		containsAny := func(hs []*model2d.MeshHierarchy, p C2) bool {
			res := false
			for _, h := range hs {
				if h.Contains(p) {
					res = true
				}
			}
			return res
		}
		shift := xy(float64(rng.Intn(9)-4)/4, float64(rng.Intn(9)-4)/4)
		doMap := rng.Intn(3) == 0
		var mapped []*model2d.MeshHierarchy
		if doMap {
			for _, h := range roots {
				mapped = append(mapped, h.MapCoords(func(p C2) C2 { return p.Add(shift) }))
			}
		}
		for q := 0; q < 30; q++ {
			cc := s.comps[rng.Intn(len(s.comps))]
			var p C2
			switch rng.Intn(3) {
			case 0:
				sg := cc.segs[rng.Intn(len(cc.segs))]
				d := sg[1].Sub(sg[0])
				n := xy(-d.Y, d.X)
				n = n.Scale(1 / n.Norm())
				off := cc.rOut * 0.02 * (rng.Float64() + 0.2)
				if rng.Intn(2) == 0 {
					off = -off
				}
				p = sg[0].Add(d.Scale(rng.Float64())).Add(n.Scale(off))
			case 1:
				th := rng.Float64() * 2 * math.Pi
				p = cc.center.Add(xy(math.Cos(th), math.Sin(th)).Scale(cc.freeRad * rng.Float64()))
			default:
				p = cc.center.Add(xy(rng.Float64()*2-1, rng.Float64()*2-1).Scale(cc.rOut * 1.3))
			}
			if minDistSegs(p, clean) < 1e-4*cc.rOut {
				c.Undecided("hier2.Contains.near-surface")
				continue
			}
			want, d, worst := evenOdd2(comps, p)
			if worst > 1e-6 {
				c.Undecided("hier2.Contains.winding-margin")
				continue
			}
			got := containsAny(roots, p)
			c.Count("hier2.contains_queries", 1)
			c.Count(fmt.Sprintf("hier2.contains_ref_depth_%d", d), 1)
			if got != want {
				if rayNearVertex2(clean, p, libRayDir2) < 1e-9 {
					c.Undecided("hier2.Contains.parity-ray-grazes-vertex")
					continue
				}
				c.Violationf("model2d.MeshHierarchy.Contains/even-odd",
					wit(map[string]interface{}{"point_hex": fmt.Sprintf("(%x,%x)", p.X, p.Y), "point": p, "enclosing_components": d}),
					"Contains(%v)=%v but the point is enclosed by %d loops (even-odd: %v)", p, got, d, want)
				break
			}
			if doMap {
				c.Count("hier2.MapCoords.queries", 1)
				p2 := p.Add(shift)
				if got2 := containsAny(mapped, p2); got2 != want {
					if rayNearVertex2(clean, p, libRayDir2) < 1e-7 {
						c.Undecided("hier2.Contains.parity-ray-grazes-vertex")
						continue
					}
					c.Violationf("model2d.MeshHierarchy.MapCoords/contains", wit(map[string]interface{}{"point": p2, "shift": shift}),
						"after MapCoords(translate %v): Contains(%v)=%v, even-odd says %v", shift, p2, got2, want)
					break
				}
			}
		}
		c.Sample("hier2."+shape, 1, map[string]interface{}{"scene": s.describe(), "components": len(comps), "depths": depth})
	})
}

var _ = sort.Ints

// reoriented2 records (as evidence only, never as a violation) what the 2D
// hierarchy builder does with a manifold mesh whose loops are not consistently
// oriented: Manifold() accepts it, removeAllConnected then panics "mesh is
// non-manifold" (model2d/mesh_hierarchy.go:145). The doc comment only asks for
// a manifold mesh without self-intersections; this looks like the library's
// original, undocumented precondition, so it is observed, not judged (see the
// notes at the top of main.go).
func reoriented2(r *vlib.Run) {
	r.Section("hier2-reoriented-observation", r.N(40, 200), vlib.SectionOpts{}, func(c *vlib.Case) {
		rng := c.Rng
		s := buildScene2(rng, scene2Opts{maxDepth: rng.Intn(3), maxComps: 1 + rng.Intn(5), childProb: 0.8})
		segs := s.allSegs()
		j := rng.Intn(len(segs))
		segs[j] = flipSeg(segs[j])
		m := mesh2Of(segs)
		if !m.Manifold() || vlib.AnalyzeSegs(segs).ClosedOrientedManifold() {
			return
		}
		func() {
			defer func() {
				if e := recover(); e != nil {
					c.Count("hier2.reoriented_input.panics_observed", 1)
				}
			}()
			model2d.MeshToHierarchy(m)
			c.Count("hier2.reoriented_input.accepted", 1)
		}()
	})
}
