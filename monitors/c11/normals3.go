package main

// Section "normals3": RepairNormals (even-odd) and RepairNormalsMajority on
// closed manifold scenes with randomly flipped faces.

import (
	"fmt"
	"sort"

	"verif/vlib"
)

type vkey [3]C3

func keyOf(t Tri) vkey {
	v := []C3{cleanZero(t[0]), cleanZero(t[1]), cleanZero(t[2])}
	sort.Slice(v, func(i, j int) bool {
		a, b := v[i], v[j]
		if a.X != b.X {
			return a.X < b.X
		}
		if a.Y != b.Y {
			return a.Y < b.Y
		}
		return a.Z < b.Z
	})
	return vkey{v[0], v[1], v[2]}
}

// sameOrientation reports whether a and b (same vertex set) are the same
// oriented triangle up to rotation.
func sameOrientation(a, b Tri) bool {
	for k := 0; k < 3; k++ {
		if a[0] == b[k] && a[1] == b[(k+1)%3] && a[2] == b[(k+2)%3] {
			return true
		}
	}
	return false
}

func compTris(s *scene3) [][]Tri {
	res := make([][]Tri, len(s.comps))
	for i, c := range s.comps {
		res[i] = c.tris
	}
	return res
}

// depthByWinding computes, for every component, the number of other components
// enclosing it (reference point-in-polyhedron on one of its vertices), and the
// enclosure matrix. ok=false if a winding sum was not close to an integer.
func depthByWinding(comps [][]Tri) (encl [][]bool, depth []int, ok bool) {
	n := len(comps)
	encl = make([][]bool, n)
	depth = make([]int, n)
	ok = true
	for a := 0; a < n; a++ {
		encl[a] = make([]bool, n)
	}
	for b := 0; b < n; b++ {
		p := comps[b][0][0]
		for a := 0; a < n; a++ {
			if a == b {
				continue
			}
			w, frac := vlib.WindingSolidAngle(comps[a], p)
			if frac > 1e-6 {
				ok = false
			}
			if w%2 != 0 {
				encl[a][b] = true
				depth[b]++
			}
		}
	}
	return
}

func normals3Sections(r *vlib.Run) {
	r.Section("normals3", r.N(700, 9000), vlib.SectionOpts{}, func(c *vlib.Case) {
		rng := c.Rng
		s := buildScene3(rng, sceneOpts{maxDepth: rng.Intn(4), maxComps: 1 + rng.Intn(6), maxLevel: 2, maxSub: 3,
			childProb: 0.8, allowTorus: true, rotate: rng.Intn(2) == 0})
		s.randomTransform(rng)
		comps := compTris(s)
		clean := s.allTris()
		if len(clean) > 1600 {
			c.Undecided("normals3.too-large")
			return
		}
		if !vlib.AnalyzeTris(clean).ClosedOrientedManifold() {
			c.Undecided("harness.normals3.clean-not-manifold")
			return
		}
		encl, depth, ok := depthByWinding(comps)
		if !ok {
			c.Undecided("normals3.winding-margin")
			return
		}
		// cross-check the reference nesting against the construction
		for b, cb := range s.comps {
			d := 0
			for p := cb.parent; p >= 0; p = s.comps[p].parent {
				d++
				if !encl[p][b] {
					c.Undecided("harness.normals3.nesting-mismatch")
					return
				}
			}
			if d != depth[b] {
				c.Undecided("harness.normals3.nesting-mismatch")
				return
			}
		}
		// clean face index
		type info struct {
			comp int
			tri  Tri
		}
		index := map[vkey]info{}
		for ci, ts := range comps {
			for _, t := range ts {
				index[keyOf(t)] = info{ci, t}
			}
		}
		// flip faces
		damaged := append([]Tri{}, clean...)
		flippedPerComp := make([]int, len(comps))
		sizePerComp := make([]int, len(comps))
		off := 0
		var flipLog []string
		for ci, ts := range comps {
			sizePerComp[ci] = len(ts)
			var p float64
			switch rng.Intn(7) {
			case 0:
				p = 0
			case 1:
				p = 1
			case 2:
				p = 0.5
			case 3:
				p = 0.1
			case 4:
				p = 0.9
			default:
				p = rng.Float64()
			}
			for i := range ts {
				if rng.Float64() < p {
					damaged[off+i] = flipTri(damaged[off+i])
					flippedPerComp[ci]++
				}
			}
			// exact ties are interesting for the majority vote
			if rng.Intn(4) == 0 && len(ts)%2 == 0 {
				for i := range ts {
					want := i < len(ts)/2
					is := !sameOrientation(damaged[off+i], ts[i])
					if want != is {
						damaged[off+i] = flipTri(damaged[off+i])
					}
				}
				flippedPerComp[ci] = len(ts) / 2
			}
			flipLog = append(flipLog, fmt.Sprintf("%d/%d", flippedPerComp[ci], len(ts)))
			off += len(ts)
		}
		damaged = shuffleTris(rng, damaged)
		totalFlipped := 0
		for _, k := range flippedPerComp {
			totalFlipped += k
		}
		wit := func(extra map[string]interface{}) interface{} {
			w := map[string]interface{}{"scene": s.describe(), "flipped_per_component": flipLog, "depth_per_component": depth,
				"faces": len(damaged), "damaged_triangles_hex": hexTris(damaged, 30)}
			for k, v := range extra {
				w[k] = v
			}
			return w
		}

		// ---- FaceOrientations: one group per component, flags = relative orientation
		{
			m := meshOf(damaged)
			groups := m.FaceOrientations()
			c.Count("normals3.FaceOrientations.calls", 1)
			if len(groups) != len(comps) {
				c.Violationf("model3d.Mesh.FaceOrientations/groups", wit(nil), "%d groups for %d connected components", len(groups), len(comps))
			} else {
			groupLoop:
				for gi, g := range groups {
					comp := -1
					var ref, haveRef bool
					for t, flag := range g {
						tt := Tri{t[0], t[1], t[2]}
						inf, ok := index[keyOf(tt)]
						if !ok {
							c.Violationf("model3d.Mesh.FaceOrientations/groups", wit(nil), "group %d holds a face that is not in the mesh", gi)
							break groupLoop
						}
						if comp < 0 {
							comp = inf.comp
						} else if comp != inf.comp {
							c.Violationf("model3d.Mesh.FaceOrientations/groups", wit(nil), "group %d mixes components %d and %d", gi, comp, inf.comp)
							break groupLoop
						}
						rel := flag != sameOrientation(tt, inf.tri) // constant over a correct group
						if !haveRef {
							ref, haveRef = rel, true
						} else if rel != ref {
							c.Violationf("model3d.Mesh.FaceOrientations/relative-orientation", wit(map[string]interface{}{"component": comp}),
								"flipping the flagged faces of group %d (component %d) does not give a consistent orientation", gi, comp)
							break groupLoop
						}
					}
					if comp >= 0 && len(g) != sizePerComp[comp] {
						c.Violationf("model3d.Mesh.FaceOrientations/groups", wit(nil), "group %d has %d faces, component %d has %d", gi, len(g), comp, sizePerComp[comp])
						break
					}
				}
			}
		}

		// ---- RepairNormalsMajority
		{
			m := meshOf(damaged)
			beforeMaj := snap3(m)
			out, count := m.RepairNormalsMajority()
			untouched3(c, "model3d.Mesh.RepairNormalsMajority", m, beforeMaj)
			c.Count("normals3.RepairNormalsMajority.decided", 1)
			wantCount := 0
			ties := 0
			for ci := range comps {
				k, n := flippedPerComp[ci], sizePerComp[ci]
				if k < n-k {
					wantCount += k
				} else {
					wantCount += n - k
				}
				if 2*k == n {
					ties++
				}
			}
			if ties > 0 {
				c.Count("normals3.RepairNormalsMajority.tie_components", int64(ties))
			}
			outTris := vlib.Tris(out)
			if len(outTris) != len(clean) {
				c.Violationf("model3d.Mesh.RepairNormalsMajority/face-count", wit(nil), "%d faces out for %d in", len(outTris), len(clean))
			} else {
				sameN := make([]int, len(comps))
				revN := make([]int, len(comps))
				bad := false
				for _, t := range outTris {
					inf, ok := index[keyOf(t)]
					if !ok {
						c.Violationf("model3d.Mesh.RepairNormalsMajority/face-multiset", wit(nil), "output face %v is not a face of the input", t)
						bad = true
						break
					}
					if sameOrientation(t, inf.tri) {
						sameN[inf.comp]++
					} else {
						revN[inf.comp]++
					}
				}
				if !bad {
					for ci := range comps {
						k, n := flippedPerComp[ci], sizePerComp[ci]
						if sameN[ci]+revN[ci] != n {
							c.Violationf("model3d.Mesh.RepairNormalsMajority/face-multiset", wit(nil), "component %d has %d faces in the output, %d in the input", ci, sameN[ci]+revN[ci], n)
							break
						}
						if sameN[ci] != 0 && revN[ci] != 0 {
							c.Violationf("model3d.Mesh.RepairNormalsMajority/component-consistent", wit(map[string]interface{}{"component": ci}),
								"component %d (flipped %d of %d) is still inconsistently oriented: %d faces one way, %d the other", ci, k, n, sameN[ci], revN[ci])
							break
						}
						if 2*k < n && revN[ci] != 0 {
							c.Violationf("model3d.Mesh.RepairNormalsMajority/majority-orientation", wit(map[string]interface{}{"component": ci}),
								"component %d had a minority of %d/%d faces flipped but the result follows the minority", ci, k, n)
							break
						}
						if 2*k > n && sameN[ci] != 0 {
							c.Violationf("model3d.Mesh.RepairNormalsMajority/majority-orientation", wit(map[string]interface{}{"component": ci}),
								"component %d had a majority of %d/%d faces flipped but the result follows the minority", ci, k, n)
							break
						}
					}
					if count != wantCount {
						c.Violationf("model3d.Mesh.RepairNormalsMajority/flip-count", wit(nil),
							"reported %d flipped faces, sum over components of min(k,n-k) is %d", count, wantCount)
					}
					// face-wise diff against the input
					if d := faceDiff(damaged, outTris); d != count {
						c.Violationf("model3d.Mesh.RepairNormalsMajority/reported-vs-diff", wit(nil),
							"reported %d flipped faces but %d faces differ between input and output", count, d)
					}
				}
			}
		}

		// ---- RepairNormals (even-odd)
		minR := s.comps[0].rOut
		for _, cc := range s.comps {
			if cc.rOut < minR {
				minR = cc.rOut
			}
		}
		eps := minR * []float64{1e-2, 1e-3, 1e-4}[rng.Intn(3)]
		// per-face reference following the documented procedure
		wantFlips := 0
		expected := make([]Tri, len(damaged))
		for i, t := range damaged {
			n := t[1].Sub(t[0]).Cross(t[2].Sub(t[0]))
			n = n.Scale(1 / n.Norm())
			center := t[0].Add(t[1]).Add(t[2]).Scale(1.0 / 3)
			moved := center.Add(n.Scale(eps))
			if vlib.MinDistToTris(moved, clean) < eps*0.5 {
				c.Undecided("normals3.RepairNormals.probe-too-close")
				return
			}
			inside, _, worst := evenOdd3(comps, moved)
			if worst > 1e-6 {
				c.Undecided("normals3.RepairNormals.winding-margin")
				return
			}
			// definition: the normal must leave the even-odd solid
			inf := index[keyOf(t)]
			outwardOfOwn := sameOrientation(t, inf.tri)
			pointsOutOfSolid := outwardOfOwn == (depth[inf.comp]%2 == 0)
			if inside == pointsOutOfSolid {
				// thin geometry: the eps probe does not see the side the definition names
				c.Undecided("normals3.RepairNormals.eps-not-safe")
				return
			}
			if inside {
				wantFlips++
				expected[i] = flipTri(t)
			} else {
				expected[i] = t
			}
		}
		m := meshOf(damaged)
		beforeRN := snap3(m)
		out, count := m.RepairNormals(eps)
		untouched3(c, "model3d.Mesh.RepairNormals", m, beforeRN)
		c.Count("normals3.RepairNormals.decided", 1)
		if wantFlips > 0 {
			c.Count("normals3.RepairNormals.with_flips", 1)
		}
		maxDepth := 0
		for _, d := range depth {
			if d > maxDepth {
				maxDepth = d
			}
		}
		c.Count(fmt.Sprintf("normals3.scene_depth_%d", maxDepth), 1)
		if totalFlipped > 0 {
			c.Nontrivial(fmt.Sprintf("normals3|%s|%v", s.describe(), flipLog))
		}
		outTris := vlib.Tris(out)
		w := wit(map[string]interface{}{"eps": eps, "eps_hex": vlib.Hex(eps)})
		if ok, diff := vlib.EqualCanonTris(vlib.CanonTris(outTris), vlib.CanonTris(expected)); !ok {
			c.Violationf("model3d.Mesh.RepairNormals/even-odd-orientation", w,
				"output differs from the mesh whose every normal leaves the even-odd solid: %s", diff)
		} else if inc := analyze3(outTris).inconsistent(); len(inc) != 0 {
			c.Violationf("model3d.Mesh.RepairNormals/consistent", w, "%d inconsistent edges after repair", len(inc))
		}
		if count != wantFlips {
			c.Violationf("model3d.Mesh.RepairNormals/flip-count", w, "reported %d modified triangles, reference %d", count, wantFlips)
		}
		if d := faceDiff(damaged, outTris); d != count {
			c.Violationf("model3d.Mesh.RepairNormals/reported-vs-diff", w, "reported %d modified triangles but %d faces differ between input and output", count, d)
		}
		c.Sample("normals3", 1, map[string]interface{}{"scene": s.describe(), "flipped": flipLog, "depth": depth, "eps": eps})
	})
}

// faceDiff counts faces of a that do not occur in b with the same orientation
// (multiset difference, rotation-insensitive).
func faceDiff(a, b []Tri) int {
	cb := vlib.CanonTris(b)
	count := map[Tri]int{}
	for _, t := range cb {
		count[t]++
	}
	d := 0
	for _, t := range vlib.CanonTris(a) {
		if count[t] > 0 {
			count[t]--
		} else {
			d++
		}
	}
	return d
}
