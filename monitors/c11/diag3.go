package main

// Section "diag3": NeedsRepair / SingularVertices / InconsistentEdges /
// Orientable on clean and deliberately damaged meshes, against the
// definition-level oracle of oracle3.go.

import (
	"fmt"
	"math/rand"

	"github.com/unixpickle/model3d/model3d"
	"verif/vlib"
)

func flipTri(t Tri) Tri { return Tri{t[1], t[0], t[2]} }

func dropDegenerate(tris []Tri) []Tri {
	res := tris[:0:0]
	for _, t := range tris {
		if t[0] == t[1] || t[1] == t[2] || t[0] == t[2] {
			continue
		}
		res = append(res, t)
	}
	return res
}

func vertsOf(tris []Tri) []C3 {
	seen := map[C3]bool{}
	var res []C3
	for _, t := range tris {
		for _, p := range t {
			if !seen[p] {
				seen[p] = true
				res = append(res, p)
			}
		}
	}
	return res
}

func tetra(a, b, c, d C3) []Tri {
	ts := []Tri{{a, b, c}, {a, c, d}, {a, d, b}, {b, d, c}}
	cen := a.Add(b).Add(c).Add(d).Scale(0.25)
	orientAway(ts, func(Tri) C3 { return cen })
	return ts
}

// damage3 applies random damage operators; returns the new soup and a log.
func damage3(rng *rand.Rand, tris []Tri, nOps int) ([]Tri, []string) {
	var log []string
	res := append([]Tri{}, tris...)
	for op := 0; op < nOps && len(res) > 0; op++ {
		switch rng.Intn(9) {
		case 0: // remove faces
			k := 1 + rng.Intn(3)
			for i := 0; i < k && len(res) > 1; i++ {
				j := rng.Intn(len(res))
				res[j] = res[len(res)-1]
				res = res[:len(res)-1]
			}
			log = append(log, fmt.Sprintf("remove%d", k))
		case 1: // remove the whole fan of a vertex
			vs := vertsOf(res)
			v := vs[rng.Intn(len(vs))]
			var keep []Tri
			for _, t := range res {
				if t[0] != v && t[1] != v && t[2] != v {
					keep = append(keep, t)
				}
			}
			if len(keep) > 0 {
				res = keep
				log = append(log, "removefan")
			}
		case 2: // duplicate faces (same or opposite orientation, maybe rotated)
			k := 1 + rng.Intn(2)
			for i := 0; i < k; i++ {
				t := res[rng.Intn(len(res))]
				if rng.Intn(2) == 0 {
					t = flipTri(t)
				}
				if rng.Intn(2) == 0 {
					t = Tri{t[1], t[2], t[0]}
				}
				res = append(res, t)
			}
			log = append(log, fmt.Sprintf("dup%d", k))
		case 3: // flip some faces
			k := 1 + rng.Intn(4)
			for i := 0; i < k; i++ {
				j := rng.Intn(len(res))
				res[j] = flipTri(res[j])
			}
			log = append(log, fmt.Sprintf("flip%d", k))
		case 4: // pinch: identify two vertices
			vs := vertsOf(res)
			if len(vs) < 2 {
				continue
			}
			a, b := vs[rng.Intn(len(vs))], vs[rng.Intn(len(vs))]
			if a == b {
				continue
			}
			for i, t := range res {
				for k := 0; k < 3; k++ {
					if t[k] == a {
						t[k] = b
					}
				}
				res[i] = t
			}
			res = dropDegenerate(res)
			log = append(log, "pinch")
		case 5: // crack: give part of a vertex' fan its own copy of the vertex
			vs := vertsOf(res)
			v := vs[rng.Intn(len(vs))]
			v2 := v.Add(xyz(1.0/1024, 1.0/2048, -1.0/4096))
			n := 0
			for i, t := range res {
				if rng.Intn(2) == 0 {
					continue
				}
				for k := 0; k < 3; k++ {
					if t[k] == v {
						t[k] = v2
						n++
					}
				}
				res[i] = t
			}
			log = append(log, fmt.Sprintf("crack%d", n))
		case 6: // extra combinatorial surface
			switch rng.Intn(5) {
			case 0:
				res = append(res, stripTris(rng, 3+rng.Intn(6), true)...)
				log = append(log, "moebius")
			case 1:
				res = append(res, stripTris(rng, 3+rng.Intn(6), false)...)
				log = append(log, "cylinder")
			case 2:
				res = append(res, gridSurface(rng, 3+rng.Intn(3), 3+rng.Intn(3), "klein")...)
				log = append(log, "klein")
			case 3:
				res = append(res, gridSurface(rng, 3+rng.Intn(3), 3+rng.Intn(3), "torus")...)
				log = append(log, "gridtorus")
			default:
				res = append(res, gridSurface(rng, 1+rng.Intn(3), 1+rng.Intn(3), "disc")...)
				log = append(log, "disc")
			}
		case 7: // a tetrahedron touching the mesh at a vertex / along an edge / on a face
			t := res[rng.Intn(len(res))]
			far := randPoints(rng, 3)
			for i := range far {
				far[i].Z += 20
			}
			switch rng.Intn(3) {
			case 0:
				res = append(res, tetra(t[0], far[0], far[1], far[2])...)
				log = append(log, "touch-vertex")
			case 1:
				res = append(res, tetra(t[0], t[1], far[0], far[1])...)
				log = append(log, "touch-edge")
			default:
				res = append(res, tetra(t[0], t[1], t[2], far[0])...)
				log = append(log, "touch-face")
			}
		default: // flip a whole edge-connected component
			r := analyze3(res)
			comp, n := r.components()
			pick := rng.Intn(n)
			for i := range res {
				if comp[i] == pick {
					res[i] = flipTri(res[i])
				}
			}
			log = append(log, "flipcomp")
		}
	}
	return dropDegenerate(res), log
}

// touchingBoxes: unit boxes on the integer lattice chosen so that some share
// only an edge or only a vertex (classic non-manifold contacts).
func touchingBoxes(rng *rand.Rand) ([]Tri, string) {
	var tris []Tri
	n := 2 + rng.Intn(3)
	used := map[[3]int]bool{}
	cur := [3]int{0, 0, 0}
	desc := "boxes:"
	for i := 0; i < n; i++ {
		if !used[cur] {
			used[cur] = true
			ctr := xyz(float64(cur[0])+0.5, float64(cur[1])+0.5, float64(cur[2])+0.5)
			tris = append(tris, boxTris(ctr, xyz(0.5, 0.5, 0.5), 1, identRot(), rng)...)
			desc += fmt.Sprint(cur)
		}
		// step diagonally (edge contact), body-diagonally (vertex contact) or by a face
		switch rng.Intn(3) {
		case 0:
			cur[0]++
			cur[1]++
		case 1:
			cur[0]++
			cur[1]++
			cur[2]++
		default:
			cur[rng.Intn(3)]++
		}
	}
	return tris, desc
}

func diag3Sections(r *vlib.Run) {
	r.Section("diag3", r.N(10000, 150000), vlib.SectionOpts{}, func(c *vlib.Case) {
		rng := c.Rng
		var base []Tri
		var desc string
		switch rng.Intn(7) {
		case 6:
			// vertices that collide in the coordinate hash (see collide.go)
			var ok bool
			base, _, ok = collidingBipyramid(rng, xyz(1.5+2*rng.Float64(), 0.5+2*rng.Float64(), 0.2*rng.Float64()), 0.3+0.5*rng.Float64())
			desc = "hash-colliding-bipyramid"
			if !ok {
				base = tetra(xyz(0, 0, 0), xyz(1, 0, 0), xyz(0, 1, 0), xyz(0, 0, 1))
				desc = "tetra"
			}
		case 0:
			base, desc = touchingBoxes(rng)
		case 1:
			base = tetra(xyz(0, 0, 0), xyz(1, 0, 0), xyz(0, 1, 0), xyz(0, 0, 1))
			desc = "tetra"
		case 2:
			base = gridSurface(rng, 3+rng.Intn(3), 3+rng.Intn(3), []string{"klein", "torus", "disc"}[rng.Intn(3)])
			desc = "gridsurface"
		case 3:
			base = stripTris(rng, 3+rng.Intn(7), rng.Intn(2) == 0)
			desc = "strip"
		default:
			s := buildScene3(rng, sceneOpts{maxDepth: rng.Intn(3), maxComps: 1 + rng.Intn(4), maxLevel: 2, maxSub: 3, childProb: 0.7, allowTorus: true, rotate: true})
			base = s.allTris()
			desc = s.describe()
		}
		nOps := 0
		if rng.Intn(5) != 0 {
			nOps = 1 + rng.Intn(4)
		}
		tris, log := damage3(rng, base, nOps)
		if len(tris) == 0 {
			c.Undecided("diag3.empty")
			return
		}
		tris = shuffleTris(rng, tris)
		ref := analyze3(tris)
		wit := func() interface{} {
			return map[string]interface{}{"base": desc, "damage": log, "faces": len(tris), "triangles_hex": hexTris(tris, 60)}
		}
		m := meshOf(tris)
		c.Count("diag3.meshes", 1)
		sig := fmt.Sprintf("%s|%v|%d", desc, log, len(tris))

		// optionally build the vertex index first / query in a different order
		order := rng.Intn(2)
		if order == 1 {
			_ = m.SingularVertices()
		}

		// NeedsRepair
		want := ref.needsRepair()
		got := m.NeedsRepair()
		c.Count(fmt.Sprintf("diag3.NeedsRepair.ref_%v", want), 1)
		if ref.maxEdgeCount() > 2 {
			c.Count("diag3.NeedsRepair.edge_with_3plus_faces", 1)
		}
		if got != want {
			c.Violationf("model3d.Mesh.NeedsRepair/edge-count", wit(),
				"NeedsRepair()=%v but the exhaustive edge census says %v (max faces on an edge: %d)", got, want, ref.maxEdgeCount())
		}

		// SingularVertices
		sing, amb := ref.singular()
		gotSing := m.SingularVertices()
		seen := map[C3]bool{}
		for _, v := range gotSing {
			v = cleanZero(v)
			if seen[v] {
				c.Violationf("model3d.Mesh.SingularVertices/duplicate-entry", wit(), "vertex %v reported twice", v)
			}
			seen[v] = true
		}
		c.Count("diag3.SingularVertices.calls", 1)
		if len(sing) > 0 {
			c.Count("diag3.SingularVertices.ref_nonempty", 1)
		}
		c.Count("diag3.SingularVertices.ambiguous_vertices_skipped", int64(len(amb)))
		for v := range sing {
			if !seen[v] {
				c.Violationf("model3d.Mesh.SingularVertices/missing", wit(),
					"vertex %v has a disconnected fan but is not reported (reported %d, reference %d)", v, len(gotSing), len(sing))
				break
			}
		}
		for v := range seen {
			if !sing[v] && !amb[v] {
				_, isVertex := ref.vid[v]
				c.Violationf("model3d.Mesh.SingularVertices/extra", wit(),
					"vertex %v reported singular but its fan is connected (is a mesh vertex: %v)", v, isVertex)
				break
			}
		}

		// InconsistentEdges
		inc := ref.inconsistent()
		gotInc := m.InconsistentEdges()
		seenE := map[[2]C3]bool{}
		for _, e := range gotInc {
			e = [2]C3{cleanZero(e[0]), cleanZero(e[1])}
			if seenE[e] {
				c.Violationf("model3d.Mesh.InconsistentEdges/duplicate-entry", wit(), "edge %v reported twice", e)
			}
			seenE[e] = true
		}
		c.Count("diag3.InconsistentEdges.calls", 1)
		if len(inc) > 0 {
			c.Count("diag3.InconsistentEdges.ref_nonempty", 1)
		}
		for e := range inc {
			if !seenE[e] {
				c.Violationf("model3d.Mesh.InconsistentEdges/missing", wit(),
					"directed edge %v is traversed twice in the same direction but not reported", e)
				break
			}
		}
		for e := range seenE {
			if !inc[e] {
				c.Violationf("model3d.Mesh.InconsistentEdges/extra", wit(),
					"directed edge %v reported but traversed at most once in that direction", e)
				break
			}
		}

		// Orientable (posed for edge-manifold soups only)
		if wantO, ok := ref.orientable(); ok {
			gotO := m.Orientable()
			c.Count(fmt.Sprintf("diag3.Orientable.ref_%v", wantO), 1)
			if gotO != wantO {
				c.Violationf("model3d.Mesh.Orientable/two-colouring", wit(),
					"Orientable()=%v but the reference 2-colouring says %v", gotO, wantO)
			}
			if wantO {
				// FaceOrientations precondition holds when additionally closed
				sig += "|o"
			}
		} else {
			c.Undecided("diag3.Orientable.not-edge-manifold")
		}
		if nOps > 0 && (want || len(sing) > 0 || len(inc) > 0) {
			c.Nontrivial(sig)
		}
		c.Sample("diag3", 2, map[string]interface{}{"base": desc, "damage": log, "faces": len(tris),
			"needs_repair": want, "singular": len(sing), "inconsistent_edges": len(inc)})
	})
}

var _ = model3d.NewMesh
