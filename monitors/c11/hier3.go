package main

// Section "hier3": MeshToHierarchy / MeshHierarchy.FullMesh / Contains / Min /
// Max / MapCoords on unions of embedded, pairwise disjoint closed components
// (nesting to depth 6, side-by-side grids with up to ~200 components, torus
// holes). The reference nesting is computed with solid-angle winding numbers
// on the clean components and cross-checked against the construction.

import (
	"fmt"
	"math"
	"math/rand"

	"github.com/unixpickle/model3d/model3d"
	"verif/vlib"
)

var libRayDir3 = C3{X: 0.5224892708603626, Y: 0.10494477243214506, Z: 0.43558938446126527}

type hnode3 struct {
	h        *model3d.MeshHierarchy
	comp     int // reference component, -1 if none
	parent   int // index into nodes, -1 for roots
	children []int
}

func flattenHier3(roots []*model3d.MeshHierarchy) []*hnode3 {
	var nodes []*hnode3
	var walk func(h *model3d.MeshHierarchy, parent int) int
	walk = func(h *model3d.MeshHierarchy, parent int) int {
		idx := len(nodes)
		nodes = append(nodes, &hnode3{h: h, comp: -1, parent: parent})
		for _, ch := range h.Children {
			ci := walk(ch, idx)
			nodes[idx].children = append(nodes[idx].children, ci)
		}
		return idx
	}
	for _, h := range roots {
		walk(h, -1)
	}
	return nodes
}

func hier3Scene(rng *rand.Rand, quick bool) (*scene3, string) {
	if rng.Intn(12) == 0 {
		// a wide scene: an ordinary body and, thousands of its sizes away, a nested group a
		// hundred-thousand to a billion times smaller (a screw hole in a landscape)
		s := &scene3{scale: 1}
		o := sceneOpts{maxDepth: 0, maxComps: 1, maxLevel: 1, maxSub: 2, childProb: 0, rotate: true}
		s.place(rng, &o, xyz(0, 0, 0), 1, 0, -1)
		far := xyz(rng.NormFloat64(), rng.NormFloat64(), rng.NormFloat64())
		far = far.Scale((500 + 3000*rng.Float64()) / far.Norm())
		tiny := math.Pow(10, -5-4*rng.Float64())
		o2 := sceneOpts{maxDepth: 2, maxComps: 1 + 2 + rng.Intn(3), maxLevel: 1, maxSub: 1, childProb: 1, rotate: rng.Intn(2) == 0}
		s.place(rng, &o2, far, tiny, 1+rng.Intn(2), -1)
		return s, "wide"
	}
	if rng.Intn(10) == 0 {
		return tipsScene3(rng), "tips"
	}
	switch rng.Intn(8) {
	case 0: // deep chain
		return buildScene3(rng, sceneOpts{maxDepth: 4 + rng.Intn(3), maxComps: 40, maxLevel: 1, maxSub: 2, childProb: 1, allowTorus: true, rotate: true}), "deep"
	case 1: // many side-by-side components
		g := 2 + rng.Intn(4)
		if quick && g > 4 {
			g = 4
		}
		return buildScene3(rng, sceneOpts{maxDepth: rng.Intn(2), maxComps: 220, maxLevel: 1, maxSub: 1, childProb: 0.3, allowTorus: true, rotate: true, grid: g}), fmt.Sprintf("grid%d", g)
	case 2: // single component
		return buildScene3(rng, sceneOpts{maxDepth: 0, maxComps: 1, maxLevel: 3, maxSub: 4, childProb: 0, allowTorus: true, rotate: true}), "single"
	case 3: // grid of nested things
		return buildScene3(rng, sceneOpts{maxDepth: 2 + rng.Intn(2), maxComps: 80, maxLevel: 1, maxSub: 2, childProb: 0.8, allowTorus: true, rotate: true, grid: 2}), "grid2-nested"
	default:
		return buildScene3(rng, sceneOpts{maxDepth: 1 + rng.Intn(4), maxComps: 4 + rng.Intn(20), maxLevel: 2, maxSub: 3, childProb: 0.85, allowTorus: true, rotate: rng.Intn(2) == 0}), "tree"
	}
}

func hier3Sections(r *vlib.Run) {
	quick := r.Quick()
	r.Section("hier3", r.N(1200, 14000), vlib.SectionOpts{}, func(c *vlib.Case) {
		rng := c.Rng
		s, shape := hier3Scene(rng, quick)
		s.randomTransform(rng)
		comps := compTris(s)
		clean := s.allTris()
		if len(clean) > 6000 {
			c.Undecided("hier3.too-large")
			return
		}
		topo := vlib.AnalyzeTris(clean)
		if !topo.ClosedOrientedManifold() || topo.Components != len(comps) {
			c.Undecided("harness.hier3.clean-not-manifold")
			return
		}
		encl, depth, ok := depthByWinding(comps)
		if !ok {
			c.Undecided("hier3.winding-margin")
			return
		}
		for b, cb := range s.comps {
			d := 0
			for p := cb.parent; p >= 0; p = s.comps[p].parent {
				d++
				if !encl[p][b] {
					c.Undecided("harness.hier3.nesting-mismatch")
					return
				}
			}
			if d != depth[b] {
				c.Undecided("harness.hier3.nesting-mismatch")
				return
			}
		}
		// input orientation: clean, some components reversed, or random faces flipped
		// (a manifold mesh stays manifold; the hierarchy is defined by parity)
		input := append([]Tri{}, clean...)
		orient := "clean"
		switch rng.Intn(4) {
		case 0:
			orient = "components-reversed"
			off := 0
			for _, ts := range comps {
				if rng.Intn(2) == 0 {
					for i := range ts {
						input[off+i] = flipTri(input[off+i])
					}
				}
				off += len(ts)
			}
		case 1:
			orient = "faces-flipped"
			for i := range input {
				if rng.Intn(3) == 0 {
					input[i] = flipTri(input[i])
				}
			}
		}
		input = shuffleTris(rng, input)
		compOfFace := map[vkey]int{}
		for ci, ts := range comps {
			for _, t := range ts {
				compOfFace[keyOf(t)] = ci
			}
		}
		maxDepth := 0
		for _, d := range depth {
			if d > maxDepth {
				maxDepth = d
			}
		}
		wit := func(extra map[string]interface{}) interface{} {
			w := map[string]interface{}{"scene": s.describe(), "shape": shape, "input_orientation": orient,
				"components": len(comps), "faces": len(input), "reference_depths": depth, "triangles_hex": hexTris(input, 24)}
			for k, v := range extra {
				w[k] = v
			}
			return w
		}
		sfx := ""
		if orient != "clean" {
			sfx = "@reoriented-input"
		}

		m := meshOf(input)
		before := snap3(m)
		roots := model3d.MeshToHierarchy(m)
		untouched3(c, "model3d.MeshToHierarchy", m, before)
		nodes := flattenHier3(roots)
		c.Count("hier3.decided", 1)
		c.Count("hier3.components", int64(len(comps)))
		c.Count(fmt.Sprintf("hier3.depth_%d", maxDepth), 1)
		c.Max("hier3.max_components", float64(len(comps)))
		if maxDepth > 0 {
			c.Count("hier3.nested_cases", 1)
		}
		if len(comps) >= 2 {
			c.Nontrivial(fmt.Sprintf("hier3|%s|%s", s.describe(), orient))
		}

		// (1) no face lost, none duplicated
		var union []Tri
		for _, n := range nodes {
			union = append(union, vlib.Tris(n.h.Mesh)...)
		}
		if ok, diff := vlib.EqualCanonTris(vlib.CanonTris(union), vlib.CanonTris(input)); !ok {
			c.Violationf("model3d.MeshToHierarchy/face-multiset"+sfx, wit(nil), "union of all node meshes differs from the input: %s", diff)
			return
		}
		// (2) each node is exactly one component
		nodeOfComp := make([]int, len(comps))
		for i := range nodeOfComp {
			nodeOfComp[i] = -1
		}
		for ni, n := range nodes {
			ts := vlib.Tris(n.h.Mesh)
			if len(ts) == 0 {
				c.Violationf("model3d.MeshToHierarchy/node-is-component"+sfx, wit(nil), "node %d has an empty mesh", ni)
				return
			}
			ci := compOfFace[keyOf(ts[0])]
			for _, t := range ts {
				if compOfFace[keyOf(t)] != ci {
					c.Violationf("model3d.MeshToHierarchy/node-is-component"+sfx, wit(nil), "node %d mixes faces of components %d and %d", ni, ci, compOfFace[keyOf(t)])
					return
				}
			}
			if len(ts) != len(comps[ci]) || nodeOfComp[ci] >= 0 {
				c.Violationf("model3d.MeshToHierarchy/node-is-component"+sfx, wit(nil), "component %d (%d faces) is split over several nodes (node %d has %d)", ci, len(comps[ci]), ni, len(ts))
				return
			}
			nodeOfComp[ci] = ni
			n.comp = ci
		}
		// (3) ancestors of a node == components enclosing it
		for ni, n := range nodes {
			anc := map[int]bool{}
			for p := n.parent; p >= 0; p = nodes[p].parent {
				anc[nodes[p].comp] = true
			}
			for a := range comps {
				if a == n.comp {
					continue
				}
				if encl[a][n.comp] != anc[a] {
					c.Violationf("model3d.MeshToHierarchy/nesting"+sfx, wit(map[string]interface{}{"component": n.comp, "other": a}),
						"component %d (%s): reference says component %d (%s) encloses it = %v, hierarchy ancestors say %v (node %d, parent node %d)",
						n.comp, s.comps[n.comp].kind, a, s.comps[a].kind, encl[a][n.comp], anc[a], ni, n.parent)
					return
				}
			}
		}
		// (4) FullMesh == union of the subtree
		var subtree func(ni int) []Tri
		subtree = func(ni int) []Tri {
			res := vlib.Tris(nodes[ni].h.Mesh)
			for _, ch := range nodes[ni].children {
				res = append(res, subtree(ch)...)
			}
			return res
		}
		for ni, n := range nodes {
			if len(n.children) == 0 && rng.Intn(4) != 0 {
				continue
			}
			c.Count("hier3.FullMesh.calls", 1)
			if ok, diff := vlib.EqualCanonTris(vlib.CanonTris(vlib.Tris(n.h.FullMesh())), vlib.CanonTris(subtree(ni))); !ok {
				c.Violationf("model3d.MeshHierarchy.FullMesh/subtree-multiset"+sfx, wit(map[string]interface{}{"node": ni}), "FullMesh of node %d differs from the union of its subtree: %s", ni, diff)
				break
			}
		}
		// (5) Min/Max of a node == bounding box of its own mesh
		for ni, n := range nodes {
			lo, hi := boundsOf(vlib.Tris(n.h.Mesh))
			if n.h.Min() != lo || n.h.Max() != hi {
				c.Violationf("model3d.MeshHierarchy.Min/bounds"+sfx, wit(map[string]interface{}{"node": ni}), "node %d: Min/Max = %v %v, bounding box of its mesh = %v %v", ni, n.h.Min(), n.h.Max(), lo, hi)
				break
			}
		}
		// (6) Contains == even-odd rule on the whole mesh
		containsAny := func(hs []*model3d.MeshHierarchy, p C3) bool {
			res := false
			for _, h := range hs {
				if h.Contains(p) {
					res = true
				}
			}
			return res
		}
		nq := 40
		if len(clean) > 2000 {
			nq = 16
		}
		var mapped []*model3d.MeshHierarchy
		shift := xyz(float64(rng.Intn(9)-4)/4, float64(rng.Intn(9)-4)/4, float64(rng.Intn(9)-4)/4)
		doMap := rng.Intn(3) == 0
		if doMap {
			for _, h := range roots {
				mapped = append(mapped, h.MapCoords(func(p C3) C3 { return p.Add(shift) }))
			}
		}
		for q := 0; q < nq; q++ {
			cc := s.comps[rng.Intn(len(s.comps))]
			var p C3
			switch rng.Intn(4) {
			case 0: // just inside / outside a face
				t := cc.tris[rng.Intn(len(cc.tris))]
				n := t[1].Sub(t[0]).Cross(t[2].Sub(t[0]))
				n = n.Scale(1 / n.Norm())
				d := cc.rOut * 0.02 * (rng.Float64() + 0.2)
				if rng.Intn(2) == 0 {
					d = -d
				}
				b1, b2 := rng.Float64(), rng.Float64()
				if b1+b2 > 1 {
					b1, b2 = 1-b1, 1-b2
				}
				p = t[0].Add(t[1].Sub(t[0]).Scale(b1)).Add(t[2].Sub(t[0]).Scale(b2)).Add(n.Scale(d))
			case 1: // the free ball (inside the enclosed region, maybe inside a child)
				dir := xyz(rng.NormFloat64(), rng.NormFloat64(), rng.NormFloat64())
				p = cc.freeCtr.Add(dir.Scale(cc.freeRad * rng.Float64() / (dir.Norm() + 1e-300)))
			case 2: // the centre (torus: the hole)
				p = cc.center.Add(xyz(rng.NormFloat64(), rng.NormFloat64(), rng.NormFloat64()).Scale(cc.rOut * 0.05))
			default: // anywhere around
				p = cc.center.Add(xyz(rng.Float64()*2-1, rng.Float64()*2-1, rng.Float64()*2-1).Scale(cc.rOut * 1.3))
			}
			margin := 1e-4 * cc.rOut
			if vlib.MinDistToTris(p, clean) < margin {
				c.Undecided("hier3.Contains.near-surface")
				continue
			}
			want, d, worst := evenOdd3(comps, p)
			if worst > 1e-6 {
				c.Undecided("hier3.Contains.winding-margin")
				continue
			}
			got := containsAny(roots, p)
			c.Count("hier3.contains_queries", 1)
			c.Count(fmt.Sprintf("hier3.contains_ref_depth_%d", d), 1)
			if got != want {
				if rayNearEdge(clean, p, libRayDir3) < 1e-9 {
					c.Undecided("hier3.Contains.parity-ray-grazes-edge")
					continue
				}
				c.Violationf("model3d.MeshHierarchy.Contains/even-odd"+sfx,
					wit(map[string]interface{}{"point_hex": fmt.Sprintf("(%x,%x,%x)", p.X, p.Y, p.Z), "point": p, "enclosing_components": d}),
					"Contains(%v)=%v but the point is enclosed by %d components (even-odd: %v)", p, got, d, want)
				break
			}
			if doMap {
				c.Count("hier3.MapCoords.queries", 1)
				p2 := p.Add(shift)
				if got2 := containsAny(mapped, p2); got2 != want {
					if rayNearEdge(clean, p, libRayDir3) < 1e-7 {
						c.Undecided("hier3.Contains.parity-ray-grazes-edge")
						continue
					}
					c.Violationf("model3d.MeshHierarchy.MapCoords/contains"+sfx,
						wit(map[string]interface{}{"point": p2, "shift": shift, "enclosing_components": d}),
						"after MapCoords(translate %v): Contains(%v)=%v, even-odd on the translated mesh says %v", shift, p2, got2, want)
					break
				}
			}
		}
		c.Sample("hier3."+shape, 1, map[string]interface{}{"scene": s.describe(), "components": len(comps), "depths": depth, "orientation": orient})
	})
}

func boundsOf(tris []Tri) (lo, hi C3) {
	lo = xyz(math.Inf(1), math.Inf(1), math.Inf(1))
	hi = xyz(math.Inf(-1), math.Inf(-1), math.Inf(-1))
	for _, t := range tris {
		for _, p := range t {
			lo = lo.Min(p)
			hi = hi.Max(p)
		}
	}
	return
}

// tipsScene3: a coarse convex container (tetrahedron, box, octahedron) under a random linear map
// with strongly different stretch factors (so that it is oblique to every axis and to whatever
// sweep direction the library uses), with tiny closed components tucked just inside its corners:
// 0.2%..10% of the container's size, at the extreme ends of the container in every direction.
func tipsScene3(rng *rand.Rand) *scene3 {
	s := &scene3{scale: 1}
	var verts []C3
	var faces [][3]int
	kind := ""
	switch rng.Intn(3) {
	case 0:
		kind = "tetrahedron"
		verts = []C3{xyz(1, 1, 1), xyz(1, -1, -1), xyz(-1, 1, -1), xyz(-1, -1, 1)}
		faces = [][3]int{{0, 1, 2}, {0, 1, 3}, {0, 2, 3}, {1, 2, 3}}
	case 1:
		kind = "octahedron"
		verts = []C3{xyz(1, 0, 0), xyz(-1, 0, 0), xyz(0, 1, 0), xyz(0, -1, 0), xyz(0, 0, 1), xyz(0, 0, -1)}
		faces = [][3]int{{0, 2, 4}, {2, 1, 4}, {1, 3, 4}, {3, 0, 4}, {2, 0, 5}, {1, 2, 5}, {3, 1, 5}, {0, 3, 5}}
	default:
		kind = "box"
		for i := 0; i < 8; i++ {
			verts = append(verts, xyz(float64(i&1)*2-1, float64(i>>1&1)*2-1, float64(i>>2&1)*2-1))
		}
		faces = [][3]int{{0, 1, 3}, {0, 3, 2}, {4, 5, 7}, {4, 7, 6}, {0, 1, 5}, {0, 5, 4}, {2, 3, 7}, {2, 7, 6}, {0, 2, 6}, {0, 6, 4}, {1, 3, 7}, {1, 7, 5}}
	}
	r1, r2 := randRot(rng), randRot(rng)
	d := xyz(math.Pow(10, -rng.Float64()), math.Pow(10, -rng.Float64()), math.Pow(10, -rng.Float64()))
	lin := func(p C3) C3 {
		q := r1.apply(p)
		return cleanZero(r2.apply(xyz(q.X*d.X, q.Y*d.Y, q.Z*d.Z)))
	}
	for i := range verts {
		verts[i] = lin(verts[i])
	}
	var ctr C3
	for _, v := range verts {
		ctr = ctr.Add(v.Scale(1 / float64(len(verts))))
	}
	tris := make([]Tri, len(faces))
	size := 0.0
	for i, f := range faces {
		tris[i] = Tri{verts[f[0]], verts[f[1]], verts[f[2]]}
	}
	for _, v := range verts {
		size = math.Max(size, v.Dist(ctr))
	}
	orientAway(tris, func(Tri) C3 { return ctr })
	inr := minDistTo(ctr, tris)
	s.comps = append(s.comps, &comp3{tris: tris, kind: kind, center: ctr, rOut: size, parent: -1, freeCtr: ctr, freeRad: 0.9 * inr})
	s.desc = append(s.desc, fmt.Sprintf("0<--1:%s stretched by %v", kind, d))
	for _, v := range verts {
		if rng.Intn(4) == 0 {
			continue
		}
		t := math.Pow(10, -2.3+1.5*rng.Float64()) // 0.005 .. 0.16 of the way to the centre
		q := v.Add(ctr.Sub(v).Scale(t))
		room := minDistTo(q, tris)
		rad := room * (0.3 + 0.5*rng.Float64())
		if !(rad > 1e-9*size) {
			continue
		}
		tiny := sphereTris(q, rad, rng.Intn(2), 0, randRot(rng), rng)
		idx := len(s.comps)
		s.comps = append(s.comps, &comp3{tris: tiny, kind: "corner-sphere", center: q, rOut: rad, parent: 0, freeCtr: q, freeRad: 0.5 * rad})
		s.desc = append(s.desc, fmt.Sprintf("%d<-0:sphere r=%.3g of the container's size, %.3g of the way from a corner to the centre", idx, rad/size, t))
	}
	return s
}
