package main

// The diagnostics and repairs of this property all return new values; none is documented to edit
// its receiver. A caller keeps using the damaged mesh it passed in (to compare before/after, to
// try another tolerance), so the receiver's faces must be bit-identical afterwards.

import (
	"github.com/unixpickle/model3d/model2d"
	"github.com/unixpickle/model3d/model3d"
	"verif/vlib"
)

func snap3(m *model3d.Mesh) []vlib.Tri { return vlib.CanonTris(vlib.Tris(m)) }

func untouched3(c *vlib.Case, api string, m *model3d.Mesh, before []vlib.Tri) {
	c.Count("receiver_untouched_checks", 1)
	if ok, why := vlib.EqualCanonTris(before, snap3(m)); !ok {
		c.Violation(api+"/receiver-untouched", "the mesh the operation was called on has different faces afterwards: "+why, nil)
	}
}

func snap2(m *model2d.Mesh) []vlib.Seg { return vlib.CanonSegs(vlib.Segs(m)) }

func untouched2(c *vlib.Case, api string, m *model2d.Mesh, before []vlib.Seg) {
	c.Count("receiver_untouched_checks", 1)
	if ok, why := vlib.EqualCanonSegs(before, snap2(m)); !ok {
		c.Violation(api+"/receiver-untouched", "the mesh the operation was called on has different segments afterwards: "+why, nil)
	}
}
