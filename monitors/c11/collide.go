package main

// Meshes whose vertices collide in the library's coordinate hash: the fast
// coordinate/edge maps hash a vertex by the bits of a fixed linear form of its
// coordinates, so all points of one level plane of that form share a hash.
// A bipyramid whose ring lies on such a plane is an ordinary convex closed
// manifold, yet every spoke edge (apex, ring_i) and every ring edge has the
// same pair of vertex hashes. Diagnostics defined by edge and vertex identity
// must not be affected. The ring is solved with the verif-tagged export of
// the hash (hook H1), not by re-implementing it.

import (
	"fmt"
	"math"
	"math/rand"

	"github.com/unixpickle/model3d/model3d"
	"verif/vlib"
)

func hashVal(p C3) float64 { return math.Float64frombits(model3d.VerifFastHash64(p)) }

// solveOnHashPlane moves p along z until its hash equals target (bit-exact).
func solveOnHashPlane(p C3, target uint64) (C3, bool) {
	tf := math.Float64frombits(target)
	kz := hashVal(xyz(0, 0, 1))
	if !(kz > 0) || !(tf > 0) {
		return p, false
	}
	z0 := p.Z + (tf-hashVal(p))/kz
	f := func(z float64) float64 { return hashVal(xyz(p.X, p.Y, z)) }
	lo, hi := z0-1e-9, z0+1e-9
	if !(f(lo) <= tf && f(hi) >= tf) {
		return p, false
	}
	for i := 0; i < 200; i++ {
		mid := lo + (hi-lo)/2
		if mid <= lo || mid >= hi {
			break
		}
		if f(mid) < tf {
			lo = mid
		} else {
			hi = mid
		}
	}
	for _, z := range []float64{hi, lo} {
		if q := xyz(p.X, p.Y, z); model3d.VerifFastHash64(q) == target {
			return q, true
		}
	}
	return p, false
}

// collidingBipyramid returns a closed, outward-oriented bipyramid whose n ring
// vertices are pairwise distinct and all have the same 64-bit hash.
func collidingBipyramid(rng *rand.Rand, center C3, size float64) (tris []Tri, ring []C3, ok bool) {
	k := xyz(hashVal(xyz(1, 0, 0)), hashVal(xyz(0, 1, 0)), hashVal(xyz(0, 0, 1)))
	kn := k.Scale(1 / k.Norm())
	// in-plane basis
	u := kn.Cross(xyz(0, 0, 1))
	u = u.Scale(1 / u.Norm())
	v := kn.Cross(u)
	n := 3 + rng.Intn(8)
	phase := rng.Float64() * 2 * math.Pi
	var target uint64
	for i := 0; i < n; i++ {
		th := phase + 2*math.Pi*float64(i)/float64(n)
		rad := size * (0.6 + 0.4*rng.Float64())
		p := center.Add(u.Scale(rad * math.Cos(th))).Add(v.Scale(rad * math.Sin(th)))
		if i == 0 {
			target = model3d.VerifFastHash64(p)
			ring = append(ring, p)
			continue
		}
		q, good := solveOnHashPlane(p, target)
		if !good {
			return nil, nil, false
		}
		ring = append(ring, q)
	}
	seen := map[C3]bool{}
	for _, p := range ring {
		if seen[p] {
			return nil, nil, false
		}
		seen[p] = true
	}
	a := center.Add(kn.Scale(size * (0.5 + rng.Float64())))
	b := center.Sub(kn.Scale(size * (0.5 + rng.Float64())))
	for i := 0; i < n; i++ {
		p, q := ring[i], ring[(i+1)%n]
		tris = append(tris, Tri{a, p, q}, Tri{b, q, p})
	}
	orientAway(tris, func(Tri) C3 { return center })
	return tris, ring, true
}

func collide3Sections(r *vlib.Run) {
	r.Section("collide3", r.N(400, 6000), vlib.SectionOpts{}, func(c *vlib.Case) {
		rng := c.Rng
		center := xyz(1.5+2*rng.Float64(), 0.5+2*rng.Float64(), 0.2*rng.Float64())
		inner, ring, ok := collidingBipyramid(rng, center, 0.3+0.3*rng.Float64())
		if !ok {
			c.Undecided("collide3.no-exact-collision")
			return
		}
		c.Count("collide3.meshes", 1)
		c.Count("collide3.ring_vertices_sharing_one_hash", int64(len(ring)))
		wit := func(tris []Tri) interface{} {
			return map[string]interface{}{"faces": len(tris), "ring_vertices": len(ring), "triangles_hex": hexTris(tris, 40)}
		}
		// clean: every definition-level diagnostic is clean
		m := meshOf(inner)
		if m.NeedsRepair() {
			c.Violationf("model3d.Mesh.NeedsRepair/edge-count(hash-colliding-vertices)", wit(inner), "closed bipyramid with %d ring vertices of equal hash: NeedsRepair()=true", len(ring))
			return
		}
		if s := m.SingularVertices(); len(s) != 0 {
			c.Violationf("model3d.Mesh.SingularVertices/extra(hash-colliding-vertices)", wit(inner), "closed bipyramid: %d singular vertices reported", len(s))
			return
		}
		if e := m.InconsistentEdges(); len(e) != 0 {
			c.Violationf("model3d.Mesh.InconsistentEdges/extra(hash-colliding-vertices)", wit(inner), "closed oriented bipyramid: %d inconsistent edges reported", len(e))
			return
		}
		// opened: one face removed
		open := append([]Tri{}, inner...)
		j := rng.Intn(len(open))
		open = append(open[:j], open[j+1:]...)
		if !meshOf(open).NeedsRepair() {
			c.Violationf("model3d.Mesh.NeedsRepair/edge-count(hash-colliding-vertices)", wit(open), "bipyramid with one face removed: NeedsRepair()=false")
			return
		}
		// re-oriented faces are found and flipped back
		flipped := append([]Tri{}, inner...)
		nf := 1 + rng.Intn(3)
		want := map[Tri]bool{}
		for _, t := range inner {
			want[t] = true
		}
		idx := rng.Perm(len(flipped))[:nf]
		for _, i := range idx {
			flipped[i] = flipTri(flipped[i])
		}
		fm := meshOf(flipped)
		if len(fm.InconsistentEdges()) == 0 {
			c.Violationf("model3d.Mesh.InconsistentEdges/missing(hash-colliding-vertices)", wit(flipped), "%d faces flipped: no inconsistent edge reported", nf)
			return
		}
		rep, cnt := fm.RepairNormals(1e-8)
		bad := cnt != nf || rep.NumTriangles() != len(inner)
		if !bad {
			rep.Iterate(func(t *model3d.Triangle) {
				ok := false
				for k := 0; k < 3; k++ {
					if want[Tri{t[k], t[(k+1)%3], t[(k+2)%3]}] {
						ok = true
					}
				}
				if !ok {
					bad = true
				}
			})
		}
		if bad {
			c.Violationf("model3d.Mesh.RepairNormals/even-odd-orientation(hash-colliding-vertices)", wit(flipped), "%d faces flipped, RepairNormals reports %d and does not restore the outward orientation", nf, cnt)
			return
		}
		// nested: a larger bipyramid around it; the hierarchy has one root with one child
		outer, _, ok2 := collidingBipyramid(rng, center, 2.5)
		if ok2 {
			all := shuffleTris(rng, append(append([]Tri{}, outer...), inner...))
			hs := model3d.MeshToHierarchy(meshOf(all))
			good := len(hs) == 1 && len(hs[0].Children) == 1 && hs[0].Mesh.NumTriangles() == len(outer) &&
				hs[0].Children[0].Mesh.NumTriangles() == len(inner) && len(hs[0].Children[0].Children) == 0
			c.Count("collide3.hierarchies", 1)
			if !good {
				c.Violationf("model3d.MeshToHierarchy/nesting(hash-colliding-vertices)", wit(all), "two nested bipyramids: got %d roots%s", len(hs), func() string {
					if len(hs) > 0 {
						return fmt.Sprintf(", first root has %d faces and %d children", hs[0].Mesh.NumTriangles(), len(hs[0].Children))
					}
					return ""
				}())
				return
			}
		}
		c.Nontrivial(fmt.Sprintf("collide3|%d|%v", len(ring), center))
	})
}
