package main

// Section "repair3": Mesh.Repair(eps) on a clean closed mesh whose vertices
// were split into copies jittered by <= eps/4 per axis while distinct
// original vertices are >= 3*eps apart in L-infinity. Under these two bounds
// the grid-hash merge is determined (copies of one vertex always share a hash
// cell, copies of different vertices never do), so Repair must return the
// clean mesh up to the choice of one representative copy per vertex.

import (
	"fmt"
	"math"
	"math/rand"

	"verif/vlib"
)

func linfDist(a, b C3) float64 {
	return math.Max(math.Abs(a.X-b.X), math.Max(math.Abs(a.Y-b.Y), math.Abs(a.Z-b.Z)))
}

func minLinf(vs []C3) float64 {
	best := math.Inf(1)
	for i := range vs {
		for j := i + 1; j < len(vs); j++ {
			if d := linfDist(vs[i], vs[j]); d < best {
				best = d
			}
		}
	}
	return best
}

// splitVertices gives, for every vertex, random groups of its incident faces
// their own jittered copy. Returns the damaged soup and copy -> original.
//
// chain mode: the copies of a vertex form a chain v, v+d, v+2d, ... with
// |d| <= 0.45*eps per axis (up to 5 links, every link used by some face):
// consecutive links are closer than eps/2 per axis and must be merged, hence
// (merging being an equivalence) the whole chain; the caller guarantees that
// different chains stay >= 2.5*eps apart.
func splitVertices(rng *rand.Rand, tris []Tri, eps float64, splitProb float64, chain bool) ([]Tri, map[C3]C3, int) {
	res := append([]Tri{}, tris...)
	origOf := map[C3]C3{}
	type corner struct{ f, k int }
	corners := map[C3][]corner{}
	var order []C3
	for fi, t := range tris {
		for k, p := range t {
			if _, ok := corners[p]; !ok {
				order = append(order, p)
			}
			corners[p] = append(corners[p], corner{fi, k})
		}
	}
	jit := func() float64 {
		switch rng.Intn(6) {
		case 0:
			return eps / 4
		case 1:
			return -eps / 4
		default:
			return (rng.Float64()*2 - 1) * eps / 4
		}
	}
	splits := 0
	for _, v := range order {
		cs := corners[v]
		if chain && len(cs) >= 2 && rng.Float64() < splitProb {
			k := 2 + rng.Intn(4)
			if k > len(cs) {
				k = len(cs)
			}
			d := xyz((rng.Float64()*2-1)*0.45*eps, (rng.Float64()*2-1)*0.45*eps, (rng.Float64()*2-1)*0.45*eps)
			if rng.Intn(3) == 0 {
				d = xyz(0.45*eps, -0.45*eps, 0.45*eps)
			}
			rng.Shuffle(len(cs), func(i, j int) { cs[i], cs[j] = cs[j], cs[i] })
			links := make([]C3, k)
			for g := range links {
				links[g] = cleanZero(xyz(v.X+float64(g)*d.X, v.Y+float64(g)*d.Y, v.Z+float64(g)*d.Z))
				origOf[links[g]] = v
			}
			for i, cn := range cs {
				g := i
				if i >= k {
					g = rng.Intn(k)
				}
				res[cn.f][cn.k] = links[g]
			}
			splits++
			continue
		}
		groups := 1
		if rng.Float64() < splitProb {
			groups = 2 + rng.Intn(2)
			if rng.Intn(6) == 0 {
				groups = len(cs) // fully exploded vertex
			}
		}
		copies := make([]C3, groups)
		for g := range copies {
			if g == 0 && rng.Intn(2) == 0 {
				copies[g] = v
			} else {
				copies[g] = cleanZero(xyz(v.X+jit(), v.Y+jit(), v.Z+jit()))
			}
			origOf[copies[g]] = v
		}
		if groups > 1 {
			splits++
		}
		for i, cn := range cs {
			g := 0
			if groups == len(cs) {
				g = i
			} else if groups > 1 {
				g = rng.Intn(groups)
			}
			res[cn.f][cn.k] = copies[g]
		}
	}
	return res, origOf, splits
}

func repair3Sections(r *vlib.Run) {
	r.Section("repair3", r.N(1200, 16000), vlib.SectionOpts{}, func(c *vlib.Case) {
		rng := c.Rng
		var clean []Tri
		var desc string
		lattice := rng.Intn(4) == 0
		if lattice {
			// integer lattice box: coordinates/eps land on half-integers for eps = 2/(2k+1)
			n := 1 + rng.Intn(3)
			h := float64(n) / 2
			ctr := xyz(float64(rng.Intn(5)-2)+h, float64(rng.Intn(5)-2)+h, float64(rng.Intn(5)-2)+h)
			clean = boxTris(ctr, xyz(h, h, h), n, identRot(), rng)
			desc = fmt.Sprintf("latticebox(n=%d,ctr=%v)", n, ctr)
		} else {
			s := buildScene3(rng, sceneOpts{maxDepth: rng.Intn(3), maxComps: 1 + rng.Intn(3), maxLevel: 2, maxSub: 3,
				childProb: 0.7, allowTorus: true, rotate: true})
			clean = s.allTris()
			desc = s.describe()
		}
		vs := vertsOf(clean)
		if len(vs) > 1500 {
			c.Undecided("repair3.too-large")
			return
		}
		dmin := minLinf(vs)
		chain := !lattice && rng.Intn(3) == 0
		var eps float64
		if chain {
			// chains extend <= 4*0.45*eps from their vertex: 6.1*eps between vertices keeps
			// links of different chains >= 2.5*eps apart
			eps = dmin / 6.5 * (0.2 + 0.79*rng.Float64())
		} else if lattice {
			// unit spacing: eps <= 1/3
			eps = 2 / float64(2*(3+rng.Intn(4))+1) // 2/7, 2/9, 2/11, 2/13
		} else {
			eps = dmin / 3 * (0.2 + 0.79*rng.Float64())
		}
		if !(eps > 0) || dmin < 3*eps {
			c.Undecided("repair3.separation")
			return
		}
		topo := vlib.AnalyzeTris(clean)
		if !topo.ClosedOrientedManifold() {
			c.Undecided("harness.repair3.clean-not-manifold")
			return
		}
		// a merge distance far below the resolution of the coordinates: no two vertices are that
		// close, so the clean mesh comes back as it is
		if rng.Intn(4) == 0 {
			tiny := []float64{1e-17, 1e-19, 1e-25, 1e-60, 1e-100}[rng.Intn(5)]
			o := meshOf(clean).Repair(tiny)
			c.Count("repair3.epsilon_below_resolution", 1)
			if eq, why := vlib.EqualCanonTris(vlib.CanonTris(clean), vlib.CanonTris(vlib.Tris(o))); !eq {
				c.Violationf("model3d.Mesh.Repair/nothing-within-epsilon", map[string]interface{}{"mesh": desc, "epsilon": tiny},
					"Repair(%g) changed a mesh whose vertices are at least %g apart: %s", tiny, dmin, why)
				return
			}
		}
		damaged, origOf, splits := splitVertices(rng, clean, eps, 0.6, chain)
		sfx := ""
		if chain {
			sfx = "@chain"
			c.Count("repair3.chain_cases", 1)
		}
		damaged = shuffleTris(rng, damaged)
		m := meshOf(damaged)
		dref := analyze3(damaged)
		beforeRep := snap3(m)
		out := m.Repair(eps)
		untouched3(c, "model3d.Mesh.Repair", m, beforeRep)
		c.Count("repair3.decided", 1)
		c.Count("repair3.split_vertices", int64(splits))
		if dref.needsRepair() {
			c.Count("repair3.input_needed_repair", 1)
			c.Nontrivial(fmt.Sprintf("repair3|%s|%d|%x", desc, splits, eps))
		}
		wit := func() interface{} {
			return map[string]interface{}{"clean": desc, "chain_mode": chain, "eps_hex": vlib.Hex(eps), "eps": eps, "min_linf_vertex_distance": dmin,
				"split_vertices": splits, "faces": len(damaged), "damaged_triangles_hex": hexTris(damaged, 40)}
		}
		outTris := vlib.Tris(out)
		if len(outTris) != len(clean) {
			c.Violationf("model3d.Mesh.Repair/face-count", wit(), "Repair returned %d faces for %d input faces", len(outTris), len(clean))
			return
		}
		rep := map[C3]C3{} // original -> representative in output
		mapped := make([]Tri, len(outTris))
		for i, t := range outTris {
			for k, p := range t {
				o, ok := origOf[cleanZero(p)]
				if !ok {
					c.Violationf("model3d.Mesh.Repair/foreign-vertex", wit(), "output vertex %v is not one of the input vertices", p)
					return
				}
				if prev, ok := rep[o]; ok && prev != cleanZero(p) {
					c.Violationf("model3d.Mesh.Repair/merge-classes"+sfx, wit(),
						"copies %v and %v of one vertex (<= eps/2 apart per axis, or linked by a chain of such copies; eps=%g) were not merged", prev, p, eps)
					return
				}
				rep[o] = cleanZero(p)
				mapped[i][k] = o
			}
		}
		if ok, diff := vlib.EqualCanonTris(vlib.CanonTris(mapped), vlib.CanonTris(clean)); !ok {
			c.Violationf("model3d.Mesh.Repair/face-multiset"+sfx, wit(), "repaired mesh is not the clean mesh: %s", diff)
			return
		}
		// The repaired mesh is a clean closed manifold: the diagnostics must be clean on it.
		if out.NeedsRepair() {
			c.Violationf("model3d.Mesh.Repair/diagnostics-clean", wit(), "NeedsRepair() is true on a repaired mesh that is a closed manifold by the edge census")
		}
		if sv := out.SingularVertices(); len(sv) != 0 {
			c.Violationf("model3d.Mesh.Repair/diagnostics-clean", wit(), "SingularVertices() returned %d vertices on a repaired closed manifold", len(sv))
		}
		if ie := out.InconsistentEdges(); len(ie) != 0 {
			c.Violationf("model3d.Mesh.Repair/diagnostics-clean", wit(), "InconsistentEdges() returned %d edges on a repaired, consistently oriented closed manifold", len(ie))
		}
		c.Sample("repair3", 1, map[string]interface{}{"clean": desc, "eps": eps, "split_vertices": splits, "faces": len(damaged)})
	})
}
