package main

// 3D generators: closed, outward oriented, embedded building blocks (boxes,
// star-shaped spheres, tori), scenes of nested / side-by-side components whose
// disjointness is guaranteed by construction (every component lives in a ball
// that is disjoint from the balls of its siblings and inside the free ball of
// its parent), plus purely combinatorial surfaces (Moebius strip, Klein
// bottle, discs) for the orientation diagnostics.

import (
	"fmt"
	"math"
	"math/rand"

	"github.com/unixpickle/model3d/model3d"
	"verif/vlib"
)

type C3 = model3d.Coord3D
type Tri = vlib.Tri

func xyz(x, y, z float64) C3 { return C3{X: x, Y: y, Z: z} }

// cleanZero turns -0 into +0 (signed zeros are C09's subject, not ours).
func cleanZero(c C3) C3 {
	if c.X == 0 {
		c.X = 0
	}
	if c.Y == 0 {
		c.Y = 0
	}
	if c.Z == 0 {
		c.Z = 0
	}
	return c
}

// rot3 is a rotation (rows).
type rot3 [3]C3

func identRot() rot3 { return rot3{xyz(1, 0, 0), xyz(0, 1, 0), xyz(0, 0, 1)} }

func randRot(rng *rand.Rand) rot3 {
	// Gram-Schmidt on random vectors.
	for {
		a := xyz(rng.NormFloat64(), rng.NormFloat64(), rng.NormFloat64())
		b := xyz(rng.NormFloat64(), rng.NormFloat64(), rng.NormFloat64())
		if a.Norm() < 0.1 {
			continue
		}
		a = a.Scale(1 / a.Norm())
		b = b.Sub(a.Scale(a.Dot(b)))
		if b.Norm() < 0.1 {
			continue
		}
		b = b.Scale(1 / b.Norm())
		c := a.Cross(b)
		return rot3{a, b, c}
	}
}

func (r rot3) apply(v C3) C3 {
	// columns are the images of the axes
	return r[0].Scale(v.X).Add(r[1].Scale(v.Y)).Add(r[2].Scale(v.Z))
}

// orientOutward flips triangles so that the normal points away from ref(t).
func orientAway(tris []Tri, ref func(t Tri) C3) {
	for i, t := range tris {
		n := t[1].Sub(t[0]).Cross(t[2].Sub(t[0]))
		cen := t[0].Add(t[1]).Add(t[2]).Scale(1.0 / 3)
		if n.Dot(cen.Sub(ref(t))) < 0 {
			tris[i] = Tri{t[1], t[0], t[2]}
		}
	}
}

// boxTris builds a box with half extents h around center, every face split
// into sub x sub quads (2 triangles each, diagonal chosen per quad by diag).
func boxTris(center, h C3, sub int, rot rot3, rng *rand.Rand) []Tri {
	pt := func(i, j, k int) C3 {
		f := func(a int, half float64) float64 { return -half + 2*half*float64(a)/float64(sub) }
		return cleanZero(center.Add(rot.apply(xyz(f(i, h.X), f(j, h.Y), f(k, h.Z)))))
	}
	var tris []Tri
	quad := func(a, b, c, d C3) {
		if rng != nil && rng.Intn(2) == 0 {
			tris = append(tris, Tri{a, b, c}, Tri{a, c, d})
		} else {
			tris = append(tris, Tri{a, b, d}, Tri{b, c, d})
		}
	}
	for axis := 0; axis < 3; axis++ {
		for _, side := range []int{0, sub} {
			for u := 0; u < sub; u++ {
				for v := 0; v < sub; v++ {
					p := func(du, dv int) C3 {
						switch axis {
						case 0:
							return pt(side, u+du, v+dv)
						case 1:
							return pt(u+du, side, v+dv)
						default:
							return pt(u+du, v+dv, side)
						}
					}
					quad(p(0, 0), p(1, 0), p(1, 1), p(0, 1))
				}
			}
		}
	}
	orientAway(tris, func(Tri) C3 { return center })
	return tris
}

// sphereTris builds a star-shaped polyhedron: an octahedron subdivided level
// times, vertex directions scaled by radius*(1-noise*u).
func sphereTris(center C3, radius float64, level int, noise float64, rot rot3, rng *rand.Rand) []Tri {
	verts := []C3{xyz(1, 0, 0), xyz(-1, 0, 0), xyz(0, 1, 0), xyz(0, -1, 0), xyz(0, 0, 1), xyz(0, 0, -1)}
	faces := [][3]int{{0, 2, 4}, {2, 1, 4}, {1, 3, 4}, {3, 0, 4}, {2, 0, 5}, {1, 2, 5}, {3, 1, 5}, {0, 3, 5}}
	for l := 0; l < level; l++ {
		mid := map[[2]int]int{}
		getMid := func(a, b int) int {
			if a > b {
				a, b = b, a
			}
			if i, ok := mid[[2]int{a, b}]; ok {
				return i
			}
			m := verts[a].Add(verts[b])
			m = m.Scale(1 / m.Norm())
			verts = append(verts, m)
			mid[[2]int{a, b}] = len(verts) - 1
			return len(verts) - 1
		}
		var nf [][3]int
		for _, f := range faces {
			ab, bc, ca := getMid(f[0], f[1]), getMid(f[1], f[2]), getMid(f[2], f[0])
			nf = append(nf, [3]int{f[0], ab, ca}, [3]int{ab, f[1], bc}, [3]int{ca, bc, f[2]}, [3]int{ab, bc, ca})
		}
		faces = nf
	}
	pos := make([]C3, len(verts))
	for i, v := range verts {
		s := radius
		if noise > 0 {
			s *= 1 - noise*rng.Float64()
		}
		pos[i] = cleanZero(center.Add(rot.apply(v.Scale(s))))
	}
	tris := make([]Tri, len(faces))
	for i, f := range faces {
		tris[i] = Tri{pos[f[0]], pos[f[1]], pos[f[2]]}
	}
	orientAway(tris, func(Tri) C3 { return center })
	return tris
}

// torusTris builds a torus (axis = rot*z).
func torusTris(center C3, R, r float64, nu, nv int, rot rot3) (tris []Tri, ringCenters []C3) {
	p := make([][]C3, nu)
	ringCenters = make([]C3, nu)
	for i := 0; i < nu; i++ {
		th := 2 * math.Pi * float64(i) / float64(nu)
		ringCenters[i] = center.Add(rot.apply(xyz(R*math.Cos(th), R*math.Sin(th), 0)))
		p[i] = make([]C3, nv)
		for j := 0; j < nv; j++ {
			ph := 2 * math.Pi * float64(j) / float64(nv)
			w := R + r*math.Cos(ph)
			p[i][j] = cleanZero(center.Add(rot.apply(xyz(w*math.Cos(th), w*math.Sin(th), r*math.Sin(ph)))))
		}
	}
	type tr struct {
		t    Tri
		ring C3
	}
	var all []tr
	for i := 0; i < nu; i++ {
		i1 := (i + 1) % nu
		rc := ringCenters[i].Add(ringCenters[i1]).Scale(0.5)
		for j := 0; j < nv; j++ {
			j1 := (j + 1) % nv
			all = append(all, tr{Tri{p[i][j], p[i1][j], p[i1][j1]}, rc}, tr{Tri{p[i][j], p[i1][j1], p[i][j1]}, rc})
		}
	}
	tris = make([]Tri, len(all))
	for i, a := range all {
		t := a.t
		n := t[1].Sub(t[0]).Cross(t[2].Sub(t[0]))
		cen := t[0].Add(t[1]).Add(t[2]).Scale(1.0 / 3)
		if n.Dot(cen.Sub(a.ring)) < 0 {
			t = Tri{t[1], t[0], t[2]}
		}
		tris[i] = t
	}
	return tris, ringCenters
}

// ---------------------------------------------------------------------------
// scenes

type comp3 struct {
	tris    []Tri
	kind    string
	center  C3
	rOut    float64
	parent  int // construction parent (index into scene3.comps), -1 for roots
	freeCtr C3  // centre of a ball that lies strictly inside the enclosed region
	freeRad float64
}

type scene3 struct {
	comps []*comp3
	desc  []string
	scale float64
}

type sceneOpts struct {
	maxDepth   int     // nesting depth below a root (0 = no children)
	maxComps   int     // stop adding components beyond this
	maxLevel   int     // sphere subdivision level upper bound
	maxSub     int     // box subdivision upper bound
	childProb  float64 // probability that a component gets children
	allowTorus bool
	rotate     bool
	grid       int // >0: side-by-side grid of grid^3 cells (random subset occupied)
}

func (s *scene3) allTris() []Tri {
	var res []Tri
	for _, c := range s.comps {
		res = append(res, c.tris...)
	}
	return res
}

func (s *scene3) describe() string { return fmt.Sprint(s.desc) }

func minDistTo(p C3, tris []Tri) float64 { return vlib.MinDistToTris(p, tris) }

// place puts one component inside ball(center, radius) and recurses.
func (s *scene3) place(rng *rand.Rand, o *sceneOpts, center C3, radius float64, depthLeft int, parent int) {
	if len(s.comps) >= o.maxComps {
		return
	}
	rot := identRot()
	if o.rotate && rng.Intn(3) != 0 {
		rot = randRot(rng)
	}
	kind := rng.Intn(10)
	c := &comp3{center: center, parent: parent}
	rOut := radius * (0.8 + 0.19*rng.Float64())
	switch {
	case kind < 4: // box
		asp := xyz(0.5+0.5*rng.Float64(), 0.5+0.5*rng.Float64(), 0.5+0.5*rng.Float64())
		h := asp.Scale(rOut / asp.Norm())
		sub := 1 + rng.Intn(o.maxSub)
		c.tris = boxTris(center, h, sub, rot, rng)
		c.kind = fmt.Sprintf("box(sub=%d)", sub)
	case kind < 8 || !o.allowTorus: // star-shaped sphere
		level := rng.Intn(o.maxLevel + 1)
		noise := 0.0
		if rng.Intn(2) == 0 {
			noise = 0.3 * rng.Float64()
		}
		c.tris = sphereTris(center, rOut, level, noise, rot, rng)
		c.kind = fmt.Sprintf("sphere(level=%d,noise=%.2f)", level, noise)
	default: // torus: children live in the tube, a sibling may live in the hole
		nu := 5 + rng.Intn(8)
		nv := 3 + rng.Intn(6)
		frac := 0.15 + 0.2*rng.Float64() // r/R
		R := rOut / (1 + frac)
		r := R * frac
		tris, rings := torusTris(center, R, r, nu, nv, rot)
		c.tris = tris
		c.kind = fmt.Sprintf("torus(nu=%d,nv=%d,r/R=%.2f)", nu, nv, frac)
		c.rOut = rOut
		idx := len(s.comps)
		s.comps = append(s.comps, c)
		s.desc = append(s.desc, fmt.Sprintf("%d<-%d:%s", idx, parent, c.kind))
		// free ball in the tube at a ring centre
		ring := rings[rng.Intn(len(rings))]
		c.freeCtr = ring
		c.freeRad = 0.85 * minDistTo(ring, c.tris)
		if depthLeft > 0 && rng.Float64() < o.childProb {
			s.place(rng, o, ring, c.freeRad, depthLeft-1, idx)
		}
		// occupant of the hole: NOT enclosed by the torus, same parent
		if rng.Intn(2) == 0 {
			holeRad := 0.85 * minDistTo(center, c.tris)
			s.place(rng, o, center, holeRad, depthLeft, parent)
		}
		return
	}
	c.rOut = rOut
	idx := len(s.comps)
	s.comps = append(s.comps, c)
	s.desc = append(s.desc, fmt.Sprintf("%d<-%d:%s", idx, parent, c.kind))
	c.freeCtr = center
	c.freeRad = 0.9 * minDistTo(center, c.tris)
	if depthLeft <= 0 || rng.Float64() >= o.childProb {
		return
	}
	// children in disjoint sub-balls of the free ball
	k := 1 + rng.Intn(3)
	type ball struct {
		c C3
		r float64
	}
	var balls []ball
	for i := 0; i < k; i++ {
		for try := 0; try < 20; try++ {
			var rr float64
			if k == 1 {
				rr = c.freeRad * (0.4 + 0.55*rng.Float64())
			} else {
				rr = c.freeRad * (0.2 + 0.25*rng.Float64())
			}
			dir := xyz(rng.NormFloat64(), rng.NormFloat64(), rng.NormFloat64())
			if dir.Norm() == 0 {
				continue
			}
			off := dir.Scale((c.freeRad - rr) * math.Cbrt(rng.Float64()) * 0.98 / dir.Norm())
			cc := c.freeCtr.Add(off)
			ok := true
			for _, b := range balls {
				if b.c.Dist(cc) < (b.r+rr)*1.02 {
					ok = false
					break
				}
			}
			if ok {
				balls = append(balls, ball{cc, rr})
				break
			}
		}
	}
	for _, b := range balls {
		s.place(rng, o, b.c, b.r, depthLeft-1, idx)
	}
}

func buildScene3(rng *rand.Rand, o sceneOpts) *scene3 {
	s := &scene3{scale: 1}
	if o.grid > 0 {
		g := o.grid
		cell := 2.0 / float64(g)
		occupied := 0
		for i := 0; i < g; i++ {
			for j := 0; j < g; j++ {
				for k := 0; k < g; k++ {
					if rng.Intn(4) == 0 && occupied > 0 {
						continue
					}
					occupied++
					ctr := xyz(-1+cell*(float64(i)+0.5), -1+cell*(float64(j)+0.5), -1+cell*(float64(k)+0.5))
					// jitter inside the cell, keep the ball inside the cell
					rad := cell * 0.5 * (0.5 + 0.45*rng.Float64())
					slack := cell*0.5 - rad
					ctr = ctr.Add(xyz((rng.Float64()*2-1)*slack, (rng.Float64()*2-1)*slack, (rng.Float64()*2-1)*slack).Scale(0.95))
					s.place(rng, &o, ctr, rad, o.maxDepth, -1)
				}
			}
		}
		return s
	}
	off := xyz(rng.NormFloat64(), rng.NormFloat64(), rng.NormFloat64()).Scale(0.3)
	s.place(rng, &o, off, 1, o.maxDepth, -1)
	return s
}

// transform applies p -> p*scale + off to the whole scene (scale is a power of
// two so that the shape is preserved exactly up to the rounding of the offset).
func (s *scene3) transform(scale float64, off C3) {
	f := func(p C3) C3 { return cleanZero(p.Scale(scale).Add(off)) }
	for _, c := range s.comps {
		for i, t := range c.tris {
			c.tris[i] = Tri{f(t[0]), f(t[1]), f(t[2])}
		}
		c.center = f(c.center)
		c.freeCtr = f(c.freeCtr)
		c.rOut *= scale
		c.freeRad *= scale
	}
	s.scale *= scale
	s.desc = append(s.desc, fmt.Sprintf("x%g+%v", scale, off))
}

// randomTransform rescales / shifts the scene in a third of the cases.
func (s *scene3) randomTransform(rng *rand.Rand) {
	if rng.Intn(3) != 0 {
		return
	}
	scale := math.Ldexp(1, rng.Intn(25)-12)
	var off C3
	if rng.Intn(2) == 0 {
		off = xyz(float64(rng.Intn(2001)-1000), float64(rng.Intn(2001)-1000), float64(rng.Intn(2001)-1000)).Scale(scale)
	}
	s.transform(scale, off)
}

// ---------------------------------------------------------------------------
// combinatorial surfaces (coordinates only need to be distinct)

func randPoints(rng *rand.Rand, n int) []C3 {
	seen := map[C3]bool{}
	var res []C3
	for len(res) < n {
		p := xyz(float64(rng.Intn(64))/8, float64(rng.Intn(64))/8, float64(rng.Intn(64))/8+10)
		if !seen[p] {
			seen[p] = true
			res = append(res, p)
		}
	}
	return res
}

// stripTris: a band of n quads; twisted = Moebius strip, otherwise a cylinder.
func stripTris(rng *rand.Rand, n int, twisted bool) []Tri {
	pts := randPoints(rng, 2*n)
	a := func(i int) C3 {
		if i == n {
			if twisted {
				return pts[n]
			}
			return pts[0]
		}
		return pts[i]
	}
	b := func(i int) C3 {
		if i == n {
			if twisted {
				return pts[0]
			}
			return pts[n]
		}
		return pts[n+i]
	}
	var tris []Tri
	for i := 0; i < n; i++ {
		tris = append(tris, Tri{a(i), b(i), b(i + 1)}, Tri{a(i), b(i + 1), a(i + 1)})
	}
	return tris
}

// gridSurface: nu x nv quads with identifications: kind "torus", "klein"
// (second direction glued with a flip), "disc" (no identification).
func gridSurface(rng *rand.Rand, nu, nv int, kind string) []Tri {
	pts := randPoints(rng, (nu+1)*(nv+1))
	at := func(i, j int) C3 {
		switch kind {
		case "torus":
			i, j = i%nu, j%nv
		case "klein":
			if i == nu {
				i = 0
				j = nv - j
			}
			j = j % nv
		}
		return pts[i*(nv+1)+j]
	}
	var tris []Tri
	for i := 0; i < nu; i++ {
		for j := 0; j < nv; j++ {
			tris = append(tris, Tri{at(i, j), at(i+1, j), at(i+1, j+1)}, Tri{at(i, j), at(i+1, j+1), at(i, j+1)})
		}
	}
	return tris
}

func meshOf(tris []Tri) *model3d.Mesh {
	m := model3d.NewMesh()
	for _, t := range tris {
		m.Add(&model3d.Triangle{t[0], t[1], t[2]})
	}
	return m
}

func shuffleTris(rng *rand.Rand, tris []Tri) []Tri {
	res := append([]Tri{}, tris...)
	rng.Shuffle(len(res), func(i, j int) { res[i], res[j] = res[j], res[i] })
	return res
}

func hexTris(tris []Tri, max int) []string {
	var res []string
	for i, t := range tris {
		if i >= max {
			res = append(res, fmt.Sprintf("... %d more", len(tris)-max))
			break
		}
		res = append(res, fmt.Sprintf("[(%x,%x,%x) (%x,%x,%x) (%x,%x,%x)]",
			t[0].X, t[0].Y, t[0].Z, t[1].X, t[1].Y, t[1].Z, t[2].X, t[2].Y, t[2].Z))
	}
	return res
}
