package main

// Independent reference model of the PLY format (Greg Turk's specification):
// scalar kinds, header text, and the ASCII / little-endian / big-endian body
// encodings. Nothing here calls the library.

import (
	"bytes"
	"encoding/binary"
	"fmt"
	"math"
	"math/rand"
	"strconv"
	"strings"

	ff "github.com/unixpickle/model3d/fileformats"
)

type pkind int

const (
	kI8 pkind = iota
	kU8
	kI16
	kU16
	kI32
	kU32
	kF32
	kF64
)

// Both spellings of every scalar type of the specification.
var plyTypeNames = []struct {
	name string
	kind pkind
}{
	{"char", kI8}, {"int8", kI8}, {"uchar", kU8}, {"uint8", kU8},
	{"short", kI16}, {"int16", kI16}, {"ushort", kU16}, {"uint16", kU16},
	{"int", kI32}, {"int32", kI32}, {"uint", kU32}, {"uint32", kU32},
	{"float", kF32}, {"float32", kF32}, {"double", kF64}, {"float64", kF64},
}

func kindOf(name string) pkind {
	for _, t := range plyTypeNames {
		if t.name == name {
			return t.kind
		}
	}
	panic("harness: unknown type " + name)
}

// rval is one scalar: integers in i, floats as raw bits in u.
type rval struct {
	kind pkind
	i    int64
	u    uint64
}

type rprop struct {
	name    string
	lenType string // "" for scalars
	typ     string
}

type relem struct {
	name  string
	count int
	props []rprop
}

type rheader struct {
	format   int // 0 ascii, 1 little, 2 big
	elements []relem
}

// rfield is a property value of one row: a scalar, or a list.
type rfield struct {
	isList bool
	scalar rval
	length rval
	items  []rval
}

type rrow struct {
	elem   int
	fields []rfield
}

var formatNames = []string{"ascii", "binary_little_endian", "binary_big_endian"}

func (h *rheader) text(rng *rand.Rand, comments bool) string {
	var b strings.Builder
	b.WriteString("ply\n")
	b.WriteString("format " + formatNames[h.format] + " 1.0\n")
	cm := func() {
		if comments && rng.Intn(3) == 0 {
			b.WriteString([]string{"comment made by the harness\n", "comment\n", "comment element fake 3\n", "comment property float x\n"}[rng.Intn(4)])
		}
	}
	cm()
	for _, e := range h.elements {
		fmt.Fprintf(&b, "element %s %d\n", e.name, e.count)
		cm()
		for _, p := range e.props {
			if p.lenType == "" {
				fmt.Fprintf(&b, "property %s %s\n", p.typ, p.name)
			} else {
				fmt.Fprintf(&b, "property list %s %s %s\n", p.lenType, p.typ, p.name)
			}
			cm()
		}
	}
	b.WriteString("end_header\n")
	return b.String()
}

func (h *rheader) lib() *ff.PLYHeader {
	res := &ff.PLYHeader{Format: ff.PLYFormat(h.format)}
	for _, e := range h.elements {
		le := &ff.PLYElement{Name: e.name, Count: int64(e.count)}
		for _, p := range e.props {
			le.Properties = append(le.Properties, &ff.PLYProperty{Name: p.name, LenType: ff.PLYPropertyType(p.lenType), ElemType: ff.PLYPropertyType(p.typ)})
		}
		res.Elements = append(res.Elements, le)
	}
	return res
}

func (h *rheader) describe() string {
	var parts []string
	for _, e := range h.elements {
		var ps []string
		for _, p := range e.props {
			if p.lenType == "" {
				ps = append(ps, p.typ+" "+p.name)
			} else {
				ps = append(ps, "list "+p.lenType+" "+p.typ+" "+p.name)
			}
		}
		parts = append(parts, fmt.Sprintf("element %s %d {%s}", e.name, e.count, strings.Join(ps, "; ")))
	}
	return formatNames[h.format] + ": " + strings.Join(parts, " ")
}

func (v rval) lib() ff.PLYValue {
	switch v.kind {
	case kI8:
		return ff.PLYValueInt8{Value: int8(v.i)}
	case kU8:
		return ff.PLYValueUint8{Value: uint8(v.i)}
	case kI16:
		return ff.PLYValueInt16{Value: int16(v.i)}
	case kU16:
		return ff.PLYValueUint16{Value: uint16(v.i)}
	case kI32:
		return ff.PLYValueInt32{Value: int32(v.i)}
	case kU32:
		return ff.PLYValueUint32{Value: uint32(v.i)}
	case kF32:
		return ff.PLYValueFloat32{Value: math.Float32frombits(uint32(v.u))}
	default:
		return ff.PLYValueFloat64{Value: math.Float64frombits(v.u)}
	}
}

func (f rfield) lib() ff.PLYValue {
	if !f.isList {
		return f.scalar.lib()
	}
	vals := make([]ff.PLYValue, len(f.items))
	for i, it := range f.items {
		vals[i] = it.lib()
	}
	return ff.PLYValueList{Length: f.length.lib(), Values: vals}
}

func (v rval) String() string {
	switch v.kind {
	case kF32:
		return fmt.Sprintf("f32:%08x(%g)", uint32(v.u), math.Float32frombits(uint32(v.u)))
	case kF64:
		return fmt.Sprintf("f64:%016x(%g)", v.u, math.Float64frombits(v.u))
	default:
		return fmt.Sprintf("%s:%d", []string{"i8", "u8", "i16", "u16", "i32", "u32"}[v.kind], v.i)
	}
}

func (f rfield) String() string {
	if !f.isList {
		return f.scalar.String()
	}
	var s []string
	for _, it := range f.items {
		s = append(s, it.String())
	}
	return "[" + f.length.String() + "| " + strings.Join(s, " ") + "]"
}

func rowString(fs []rfield) string {
	var s []string
	for _, f := range fs {
		s = append(s, f.String())
	}
	return strings.Join(s, ", ")
}

// fromLib converts a library value back into the reference representation;
// ok is false when the dynamic type is not the one the declared type demands.
func scalarFromLib(v ff.PLYValue, want pkind) (rval, bool) {
	switch x := v.(type) {
	case ff.PLYValueInt8:
		return rval{kind: kI8, i: int64(x.Value)}, want == kI8
	case ff.PLYValueUint8:
		return rval{kind: kU8, i: int64(x.Value)}, want == kU8
	case ff.PLYValueInt16:
		return rval{kind: kI16, i: int64(x.Value)}, want == kI16
	case ff.PLYValueUint16:
		return rval{kind: kU16, i: int64(x.Value)}, want == kU16
	case ff.PLYValueInt32:
		return rval{kind: kI32, i: int64(x.Value)}, want == kI32
	case ff.PLYValueUint32:
		return rval{kind: kU32, i: int64(x.Value)}, want == kU32
	case ff.PLYValueFloat32:
		return rval{kind: kF32, u: uint64(math.Float32bits(x.Value))}, want == kF32
	case ff.PLYValueFloat64:
		return rval{kind: kF64, u: math.Float64bits(x.Value)}, want == kF64
	}
	return rval{}, false
}

func sameScalar(a, b rval) bool { return a.kind == b.kind && a.i == b.i && a.u == b.u }

// compareRow returns "" when the library row equals the reference row.
func compareRow(e *relem, want []rfield, got []ff.PLYValue) string {
	if len(got) != len(want) {
		return fmt.Sprintf("row has %d values, element declares %d properties", len(got), len(want))
	}
	for i, w := range want {
		p := e.props[i]
		if !w.isList {
			g, ok := scalarFromLib(got[i], kindOf(p.typ))
			if !ok {
				return fmt.Sprintf("property %q (%s): value has Go type %T", p.name, p.typ, got[i])
			}
			if !sameScalar(g, w.scalar) {
				return fmt.Sprintf("property %q (%s): got %v want %v", p.name, p.typ, g, w.scalar)
			}
			continue
		}
		l, ok := got[i].(ff.PLYValueList)
		if !ok {
			return fmt.Sprintf("list property %q: value has Go type %T", p.name, got[i])
		}
		gl, ok := scalarFromLib(l.Length, kindOf(p.lenType))
		if !ok {
			return fmt.Sprintf("list property %q: length has Go type %T, declared %s", p.name, l.Length, p.lenType)
		}
		if !sameScalar(gl, w.length) {
			return fmt.Sprintf("list property %q: length got %v want %v", p.name, gl, w.length)
		}
		if len(l.Values) != len(w.items) {
			return fmt.Sprintf("list property %q: %d items want %d", p.name, len(l.Values), len(w.items))
		}
		for j, it := range w.items {
			g, ok := scalarFromLib(l.Values[j], kindOf(p.typ))
			if !ok {
				return fmt.Sprintf("list property %q item %d (%s): Go type %T", p.name, j, p.typ, l.Values[j])
			}
			if !sameScalar(g, it) {
				return fmt.Sprintf("list property %q item %d: got %v want %v", p.name, j, g, it)
			}
		}
	}
	return ""
}

// compareHeader returns "" when the library header equals the reference one.
func compareHeader(want *rheader, got ff.PLYHeader) string {
	if int(got.Format) != want.format {
		return fmt.Sprintf("format %d want %d", got.Format, want.format)
	}
	if len(got.Elements) != len(want.elements) {
		return fmt.Sprintf("%d elements want %d", len(got.Elements), len(want.elements))
	}
	for i, e := range want.elements {
		g := got.Elements[i]
		if g.Name != e.name || g.Count != int64(e.count) {
			return fmt.Sprintf("element %d is %q x%d want %q x%d", i, g.Name, g.Count, e.name, e.count)
		}
		if len(g.Properties) != len(e.props) {
			return fmt.Sprintf("element %q has %d properties want %d", e.name, len(g.Properties), len(e.props))
		}
		for j, p := range e.props {
			gp := g.Properties[j]
			if gp.Name != p.name || string(gp.ElemType) != p.typ || string(gp.LenType) != p.lenType {
				return fmt.Sprintf("element %q property %d is {%q len=%q elem=%q} want {%q len=%q elem=%q}", e.name, j, gp.Name, gp.LenType, gp.ElemType, p.name, p.lenType, p.typ)
			}
		}
	}
	return ""
}

// ---------------------------------------------------------------------------
// reference body encoders

func putScalar(b *bytes.Buffer, order binary.ByteOrder, v rval) {
	var tmp [8]byte
	switch v.kind {
	case kI8, kU8:
		b.WriteByte(byte(v.i))
	case kI16, kU16:
		order.PutUint16(tmp[:2], uint16(v.i))
		b.Write(tmp[:2])
	case kI32, kU32:
		order.PutUint32(tmp[:4], uint32(v.i))
		b.Write(tmp[:4])
	case kF32:
		order.PutUint32(tmp[:4], uint32(v.u))
		b.Write(tmp[:4])
	case kF64:
		order.PutUint64(tmp[:8], v.u)
		b.Write(tmp[:8])
	}
}

// asciiScalar formats one scalar; floats use a randomly chosen but exactly
// round-tripping decimal form (9 / 17 significant digits, exponent forms).
func asciiScalar(rng *rand.Rand, v rval) string {
	switch v.kind {
	case kF32:
		x := float64(math.Float32frombits(uint32(v.u)))
		switch rng.Intn(4) {
		case 0:
			return strconv.FormatFloat(x, 'e', 8, 32)
		case 1:
			return strconv.FormatFloat(x, 'g', 9, 32)
		case 2:
			return strconv.FormatFloat(x, 'E', 8, 32)
		default:
			return strconv.FormatFloat(x, 'g', -1, 32)
		}
	case kF64:
		x := math.Float64frombits(v.u)
		switch rng.Intn(4) {
		case 0:
			return strconv.FormatFloat(x, 'e', 16, 64)
		case 1:
			return strconv.FormatFloat(x, 'g', 17, 64)
		case 2:
			return strconv.FormatFloat(x, 'E', 16, 64)
		default:
			return strconv.FormatFloat(x, 'g', -1, 64)
		}
	default:
		return strconv.FormatInt(v.i, 10)
	}
}

func (h *rheader) body(rng *rand.Rand, rows []rrow) []byte {
	var b bytes.Buffer
	var order binary.ByteOrder = binary.LittleEndian
	if h.format == 2 {
		order = binary.BigEndian
	}
	for _, row := range rows {
		// "white space" separates ASCII values: single or repeated blanks,
		// tabs, and optional blanks at either end of the line
		sep := []string{" ", " ", " ", "  ", "\t"}[rng.Intn(5)]
		lead, trail := "", ""
		if rng.Intn(8) == 0 {
			lead = " "
		}
		if rng.Intn(8) == 0 {
			trail = " "
		}
		if h.format == 0 {
			var toks []string
			for _, f := range row.fields {
				if !f.isList {
					toks = append(toks, asciiScalar(rng, f.scalar))
					continue
				}
				toks = append(toks, asciiScalar(rng, f.length))
				for _, it := range f.items {
					toks = append(toks, asciiScalar(rng, it))
				}
			}
			if len(toks) == 0 {
				lead, trail = "", ""
			}
			b.WriteString(lead + strings.Join(toks, sep) + trail)
			b.WriteByte('\n')
			continue
		}
		for _, f := range row.fields {
			if !f.isList {
				putScalar(&b, order, f.scalar)
				continue
			}
			putScalar(&b, order, f.length)
			for _, it := range f.items {
				putScalar(&b, order, it)
			}
		}
	}
	return b.Bytes()
}

// ---------------------------------------------------------------------------
// independent parser of what the library's writer produced (ASCII bodies)

func parseScalarToken(tok string, k pkind) (rval, error) {
	switch k {
	case kF32:
		x, err := strconv.ParseFloat(tok, 32)
		if err != nil {
			return rval{}, err
		}
		return rval{kind: k, u: uint64(math.Float32bits(float32(x)))}, nil
	case kF64:
		x, err := strconv.ParseFloat(tok, 64)
		if err != nil {
			return rval{}, err
		}
		return rval{kind: k, u: math.Float64bits(x)}, nil
	}
	bits := map[pkind]int{kI8: 8, kU8: 8, kI16: 16, kU16: 16, kI32: 32, kU32: 32}[k]
	if k == kU8 || k == kU16 || k == kU32 {
		x, err := strconv.ParseUint(tok, 10, bits)
		return rval{kind: k, i: int64(x)}, err
	}
	x, err := strconv.ParseInt(tok, 10, bits)
	return rval{kind: k, i: x}, err
}

// checkASCIIBody parses body (text after end_header) against the reference
// rows; returns "" if every line carries exactly the expected values.
func checkASCIIBody(h *rheader, rows []rrow, body string) string {
	lines := strings.Split(body, "\n")
	if len(lines) > 0 && lines[len(lines)-1] == "" {
		lines = lines[:len(lines)-1]
	} else if len(body) > 0 {
		return "body does not end with a newline"
	}
	if len(lines) != len(rows) {
		return fmt.Sprintf("body has %d lines, want %d rows", len(lines), len(rows))
	}
	for i, row := range rows {
		toks := strings.Fields(lines[i])
		e := &h.elements[row.elem]
		pos := 0
		next := func(k pkind, want rval) string {
			if pos >= len(toks) {
				return fmt.Sprintf("line %d (%q): too few tokens", i, lines[i])
			}
			g, err := parseScalarToken(toks[pos], k)
			pos++
			if err != nil {
				return fmt.Sprintf("line %d (%q): token %q does not parse as the declared type: %v", i, lines[i], toks[pos-1], err)
			}
			if !sameScalar(g, want) {
				return fmt.Sprintf("line %d (%q): token %q decodes to %v, written value was %v", i, lines[i], toks[pos-1], g, want)
			}
			return ""
		}
		for j, f := range row.fields {
			p := e.props[j]
			if !f.isList {
				if msg := next(kindOf(p.typ), f.scalar); msg != "" {
					return msg
				}
				continue
			}
			if msg := next(kindOf(p.lenType), f.length); msg != "" {
				return msg
			}
			for _, it := range f.items {
				if msg := next(kindOf(p.typ), it); msg != "" {
					return msg
				}
			}
		}
		if pos != len(toks) {
			return fmt.Sprintf("line %d (%q): %d extra tokens", i, lines[i], len(toks)-pos)
		}
	}
	return ""
}

// parseHeaderText is the harness's own reading of a header written by the
// library (no comments expected); returns a description comparable with
// rheader.describe().
func parseHeaderText(text string) (string, error) {
	lines := strings.Split(text, "\n")
	if len(lines) < 4 || lines[0] != "ply" || lines[len(lines)-1] != "" || lines[len(lines)-2] != "end_header" {
		return "", fmt.Errorf("bad frame")
	}
	fl := strings.Fields(lines[1])
	if len(fl) != 3 || fl[0] != "format" || fl[2] != "1.0" {
		return "", fmt.Errorf("bad format line %q", lines[1])
	}
	var parts []string
	var cur string
	var props []string
	flush := func() {
		if cur != "" {
			parts = append(parts, fmt.Sprintf("%s {%s}", cur, strings.Join(props, "; ")))
		}
		props = nil
	}
	for _, ln := range lines[2 : len(lines)-2] {
		f := strings.Fields(ln)
		switch {
		case len(f) == 3 && f[0] == "element":
			flush()
			cur = "element " + f[1] + " " + f[2]
		case len(f) == 3 && f[0] == "property":
			props = append(props, f[1]+" "+f[2])
		case len(f) == 5 && f[0] == "property" && f[1] == "list":
			props = append(props, "list "+f[2]+" "+f[3]+" "+f[4])
		default:
			return "", fmt.Errorf("bad header line %q", ln)
		}
	}
	flush()
	return fl[1] + ": " + strings.Join(parts, " "), nil
}
