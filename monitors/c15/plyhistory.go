package main

// Section "ply.history": histories of PLY writer use within one process. The
// standard element constructors hand out descriptors that a caller of the
// generic writer may customise in place (coordinates as doubles for a point
// cloud, an extra property, a renamed list); whatever one caller did to the
// descriptor it was given must not show in a later caller's file - neither in
// what the constructors return next nor in what the mesh API writes.

import (
	"bytes"
	"fmt"

	ff "github.com/unixpickle/model3d/fileformats"
	"github.com/unixpickle/model3d/model3d"
	"verif/vlib"
)

func describeElement(e *ff.PLYElement) string {
	s := fmt.Sprintf("%s %d:", e.Name, e.Count)
	for _, p := range e.Properties {
		s += fmt.Sprintf(" [%s|%s|%s]", p.LenType, p.ElemType, p.Name)
	}
	return s
}

const stdVertexDesc = " [|float|x] [|float|y] [|float|z] [|uchar|red] [|uchar|green] [|uchar|blue]"
const stdFaceDesc = " [uchar|int|vertex_index]"

func plyHistory(r *vlib.Run) {
	r.Section("ply.history", r.N(1500, 15000), vlib.SectionOpts{Sequential: true}, func(c *vlib.Case) {
		rng := c.Rng
		var log []string
		wit := func() map[string]interface{} { return map[string]interface{}{"history": log} }
		steps := 2 + rng.Intn(5)
		for s := 0; s < steps; s++ {
			switch rng.Intn(3) {
			case 0:
				// a caller customises the descriptors it was handed and writes a file with them
				nv, nf := int64(1+rng.Intn(3)), int64(rng.Intn(3))
				ev, ef := ff.NewPLYElementColoredVertex(nv), ff.NewPLYElementFace(nf)
				if d := describeElement(ev); d != fmt.Sprintf("vertex %d:", nv)+stdVertexDesc {
					log = append(log, "NewPLYElementColoredVertex -> "+d)
					c.Violationf("fileformats.NewPLYElementColoredVertex/fresh-standard-descriptor", wit(), "constructor returned %q", d)
					return
				}
				if d := describeElement(ef); d != fmt.Sprintf("face %d:", nf)+stdFaceDesc {
					log = append(log, "NewPLYElementFace -> "+d)
					c.Violationf("fileformats.NewPLYElementFace/fresh-standard-descriptor", wit(), "constructor returned %q", d)
					return
				}
				c.Count("ply.history.fresh_descriptors_checked", 2)
				var what string
				switch rng.Intn(5) {
				case 0:
					for i := 0; i < 3; i++ {
						ev.Properties[i].ElemType = ff.PLYPropertyTypeDouble
					}
					what = "vertex x,y,z := double"
				case 1:
					ev.Properties[3+rng.Intn(3)].ElemType = ff.PLYPropertyTypeUshort
					what = "one vertex colour := ushort"
				case 2:
					ev.Properties[rng.Intn(6)].Name = "custom"
					what = "one vertex property renamed"
				case 3:
					ef.Properties[0].LenType = ff.PLYPropertyTypeUshort
					ef.Properties[0].Name = "vertex_indices"
					what = "face list := ushort-length vertex_indices"
				default:
					ev.Properties[0], ev.Properties[5] = ev.Properties[5], ev.Properties[0]
					what = "vertex properties x and blue swapped"
				}
				log = append(log, fmt.Sprintf("customise constructor results (%s) and write %d+%d rows through PLYWriter", what, nv, nf))
				h := &ff.PLYHeader{Format: ff.PLYFormat(rng.Intn(3)), Elements: []*ff.PLYElement{ev, ef}}
				var buf bytes.Buffer
				w, err := ff.NewPLYWriter(&buf, h)
				if err != nil {
					c.Violationf("fileformats.NewPLYWriter/error", wit(), "%v", err)
					return
				}
				for _, e := range h.Elements {
					for i := int64(0); i < e.Count; i++ {
						var row []ff.PLYValue
						for _, p := range e.Properties {
							if p.LenType != ff.PLYPropertyTypeNone {
								l, _ := p.LenType.Parse("3")
								var vals []ff.PLYValue
								for k := 0; k < 3; k++ {
									v, _ := p.ElemType.Parse("0")
									vals = append(vals, v)
								}
								row = append(row, ff.PLYValueList{Length: l, Values: vals})
							} else {
								v, _ := p.ElemType.Parse(fmt.Sprint(rng.Intn(100)))
								row = append(row, v)
							}
						}
						if err := w.Write(row); err != nil {
							c.Violationf("fileformats.PLYWriter.Write/error", wit(), "customised standard element: %v", err)
							return
						}
					}
				}
				pr, err := ff.NewPLYReader(bytes.NewReader(buf.Bytes()))
				if err != nil {
					c.Violationf("fileformats.NewPLYReader/error", wit(), "customised standard element: %v", err)
					return
				}
				hd := pr.Header()
				if len(hd.Elements) != 2 || describeElement(hd.Elements[0]) != describeElement(ev) || describeElement(hd.Elements[1]) != describeElement(ef) {
					c.Violationf("fileformats.PLYReader.Header/declared-elements", wit(), "read back a different header")
					return
				}
				c.Count("ply.history.custom_files", 1)
			default:
				// an ordinary mesh through the mesh API
				tris, desc := genMesh(rng)
				if len(tris) == 0 {
					continue
				}
				log = append(log, "EncodePLY + ReadColorPLY of "+desc)
				data := model3d.EncodePLY(tris, colorOf)
				if _, _, _, err := parseMeshPLYText(data); err != nil {
					w := wit()
					if len(data) < 600 {
						w["text"] = string(data)
					}
					c.Violationf("model3d.EncodePLY/text(after-customised-descriptors)", w, "output is not the declared coloured ASCII PLY: %v", err)
					return
				}
				res := callReadColorPLY(bytes.NewReader(data))
				if res.panicV != nil || res.err != nil {
					c.Violationf("model3d.ReadColorPLY(EncodePLY)/error(after-customised-descriptors)", wit(), "panic=%v err=%v", res.panicV, res.err)
					return
				}
				if !checkColorMesh(c, "model3d.ReadColorPLY(EncodePLY)(after-customised-descriptors)", roundTris(tris), res, wit()) {
					return
				}
				c.Count("ply.history.mesh_roundtrips_ok", 1)
			}
		}
		c.Nontrivial(fmt.Sprint(log))
	})
}
