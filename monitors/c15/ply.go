package main

import (
	"bytes"
	"errors"
	"fmt"
	"io"
	"math"
	"math/rand"
	"strings"

	ff "github.com/unixpickle/model3d/fileformats"
	"verif/vlib"
)

func randName(rng *rand.Rand, used map[string]bool) string {
	stock := []string{"vertex", "face", "edge", "x", "y", "z", "red", "nx", "vertex_index", "vertex_indices", "material", "confidence", "u", "s0", "a_b", "Q9", "tristrips", "range_grid"}
	for {
		var s string
		if rng.Intn(2) == 0 {
			s = stock[rng.Intn(len(stock))]
		} else {
			n := 1 + rng.Intn(6)
			b := make([]byte, n)
			for i := range b {
				b[i] = "abcdefghijklmnopqrstuvwxyz_0123456789"[rng.Intn(37)]
			}
			if b[0] >= '0' && b[0] <= '9' {
				b[0] = 'p'
			}
			s = string(b)
		}
		if !used[s] {
			used[s] = true
			return s
		}
	}
}

func intRange(k pkind) (int64, int64) {
	switch k {
	case kI8:
		return math.MinInt8, math.MaxInt8
	case kU8:
		return 0, math.MaxUint8
	case kI16:
		return math.MinInt16, math.MaxInt16
	case kU16:
		return 0, math.MaxUint16
	case kI32:
		return math.MinInt32, math.MaxInt32
	default:
		return 0, math.MaxUint32
	}
}

// randScalar draws a value of kind k, biased to the type limits.
func randScalar(rng *rand.Rand, k pkind, allowNonFinite bool) rval {
	switch k {
	case kF32:
		var x float32
		switch rng.Intn(8) {
		case 0:
			x = float32(extremeVals[rng.Intn(len(extremeVals))])
		case 1:
			x = math.Float32frombits(rng.Uint32()&0x807fffff | uint32(rng.Intn(255))<<23) // any finite incl. subnormal
		case 2:
			x = float32(rng.Intn(201) - 100)
		case 3:
			if allowNonFinite {
				return rval{kind: k, u: uint64([]uint32{0x7f800000, 0xff800000, 0x7fc00000}[rng.Intn(3)])}
			}
			x = math.MaxFloat32
		default:
			x = float32(rng.NormFloat64() * math.Pow(10, float64(rng.Intn(13)-6)))
		}
		return rval{kind: k, u: uint64(math.Float32bits(x))}
	case kF64:
		var x float64
		switch rng.Intn(8) {
		case 0:
			x = extremeVals[rng.Intn(len(extremeVals))]
		case 1:
			x = math.Float64frombits(rng.Uint64()&0x800fffffffffffff | uint64(rng.Intn(2047))<<52) // any finite
		case 2:
			x = float64(rng.Intn(201) - 100)
		case 3:
			if allowNonFinite {
				return rval{kind: k, u: []uint64{0x7ff0000000000000, 0xfff0000000000000, 0x7ff8000000000000}[rng.Intn(3)]}
			}
			x = math.MaxFloat64
		case 4:
			x = []float64{math.MaxFloat64, -math.MaxFloat64, math.SmallestNonzeroFloat64, 2.2250738585072014e-308, 0.1, 1.0 / 3}[rng.Intn(6)]
		default:
			x = rng.NormFloat64() * math.Pow(10, float64(rng.Intn(41)-20))
		}
		return rval{kind: k, u: math.Float64bits(x)}
	}
	lo, hi := intRange(k)
	var v int64
	switch rng.Intn(6) {
	case 0:
		v = lo
	case 1:
		v = hi
	case 2:
		v = []int64{0, 1, -1, 2, 127, 128, 255, 256, 32767, 32768, 65535, 65536}[rng.Intn(12)]
	case 3:
		v = hi - int64(rng.Intn(3))
	default:
		v = lo + rng.Int63n(hi-lo+1)
	}
	if v < lo {
		v = lo
	}
	if v > hi {
		v = hi
	}
	return rval{kind: k, i: v}
}

// genPLY draws a header and rows. budget bounds the number of scalars.
func genPLY(rng *rand.Rand, zeroCounts bool) (*rheader, []rrow, int) {
	longLists := 0
	h := &rheader{format: rng.Intn(3)}
	ne := 1 + rng.Intn(4)
	usedE := map[string]bool{}
	budget := 4000
	for e := 0; e < ne; e++ {
		el := relem{name: randName(rng, usedE)}
		np := rng.Intn(7)
		if np == 0 && !zeroCounts {
			np = 1
		}
		usedP := map[string]bool{}
		for p := 0; p < np; p++ {
			pr := rprop{name: randName(rng, usedP), typ: plyTypeNames[rng.Intn(len(plyTypeNames))].name}
			if rng.Intn(3) == 0 {
				// any integer type may carry the list length
				pr.lenType = plyTypeNames[rng.Intn(12)].name
			}
			el.props = append(el.props, pr)
		}
		switch rng.Intn(10) {
		case 0, 1:
			if zeroCounts {
				el.count = 0
			} else {
				el.count = 1
			}
		case 2, 3:
			el.count = 1
		case 4:
			el.count = 100 + rng.Intn(300)
		default:
			el.count = 2 + rng.Intn(9)
		}
		if np == 0 {
			// an element without properties is a meaningful stream only
			// with zero rows (the reader rejects other headers by design)
			el.count = 0
		}
		h.elements = append(h.elements, el)
	}
	var rows []rrow
	for ei := range h.elements {
		el := &h.elements[ei]
		for n := 0; n < el.count; n++ {
			row := rrow{elem: ei}
			for _, p := range el.props {
				if p.lenType == "" {
					row.fields = append(row.fields, rfield{scalar: randScalar(rng, kindOf(p.typ), h.format != 0)})
					budget--
					continue
				}
				lk := kindOf(p.lenType)
				_, hi := intRange(lk)
				var ln int64
				switch rng.Intn(8) {
				case 0:
					ln = 0
				case 1:
					ln = 1
				case 2:
					// the largest length the length type can carry, where affordable
					ln = hi
					if ln > 300 {
						if ln <= math.MaxUint16 && budget > 0 && rng.Intn(40) == 0 {
							// the limit of a 16-bit length type (32767 / 65535 items)
							budget -= 70000
						} else {
							ln = 256 + int64(rng.Intn(45))
						}
					}
				case 3:
					ln = []int64{127, 128, 255}[rng.Intn(3)]
				default:
					ln = int64(rng.Intn(7))
				}
				if ln > hi {
					ln = hi
				}
				if budget < 0 && ln > 3 && ln < 32767 {
					ln = int64(rng.Intn(3))
				}
				if ln >= 32767 {
					longLists++
				}
				f := rfield{isList: true, length: rval{kind: lk, i: ln}}
				for k := int64(0); k < ln; k++ {
					f.items = append(f.items, randScalar(rng, kindOf(p.typ), h.format != 0))
				}
				budget -= int(ln) + 1
				row.fields = append(row.fields, f)
			}
			rows = append(rows, row)
		}
	}
	return h, rows, longLists
}

type plyTraits struct {
	zeroCount         bool // some element has count 0
	trailingZeroCount bool // the last element(s) have count 0 and some earlier element has rows
	zeroProps         bool
	lists             bool
	aliases           bool
	lenTypeNotU8      bool
	nonFinite         bool
}

func traitsOf(h *rheader, rows []rrow) plyTraits {
	var t plyTraits
	for _, e := range h.elements {
		if e.count == 0 {
			t.zeroCount = true
		}
		if len(e.props) == 0 && e.count > 0 {
			t.zeroProps = true
		}
		for _, p := range e.props {
			if p.lenType != "" {
				t.lists = true
				if kindOf(p.lenType) != kU8 {
					t.lenTypeNotU8 = true
				}
			}
			for _, n := range []string{p.typ, p.lenType} {
				if strings.ContainsAny(n, "0123456789") {
					t.aliases = true
				}
			}
		}
	}
	if n := len(h.elements); n > 0 && h.elements[n-1].count == 0 && len(rows) > 0 {
		t.trailingZeroCount = true
	}
	return t
}

// readAll drives PLYReader over data and compares with the reference. prefix
// names the API chain for the violation key; zc routes every disagreement of a
// file with a zero-count element to one key.
func readAllPLY(c *vlib.Case, data []byte, h *rheader, rows []rrow, tr plyTraits, wit map[string]interface{}, source string) bool {
	rd, rdesc := readerFor(c.Rng, data)
	wit["reader"] = rdesc
	wit["bytes_from"] = source
	key := func(clause string) string {
		if tr.zeroCount {
			return "fileformats.PLYReader.Read/zero-count-element"
		}
		return "fileformats.PLYReader.Read/" + clause + "-" + formatNames[h.format]
	}
	pr, err := ff.NewPLYReader(rd)
	if err != nil {
		c.Violationf("fileformats.NewPLYReader/header-error", wit, "valid header rejected: %v", err)
		return false
	}
	if msg := compareHeader(h, pr.Header()); msg != "" {
		c.Violationf("fileformats.NewPLYReader/header-equal", wit, "decoded header differs: %s", msg)
		return false
	}
	for i, row := range rows {
		vals, el, err := pr.Read()
		if err != nil {
			c.Violationf(key("row-error"), wit, "row %d of %d (element %q): %v", i, len(rows), h.elements[row.elem].name, err)
			return false
		}
		want := &h.elements[row.elem]
		if el == nil || el.Name != want.name {
			name := "<nil>"
			if el != nil {
				name = el.Name
			}
			c.Violationf(key("row-element"), wit, "row %d attributed to element %q, belongs to %q", i, name, want.name)
			return false
		}
		if msg := compareRow(want, row.fields, vals); msg != "" {
			wit["row_index"] = i
			wit["row_want"] = rowString(row.fields)
			c.Violationf(key("row-values"), wit, "row %d (element %q): %s", i, want.name, msg)
			return false
		}
	}
	_, _, err = pr.Read()
	if !errors.Is(err, io.EOF) || errors.Is(err, io.ErrUnexpectedEOF) {
		c.Violationf(key("eof"), wit, "after the last of %d rows Read returned %v, want io.EOF", len(rows), err)
		return false
	}
	return true
}

func plyGeneric(r *vlib.Run) {
	r.Section("ply.generic", r.N(12000, 150000), vlib.SectionOpts{}, func(c *vlib.Case) {
		rng := c.Rng
		// Half of the cases avoid zero counts entirely so that the other
		// clauses are observed on files the zero-count handling cannot disturb.
		h, rows, longLists := genPLY(rng, c.Index%2 == 0)
		if longLists > 0 {
			c.Count("ply.generic.files_with_list_at_16bit_length_limit", 1)
		}
		tr := traitsOf(h, rows)
		wit0 := map[string]interface{}{"header": h.describe(), "rows": len(rows)}
		if len(rows) > 0 && len(rows) <= 6 {
			var rs []string
			for _, row := range rows {
				rs = append(rs, h.elements[row.elem].name+": "+rowString(row.fields))
			}
			wit0["row_values"] = rs
		}
		cp := func() map[string]interface{} {
			m := map[string]interface{}{}
			for k, v := range wit0 {
				m[k] = v
			}
			return m
		}
		wit := cp()
		c.Count("ply.generic.files", 1)
		c.Count("ply.generic.format."+formatNames[h.format], 1)
		c.Count("ply.generic.rows", int64(len(rows)))
		if tr.zeroCount {
			c.Count("ply.generic.files_with_zero_count_element", 1)
		}
		if tr.trailingZeroCount {
			c.Count("ply.generic.files_with_trailing_zero_count_element", 1)
		}
		if tr.zeroProps {
			c.Count("ply.generic.files_with_zero_property_element", 1)
		}
		if tr.lists {
			c.Count("ply.generic.files_with_lists", 1)
		}
		if tr.lenTypeNotU8 {
			c.Count("ply.generic.files_with_non_uchar_list_length", 1)
		}
		if tr.aliases {
			c.Count("ply.generic.files_with_alias_type_names", 1)
		}
		for _, e := range h.elements {
			for _, p := range e.props {
				c.Count("ply.generic.type."+p.typ, 1)
				if p.lenType != "" {
					c.Count("ply.generic.lentype."+p.lenType, 1)
				}
			}
		}

		refHeader := h.text(rng, false)
		refBody := h.body(rng, rows)

		// ---- writer: header + body against the reference encoding
		var buf bytes.Buffer
		w, err := ff.NewPLYWriter(&buf, h.lib())
		if err != nil {
			c.Violationf("fileformats.NewPLYWriter/error", wit, "%v", err)
			return
		}
		writerOK := true
		for i, row := range rows {
			fields := make([]ff.PLYValue, len(row.fields))
			for j, f := range row.fields {
				fields[j] = f.lib()
			}
			if err := w.Write(fields); err != nil {
				c.Violationf("fileformats.PLYWriter.Write/error", wit, "row %d: %v", i, err)
				writerOK = false
				break
			}
		}
		lib := buf.Bytes()
		if writerOK {
			c.Count("ply.writer.files", 1)
			idx := bytes.Index(lib, []byte("end_header\n"))
			if idx < 0 {
				c.Violationf("fileformats.PLYWriter/header-text", wit, "no end_header line in output %q", trunc(string(lib), 200))
				writerOK = false
			} else {
				hdrText, body := string(lib[:idx+11]), lib[idx+11:]
				desc, err := parseHeaderText(hdrText)
				if err != nil || desc != h.describe() {
					c.Violationf("fileformats.PLYWriter/header-text", wit, "header text %q does not declare %q (%v)", hdrText, h.describe(), err)
					writerOK = false
				} else if h.format != 0 {
					if !bytes.Equal(body, refBody) {
						writerOK = false
						if tr.trailingZeroCount && len(body) < len(refBody) && bytes.HasPrefix(refBody, body) {
							wit["body_bytes_written"] = len(body)
							wit["body_bytes_expected"] = len(refBody)
							c.Violationf("fileformats.PLYWriter.Write/flush-with-trailing-zero-count-element", wit, "after the last row only %d of %d body bytes had reached the io.Writer (doc: the full file is flushed by the time the last element is written)", len(body), len(refBody))
						} else {
							c.Violationf("fileformats.PLYWriter.Write/body-bytes-"+formatNames[h.format], wit, "binary body differs from the format definition: got % x want % x", truncB(body, 64), truncB(refBody, 64))
						}
					}
				} else {
					if msg := checkASCIIBody(h, rows, string(body)); msg != "" {
						writerOK = false
						if tr.trailingZeroCount && strings.Count(string(body), "\n") < len(rows) {
							wit["body_lines_written"] = strings.Count(string(body), "\n")
							c.Violationf("fileformats.PLYWriter.Write/flush-with-trailing-zero-count-element", wit, "after the last row only %d of %d lines had reached the io.Writer: %s", strings.Count(string(body), "\n"), len(rows), msg)
						} else {
							c.Violationf("fileformats.PLYWriter.Write/ascii-values", wit, "%s", msg)
						}
					}
				}
			}
			if writerOK {
				c.Count("ply.writer.files_matching_reference", 1)
			}
		}

		// ---- reader on the reference encoding (independent of the writer)
		refText := h.text(rng, true)
		if c.Index%6 == 5 {
			// a long header (comment lines) whose end_header line ends within a few bytes of a
			// multiple of 4096: the line straddles, ends at or starts at a buffer-sized boundary
			target := 4096*(1+rng.Intn(3)) + rng.Intn(27) - 12
			for target-len(refText) < 8 {
				target += 4096
			}
			pad := target - len(refText)
			var cm strings.Builder
			for pad > 0 {
				n := pad
				if n > 160 {
					n = 80 + rng.Intn(80)
					if pad-n < 8 {
						n = pad - 8
					}
				}
				// a comment line of exactly n bytes
				if n == 8 {
					cm.WriteString("comment\n")
				} else {
					cm.WriteString("comment " + strings.Repeat("x", n-9) + "\n")
				}
				pad -= n
			}
			cut := strings.Index(refText, "\n") + 1
			cut += strings.Index(refText[cut:], "\n") + 1
			refText = refText[:cut] + cm.String() + refText[cut:]
			c.Count("ply.reader.headers_ending_near_a_multiple_of_4096", 1)
			if len(refText) != target {
				panic("harness: padded header has the wrong length")
			}
		}
		ref := append([]byte(refText), refBody...)
		_ = refHeader
		if readAllPLY(c, ref, h, rows, tr, cp(), "harness reference encoder") {
			c.Count("ply.reader.reference_files_ok", 1)
			if tr.zeroCount {
				c.Count("ply.reader.zero_count_files_ok", 1)
			}
		}
		// ---- the literal round trip writer -> reader
		if writerOK {
			if readAllPLY(c, lib, h, rows, tr, cp(), "fileformats.PLYWriter") {
				c.Count("ply.roundtrips_ok", 1)
				c.Count("ply.roundtrips_ok."+formatNames[h.format], 1)
			}
		}
		if len(rows) >= 2 && len(h.elements) >= 2 {
			c.Nontrivial(h.describe())
		}
		c.Sample("ply-header", 3, h.describe())
	})
}

func trunc(s string, n int) string {
	if len(s) > n {
		return s[:n] + "..."
	}
	return s
}

func truncB(b []byte, n int) []byte {
	if len(b) > n {
		return b[:n]
	}
	return b
}

var _ = fmt.Sprintf
