// C15 — Mesh files round-trip through the library's writers and readers.
// Shape: seeded generator of well-formed meshes / PLY streams / spec-conformant
// text + independent reference codecs (DESIGN.md C15). Malformed input is the
// business of C16 and is never generated here.
package main

import (
	"time"

	"verif/vlib"
)

func main() {
	r := vlib.Start("C15", "exploration")
	r.ScaleQuick(4) // quick tier: 4x the case counts written at the sections (still well under a minute)
	r.Rule("seeded meshes (empty, single face, shared/duplicated vertices, duplicated and degenerate faces, float32 extremes, subnormals, ties, negative zero, vertices that merge in float32, up to 50k faces), random PLY headers (1-4 elements, 0-6 scalar/list properties of all 16 type names, any integer list-length type, counts incl. 0, three formats) with values at type limits, and ASCII STL / OFF / coloured PLY text written by the harness from the specifications; every file is checked against an independent reference encoding/decoding and through the library's reader; a case is non-trivial if it has >= 2 faces/rows (PLY: >= 2 elements); distinct by content hash")
	r.Assume("NaN coordinates and coordinates that overflow float32 are not generated for mesh APIs (vertex tables are keyed by coordinate); NaN/Inf appear only as binary PLY property values")
	r.Assume("formats that de-duplicate vertices by coordinate (PLY, OBJ, 3MF) may return +0 for -0: those are compared numerically; STL, OFF and CSV are compared bit for bit")
	r.Assume("Mesh.Iterate order is arbitrary: Mesh.EncodeSTL/EncodePLY/EncodeCSV/Save* are compared as multisets of ordered faces")
	r.Assume("OFF text always ends with a newline and has no comments (the format description the reader cites has neither)")

	walls := map[string]float64{}
	timed := func(name string, f func(*vlib.Run)) {
		t0 := time.Now()
		f(r)
		walls[name] = time.Since(t0).Seconds() // evidence only, never a verdict
	}
	timed("stl.binary", stlBinary)
	timed("stl.ascii", stlASCII)
	timed("ply.generic", plyGeneric)
	timed("ply.mesh", plyMesh)
	timed("off", offSection)
	timed("csv", csvSection)
	timed("obj", objSection)
	timed("3mf", threeMFSection)
	timed("ply.history", plyHistory)
	r.Note("group_wall_s", walls)

	// clauses named in the property statement
	r.Require("stl.binary.roundtrips_ok", 1000)
	r.Require("stl.binary.empty_mesh", 10)
	r.Require("stl.binary.lowlevel_roundtrips_ok", 500)
	r.Require("stl.ascii.reads_ok", 1000)
	r.Require("stl.ascii.no_final_newline", 100)
	r.Require("ply.mesh.roundtrips_ok", 1000)
	r.Require("ply.mesh.text_ok", 1000)
	r.Require("ply.mesh_harness.reads_ok", 500)
	r.Require("ply.history.mesh_roundtrips_ok", 500)
	r.Require("ply.history.custom_files", 300)
	r.Require("ply.generic.files", 2000)
	r.Require("ply.generic.format.ascii", 500)
	r.Require("ply.generic.format.binary_little_endian", 500)
	r.Require("ply.generic.format.binary_big_endian", 500)
	r.Require("ply.generic.files_with_lists", 500)
	r.Require("ply.generic.files_with_non_uchar_list_length", 300)
	r.Require("ply.generic.files_with_zero_count_element", 300)
	r.Require("ply.generic.files_with_alias_type_names", 500)
	r.Require("ply.roundtrips_ok", 1000)
	r.Require("ply.reader.reference_files_ok", 1000)
	r.Require("ply.writer.files_matching_reference", 1000)
	r.Require("off.reads_ok", 1000)
	r.Require("off.polygon_files_ok", 200)
	r.Require("csv.mesh.roundtrips_ok", 1000)
	r.Require("csv.lowlevel.roundtrips_ok", 1000)
	r.Require("obj.vertex_color.ok", 500)
	r.Require("obj.material.ok", 500)
	r.Require("obj.uvmap.ok", 300)
	r.Require("obj.quantized.ok", 100)
	r.Require("3mf.ok", 500)
	r.Finish()
}
