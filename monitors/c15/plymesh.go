package main

import (
	"bytes"
	"fmt"
	"hash/fnv"
	"io"
	"math"
	"strconv"
	"strings"

	ff "github.com/unixpickle/model3d/fileformats"
	"github.com/unixpickle/model3d/model3d"
	"verif/vlib"
)

// colorOf is defined on float32-rounded coordinates with -0 folded into +0, so
// that a colour map keyed by (rounded) coordinate cannot be blamed for
// collisions (DESIGN C15).
func colorOf(c C3) [3]uint8 {
	h := fnv.New32a()
	for _, x := range c.Array() {
		y := float32(x)
		if y == 0 {
			y = 0
		}
		b := math.Float32bits(y)
		h.Write([]byte{byte(b), byte(b >> 8), byte(b >> 16), byte(b >> 24)})
	}
	s := h.Sum32()
	return [3]uint8{byte(s), byte(s >> 8), byte(s >> 16)}
}

type readColorResult struct {
	tris   []*Tri
	colors *model3d.CoordMap[[3]uint8]
	err    error
	panicV interface{}
}

func callReadColorPLY(r io.Reader) (res readColorResult) {
	defer func() {
		if e := recover(); e != nil {
			res.panicV = e
		}
	}()
	res.tris, res.colors, res.err = model3d.ReadColorPLY(r)
	return
}

// checkColorMesh compares a decoded coloured mesh with the expected faces
// (already rounded to float32). Coordinates are compared numerically: the
// vertex table is keyed by coordinate, so -0 and +0 are one vertex.
func checkColorMesh(c *vlib.Case, key string, want []*Tri, res readColorResult, wit map[string]interface{}) bool {
	if len(res.tris) != len(want) {
		c.Violationf(key+"/face-count", wit, "decoded %d faces, want %d", len(res.tris), len(want))
		return false
	}
	distinct := map[C3]bool{}
	for i, t := range want {
		for j := 0; j < 3; j++ {
			if res.tris[i][j] != t[j] {
				wit["face_index"] = i
				c.Violationf(key+"/coords", wit, "face %d vertex %d decoded as %s, want %s", i, j, hex3(res.tris[i][j]), hex3(t[j]))
				return false
			}
			distinct[t[j]] = true
		}
	}
	if res.colors == nil {
		c.Violationf(key+"/colors", wit, "nil colour map")
		return false
	}
	for v := range distinct {
		got, ok := res.colors.Load(v)
		if !ok || got != colorOf(v) {
			c.Violationf(key+"/colors", wit, "vertex %s has colour %v (present=%v), want %v", hex3(v), got, ok, colorOf(v))
			return false
		}
	}
	return true
}

func roundTris(ts []*Tri) []*Tri {
	out := make([]*Tri, len(ts))
	for i, t := range ts {
		out[i] = &Tri{r32c(t[0]), r32c(t[1]), r32c(t[2])}
	}
	return out
}

// parseMeshPLYText is the harness's own reading of the ASCII colour PLY the
// library writes: returns vertices, colours and index triples.
func parseMeshPLYText(data []byte) (verts []C3, cols [][3]uint8, faces [][3]int, err error) {
	idx := bytes.Index(data, []byte("end_header\n"))
	if idx < 0 {
		return nil, nil, nil, fmt.Errorf("no end_header")
	}
	head := string(data[:idx+11])
	nv, nf := -1, -1
	want := "ply\nformat ascii 1.0\nelement vertex %d\nproperty float x\nproperty float y\nproperty float z\nproperty uchar red\nproperty uchar green\nproperty uchar blue\nelement face %d\nproperty list uchar int vertex_index\nend_header\n"
	if n, _ := fmt.Sscanf(head, want, &nv, &nf); n != 2 || fmt.Sprintf(want, nv, nf) != head {
		return nil, nil, nil, fmt.Errorf("unexpected header %q", head)
	}
	body := string(data[idx+11:])
	lines := strings.Split(body, "\n")
	if lines[len(lines)-1] != "" {
		return nil, nil, nil, fmt.Errorf("body does not end in newline")
	}
	lines = lines[:len(lines)-1]
	if len(lines) != nv+nf {
		return nil, nil, nil, fmt.Errorf("header declares %d vertices + %d faces, body has %d lines", nv, nf, len(lines))
	}
	for i := 0; i < nv; i++ {
		f := strings.Fields(lines[i])
		if len(f) != 6 {
			return nil, nil, nil, fmt.Errorf("vertex line %q", lines[i])
		}
		var p [3]float64
		for k := 0; k < 3; k++ {
			x, err := strconv.ParseFloat(f[k], 32)
			if err != nil {
				return nil, nil, nil, fmt.Errorf("vertex line %q: %v", lines[i], err)
			}
			p[k] = float64(float32(x))
		}
		var col [3]uint8
		for k := 0; k < 3; k++ {
			x, err := strconv.ParseUint(f[3+k], 10, 8)
			if err != nil {
				return nil, nil, nil, fmt.Errorf("vertex line %q: %v", lines[i], err)
			}
			col[k] = uint8(x)
		}
		verts = append(verts, C3{X: p[0], Y: p[1], Z: p[2]})
		cols = append(cols, col)
	}
	for i := 0; i < nf; i++ {
		f := strings.Fields(lines[nv+i])
		if len(f) != 4 || f[0] != "3" {
			return nil, nil, nil, fmt.Errorf("face line %q", lines[nv+i])
		}
		var t [3]int
		for k := 0; k < 3; k++ {
			x, err := strconv.Atoi(f[1+k])
			if err != nil || x < 0 || x >= nv {
				return nil, nil, nil, fmt.Errorf("face line %q: index out of [0,%d)", lines[nv+i], nv)
			}
			t[k] = x
		}
		faces = append(faces, t)
	}
	return
}

func plyMesh(r *vlib.Run) {
	r.Section("ply.mesh", r.N(6000, 60000), vlib.SectionOpts{}, func(c *vlib.Case) {
		rng := c.Rng
		tris, desc := genMesh(rng)
		if c.Index%1500 == 11 {
			tris, desc = gridMesh(rng, 1000+rng.Intn(r.N(4000, 49000))), "big-grid"
			c.Max("ply.mesh.largest_mesh_faces", float64(len(tris)))
		}
		wit := meshWitness(tris, desc)
		data := model3d.EncodePLY(tris, colorOf)
		c.Count("ply.mesh.encodes", 1)
		want := roundTris(tris)

		// --- the written text against the format (independent of the reader)
		verts, cols, faces, err := parseMeshPLYText(data)
		if err != nil {
			if len(data) < 600 {
				wit["text"] = string(data)
			}
			c.Violationf("model3d.EncodePLY/text", wit, "output is not the declared coloured ASCII PLY: %v", err)
			return
		}
		if len(faces) != len(tris) {
			c.Violationf("model3d.EncodePLY/face-count", wit, "wrote %d faces for %d triangles", len(faces), len(tris))
			return
		}
		distinct64 := map[C3]bool{}
		for _, t := range tris {
			for _, p := range t {
				distinct64[p] = true
			}
		}
		if len(verts) != len(distinct64) {
			c.Violationf("model3d.EncodePLY/vertex-dedup", wit, "vertex table has %d entries for %d distinct coordinates", len(verts), len(distinct64))
			return
		}
		for i, f := range faces {
			for j := 0; j < 3; j++ {
				if verts[f[j]] != want[i][j] {
					wit["face_index"] = i
					c.Violationf("model3d.EncodePLY/face-vertices", wit, "face %d vertex %d references table entry %d = %s, want %s", i, j, f[j], hex3(verts[f[j]]), hex3(want[i][j]))
					return
				}
			}
		}
		for i, v := range verts {
			if cols[i] != colorOf(v) {
				c.Violationf("model3d.EncodePLY/vertex-colors", wit, "vertex %d %s written with colour %v, colour function gives %v", i, hex3(v), cols[i], colorOf(v))
				return
			}
		}
		c.Count("ply.mesh.text_ok", 1)

		// --- mesh API round trip
		rd, rdesc := readerFor(rng, data)
		wit["reader"] = rdesc
		res := callReadColorPLY(rd)
		key := "model3d.ReadColorPLY(EncodePLY)"
		if len(tris) == 0 {
			// the empty mesh has two zero-count elements: own key
			key = "model3d.ReadColorPLY(EncodePLY)/empty-mesh"
			c.Count("ply.mesh.empty_mesh", 1)
		}
		if res.panicV != nil {
			wit["panic"] = fmt.Sprint(res.panicV)
			if len(tris) == 0 {
				c.Violationf(key, wit, "ReadColorPLY panicked on the file EncodePLY wrote for the empty mesh: %v", res.panicV)
			} else {
				c.Violationf(key+"/panic", wit, "ReadColorPLY panicked on a file written by EncodePLY: %v", res.panicV)
			}
			return
		}
		if res.err != nil {
			if len(tris) == 0 {
				c.Violationf(key, wit, "ReadColorPLY rejects the file EncodePLY wrote for the empty mesh: %v", res.err)
			} else {
				c.Violationf(key+"/error", wit, "ReadColorPLY(EncodePLY(mesh)) failed: %v", res.err)
			}
			return
		}
		if len(tris) == 0 {
			if len(res.tris) != 0 || res.colors == nil || res.colors.Len() != 0 {
				c.Violationf(key, wit, "empty mesh decoded as %d faces", len(res.tris))
			} else {
				c.Count("ply.mesh.roundtrips_ok", 1)
			}
			return
		}
		if !checkColorMesh(c, key, want, res, wit) {
			return
		}
		dr := map[C3]bool{}
		for _, t := range want {
			for _, p := range t {
				dr[p] = true
			}
		}
		if res.colors.Len() != len(dr) {
			c.Violationf(key+"/colors", wit, "colour map has %d entries for %d distinct rounded vertices", res.colors.Len(), len(dr))
			return
		}
		c.Count("ply.mesh.roundtrips_ok", 1)
		c.Count("ply.mesh.faces", int64(len(tris)))
		if len(dr) < len(distinct64) {
			c.Count("ply.mesh.meshes_with_vertices_merging_in_float32", 1)
		}
		if len(tris) >= 2 {
			c.Nontrivial("ply/" + meshSig(tris, desc))
		}
	})

	r.Section("ply.mesh-method", r.N(500, 5000), vlib.SectionOpts{}, func(c *vlib.Case) {
		tris, desc := genMesh(c.Rng)
		if len(tris) == 0 {
			return // empty mesh: covered (own key) in ply.mesh
		}
		m := model3d.NewMeshTriangles(tris)
		res := callReadColorPLY(bytes.NewReader(m.EncodePLY(colorOf)))
		wit := meshWitness(tris, desc)
		if res.panicV != nil || res.err != nil {
			c.Violationf("model3d.ReadColorPLY(EncodePLY)/error", wit, "Mesh.EncodePLY output not readable: %v %v", res.err, res.panicV)
			return
		}
		// numeric (==) multiset comparison: fold -0 into +0 first
		fold := func(ts []*Tri) []*Tri {
			out := make([]*Tri, len(ts))
			for i, t := range ts {
				var u Tri
				for j, p := range t {
					u[j] = C3{X: r32(p.X) + 0, Y: r32(p.Y) + 0, Z: r32(p.Z) + 0}
					if u[j].X == 0 {
						u[j].X = 0
					}
					if u[j].Y == 0 {
						u[j].Y = 0
					}
					if u[j].Z == 0 {
						u[j].Z = 0
					}
				}
				out[i] = &u
			}
			return out
		}
		if !sameOrderedMultiset(fold(tris), fold(res.tris), false) {
			c.Violationf("model3d.Mesh.EncodePLY/face-multiset", wit, "faces read back (%d) are not the mesh's faces (%d) rounded to float32", len(res.tris), len(tris))
			return
		}
		c.Count("ply.mesh_method.roundtrips_ok", 1)
	})

	// Coloured mesh PLY files written by the harness from the specification
	// (and through PLYMeshWriter): every format, both spellings of each type.
	r.Section("ply.mesh-harness", r.N(6000, 60000), vlib.SectionOpts{}, func(c *vlib.Case) {
		rng := c.Rng
		nv := 1 + rng.Intn(12)
		pool := coordPool(rng, poolKinds[rng.Intn(len(poolKinds))], nv)
		verts := make([]C3, nv)
		for i := range verts {
			verts[i] = r32c(pool[i])
			if rng.Intn(6) == 0 && i > 0 {
				verts[i] = verts[rng.Intn(i)] // duplicated table entry
			}
		}
		nf := 1 + rng.Intn(20)
		if rng.Intn(8) == 0 {
			nf = 0 // vertices only: the face element declares zero rows
		}
		faces := make([][3]int, nf)
		want := make([]*Tri, nf)
		for i := range faces {
			faces[i] = [3]int{rng.Intn(nv), rng.Intn(nv), rng.Intn(nv)}
			want[i] = &Tri{verts[faces[i][0]], verts[faces[i][1]], verts[faces[i][2]]}
		}
		variant := rng.Intn(10)
		h := &rheader{}
		fl, uc, in := "float", "uchar", "int"
		lenT := "uchar"
		vname := "canonical-type-names"
		switch variant {
		case 1, 2:
			fl, uc, in, lenT = "float32", "uint8", "int32", "uint8"
			vname = "alias-type-names"
		case 3:
			in = "int32"
			fl = "float32"
			vname = "alias-coordinate-and-index-types"
		case 4:
			lenT = "uint8"
			vname = "alias-list-length-type-uint8"
		}
		vprops := []rprop{{name: "x", typ: fl}, {name: "y", typ: fl}, {name: "z", typ: fl}, {name: "red", typ: uc}, {name: "green", typ: uc}, {name: "blue", typ: uc}}
		if variant == 5 {
			rng.Shuffle(len(vprops), func(i, j int) { vprops[i], vprops[j] = vprops[j], vprops[i] })
			vname = "permuted-vertex-properties"
		}
		h.format = rng.Intn(3)
		viaMeshWriter := variant == 6
		if viaMeshWriter {
			h.format = 0
			vname = "PLYMeshWriter"
		}
		ve := relem{name: "vertex", count: nv, props: vprops}
		fe := relem{name: "face", count: nf, props: []rprop{{name: "vertex_index", lenType: lenT, typ: in}}}
		h.elements = []relem{ve, fe}
		// variants 8, 9: an unrelated element with rows of its own, before,
		// between or after the two mesh elements (legal in the format; a mesh
		// reader has to skip its rows)
		extraAt := -1
		var extra relem
		if variant >= 8 {
			extra = relem{name: []string{"edge", "material", "camera"}[rng.Intn(3)], count: rng.Intn(4), props: []rprop{
				{name: "vertex1", typ: "int"}, {name: "w", typ: "double"}, {name: "tags", lenType: "ushort", typ: "short"}}}
			extraAt = rng.Intn(3)
			vname = "unrelated-extra-element"
		}
		var rows []rrow
		for i := 0; i < nv; i++ {
			col := colorOf(verts[i])
			row := rrow{elem: 0}
			arr := verts[i].Array()
			for _, p := range vprops {
				switch p.name {
				case "x":
					row.fields = append(row.fields, rfield{scalar: rval{kind: kF32, u: uint64(math.Float32bits(float32(arr[0])))}})
				case "y":
					row.fields = append(row.fields, rfield{scalar: rval{kind: kF32, u: uint64(math.Float32bits(float32(arr[1])))}})
				case "z":
					row.fields = append(row.fields, rfield{scalar: rval{kind: kF32, u: uint64(math.Float32bits(float32(arr[2])))}})
				case "red":
					row.fields = append(row.fields, rfield{scalar: rval{kind: kU8, i: int64(col[0])}})
				case "green":
					row.fields = append(row.fields, rfield{scalar: rval{kind: kU8, i: int64(col[1])}})
				case "blue":
					row.fields = append(row.fields, rfield{scalar: rval{kind: kU8, i: int64(col[2])}})
				}
			}
			rows = append(rows, row)
		}
		for i := 0; i < nf; i++ {
			f := rfield{isList: true, length: rval{kind: kU8, i: 3}}
			for k := 0; k < 3; k++ {
				f.items = append(f.items, rval{kind: kI32, i: int64(faces[i][k])})
			}
			rows = append(rows, rrow{elem: 1, fields: []rfield{f}})
		}
		if extraAt >= 0 {
			// splice the extra element and its rows in; row.elem indexes shift
			var erows []rrow
			for i := 0; i < extra.count; i++ {
				n := rng.Intn(4)
				f := rfield{isList: true, length: rval{kind: kU16, i: int64(n)}}
				for k := 0; k < n; k++ {
					f.items = append(f.items, randScalar(rng, kI16, false))
				}
				erows = append(erows, rrow{fields: []rfield{{scalar: randScalar(rng, kI32, false)}, {scalar: randScalar(rng, kF64, false)}, f}})
			}
			var els []relem
			var all []rrow
			src := [][]rrow{rows[:nv], rows[nv:]}
			k := 0
			for pos := 0; pos < 3; pos++ {
				if pos == extraAt {
					for _, er := range erows {
						er.elem = len(els)
						all = append(all, er)
					}
					els = append(els, extra)
					continue
				}
				for _, rr := range src[k] {
					rr.elem = len(els)
					all = append(all, rr)
				}
				els = append(els, h.elements[k])
				k++
			}
			h.elements, rows = els, all
		}
		var data []byte
		if viaMeshWriter {
			var buf bytes.Buffer
			mw, err := ff.NewPLYMeshWriter(&buf, nv, nf)
			if err != nil {
				c.Violationf("fileformats.NewPLYMeshWriter/error", nil, "%v", err)
				return
			}
			for i := 0; i < nv; i++ {
				if err := mw.WriteCoord(verts[i].Array(), colorOf(verts[i])); err != nil {
					c.Violationf("fileformats.PLYMeshWriter.WriteCoord/error", nil, "%v", err)
					return
				}
			}
			for i := 0; i < nf; i++ {
				if err := mw.WriteTriangle(faces[i]); err != nil {
					c.Violationf("fileformats.PLYMeshWriter.WriteTriangle/error", nil, "%v", err)
					return
				}
			}
			data = buf.Bytes()
			pv, pc, pf, err := parseMeshPLYText(data)
			if err != nil && nf == 0 && bytes.HasSuffix(data, []byte("end_header\n")) {
				c.Violationf("fileformats.PLYMeshWriter/flush-with-zero-triangles", map[string]interface{}{"vertices": nv, "triangles": 0, "bytes_written": len(data)}, "after the last of %d WriteCoord calls (0 triangles declared) no vertex line had reached the io.Writer", nv)
				return
			}
			ok := err == nil && len(pv) == nv && len(pf) == nf
			for i := 0; ok && i < nv; i++ {
				ok = pv[i] == verts[i] && pc[i] == colorOf(verts[i])
			}
			for i := 0; ok && i < nf; i++ {
				ok = pf[i] == faces[i]
			}
			if !ok {
				c.Violationf("fileformats.PLYMeshWriter/text", map[string]interface{}{"text": trunc(string(data), 600)}, "PLYMeshWriter output does not carry the written vertices/faces (%v)", err)
				return
			}
			c.Count("ply.meshwriter.files_ok", 1)
		} else {
			data = append([]byte(h.text(rng, rng.Intn(2) == 0)), h.body(rng, rows)...)
		}
		wit := map[string]interface{}{"header": h.describe(), "variant": vname, "vertices": nv, "faces": nf}
		if h.format == 0 && len(data) < 700 {
			wit["text"] = string(data)
		}
		c.Count("ply.mesh_harness.files", 1)
		c.Count("ply.mesh_harness.variant."+vname, 1)
		c.Count("ply.mesh_harness.format."+formatNames[h.format], 1)
		rd, rdesc := readerFor(rng, data)
		wit["reader"] = rdesc
		res := callReadColorPLY(rd)
		key := "model3d.ReadColorPLY/" + vname
		if vname == "canonical-type-names" || vname == "PLYMeshWriter" {
			key = "model3d.ReadColorPLY/canonical-" + formatNames[h.format]
		}
		if res.panicV != nil {
			wit["panic"] = fmt.Sprint(res.panicV)
			c.Violationf(key, wit, "ReadColorPLY panicked on a well-formed coloured triangle PLY: %v", res.panicV)
			return
		}
		if res.err != nil {
			c.Violationf(key, wit, "ReadColorPLY rejects a well-formed coloured triangle PLY (%s): %v", vname, res.err)
			return
		}
		if checkColorMesh(c, key, want, res, wit) {
			c.Count("ply.mesh_harness.reads_ok", 1)
			c.Count("ply.mesh_harness.reads_ok."+vname, 1)
		}
	})
}
