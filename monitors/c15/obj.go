package main

import (
	"archive/zip"
	"bytes"
	"encoding/xml"
	"fmt"
	"hash/fnv"
	"image/png"
	"io"
	"math"
	"math/rand"
	"os"
	"path/filepath"
	"strconv"
	"strings"

	ff "github.com/unixpickle/model3d/fileformats"
	"github.com/unixpickle/model3d/model2d"
	"github.com/unixpickle/model3d/model3d"
	"verif/vlib"
)

func triHash(t *Tri) uint32 {
	h := fnv.New32a()
	for _, p := range t {
		for _, x := range p.Array() {
			if x == 0 {
				x = 0
			}
			b := math.Float64bits(x)
			var buf [8]byte
			for i := range buf {
				buf[i] = byte(b >> (8 * i))
			}
			h.Write(buf[:])
		}
	}
	return h.Sum32()
}

// palette returns a pure per-triangle colour function with k distinct colours
// whose components are not float32-representable.
func palette(seed int64, k int) func(t *Tri) [3]float64 {
	rng := rand.New(rand.NewSource(seed))
	cols := make([][3]float64, k)
	for i := range cols {
		cols[i] = [3]float64{rng.Float64(), rng.Float64(), rng.Float64()}
	}
	return func(t *Tri) [3]float64 { return cols[int(triHash(t)%uint32(k))] }
}

func vertexColor(c C3) [3]float64 {
	col := colorOf(c)
	return [3]float64{float64(col[0]) / 255, float64(col[1]) / 255, float64(col[2]) / 255}
}

func f32col(c [3]float64) [3]float32 {
	return [3]float32{float32(c[0]), float32(c[1]), float32(c[2])}
}

// genMeshOBJ: meshes without non-finite-in-float32 trouble; any kind.
func genMeshOBJ(rng *rand.Rand) ([]*Tri, string) {
	return genMesh(rng)
}

type objText struct {
	mtllibs []string
	verts   [][]float64 // 3 or 6 numbers
	uvs     [][2]float64
	groups  []objTextGroup
}

type objTextGroup struct {
	material string
	faces    [][3][3]int
}

func parseOBJText(text string) (*objText, error) {
	res := &objText{}
	if text != "" && !strings.HasSuffix(text, "\n") {
		return nil, fmt.Errorf("file does not end with a newline")
	}
	cur := -1
	for ln, line := range strings.Split(text, "\n") {
		f := strings.Fields(line)
		if len(f) == 0 {
			continue
		}
		switch f[0] {
		case "mtllib":
			res.mtllibs = append(res.mtllibs, strings.Join(f[1:], " "))
		case "v":
			if len(f) != 4 && len(f) != 7 {
				return nil, fmt.Errorf("line %d: %q", ln+1, line)
			}
			var nums []float64
			for _, s := range f[1:] {
				x, err := strconv.ParseFloat(s, 64)
				if err != nil {
					return nil, fmt.Errorf("line %d: %q: %v", ln+1, line, err)
				}
				nums = append(nums, x)
			}
			res.verts = append(res.verts, nums)
		case "vt":
			if len(f) != 3 {
				return nil, fmt.Errorf("line %d: %q", ln+1, line)
			}
			u, err1 := strconv.ParseFloat(f[1], 64)
			v, err2 := strconv.ParseFloat(f[2], 64)
			if err1 != nil || err2 != nil {
				return nil, fmt.Errorf("line %d: %q", ln+1, line)
			}
			res.uvs = append(res.uvs, [2]float64{u, v})
		case "usemtl":
			res.groups = append(res.groups, objTextGroup{material: f[1]})
			cur = len(res.groups) - 1
		case "f":
			if len(f) != 4 {
				return nil, fmt.Errorf("line %d: face with %d vertices: %q", ln+1, len(f)-1, line)
			}
			if cur < 0 {
				res.groups = append(res.groups, objTextGroup{})
				cur = 0
			}
			var face [3][3]int
			for i, s := range f[1:] {
				parts := strings.Split(s, "/")
				if len(parts) > 3 {
					return nil, fmt.Errorf("line %d: %q", ln+1, line)
				}
				for j, p := range parts {
					if p == "" {
						continue
					}
					x, err := strconv.Atoi(p)
					if err != nil {
						return nil, fmt.Errorf("line %d: %q", ln+1, line)
					}
					face[i][j] = x
				}
			}
			res.groups[cur].faces = append(res.groups[cur].faces, face)
		default:
			return nil, fmt.Errorf("line %d: unknown statement %q", ln+1, line)
		}
	}
	return res, nil
}

// checkOBJStruct: indices within [1,len], vertex table without duplicates and
// equal to the mesh's vertices, and returns the faces resolved per group.
func checkOBJStruct(c *vlib.Case, api string, o *ff.OBJFile, tris []*Tri, wantUV bool, wit map[string]interface{}) ([][]Tri, bool) {
	seen := map[C3]bool{}
	for i, v := range o.Vertices {
		p := model3d.NewCoord3DArray(v)
		if seen[p] {
			c.Violationf(api+"/vertex-dedup", wit, "vertex table entry %d %s is a duplicate", i, hex3(p))
			return nil, false
		}
		seen[p] = true
	}
	want := map[C3]bool{}
	for _, t := range tris {
		for _, p := range t {
			want[p] = true
			if !seen[p] {
				c.Violationf(api+"/vertex-table", wit, "mesh vertex %s is missing from the vertex table", hex3(p))
				return nil, false
			}
		}
	}
	if len(want) != len(seen) {
		c.Violationf(api+"/vertex-table", wit, "vertex table has %d entries, mesh has %d distinct vertices", len(seen), len(want))
		return nil, false
	}
	var res [][]Tri
	total := 0
	for gi, g := range o.FaceGroups {
		var fs []Tri
		for fi, f := range g.Faces {
			var t Tri
			for k := 0; k < 3; k++ {
				if f[k][0] < 1 || f[k][0] > len(o.Vertices) {
					c.Violationf(api+"/vertex-index-range", wit, "group %d face %d references vertex %d, table has %d entries (valid 1..%d)", gi, fi, f[k][0], len(o.Vertices), len(o.Vertices))
					return nil, false
				}
				if wantUV {
					if f[k][1] < 1 || f[k][1] > len(o.UVs) {
						c.Violationf(api+"/uv-index-range", wit, "group %d face %d references texture coordinate %d, table has %d entries", gi, fi, f[k][1], len(o.UVs))
						return nil, false
					}
				} else if f[k][1] != 0 {
					c.Violationf(api+"/uv-index-range", wit, "group %d face %d has texture index %d but no UVs are exported", gi, fi, f[k][1])
					return nil, false
				}
				if f[k][2] != 0 {
					c.Violationf(api+"/normal-index", wit, "group %d face %d has normal index %d but no normals are exported", gi, fi, f[k][2])
					return nil, false
				}
				t[k] = model3d.NewCoord3DArray(o.Vertices[f[k][0]-1])
			}
			fs = append(fs, t)
			total++
		}
		res = append(res, fs)
	}
	if total != len(tris) {
		c.Violationf(api+"/every-face-once", wit, "file references %d faces, mesh has %d", total, len(tris))
		return nil, false
	}
	return res, true
}

// checkOBJTextAgainstStruct parses the written text and checks that it carries
// the struct's content at float32 text precision.
func checkOBJTextAgainstStruct(c *vlib.Case, api string, text string, o *ff.OBJFile, wit map[string]interface{}) bool {
	pt, err := parseOBJText(text)
	if err != nil {
		c.Violationf(api+"/obj-text", wit, "written OBJ does not parse: %v", err)
		return false
	}
	if len(pt.verts) != len(o.Vertices) || len(pt.uvs) != len(o.UVs) {
		c.Violationf(api+"/obj-text", wit, "text has %d v / %d vt lines, object has %d / %d", len(pt.verts), len(pt.uvs), len(o.Vertices), len(o.UVs))
		return false
	}
	for i, v := range o.Vertices {
		wantLen := 3
		if o.VertexColors != nil {
			wantLen = 6
		}
		if len(pt.verts[i]) != wantLen {
			c.Violationf(api+"/obj-text", wit, "v line %d has %d numbers want %d", i, len(pt.verts[i]), wantLen)
			return false
		}
		for k := 0; k < 3; k++ {
			if float32(pt.verts[i][k]) != float32(v[k]) {
				c.Violationf(api+"/obj-text-coords-float32", wit, "v line %d component %d is %v, vertex is %x", i, k, pt.verts[i][k], v[k])
				return false
			}
		}
		if o.VertexColors != nil {
			for k := 0; k < 3; k++ {
				if float32(pt.verts[i][3+k]) != float32(o.VertexColors[i][k]) {
					c.Violationf(api+"/obj-text-colors", wit, "v line %d colour %d is %v want %v", i, k, pt.verts[i][3+k], o.VertexColors[i][k])
					return false
				}
			}
		}
	}
	for i, uv := range o.UVs {
		if float32(pt.uvs[i][0]) != float32(uv[0]) || float32(pt.uvs[i][1]) != float32(uv[1]) {
			c.Violationf(api+"/obj-text-uvs", wit, "vt line %d is %v want %v", i, pt.uvs[i], uv)
			return false
		}
	}
	// faces, in order, across groups
	var gotFaces, wantFaces [][3][3]int
	var gotMats, wantMats []string
	for _, g := range pt.groups {
		for _, f := range g.faces {
			gotFaces = append(gotFaces, f)
			gotMats = append(gotMats, g.material)
		}
	}
	for _, g := range o.FaceGroups {
		for _, f := range g.Faces {
			wantFaces = append(wantFaces, f)
			wantMats = append(wantMats, g.Material)
		}
	}
	if len(gotFaces) != len(wantFaces) {
		c.Violationf(api+"/obj-text-faces", wit, "text has %d f lines, object has %d faces", len(gotFaces), len(wantFaces))
		return false
	}
	for i := range gotFaces {
		if gotFaces[i] != wantFaces[i] || gotMats[i] != wantMats[i] {
			c.Violationf(api+"/obj-text-faces", wit, "f line %d is %v (material %q), object has %v (material %q)", i, gotFaces[i], gotMats[i], wantFaces[i], wantMats[i])
			return false
		}
	}
	if strings.Join(pt.mtllibs, ",") != strings.Join(o.MaterialFiles, ",") {
		c.Violationf(api+"/obj-text-mtllib", wit, "mtllib lines %v want %v", pt.mtllibs, o.MaterialFiles)
		return false
	}
	return true
}

func sameTriNumeric(a Tri, b *Tri) bool { return a[0] == b[0] && a[1] == b[1] && a[2] == b[2] }

func unzip(data []byte) (map[string][]byte, error) {
	zr, err := zip.NewReader(bytes.NewReader(data), int64(len(data)))
	if err != nil {
		return nil, err
	}
	res := map[string][]byte{}
	for _, f := range zr.File {
		rc, err := f.Open()
		if err != nil {
			return nil, err
		}
		b, err := io.ReadAll(rc)
		rc.Close()
		if err != nil {
			return nil, err
		}
		if _, dup := res[f.Name]; dup {
			return nil, fmt.Errorf("duplicate zip entry %q", f.Name)
		}
		res[f.Name] = b
	}
	return res, nil
}

// parseMTL returns material name -> Kd.
func parseMTL(text string) (map[string][3]float64, []string, error) {
	res := map[string][3]float64{}
	var order []string
	cur := ""
	for _, line := range strings.Split(text, "\n") {
		f := strings.Fields(line)
		if len(f) == 0 {
			continue
		}
		switch f[0] {
		case "newmtl":
			if len(f) != 2 {
				return nil, nil, fmt.Errorf("bad line %q", line)
			}
			cur = f[1]
			if _, dup := res[cur]; dup {
				return nil, nil, fmt.Errorf("material %q defined twice", cur)
			}
			res[cur] = [3]float64{-1, -1, -1}
			order = append(order, cur)
		case "Kd":
			if len(f) != 4 || cur == "" {
				return nil, nil, fmt.Errorf("bad line %q", line)
			}
			var col [3]float64
			for k := 0; k < 3; k++ {
				x, err := strconv.ParseFloat(f[1+k], 64)
				if err != nil {
					return nil, nil, fmt.Errorf("bad line %q", line)
				}
				col[k] = x
			}
			res[cur] = col
		}
	}
	return res, order, nil
}

func objSection(r *vlib.Run) {
	r.Section("obj.vertex-color", r.N(2500, 25000), vlib.SectionOpts{}, func(c *vlib.Case) {
		tris, desc := genMeshOBJ(c.Rng)
		wit := meshWitness(tris, desc)
		api := "model3d.BuildVertexColorOBJ"
		o := model3d.BuildVertexColorOBJ(tris, vertexColor)
		c.Count("obj.vertex_color.builds", 1)
		groups, ok := checkOBJStruct(c, api, o, tris, false, wit)
		if !ok {
			return
		}
		if len(o.FaceGroups) != 1 {
			c.Violationf(api+"/groups", wit, "%d face groups want 1", len(o.FaceGroups))
			return
		}
		for i, t := range tris {
			if !sameTriNumeric(groups[0][i], t) {
				c.Violationf(api+"/faces-in-order", wit, "face %d resolves to %s want %s", i, hexTri(&groups[0][i]), hexTri(t))
				return
			}
		}
		if len(o.VertexColors) != len(o.Vertices) {
			c.Violationf(api+"/vertex-colors", wit, "%d colours for %d vertices", len(o.VertexColors), len(o.Vertices))
			return
		}
		for i, v := range o.Vertices {
			if o.VertexColors[i] != vertexColor(model3d.NewCoord3DArray(v)) {
				c.Violationf(api+"/vertex-colors", wit, "vertex %d colour %v want %v", i, o.VertexColors[i], vertexColor(model3d.NewCoord3DArray(v)))
				return
			}
		}
		var buf bytes.Buffer
		if err := model3d.WriteVertexColorOBJ(&buf, tris, vertexColor); err != nil {
			c.Violationf("model3d.WriteVertexColorOBJ/error", wit, "%v", err)
			return
		}
		if len(tris) == 0 && buf.Len() == 0 {
			c.Count("obj.vertex_color.ok", 1)
			return
		}
		if checkOBJTextAgainstStruct(c, "model3d.WriteVertexColorOBJ", buf.String(), o, wit) {
			c.Count("obj.vertex_color.ok", 1)
			c.Count("obj.faces_checked", int64(len(tris)))
		}
	})

	r.Section("obj.material", r.N(2500, 25000), vlib.SectionOpts{}, func(c *vlib.Case) {
		rng := c.Rng
		tris, desc := genMeshOBJ(rng)
		wit := meshWitness(tris, desc)
		k := 1 + rng.Intn(5)
		colf := palette(rng.Int63(), k)
		wit["palette_size"] = k
		api := "model3d.BuildMaterialOBJ"
		o, m := model3d.BuildMaterialOBJ(tris, colf)
		c.Count("obj.material.builds", 1)
		groups, ok := checkOBJStruct(c, api, o, tris, false, wit)
		if !ok {
			return
		}
		// per material: the faces of that colour, in input order
		mats := map[string]*ff.MTLFileMaterial{}
		for _, mm := range m.Materials {
			if mats[mm.Name] != nil {
				c.Violationf(api+"/materials", wit, "material %q defined twice", mm.Name)
				return
			}
			mats[mm.Name] = mm
		}
		distinctCols := map[[3]float32]bool{}
		for _, t := range tris {
			distinctCols[f32col(colf(t))] = true
		}
		if len(mats) != len(distinctCols) || len(o.FaceGroups) != len(distinctCols) {
			c.Violationf(api+"/materials", wit, "%d materials, %d groups for %d distinct colours", len(mats), len(o.FaceGroups), len(distinctCols))
			return
		}
		seenMat := map[string]bool{}
		for gi, g := range o.FaceGroups {
			mm := mats[g.Material]
			if mm == nil || seenMat[g.Material] {
				c.Violationf(api+"/materials", wit, "group %d uses material %q (defined=%v, reused=%v)", gi, g.Material, mm != nil, seenMat[g.Material])
				return
			}
			seenMat[g.Material] = true
			var want []*Tri
			for _, t := range tris {
				if f32col(colf(t)) == mm.Diffuse {
					want = append(want, t)
				}
			}
			if mm.Ambient != mm.Diffuse {
				c.Violationf(api+"/face-colors", wit, "material %q ambient %v != diffuse %v", mm.Name, mm.Ambient, mm.Diffuse)
				return
			}
			if len(want) != len(groups[gi]) {
				c.Violationf(api+"/face-colors", wit, "material %q (colour %v) has %d faces, %d input faces have that colour", mm.Name, mm.Diffuse, len(groups[gi]), len(want))
				return
			}
			for i := range want {
				if !sameTriNumeric(groups[gi][i], want[i]) {
					c.Violationf(api+"/face-colors", wit, "material %q face %d resolves to %s want %s", mm.Name, i, hexTri(&groups[gi][i]), hexTri(want[i]))
					return
				}
			}
		}
		if strings.Join(o.MaterialFiles, ",") != "material.mtl" {
			c.Violationf(api+"/mtllib", wit, "MaterialFiles = %v", o.MaterialFiles)
			return
		}
		// zip
		data := model3d.EncodeMaterialOBJ(tris, colf)
		files, err := unzip(data)
		if err != nil {
			c.Violationf("model3d.EncodeMaterialOBJ/zip", wit, "zip does not parse: %v", err)
			return
		}
		objData, ok1 := files["object.obj"]
		mtlData, ok2 := files["material.mtl"]
		if !ok1 || !ok2 || len(files) != 2 {
			c.Violationf("model3d.EncodeMaterialOBJ/zip-files", wit, "zip entries %v, want object.obj and material.mtl", keysOf(files))
			return
		}
		if len(tris) > 0 || len(objData) > 0 {
			if !checkOBJTextAgainstStruct(c, "model3d.EncodeMaterialOBJ", string(objData), o, wit) {
				return
			}
		}
		kd, _, err := parseMTL(string(mtlData))
		if err != nil || len(kd) != len(mats) {
			c.Violationf("model3d.EncodeMaterialOBJ/mtl-text", wit, "mtl text: %v; %d materials want %d", err, len(kd), len(mats))
			return
		}
		for name, mm := range mats {
			got, ok := kd[name]
			for k := 0; ok && k < 3; k++ {
				ok = math.Abs(got[k]-float64(mm.Diffuse[k])) <= 5.0001e-5
			}
			if !ok {
				c.Violationf("model3d.EncodeMaterialOBJ/mtl-text", wit, "material %q Kd %v want %v to 4 decimals", name, got, mm.Diffuse)
				return
			}
		}
		// the Mesh method (faces in the mesh's own order): every face of the mesh exactly once, with
		// in-range indices, under the material of its colour
		if c.Index%4 == 0 && len(tris) > 0 {
			mesh := model3d.NewMeshTriangles(tris)
			mfiles, err := unzip(mesh.EncodeMaterialOBJ(colf))
			if err != nil {
				c.Violationf("model3d.Mesh.EncodeMaterialOBJ/zip", wit, "zip does not parse: %v", err)
				return
			}
			ot, err := parseOBJText(string(mfiles["object.obj"]))
			if err != nil {
				c.Violationf("model3d.Mesh.EncodeMaterialOBJ/obj-text", wit, "%v", err)
				return
			}
			mkd, _, err := parseMTL(string(mfiles["material.mtl"]))
			if err != nil {
				c.Violationf("model3d.Mesh.EncodeMaterialOBJ/mtl-text", wit, "%v", err)
				return
			}
			type faceKey [9]float64
			wantFaces := map[faceKey][][3]float64{}
			mesh.Iterate(func(t *Tri) {
				var k faceKey
				for i, p := range t {
					// coordinates are written with float32 precision
					k[3*i], k[3*i+1], k[3*i+2] = float64(float32(p.X))+0, float64(float32(p.Y))+0, float64(float32(p.Z))+0
				}
				wantFaces[k] = append(wantFaces[k], colf(t))
			})
			nFaces := 0
			for _, g := range ot.groups {
				kd, ok := mkd[g.material]
				if !ok {
					c.Violationf("model3d.Mesh.EncodeMaterialOBJ/material-defined", wit, "usemtl %q has no entry in material.mtl", g.material)
					return
				}
				for _, f := range g.faces {
					var k faceKey
					for i := 0; i < 3; i++ {
						vi := f[i][0]
						if vi < 1 || vi > len(ot.verts) {
							c.Violationf("model3d.Mesh.EncodeMaterialOBJ/index-in-range", wit, "vertex index %d with %d vertices", vi, len(ot.verts))
							return
						}
						v := ot.verts[vi-1]
						k[3*i], k[3*i+1], k[3*i+2] = float64(float32(v[0]))+0, float64(float32(v[1]))+0, float64(float32(v[2]))+0
					}
					// any rotation of the face is the same face; its material has the face's colour to 4 decimals
					found := false
					for rot := 0; rot < 3 && !found; rot++ {
						var kr faceKey
						for i := 0; i < 3; i++ {
							copy(kr[3*i:3*i+3], k[3*((i+rot)%3):3*((i+rot)%3)+3])
						}
						for j, col := range wantFaces[kr] {
							// (material colours are float32 values printed with 4 decimals)
							if math.Abs(float64(float32(col[0]))-kd[0]) <= 5.0001e-5 && math.Abs(float64(float32(col[1]))-kd[1]) <= 5.0001e-5 && math.Abs(float64(float32(col[2]))-kd[2]) <= 5.0001e-5 {
								wantFaces[kr] = append(wantFaces[kr][:j:j], wantFaces[kr][j+1:]...)
								found = true
								break
							}
						}
					}
					if !found {
						wit["candidates_same_coordinates"] = fmt.Sprint(wantFaces[k])
						wit["material"] = g.material
						c.Violationf("model3d.Mesh.EncodeMaterialOBJ/every-face-once", wit, "face %v with colour %v is not a (remaining) face of the mesh with that colour", k, kd)
						return
					}
					nFaces++
				}
			}
			if nFaces != mesh.NumTriangles() {
				c.Violationf("model3d.Mesh.EncodeMaterialOBJ/every-face-once", wit, "%d faces written for a mesh of %d", nFaces, mesh.NumTriangles())
				return
			}
			c.Count("obj.material.mesh_method_ok", 1)
		}
		c.Count("obj.material.ok", 1)
		c.Count("obj.faces_checked", int64(len(tris)))
		if len(distinctCols) >= 2 {
			c.Count("obj.material.multi_material_files", 1)
			c.Nontrivial("objmat/" + meshSig(tris, desc))
		}
	})

	r.Section("obj.uvmap", r.N(1500, 15000), vlib.SectionOpts{}, func(c *vlib.Case) {
		rng := c.Rng
		tris, desc := genMeshOBJ(rng)
		wit := meshWitness(tris, desc)
		uv := model3d.MeshUVMap{}
		uvPool := make([]model2d.Coord, 2+rng.Intn(8))
		for i := range uvPool {
			uvPool[i] = model2d.XY(float64(rng.Intn(65))/64, float64(rng.Intn(65))/64)
		}
		for _, t := range tris {
			uv[t] = [3]model2d.Coord{uvPool[rng.Intn(len(uvPool))], uvPool[rng.Intn(len(uvPool))], uvPool[rng.Intn(len(uvPool))]}
		}
		api := "model3d.BuildUVMapMaterialOBJ"
		o, m := model3d.BuildUVMapMaterialOBJ(tris, uv)
		c.Count("obj.uvmap.builds", 1)
		groups, ok := checkOBJStruct(c, api, o, tris, len(tris) > 0, wit)
		if !ok {
			return
		}
		if len(o.FaceGroups) != 1 || len(m.Materials) != 1 || o.FaceGroups[0].Material != m.Materials[0].Name || m.Materials[0].DiffuseMap == nil || m.Materials[0].DiffuseMap.Filename != "texture.png" {
			c.Violationf(api+"/materials", wit, "expected one group with one textured material")
			return
		}
		seenUV := map[[2]float64]bool{}
		for i, p := range o.UVs {
			if seenUV[p] {
				c.Violationf(api+"/uv-dedup", wit, "texture coordinate %d %v is a duplicate", i, p)
				return
			}
			seenUV[p] = true
		}
		for i, t := range tris {
			if !sameTriNumeric(groups[0][i], t) {
				c.Violationf(api+"/faces-in-order", wit, "face %d resolves to %s want %s", i, hexTri(&groups[0][i]), hexTri(t))
				return
			}
			f := o.FaceGroups[0].Faces[i]
			for k := 0; k < 3; k++ {
				got := o.UVs[f[k][1]-1]
				if got != uv[t][k].Array() {
					c.Violationf(api+"/face-uvs", wit, "face %d corner %d has texture coordinate %v want %v", i, k, got, uv[t][k])
					return
				}
			}
		}
		var buf bytes.Buffer
		if err := o.Write(&buf); err != nil {
			c.Violationf("fileformats.OBJFile.Write/error", wit, "%v", err)
			return
		}
		if checkOBJTextAgainstStruct(c, "fileformats.OBJFile.Write", buf.String(), o, wit) {
			c.Count("obj.uvmap.ok", 1)
			c.Count("obj.faces_checked", int64(len(tris)))
		}
	})

	// The quantised exporter clusters colours with the global math/rand
	// (k-means++ seeding): only structure is checked, sequentially.
	r.Section("obj.quantized", r.N(400, 4000), vlib.SectionOpts{Sequential: true, SeedGlobalRand: true}, func(c *vlib.Case) {
		rng := c.Rng
		tris, desc := genMeshOBJ(rng)
		wit := meshWitness(tris, desc)
		if len(tris) == 0 {
			// the empty mesh is in the property's quantifier; own key
			c.Count("obj.quantized.empty_mesh", 1)
			func() {
				defer func() {
					if e := recover(); e != nil {
						wit["panic"] = fmt.Sprint(e)
						c.Violationf("model3d.BuildQuantizedMaterialOBJ/empty-mesh", wit, "panics on the empty mesh: %v", e)
					}
				}()
				o, _, _ := model3d.BuildQuantizedMaterialOBJ(tris, 1+rng.Intn(3), palette(1, 2))
				if o == nil || len(o.Vertices) != 0 {
					c.Violationf("model3d.BuildQuantizedMaterialOBJ/empty-mesh", wit, "empty mesh exported with vertices")
				}
			}()
			return
		}
		size := 1 + rng.Intn(4)
		k := 1 + rng.Intn(8)
		colf := palette(rng.Int63(), k)
		wit["texture_size"] = size
		wit["palette_size"] = k
		api := "model3d.BuildQuantizedMaterialOBJ"
		o, m, img := model3d.BuildQuantizedMaterialOBJ(tris, size, colf)
		c.Count("obj.quantized.builds", 1)
		groups, ok := checkOBJStruct(c, api, o, tris, true, wit)
		if !ok {
			return
		}
		if len(o.FaceGroups) != 1 || len(m.Materials) != 1 || o.FaceGroups[0].Material != m.Materials[0].Name {
			c.Violationf(api+"/materials", wit, "expected one group with one material")
			return
		}
		if img == nil || img.Bounds().Dx() != size || img.Bounds().Dy() != size {
			c.Violationf(api+"/texture-size", wit, "texture bounds %v want %dx%d", img.Bounds(), size, size)
			return
		}
		for i, p := range o.UVs {
			if !(p[0] >= 0 && p[0] <= 1 && p[1] >= 0 && p[1] <= 1) {
				c.Violationf(api+"/uv-in-unit-square", wit, "texture coordinate %d = %v", i, p)
				return
			}
		}
		distinct := map[[3]float32]bool{}
		for _, t := range tris {
			distinct[f32col(colf(t))] = true
		}
		for i, t := range tris {
			if !sameTriNumeric(groups[0][i], t) {
				c.Violationf(api+"/faces-in-order", wit, "face %d resolves to %s want %s", i, hexTri(&groups[0][i]), hexTri(t))
				return
			}
			f := o.FaceGroups[0].Faces[i]
			if f[0][1] != f[1][1] || f[1][1] != f[2][1] {
				c.Violationf(api+"/face-uvs", wit, "face %d corners use different palette entries %v", i, f)
				return
			}
			// when every face may keep its own palette cell the texel must
			// carry the face's colour (truncated to 8 bits)
			if len(tris) <= size*size {
				p := o.UVs[f[0][1]-1]
				px := int(math.Floor(p[0] * float64(size)))
				py := int(math.Floor((1 - p[1]) * float64(size)))
				if px < 0 || px >= size || py < 0 || py >= size {
					c.Violationf(api+"/uv-in-unit-square", wit, "face %d uv %v maps outside the texture", i, p)
					return
				}
				got := img.RGBAAt(px, py)
				want := f32col(colf(t))
				near := func(g uint8, w float32) bool { return math.Abs(float64(g)-255*float64(w)) <= 1.01 }
				c.Count("obj.quantized.texels_checked", 1)
				if !near(got.R, want[0]) || !near(got.G, want[1]) || !near(got.B, want[2]) || got.A != 255 {
					c.Violationf(api+"/texel-color", wit, "face %d texel (%d,%d) = %v, face colour %v (faces %d <= %d cells)", i, px, py, got, want, len(tris), size*size)
					return
				}
			}
		}
		var buf bytes.Buffer
		if err := model3d.WriteQuantizedMaterialOBJ(&buf, tris, size, colf); err != nil {
			c.Violationf("model3d.WriteQuantizedMaterialOBJ/error", wit, "%v", err)
			return
		}
		files, err := unzip(buf.Bytes())
		if err != nil {
			c.Violationf("model3d.WriteQuantizedMaterialOBJ/zip", wit, "%v", err)
			return
		}
		if len(files) != 3 || files["object.obj"] == nil || files["material.mtl"] == nil || files["texture.png"] == nil {
			c.Violationf("model3d.WriteQuantizedMaterialOBJ/zip-files", wit, "zip entries %v", keysOf(files))
			return
		}
		if im, err := png.Decode(bytes.NewReader(files["texture.png"])); err != nil || im.Bounds().Dx() != size || im.Bounds().Dy() != size {
			c.Violationf("model3d.WriteQuantizedMaterialOBJ/texture-png", wit, "texture.png: %v", err)
			return
		}
		pt, err := parseOBJText(string(files["object.obj"]))
		if err != nil {
			c.Violationf("model3d.WriteQuantizedMaterialOBJ/obj-text", wit, "%v", err)
			return
		}
		nf := 0
		for _, g := range pt.groups {
			for _, f := range g.faces {
				nf++
				for k := 0; k < 3; k++ {
					if f[k][0] < 1 || f[k][0] > len(pt.verts) || f[k][1] < 1 || f[k][1] > len(pt.uvs) {
						c.Violationf("model3d.WriteQuantizedMaterialOBJ/index-range", wit, "face %v with %d v and %d vt lines", f, len(pt.verts), len(pt.uvs))
						return
					}
				}
			}
		}
		if nf != len(tris) {
			c.Violationf("model3d.WriteQuantizedMaterialOBJ/every-face-once", wit, "%d f lines for %d faces", nf, len(tris))
			return
		}
		c.Count("obj.quantized.ok", 1)
		c.Count("obj.faces_checked", int64(len(tris)))
	})
}

func keysOf(m map[string][]byte) []string {
	var res []string
	for k := range m {
		res = append(res, k)
	}
	return res
}

// ---------------------------------------------------------------------------
// 3MF

type x3mfModel struct {
	XMLName   xml.Name `xml:"model"`
	Unit      string   `xml:"unit,attr"`
	Resources struct {
		Objects []struct {
			ID   string `xml:"id,attr"`
			Mesh struct {
				Vertices struct {
					V []struct {
						X string `xml:"x,attr"`
						Y string `xml:"y,attr"`
						Z string `xml:"z,attr"`
					} `xml:"vertex"`
				} `xml:"vertices"`
				Triangles struct {
					T []struct {
						V1 string `xml:"v1,attr"`
						V2 string `xml:"v2,attr"`
						V3 string `xml:"v3,attr"`
					} `xml:"triangle"`
				} `xml:"triangles"`
			} `xml:"mesh"`
		} `xml:"object"`
	} `xml:"resources"`
	Build struct {
		Items []struct {
			ObjectID string `xml:"objectid,attr"`
		} `xml:"item"`
	} `xml:"build"`
}

func foldZero(c C3) C3 {
	if c.X == 0 {
		c.X = 0
	}
	if c.Y == 0 {
		c.Y = 0
	}
	if c.Z == 0 {
		c.Z = 0
	}
	return c
}

// decode3MF returns the triangles a 3MF package describes.
func decode3MF(data []byte) ([]*Tri, int, string, error) {
	files, err := unzip(data)
	if err != nil {
		return nil, 0, "", fmt.Errorf("zip: %v", err)
	}
	for _, name := range []string{"3D/3dmodel.model", "_rels/.rels", "[Content_Types].xml"} {
		if _, ok := files[name]; !ok {
			return nil, 0, "", fmt.Errorf("zip entry %q missing (have %v)", name, keysOf(files))
		}
	}
	if !bytes.Contains(files["_rels/.rels"], []byte("/3D/3dmodel.model")) {
		return nil, 0, "", fmt.Errorf("_rels/.rels does not point at /3D/3dmodel.model")
	}
	var m x3mfModel
	if err := xml.Unmarshal(files["3D/3dmodel.model"], &m); err != nil {
		return nil, 0, "", fmt.Errorf("model xml: %v", err)
	}
	if len(m.Resources.Objects) != 1 || len(m.Build.Items) != 1 || m.Build.Items[0].ObjectID != m.Resources.Objects[0].ID {
		return nil, 0, "", fmt.Errorf("expected one object referenced by one build item")
	}
	mesh := m.Resources.Objects[0].Mesh
	verts := make([]C3, len(mesh.Vertices.V))
	for i, v := range mesh.Vertices.V {
		x, e1 := strconv.ParseFloat(v.X, 64)
		y, e2 := strconv.ParseFloat(v.Y, 64)
		z, e3 := strconv.ParseFloat(v.Z, 64)
		if e1 != nil || e2 != nil || e3 != nil {
			return nil, 0, "", fmt.Errorf("vertex %d: %q %q %q", i, v.X, v.Y, v.Z)
		}
		verts[i] = C3{X: x, Y: y, Z: z}
	}
	seen := map[C3]bool{}
	for i, v := range verts {
		if seen[v] {
			return nil, 0, "", fmt.Errorf("DEDUP vertex %d %s is a duplicate", i, hex3(v))
		}
		seen[v] = true
	}
	var tris []*Tri
	for i, t := range mesh.Triangles.T {
		var tri Tri
		for k, s := range []string{t.V1, t.V2, t.V3} {
			idx, err := strconv.Atoi(s)
			if err != nil || idx < 0 || idx >= len(verts) {
				return nil, 0, "", fmt.Errorf("RANGE triangle %d references vertex %q, table has %d entries (valid 0..%d)", i, s, len(verts), len(verts)-1)
			}
			tri[k] = verts[idx]
		}
		tris = append(tris, &tri)
	}
	return tris, len(verts), m.Unit, nil
}

func check3MF(c *vlib.Case, api string, data []byte, tris []*Tri, unit string, wit map[string]interface{}) bool {
	out, nverts, gotUnit, err := decode3MF(data)
	if err != nil {
		key := api + "/package"
		if strings.HasPrefix(err.Error(), "RANGE") {
			key = api + "/vertex-index-range"
		} else if strings.HasPrefix(err.Error(), "DEDUP") {
			key = api + "/vertex-dedup"
		}
		c.Violationf(key, wit, "%v", err)
		return false
	}
	if gotUnit != unit {
		c.Violationf(api+"/unit", wit, "unit %q want %q", gotUnit, unit)
		return false
	}
	distinct := map[C3]bool{}
	for _, t := range tris {
		for _, p := range t {
			distinct[p] = true
		}
	}
	if nverts != len(distinct) {
		c.Violationf(api+"/vertex-table", wit, "vertex table has %d entries, mesh has %d distinct vertices", nverts, len(distinct))
		return false
	}
	fold := func(ts []*Tri) []*Tri {
		res := make([]*Tri, len(ts))
		for i, t := range ts {
			res[i] = &Tri{foldZero(t[0]), foldZero(t[1]), foldZero(t[2])}
		}
		return res
	}
	if !sameOrderedMultiset(fold(tris), fold(out), false) {
		c.Violationf(api+"/every-face-once", wit, "the %d triangles in the package are not the mesh's %d faces (each exactly once, same vertex order)", len(out), len(tris))
		return false
	}
	return true
}

func threeMFSection(r *vlib.Run) {
	units := []ff.ThreeMFUnit{ff.ThreeMFUnitMicron, ff.ThreeMFUnitMillimeter, ff.ThreeMFUnitCentimeter, ff.ThreeMFUnitInch, ff.ThreeMFUnitFoot, ff.ThreeMFUnitMeter}
	tmp, _ := os.MkdirTemp("/var/tmp", "verif-c15-")
	if tmp != "" {
		defer os.RemoveAll(tmp)
	}
	r.Section("3mf", r.N(2500, 25000), vlib.SectionOpts{}, func(c *vlib.Case) {
		rng := c.Rng
		// The model text has 32 fixed decimals: coordinates are kept to values
		// that such text carries exactly (|x| >= 2^-30 or 0, dyadic or 17-digit).
		var tris []*Tri
		var desc string
		switch rng.Intn(6) {
		case 0:
			tris, desc = []*Tri{}, "empty"
		case 1:
			tris, desc = closedSolid(rng), "closed"
		default:
			kind := []string{"grid", "dyadic", "signed-zero3mf", "moderate"}[rng.Intn(4)]
			np := 3 + rng.Intn(10)
			pts := make([]C3, np)
			for i := range pts {
				pick := func() float64 {
					switch kind {
					case "grid":
						return float64(rng.Intn(5) - 2)
					case "dyadic":
						return float64(rng.Intn(2049)-1024) / 64
					case "signed-zero3mf":
						return []float64{0, negZero, 1, -1}[rng.Intn(4)]
					default:
						x := rng.NormFloat64() * math.Pow(10, float64(rng.Intn(7)-3))
						if math.Abs(x) < 1e-6 {
							x = 1
						}
						return x
					}
				}
				pts[i] = C3{X: pick(), Y: pick(), Z: pick()}
			}
			n := 1 + rng.Intn(30)
			for i := 0; i < n; i++ {
				tris = append(tris, &Tri{pts[rng.Intn(np)], pts[rng.Intn(np)], pts[rng.Intn(np)]})
			}
			desc = "soup/" + kind
		}
		if c.Index%1000 == 5 {
			tris, desc = gridMesh(rng, 1000+rng.Intn(r.N(2000, 20000))), "big-grid"
		}
		wit := meshWitness(tris, desc)
		unit := units[rng.Intn(len(units))]
		var buf bytes.Buffer
		if err := model3d.Write3MF(&buf, unit, tris); err != nil {
			c.Violationf("model3d.Write3MF/error", wit, "%v", err)
			return
		}
		c.Count("3mf.writes", 1)
		if check3MF(c, "model3d.Write3MF", buf.Bytes(), tris, string(unit), wit) {
			c.Count("3mf.ok", 1)
			c.Count("3mf.faces_checked", int64(len(tris)))
			if len(tris) >= 2 {
				c.Nontrivial("3mf/" + meshSig(tris, desc))
			}
		}
		// the file-writing helpers, now and then
		if tmp != "" && c.Index%25 == 0 {
			m := model3d.NewMeshTriangles(tris)
			p := filepath.Join(tmp, fmt.Sprintf("m%d.3mf", c.Index))
			if err := m.Save3MF(p, unit); err != nil {
				c.Violationf("model3d.Mesh.Save3MF/error", wit, "%v", err)
				return
			}
			data, _ := os.ReadFile(p)
			os.Remove(p)
			if check3MF(c, "model3d.Mesh.Save3MF", data, tris, string(unit), wit) {
				c.Count("3mf.save_ok", 1)
			}
			p = filepath.Join(tmp, fmt.Sprintf("m%d.stl", c.Index))
			if err := m.SaveGroupedSTL(p); err != nil {
				c.Violationf("model3d.Mesh.SaveGroupedSTL/error", wit, "%v", err)
				return
			}
			f, err := os.Open(p)
			if err != nil {
				return
			}
			out, err := model3d.ReadSTL(f)
			f.Close()
			os.Remove(p)
			if err != nil {
				c.Violationf("model3d.ReadSTL/binary-error", wit, "reading SaveGroupedSTL output: %v", err)
				return
			}
			if !sameOrderedMultiset(tris, out, true) {
				c.Violationf("model3d.Mesh.SaveGroupedSTL/face-multiset", wit, "faces read back (%d) are not the mesh's faces (%d) rounded to float32", len(out), len(tris))
				return
			}
			c.Count("stl.save_grouped_ok", 1)
		}
	})

	// Write3MFMesh directly with a harness vertex table / index list.
	r.Section("3mf.lowlevel", r.N(1000, 10000), vlib.SectionOpts{}, func(c *vlib.Case) {
		rng := c.Rng
		nv := 1 + rng.Intn(10)
		verts := make([][3]float64, nv)
		seen := map[[3]float64]bool{}
		for i := range verts {
			for {
				verts[i] = [3]float64{float64(rng.Intn(33)-16) / 4, float64(rng.Intn(33)-16) / 4, float64(rng.Intn(33)-16) / 4}
				if !seen[verts[i]] {
					seen[verts[i]] = true
					break
				}
			}
		}
		nf := rng.Intn(20)
		idx := make([][3]int, nf)
		var tris []*Tri
		used := map[int]bool{}
		for i := range idx {
			idx[i] = [3]int{rng.Intn(nv), rng.Intn(nv), rng.Intn(nv)}
			var t Tri
			for k := 0; k < 3; k++ {
				t[k] = model3d.NewCoord3DArray(verts[idx[i][k]])
				used[idx[i][k]] = true
			}
			tris = append(tris, &t)
		}
		var buf bytes.Buffer
		if err := ff.Write3MFMesh(&buf, ff.ThreeMFUnitMillimeter, verts, idx); err != nil {
			c.Violationf("fileformats.Write3MFMesh/error", nil, "%v", err)
			return
		}
		out, nverts, _, err := decode3MF(buf.Bytes())
		wit := map[string]interface{}{"vertices": verts, "triangles": idx}
		if err != nil || nverts != nv || len(out) != nf {
			c.Violationf("fileformats.Write3MFMesh/package", wit, "decode: %v; %d vertices (want %d), %d triangles (want %d)", err, nverts, nv, len(out), nf)
			return
		}
		for i := range out {
			if !sameTriNumeric(*out[i], tris[i]) {
				c.Violationf("fileformats.Write3MFMesh/triangles-in-order", wit, "triangle %d is %s want %s", i, hexTri(out[i]), hexTri(tris[i]))
				return
			}
		}
		c.Count("3mf.lowlevel_ok", 1)
	})
}
