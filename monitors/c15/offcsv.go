package main

import (
	"bytes"
	"fmt"
	"io"
	"math"
	"math/rand"
	"sort"
	"strconv"
	"strings"

	ff "github.com/unixpickle/model3d/fileformats"
	"github.com/unixpickle/model3d/model2d"
	"github.com/unixpickle/model3d/model3d"
	"verif/vlib"
)

func fmtF64(rng *rand.Rand, x float64) string {
	switch rng.Intn(5) {
	case 0:
		return strconv.FormatFloat(x, 'e', 16, 64)
	case 1:
		return strconv.FormatFloat(x, 'g', 17, 64)
	case 2:
		return strconv.FormatFloat(x, 'E', 16, 64)
	case 3:
		if math.Abs(x) < 1e15 && math.Abs(x) > 1e-5 || x == 0 {
			return strconv.FormatFloat(x, 'f', -1, 64)
		}
		return strconv.FormatFloat(x, 'g', -1, 64)
	default:
		return strconv.FormatFloat(x, 'g', -1, 64)
	}
}

// OFF text written by the harness to the format description the reader cites
// (segeval.cs.princeton.edu/public/off_format.html): "OFF", a line with the
// vertex, face and edge counts, one vertex per line, one face per line
// ("n i1 ... in"). The counts may follow OFF on the first line.
func offSection(r *vlib.Run) {
	r.Section("off.text", r.N(6000, 60000), vlib.SectionOpts{}, func(c *vlib.Case) {
		rng := c.Rng
		nv := rng.Intn(14)
		if rng.Intn(8) == 0 {
			nv = 0
		}
		var verts []C3
		if nv > 0 {
			verts = coordPool(rng, poolKinds[rng.Intn(len(poolKinds))], nv)
		}
		nf := 0
		if nv > 0 {
			nf = rng.Intn(25)
		}
		faces := make([][3]int, nf)
		for i := range faces {
			faces[i] = [3]int{rng.Intn(nv), rng.Intn(nv), rng.Intn(nv)}
		}
		var b strings.Builder
		sameLine := rng.Intn(2) == 0
		edges := 0
		if rng.Intn(2) == 0 {
			edges = rng.Intn(100)
		}
		if sameLine {
			fmt.Fprintf(&b, "OFF %d %d %d\n", nv, nf, edges)
		} else {
			fmt.Fprintf(&b, "OFF\n%d %d %d\n", nv, nf, edges)
		}
		sep := []string{" ", "  ", "\t"}[rng.Intn(3)]
		for _, v := range verts {
			b.WriteString(fmtF64(rng, v.X) + sep + fmtF64(rng, v.Y) + sep + fmtF64(rng, v.Z) + "\n")
		}
		for _, f := range faces {
			fmt.Fprintf(&b, "3%s%d%s%d%s%d\n", sep, f[0], sep, f[1], sep, f[2])
		}
		text := b.String()
		wit := map[string]interface{}{"vertices": nv, "faces": nf, "counts_on_first_line": sameLine}
		if len(text) < 700 {
			wit["text"] = text
		}
		c.Count("off.files", 1)
		if sameLine {
			c.Count("off.files_counts_on_first_line", 1)
		} else {
			c.Count("off.files_counts_on_second_line", 1)
		}
		if nf == 0 {
			c.Count("off.files_without_faces", 1)
		}
		rd, rdesc := readerFor(rng, []byte(text))
		wit["reader"] = rdesc
		out, err := model3d.ReadOFF(rd)
		if err != nil {
			c.Violationf("model3d.ReadOFF/error", wit, "ReadOFF failed on a conformant OFF file: %v", err)
			return
		}
		if len(out) != nf {
			c.Violationf("model3d.ReadOFF/face-count", wit, "got %d faces want %d", len(out), nf)
			return
		}
		for i, f := range faces {
			for j := 0; j < 3; j++ {
				if !sameBits3(out[i][j], verts[f[j]]) {
					c.Violationf("model3d.ReadOFF/coords", wit, "face %d vertex %d got %s want %s", i, j, hex3(out[i][j]), hex3(verts[f[j]]))
					return
				}
			}
		}
		// low-level protocol
		or, err := ff.NewOFFReader(bytes.NewReader([]byte(text)))
		if err != nil {
			c.Violationf("fileformats.NewOFFReader/error", wit, "%v", err)
			return
		}
		if or.NumFaces() != nf {
			c.Violationf("fileformats.OFFReader.NumFaces/count", wit, "NumFaces %d want %d", or.NumFaces(), nf)
			return
		}
		for i := 0; i <= nf; i++ {
			poly, err := or.ReadFace()
			if i == nf {
				if err != io.EOF {
					c.Violationf("fileformats.OFFReader.ReadFace/eof", wit, "after %d faces want io.EOF got %v", nf, err)
				}
				break
			}
			if err != nil {
				c.Violationf("fileformats.OFFReader.ReadFace/error", wit, "face %d: %v", i, err)
				return
			}
			if len(poly) != 3 {
				c.Violationf("fileformats.OFFReader.ReadFace/coords", wit, "face %d has %d vertices want 3", i, len(poly))
				return
			}
			for j := 0; j < 3; j++ {
				if !sameBits3(model3d.NewCoord3DArray(poly[j]), verts[faces[i][j]]) {
					c.Violationf("fileformats.OFFReader.ReadFace/coords", wit, "face %d vertex %d got %v want %s", i, j, poly[j], hex3(verts[faces[i][j]]))
					return
				}
			}
		}
		c.Count("off.reads_ok", 1)
		c.Count("off.faces", int64(nf))
		// Observation only (not a verdict): the same text without the final
		// newline. The cited format description does not say whether the last
		// line needs a terminator, so this is counted, never alarmed.
		if nf > 0 && c.Index%10 == 0 {
			if _, err := model3d.ReadOFF(strings.NewReader(strings.TrimSuffix(text, "\n"))); err != nil {
				c.Count("off.observation.no_final_newline_rejected", 1)
			} else {
				c.Count("off.observation.no_final_newline_accepted", 1)
			}
		}
		if nf >= 2 {
			c.Nontrivial(fmt.Sprintf("off/%d/%d/%v/%x", nv, nf, sameLine, c.SubSeed))
		}
	})

	// polygon faces: planar star-shaped polygons in general position; the
	// reader triangulates them (orientation of the pieces is documented as
	// undefined), so the clauses are those of C14: pieces use only the
	// polygon's vertices and their areas add up to the polygon's area.
	r.Section("off.polygons", r.N(1500, 15000), vlib.SectionOpts{}, func(c *vlib.Case) {
		rng := c.Rng
		np := 1 + rng.Intn(4)
		var verts []C3
		type pinfo struct {
			idx  []int
			area float64
		}
		var polys []pinfo
		for p := 0; p < np; p++ {
			n := 4 + rng.Intn(5)
			if p == 0 && c.Index%40 == 7 {
				// one face with 900-1700 corners: its line in the file is 5-10 kB long
				n = 900 + rng.Intn(800)
				c.Count("off.faces_with_a_line_longer_than_4096_bytes", 1)
			}
			u := C3{X: rng.NormFloat64(), Y: rng.NormFloat64(), Z: rng.NormFloat64()}.Normalize()
			w := C3{X: rng.NormFloat64(), Y: rng.NormFloat64(), Z: rng.NormFloat64()}
			v := w.Sub(u.Scale(w.Dot(u))).Normalize()
			o := C3{X: float64(rng.Intn(7) - 3), Y: float64(rng.Intn(7) - 3), Z: float64(rng.Intn(7) - 3)}
			// angles separated by at least 0.25 of a slot, radii in [0.6,1.4]
			var xs, ys []float64
			rev := rng.Intn(2) == 0
			var info pinfo
			// non-convex quads and pentagons ("darts": one vertex pulled towards the centre), with the
			// reflex corner at every list position
			dart := -1
			if n <= 5 && rng.Intn(2) == 0 {
				dart = rng.Intn(n)
				c.Count("off.dart_polygons", 1)
			}
			for i := 0; i < n; i++ {
				k := i
				if rev {
					k = n - 1 - i
				}
				th := 2 * math.Pi * (float64(k) + 0.6*rng.Float64()) / float64(n)
				rad := 0.6 + 0.8*rng.Float64()
				if dart >= 0 {
					rad = 1 + 0.4*rng.Float64()
					if i == dart {
						rad = 0.1 + 0.15*rng.Float64()
					}
				}
				x, y := rad*math.Cos(th), rad*math.Sin(th)
				xs, ys = append(xs, x), append(ys, y)
				info.idx = append(info.idx, len(verts))
				verts = append(verts, o.Add(u.Scale(x)).Add(v.Scale(y)))
			}
			for i := 0; i < n; i++ {
				j := (i + 1) % n
				info.area += xs[i]*ys[j] - xs[j]*ys[i]
			}
			info.area = math.Abs(info.area) / 2
			polys = append(polys, info)
		}
		var b strings.Builder
		fmt.Fprintf(&b, "OFF\n%d %d 0\n", len(verts), np)
		for _, v := range verts {
			fmt.Fprintf(&b, "%s %s %s\n", fmtF64(rng, v.X), fmtF64(rng, v.Y), fmtF64(rng, v.Z))
		}
		for _, p := range polys {
			fmt.Fprintf(&b, "%d", len(p.idx))
			for _, i := range p.idx {
				fmt.Fprintf(&b, " %d", i)
			}
			b.WriteString("\n")
		}
		text := b.String()
		wit := map[string]interface{}{"text": text}
		if len(text) > 4000 {
			wit = map[string]interface{}{"text_head": text[:600], "text_bytes": len(text), "polygon_corners": len(polys[0].idx)}
		}
		out, err := model3d.ReadOFF(strings.NewReader(text))
		if err != nil {
			c.Violationf("model3d.ReadOFF/polygon-error", wit, "%v", err)
			return
		}
		var total, wantTotal float64
		for _, t := range out {
			total += t[1].Sub(t[0]).Cross(t[2].Sub(t[0])).Norm() / 2
			for _, p := range t {
				best := math.Inf(1)
				for _, v := range verts {
					best = math.Min(best, v.Dist(p))
				}
				if !(best < 1e-9) {
					c.Violationf("model3d.ReadOFF/polygon-vertices", wit, "piece vertex %s is %g away from every polygon vertex", hex3(p), best)
					return
				}
			}
		}
		for _, p := range polys {
			wantTotal += p.area
		}
		c.Count("off.polygon_faces", int64(np))
		if math.Abs(total-wantTotal) > 1e-9*wantTotal {
			c.Violationf("model3d.ReadOFF/polygon-area", wit, "pieces have total area %.15g, polygons %.15g", total, wantTotal)
			return
		}
		c.Count("off.polygon_files_ok", 1)
	})
}

// ---------------------------------------------------------------------------
// segment CSV

func seg4(s *model2d.Segment) [4]float64 { return [4]float64{s[0].X, s[0].Y, s[1].X, s[1].Y} }

func seg4Key(s [4]float64) string { return fmt.Sprintf("%x %x %x %x", s[0], s[1], s[2], s[3]) }

func csvSection(r *vlib.Run) {
	val := func(rng *rand.Rand) float64 {
		switch rng.Intn(7) {
		case 0:
			return extremeVals[rng.Intn(len(extremeVals))]
		case 1:
			return math.Float64frombits(rng.Uint64()&0x800fffffffffffff | uint64(rng.Intn(2047))<<52)
		case 2:
			return float64(rng.Intn(9) - 4)
		case 3:
			return []float64{math.MaxFloat64, -math.MaxFloat64, 5e-324, negZero, 0.1, 1e21, 1e-7, 123456789012345680}[rng.Intn(8)]
		default:
			return rng.NormFloat64() * math.Pow(10, float64(rng.Intn(31)-15))
		}
	}
	r.Section("csv.mesh", r.N(5000, 50000), vlib.SectionOpts{}, func(c *vlib.Case) {
		rng := c.Rng
		n := rng.Intn(30)
		if rng.Intn(10) == 0 {
			n = 0
		}
		if c.Index%1000 == 3 {
			n = 2000 + rng.Intn(r.N(3000, 48000))
		}
		np := 2 + rng.Intn(10)
		pool := make([]model2d.Coord, np)
		for i := range pool {
			pool[i] = model2d.XY(val(rng), val(rng))
		}
		if n > 100 {
			pool = make([]model2d.Coord, 500)
			for i := range pool {
				pool[i] = model2d.XY(rng.NormFloat64(), rng.NormFloat64())
			}
		}
		m := model2d.NewMesh()
		var segs []*model2d.Segment
		for i := 0; i < n; i++ {
			s := &model2d.Segment{pool[rng.Intn(len(pool))], pool[rng.Intn(len(pool))]}
			segs = append(segs, s) // equal-valued duplicates and degenerate segments occur
			m.Add(s)
		}
		data := model2d.EncodeCSV(m)
		c.Count("csv.mesh.encodes", 1)
		wit := map[string]interface{}{"segments": n}
		if len(data) < 600 {
			wit["csv"] = string(data)
		}
		out, err := model2d.DecodeCSV(data)
		if err != nil {
			c.Violationf("model2d.DecodeCSV/error", wit, "DecodeCSV(EncodeCSV(mesh)) failed: %v", err)
			return
		}
		if len(out) != n {
			c.Violationf("model2d.DecodeCSV(EncodeCSV)/segment-count", wit, "got %d segments want %d", len(out), n)
			return
		}
		// Mesh.Iterate order is arbitrary: multiset of ordered segments, bit-exact.
		a := make([]string, n)
		bb := make([]string, n)
		for i := range segs {
			a[i] = seg4Key(seg4(segs[i]))
			bb[i] = seg4Key(seg4(out[i]))
		}
		sort.Strings(a)
		sort.Strings(bb)
		for i := range a {
			if a[i] != bb[i] {
				c.Violationf("model2d.DecodeCSV(EncodeCSV)/segments-bit-exact", wit, "segment multisets differ: wrote %s, read %s", a[i], bb[i])
				return
			}
		}
		c.Count("csv.mesh.roundtrips_ok", 1)
		c.Count("csv.mesh.segments", int64(n))
		c.Max("csv.largest_mesh_segments", float64(n))
		if n == 0 {
			c.Count("csv.mesh.empty_mesh", 1)
		}
		if n >= 2 {
			c.Nontrivial(fmt.Sprintf("csv/%d/%x", n, c.SubSeed))
		}
	})

	r.Section("csv.lowlevel", r.N(5000, 50000), vlib.SectionOpts{}, func(c *vlib.Case) {
		rng := c.Rng
		n := rng.Intn(20)
		rows := make([][4]float64, n)
		var buf bytes.Buffer
		w := ff.NewSegmentCSVWriter(&buf)
		for i := range rows {
			rows[i] = [4]float64{val(rng), val(rng), val(rng), val(rng)}
			if err := w.Write(rows[i]); err != nil {
				c.Violationf("fileformats.SegmentCSVWriter.Write/error", nil, "%v", err)
				return
			}
		}
		wit := map[string]interface{}{"csv": trunc(buf.String(), 600)}
		// the written text against the format: n lines of 4 numbers
		lines := strings.Split(buf.String(), "\n")
		if len(lines) != n+1 || lines[n] != "" {
			c.Violationf("fileformats.SegmentCSVWriter.Write/lines", wit, "%d rows produced %d lines", n, len(lines)-1)
			return
		}
		for i := 0; i < n; i++ {
			f := strings.Split(lines[i], ",")
			ok := len(f) == 4
			for k := 0; ok && k < 4; k++ {
				x, err := strconv.ParseFloat(f[k], 64)
				ok = err == nil && sameBits(x, rows[i][k])
			}
			if !ok {
				c.Violationf("fileformats.SegmentCSVWriter.Write/values", wit, "line %q does not carry %s", lines[i], seg4Key(rows[i]))
				return
			}
		}
		rd, rdesc := readerFor(rng, buf.Bytes())
		wit["reader"] = rdesc
		sr := ff.NewSegmentCSVReader(rd)
		for i := 0; i <= n; i++ {
			row, err := sr.Read()
			if i == n {
				if err != io.EOF {
					c.Violationf("fileformats.SegmentCSVReader.Read/eof", wit, "after %d rows want io.EOF got %v", n, err)
				}
				break
			}
			if err != nil {
				c.Violationf("fileformats.SegmentCSVReader.Read/error", wit, "row %d: %v", i, err)
				return
			}
			for k := 0; k < 4; k++ {
				if !sameBits(row[k], rows[i][k]) {
					c.Violationf("fileformats.SegmentCSVReader.Read/values-bit-exact", wit, "row %d field %d got %x want %x", i, k, row[k], rows[i][k])
					return
				}
			}
		}
		c.Count("csv.lowlevel.roundtrips_ok", 1)
	})
}
