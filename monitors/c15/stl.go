package main

import (
	"bytes"
	"encoding/binary"
	"fmt"
	"io"
	"math"
	"math/big"
	"math/rand"
	"sort"
	"strconv"
	"strings"

	"github.com/unixpickle/model3d/fileformats"
	"github.com/unixpickle/model3d/model3d"
	"verif/vlib"
)

// chunkReader delivers well-formed data in short reads of random sizes (a
// legal io.Reader); decoders must not depend on read sizes.
type chunkReader struct {
	data []byte
	rng  *rand.Rand
	max  int
}

func (c *chunkReader) Read(p []byte) (int, error) {
	if len(c.data) == 0 {
		return 0, io.EOF
	}
	n := 1 + c.rng.Intn(c.max)
	if n > len(p) {
		n = len(p)
	}
	if n > len(c.data) {
		n = len(c.data)
	}
	copy(p, c.data[:n])
	c.data = c.data[n:]
	return n, nil
}

// readerFor returns either a plain bytes.Reader or a short-read reader.
func readerFor(rng *rand.Rand, data []byte) (io.Reader, string) {
	switch rng.Intn(5) {
	case 3, 4:
		// a seekable source that is already positioned behind something else (a container's own
		// preamble, an earlier payload): decoding starts where the reader stands
		pre := make([]byte, 1+rng.Intn(300))
		rng.Read(pre)
		all := append(pre, data...)
		if rng.Intn(2) == 0 {
			rd := bytes.NewReader(all)
			rd.Seek(int64(len(pre)), io.SeekStart)
			return rd, fmt.Sprintf("bytes.Reader positioned behind a %d-byte preamble", len(pre))
		}
		rd := io.NewSectionReader(bytes.NewReader(all), 0, int64(len(all)))
		io.CopyN(io.Discard, rd, int64(len(pre)))
		return rd, fmt.Sprintf("io.SectionReader positioned behind a %d-byte preamble", len(pre))
	}
	switch rng.Intn(3) {
	case 0:
		return &chunkReader{data: data, rng: rand.New(rand.NewSource(rng.Int63())), max: 1}, "one-byte-reads"
	case 1:
		return &chunkReader{data: data, rng: rand.New(rand.NewSource(rng.Int63())), max: 97}, "short-reads"
	default:
		return bytes.NewReader(data), "bytes.Reader"
	}
}

// compareTrisRounded checks same count, order, vertex order, and coordinates
// bit-equal to the float32 rounding of the input.
func compareTrisRounded(c *vlib.Case, key string, in, out []*Tri, wit map[string]interface{}) bool {
	if len(in) != len(out) {
		c.Violationf(key+"/face-count", wit, "wrote %d faces, read back %d", len(in), len(out))
		return false
	}
	for i := range in {
		for j := 0; j < 3; j++ {
			want := r32c(in[i][j])
			if !sameBits3(want, out[i][j]) {
				wit["face_index"] = i
				wit["vertex_index"] = j
				wit["input_hex"] = hex3(in[i][j])
				wit["want_hex"] = hex3(want)
				wit["got_hex"] = hex3(out[i][j])
				c.Violationf(key+"/coords-float32", wit, "face %d vertex %d: want %v (float32 rounding of %v) got %v", i, j, hex3(want), hex3(in[i][j]), hex3(out[i][j]))
				return false
			}
		}
	}
	return true
}

func canonTriKey(t *Tri, round bool) string {
	a, b, cc := t[0], t[1], t[2]
	if round {
		a, b, cc = r32c(a), r32c(b), r32c(cc)
	}
	return hex3(a) + "|" + hex3(b) + "|" + hex3(cc)
}

// sameOrderedMultiset compares face lists as multisets of ordered (not
// rotated) vertex triples, bit-exactly.
func sameOrderedMultiset(in, out []*Tri, roundIn bool) bool {
	if len(in) != len(out) {
		return false
	}
	a := make([]string, len(in))
	b := make([]string, len(out))
	for i := range in {
		a[i] = canonTriKey(in[i], roundIn)
		b[i] = canonTriKey(out[i], false)
	}
	sort.Strings(a)
	sort.Strings(b)
	for i := range a {
		if a[i] != b[i] {
			return false
		}
	}
	return true
}

func stlBinary(r *vlib.Run) {
	r.Section("stl.binary", r.N(6000, 60000), vlib.SectionOpts{}, func(c *vlib.Case) {
		rng := c.Rng
		tris, desc := genMesh(rng)
		if c.Index%1500 == 7 {
			n := 1000 + rng.Intn(r.N(5000, 50000))
			tris, desc = gridMesh(rng, n), "big-grid"
			c.Max("stl.largest_mesh_faces", float64(len(tris)))
		}
		if c.Index == 11 {
			// one mesh of more than 2^20 faces whose count is not a multiple of any block size
			n := 1<<20 + 1 + 2*rng.Intn(8000)
			tris, desc = gridMesh(rng, n), "million-face-grid"
			c.Max("stl.largest_mesh_faces", float64(len(tris)))
			c.Count("stl.binary.meshes_above_2^20_faces", 1)
		}
		wit := meshWitness(tris, desc)
		data := model3d.EncodeSTL(tris)
		c.Count("stl.binary.encodes", 1)
		c.Count("stl.binary.faces", int64(len(tris)))

		var wbuf bytes.Buffer
		if err := model3d.WriteSTL(&wbuf, tris); err != nil {
			c.Violationf("model3d.WriteSTL/error", wit, "WriteSTL failed on a valid mesh: %v", err)
			return
		}
		// Normals of degenerate faces may be NaN; compare vertex payloads only.
		if !bytes.Equal(wbuf.Bytes(), data) {
			c.Violationf("model3d.WriteSTL/same-as-EncodeSTL", wit, "WriteSTL wrote %d bytes, EncodeSTL %d bytes, contents differ", wbuf.Len(), len(data))
		}

		// --- layout of the written bytes against the format definition
		if !checkBinarySTLBytes(c, "model3d.EncodeSTL", data, tris, wit) {
			return
		}

		// --- mesh API round trip
		rd, rdesc := readerFor(rng, data)
		wit["reader"] = rdesc
		out, err := model3d.ReadSTL(rd)
		if err != nil {
			c.Violationf("model3d.ReadSTL/binary-error", wit, "ReadSTL(EncodeSTL(mesh)) failed: %v", err)
			return
		}
		if compareTrisRounded(c, "model3d.ReadSTL(EncodeSTL)", tris, out, wit) {
			c.Count("stl.binary.roundtrips_ok", 1)
		}
		if len(tris) >= 2 {
			c.Nontrivial(meshSig(tris, desc))
		}
		if len(tris) == 0 {
			c.Count("stl.binary.empty_mesh", 1)
		}
		c.Count("stl.binary.mesh_kind."+strings.SplitN(desc, "/", 2)[0], 1)

		// --- low-level reader protocol
		rd2, _ := readerFor(rng, data)
		sr, err := fileformats.NewSTLReader(rd2)
		if err != nil {
			c.Violationf("fileformats.NewSTLReader/binary-error", wit, "%v", err)
			return
		}
		if !sr.IsBinary() {
			c.Violationf("fileformats.STLReader.IsBinary/binary", wit, "binary STL written by the library sniffed as ASCII")
			return
		}
		if int(sr.NumTriangles()) != len(tris) {
			c.Violationf("fileformats.STLReader.NumTriangles/count", wit, "header count %d, want %d", sr.NumTriangles(), len(tris))
		}
		for i := 0; i <= len(tris); i++ {
			_, verts, err := sr.ReadTriangle()
			if i == len(tris) {
				if err != io.EOF {
					c.Violationf("fileformats.STLReader.ReadTriangle/eof", wit, "after %d triangles want io.EOF, got %v", len(tris), err)
				}
				break
			}
			if err != nil {
				c.Violationf("fileformats.STLReader.ReadTriangle/binary-error", wit, "triangle %d: %v", i, err)
				break
			}
			for j := 0; j < 3; j++ {
				want := tris[i][j]
				got := verts[j]
				if math.Float32bits(float32(want.X)) != math.Float32bits(got[0]) || math.Float32bits(float32(want.Y)) != math.Float32bits(got[1]) || math.Float32bits(float32(want.Z)) != math.Float32bits(got[2]) {
					c.Violationf("fileformats.STLReader.ReadTriangle/coords-float32", wit, "triangle %d vertex %d: got %v want float32 of %s", i, j, got, hex3(want))
					return
				}
			}
		}
		c.Count("stl.binary.lowlevel_reads", 1)
	})

	// Mesh.EncodeSTL: arbitrary order, so the faces are compared as a multiset.
	r.Section("stl.mesh-method", r.N(600, 6000), vlib.SectionOpts{}, func(c *vlib.Case) {
		tris, desc := genMesh(c.Rng)
		m := model3d.NewMeshTriangles(tris)
		out, err := model3d.ReadSTL(bytes.NewReader(m.EncodeSTL()))
		wit := meshWitness(tris, desc)
		if err != nil {
			c.Violationf("model3d.ReadSTL/binary-error", wit, "ReadSTL(Mesh.EncodeSTL()) failed: %v", err)
			return
		}
		if !sameOrderedMultiset(tris, out, true) {
			c.Violationf("model3d.Mesh.EncodeSTL/face-multiset", wit, "faces read back (%d) are not the mesh's faces (%d) rounded to float32", len(out), len(tris))
			return
		}
		c.Count("stl.mesh_method.roundtrips_ok", 1)
	})

	// Low-level writer/reader pair with explicit normals, and binary STL files
	// written by the harness from the format definition (arbitrary 80-byte
	// header, including ones starting with "solid"; arbitrary attribute bytes).
	r.Section("stl.binary-lowlevel", r.N(3000, 30000), vlib.SectionOpts{}, func(c *vlib.Case) {
		rng := c.Rng
		n := 0
		switch rng.Intn(4) {
		case 0:
			n = rng.Intn(3)
		case 1:
			n = 1 + rng.Intn(12) // around the 512-byte sniffing chunk
		default:
			n = rng.Intn(60)
		}
		f32 := func() float32 {
			switch rng.Intn(6) {
			case 0:
				return float32(extremeVals[rng.Intn(len(extremeVals))])
			case 1:
				return math.Float32frombits(rng.Uint32()&0x807fffff | uint32(1+rng.Intn(254))<<23)
			case 2:
				return float32(rng.Intn(7) - 3)
			default:
				return float32(rng.NormFloat64())
			}
		}
		normals := make([][3]float32, n)
		verts := make([][3][3]float32, n)
		for i := 0; i < n; i++ {
			normals[i] = [3]float32{f32(), f32(), f32()}
			for j := 0; j < 3; j++ {
				verts[i][j] = [3]float32{f32(), f32(), f32()}
			}
		}
		wit := map[string]interface{}{"triangles": n}
		harness := rng.Intn(2) == 0
		var data []byte
		if harness {
			hdr := make([]byte, 80)
			switch rng.Intn(4) {
			case 0: // all text, starts with "solid"
				copy(hdr, []byte("solid exported by some tool"))
				for i := len("solid exported by some tool"); i < 80; i++ {
					hdr[i] = ' '
				}
			case 1:
				copy(hdr, []byte("solid"))
			case 2:
				rng.Read(hdr)
			}
			wit["header"] = fmt.Sprintf("%q", hdr)
			var b bytes.Buffer
			b.Write(hdr)
			binary.Write(&b, binary.LittleEndian, uint32(n))
			for i := 0; i < n; i++ {
				binary.Write(&b, binary.LittleEndian, normals[i])
				binary.Write(&b, binary.LittleEndian, verts[i])
				b.Write([]byte{byte(rng.Intn(256)), byte(rng.Intn(256))})
			}
			data = b.Bytes()
			// A text-only header followed by a count and payload without any
			// zero or high byte in the first 512 bytes would be ambiguous by
			// design of the sniffing heuristic; skip (cannot happen for n<2^24
			// because the count's high byte is zero).
			c.Count("stl.binary.harness_files", 1)
		} else {
			var b bytes.Buffer
			w, err := fileformats.NewSTLWriter(&b, uint32(n))
			if err != nil {
				c.Violationf("fileformats.NewSTLWriter/error", wit, "%v", err)
				return
			}
			for i := 0; i < n; i++ {
				if err := w.WriteTriangle(normals[i], verts[i]); err != nil {
					c.Violationf("fileformats.STLWriter.WriteTriangle/error", wit, "triangle %d: %v", i, err)
					return
				}
			}
			data = b.Bytes()
			// independent layout check
			if len(data) != 84+50*n {
				c.Violationf("fileformats.STLWriter/record-size", wit, "file has %d bytes for %d triangles, want %d", len(data), n, 84+50*n)
				return
			}
			if binary.LittleEndian.Uint32(data[80:84]) != uint32(n) {
				c.Violationf("fileformats.STLWriter/count-field", wit, "count field %d want %d", binary.LittleEndian.Uint32(data[80:84]), n)
				return
			}
			for i := 0; i < n; i++ {
				rec := data[84+50*i : 84+50*(i+1)]
				var want bytes.Buffer
				binary.Write(&want, binary.LittleEndian, normals[i])
				binary.Write(&want, binary.LittleEndian, verts[i])
				want.Write([]byte{0, 0})
				if !bytes.Equal(rec, want.Bytes()) {
					c.Violationf("fileformats.STLWriter/record-bytes", wit, "record %d is % x want % x", i, rec, want.Bytes())
					return
				}
			}
			c.Count("stl.binary.lowlevel_writes", 1)
		}
		rd, rdesc := readerFor(rng, data)
		wit["reader"] = rdesc
		wit["harness_written"] = harness
		sr, err := fileformats.NewSTLReader(rd)
		if err != nil {
			c.Violationf("fileformats.NewSTLReader/binary-error", wit, "%v", err)
			return
		}
		if !sr.IsBinary() {
			c.Violationf("fileformats.STLReader.IsBinary/binary", wit, "binary STL sniffed as ASCII")
			return
		}
		for i := 0; i <= n; i++ {
			nn, vv, err := sr.ReadTriangle()
			if i == n {
				if err != io.EOF {
					c.Violationf("fileformats.STLReader.ReadTriangle/eof", wit, "after %d triangles want io.EOF, got %v", n, err)
				}
				break
			}
			if err != nil {
				c.Violationf("fileformats.STLReader.ReadTriangle/binary-error", wit, "triangle %d: %v", i, err)
				return
			}
			if !eqF32x3(nn, normals[i]) {
				c.Violationf("fileformats.STLReader.ReadTriangle/normal", wit, "triangle %d normal got %v want %v", i, nn, normals[i])
				return
			}
			for j := 0; j < 3; j++ {
				if !eqF32x3(vv[j], verts[i][j]) {
					c.Violationf("fileformats.STLReader.ReadTriangle/coords-float32", wit, "triangle %d vertex %d got %v want %v", i, j, vv[j], verts[i][j])
					return
				}
			}
		}
		// and through the mesh API
		out, err := model3d.ReadSTL(bytes.NewReader(data))
		if err != nil {
			c.Violationf("model3d.ReadSTL/binary-error", wit, "%v", err)
			return
		}
		if len(out) != n {
			c.Violationf("model3d.ReadSTL/binary-face-count", wit, "got %d faces want %d", len(out), n)
			return
		}
		for i := range out {
			for j := 0; j < 3; j++ {
				want := C3{X: float64(verts[i][j][0]), Y: float64(verts[i][j][1]), Z: float64(verts[i][j][2])}
				if !sameBits3(out[i][j], want) {
					c.Violationf("model3d.ReadSTL/binary-coords", wit, "face %d vertex %d got %s want %s", i, j, hex3(out[i][j]), hex3(want))
					return
				}
			}
		}
		c.Count("stl.binary.lowlevel_roundtrips_ok", 1)
	})
}

func eqF32x3(a, b [3]float32) bool {
	for i := range a {
		if math.Float32bits(a[i]) != math.Float32bits(b[i]) {
			return false
		}
	}
	return true
}

// checkBinarySTLBytes checks the 84+50n layout, count field, vertex payloads,
// zero attribute bytes, and (for well-conditioned faces) the stored normal.
func checkBinarySTLBytes(c *vlib.Case, api string, data []byte, tris []*Tri, wit map[string]interface{}) bool {
	n := len(tris)
	if len(data) != 84+50*n {
		c.Violationf(api+"/record-size", wit, "file has %d bytes for %d triangles, want 84+50n = %d", len(data), n, 84+50*n)
		return false
	}
	if got := binary.LittleEndian.Uint32(data[80:84]); got != uint32(n) {
		c.Violationf(api+"/count-field", wit, "count field %d want %d", got, n)
		return false
	}
	for i, t := range tris {
		rec := data[84+50*i : 84+50*(i+1)]
		for j := 0; j < 3; j++ {
			arr := t[j].Array()
			for k := 0; k < 3; k++ {
				got := binary.LittleEndian.Uint32(rec[12+(j*3+k)*4:])
				if got != math.Float32bits(float32(arr[k])) {
					c.Violationf(api+"/vertex-bytes", wit, "record %d vertex %d component %d: bits %08x want %08x", i, j, k, got, math.Float32bits(float32(arr[k])))
					return false
				}
			}
		}
		if rec[48] != 0 || rec[49] != 0 {
			c.Violationf(api+"/attribute-bytes", wit, "record %d attribute byte count %x %x, want 0", i, rec[48], rec[49])
			return false
		}
		// normal by the right-hand rule, only where the cross product is well conditioned
		e1, e2 := t[1].Sub(t[0]), t[2].Sub(t[0])
		cr := e1.Cross(e2)
		scale := e1.Norm() * e2.Norm()
		mx := math.Max(t[0].Abs().MaxCoord(), math.Max(t[1].Abs().MaxCoord(), t[2].Abs().MaxCoord()))
		if scale > 0 && !math.IsInf(scale, 0) && cr.Norm() > 1e-3*scale && mx < 1e6 && e1.Norm() > 1e-6*mx && e2.Norm() > 1e-6*mx {
			want := cr.Scale(1 / cr.Norm())
			var got [3]float64
			for k := 0; k < 3; k++ {
				got[k] = float64(math.Float32frombits(binary.LittleEndian.Uint32(rec[k*4:])))
			}
			d := math.Abs(got[0]-want.X) + math.Abs(got[1]-want.Y) + math.Abs(got[2]-want.Z)
			c.Count("stl.binary.normals_checked", 1)
			if !(d < 1e-4) {
				c.Violationf(api+"/normal", wit, "record %d normal %v, right-hand rule gives %v (face %s)", i, got, want, hexTri(t))
				return false
			}
		}
	}
	return true
}

// ---------------------------------------------------------------------------
// ASCII STL written by the harness to the format's specification.

func fmtF32(x float32, style int) string {
	switch style {
	case 0:
		return strconv.FormatFloat(float64(x), 'e', 8, 32) // 9 significant digits
	case 1:
		return strconv.FormatFloat(float64(x), 'g', 9, 32)
	case 2:
		return strconv.FormatFloat(float64(x), 'E', 8, 32)
	case 3:
		return strconv.FormatFloat(float64(x), 'g', -1, 32) // shortest
	case 5:
		// a long decimal a hair's breadth on x's side of the midpoint between x and one of its
		// float32 neighbours (closer to the midpoint than float64 can tell): still nearer to x
		// than to any other float32, so it reads as x
		if tok, ok := nearBoundaryToken(x); ok {
			return tok
		}
		return strconv.FormatFloat(float64(x), 'g', -1, 32)
	default:
		return strconv.FormatFloat(float64(x), 'f', -1, 32)
	}
}

func nearBoundaryToken(x float32) (string, bool) {
	ax := math.Abs(float64(x))
	if !(ax >= 1e-3 && ax <= 1e6) {
		return "", false
	}
	up := math.Float32bits(x)&2 == 0
	var y float32
	if up {
		y = math.Nextafter32(x, float32(math.Inf(1)))
	} else {
		y = math.Nextafter32(x, float32(math.Inf(-1)))
	}
	if y == 0 || (y < 0) != (x < 0) {
		return "", false
	}
	mid := (float64(x) + float64(y)) / 2 // exact: 25 significant bits
	txt := new(big.Float).SetPrec(200).SetFloat64(math.Abs(mid)).Text('f', 80)
	txt = strings.TrimRight(txt, "0")
	if !strings.Contains(txt, ".") || strings.HasSuffix(txt, ".") {
		return "", false
	}
	if math.Abs(float64(x)) > math.Abs(float64(y)) {
		txt += "000000001" // slightly beyond the midpoint, towards x
	} else {
		// slightly short of the midpoint: lower the last digit, pad with nines
		last := txt[len(txt)-1]
		if last == '0' {
			return "", false
		}
		txt = txt[:len(txt)-1] + string(last-1) + "999999999"
	}
	if x < 0 {
		txt = "-" + txt
	}
	// self-check with exact arithmetic: the token is strictly on x's side of the midpoint
	tv, _, err := big.ParseFloat(txt, 10, 400, big.ToNearestEven)
	if err != nil {
		return "", false
	}
	dx := new(big.Float).Sub(tv, new(big.Float).SetFloat64(float64(x)))
	dy := new(big.Float).Sub(tv, new(big.Float).SetFloat64(float64(y)))
	if dx.Abs(dx).Cmp(dy.Abs(dy)) >= 0 {
		return "", false
	}
	return txt, true
}

func writeASCIISTL(rng *rand.Rand, normals [][3]float32, verts [][3][3]float32) (string, map[string]interface{}) {
	name := []string{"", "part", "my part 7", "solid", "a_b-c.stl"}[rng.Intn(5)]
	finalNL := rng.Intn(3) != 0
	indentUnit := []string{"", " ", "  ", "\t", "    "}[rng.Intn(5)]
	ffmt := rng.Intn(6)
	var b strings.Builder
	nl := "\n"
	if rng.Intn(4) == 0 {
		nl = "\r\n" // written on Windows
	}
	if name == "" {
		b.WriteString("solid" + nl)
	} else {
		b.WriteString("solid " + name + nl)
	}
	ind := func(k int) string { return strings.Repeat(indentUnit, k) }
	vec := func(v [3]float32) string {
		return fmtF32(v[0], ffmt) + " " + fmtF32(v[1], ffmt) + " " + fmtF32(v[2], ffmt)
	}
	for i := range verts {
		b.WriteString(ind(1) + "facet normal " + vec(normals[i]) + nl)
		b.WriteString(ind(2) + "outer loop" + nl)
		for j := 0; j < 3; j++ {
			b.WriteString(ind(3) + "vertex " + vec(verts[i][j]) + nl)
		}
		b.WriteString(ind(2) + "endloop" + nl)
		b.WriteString(ind(1) + "endfacet" + nl)
	}
	tail := "endsolid"
	if name != "" {
		tail = "endsolid " + name
	}
	if finalNL {
		tail += nl
	}
	// now and then aim the total size at the 512-byte sniffing chunk of the
	// reader (white space may precede any keyword)
	if rng.Intn(6) == 0 {
		target := 510 + rng.Intn(5)
		if pad := target - (b.Len() + len(tail)); pad > 0 && pad < 200 {
			b.WriteString(strings.Repeat(" ", pad))
		}
	}
	b.WriteString(tail)
	return b.String(), map[string]interface{}{"solid_name": name, "final_newline": finalNL, "crlf": nl != "\n", "indent": indentUnit, "float_format": ffmt, "triangles": len(verts)}
}

func stlASCII(r *vlib.Run) {
	r.Section("stl.ascii", r.N(6000, 60000), vlib.SectionOpts{}, func(c *vlib.Case) {
		rng := c.Rng
		n := 0
		switch rng.Intn(5) {
		case 0:
			n = rng.Intn(2)
		case 1:
			n = 1 + rng.Intn(4) // text sizes around the 512-byte sniffing chunk
		default:
			n = rng.Intn(40)
		}
		f32 := func() float32 {
			switch rng.Intn(6) {
			case 0:
				return float32(extremeVals[rng.Intn(len(extremeVals))])
			case 1:
				return math.Float32frombits(rng.Uint32()&0x807fffff | uint32(1+rng.Intn(254))<<23)
			case 2:
				return float32(rng.Intn(7) - 3)
			default:
				return float32(rng.NormFloat64() * math.Pow(10, float64(rng.Intn(9)-4)))
			}
		}
		normals := make([][3]float32, n)
		verts := make([][3][3]float32, n)
		for i := 0; i < n; i++ {
			normals[i] = [3]float32{f32(), f32(), f32()}
			for j := 0; j < 3; j++ {
				verts[i][j] = [3]float32{f32(), f32(), f32()}
			}
		}
		text, wit := writeASCIISTL(rng, normals, verts)
		if len(text) <= 400 {
			wit["text"] = text
		} else {
			wit["text_prefix"] = text[:400]
		}
		wit["text_len"] = len(text)
		c.Count("stl.ascii.files", 1)
		if len(text) >= 510 && len(text) <= 514 {
			c.Count("stl.ascii.files_of_510_to_514_bytes", 1)
		}
		if len(text) >= 512 {
			c.Count("stl.ascii.files_over_512_bytes", 1)
		} else {
			c.Count("stl.ascii.files_under_512_bytes", 1)
		}
		if !wit["final_newline"].(bool) {
			c.Count("stl.ascii.no_final_newline", 1)
		}
		rd, rdesc := readerFor(rng, []byte(text))
		wit["reader"] = rdesc
		out, err := model3d.ReadSTL(rd)
		if err != nil {
			c.Violationf("model3d.ReadSTL/ascii-error", wit, "ReadSTL failed on spec-conformant ASCII STL: %v", err)
			return
		}
		if len(out) != n {
			c.Violationf("model3d.ReadSTL/ascii-face-count", wit, "got %d faces want %d", len(out), n)
			return
		}
		for i := range out {
			for j := 0; j < 3; j++ {
				want := C3{X: float64(verts[i][j][0]), Y: float64(verts[i][j][1]), Z: float64(verts[i][j][2])}
				if !sameBits3(out[i][j], want) {
					c.Violationf("model3d.ReadSTL/ascii-coords", wit, "face %d vertex %d got %s want %s", i, j, hex3(out[i][j]), hex3(want))
					return
				}
			}
		}
		// low-level protocol
		sr, err := fileformats.NewSTLReader(bytes.NewReader([]byte(text)))
		if err != nil {
			c.Violationf("fileformats.NewSTLReader/ascii-error", wit, "%v", err)
			return
		}
		if sr.IsBinary() {
			c.Violationf("fileformats.STLReader.IsBinary/ascii", wit, "ASCII STL sniffed as binary")
			return
		}
		for i := 0; i <= n; i++ {
			nn, vv, err := sr.ReadTriangle()
			if i == n {
				if err != io.EOF {
					c.Violationf("fileformats.STLReader.ReadTriangle/ascii-eof", wit, "after %d facets want io.EOF, got %v", n, err)
				}
				break
			}
			if err != nil {
				c.Violationf("fileformats.STLReader.ReadTriangle/ascii-error", wit, "facet %d: %v", i, err)
				return
			}
			if !eqF32x3(nn, normals[i]) {
				c.Violationf("fileformats.STLReader.ReadTriangle/ascii-normal", wit, "facet %d normal got %v want %v", i, nn, normals[i])
				return
			}
			for j := 0; j < 3; j++ {
				if !eqF32x3(vv[j], verts[i][j]) {
					c.Violationf("fileformats.STLReader.ReadTriangle/ascii-coords", wit, "facet %d vertex %d got %v want %v", i, j, vv[j], verts[i][j])
					return
				}
			}
		}
		c.Count("stl.ascii.reads_ok", 1)
		if n >= 2 {
			c.Nontrivial(fmt.Sprintf("ascii-stl/%d/%v/%d", n, wit["float_format"], len(text)))
		}
	})
}
