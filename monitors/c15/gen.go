package main

import (
	"fmt"
	"math"
	"math/rand"

	"github.com/unixpickle/model3d/model3d"
)

type C3 = model3d.Coord3D
type Tri = model3d.Triangle

var negZero = math.Copysign(0, -1)

// r32 is the reference rounding of the binary STL / PLY mesh formats.
func r32(x float64) float64 { return float64(float32(x)) }

func r32c(c C3) C3 { return C3{X: r32(c.X), Y: r32(c.Y), Z: r32(c.Z)} }

func hex3(c C3) string { return fmt.Sprintf("%x %x %x", c.X, c.Y, c.Z) }

func hexTri(t *Tri) string { return hex3(t[0]) + " | " + hex3(t[1]) + " | " + hex3(t[2]) }

func sameBits(a, b float64) bool { return math.Float64bits(a) == math.Float64bits(b) }

func sameBits3(a, b C3) bool {
	return sameBits(a.X, b.X) && sameBits(a.Y, b.Y) && sameBits(a.Z, b.Z)
}

// extreme float64 values whose float32 rounding is interesting.
var extremeVals = []float64{
	0, negZero, 1, -1,
	math.MaxFloat32, -math.MaxFloat32,
	math.SmallestNonzeroFloat32, -math.SmallestNonzeroFloat32,
	math.SmallestNonzeroFloat32 * 3,              // float32 subnormal
	float64(math.Float32frombits(0x007fffff)),    // largest float32 subnormal
	float64(math.Float32frombits(0x00800000)),    // smallest float32 normal
	math.SmallestNonzeroFloat64, -5e-324, 1e-310, // float64 subnormals: flush to (signed) zero
	1e-46, -1e-46, // below half the smallest float32: rounds to zero
	0.75 * math.SmallestNonzeroFloat32,       // rounds up to the smallest subnormal
	1 + 1.0/(1<<24),                          // exact tie between two float32 values
	1 + 3.0/(1<<24),                          // tie, rounds to even upwards
	16777217,                                 // 2^24+1: tie
	0.1, 1.0 / 3, 123456.789, -9.87654321e-5, // need all 9 digits
	3.4028234e38, 1.17549435e-38, 1e38, -1e-38,
	1e10, 1.5e-20, 8388608.5,
}

// coordPool returns a vertex pool of the named kind. finite32 is true when
// every coordinate stays finite after rounding to float32.
func coordPool(rng *rand.Rand, kind string, n int) []C3 {
	pts := make([]C3, 0, n)
	pick := func() float64 {
		switch kind {
		case "grid":
			return float64(rng.Intn(5) - 2)
		case "dyadic":
			return float64(rng.Intn(2049)-1024) / 64
		case "random":
			return rng.NormFloat64() * math.Pow(10, float64(rng.Intn(7)-3))
		case "extreme":
			if rng.Intn(4) == 0 {
				return math.Float64frombits(rng.Uint64()&0x800fffffffffffff | uint64(0x380+rng.Intn(0xfe))<<52) // |x| in [2^-127, 2^127): finite in float32
			}
			return extremeVals[rng.Intn(len(extremeVals))]
		case "signed-zero":
			switch rng.Intn(4) {
			case 0:
				return 0
			case 1:
				return negZero
			case 2:
				return 1
			default:
				return -5e-324 // rounds to -0 in float32
			}
		case "near-dup":
			// float64 values that collide after rounding to float32
			base := float64(rng.Intn(4)) + 0.5
			return base + float64(rng.Intn(5)-2)*1e-12
		default:
			panic("bad kind " + kind)
		}
	}
	for i := 0; i < n; i++ {
		pts = append(pts, C3{X: pick(), Y: pick(), Z: pick()})
	}
	return pts
}

var poolKinds = []string{"grid", "dyadic", "random", "extreme", "signed-zero", "near-dup"}

// genMesh builds a triangle list (distinct pointers) of the requested shape.
// The description is used for evidence and witnesses.
func genMesh(rng *rand.Rand) ([]*Tri, string) {
	shape := rng.Intn(12)
	kind := poolKinds[rng.Intn(len(poolKinds))]
	switch {
	case shape == 0:
		return []*Tri{}, "empty"
	case shape == 1:
		p := coordPool(rng, kind, 3)
		return []*Tri{{p[0], p[1], p[2]}}, "single/" + kind
	case shape == 2:
		// duplicated faces (equal values, distinct pointers) and degenerate faces
		p := coordPool(rng, kind, 4)
		var ts []*Tri
		n := 2 + rng.Intn(6)
		for i := 0; i < n; i++ {
			switch rng.Intn(3) {
			case 0:
				ts = append(ts, &Tri{p[0], p[1], p[2]})
			case 1:
				ts = append(ts, &Tri{p[1], p[0], p[2]}) // opposite orientation
			default:
				a := p[rng.Intn(4)]
				ts = append(ts, &Tri{a, a, p[rng.Intn(4)]}) // degenerate
			}
		}
		return ts, "dup-degenerate/" + kind
	case shape == 3:
		return closedSolid(rng), "closed"
	case shape == 4:
		// no shared vertices at all
		n := 1 + rng.Intn(20)
		p := coordPool(rng, "random", 3*n)
		var ts []*Tri
		for i := 0; i < n; i++ {
			ts = append(ts, &Tri{p[3*i], p[3*i+1], p[3*i+2]})
		}
		return ts, "unshared/random"
	default:
		np := 3 + rng.Intn(12)
		p := coordPool(rng, kind, np)
		n := 1 + rng.Intn(40)
		var ts []*Tri
		for i := 0; i < n; i++ {
			ts = append(ts, &Tri{p[rng.Intn(np)], p[rng.Intn(np)], p[rng.Intn(np)]})
		}
		return ts, "soup/" + kind
	}
}

// closedSolid is a randomly placed, subdivided octahedron-like closed surface
// (shared vertices, consistent orientation).
func closedSolid(rng *rand.Rand) []*Tri {
	ax := []C3{{X: 1}, {X: -1}, {Y: 1}, {Y: -1}, {Z: 1}, {Z: -1}}
	off := C3{X: float64(rng.Intn(9) - 4), Y: float64(rng.Intn(9) - 4), Z: float64(rng.Intn(9) - 4)}
	s := float64(1+rng.Intn(4)) / 2
	var ts []*Tri
	for _, sx := range []int{0, 1} {
		for _, sy := range []int{2, 3} {
			for _, sz := range []int{4, 5} {
				t := &Tri{ax[sx].Scale(s).Add(off), ax[sy].Scale(s).Add(off), ax[sz].Scale(s).Add(off)}
				if (sx+sy+sz)%2 == 1 {
					t[0], t[1] = t[1], t[0]
				}
				ts = append(ts, t)
			}
		}
	}
	levels := rng.Intn(3)
	for l := 0; l < levels; l++ {
		var next []*Tri
		for _, t := range ts {
			m01, m12, m20 := t[0].Mid(t[1]), t[1].Mid(t[2]), t[2].Mid(t[0])
			next = append(next, &Tri{t[0], m01, m20}, &Tri{m01, t[1], m12}, &Tri{m20, m12, t[2]}, &Tri{m01, m12, m20})
		}
		ts = next
	}
	return ts
}

// gridMesh is an n-face height field (shared vertices), used for big meshes.
func gridMesh(rng *rand.Rand, faces int) []*Tri {
	w := int(math.Ceil(math.Sqrt(float64(faces)/2))) + 1
	h := func(i, j int) C3 {
		return C3{X: float64(i) * 0.37, Y: float64(j) * 0.61, Z: math.Sin(float64(i)*0.3) * math.Cos(float64(j)*0.2)}
	}
	_ = rng
	var ts []*Tri
	for i := 0; i+1 < w && len(ts) < faces; i++ {
		for j := 0; j+1 < w && len(ts) < faces; j++ {
			ts = append(ts, &Tri{h(i, j), h(i+1, j), h(i+1, j+1)})
			if len(ts) < faces {
				ts = append(ts, &Tri{h(i, j), h(i+1, j+1), h(i, j+1)})
			}
		}
	}
	return ts
}

func finite32Tris(ts []*Tri) bool {
	for _, t := range ts {
		for _, p := range t {
			for _, x := range p.Array() {
				if math.IsInf(r32(x), 0) || math.IsNaN(x) {
					return false
				}
			}
		}
	}
	return true
}

func meshWitness(ts []*Tri, desc string) map[string]interface{} {
	w := map[string]interface{}{"mesh": desc, "faces": len(ts)}
	var lines []string
	for i, t := range ts {
		if i >= 12 {
			break
		}
		lines = append(lines, hexTri(t))
	}
	w["first_faces_hex"] = lines
	return w
}

func meshSig(ts []*Tri, desc string) string {
	h := uint64(1469598103934665603)
	for _, t := range ts {
		for _, p := range t {
			for _, x := range p.Array() {
				h ^= math.Float64bits(x)
				h *= 1099511628211
			}
		}
	}
	return fmt.Sprintf("%s/%d/%x", desc, len(ts), h)
}
