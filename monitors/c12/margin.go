package main

// Filter-margin workloads (property C12: "a filter margin that is too small").
//
// The solid is a union of axis-aligned boxes whose sides lie, in exact
// arithmetic, on (or within rounding of) lattice lines, evaluated through an
// affine change of coordinates, so that the floating-point Contains can
// classify a lattice point that is within an ulp of a side differently from
// the ideal shape. The filter handed to the library is *exactly* conservative
// for the ideal shape (rational arithmetic): true iff the closed rectangle
// meets the boundary of one of the ideal boxes. The library promises to grow
// block bounds by a small epsilon precisely so that such rounding-level
// disagreements between a shape and its filter cannot lose faces; the
// displacement here is < 1e-12 spacings, nine orders of magnitude below the
// shipped margin of 1e-3 spacings.

import (
	"fmt"
	"math/big"
	"math/rand"
	"sync/atomic"

	"github.com/unixpickle/model3d/model2d"
	"github.com/unixpickle/model3d/model3d"
	"verif/vlib"
)

type gridBoxes struct {
	origin [3]float64
	delta  float64
	boxes  [][6]int // lo x,y,z, hi x,y,z in lattice units
	open   bool
	dim    int
	lo, hi [3]float64
	// exact sides
	sides [][6]*big.Rat
	desc  string
}

func newGridBoxes(rng *rand.Rand, dim int) *gridBoxes {
	g := &gridBoxes{dim: dim, open: rng.Intn(2) == 0}
	g.delta = []float64{0.1, 0.2, 0.3, 0.01, 0.07, 0.013 + 0.3*rng.Float64()}[rng.Intn(6)]
	for i := 0; i < dim; i++ {
		switch rng.Intn(3) {
		case 0:
			g.origin[i] = float64(rng.Intn(41)-20) * g.delta
		case 1:
			g.origin[i] = (rng.Float64()*2 - 1) * 50
		default:
			g.origin[i] = (rng.Float64()*2 - 1)
		}
	}
	n := 24 + rng.Intn(40)
	if dim == 3 {
		n = 10 + rng.Intn(14)
	}
	nb := 2 + rng.Intn(7)
	kmin, kmax := [3]int{1 << 30, 1 << 30, 1 << 30}, [3]int{-1 << 30, -1 << 30, -1 << 30}
	for b := 0; b < nb; b++ {
		var bx [6]int
		for i := 0; i < dim; i++ {
			a := rng.Intn(n)
			w := 1 + rng.Intn(n/2)
			if rng.Intn(3) == 0 {
				// sides on multiples of 4: block seams are likelier there
				a = a / 4 * 4
				w = (w/4 + 1) * 4
			}
			bx[i], bx[i+3] = a-n/2, a-n/2+w
			if bx[i] < kmin[i] {
				kmin[i] = bx[i]
			}
			if bx[i+3] > kmax[i] {
				kmax[i] = bx[i+3]
			}
		}
		g.boxes = append(g.boxes, bx)
	}
	for i := 0; i < dim; i++ {
		g.lo[i] = g.origin[i] + float64(kmin[i])*g.delta
		// half a cell of slack at the top so that the outermost lattice layer is excluded
		g.hi[i] = g.origin[i] + float64(kmax[i])*g.delta + 0.5*g.delta
	}
	d := new(big.Rat).SetFloat64(g.delta)
	for _, bx := range g.boxes {
		var s [6]*big.Rat
		for j := 0; j < 6; j++ {
			if j%3 >= dim {
				continue
			}
			o := new(big.Rat).SetFloat64(g.origin[j%3])
			k := new(big.Rat).SetInt64(int64(bx[j]))
			s[j] = o.Add(o, k.Mul(k, d))
		}
		g.sides = append(g.sides, s)
	}
	g.desc = fmt.Sprintf("gridboxes dim=%d origin=%x delta=%x open=%v boxes=%v", dim, g.origin[:dim], g.delta, g.open, g.boxes)
	return g
}

func (g *gridBoxes) contains(p [3]float64) bool {
	var q [3]float64
	for i := 0; i < g.dim; i++ {
		if p[i] < g.lo[i] || p[i] > g.hi[i] {
			return false
		}
		q[i] = (p[i] - g.origin[i]) / g.delta
	}
	for _, b := range g.boxes {
		in := true
		for i := 0; i < g.dim && in; i++ {
			if g.open {
				in = q[i] > float64(b[i]) && q[i] < float64(b[i+3])
			} else {
				in = q[i] >= float64(b[i]) && q[i] <= float64(b[i+3])
			}
		}
		if in {
			return true
		}
	}
	return false
}

// idealContains classifies a point by exact arithmetic on the ideal boxes.
func (g *gridBoxes) idealContains(p [3]float64) bool {
	var pr [3]*big.Rat
	for i := 0; i < g.dim; i++ {
		pr[i] = new(big.Rat).SetFloat64(p[i])
	}
	for _, s := range g.sides {
		in := true
		for i := 0; i < g.dim && in; i++ {
			if g.open {
				in = pr[i].Cmp(s[i]) > 0 && pr[i].Cmp(s[i+3]) < 0
			} else {
				in = pr[i].Cmp(s[i]) >= 0 && pr[i].Cmp(s[i+3]) <= 0
			}
		}
		if in {
			return true
		}
	}
	return false
}

// touchesBoundary: the closed rect [lo,hi] meets the boundary of some ideal box
// (exact). A superset of "meets the surface of the union", hence conservative.
func (g *gridBoxes) touchesBoundary(lo, hi [3]float64) bool {
	var l, h [3]*big.Rat
	for i := 0; i < g.dim; i++ {
		l[i] = new(big.Rat).SetFloat64(lo[i])
		h[i] = new(big.Rat).SetFloat64(hi[i])
	}
	for _, s := range g.sides {
		meets, strictlyInside := true, true
		for i := 0; i < g.dim; i++ {
			if h[i].Cmp(s[i]) < 0 || l[i].Cmp(s[i+3]) > 0 {
				meets = false
				break
			}
			if !(l[i].Cmp(s[i]) > 0 && h[i].Cmp(s[i+3]) < 0) {
				strictlyInside = false
			}
		}
		if meets && !strictlyInside {
			return true
		}
	}
	return false
}

type gridSolid2 struct{ g *gridBoxes }

func (s gridSolid2) Min() model2d.Coord { return model2d.XY(s.g.lo[0], s.g.lo[1]) }
func (s gridSolid2) Max() model2d.Coord { return model2d.XY(s.g.hi[0], s.g.hi[1]) }
func (s gridSolid2) Contains(p model2d.Coord) bool {
	return s.g.contains([3]float64{p.X, p.Y, 0})
}

type gridSolid3 struct{ g *gridBoxes }

func (s gridSolid3) Min() model3d.Coord3D { return model3d.XYZ(s.g.lo[0], s.g.lo[1], s.g.lo[2]) }
func (s gridSolid3) Max() model3d.Coord3D { return model3d.XYZ(s.g.hi[0], s.g.hi[1], s.g.hi[2]) }
func (s gridSolid3) Contains(p model3d.Coord3D) bool {
	return s.g.contains([3]float64{p.X, p.Y, p.Z})
}

func marginSections(r *vlib.Run) {
	r.Section("ms.margin", r.N(600, 12000), vlib.SectionOpts{Sequential: true}, func(c *vlib.Case) {
		rng := c.Rng
		g := newGridBoxes(rng, 2)
		s := gridSolid2{g}
		p := []int{1, 2, 5, 16}[rng.Intn(4)]
		iters := rng.Intn(3)
		wit := map[string]interface{}{"solid": g.desc, "gomaxprocs": p, "iters": iters}
		// how many lattice points does rounding classify differently from the ideal shape?
		xs, ys := model2d.VerifMarchingLattice(s, g.delta)
		flips := 0
		for _, x := range xs {
			for _, y := range ys {
				pt := [3]float64{x, y, 0}
				if g.contains(pt) != g.idealContains(pt) {
					flips++
				}
			}
		}
		c.Count("margin.2d.lattice_points", int64(len(xs)*len(ys)))
		c.Count("margin.2d.lattice_points_classified_by_rounding", int64(flips))
		if flips > 0 {
			c.Count("margin.2d.cases_with_rounding_flips", 1)
			c.Nontrivial("ms.margin" + g.desc)
		}
		var ref, refS []vlib.Seg
		withProcs(1, func() {
			ref = vlib.CanonSegs(vlib.Segs(model2d.MarchingSquares(s, g.delta)))
			refS = vlib.CanonSegs(vlib.Segs(model2d.MarchingSquaresSearch(s, g.delta, iters)))
		})
		var rejected int64
		f := func(rc *model2d.Rect) bool {
			ok := g.touchesBoundary([3]float64{rc.MinVal.X, rc.MinVal.Y, 0}, [3]float64{rc.MaxVal.X, rc.MaxVal.Y, 0})
			if !ok {
				atomic.AddInt64(&rejected, 1)
			}
			return ok
		}
		var got, gotS []vlib.Seg
		withProcs(p, func() {
			got = vlib.CanonSegs(vlib.Segs(model2d.MarchingSquaresFilter(s, f, g.delta)))
		})
		c.Count("margin.2d.comparisons", 1)
		c.Count("margin.2d.blocks_rejected_by_filter", atomic.LoadInt64(&rejected))
		if eq, why := vlib.EqualCanonSegs(ref, got); !eq {
			c.Violation("model2d.MarchingSquaresFilter/filter-margin", "filter that is exactly conservative for the ideal boxes (solid evaluated with rounding-level noise): "+why, wit)
			return
		}
		withProcs(p, func() {
			gotS = vlib.CanonSegs(vlib.Segs(model2d.MarchingSquaresSearchFilter(s, f, g.delta, iters)))
		})
		c.Count("margin.2d.comparisons", 1)
		if eq, why := vlib.EqualCanonSegs(refS, gotS); !eq {
			c.Violation("model2d.MarchingSquaresSearchFilter/filter-margin", "exact ideal filter: "+why, wit)
		}
	})

	r.Section("mc.margin", r.N(40, 800), vlib.SectionOpts{Sequential: true}, func(c *vlib.Case) {
		rng := c.Rng
		g := newGridBoxes(rng, 3)
		s := gridSolid3{g}
		p := []int{1, 2, 5, 16}[rng.Intn(4)]
		wit := map[string]interface{}{"solid": g.desc, "gomaxprocs": p}
		xs, ys, zs := model3d.VerifMarchingLattice(s, g.delta)
		flips := 0
		for _, x := range xs {
			for _, y := range ys {
				for _, z := range zs {
					pt := [3]float64{x, y, z}
					if g.contains(pt) != g.idealContains(pt) {
						flips++
					}
				}
			}
		}
		c.Count("margin.3d.lattice_points", int64(len(xs)*len(ys)*len(zs)))
		c.Count("margin.3d.lattice_points_classified_by_rounding", int64(flips))
		if flips > 0 {
			c.Count("margin.3d.cases_with_rounding_flips", 1)
			c.Nontrivial("mc.margin" + g.desc)
		}
		var ref, got []vlib.Tri
		withProcs(1, func() { ref = vlib.CanonTris(vlib.Tris(model3d.MarchingCubes(s, g.delta))) })
		var rejected int64
		f := func(rc *model3d.Rect) bool {
			ok := g.touchesBoundary([3]float64{rc.MinVal.X, rc.MinVal.Y, rc.MinVal.Z}, [3]float64{rc.MaxVal.X, rc.MaxVal.Y, rc.MaxVal.Z})
			if !ok {
				atomic.AddInt64(&rejected, 1)
			}
			return ok
		}
		withProcs(p, func() { got = vlib.CanonTris(vlib.Tris(model3d.MarchingCubesFilter(s, f, g.delta))) })
		c.Count("margin.3d.comparisons", 1)
		c.Count("margin.3d.blocks_rejected_by_filter", atomic.LoadInt64(&rejected))
		diff(c, "model3d.MarchingCubesFilter/filter-margin", "filter that is exactly conservative for the ideal boxes (solid evaluated with rounding-level noise)", ref, got, wit)
	})
}
