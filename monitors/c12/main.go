// C12 — Meshing results do not depend on parallelism, buffering or filtering.
// Differential monitor across configurations, built with -race; the harness's
// solids inject seeded yields inside the library's workers and record the
// arrival order of samples. DESIGN.md C12.
package main

import (
	"fmt"
	"hash/fnv"
	"image"
	"math"
	"math/rand"
	"runtime"
	"sync"

	"github.com/unixpickle/model3d/model2d"
	"github.com/unixpickle/model3d/model3d"
	"verif/vlib"
)

type C3 = model3d.Coord3D

var (
	sigMu sync.Mutex
	sigs  = map[uint64]bool{}
)

// tracer injects seeded yields and records the arrival order of samples.
type tracer struct {
	mu    sync.Mutex
	seed  uint64
	order []int32
	minZ  float64
	delta float64
	calls int64
}

func (t *tracer) hook(p C3) {
	h := math.Float64bits(p.X)*0x9e3779b97f4a7c15 ^ math.Float64bits(p.Y)*0xc2b2ae3d27d4eb4f ^ math.Float64bits(p.Z)*0x165667b19e3779f9 ^ t.seed
	h ^= h >> 29
	switch h % 16 {
	case 0:
		runtime.Gosched()
	case 1:
		for i := 0; i < int(h>>8%200); i++ {
			runtime.Gosched()
		}
	}
	t.mu.Lock()
	t.calls++
	if len(t.order) < 4096 {
		t.order = append(t.order, int32(math.Round((p.Z-t.minZ)/t.delta)))
	}
	t.mu.Unlock()
}

func (t *tracer) finish(c *vlib.Case) {
	h := fnv.New64a()
	for _, z := range t.order {
		h.Write([]byte{byte(z), byte(z >> 8)})
	}
	k := h.Sum64()
	sigMu.Lock()
	if !sigs[k] {
		sigs[k] = true
		c.Count("interleavings.distinct_arrival_signatures", 1)
	}
	sigMu.Unlock()
	c.Count("solid.contains_calls", t.calls)
}

func traced(s model3d.Solid, delta float64, seed int64) (*vlib.HookedSolid, *tracer) {
	t := &tracer{seed: uint64(seed), minZ: s.Min().Z, delta: delta}
	return &vlib.HookedSolid{S: s, Hook: t.hook}, t
}

func withProcs(n int, f func()) {
	old := runtime.GOMAXPROCS(n)
	defer runtime.GOMAXPROCS(old)
	f()
}

func testSolid(rng *rand.Rand) (*vlib.FSolid, float64) {
	switch rng.Intn(4) {
	case 0:
		n := [3]int{3 + rng.Intn(6), 3 + rng.Intn(6), 3 + rng.Intn(10)}
		b := vlib.NewBitSolid3(C3{}, 0.5, n[0], n[1], n[2])
		d := 0.1 + 0.8*rng.Float64()
		for i := range b.Bits {
			b.Bits[i] = rng.Float64() < d
		}
		return &vlib.FSolid{Lo: b.Min(), Hi: b.Max(), F: b.Contains, Desc: "bitmap" + vlib.PatternString(b.Bits, n)}, 0.5
	case 1:
		delta := 0.08 + 0.08*rng.Float64()
		return vlib.ThinFeature(rng, delta), delta
	default:
		return vlib.CSG(rng, 3, 1), 0.06 + 0.08*rng.Float64()
	}
}

func diff(c *vlib.Case, key, what string, ref, got []vlib.Tri, wit map[string]interface{}) bool {
	if eq, why := vlib.EqualCanonTris(ref, got); !eq {
		c.Violation(key, what+": "+why, wit)
		return false
	}
	return true
}

// triBoxes supports an own conservative region filter: true iff the rect
// (slightly grown) overlaps the bounding box of some reference triangle.
type triBoxes struct{ min, max []C3 }

func newTriBoxes(tris []vlib.Tri) *triBoxes {
	t := &triBoxes{}
	for _, tr := range tris {
		t.min = append(t.min, tr[0].Min(tr[1]).Min(tr[2]))
		t.max = append(t.max, tr[0].Max(tr[1]).Max(tr[2]))
	}
	return t
}

func (t *triBoxes) overlaps(r *model3d.Rect, grow float64) bool {
	for i := range t.min {
		if r.MinVal.X-grow <= t.max[i].X && r.MaxVal.X+grow >= t.min[i].X &&
			r.MinVal.Y-grow <= t.max[i].Y && r.MaxVal.Y+grow >= t.min[i].Y &&
			r.MinVal.Z-grow <= t.max[i].Z && r.MaxVal.Z+grow >= t.min[i].Z {
			return true
		}
	}
	return false
}

func rectHash(r *model3d.Rect, seed int64) uint64 {
	h := math.Float64bits(r.MinVal.X)*3 ^ math.Float64bits(r.MinVal.Y)*5 ^ math.Float64bits(r.MaxVal.Z)*7 ^ uint64(seed)
	h *= 0x9e3779b97f4a7c15
	return h >> 20
}

func main() {
	r := vlib.Start("C12", "exploration")
	r.Rule("one deterministic solid and spacing per case (own CSG trees, thin features, lattice bitmaps); the canonical face list (sorted, bit-exact) must be identical across GOMAXPROCS 1..16, conservative filters, search with/without filter, coarse-to-fine vs direct, repeated runs, dual-contouring MaxGos x BufferSize x Clip, and rasterising with/without a conservative filter; built with the race detector; solids inject seeded yields in the library's workers and record arrival-order signatures. Non-trivial = reference mesh has >= 8 faces (or image has both colours); distinct by solid+options")
	r.Assume("filters given to the library are conservative by construction (bounding boxes of the reference mesh's triangles, grown)")
	r.Assume("DualContouring with Repair or RandomSearchNormals is excluded from exact comparison (map iteration order / global RNG)")

	opts := vlib.SectionOpts{Sequential: true}
	procsList := []int{2, 3, 5, 8, 16, 65, 130} // also far above the core count: worker counts follow GOMAXPROCS

	r.Section("mc.procs", r.N(24, 240), opts, func(c *vlib.Case) {
		rng := c.Rng
		s, delta := testSolid(rng)
		wit := map[string]interface{}{"solid": s.Desc, "delta": fmt.Sprintf("%x", delta)}
		var ref []vlib.Tri
		withProcs(1, func() { ref = vlib.CanonTris(vlib.Tris(model3d.MarchingCubes(s, delta))) })
		// four of the worker counts per case, always one above 64
		perm := rng.Perm(len(procsList) - 2)[:3]
		sel := []int{procsList[perm[0]], procsList[perm[1]], procsList[perm[2]], procsList[len(procsList)-1-rng.Intn(2)]}
		for _, p := range sel {
			hs, tr := traced(s, delta, c.SubSeed+int64(p))
			var got []vlib.Tri
			withProcs(p, func() { got = vlib.CanonTris(vlib.Tris(model3d.MarchingCubes(hs, delta))) })
			tr.finish(c)
			wit["gomaxprocs"] = p
			c.Count("mc.procs.comparisons", 1)
			if !diff(c, "model3d.MarchingCubes/gomaxprocs-independent", fmt.Sprintf("GOMAXPROCS=%d vs 1", p), ref, got, wit) {
				return
			}
		}
		// repeated run and search variant at a seeded worker count
		p := procsList[rng.Intn(len(procsList))]
		iters := 1 + rng.Intn(4)
		var a, b []vlib.Tri
		withProcs(1, func() { a = vlib.CanonTris(vlib.Tris(model3d.MarchingCubesSearch(s, delta, iters))) })
		hs, tr := traced(s, delta, c.SubSeed)
		withProcs(p, func() { b = vlib.CanonTris(vlib.Tris(model3d.MarchingCubesSearch(hs, delta, iters))) })
		tr.finish(c)
		c.Count("mc.procs.comparisons", 1)
		diff(c, "model3d.MarchingCubesSearch/gomaxprocs-independent", fmt.Sprintf("GOMAXPROCS=%d vs 1, iters=%d", p, iters), a, b, wit)
		if len(ref) >= 8 {
			c.Nontrivial("procs" + s.Desc + fmt.Sprint(delta))
		}
		c.Sample("mc.procs", 1, wit)
	})

	r.Section("mc.filter", r.N(40, 400), opts, func(c *vlib.Case) {
		rng := c.Rng
		s, delta := testSolid(rng)
		p := []int{1, 2, 3, 5, 8, 16, 65, 96, 200}[rng.Intn(9)]
		iters := rng.Intn(4)
		wit := map[string]interface{}{"solid": s.Desc, "delta": fmt.Sprintf("%x", delta), "gomaxprocs": p, "iters": iters}
		var ref, refSearch []vlib.Tri
		withProcs(1, func() {
			ref = vlib.CanonTris(vlib.Tris(model3d.MarchingCubes(s, delta)))
			refSearch = vlib.CanonTris(vlib.Tris(model3d.MarchingCubesSearch(s, delta, iters)))
		})
		boxes := newTriBoxes(ref)
		filters := map[string]func(*model3d.Rect) bool{
			"always-true":  func(*model3d.Rect) bool { return true },
			"exact-boxes":  func(rc *model3d.Rect) bool { return boxes.overlaps(rc, delta*1e-6) },
			"boxes+random": func(rc *model3d.Rect) bool { return boxes.overlaps(rc, delta*1e-6) || rectHash(rc, c.SubSeed)%3 == 0 },
			"boxes-grown":  func(rc *model3d.Rect) bool { return boxes.overlaps(rc, delta*2.5) },
		}
		for name, f := range filters {
			hs, tr := traced(s, delta, c.SubSeed)
			var got, gotSearch []vlib.Tri
			calls := 0
			var mu sync.Mutex
			scribble := rng.Intn(2) == 0
			ff := func(rc *model3d.Rect) bool {
				mu.Lock()
				calls++
				mu.Unlock()
				res := f(rc)
				if scribble {
					// the callback owns the rectangle it is handed: it may use it as scratch space
					rc.MinVal, rc.MaxVal = rc.MinVal.AddScalar(1e3), rc.MaxVal.AddScalar(2e3)
				}
				return res
			}
			if scribble {
				c.Count("mc.filter.filters_overwriting_their_argument", 1)
			}
			withProcs(p, func() {
				got = vlib.CanonTris(vlib.Tris(model3d.MarchingCubesFilter(hs, ff, delta)))
				gotSearch = vlib.CanonTris(vlib.Tris(model3d.MarchingCubesSearchFilter(hs, ff, delta, iters)))
			})
			tr.finish(c)
			wit["filter"] = name
			c.Count("mc.filter.comparisons", 2)
			c.Count("mc.filter.filter_calls", int64(calls))
			if !diff(c, "model3d.MarchingCubesFilter/filter-independent", "filter "+name+" vs unfiltered", ref, got, wit) {
				return
			}
			if !diff(c, "model3d.MarchingCubesSearchFilter/filter-independent", "search filter "+name+" vs unfiltered search", refSearch, gotSearch, wit) {
				return
			}
		}
		if len(ref) >= 8 {
			c.Nontrivial("filter" + s.Desc + fmt.Sprint(delta))
		}
	})

	r.Section("mc.c2f", r.N(16, 160), opts, func(c *vlib.Case) {
		rng := c.Rng
		// analytic solids whose features are >= 8 coarse spacings
		small := 0.03 + 0.03*rng.Float64()
		k := 2 + rng.Intn(3)
		big := small * float64(k)
		var s *vlib.FSolid
		switch rng.Intn(3) {
		case 0:
			s = vlib.SphereSolid(model3d.XYZ(rng.Float64(), rng.Float64(), rng.Float64()), big*(4+2*rng.Float64()))
		case 1:
			s = vlib.TorusSolid(C3{}, vlib.RandUnit3(rng), big*4, big*10)
		default:
			a := vlib.SphereSolid(C3{}, big*5)
			b := vlib.SphereSolid(model3d.XYZ(big*6, 0, 0), big*4)
			s = vlib.UnionSolid(a, b)
		}
		iters := rng.Intn(4)
		if c.Index%3 == 1 {
			// large coarse/fine ratios on boxes: the coarse mesh chamfers sharp edges by up to a
			// coarse cell, which the dilated coarse mesh still has to cover (sides >= 3 coarse cells)
			ratio := []int{8, 12, 16, 20}[rng.Intn(4)]
			big = 0.25 + 0.1*rng.Float64()
			small = big / float64(ratio)
			lo := model3d.XYZ(rng.Float64(), rng.Float64(), rng.Float64())
			s = vlib.BoxSolid(lo, lo.Add(model3d.XYZ(big*(3+0.3*rng.Float64()), big*(3+0.3*rng.Float64()), big*(3+0.3*rng.Float64()))))
			if rng.Intn(2) == 0 {
				iters = 0
			}
			c.Count("mc.c2f.comparisons_with_ratio_8_to_20", 1)
		}
		p := []int{1, 3, 8, 16, 70, 150}[rng.Intn(6)]
		extra := 0.0
		if c.Index%3 == 2 {
			// a detail that falls through the coarse lattice, recovered with the documented extraSpace
			// argument: a ball plus a bead of radius < big/2 placed between coarse lattice points, a
			// few coarse cells away from the ball; extraSpace reaches from the ball to beyond the bead
			small = 0.04 + 0.02*rng.Float64()
			big = small * float64(4+rng.Intn(3))
			ball := vlib.SphereSolid(model3d.XYZ(0, 0, 0), big*4.3)
			gap := big * (4 + 2*rng.Float64())
			br := big * (0.25 + 0.15*rng.Float64())
			bc := model3d.XYZ(big*4.3+gap, 0.37*big, -0.21*big)
			bead := vlib.SphereSolid(bc, br)
			s = vlib.UnionSolid(ball, bead)
			xs, ys, zs := model3d.VerifMarchingLattice(s, big)
			seen := false
			for _, x := range xs {
				for _, y := range ys {
					for _, z := range zs {
						if bead.Contains(model3d.XYZ(x, y, z)) {
							seen = true
						}
					}
				}
			}
			if seen {
				c.Undecided("c2f.bead-seen-by-the-coarse-lattice")
				return
			}
			extra = gap + 2*br + big
			c.Count("mc.c2f.comparisons_with_extra_space", 1)
		}
		wit := map[string]interface{}{"solid": s.Desc, "big": big, "small": small, "iters": iters, "gomaxprocs": p, "extra_space": extra}
		var ref, got []vlib.Tri
		withProcs(1, func() { ref = vlib.CanonTris(vlib.Tris(model3d.MarchingCubesSearch(s, small, iters))) })
		hs, tr := traced(s, small, c.SubSeed)
		withProcs(p, func() { got = vlib.CanonTris(vlib.Tris(model3d.MarchingCubesC2F(hs, big, small, extra, iters))) })
		tr.finish(c)
		c.Count("mc.c2f.comparisons", 1)
		diff(c, "model3d.MarchingCubesC2F/equals-direct-meshing", "coarse-to-fine vs direct", ref, got, wit)
		if len(ref) >= 8 {
			c.Nontrivial("c2f" + s.Desc + fmt.Sprint(big, small))
		}
	})

	r.Section("dc", r.N(24, 240), opts, func(c *vlib.Case) {
		rng := c.Rng
		s, delta := testSolid(rng)
		if delta == 0.5 {
			delta = 0.37 // bitmaps: any spacing is fine for DC
		}
		clip := rng.Intn(2) == 0
		noJitter := rng.Intn(3) == 0
		mode := model3d.DualContouringTriangleMode(rng.Intn(3))
		mk := func(sol model3d.Solid, gos, buf int) *model3d.DualContouring {
			return &model3d.DualContouring{S: model3d.SolidSurfaceEstimator{Solid: sol}, Delta: delta, Clip: clip, NoJitter: noJitter, MaxGos: gos, BufferSize: buf, TriangleMode: mode}
		}
		wit := map[string]interface{}{"solid": s.Desc, "delta": fmt.Sprintf("%x", delta), "clip": clip, "nojitter": noJitter, "trimode": int(mode)}
		xs, ys, zs, _ := model3d.VerifDcLattice(s.Lo, s.Hi, delta, noJitter, 0)
		if len(zs) < 3 {
			return
		}
		refMesh, refInterior := mk(s, 1, 0).MeshInterior()
		ref := vlib.CanonTris(vlib.Tris(refMesh))
		row := len(xs) * len(ys)
		for i := 0; i < 4; i++ {
			gos := []int{1, 2, 3, 7, 0}[rng.Intn(5)]
			// buffer sizes from the minimum (4 rows) up to every seam position
			buf := 1 + rng.Intn(row*(len(zs)+1))
			if i == 0 {
				buf = 1
			}
			_, _, _, bufRows := model3d.VerifDcLattice(s.Lo, s.Hi, delta, noJitter, buf)
			hs, tr := traced(s, delta, c.SubSeed+int64(i))
			gotMesh, gotInterior := mk(hs, gos, buf).MeshInterior()
			tr.finish(c)
			got := vlib.CanonTris(vlib.Tris(gotMesh))
			wit["maxgos"], wit["bufsize"], wit["bufrows"] = gos, buf, bufRows
			c.Count("dc.comparisons", 1)
			if bufRows < len(zs) {
				c.Count("dc.comparisons_with_buffer_shifts", 1)
			}
			if !diff(c, "model3d.DualContouring.Mesh/maxgos-buffer-independent", fmt.Sprintf("MaxGos=%d BufferSize=%d (rows %d of %d) vs MaxGos=1 default buffer", gos, buf, bufRows, len(zs)), ref, got, wit) {
				return
			}
			if !sameMultiset(refInterior, gotInterior) {
				c.Violation("model3d.DualContouring.MeshInterior/maxgos-buffer-independent", fmt.Sprintf("interior point multisets differ: %d vs %d points", len(refInterior), len(gotInterior)), wit)
				return
			}
		}
		// with Repair the result is not reproducible to the last bit (map order), but it is to far
		// below the lattice spacing: same face count and every vertex within 0.02 spacings of a
		// vertex of the default-buffer mesh, whatever the buffer size (Repair + Clip re-derives
		// each repaired vertex's lattice cell after the streaming loop has ended)
		if rng.Intn(2) == 0 {
			mkR := func(buf int) []vlib.Tri {
				d := mk(s, 1, buf)
				d.Repair, d.Clip = true, true
				return vlib.Tris(d.Mesh())
			}
			refR := mkR(0)
			if vs := vertexList(refR); len(vs) <= 2500 {
				buf := 1 + rng.Intn(row*3)
				_, _, _, bufRows := model3d.VerifDcLattice(s.Lo, s.Hi, delta, noJitter, buf)
				gotR := mkR(buf)
				c.Count("dc.repair_comparisons", 1)
				if bufRows < len(zs) {
					c.Count("dc.repair_comparisons_with_buffer_shifts", 1)
				}
				wit["bufsize"], wit["bufrows"] = buf, bufRows
				worst := 0.0
				for _, p := range vertexList(gotR) {
					best := math.Inf(1)
					for _, q := range vs {
						if d := p.Dist(q); d < best {
							best = d
						}
					}
					if best > worst {
						worst = best
					}
				}
				if len(gotR) != len(refR) || worst > 0.02*delta {
					c.Violation("model3d.DualContouring.Mesh[Repair+Clip]/buffer-independent", fmt.Sprintf("BufferSize=%d (rows %d of %d): %d faces vs %d with the default buffer, a vertex is %.3g spacings away from every vertex of the default-buffer mesh", buf, bufRows, len(zs), len(gotR), len(refR), worst/delta), wit)
					return
				}
			}
		}
		if len(ref) >= 8 {
			c.Nontrivial("dc" + s.Desc + fmt.Sprint(delta, clip, noJitter))
		}
		c.Sample("dc", 1, wit)
	})

	marching2(r)
	raster(r)
	rasterCollider(r)
	marginSections(r)
	procsChange(r)

	r.Require("mc.procs.comparisons", 50)
	r.Require("procs.changed.comparisons", 30)
	r.Require("mc.filter.comparisons", 100)
	r.Require("mc.c2f.comparisons", 8)
	r.Require("dc.comparisons", 40)
	r.Require("dc.comparisons_with_buffer_shifts", 10)
	r.Require("interleavings.distinct_arrival_signatures", 20)
	r.Require("raster.comparisons", 20)
	r.Require("raster.collider.comparisons", 40)
	r.Require("raster.collider.cases_with_more_than_16_subsamples", 5)
	r.Require("margin.2d.cases_with_rounding_flips", 20)
	r.Require("margin.3d.cases_with_rounding_flips", 5)
	r.Finish()
}

func sameMultiset(a, b []C3) bool {
	if len(a) != len(b) {
		return false
	}
	m := map[C3]int{}
	for _, p := range a {
		m[p]++
	}
	for _, p := range b {
		m[p]--
	}
	for _, v := range m {
		if v != 0 {
			return false
		}
	}
	return true
}

// ---------------------------------------------------------------------------
// 2D marching and rasteriser

type fs2 struct {
	min, max model2d.Coord
	f        func(model2d.Coord) bool
	desc     string
	hook     func()
}

func (s *fs2) Min() model2d.Coord { return s.min }
func (s *fs2) Max() model2d.Coord { return s.max }
func (s *fs2) Contains(p model2d.Coord) bool {
	if s.hook != nil {
		s.hook()
	}
	if p.X < s.min.X || p.Y < s.min.Y || p.X > s.max.X || p.Y > s.max.Y {
		return false
	}
	return s.f(p)
}

type disc struct {
	c model2d.Coord
	r float64
}

func discs(rng *rand.Rand) (*fs2, []disc) {
	n := 1 + rng.Intn(4)
	var ds []disc
	mn, mx := model2d.XY(1e9, 1e9), model2d.XY(-1e9, -1e9)
	for i := 0; i < n; i++ {
		d := disc{model2d.XY(rng.Float64()*2, rng.Float64()*2), 0.2 + 0.6*rng.Float64()}
		ds = append(ds, d)
		mn = mn.Min(d.c.Sub(model2d.XY(d.r, d.r)))
		mx = mx.Max(d.c.Add(model2d.XY(d.r, d.r)))
	}
	sub := rng.Intn(2) == 0 && n > 1
	return &fs2{min: mn, max: mx, f: func(p model2d.Coord) bool {
		in := false
		for i, d := range ds {
			if p.Dist(d.c) < d.r {
				if sub && i == n-1 {
					return false
				}
				in = true
			}
		}
		return in
	}, desc: fmt.Sprint("discs", ds, sub)}, ds
}

// boundaryNear reports whether some disc's circle passes through the rect grown by g.
func boundaryNear(ds []disc, r *model2d.Rect, g float64) bool {
	for _, d := range ds {
		// min and max distance from the centre to the grown rect
		dx := math.Max(math.Max(r.MinVal.X-g-d.c.X, 0), d.c.X-(r.MaxVal.X+g))
		dy := math.Max(math.Max(r.MinVal.Y-g-d.c.Y, 0), d.c.Y-(r.MaxVal.Y+g))
		minD := math.Hypot(dx, dy)
		fx := math.Max(math.Abs(r.MinVal.X-g-d.c.X), math.Abs(r.MaxVal.X+g-d.c.X))
		fy := math.Max(math.Abs(r.MinVal.Y-g-d.c.Y), math.Abs(r.MaxVal.Y+g-d.c.Y))
		maxD := math.Hypot(fx, fy)
		if minD <= d.r && d.r <= maxD {
			return true
		}
	}
	return false
}

func marching2(r *vlib.Run) {
	r.Section("ms", r.N(40, 400), vlib.SectionOpts{Sequential: true}, func(c *vlib.Case) {
		rng := c.Rng
		s, ds := discs(rng)
		delta := 0.03 + 0.05*rng.Float64()
		iters := rng.Intn(4)
		p := []int{1, 2, 5, 16, 65, 120}[rng.Intn(6)]
		wit := map[string]interface{}{"solid": s.desc, "delta": fmt.Sprintf("%x", delta), "iters": iters, "gomaxprocs": p}
		s.hook = func() {}
		ref := vlib.CanonSegs(vlib.Segs(model2d.MarchingSquaresSearch(s, delta, iters)))
		var n uint64
		s.hook = func() {
			n++
			if n%7 == 0 {
				runtime.Gosched()
			}
		}
		s.hook = nil
		filters := map[string]func(*model2d.Rect) bool{
			"always-true":     func(*model2d.Rect) bool { return true },
			"circle-boundary": func(rc *model2d.Rect) bool { return boundaryNear(ds, rc, delta*1.01) },
			"boundary+random": func(rc *model2d.Rect) bool {
				return boundaryNear(ds, rc, delta*1.01) || (math.Float64bits(rc.MinVal.X)^uint64(c.SubSeed))%3 == 0
			},
		}
		for name, f0 := range filters {
			var got []vlib.Seg
			f := f0
			if rng.Intn(2) == 0 {
				// the callback owns the rectangle it is handed: it may use it as scratch space
				f = func(rc *model2d.Rect) bool {
					res := f0(rc)
					rc.MinVal, rc.MaxVal = rc.MinVal.AddScalar(1e3), rc.MaxVal.AddScalar(2e3)
					return res
				}
				c.Count("ms.filters_overwriting_their_argument", 1)
			}
			withProcs(p, func() { got = vlib.CanonSegs(vlib.Segs(model2d.MarchingSquaresSearchFilter(s, f, delta, iters))) })
			wit["filter"] = name
			c.Count("ms.comparisons", 1)
			if eq, why := vlib.EqualCanonSegs(ref, got); !eq {
				c.Violation("model2d.MarchingSquaresSearchFilter/filter-independent", "filter "+name+": "+why, wit)
				return
			}
		}
		// coarse to fine only for a single disc (radius >= 0.2, coarse spacing <= 0.08):
		// unions and differences can have slivers thinner than the coarse spacing
		if len(ds) != 1 {
			if len(ref) >= 6 {
				c.Nontrivial("ms" + s.desc + fmt.Sprint(delta))
			}
			return
		}
		big := delta
		small := delta / float64(2+rng.Intn(2))
		var direct, c2f []vlib.Seg
		direct = vlib.CanonSegs(vlib.Segs(model2d.MarchingSquaresSearch(s, small, iters)))
		withProcs(p, func() { c2f = vlib.CanonSegs(vlib.Segs(model2d.MarchingSquaresC2F(s, big, small, 0, iters))) })
		c.Count("ms.comparisons", 1)
		if eq, why := vlib.EqualCanonSegs(direct, c2f); !eq {
			wit["big"], wit["small"] = big, small
			c.Violation("model2d.MarchingSquaresC2F/equals-direct-meshing", why, wit)
		}
		if len(ref) >= 6 {
			c.Nontrivial("ms" + s.desc + fmt.Sprint(delta))
		}
	})
}

func raster(r *vlib.Run) {
	r.Section("raster", r.N(40, 400), vlib.SectionOpts{Sequential: true}, func(c *vlib.Case) {
		rng := c.Rng
		s, ds := discs(rng)
		rast := &model2d.Rasterizer{Scale: 20 + 60*rng.Float64(), Subsamples: 1 + rng.Intn(8)}
		if rng.Intn(4) == 0 {
			// more sub-samples than the 16-pixel tile size of the filter
			rast.Subsamples = 9 + rng.Intn(28)
			rast.Scale = 6 + 8*rng.Float64()
		}
		p := []int{1, 2, 5, 16, 80}[rng.Intn(5)]
		wit := map[string]interface{}{"solid": s.desc, "scale": rast.Scale, "subsamples": rast.Subsamples, "gomaxprocs": p}
		if rng.Intn(2) == 0 {
			// a fixed canvas (documented Bounds override) that crops the shape on some sides and pads it on others
			w, h := s.max.X-s.min.X, s.max.Y-s.min.Y
			lo := model2d.XY(s.min.X+w*(rng.Float64()*0.9-0.3), s.min.Y+h*(rng.Float64()*0.9-0.3))
			hi := model2d.XY(s.max.X-w*(rng.Float64()*0.9-0.3), s.max.Y-h*(rng.Float64()*0.9-0.3))
			if hi.X-lo.X > 0.2*w && hi.Y-lo.Y > 0.2*h {
				rast.Bounds = model2d.NewRect(lo, hi)
				wit["canvas"] = fmt.Sprint(lo, hi)
				c.Count("raster.cases_with_canvas_override", 1)
			}
		}
		var ref, got *image.Gray
		withProcs(1, func() { ref = rast.RasterizeSolid(s) })
		pix := 1.0 / rast.Scale
		filters := map[string]func(*model2d.Rect) bool{
			"always-true":     func(*model2d.Rect) bool { return true },
			"circle-boundary": func(rc *model2d.Rect) bool { return boundaryNear(ds, rc, pix*0.01) },
			"boundary+random": func(rc *model2d.Rect) bool {
				return boundaryNear(ds, rc, pix*0.01) || (math.Float64bits(rc.MinVal.Y)^uint64(c.SubSeed))%4 == 0
			},
		}
		for name, f := range filters {
			withProcs(p, func() { got = rast.RasterizeSolidFilter(s, f) })
			c.Count("raster.comparisons", 1)
			wit["filter"] = name
			if ref.Bounds() != got.Bounds() {
				c.Violation("model2d.Rasterizer.RasterizeSolidFilter/same-image", fmt.Sprintf("image sizes differ: %v vs %v", ref.Bounds(), got.Bounds()), wit)
				return
			}
			for i := range ref.Pix {
				if ref.Pix[i] != got.Pix[i] {
					w := ref.Bounds().Dx()
					c.Violation("model2d.Rasterizer.RasterizeSolidFilter/same-image", fmt.Sprintf("pixel (%d,%d) differs with filter %s: unfiltered %d, filtered %d", i%w, i/w, name, ref.Pix[i], got.Pix[i]), wit)
					return
				}
			}
		}
		// repeated unfiltered run at another worker count
		withProcs(p, func() { got = rast.RasterizeSolid(s) })
		c.Count("raster.comparisons", 1)
		for i := range ref.Pix {
			if ref.Pix[i] != got.Pix[i] {
				c.Violation("model2d.Rasterizer.RasterizeSolid/gomaxprocs-independent", fmt.Sprintf("pixel %d differs between GOMAXPROCS=1 and %d", i, p), wit)
				return
			}
		}
		lo, hi := false, false
		for _, v := range ref.Pix {
			lo = lo || v < 64
			hi = hi || v > 192
		}
		if lo && hi {
			c.Nontrivial("raster" + s.desc + fmt.Sprint(rast.Scale, rast.Subsamples))
		}
	})
}

// rasterCollider: the library's own filtered rasterisers of a collider (filled and line drawing)
// against the unfiltered rasterisation of the same solid, over the whole range of sub-sample
// counts (the tile size of the filter is 16/Subsamples pixels), line widths and canvas overrides.
func rasterCollider(r *vlib.Run) {
	r.Section("raster.collider", r.N(40, 600), vlib.SectionOpts{Sequential: true}, func(c *vlib.Case) {
		rng := c.Rng
		sub := 1 + rng.Intn(8)
		if c.Index%2 == 1 {
			sub = 9 + rng.Intn(32)
		}
		rast := &model2d.Rasterizer{Scale: 6 + 8*rng.Float64(), Subsamples: sub, LineWidth: 1 + 3*rng.Float64()}
		if sub > 8 {
			rast.Scale = 2.5 + 2*rng.Float64()
		}
		poly := model2d.NewMeshPolar(func(t float64) float64 { return 1 + 0.5*math.Sin(float64(2+c.Index%3)*t+float64(c.Index)) }, 16+rng.Intn(24))
		if rng.Intn(3) == 0 {
			lo, hi := poly.Min(), poly.Max()
			w := hi.Sub(lo)
			rast.Bounds = model2d.NewRect(lo.Add(w.Scale(0.4*rng.Float64()-0.1)), hi.Sub(w.Scale(0.4*rng.Float64()-0.1)))
		}
		coll := model2d.MeshToCollider(poly)
		p := []int{1, 2, 5, 16, 80}[rng.Intn(5)]
		wit := map[string]interface{}{"scale": rast.Scale, "subsamples": sub, "line_width": rast.LineWidth, "gomaxprocs": p, "canvas_override": rast.Bounds != nil, "polar_index": c.Index}
		cmp := func(key string, a, b *image.Gray) bool {
			c.Count("raster.collider.comparisons", 1)
			if a.Bounds() != b.Bounds() {
				c.Violation(key, fmt.Sprintf("image sizes differ: %v vs %v", a.Bounds(), b.Bounds()), wit)
				return false
			}
			for i := range a.Pix {
				if a.Pix[i] != b.Pix[i] {
					w := a.Bounds().Dx()
					c.Violation(key, fmt.Sprintf("pixel (%d,%d): unfiltered %d, filtered %d", i%w, i/w, a.Pix[i], b.Pix[i]), wit)
					return false
				}
			}
			return true
		}
		var a, b *image.Gray
		withProcs(1, func() { a = rast.RasterizeSolid(model2d.NewColliderSolid(coll)) })
		withProcs(p, func() { b = rast.RasterizeColliderSolid(coll) })
		if !cmp("model2d.Rasterizer.RasterizeColliderSolid/same-image", a, b) {
			return
		}
		withProcs(1, func() { a = rast.RasterizeSolid(model2d.NewColliderSolidHollow(coll, 0.5*rast.LineWidth/rast.Scale)) })
		withProcs(p, func() { b = rast.RasterizeCollider(coll) })
		if !cmp("model2d.Rasterizer.RasterizeCollider/same-image", a, b) {
			return
		}
		// the type-dispatching entry point draws the same pictures: a mesh and a collider as line
		// drawings, a solid filled
		if c.Index%2 == 0 {
			var d *image.Gray
			withProcs(p, func() { d = rast.Rasterize(poly) })
			if !cmp("model2d.Rasterizer.Rasterize[*Mesh]/same-image-as-RasterizeCollider", b, d) {
				return
			}
			withProcs(p, func() { d = rast.Rasterize(coll) })
			if !cmp("model2d.Rasterizer.Rasterize[Collider]/same-image-as-RasterizeCollider", b, d) {
				return
			}
			sol := model2d.NewColliderSolid(coll)
			withProcs(1, func() { a = rast.RasterizeSolid(sol) })
			withProcs(p, func() { d = rast.Rasterize(sol) })
			if !cmp("model2d.Rasterizer.Rasterize[Solid]/same-image-as-RasterizeSolid", a, d) {
				return
			}
			c.Count("raster.collider.dispatch_comparisons", 3)
		}
		if sub > 16 {
			c.Count("raster.collider.cases_with_more_than_16_subsamples", 1)
		}
		c.Nontrivial(fmt.Sprint("rastercollider", c.Index, sub, rast.Scale))
	})
}

func vertexList(ts []vlib.Tri) []C3 {
	seen := map[C3]bool{}
	var res []C3
	for _, t := range ts {
		for _, p := range t {
			if !seen[p] {
				seen[p] = true
				res = append(res, p)
			}
		}
	}
	return res
}
