package main

import (
	"fmt"
	"runtime"
	"sync/atomic"
	"time"

	"github.com/unixpickle/model3d/model2d"
	"github.com/unixpickle/model3d/model3d"

	"verif/vlib"
)

// procsTrigger changes GOMAXPROCS on the k-th call made through it (by whichever goroutine
// makes that call): the number of processors changes while one meshing call is under way, as it
// does when a tuning library or the runtime reacts to a new CPU quota.
type procsTrigger struct {
	calls atomic.Int64
	at    int64
	to    int
	fired atomic.Bool
}

func (t *procsTrigger) tick() {
	if t.calls.Add(1) == t.at {
		runtime.GOMAXPROCS(t.to)
		t.fired.Store(true)
	}
}

// procsChange: the result of one call is the same when GOMAXPROCS is changed while the call runs
// (the worker pools are sized once; nothing may be dropped, duplicated or waited for in vain).
func procsChange(r *vlib.Run) {
	r.Section("procs.changed-mid-call", r.N(60, 600), vlib.SectionOpts{Sequential: true, Watchdog: 2 * time.Minute}, func(c *vlib.Case) {
		rng := c.Rng
		from := []int{4, 8, 16, 33}[rng.Intn(4)]
		to := []int{1, 2, 3}[rng.Intn(3)]
		if rng.Intn(5) == 0 {
			from, to = to+1, from // raised instead of lowered
		}
		pick := func(total int64) int64 {
			if total < 1 {
				return 1
			}
			switch rng.Intn(3) {
			case 0:
				return 1
			case 1:
				return 1 + rng.Int63n(total)
			default:
				// early in the call: after the pools are set up, before most of the work
				return 1 + rng.Int63n(total/50+1)
			}
		}
		if rng.Intn(3) == 0 {
			// 2D
			s, ds := discs(rng)
			delta := 0.03 + 0.05*rng.Float64()
			iters := rng.Intn(3)
			var total, nf atomic.Int64
			s.hook = func() { total.Add(1) }
			ref := vlib.CanonSegs(vlib.Segs(model2d.MarchingSquaresSearch(s, delta, iters)))
			s.hook = nil
			countF := func(rc *model2d.Rect) bool { nf.Add(1); return true }
			withProcs(1, func() { model2d.MarchingSquaresSearchFilter(s, countF, delta, iters) })
			viaFilter := rng.Intn(2) == 0
			tr := &procsTrigger{to: to}
			var f func(*model2d.Rect) bool
			near := func(rc *model2d.Rect) bool { return boundaryNear(ds, rc, delta*1.01) }
			if viaFilter {
				tr.at = pick(nf.Load())
				always := rng.Intn(2) == 0
				f = func(rc *model2d.Rect) bool {
					tr.tick()
					return always || near(rc)
				}
			} else {
				tr.at = pick(total.Load())
				s.hook = tr.tick
				f = near
			}
			wit := map[string]interface{}{"solid": s.desc, "delta": fmt.Sprintf("%x", delta), "iters": iters,
				"gomaxprocs": fmt.Sprintf("%d -> %d at call %d of the %s", from, to, tr.at, map[bool]string{true: "filter", false: "solid"}[viaFilter])}
			var got []vlib.Seg
			withProcs(from, func() { got = vlib.CanonSegs(vlib.Segs(model2d.MarchingSquaresSearchFilter(s, f, delta, iters))) })
			s.hook = nil
			if !tr.fired.Load() {
				c.Undecided("the call at which GOMAXPROCS was to change was never made")
				return
			}
			c.Count("procs.changed.comparisons", 1)
			c.Count("procs.changed.comparisons_2d", 1)
			if eq, why := vlib.EqualCanonSegs(ref, got); !eq {
				c.Violation("model2d.MarchingSquaresSearchFilter/gomaxprocs-changed-during-the-call", why, wit)
				return
			}
			if len(ref) >= 6 {
				c.Nontrivial("procschange2" + s.desc + fmt.Sprint(delta))
			}
			return
		}
		s, delta := testSolid(rng)
		api := rng.Intn(4)
		iters := 1 + rng.Intn(3)
		always := func(*model3d.Rect) bool { return true }
		run := func(sol model3d.Solid, f func(*model3d.Rect) bool) []vlib.Tri {
			switch api {
			case 0:
				return vlib.CanonTris(vlib.Tris(model3d.MarchingCubes(sol, delta)))
			case 1:
				return vlib.CanonTris(vlib.Tris(model3d.MarchingCubesSearch(sol, delta, iters)))
			case 2:
				return vlib.CanonTris(vlib.Tris(model3d.MarchingCubesFilter(sol, f, delta)))
			default:
				return vlib.CanonTris(vlib.Tris(model3d.MarchingCubesSearchFilter(sol, f, delta, iters)))
			}
		}
		name := []string{"model3d.MarchingCubes", "model3d.MarchingCubesSearch", "model3d.MarchingCubesFilter", "model3d.MarchingCubesSearchFilter"}[api]
		var total, nf atomic.Int64
		var ref []vlib.Tri
		withProcs(1, func() {
			ref = run(&vlib.HookedSolid{S: s, Hook: func(C3) { total.Add(1) }}, func(*model3d.Rect) bool { nf.Add(1); return true })
		})
		tr := &procsTrigger{to: to}
		viaFilter := api >= 2 && rng.Intn(2) == 0
		var sol model3d.Solid = s
		f := always
		if viaFilter {
			tr.at = pick(nf.Load())
			f = func(*model3d.Rect) bool { tr.tick(); return true }
		} else {
			tr.at = pick(total.Load())
			sol = &vlib.HookedSolid{S: s, Hook: func(C3) { tr.tick() }}
		}
		wit := map[string]interface{}{"solid": s.Desc, "delta": fmt.Sprintf("%x", delta), "iters": iters, "api": name,
			"gomaxprocs": fmt.Sprintf("%d -> %d at call %d of the %s", from, to, tr.at, map[bool]string{true: "filter", false: "solid"}[viaFilter])}
		var got []vlib.Tri
		withProcs(from, func() { got = run(sol, f) })
		if !tr.fired.Load() {
			c.Undecided("the call at which GOMAXPROCS was to change was never made")
			return
		}
		c.Count("procs.changed.comparisons", 1)
		c.Count("procs.changed.comparisons_3d", 1)
		if from > to {
			c.Count("procs.changed.lowered", 1)
		} else {
			c.Count("procs.changed.raised", 1)
		}
		if !diff(c, name+"/gomaxprocs-changed-during-the-call", "GOMAXPROCS "+wit["gomaxprocs"].(string)+" vs constant 1", ref, got, wit) {
			return
		}
		if len(ref) >= 8 {
			c.Nontrivial("procschange" + s.Desc + fmt.Sprint(delta, api))
		}
	})
}
