package main

import (
	"bytes"
	"fmt"
	"math"
	"math/rand"
	"strconv"

	"github.com/unixpickle/model3d/model3d"
	"verif/vlib"
	"verif/vlib/c14ref"
)

type C3 = model3d.Coord3D

// placement3 puts the integer plane into space: p -> o + u*(s*x) + v*(s*y),
// with the extrusion direction n = u x v.
type placement3 struct {
	o, u, v, n C3
	scale      float64
	desc       string
}

func axisVec(i int, sign float64) C3 {
	var a [3]float64
	a[i] = sign
	return model3d.NewCoord3DArray(a)
}

func drawPlacement3(rng *rand.Rand, extent float64) *placement3 {
	pl := &placement3{scale: 1}
	if rng.Intn(3) == 0 {
		// axis aligned, integer offsets, power-of-two scale
		i := rng.Intn(3)
		j := (i + 1 + rng.Intn(2)) % 3
		si, sj := float64(1-2*rng.Intn(2)), float64(1-2*rng.Intn(2))
		pl.u, pl.v = axisVec(i, si), axisVec(j, sj)
		pl.scale = math.Ldexp(1, rng.Intn(13)-6)
		pl.o = model3d.XYZ(float64(rng.Intn(2001)-1000), float64(rng.Intn(2001)-1000), float64(rng.Intn(2001)-1000))
		if rng.Intn(3) == 0 {
			pl.o = C3{}
		}
		pl.desc = fmt.Sprintf("axis u=%v v=%v scale=%g o=%v", pl.u, pl.v, pl.scale, pl.o)
	} else {
		u := model3d.XYZ(rng.NormFloat64(), rng.NormFloat64(), rng.NormFloat64()).Normalize()
		w := model3d.XYZ(rng.NormFloat64(), rng.NormFloat64(), rng.NormFloat64())
		v := w.Sub(u.Scale(u.Dot(w))).Normalize()
		pl.u, pl.v = u, v
		pl.scale = math.Exp(rng.NormFloat64() * 2)
		if rng.Intn(2) == 0 {
			t := extent * pl.scale * math.Pow(10, 3*rng.Float64())
			pl.o = model3d.XYZ(t*(2*rng.Float64()-1), t*(2*rng.Float64()-1), t*(2*rng.Float64()-1))
		}
		pl.desc = fmt.Sprintf("rot u=(%x,%x,%x) v=(%x,%x,%x) scale=%x o=(%x,%x,%x)", u.X, u.Y, u.Z, v.X, v.Y, v.Z, pl.scale, pl.o.X, pl.o.Y, pl.o.Z)
	}
	pl.n = pl.u.Cross(pl.v)
	return pl
}

func (pl *placement3) apply(p P, h float64) C3 {
	return pl.o.Add(pl.u.Scale(pl.scale * float64(p.X))).Add(pl.v.Scale(pl.scale * float64(p.Y))).Add(pl.n.Scale(pl.scale * h))
}

// nearest returns the index of the input vertex nearest to q and its distance.
func nearest(q C3, pts []C3) (int, float64) {
	best, bd := -1, math.Inf(1)
	for i, p := range pts {
		if d := p.Dist(q); d < bd {
			best, bd = i, d
		}
	}
	return best, bd
}

func finite3(c C3) bool {
	return !math.IsNaN(c.X+c.Y+c.Z) && !math.IsInf(c.X+c.Y+c.Z, 0)
}

type witness3 struct {
	*witness
	Placement3 string   `json:"placement3"`
	Input3     []string `json:"input3_hex,omitempty"`
}

func faceCase(c *vlib.Case) {
	rng := c.Rng
	R := []int64{4, 6, 10, 30, 100, 200, 1000}[rng.Intn(7)]
	maxN := 5 + rng.Intn(26)
	loop, fam, rej := c14ref.MustLoop(rng, R, maxN, -1)
	c.Count("gen.rejected_not_simple", int64(rej))
	sh := rng.Intn(len(loop))
	loop = append(append([]P{}, loop[sh:]...), loop[:sh]...)
	if rng.Intn(2) == 0 {
		for x, y := 0, len(loop)-1; x < y; x, y = x+1, y-1 {
			loop[x], loop[y] = loop[y], loop[x]
		}
	}
	reg, why := c14ref.Certify([][]P{loop})
	if reg == nil {
		c.Undecided("generator produced a non-simple polygon: " + why)
		return
	}
	pl := drawPlacement3(rng, float64(R))
	pts := make([]C3, len(loop))
	size := 0.0
	for i, p := range loop {
		pts[i] = pl.apply(p, 0)
		if !finite3(pts[i]) {
			c.Undecided("non-finite placement")
			return
		}
		size = math.Max(size, math.Max(math.Abs(pts[i].X), math.Max(math.Abs(pts[i].Y), math.Abs(pts[i].Z))))
	}
	tol := 1e-9 * size
	// margin: the inputs themselves must be separated by far more than tol
	if pl.scale*1 < 1e3*tol {
		c.Undecided("vertex separation too small against the offset")
		return
	}
	api := "model3d.TriangulateFace"
	class := inputClass(c, reg, "face")
	base := mkWitness(api, fam, reg, &placement{desc: "see placement3", exact: true}, nil)
	w := &witness3{witness: base, Placement3: pl.desc}
	for i, p := range pts {
		if i < 100 {
			w.Input3 = append(w.Input3, fmt.Sprintf("%x,%x,%x", p.X, p.Y, p.Z))
		}
	}
	var out []*model3d.Triangle
	input := append([]C3{}, pts...)
	pi := guarded(func() { out = model3d.TriangulateFace(input) })
	c.Count("face.calls", 1)
	c.Count("face.family."+fam, 1)
	if pi != nil {
		base.Panic = pi
		c.Violation(api+"/panic("+pi.Site+")"+class, "panic on a certified simple planar polygon: "+pi.Msg, w)
		c.Count("face.violations", 1)
		return
	}
	tris := make([][3]P, 0, len(out))
	worst := 0.0
	for ti, t := range out {
		var q [3]P
		for j, v := range t {
			k, d := nearest(v, pts)
			if !(d <= tol) {
				ww := *base
				ww.Detail = fmt.Sprintf("triangle %d vertex %d = (%x,%x,%x) is %g away from the nearest input vertex, tolerance %g", ti, j, v.X, v.Y, v.Z, d, tol)
				c.Violation(api+"/vertex-set"+class, "output triangle uses a coordinate that is not (within 1e-9*size of) an input vertex", &witness3{witness: &ww, Placement3: pl.desc, Input3: w.Input3})
				c.Count("face.violations", 1)
				return
			}
			if d/size > worst {
				worst = d / size
			}
			q[j] = loop[k]
		}
		tris = append(tris, q)
	}
	c.Max("face.worst_vertex_error_rel", worst)
	o := verdictOpts{api: api, counters: "face", class: class}
	base.Detail = "placement3: " + pl.desc
	judge(c, o, reg, tris, base)
	c.Count("face.decided", 1)
	nontrivial(c, api, reg, &placement{desc: pl.desc}, "face")
}

// ---------------------------------------------------------------------------
// ReadOFF: a prism over a polygon, faces given as polygons

func fmtF(x float64) string { return strconv.FormatFloat(x, 'g', -1, 64) }

func offCase(c *vlib.Case) {
	rng := c.Rng
	R := []int64{4, 6, 10, 30, 100, 200}[rng.Intn(6)]
	maxN := 5 + rng.Intn(20)
	loop, fam, rej := c14ref.MustLoop(rng, R, maxN, -1)
	c.Count("gen.rejected_not_simple", int64(rej))
	reg, why := c14ref.Certify([][]P{loop})
	if reg == nil {
		c.Undecided("generator produced a non-simple polygon: " + why)
		return
	}
	// counter-clockwise seen from +n so that the top face is outward
	if c14ref.Area2(loop) < 0 {
		for x, y := 0, len(loop)-1; x < y; x, y = x+1, y-1 {
			loop[x], loop[y] = loop[y], loop[x]
		}
	}
	pl := drawPlacement3(rng, float64(R))
	n := len(loop)
	h := float64(1 + rng.Intn(int(R)))
	verts := make([]C3, 2*n)
	size := 0.0
	for i, p := range loop {
		verts[i] = pl.apply(p, 0)
		verts[n+i] = pl.apply(p, h)
		for _, v := range []C3{verts[i], verts[n+i]} {
			if !finite3(v) {
				c.Undecided("non-finite placement")
				return
			}
			size = math.Max(size, math.Max(math.Abs(v.X), math.Max(math.Abs(v.Y), math.Abs(v.Z))))
		}
	}
	tol := 1e-9 * size
	if pl.scale < 1e3*tol {
		c.Undecided("vertex separation too small against the offset")
		return
	}
	var buf bytes.Buffer
	hdr := "OFF\n"
	if rng.Intn(2) == 0 {
		hdr = "OFF " // counts on the first line
	}
	fmt.Fprintf(&buf, "%s%d %d %d\n", hdr, 2*n, n+2, 3*n)
	if hdr == "OFF " {
		// NewOFFReader takes line1[3:] as the counts when the line is longer than 4 bytes
	}
	for _, v := range verts {
		fmt.Fprintf(&buf, "%s %s %s\n", fmtF(v.X), fmtF(v.Y), fmtF(v.Z))
	}
	// face order: bottom (reversed), top, sides
	fmt.Fprintf(&buf, "%d", n)
	for i := n - 1; i >= 0; i-- {
		fmt.Fprintf(&buf, " %d", i)
	}
	fmt.Fprintf(&buf, "\n%d", n)
	for i := 0; i < n; i++ {
		fmt.Fprintf(&buf, " %d", n+i)
	}
	buf.WriteString("\n")
	for i := 0; i < n; i++ {
		j := (i + 1) % n
		fmt.Fprintf(&buf, "4 %d %d %d %d\n", i, j, n+j, n+i)
	}
	api := "model3d.ReadOFF"
	class := inputClass(c, reg, "off")
	base := mkWitness(api, fam, reg, &placement{desc: "prism height " + fmtF(h) + "; placement3: " + pl.desc, exact: true}, nil)
	var out []*model3d.Triangle
	var err error
	data := buf.Bytes()
	pi := guarded(func() { out, err = model3d.ReadOFF(bytes.NewReader(data)) })
	c.Count("off.calls", 1)
	if pi != nil {
		base.Panic = pi
		c.Violation(api+"/panic("+pi.Site+")"+class, "panic on a well-formed OFF prism with simple planar faces: "+pi.Msg, base)
		return
	}
	if err != nil {
		base.Detail = err.Error() + "\n" + string(data[:minInt(len(data), 2000)])
		c.Violation(api+"/error"+class, "well-formed OFF file rejected: "+err.Error(), base)
		return
	}
	// assign triangles to faces
	var bottom, top [][3]P
	sides := make([][][3]P, n)
	unit := []P{{X: 0, Y: 0}, {X: 1, Y: 0}, {X: 1, Y: 1}, {X: 0, Y: 1}} // side quad pre-image: (i,0) (j,0) (j,1) (i,1)
	for ti, t := range out {
		var ids [3]int
		for j, v := range t {
			k, d := nearest(v, verts)
			if !(d <= tol) {
				base.Detail = fmt.Sprintf("triangle %d vertex %d = (%x,%x,%x) is %g away from the nearest file vertex, tolerance %g", ti, j, v.X, v.Y, v.Z, d, tol)
				c.Violation(api+"/vertex-set", "output triangle uses a coordinate that is not a file vertex", base)
				return
			}
			ids[j] = k
		}
		nTop := 0
		for _, k := range ids {
			if k >= n {
				nTop++
			}
		}
		switch nTop {
		case 0:
			bottom = append(bottom, [3]P{loop[ids[0]], loop[ids[1]], loop[ids[2]]})
		case 3:
			top = append(top, [3]P{loop[ids[0]-n], loop[ids[1]-n], loop[ids[2]-n]})
		default:
			// find the side quad (i, i+1) holding all three
			found := false
			for i := 0; i < n && !found; i++ {
				j := (i + 1) % n
				quad := [4]int{i, j, n + j, n + i}
				var q [3]P
				all := true
				for a, k := range ids {
					hit := false
					for b, qk := range quad {
						if qk == k {
							q[a] = unit[b]
							hit = true
						}
					}
					if !hit {
						all = false
					}
				}
				if all {
					sides[i] = append(sides[i], q)
					found = true
				}
			}
			if !found {
				base.Detail = fmt.Sprintf("triangle %d has file vertices %v which do not belong to one face", ti, ids)
				c.Violation(api+"/vertex-set", "output triangle mixes vertices of different faces", base)
				return
			}
		}
	}
	o := verdictOpts{api: api, counters: "off", class: class}
	okAll := judge(c, o, reg, bottom, base)
	okAll = judge(c, o, reg, top, base) && okAll
	quadReg, _ := c14ref.Certify([][]P{append([]P{}, unit...)})
	for i := 0; i < n; i++ {
		okAll = judge(c, verdictOpts{api: api + "(quad)", counters: "off"}, quadReg, sides[i], base) && okAll
	}
	c.Count("off.decided", 1)
	c.Count("off.faces", int64(n+2))
	_ = vlib.Hex
}

func minInt(a, b int) int {
	if a < b {
		return a
	}
	return b
}

func faceSections(r *vlib.Run) {
	r.Section("face.place", r.N(8000, 90000), vlib.SectionOpts{}, func(c *vlib.Case) { faceCase(c) })
	r.Section("face.off", r.N(2500, 30000), vlib.SectionOpts{}, func(c *vlib.Case) { offCase(c) })
}
