// C14 — Triangulation covers the polygon exactly.
// Shape: seeded hostile generator of certified simple polygons / regions with
// holes and islands on integer grids + exact integer oracle (vertex set,
// inside, pairwise disjoint, area, orientation, count), DESIGN.md C14.
package main

import (
	"fmt"
	"math"
	"math/rand"
	"sort"

	"github.com/unixpickle/model3d/model2d"
	"github.com/unixpickle/model3d/model3d"
	"verif/vlib"
	"verif/vlib/c14ref"
)

func main() {
	r := vlib.Start("C14", "exploration")
	r.ScaleQuick(3) // quick tier: 3x the case counts written at the sections (still well under a minute)
	r.Rule("polygons are drawn on integer grids (half-extent 3 .. 2^20) from ten families (convex, star, spiral, comb, staircase band, zigzag band, histogram, 2-opt random, rectangle, triangle), optionally with extra lattice points on edges (exactly colinear runs), under a random lattice symmetry, cyclic shift and orientation; regions add holes, islands in holes (depth <= 4), several roots, and rectilinear outlines traced from random bitmaps; every input is certified simple by an exact O(E log E + pairs) edge test before the library sees it; placements are exact (power-of-two scale, integer offsets: the verdict on the integers is the verdict on the floats) or rigid (random angle/scale/translation: verdict on the integer pre-image through the bit-equal vertex correspondence); a case is non-trivial if it has a reflex vertex, a colinear vertex or a hole; distinct by hash of API, pre-image and placement")
	r.Assume("exact placements: float64(p)*2^k + m*2^k is exact for the generated ranges (self-checked per vertex)")
	r.Assume("rigid placements: the rounded image of an integer polygon with extent <= 200 is a simple polygon with the same combinatorial structure, so a correct triangulation of the image is, through the vertex correspondence, a cover of the pre-image up to zero-area triangles; zero-area triangles are counted, never alarmed on")
	r.Assume("Triangulate documents no orientation: none demanded; TriangulateMesh documents clockwise triangles and a minimal collection: demanded (count only when no three vertices are colinear, where it is implied by the cover)")
	r.Assume("TriangulateFace reconstructs coordinates from a basis: output vertices are matched to the nearest input vertex within 1e-9*(extent+|offset|)")

	earSections(r)
	sweepSections(r)
	faceSections(r)
	profileSections(r)
	extraSections(r)

	r.Require("ear.decided", 500)
	r.Require("sweep.decided", 500)
	r.Require("sweep.with_holes", 100)
	r.Require("sweep.with_islands", 20)
	r.Require("face.decided", 100)
	r.Require("off.decided", 50)
	r.Require("profile.decided", 100)
	r.Require("hier.decided_nested", 100)
	r.Require("sweep.family.marching-squares", 50)
	r.Finish()
}

// pickExtent draws the half-extent of the grid: tiny grids force equal
// coordinates and colinearities, huge ones give general position.
func pickExtent(rng *rand.Rand, maxPow int) int64 {
	switch rng.Intn(6) {
	case 0:
		return 3 + rng.Int63n(6)
	case 1:
		return 8 + rng.Int63n(25)
	case 2:
		return 100
	case 3:
		return 1000
	case 4:
		return 1 << uint(10+rng.Intn(maxPow-9))
	default:
		return 20 + rng.Int63n(200)
	}
}

func nontrivial(c *vlib.Case, api string, reg *c14ref.Region, pl *placement, prefix string) {
	reflex, col := classify(reg)
	if reflex > 0 {
		c.Count(prefix+".with_reflex", 1)
	}
	if col > 0 {
		c.Count(prefix+".with_colinear_runs", 1)
	}
	if reflex > 0 || col > 0 || len(reg.Loops) > 1 {
		c.Nontrivial(fmt.Sprintf("%s|%v|%s", api, reg.Loops, pl.desc))
	}
}

// inputClass separates inputs in general position from inputs with three or
// more colinear vertices (colinear runs, vertices on the line of a diagonal):
// the two classes get different violation keys because they reach different
// code (removeColinearPoints, boundary cases of the point-in-ear test).
func inputClass(c *vlib.Case, reg *c14ref.Region, prefix string) string {
	general, decided := c14ref.NoThreeColinear(reg, 120)
	if decided && general {
		c.Count(prefix+".input_general_position", 1)
		return ""
	}
	c.Count(prefix+".input_with_colinear_vertices", 1)
	return "(colinear-input)"
}

// ---------------------------------------------------------------------------
// ear clipping: model2d.Triangulate / model3d.Triangulate

func earCase(c *vlib.Case, rigid bool, large bool) {
	rng := c.Rng
	R := pickExtent(rng, 20)
	maxN := 6 + rng.Intn(30)
	if rng.Intn(12) == 0 {
		maxN = 40 + rng.Intn(50)
	}
	if rigid {
		R = []int64{4, 10, 30, 100, 200}[rng.Intn(5)]
	}
	if large {
		// several hundred vertices (the documentation only recommends ear clipping for small
		// polygons, it does not restrict it to them); needs room on the integer grid
		maxN = 150 + rng.Intn(600)
		if R < 2000 {
			R = []int64{2000, 5000, 1 << 14, 1 << 17}[rng.Intn(4)]
		}
	}
	loop, fam, rej := c14ref.MustLoop(rng, R, maxN, -1)
	c.Count("gen.rejected_not_simple", int64(rej))
	// any starting vertex, either orientation
	sh := rng.Intn(len(loop))
	loop = append(append([]P{}, loop[sh:]...), loop[:sh]...)
	if rng.Intn(2) == 0 {
		for x, y := 0, len(loop)-1; x < y; x, y = x+1, y-1 {
			loop[x], loop[y] = loop[y], loop[x]
		}
	}
	if !rigid && !large && R <= 256 && rng.Intn(6) == 0 {
		k := uint(4 + rng.Intn(8))
		alongX := rng.Intn(2) == 0
		for j := range loop {
			if alongX {
				loop[j].X <<= k
			} else {
				loop[j].Y <<= k
			}
		}
		fam += fmt.Sprintf("*stretched(2^%d)", k)
		c.Count("ear.stretched_polygons", 1)
	}
	reg, why := c14ref.Certify([][]P{loop})
	if reg == nil {
		c.Undecided("generator produced a non-simple polygon: " + why)
		return
	}
	var pl *placement
	if rigid {
		pl = rigidPlacement(rng, float64(R))
	} else {
		pl = exactPlacement(rng)
	}
	imgs, index, ok := images(reg, pl)
	if !ok {
		c.Undecided("placement not exact or images collide")
		return
	}
	api := "model2d.Triangulate"
	class := inputClass(c, reg, "ear")
	use3d := rng.Intn(4) == 0
	w := mkWitness(api, fam, reg, pl, imgs)
	var out [][3]C2
	input := append([]C2{}, imgs[0]...)
	pi := guarded(func() {
		if use3d {
			out = model3d.Triangulate(input)
		} else {
			out = model2d.Triangulate(input)
		}
	})
	c.Count("ear.calls", 1)
	c.Count("ear.family."+fam, 1)
	if rigid {
		c.Count("ear.rigid", 1)
	}
	if use3d {
		c.Count("ear.via_model3d", 1)
	}
	if pi != nil {
		w.Panic = pi
		c.Violation(api+"/panic("+pi.Site+")"+class, "panic on a certified simple polygon: "+pi.Msg, w)
		c.Count("ear.violations", 1)
		return
	}
	for i := range input {
		if input[i] != imgs[0][i] {
			c.Violation(api+"/input-mutated", "the caller's slice was modified", w)
			return
		}
	}
	o := verdictOpts{api: api, counters: "ear", class: class}
	tris, ok := mapOut2D(c, o, index, out, w)
	if !ok {
		return
	}
	judge(c, o, reg, tris, w)
	c.Count("ear.decided", 1)
	c.Count("ear.vertices", int64(len(loop)))
	if large {
		c.Count("ear.large.decided", 1)
		c.Max("ear.large.max_vertices", float64(len(loop)))
		if len(loop) >= 256 {
			c.Count("ear.large.256_or_more_vertices", 1)
		}
	}
	nontrivial(c, api, reg, pl, "ear")
	c.Sample("ear."+fam, 1, map[string]interface{}{"family": fam, "placement": pl.desc, "polygon": w.Loops, "triangles": len(out)})
}

func earSections(r *vlib.Run) {
	r.Section("ear.int", r.N(14000, 160000), vlib.SectionOpts{}, func(c *vlib.Case) { earCase(c, false, false) })
	r.Section("ear.rigid", r.N(7000, 80000), vlib.SectionOpts{}, func(c *vlib.Case) { earCase(c, true, false) })
	r.Section("ear.large", r.N(60, 1200), vlib.SectionOpts{}, func(c *vlib.Case) { earCase(c, c.Rng.Intn(3) == 0, true) })
}

// ---------------------------------------------------------------------------
// plane sweep: model2d.TriangulateMesh

func buildMesh(rng *rand.Rand, imgs [][]C2) *model2d.Mesh {
	var segs []*model2d.Segment
	for _, im := range imgs {
		for i, a := range im {
			b := im[(i+1)%len(im)]
			segs = append(segs, &model2d.Segment{a, b})
		}
	}
	rng.Shuffle(len(segs), func(i, j int) { segs[i], segs[j] = segs[j], segs[i] })
	m := model2d.NewMesh()
	for _, s := range segs {
		m.Add(s)
	}
	return m
}

type regionCase struct {
	reg  *c14ref.Region
	fam  string
	pl   *placement
	imgs [][]C2
	idx  map[C2]P
}

// drawRegion generates, certifies, orients and places a region. kind:
// 0 = general nested polygons, 1 = bitmap outline.
func drawRegion(c *vlib.Case, kind int, rigid bool, maxExtent int64, prefix string) *regionCase {
	rng := c.Rng
	var loops [][]P
	fam := ""
	var R int64
	switch kind {
	case 0:
		R = pickExtent(rng, 20)
		if rigid {
			R = []int64{10, 30, 100, 200}[rng.Intn(4)]
		}
		if R > maxExtent {
			R = maxExtent
		}
		maxDepth := rng.Intn(5)
		maxLoops := 1 + rng.Intn(12)
		if rng.Intn(3) == 0 {
			maxDepth, maxLoops = 0, 1
		}
		maxN := 6 + rng.Intn(40)
		if rng.Intn(10) == 0 {
			maxN = 60 + rng.Intn(200)
		}
		if !c.R.Quick() && rng.Intn(60) == 0 {
			maxN = 400 + rng.Intn(1600) // long outlines (thorough tier only)
			if R < 1000 {
				R = 1000
			}
			if R > maxExtent {
				R = maxExtent
			}
		}
		if rng.Intn(25) == 0 {
			maxDepth = 5 + rng.Intn(3)
			maxLoops = 20 + rng.Intn(60)
		}
		g := c14ref.GenRegion(rng, R, maxLoops, maxDepth, maxN)
		c.Count("gen.rejected_loops", int64(g.Rejected))
		loops = g.Loops
		fam = g.Fams[0]
		if len(loops) > 1 {
			fam = "nested:" + fam
		}
	default:
		w, h := 2+rng.Intn(14), 2+rng.Intn(14)
		if rng.Intn(8) == 0 {
			w, h = 10+rng.Intn(30), 10+rng.Intn(30)
		}
		loops = c14ref.TraceBitmap(c14ref.GenBitmap(rng, w, h))
		if len(loops) == 0 {
			c.Undecided("empty bitmap")
			return nil
		}
		fam = "bitmap-unit-edges"
		if rng.Intn(2) == 0 {
			fam = "bitmap-merged-edges"
			for i := range loops {
				loops[i] = c14ref.StripColinear(loops[i])
			}
		}
		R = int64(w + h)
	}
	if !rigid && R <= 256 && rng.Intn(6) == 0 {
		// the same region stretched along one axis by 2^4..2^11 (an exact integer map that keeps it
		// simple): corners become needles, edges and diagonals meet at 1e-2..1e-5 rad
		k := uint(4 + rng.Intn(8))
		alongX := rng.Intn(2) == 0
		for i := range loops {
			for j := range loops[i] {
				if alongX {
					loops[i][j].X <<= k
				} else {
					loops[i][j].Y <<= k
				}
			}
		}
		fam += fmt.Sprintf("*stretched(2^%d)", k)
		c.Count(prefix+".stretched_regions", 1)
	}
	if rigid {
		// margin (DESIGN C14): no exactly straight vertices under a rounded
		// rotation, they would become 1e-16 slivers
		for i := range loops {
			loops[i] = c14ref.StripColinear(loops[i])
		}
	}
	reg, why := c14ref.Certify(loops)
	if reg == nil {
		c.Undecided("generator produced a non-simple region: " + why)
		return nil
	}
	reg.OrientForMesh()
	var pl *placement
	if rigid {
		pl = rigidPlacement(rng, float64(R))
		if prefix == "sweepangle" {
			// the library re-expresses coordinates in a frame turned by +0.5037616150469717: an
			// input turned by the same angle has its own grid axes as sweep axes again
			pl.cos, pl.sin = math.Cos(0.5037616150469717), math.Sin(0.5037616150469717)
			pl.desc = "rigid theta=+0.5037616150469717 (the library's internal frame angle) " + pl.desc
		}
	} else {
		pl = exactPlacement(rng)
	}
	imgs, index, ok := images(reg, pl)
	if !ok {
		c.Undecided("placement not exact or images collide")
		return nil
	}
	if rigid && prefix == "sweepangle" && rng.Intn(2) == 0 {
		// two vertices that are not joined by an edge get bit-identical coordinates along the
		// library's internal sweep axis (its fixed rotation does not rule this out): one image is
		// moved by a few ulps until its rotated x equals the other's (the pre-image, on which the
		// verdict is taken, is unchanged)
		sweepX := model2d.NewCoordPolar(0.5037616150469717, 1.0)
		type vref struct{ l, i int }
		var all []vref
		for l := range imgs {
			for i := range imgs[l] {
				all = append(all, vref{l, i})
			}
		}
		minEdge := math.Inf(1)
		for l := range imgs {
			for i := range imgs[l] {
				if d := imgs[l][i].Dist(imgs[l][(i+1)%len(imgs[l])]); d < minEdge {
					minEdge = d
				}
			}
		}
		// candidate pairs: neighbours in the order along the sweep axis
		sort.Slice(all, func(i, j int) bool {
			return sweepX.Dot(imgs[all[i].l][all[i].i]) < sweepX.Dot(imgs[all[j].l][all[j].i])
		})
		start := 0
		if len(all) > 1 {
			start = rng.Intn(len(all) - 1)
		}
		for try := 0; try+1 < len(all) && len(all) >= 4; try++ {
			k := (start + try) % (len(all) - 1)
			a, b := all[k], all[k+1]
			n := len(imgs[a.l])
			if a.l == b.l && (abs(a.i-b.i) <= 1 || abs(a.i-b.i) == n-1) {
				continue
			}
			target := sweepX.Dot(imgs[a.l][a.i])
			q := imgs[b.l][b.i]
			// first bring b onto a's sweep line (a small shift along the sweep axis), then scan ulps
			shift := target - sweepX.Dot(q)
			if math.Abs(shift) > 1e-9*minEdge {
				continue // only pairs that are aligned up to rounding already: the region stays what it is
			}
			q2 := q.Add(sweepX.Scale(shift))
			found := false
			for k := 0; k < 400 && !found; k++ {
				cand := q2
				step := k/2 + 1
				for s := 0; s < step; s++ {
					if k%2 == 0 {
						cand.X = math.Nextafter(cand.X, math.Inf(1))
					} else {
						cand.X = math.Nextafter(cand.X, math.Inf(-1))
					}
				}
				if k == 0 {
					cand = q2
				}
				if _, taken := index[cand]; sweepX.Dot(cand) == target && !taken {
					pre := index[q]
					delete(index, q)
					index[cand] = pre
					imgs[b.l][b.i] = cand
					found = true
				}
			}
			if found {
				c.Count(prefix+".pairs_with_identical_sweep_coordinate", 1)
				break
			}
		}
	}
	if rigid && prefix == "sweepangle" {
		// what the input looks like in the library's primary frame (evidence only)
		sweepX := model2d.NewCoordPolar(0.5037616150469717, 1.0)
		seen := map[float64]bool{}
		tie, edgeTie, nearVertical := false, false, false
		for l := range imgs {
			for i := range imgs[l] {
				a, b := imgs[l][i], imgs[l][(i+1)%len(imgs[l])]
				xa, xb := sweepX.Dot(a), sweepX.Dot(b)
				if seen[xa] {
					tie = true
				}
				seen[xa] = true
				if xa == xb {
					edgeTie = true
				} else if math.Abs(xa-xb) < 1e-8*a.Dist(b) {
					nearVertical = true
				}
			}
		}
		switch {
		case edgeTie:
			c.Count(prefix+".primary_frame.edge_with_identical_sweep_coordinates", 1)
		case tie:
			c.Count(prefix+".primary_frame.only_unconnected_vertices_with_identical_sweep_coordinate", 1)
		case nearVertical:
			c.Count(prefix+".primary_frame.edge_vertical_up_to_rounding_only", 1)
		default:
			c.Count(prefix+".primary_frame.generic", 1)
		}
	}
	maxDepth := 0
	for _, d := range reg.Depth {
		if d > maxDepth {
			maxDepth = d
		}
	}
	if reg.Holes() > 0 {
		c.Count(prefix+".with_holes", 1)
	}
	if maxDepth >= 2 {
		c.Count(prefix+".with_islands", 1)
	}
	if countDepth(reg, 0) > 1 {
		c.Count(prefix+".with_several_roots", 1)
	}
	c.Max(prefix+".max_depth", float64(maxDepth))
	c.Max(prefix+".max_loops", float64(len(reg.Loops)))
	c.Max(prefix+".max_vertices", float64(reg.NumVertices()))
	return &regionCase{reg: reg, fam: fam, pl: pl, imgs: imgs, idx: index}
}

func countDepth(reg *c14ref.Region, d int) int {
	n := 0
	for _, x := range reg.Depth {
		if x == d {
			n++
		}
	}
	return n
}

func sweepCase(c *vlib.Case, kind int, rigid bool) {
	sweepCaseAt(c, kind, rigid, "sweep", "model2d.TriangulateMesh")
}

func sweepCaseAt(c *vlib.Case, kind int, rigid bool, prefix, api string) {
	rc := drawRegion(c, kind, rigid, 1<<20, prefix)
	if rc == nil {
		return
	}
	sweepRegion(c, rc, rigid, api)
}

// sweepRegion hands one placed region to TriangulateMesh and judges the result on the pre-image.
func sweepRegion(c *vlib.Case, rc *regionCase, rigid bool, api string) {
	w := mkWitness(api, rc.fam, rc.reg, rc.pl, rc.imgs)
	mesh := buildMesh(c.Rng, rc.imgs)
	var out [][3]C2
	pi := guarded(func() { out = model2d.TriangulateMesh(mesh) })
	c.Count("sweep.calls", 1)
	c.Count("sweep.family."+rc.fam, 1)
	if rigid {
		c.Count("sweep.rigid", 1)
	}
	if pi != nil {
		w.Panic = pi
		c.Violation(api+"/panic("+pi.Site+")", "panic on a certified manifold, non-intersecting, correctly oriented mesh: "+pi.Msg, w)
		c.Count("sweep.violations", 1)
		return
	}
	o := verdictOpts{api: api, counters: "sweep", wantCW: true, minimal: true}
	tris, ok := mapOut2D(c, o, rc.idx, out, w)
	if !ok {
		return
	}
	judge(c, o, rc.reg, tris, w)
	c.Count("sweep.decided", 1)
	c.Count("sweep.vertices", int64(rc.reg.NumVertices()))
	nontrivial(c, api, rc.reg, rc.pl, "sweep")
	c.Sample("sweep."+rc.fam, 1, map[string]interface{}{"family": rc.fam, "placement": rc.pl.desc, "loops": len(rc.reg.Loops), "depths": rc.reg.Depth, "vertices": rc.reg.NumVertices(), "triangles": len(out)})
}

func sweepSections(r *vlib.Run) {
	r.Section("sweep.int", r.N(12000, 140000), vlib.SectionOpts{}, func(c *vlib.Case) { sweepCase(c, 0, false) })
	r.Section("sweep.rigid", r.N(6000, 70000), vlib.SectionOpts{}, func(c *vlib.Case) { sweepCase(c, 0, true) })
	r.Section("sweep.bitmap", r.N(5000, 60000), vlib.SectionOpts{}, func(c *vlib.Case) { sweepCase(c, 1, c.Rng.Intn(4) == 0) })
	// inputs whose own grid axes coincide with the library's internal sweep axes (they are turned
	// by the angle of its fixed re-framing), some with two vertices made bit-identical along the
	// sweep axis (DESIGN 23.3: the orientation that defeated the single fixed angle); own API label
	r.Section("sweep.fallback-frames", r.N(600, 8000), vlib.SectionOpts{}, fallbackAnglesCase)
	r.Section("sweep.internal-angle", r.N(1500, 20000), vlib.SectionOpts{}, func(c *vlib.Case) {
		sweepCaseAt(c, c.Rng.Intn(2), true, "sweepangle", "model2d.TriangulateMesh[input-at-the-internal-sweep-angle]")
	})
}

// The library re-expresses its input in a frame turned by the first angle of this list for which
// no two vertices share an x value and no segment is vertical up to rounding (misalignMesh).
var libFrameAngles = [...]float64{0.5037616150469717, 1.3320041402435022, 2.2160538930567923, 0.1279395941714253, 2.8974706190742054}

// rationalDirection returns an integer vector (|components| <= limit) whose direction is within
// about 1/limit^2 of (dx, dy): a convergent of the continued fraction of the slope.
func rationalDirection(dx, dy float64, limit int64) (int64, int64) {
	swap := math.Abs(dx) > math.Abs(dy)
	if swap {
		dx, dy = dy, dx
	}
	// |dx/dy| <= 1
	x := math.Abs(dx / dy)
	var p0, q0, p1, q1 int64 = 0, 1, 1, 0
	for i := 0; i < 40; i++ {
		a := int64(math.Floor(x))
		p2, q2 := a*p1+p0, a*q1+q0
		if q2 > limit || p2 > limit {
			break
		}
		p0, q0, p1, q1 = p1, q1, p2, q2
		f := x - float64(a)
		if f < 1e-15 {
			break
		}
		x = 1 / f
	}
	p, q := p1, q1
	if q == 0 {
		p, q = 0, 1
	}
	if dx < 0 {
		p = -p
	}
	if dy < 0 {
		q = -q
	}
	if swap {
		return q, p
	}
	return p, q
}

// fallbackAnglesCase: a convex polygon (a zonogon) that has, for each angle of a chosen subset of
// the library's frame angles, a pair of edges that are vertical in that frame - bit-exactly: one
// end of the edge is moved by a 1e-10th of its length until both ends have identical x there.
// Whatever the subset (never all five), one of the frames is usable and the result must be right.
func fallbackAnglesCase(c *vlib.Case) {
	rng := c.Rng
	const api = "model2d.TriangulateMesh[edges vertical in several of the internal frames]"
	var blocked []int
	switch rng.Intn(4) {
	case 0:
		blocked = []int{0, 4}
	case 1:
		blocked = []int{0, 1 + rng.Intn(4)}
	case 2:
		k := 1 + rng.Intn(4) // the first k frames
		for i := 0; i < k; i++ {
			blocked = append(blocked, i)
		}
	default:
		for i := range libFrameAngles {
			if rng.Intn(2) == 0 {
				blocked = append(blocked, i)
			}
		}
		if len(blocked) == len(libFrameAngles) {
			blocked = blocked[:4]
		}
	}
	type ev struct {
		v     P
		frame int // -1: generic edge
	}
	var vecs []ev
	// a third of the polygons also have one edge that is 1e-8 of their extent or shorter: the
	// other edges are stretched by an integer factor until the bounding box diagonal exceeds 1.2e8
	tiny := rng.Intn(3) == 0
	for _, fi := range blocked {
		a := libFrameAngles[fi]
		px, py := rationalDirection(-math.Sin(a), math.Cos(a), 1<<22)
		vecs = append(vecs, ev{P{X: px, Y: py}, fi})
	}
	for n := 1 + rng.Intn(3); n > 0 || len(vecs) < 2; n-- {
		vecs = append(vecs, ev{P{X: rng.Int63n(1<<21) - 1<<20, Y: rng.Int63n(1<<21) - 1<<20}, -1})
	}
	if tiny {
		var w, h int64
		for _, e := range vecs {
			w, h = w+abs64(e.v.X), h+abs64(e.v.Y)
		}
		f := int64(1.2e8/math.Hypot(float64(w), float64(h))) + 1
		for i := range vecs {
			vecs[i].v = P{X: vecs[i].v.X * f, Y: vecs[i].v.Y * f}
		}
		vecs = append(vecs, ev{[]P{{X: 1, Y: 0}, {X: 0, Y: 1}, {X: 1, Y: 1}, {X: -1, Y: 2}, {X: 2, Y: 1}}[rng.Intn(5)], -1})
		c.Count("fallback.polygons_with_an_edge_below_1e-8_of_the_extent_drawn", 1)
	}
	// all 2m edge vectors (each and its negative) sorted by polar angle: a convex closed polygon
	var all []ev
	for _, e := range vecs {
		if e.v.X == 0 && e.v.Y == 0 {
			c.Undecided("zero edge vector drawn")
			return
		}
		all = append(all, e, ev{P{X: -e.v.X, Y: -e.v.Y}, e.frame})
	}
	sort.Slice(all, func(i, j int) bool {
		return math.Atan2(float64(all[i].v.Y), float64(all[i].v.X)) < math.Atan2(float64(all[j].v.Y), float64(all[j].v.X))
	})
	// start the walk so that the closing edge is a generic one
	for k := 0; k < len(all) && all[len(all)-1].frame >= 0; k++ {
		all = append(all[1:], all[0])
	}
	if all[len(all)-1].frame >= 0 {
		c.Undecided("no generic closing edge")
		return
	}
	loop := make([]P, len(all))
	var cur, lo, hi P
	for i, e := range all {
		loop[i] = cur
		lo, hi = P{X: min64(lo.X, cur.X), Y: min64(lo.Y, cur.Y)}, P{X: max64(hi.X, cur.X), Y: max64(hi.Y, cur.Y)}
		cur = P{X: cur.X + e.v.X, Y: cur.Y + e.v.Y}
	}
	for i := range loop {
		loop[i] = P{X: loop[i].X - (lo.X+hi.X)/2, Y: loop[i].Y - (lo.Y+hi.Y)/2}
	}
	reg, why := c14ref.Certify([][]P{append([]P{}, loop...)})
	if reg == nil {
		c.Undecided("zonogon not certified: " + why)
		return
	}
	reg.OrientForMesh()
	pl := &placement{exact: true, scale: 1, cos: 1, desc: "identity"}
	if rng.Intn(2) == 0 {
		k := rng.Intn(21) - 10
		pl.scale, pl.desc = math.Ldexp(1, k), fmt.Sprintf("scale 2^%d", k)
	}
	imgs, index, ok := images(reg, pl)
	if !ok {
		c.Undecided("placement not exact")
		return
	}
	// edge i of the original walk runs from loop[i] to loop[i+1]; OrientForMesh may have reversed
	// the loop, so edges are found again through their end points
	frameOf := map[[2]P]int{}
	for i, e := range all {
		a, b := loop[i], loop[(i+1)%len(loop)]
		frameOf[[2]P{a, b}], frameOf[[2]P{b, a}] = e.frame, e.frame
	}
	im := imgs[0]
	pre := reg.Loops[0]
	n := len(im)
	ties := 0
	for i := 0; i < n; i++ {
		j := (i + 1) % n
		fi, known := frameOf[[2]P{pre[i], pre[j]}]
		if !known || fi < 0 || j == 0 {
			continue
		}
		ax := model2d.NewCoordPolar(libFrameAngles[fi], 1.0)
		target := ax.Dot(im[i])
		q := im[j]
		q2 := q.Add(ax.Scale(target - ax.Dot(q)))
		if q2.Dist(q) > 1e-9*q.Dist(im[i]) {
			c.Undecided("edge direction too far from the frame's vertical")
			return
		}
		found := false
		for k := 0; k < 800 && !found; k++ {
			cand := q2
			for s := 0; s < (k+1)/2; s++ {
				if k%2 == 1 {
					cand.X = math.Nextafter(cand.X, math.Inf(1))
				} else {
					cand.X = math.Nextafter(cand.X, math.Inf(-1))
				}
			}
			if _, taken := index[cand]; ax.Dot(cand) == target && (!taken || cand == q) {
				p0 := index[q]
				delete(index, q)
				index[cand] = p0
				im[j] = cand
				found = true
			}
		}
		if found {
			ties++
		}
	}
	if ties == 0 {
		c.Undecided("no edge could be made exactly vertical")
		return
	}
	c.Count("fallback.polygons", 1)
	c.Count("fallback.edges_made_exactly_vertical_in_an_internal_frame", int64(ties))
	c.Count(fmt.Sprintf("fallback.frames_blocked_%d", len(blocked)), 1)
	first := 0
	for first < len(libFrameAngles) {
		isB := false
		for _, b := range blocked {
			if b == first {
				isB = true
			}
		}
		if !isB {
			break
		}
		first++
	}
	c.Count(fmt.Sprintf("fallback.first_usable_frame_is_number_%d", first), 1)
	rc := &regionCase{reg: reg, fam: fmt.Sprintf("zonogon with edges vertical in internal frames %v", blocked), pl: pl, imgs: imgs, idx: index}
	sweepRegion(c, rc, false, api)
}

func abs64(x int64) int64 {
	if x < 0 {
		return -x
	}
	return x
}

func min64(a, b int64) int64 {
	if a < b {
		return a
	}
	return b
}

func max64(a, b int64) int64 {
	if a > b {
		return a
	}
	return b
}

func abs(x int) int {
	if x < 0 {
		return -x
	}
	return x
}
