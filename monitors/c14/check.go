package main

import (
	"fmt"
	"math"
	"math/rand"
	"runtime/debug"
	"strings"

	"github.com/unixpickle/model3d/model2d"
	"verif/vlib"
	"verif/vlib/c14ref"
)

type C2 = model2d.Coord

// P is an integer pre-image point.
type P = c14ref.P

// ---------------------------------------------------------------------------
// placements: integer pre-image -> float64 input of the library

type placement struct {
	exact    bool
	scale    float64 // exact: power of two
	ox, oy   float64 // exact: multiples of scale
	cos, sin float64 // rigid only
	desc     string
}

// exactPlacement keeps the integer structure: p -> (p + m) * 2^k, exact in
// float64, so the exact verdict on the pre-image IS the exact verdict on the
// floats handed to the library.
func exactPlacement(rng *rand.Rand) *placement {
	pl := &placement{exact: true, scale: 1, cos: 1}
	switch rng.Intn(7) {
	case 6:
		// extreme units: coordinates around 1e-90 or 1e+90 (squares of lengths are still ordinary
		// floating-point numbers, fourth powers are not)
		k := 250 + rng.Intn(80)
		if rng.Intn(2) == 0 {
			k = -k
		}
		pl.scale = math.Ldexp(1, k)
		pl.desc = fmt.Sprintf("scale 2^%d", k)
	case 0, 1:
		pl.desc = "identity"
	case 2:
		k := rng.Intn(41) - 20
		pl.scale = math.Ldexp(1, k)
		pl.desc = fmt.Sprintf("scale 2^%d", k)
	case 3:
		mx, my := rng.Int63n(1<<20)-(1<<19), rng.Int63n(1<<20)-(1<<19)
		pl.ox, pl.oy = float64(mx), float64(my)
		pl.desc = fmt.Sprintf("offset (%d,%d)", mx, my)
	case 4:
		k := rng.Intn(21) - 10
		pl.scale = math.Ldexp(1, k)
		mx, my := rng.Int63n(1<<16)-(1<<15), rng.Int63n(1<<16)-(1<<15)
		pl.ox, pl.oy = float64(mx)*pl.scale, float64(my)*pl.scale
		pl.desc = fmt.Sprintf("scale 2^%d offset (%d,%d)*scale", k, mx, my)
	default:
		// far from the origin: 2^40 + small, still exact
		m := int64(1) << uint(30+rng.Intn(12))
		pl.ox, pl.oy = float64(m), float64(-m)
		pl.desc = fmt.Sprintf("offset (%d,%d)", m, -m)
	}
	return pl
}

// rigidPlacement is a similarity with arbitrary angle, scale and translation;
// the image coordinates are rounded, verdicts are taken on the pre-image.
func rigidPlacement(rng *rand.Rand, extent float64) *placement {
	th := rng.Float64() * 2 * math.Pi
	switch rng.Intn(6) {
	case 0:
		th = math.Pi / 4
	case 1:
		th = 1e-3 * rng.NormFloat64()
	case 2:
		th = -0.5037616150469717 // twice the library's own internal frame angle away from its sweep axes
	}
	s := math.Exp(rng.NormFloat64() * 2)
	t := 0.0
	if rng.Intn(2) == 0 {
		t = extent * s * math.Pow(10, 3*rng.Float64())
	}
	pl := &placement{scale: s, cos: math.Cos(th), sin: math.Sin(th),
		ox: t * (2*rng.Float64() - 1), oy: t * (2*rng.Float64() - 1)}
	pl.desc = fmt.Sprintf("rigid theta=%x scale=%x t=(%x,%x)", th, s, pl.ox, pl.oy)
	return pl
}

func (pl *placement) apply(p P) C2 {
	x, y := float64(p.X), float64(p.Y)
	if pl.exact {
		return model2d.XY(x*pl.scale+pl.ox, y*pl.scale+pl.oy)
	}
	return model2d.XY(pl.scale*(pl.cos*x-pl.sin*y)+pl.ox, pl.scale*(pl.sin*x+pl.cos*y)+pl.oy)
}

func normC2(c C2) C2 {
	if c.X == 0 {
		c.X = 0
	}
	if c.Y == 0 {
		c.Y = 0
	}
	return c
}

// images maps every vertex of the region and builds the reverse index.
// ok=false when two vertices collide or a value is not finite.
func images(reg *c14ref.Region, pl *placement) (imgs [][]C2, index map[C2]P, ok bool) {
	index = map[C2]P{}
	for _, l := range reg.Loops {
		im := make([]C2, len(l))
		for i, p := range l {
			c := pl.apply(p)
			if math.IsNaN(c.X) || math.IsInf(c.X, 0) || math.IsNaN(c.Y) || math.IsInf(c.Y, 0) {
				return nil, nil, false
			}
			if pl.exact {
				// exactness self-check: the inverse must reproduce the integers
				if (c.X-pl.ox)/pl.scale != float64(p.X) || (c.Y-pl.oy)/pl.scale != float64(p.Y) {
					return nil, nil, false
				}
			}
			im[i] = c
			k := normC2(c)
			if _, dup := index[k]; dup {
				return nil, nil, false
			}
			index[k] = p
		}
		imgs = append(imgs, im)
	}
	return imgs, index, true
}

// ---------------------------------------------------------------------------
// guarded library calls

type panicInfo struct {
	Msg   string
	Site  string
	Stack string
}

func guarded(f func()) (pi *panicInfo) {
	defer func() {
		if e := recover(); e != nil {
			stack := string(debug.Stack())
			pi = &panicInfo{Msg: fmt.Sprint(e), Site: panicSite(stack), Stack: trim(stack, 30)}
		}
	}()
	f()
	return nil
}

func panicSite(stack string) string {
	for _, line := range strings.Split(stack, "\n") {
		if strings.HasPrefix(line, "github.com/unixpickle/model3d/") {
			line = strings.TrimPrefix(line, "github.com/unixpickle/model3d/")
			if i := strings.LastIndex(line, "("); i > 0 {
				line = line[:i]
			}
			return strings.Replace(line, "[...]", "", -1)
		}
	}
	return "unknown"
}

func trim(s string, n int) string {
	lines := strings.Split(s, "\n")
	if len(lines) > n {
		lines = lines[:n]
	}
	return strings.Join(lines, "\n")
}

// ---------------------------------------------------------------------------
// witnesses

type witness struct {
	API       string       `json:"api"`
	Family    string       `json:"family"`
	Placement string       `json:"placement"`
	Loops     [][][2]int64 `json:"preimage_loops"`
	Input     [][]string   `json:"input_hex,omitempty"`
	Output    interface{}  `json:"output,omitempty"`
	Detail    string       `json:"detail,omitempty"`
	Panic     *panicInfo   `json:"panic,omitempty"`
}

func mkWitness(api, fam string, reg *c14ref.Region, pl *placement, imgs [][]C2) *witness {
	w := &witness{API: api, Family: fam, Placement: pl.desc}
	total := 0
	for li, l := range reg.Loops {
		var ll [][2]int64
		var hx []string
		for i, p := range l {
			if total > 400 {
				break
			}
			total++
			ll = append(ll, [2]int64{p.X, p.Y})
			if imgs != nil && !pl.exact {
				hx = append(hx, vlib.Hex(imgs[li][i].X)+","+vlib.Hex(imgs[li][i].Y))
			}
		}
		w.Loops = append(w.Loops, ll)
		if hx != nil {
			w.Input = append(w.Input, hx)
		}
	}
	return w
}

// ---------------------------------------------------------------------------
// the verdict on a list of output triangles

type verdictOpts struct {
	api      string // key prefix, e.g. "model2d.Triangulate"
	class    string // appended to the clause, e.g. "(colinear-input)"
	wantCW   bool   // orientation documented clockwise
	minimal  bool   // triangle count documented minimal
	counters string // counter prefix
}

// mapOut2D maps output triangles to pre-image points by bit-equal (==)
// coordinates; a coordinate that is not an input vertex is the vertex-set
// violation.
func mapOut2D(c *vlib.Case, o verdictOpts, index map[C2]P, out [][3]C2, w *witness) ([][3]P, bool) {
	tris := make([][3]P, 0, len(out))
	for ti, t := range out {
		var q [3]P
		for j, v := range t {
			p, ok := index[normC2(v)]
			if !ok {
				ww := *w
				ww.Detail = fmt.Sprintf("triangle %d vertex %d = (%x,%x) is not an input vertex", ti, j, v.X, v.Y)
				ww.Output = hexTris(out, 60)
				c.Violation(o.api+"/vertex-set"+o.class, "output triangle uses a coordinate that is not an input vertex", &ww)
				c.Count(o.counters+".violations", 1)
				return nil, false
			}
			q[j] = p
		}
		tris = append(tris, q)
	}
	return tris, true
}

// judge reports every failed clause of the exact cover check under its own
// key. Returns true when all clauses hold.
func judge(c *vlib.Case, o verdictOpts, reg *c14ref.Region, tris [][3]P, w *witness) bool {
	res := c14ref.CheckCover(reg, tris)
	c.Count(o.counters+".triangles", int64(res.Triangles))
	c.Count(o.counters+".degenerate_triangles", int64(res.Degenerate))
	ok := true
	fail := func(clause, what string) {
		ok = false
		ww := *w
		ww.Detail = what + " | " + res.String()
		ww.Output = intTris(tris, 200)
		c.Violation(o.api+"/"+clause+o.class, what, &ww)
	}
	// one witness per case for the cover: the first failing clause in the
	// order inside, overlap, area (they usually fail together)
	switch {
	case res.OutsideTri >= 0:
		t := tris[res.OutsideTri]
		fail("inside", fmt.Sprintf("triangle %v is not inside the region: %s", t, res.OutsideWhy))
	case res.OverlapA >= 0:
		fail("overlap", fmt.Sprintf("triangles %v and %v have overlapping interiors", tris[res.OverlapA], tris[res.OverlapB]))
	case res.SumArea2 != res.WantArea2:
		fail("area", fmt.Sprintf("sum of triangle areas*2 = %d, region area*2 = %d (pre-image units): part of the region is not covered", res.SumArea2, res.WantArea2))
	}
	if o.wantCW && res.CCW > 0 {
		fail("orientation", fmt.Sprintf("%d of %d triangles are counter-clockwise, documented clockwise", res.CCW, res.Triangles))
	}
	if o.minimal && ok {
		// implied by the other clauses when no three vertices are colinear; kept
		// as a separate key because it localises dropped / duplicated triangles.
		want := reg.NumVertices() - 2*reg.Roots() + 2*reg.Holes()
		if general, decided := c14ref.NoThreeColinear(reg, 48); decided && general {
			c.Count(o.counters+".count_clause_decided", 1)
			if res.Triangles != want {
				fail("count", fmt.Sprintf("%d triangles, a triangulation of %d vertices, %d outer loops and %d holes has %d", res.Triangles, reg.NumVertices(), reg.Roots(), reg.Holes(), want))
			}
		}
	}
	if !ok {
		c.Count(o.counters+".violations", 1)
	}
	return ok
}

func hexTris(out [][3]C2, max int) []string {
	var res []string
	for i, t := range out {
		if i >= max {
			break
		}
		res = append(res, fmt.Sprintf("(%x,%x) (%x,%x) (%x,%x)", t[0].X, t[0].Y, t[1].X, t[1].Y, t[2].X, t[2].Y))
	}
	return res
}

func intTris(tris [][3]P, max int) [][3][2]int64 {
	var res [][3][2]int64
	for i, t := range tris {
		if i >= max {
			break
		}
		res = append(res, [3][2]int64{{t[0].X, t[0].Y}, {t[1].X, t[1].Y}, {t[2].X, t[2].Y}})
	}
	return res
}

// classify returns a short structural signature of a region for the
// distinct-case census.
func classify(reg *c14ref.Region) (reflex, colinear int) {
	for li, l := range reg.Loops {
		n := len(l)
		sign := int64(1)
		if c14ref.Area2(l) < 0 {
			sign = -1
		}
		_ = li
		for i := range l {
			cr := c14ref.Cross(l[(i+n-1)%n], l[i], l[(i+1)%n]) * sign
			if cr == 0 {
				colinear++
			} else if cr < 0 {
				reflex++
			}
		}
	}
	return
}
