package main

import (
	"fmt"
	"math"

	"github.com/unixpickle/model3d/model3d"
	"verif/vlib"
	"verif/vlib/c14ref"
)

// ProfileMesh: closed oriented manifold, caps cover the region, signed volume
// == area * height (exactly, in pre-image units).

func profileCase(c *vlib.Case, kind int, rigid bool) {
	rng := c.Rng
	rc := drawRegion(c, kind, rigid, 4096, "profile")
	if rc == nil {
		return
	}
	// heights: exact integers times a power of two, minZ < maxZ
	z0i := int64(rng.Intn(41) - 20)
	hz := int64(1 + rng.Intn(40))
	zs := math.Ldexp(1, rng.Intn(9)-4)
	if rng.Intn(3) == 0 {
		z0i = 0
	}
	minZ, maxZ := float64(z0i)*zs, float64(z0i+hz)*zs
	if rng.Intn(4) == 0 {
		// a very thin sheet (a film of 1e-6 .. 1e-12 units), at the origin or one unit above it;
		// all heights stay exactly representable
		zs = math.Ldexp(1, -(20 + rng.Intn(21)))
		base := float64(rng.Intn(2))
		if z0i < 0 {
			z0i = -z0i
		}
		minZ, maxZ = base+float64(z0i)*zs, base+float64(z0i+hz)*zs
		c.Count("profile.thin_sheets", 1)
	}
	api := "model3d.ProfileMesh"
	w := mkWitness(api, rc.fam, rc.reg, rc.pl, rc.imgs)
	w.Placement += fmt.Sprintf("; minZ=%g maxZ=%g", minZ, maxZ)
	m2 := buildMesh(rng, rc.imgs)
	var mesh *model3d.Mesh
	pi := guarded(func() { mesh = model3d.ProfileMesh(m2, minZ, maxZ) })
	c.Count("profile.calls", 1)
	if pi != nil {
		w.Panic = pi
		c.Violation(api+"/panic("+pi.Site+")", "panic on a certified closed oriented manifold outline: "+pi.Msg, w)
		return
	}
	tris := vlib.Tris(mesh)
	// vertex set + integer pre-image
	type ip3 struct{ X, Y, Z int64 }
	itris := make([][3]ip3, len(tris))
	var bottom, top [][3]P
	for ti, t := range tris {
		zsum := int64(0)
		var q [3]P
		for j, v := range t {
			p, ok := rc.idx[normC2(C2{X: v.X, Y: v.Y})]
			if !ok || (v.Z != minZ && v.Z != maxZ) {
				w.Detail = fmt.Sprintf("triangle %d vertex %d = (%x,%x,%x)", ti, j, v.X, v.Y, v.Z)
				c.Violation(api+"/vertex-set", "output vertex is not an outline vertex at minZ or maxZ", w)
				return
			}
			z := int64(0)
			if v.Z == maxZ {
				z = hz
			}
			zsum += z
			itris[ti][j] = ip3{p.X, p.Y, z}
			q[j] = p
		}
		if zsum == 0 {
			bottom = append(bottom, q)
		} else if zsum == 3*hz {
			top = append(top, q)
		}
	}
	topo := vlib.AnalyzeTris(tris)
	if !topo.ClosedOrientedManifold() {
		ww := *w
		ww.Detail = fmt.Sprintf("faces=%d degenerate=%d badDirected=%d boundary=%d nonManifold=%d inconsistent=%d singular=%d duplicate=%d problems=%v",
			topo.Faces, topo.Degenerate, topo.BadDirected, topo.BoundaryEdges, topo.NonManifoldEdges, topo.InconsistentEdges, topo.SingularVertices, topo.DuplicateFaces, topo.Problems)
		clause := "closed-manifold"
		if topo.BoundaryEdges == 0 && topo.NonManifoldEdges == 0 && topo.InconsistentEdges > 0 {
			clause = "orientation-consistency"
		}
		c.Violation(api+"/"+clause, "extruded mesh is not a closed consistently oriented manifold: "+ww.Detail, &ww)
	}
	// components: one per root loop
	if topo.ClosedOrientedManifold() && topo.Components != rc.reg.Roots() {
		ww := *w
		ww.Detail = fmt.Sprintf("components=%d, region has %d pieces", topo.Components, rc.reg.Roots())
		c.Violation(api+"/components", ww.Detail, &ww)
	}
	// volume
	var six int64
	for _, t := range itris {
		a, b, d := t[0], t[1], t[2]
		six += a.X*(b.Y*d.Z-b.Z*d.Y) - a.Y*(b.X*d.Z-b.Z*d.X) + a.Z*(b.X*d.Y-b.Y*d.X)
	}
	want := 3 * rc.reg.Area2() * hz
	if six != want {
		ww := *w
		ww.Detail = fmt.Sprintf("6*signed volume = %d, 6*area*height = %d (pre-image units, outward normals positive)", six, want)
		c.Violation(api+"/volume", "signed volume differs from outline area times height: "+ww.Detail, &ww)
	}
	// caps
	judge(c, verdictOpts{api: api + "(bottom-cap)", counters: "profile", wantCW: true}, rc.reg, bottom, w)
	// top cap must be counter-clockwise: mirror the clause by swapping
	swapped := make([][3]P, len(top))
	for i, t := range top {
		swapped[i] = [3]P{t[1], t[0], t[2]}
	}
	judge(c, verdictOpts{api: api + "(top-cap)", counters: "profile", wantCW: true}, rc.reg, swapped, w)
	c.Count("profile.decided", 1)
	c.Count("profile.faces", int64(len(tris)))
	if rc.reg.Holes() > 0 {
		c.Count("profile.decided_with_holes", 1)
	}
	nontrivial(c, api, rc.reg, rc.pl, "profile")
}

func profileSections(r *vlib.Run) {
	r.Section("profile.int", r.N(5000, 60000), vlib.SectionOpts{}, func(c *vlib.Case) { profileCase(c, 0, false) })
	r.Section("profile.rigid", r.N(2000, 25000), vlib.SectionOpts{}, func(c *vlib.Case) { profileCase(c, 0, true) })
	r.Section("profile.bitmap", r.N(2000, 25000), vlib.SectionOpts{}, func(c *vlib.Case) { profileCase(c, 1, false) })
}

var _ = c14ref.MaxCoord
