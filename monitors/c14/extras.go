package main

import (
	"fmt"
	"math"
	"math/rand"
	"sort"

	"github.com/unixpickle/model3d/model2d"
	"verif/vlib"
	"verif/vlib/c14ref"
)

// ---------------------------------------------------------------------------
// Outlines from the library's marching squares of random CSG solids, snapped
// to a 2^-16 grid and re-certified by the harness (the snapped loops, not the
// library's mesh, are the input).

type csgSolid struct {
	pos, neg []*model2d.Circle
	rects    []*model2d.Rect
	min, max C2
}

func (s *csgSolid) Min() C2 { return s.min }
func (s *csgSolid) Max() C2 { return s.max }
func (s *csgSolid) Contains(c C2) bool {
	if c.X < s.min.X || c.Y < s.min.Y || c.X > s.max.X || c.Y > s.max.Y {
		return false
	}
	in := false
	for _, p := range s.pos {
		if p.Contains(c) {
			in = true
			break
		}
	}
	if !in {
		for _, r := range s.rects {
			if r.Contains(c) {
				in = true
				break
			}
		}
	}
	if !in {
		return false
	}
	// holes, and islands inside the first few holes
	for i, n := range s.neg {
		if n.Contains(c) {
			if i < 3 {
				isl := model2d.Circle{Center: n.Center, Radius: n.Radius * 0.45}
				if isl.Contains(c) {
					return true
				}
			}
			return false
		}
	}
	return true
}

func drawCSG(rng *rand.Rand) *csgSolid {
	s := &csgSolid{min: model2d.XY(-4, -4), max: model2d.XY(4, 4)}
	for i := 1 + rng.Intn(4); i > 0; i-- {
		s.pos = append(s.pos, &model2d.Circle{Center: model2d.XY(rng.Float64()*4-2, rng.Float64()*4-2), Radius: 0.5 + rng.Float64()*1.4})
	}
	for i := rng.Intn(3); i > 0; i-- {
		a := model2d.XY(rng.Float64()*5-3, rng.Float64()*5-3)
		s.rects = append(s.rects, model2d.NewRect(a, a.Add(model2d.XY(0.3+rng.Float64()*2, 0.3+rng.Float64()*2))))
	}
	for i := rng.Intn(5); i > 0; i-- {
		s.neg = append(s.neg, &model2d.Circle{Center: model2d.XY(rng.Float64()*4-2, rng.Float64()*4-2), Radius: 0.15 + rng.Float64()*0.6})
	}
	return s
}

// traceSegs follows start->end links; ok=false unless every vertex has
// exactly one outgoing and one incoming segment.
func traceSegs(segs [][2]P) (loops [][]P, ok bool) {
	next := map[P]P{}
	indeg := map[P]int{}
	for _, s := range segs {
		if _, dup := next[s[0]]; dup || s[0] == s[1] {
			return nil, false
		}
		next[s[0]] = s[1]
		indeg[s[1]]++
	}
	starts := make([]P, 0, len(next))
	for p := range next {
		if indeg[p] != 1 {
			return nil, false
		}
		starts = append(starts, p)
	}
	if len(indeg) != len(next) {
		return nil, false
	}
	sort.Slice(starts, func(i, j int) bool {
		if starts[i].X != starts[j].X {
			return starts[i].X < starts[j].X
		}
		return starts[i].Y < starts[j].Y
	})
	seen := map[P]bool{}
	for _, s := range starts {
		if seen[s] {
			continue
		}
		var loop []P
		for p := s; !seen[p]; p = next[p] {
			seen[p] = true
			loop = append(loop, p)
		}
		loops = append(loops, loop)
	}
	return loops, true
}

func msquaresCase(c *vlib.Case) {
	rng := c.Rng
	solid := drawCSG(rng)
	delta := 0.1 + 0.3*rng.Float64()
	var lib *model2d.Mesh
	if pi := guarded(func() { lib = model2d.MarchingSquaresSearch(solid, delta, 8) }); pi != nil {
		c.Undecided("marching squares panicked (not this property)")
		return
	}
	const k = 16
	var segs [][2]P
	for _, s := range vlib.Segs(lib) {
		var q [2]P
		for i, v := range s {
			q[i] = P{X: int64(math.Round(math.Ldexp(v.X, k))), Y: int64(math.Round(math.Ldexp(v.Y, k)))}
		}
		if q[0] == q[1] {
			continue // edge collapsed by the snapping
		}
		segs = append(segs, q)
	}
	loops, ok := traceSegs(segs)
	if !ok || len(loops) == 0 {
		c.Undecided("marching squares outline is not a set of closed loops after snapping")
		return
	}
	reg, why := c14ref.Certify(loops)
	if reg == nil {
		c.Undecided("snapped marching squares outline not certified: " + why)
		return
	}
	reg.OrientForMesh()
	pl := &placement{exact: true, scale: math.Ldexp(1, -k), cos: 1, desc: "scale 2^-16 (snapped marching squares)"}
	imgs, index, ok := images(reg, pl)
	if !ok {
		c.Undecided("placement not exact or images collide")
		return
	}
	api := "model2d.TriangulateMesh"
	w := mkWitness(api, "marching-squares", reg, pl, imgs)
	mesh := buildMesh(rng, imgs)
	var out [][3]C2
	pi := guarded(func() { out = model2d.TriangulateMesh(mesh) })
	c.Count("sweep.calls", 1)
	c.Count("sweep.family.marching-squares", 1)
	if pi != nil {
		w.Panic = pi
		c.Violation(api+"/panic("+pi.Site+")", "panic on a certified manifold, non-intersecting, correctly oriented mesh: "+pi.Msg, w)
		return
	}
	o := verdictOpts{api: api, counters: "sweep", wantCW: true, minimal: true}
	tris, ok := mapOut2D(c, o, index, out, w)
	if !ok {
		return
	}
	judge(c, o, reg, tris, w)
	c.Count("sweep.decided", 1)
	c.Count("sweep.vertices", int64(reg.NumVertices()))
	if reg.Holes() > 0 {
		c.Count("sweep.with_holes", 1)
	}
	for _, d := range reg.Depth {
		if d >= 2 {
			c.Count("sweep.with_islands", 1)
			break
		}
	}
	c.Max("sweep.max_vertices", float64(reg.NumVertices()))
	nontrivial(c, api, reg, pl, "sweep")
}

// ---------------------------------------------------------------------------
// MeshToHierarchy: the nesting tree the region triangulation is built on.

type hierNode struct {
	loop     int
	children []int
}

func canonLoopKey(im []C2) string {
	// smallest vertex first, orientation kept
	best := 0
	for i, v := range im {
		b := im[best]
		if v.X < b.X || (v.X == b.X && v.Y < b.Y) {
			best = i
		}
	}
	s := ""
	for i := range im {
		v := im[(best+i)%len(im)]
		s += fmt.Sprintf("%x,%x;", v.X, v.Y)
	}
	return s
}

func hierCase(c *vlib.Case) {
	rigid := c.Rng.Intn(3) == 0
	rc := drawRegion(c, c.Rng.Intn(3)/2, rigid, 1<<20, "hier")
	if rc == nil {
		return
	}
	api := "model2d.MeshToHierarchy"
	w := mkWitness(api, rc.fam, rc.reg, rc.pl, rc.imgs)
	mesh := buildMesh(c.Rng, rc.imgs)
	var roots []*model2d.MeshHierarchy
	pi := guarded(func() { roots = model2d.MeshToHierarchy(mesh) })
	c.Count("hier.calls", 1)
	if pi != nil {
		w.Panic = pi
		c.Violation(api+"/panic("+pi.Site+")", "panic on a certified manifold, non-intersecting mesh: "+pi.Msg, w)
		return
	}
	// exact parent relation: the containing loop of the greatest depth
	reg := rc.reg
	parent := make([]int, len(reg.Loops))
	for i, l := range reg.Loops {
		parent[i] = -1
		for j, o := range reg.Loops {
			if i != j && reg.Depth[j] == reg.Depth[i]-1 && c14ref.Locate(l[0], [][]P{o}) > 0 {
				parent[i] = j
			}
		}
	}
	keyToLoop := map[string]int{}
	for i, im := range rc.imgs {
		keyToLoop[canonLoopKey(im)] = i
	}
	seen := map[int]bool{}
	bad := ""
	var walk func(n *model2d.MeshHierarchy, par int)
	walk = func(n *model2d.MeshHierarchy, par int) {
		if bad != "" {
			return
		}
		// recover the loop from the node's segments
		segs := vlib.Segs(n.Mesh)
		next := map[C2]C2{}
		for _, s := range segs {
			next[normC2(s[0])] = s[1]
		}
		var im []C2
		if len(segs) > 0 {
			start := segs[0][0]
			for p, i := start, 0; i < len(segs); i++ {
				im = append(im, p)
				p = next[normC2(p)]
			}
		}
		li, ok := keyToLoop[canonLoopKey(im)]
		if !ok || len(im) != len(rc.imgs[li]) {
			bad = fmt.Sprintf("a node's mesh (%d segments) is not one of the input loops", len(segs))
			return
		}
		if seen[li] {
			bad = fmt.Sprintf("loop %d appears twice in the hierarchy", li)
			return
		}
		seen[li] = true
		if parent[li] != par {
			bad = fmt.Sprintf("loop %d (depth %d) is a child of loop %d, its innermost container is loop %d", li, reg.Depth[li], par, parent[li])
			return
		}
		for _, ch := range n.Children {
			walk(ch, li)
		}
	}
	for _, root := range roots {
		walk(root, -1)
	}
	if bad == "" && len(seen) != len(reg.Loops) {
		bad = fmt.Sprintf("hierarchy holds %d loops, input has %d", len(seen), len(reg.Loops))
	}
	if bad != "" {
		w.Detail = bad + fmt.Sprintf(" | depths=%v", reg.Depth)
		c.Violation(api+"/nesting", bad, w)
		return
	}
	c.Count("hier.decided", 1)
	if len(reg.Loops) > 1 {
		c.Count("hier.decided_nested", 1)
	}
	// even-odd containment at lattice points strictly off the outline (exact placements)
	if rc.pl.exact {
		flat := reg.Flat()
		// margin: 1e-7 * largest coordinate magnitude (pre-image units)
		mag := 0.0
		for _, im := range rc.imgs {
			for _, v := range im {
				mag = math.Max(mag, math.Max(math.Abs(v.X), math.Abs(v.Y))/rc.pl.scale)
			}
		}
		margin := 1e-7 * mag
		for k := 0; k < 24; k++ {
			a, b := flat[c.Rng.Intn(len(flat))], flat[c.Rng.Intn(len(flat))]
			p := P{X: (a.X + b.X) / 2, Y: (a.Y + b.Y) / 2}
			loc := c14ref.Locate(p, reg.Loops)
			if loc == 0 {
				continue
			}
			if distToLoops(p, reg.Loops) < margin {
				c.Undecided("containment query within 1e-7*size of the outline")
				continue
			}
			q := rc.pl.apply(p)
			got := false
			for _, root := range roots {
				if root.Contains(q) {
					got = true
				}
			}
			c.Count("hier.contains_queries", 1)
			if got != (loc > 0) {
				w.Detail = fmt.Sprintf("point pre-image (%d,%d): hierarchy says %v, even-odd rule says %v", p.X, p.Y, got, loc > 0)
				c.Violation("model2d.MeshHierarchy.Contains/even-odd", w.Detail, w)
				return
			}
		}
	}
}

func extraSections(r *vlib.Run) {
	r.Section("sweep.msquares", r.N(600, 8000), vlib.SectionOpts{}, msquaresCase)
	r.Section("hier", r.N(4000, 40000), vlib.SectionOpts{}, hierCase)
}

// distToLoops is the (floating point) distance from p to the nearest edge.
func distToLoops(p P, loops [][]P) float64 {
	best := math.Inf(1)
	px, py := float64(p.X), float64(p.Y)
	for _, l := range loops {
		for i, a := range l {
			b := l[(i+1)%len(l)]
			ax, ay, bx, by := float64(a.X), float64(a.Y), float64(b.X), float64(b.Y)
			dx, dy := bx-ax, by-ay
			t := ((px-ax)*dx + (py-ay)*dy) / (dx*dx + dy*dy)
			t = math.Max(0, math.Min(1, t))
			d := math.Hypot(px-(ax+t*dx), py-(ay+t*dy))
			if d < best {
				best = d
			}
		}
	}
	return best
}
