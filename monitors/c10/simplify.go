package main

import (
	"fmt"
	"math"
	"math/rand"
	"sync"
	"time"

	"github.com/unixpickle/model3d/model3d"
	"verif/vlib"
)

// halfspaceFilter is a pure vertex predicate plus a log of what it was asked.
type vertexFilter struct {
	n     C3
	d     float64
	mu    sync.Mutex
	asked map[C3]bool
}

func newVertexFilter(rng *rand.Rand, in *minfo) *vertexFilter {
	p := in.im.pts[rng.Intn(len(in.im.pts))]
	n := randUnit(rng)
	return &vertexFilter{n: n, d: n.Dot(p) + (rng.Float64()-0.5)*0.2*in.size, asked: map[C3]bool{}}
}

func (f *vertexFilter) pure(c C3) bool { return f.n.Dot(c) > f.d }
func (f *vertexFilter) call(c C3) bool {
	f.mu.Lock()
	f.asked[nz(c)] = true
	f.mu.Unlock()
	return f.pure(c)
}

// subsetAndFilter checks "no new vertices" and "filtered vertices retained".
func subsetAndFilter(c *vlib.Case, api string, in *minfo, out []vlib.Tri, f *vertexFilter, extra map[string]interface{}) (removed int) {
	outV := vertexSet(out)
	for p := range outV {
		if _, ok := in.im.vid[p]; !ok {
			c.Violationf(api+"/vertex-subset", in.witness(extra), "output vertex %s is not a vertex of the input", hex3(p))
			break
		}
	}
	c.Count("subset.checked."+api, 1)
	if f != nil {
		for p := range f.asked {
			if _, ok := in.im.vid[p]; !ok {
				c.Violationf(api+"/filter-argument", in.witness(extra), "filter was called with %s which is not a vertex of the input", hex3(p))
				break
			}
		}
		kept := 0
		for _, p := range in.im.pts {
			if !f.pure(p) {
				kept++
				if !outV[p] {
					c.Violationf(api+"/filter-honoured", in.witness(extra), "vertex %s for which the filter returns false was removed", hex3(p))
					break
				}
			}
		}
		c.Count("filter.protected_vertices."+api, int64(kept))
	}
	return len(in.im.pts) - len(outV)
}

func secDecimate(r *vlib.Run) {
	r.Section("decimate", r.N(780, 10400), vlib.SectionOpts{Watchdog: 400 * time.Second}, func(c *vlib.Case) {
		decimateCase(c, false)
	})
}

// SplitAttempts >= 2 switches the loop filler to exhaustive backtracking over
// all split lines at every recursion level; on the pinned tree one call can
// then run for longer than any limit (see FINDINGS.md). Those settings run in
// their own sequential section beside the others and under their own API name
// so that a confirmed non-return does not remove Decimate from the other
// sections.
func secDecimateSplitAttempts(r *vlib.Run) {
	r.Section("decimate-split-attempts", r.N(150, 2000), vlib.SectionOpts{Sequential: true, Watchdog: 400 * time.Second}, func(c *vlib.Case) {
		decimateCase(c, true)
	})
}

func decimateCase(c *vlib.Case, splitAttempts bool) {
	{
		rng := c.Rng
		maxFaces := 2500
		if splitAttempts {
			// backtracking over split lines is exponential in the loop depth even with the
			// documented cap; keep inputs small so that the wall-clock guard (a bounded-
			// progress restatement, not a performance requirement) stays far from its limit
			maxFaces = 600
		}
		in := genMesh(c, rng, -1, maxFaces)
		if in == nil {
			c.Undecided("no-certified-input")
			return
		}
		eps := in.size * math.Pow(10, -3.5+3*rng.Float64())
		var out []vlib.Tri
		var f *vertexFilter
		api := "model3d.Decimator.Decimate"
		extra := map[string]interface{}{}
		if splitAttempts {
			api = "model3d.Decimator.Decimate[SplitAttempts>=2]"
		}
		if !splitAttempts && rng.Intn(4) == 0 {
			api = "model3d.DecimateSimple"
			extra["epsilon"] = eps
			res, ok := guarded(c, api, func() map[string]interface{} { return in.witness(extra) }, func() interface{} { return model3d.DecimateSimple(in.mesh, eps) })
			if !ok {
				return
			}
			out = vlib.Tris(res.(*model3d.Mesh))
		} else {
			d := &model3d.Decimator{PlaneDistance: eps, BoundaryDistance: eps * math.Pow(10, rng.Float64()*2-1)}
			if rng.Intn(2) == 0 {
				d.FeatureAngle = 0.05 + rng.Float64()*1.5
			}
			d.NoEdgePreservation = rng.Intn(3) == 0
			d.EliminateCorners = rng.Intn(3) == 0
			if rng.Intn(2) == 0 {
				d.MinimumAspectRatio = math.Pow(10, -3*rng.Float64())
			}
			d.SplitAttempts = rng.Intn(2)
			if splitAttempts {
				d.SplitAttempts = []int{2, 3, 5}[rng.Intn(3)]
			}
			if rng.Intn(2) == 0 {
				f = newVertexFilter(rng, in)
				d.FilterFunc = f.call
			}
			extra["decimator"] = fmt.Sprintf("%+v", *d)
			if f != nil {
				extra["filter"] = fmt.Sprintf("n=%s d=%x", hex3(f.n), f.d)
			}
			res, ok := guarded(c, api, func() map[string]interface{} { return in.witness(extra) }, func() interface{} { return d.Decimate(in.mesh) })
			if !ok {
				return
			}
			out = vlib.Tris(res.(*model3d.Mesh))
		}
		c.Count("calls."+api, 1)
		inputUntouched(c, api, in, extra)
		checkTopo(c, api, in, out, topoOpts{expectV: -1}, extra)
		removed := subsetAndFilter(c, api, in, out, f, extra)
		c.Count("decimate.vertices_removed", int64(removed))
		if removed > 0 {
			c.Count("decimate.cases_with_removal", 1)
			c.Nontrivial(fmt.Sprintf("decimate|%s|%v", in.desc, extra))
		}
		if in.topo.Vertices <= 6 && removed == 0 {
			c.Count("decimate.tiny_refused", 1)
		}
	}
}

func angleBetween(a, b C3) float64 {
	return math.Atan2(a.Cross(b).Norm(), a.Dot(b))
}

// flatCertified: every edge is either coplanar to rounding (< lo) or a clear
// crease (> hi), and every vertex with exactly two crease edges has them
// either colinear to rounding or clearly bent. Then EliminateCoplanar with
// FeatureAngle between lo and hi can only remove vertices that do not carry
// shape. Returns, too, the number of vertices interior to flat regions or to
// straight creases (removable in principle).
func flatCertified(in *minfo, lo, hi float64) (bool, int) {
	im := in.im
	normals := make([]C3, len(im.faces))
	for i, f := range im.faces {
		n := im.pts[f[1]].Sub(im.pts[f[0]]).Cross(im.pts[f[2]].Sub(im.pts[f[0]]))
		l := n.Norm()
		if l == 0 {
			return false, 0
		}
		normals[i] = n.Scale(1 / l)
	}
	edgeFaces := map[uedge][]int{}
	for i, f := range im.faces {
		for k := 0; k < 3; k++ {
			e := mkEdge(f[k], f[(k+1)%3])
			edgeFaces[e] = append(edgeFaces[e], i)
		}
	}
	crease := make([][]int, len(im.pts))
	for e, fs := range edgeFaces {
		if len(fs) != 2 {
			return false, 0
		}
		a := angleBetween(normals[fs[0]], normals[fs[1]])
		if a > lo && a < hi {
			return false, 0
		}
		if a >= hi {
			crease[e[0]] = append(crease[e[0]], e[1])
			crease[e[1]] = append(crease[e[1]], e[0])
		}
	}
	removable := 0
	for v, cs := range crease {
		switch len(cs) {
		case 0:
			removable++
		case 2:
			a := angleBetween(im.pts[cs[0]].Sub(im.pts[v]), im.pts[v].Sub(im.pts[cs[1]]))
			if a > lo && a < hi {
				return false, 0
			}
			if a <= lo {
				removable++
			}
		}
	}
	return true, removable
}

func secCoplanar(r *vlib.Run) {
	r.Section("eliminate-coplanar", r.N(780, 10400), vlib.SectionOpts{Watchdog: 400 * time.Second}, func(c *vlib.Case) {
		rng := c.Rng
		kind := pick(rng, gGridBox, gVoxel, gSubdivided, gGenus, gGridBox, gVoxel, gSubdivided, gMC, gIco, gMulti, gTiny)
		in := genMesh(c, rng, kind, 2500)
		if in == nil {
			c.Undecided("no-certified-input")
			return
		}
		eps := []float64{1e-10, 1e-8, 1e-8, 1e-6}[rng.Intn(4)]
		flat, removable := false, 0
		if in.flat {
			flat, removable = flatCertified(in, 1e-11, 1e-2)
		}
		if !in.flat && rng.Intn(2) == 0 {
			eps = math.Pow(10, -4+3*rng.Float64()) // lossy use on curved meshes: only topology, subset, filter
		}
		api := "model3d.Mesh.EliminateCoplanar"
		var f *vertexFilter
		var out []vlib.Tri
		extra := map[string]interface{}{"epsilon": eps, "flat_certified": flat}
		if rng.Intn(2) == 0 {
			api = "model3d.Mesh.EliminateCoplanarFiltered"
			f = newVertexFilter(rng, in)
			extra["filter"] = fmt.Sprintf("n=%s d=%x", hex3(f.n), f.d)
		}
		res, gok := guarded(c, api, func() map[string]interface{} { return in.witness(extra) }, func() interface{} {
			if f != nil {
				return in.mesh.EliminateCoplanarFiltered(eps, f.call)
			}
			return in.mesh.EliminateCoplanar(eps)
		})
		if !gok {
			return
		}
		out = vlib.Tris(res.(*model3d.Mesh))
		c.Count("calls."+api, 1)
		inputUntouched(c, api, in, extra)
		_, ok := checkTopo(c, api, in, out, topoOpts{expectV: -1}, extra)
		removed := subsetAndFilter(c, api, in, out, f, extra)
		c.Count("coplanar.vertices_removed", int64(removed))
		if removed > 0 {
			c.Nontrivial(fmt.Sprintf("coplanar|%s|%g|%v", in.desc, eps, f != nil))
		}
		if flat {
			c.Count("coplanar.flat_certified_cases", 1)
			measureCheck(c, api, in, out, extra)
			// weak clause (counted, never a violation): how much of what could go went
			c.Count("coplanar.removable_in_principle", int64(removable))
			if f == nil && ok {
				c.Count("coplanar.removable_left", int64(removable-removed))
				if removable > 0 && removed == removable {
					c.Count("coplanar.fully_reduced_cases", 1)
				}
			}
		}
	})
}

func secEliminateEdges(r *vlib.Run) {
	const api = "model3d.Mesh.EliminateEdges"
	r.Section("eliminate-edges", r.N(660, 8800), vlib.SectionOpts{Watchdog: 400 * time.Second}, func(c *vlib.Case) {
		rng := c.Rng
		kind := -1
		if rng.Intn(3) == 0 {
			kind = pick(rng, gTorus, gTiny, gTiny) // short non-face cycles
		}
		in := genMesh(c, rng, kind, 900)
		if in == nil {
			c.Undecided("no-certified-input")
			return
		}
		mode := rng.Intn(4)
		el := edgeList(in.tris)
		pe := el[rng.Intn(len(el))]
		thr := pe[0].Dist(pe[1]) * (1 + 1e-9)
		limit := 1 + rng.Intn(in.topo.Vertices)
		approvedMids := map[C3]bool{}
		approved, asked, notEdge := 0, 0, 0
		var notEdgeSeg model3d.Segment
		var fmu sync.Mutex
		f := func(tmp *model3d.Mesh, s model3d.Segment) bool {
			fmu.Lock()
			defer fmu.Unlock()
			asked++
			if asked%7 == 1 && tmp.NumTriangles() <= 400 {
				// the segment handed over must be an edge of the mesh handed over
				n := 0
				for _, t := range tmp.TriangleSlice() {
					has0, has1 := false, false
					for _, p := range t {
						if p == s[0] {
							has0 = true
						}
						if p == s[1] {
							has1 = true
						}
					}
					if has0 && has1 {
						n++
					}
				}
				if n == 0 {
					notEdge++
					notEdgeSeg = s
				}
			}
			var yes bool
			switch mode {
			case 0:
				yes = false
			case 1:
				yes = true
			case 2:
				yes = s[0].Dist(s[1]) <= thr
			default:
				h := math.Sin(s[0].X*91.7+s[0].Y*13.1+s[0].Z*7.3+s[1].X*29.9+s[1].Y*3.7+s[1].Z*57.1) * 1000
				yes = h-math.Floor(h) < 0.4
			}
			if yes && approved >= limit && mode != 1 {
				yes = false
			}
			if yes {
				approved++
				approvedMids[nz(s[0].Add(s[1]).Scale(0.5))] = true
				approvedMids[nz(s[0].Mid(s[1]))] = true
			}
			return yes
		}
		extra := map[string]interface{}{"mode": mode, "threshold": thr, "limit": limit}
		res, gok := guarded(c, api, func() map[string]interface{} { return in.witness(extra) }, func() interface{} { return in.mesh.EliminateEdges(f) })
		if !gok {
			return
		}
		out := vlib.Tris(res.(*model3d.Mesh))
		c.Count("calls."+api, 1)
		c.Count("eliminate_edges.approved", int64(approved))
		c.Count("eliminate_edges.asked", int64(asked))
		inputUntouched(c, api, in, extra)
		if notEdge > 0 {
			c.Violationf(api+"/callback-segment", in.witness(extra), "callback received segment %s-%s which is not an edge of the mesh passed with it (%d such calls)", hex3(notEdgeSeg[0]), hex3(notEdgeSeg[1]), notEdge)
		}
		t, _ := checkTopo(c, api, in, out, topoOpts{expectV: -1}, extra)
		if t == nil {
			return
		}
		if approved > 0 {
			c.Nontrivial(fmt.Sprintf("elimedges|%s|%d|%d", in.desc, mode, approved))
		}
		if approved == 0 {
			if ok, why := vlib.EqualCanonTris(vlib.CanonTris(out), in.tris); !ok {
				c.Violation(api+"/only-approved", "no segment was approved but the mesh changed: "+why, in.witness(extra))
			}
			if mode == 0 {
				eligibilityInvariance(c, in, extra)
			}
			return
		}
		outV := vertexSet(out)
		for p := range outV {
			if _, old := in.im.vid[p]; !old && !approvedMids[p] {
				c.Violationf(api+"/only-approved", in.witness(extra), "output vertex %s is neither an input vertex nor the midpoint of an approved segment", hex3(p))
				break
			}
		}
		if t.Vertices < in.topo.Vertices-approved {
			c.Violationf(api+"/only-approved", in.witness(extra), "%d vertices disappeared but only %d collapses were approved", in.topo.Vertices-t.Vertices, approved)
		}
	})
}

// FlipDelaunay on tiny and sliver meshes can cycle for ever on the pinned tree
// (see FINDINGS.md); those inputs run in their own sequential section beside
// the others so that a confirmed non-termination neither stalls the run nor
// removes the API from the remaining, well-shaped cases.
func secFlipDelaunay(r *vlib.Run) {
	r.Section("flip-delaunay", r.N(600, 8000), vlib.SectionOpts{Watchdog: 400 * time.Second}, func(c *vlib.Case) {
		flipCase(c, pick(c.Rng, gIco, gTorus, gGridBox, gVoxel, gMC, gSubdivided, gGenus))
	})
}

func secFlipDelaunayDegenerate(r *vlib.Run) {
	r.Section("flip-delaunay-degenerate", r.N(120, 1600), vlib.SectionOpts{Sequential: true, Watchdog: 400 * time.Second}, func(c *vlib.Case) {
		// even indices: flattened tetrahedra / bipyramids / prisms, where almost
		// every flip would have to be refused
		if c.Index%2 == 0 {
			flipCase(c, gFlatTiny)
		} else {
			flipCase(c, pick(c.Rng, gTiny, gSliver, gMulti))
		}
	})
}

func flipCase(c *vlib.Case, kind int) {
	const api = "model3d.Mesh.FlipDelaunay"
	{
		rng := c.Rng
		in := genMesh(c, rng, kind, 1500)
		if in == nil {
			c.Undecided("no-certified-input")
			return
		}
		extra := map[string]interface{}{}
		res, gok := guarded(c, api, func() map[string]interface{} { return in.witness(extra) }, func() interface{} { return in.mesh.FlipDelaunay() })
		if !gok {
			return
		}
		out := vlib.Tris(res.(*model3d.Mesh))
		c.Count("calls."+api, 1)
		c.Nontrivial("flip|" + in.desc)
		// the receiver is not consumed: its faces (the objects the caller still holds) are as before
		inputUntouched(c, api, in, extra)
		t, ok := checkTopo(c, api, in, out, topoOpts{expectV: -1}, extra)
		if len(out) != len(in.tris) {
			c.Violationf(api+"/face-count", in.witness(extra), "%d faces, input had %d", len(out), len(in.tris))
		}
		outV := vertexSet(out)
		same := len(outV) == len(in.im.vid)
		for p := range outV {
			if _, old := in.im.vid[p]; !old {
				same = false
			}
		}
		if !same {
			c.Violationf(api+"/vertex-set", in.witness(extra), "vertex set changed (%d -> %d distinct vertices)", len(in.im.vid), len(outV))
		}
		if t == nil || !ok {
			return
		}
		if eq, _ := vlib.EqualCanonTris(vlib.CanonTris(out), in.tris); !eq {
			c.Count("flip.cases_with_flips", 1)
		}
		// post-condition: no edge whose two opposite angles sum to clearly more than pi
		om := indexTris(out)
		worst := 0.0
		var worstEdge uedge
		oppEdges := om.edgeOpposites()
		blocked := 0
		for e, opp := range oppEdges {
			if len(opp) != 2 {
				continue
			}
			sum := 0.0
			for _, o := range opp {
				sum += angleBetween(om.pts[e[0]].Sub(om.pts[o]), om.pts[e[1]].Sub(om.pts[o]))
			}
			if _, adjacent := oppEdges[mkEdge(opp[0], opp[1])]; adjacent {
				// flipping would duplicate an existing edge: such an edge
				// cannot be made Delaunay by a flip and is not judged
				blocked++
				continue
			}
			if sum-math.Pi > worst {
				worst, worstEdge = sum-math.Pi, e
			}
		}
		c.Count("flip.delaunay_checked", 1)
		c.Count("flip.unflippable_edges_not_judged", int64(blocked))
		c.Max("worst_delaunay_excess."+api, worst)
		if worst > 1e-6 {
			c.Violationf(api+"/delaunay", in.witness(extra), "edge %s-%s of the result has opposite angles summing to pi+%.3g", hex3(om.pts[worstEdge[0]]), hex3(om.pts[worstEdge[1]]), worst)
		}
	}
}

// eligibilityInvariance: a mesh is a set of faces and a face a cyclic triple.
// With a callback that approves nothing EliminateEdges makes one pass and
// offers exactly the segments it considers collapsible; that set must not
// depend on which vertex of each face happens to be stored first.
func eligibilityInvariance(c *vlib.Case, in *minfo, extra map[string]interface{}) {
	const api = "model3d.Mesh.EliminateEdges"
	if !foldOverWellConditioned(in) {
		// the fold-over test compares normals of would-be faces; where such a
		// face is (nearly) degenerate or the normals (nearly) orthogonal its
		// sign is rounding noise and may legitimately differ
		c.Undecided("eligibility-invariance:ill-conditioned-fold-over-test")
		return
	}
	var sets [3]map[segKey]bool
	for rot := 0; rot < 3; rot++ {
		m := model3d.NewMesh()
		for _, t := range in.tris {
			m.Add(&model3d.Triangle{t[rot], t[(rot+1)%3], t[(rot+2)%3]})
		}
		set := map[segKey]bool{}
		var mu sync.Mutex
		_, ok := guarded(c, api, func() map[string]interface{} { return in.witness(extra) }, func() interface{} {
			return m.EliminateEdges(func(_ *model3d.Mesh, s model3d.Segment) bool {
				mu.Lock()
				set[mkSegKey(s[0], s[1])] = true
				mu.Unlock()
				return false
			})
		})
		if !ok {
			return
		}
		sets[rot] = set
	}
	c.Count("eliminate_edges.eligibility_invariance_checked", 1)
	c.Count("eliminate_edges.offered_segments", int64(len(sets[0])))
	for _, e := range edgeList(in.tris) {
		if sets[0][e] != sets[1][e] || sets[0][e] != sets[2][e] {
			w := in.witness(extra)
			w["offered_per_rotation"] = []int{len(sets[0]), len(sets[1]), len(sets[2])}
			w["edges"] = in.topo.Edges
			c.Violationf(api+"/eligibility-independent-of-face-vertex-order", w,
				"segment %s-%s is offered to the callback for some rotations of the stored face vertices and not for others (offered %d / %d / %d of %d edges for rotations 0/1/2 of the same faces)",
				hex3(e[0]), hex3(e[1]), len(sets[0]), len(sets[1]), len(sets[2]), in.topo.Edges)
			return
		}
	}
}

// foldOverWellConditioned: for every edge (s0,s1) and every face (p1,p2,s0)
// around s0 that does not contain s1, the would-be face (p1,p2,s1) is far from
// degenerate and its normal far from orthogonal to the face's.
func foldOverWellConditioned(in *minfo) bool {
	im := in.im
	nb := im.neighbors()
	unit := func(a, b, c C3) (C3, float64) {
		n := b.Sub(a).Cross(c.Sub(a))
		l := math.Max(a.Dist(b), math.Max(b.Dist(c), c.Dist(a)))
		ln := n.Norm()
		if ln == 0 || l == 0 {
			return C3{}, 0
		}
		return n.Scale(1 / ln), ln / (l * l)
	}
	for _, f := range im.faces {
		for k := 0; k < 3; k++ {
			s0, p1, p2 := f[k], f[(k+1)%3], f[(k+2)%3]
			n0, q0 := unit(im.pts[p1], im.pts[p2], im.pts[s0])
			if q0 < 1e-6 {
				return false
			}
			for _, s1 := range nb[s0] {
				if s1 == p1 || s1 == p2 {
					continue
				}
				n1, q1 := unit(im.pts[p1], im.pts[p2], im.pts[s1])
				if q1 < 1e-6 || math.Abs(n0.Dot(n1)) < 1e-6 {
					return false
				}
			}
		}
	}
	return true
}
