package main

// ARAP.SeqDeformer: a history of constraint sets on one deformer (same keys moved, a strict
// superset, a subset, a disjoint set). After every call the positional constraints of THAT call
// must be met exactly and the connectivity preserved, whatever the deformer cached before.

import (
	"fmt"

	"github.com/unixpickle/model3d/model3d"
	"verif/vlib"
)

func secARAPSeq(r *vlib.Run) {
	const api = "model3d.ARAP.SeqDeformer"
	r.Section("arap.seq", r.N(120, 2000), vlib.SectionOpts{Watchdog: 0}, func(c *vlib.Case) {
		rng := c.Rng
		n := 1 + rng.Intn(2)
		cen := model3d.XYZ(rng.Float64()-0.5, rng.Float64()-0.5, rng.Float64()-0.5)
		rad := 0.5 + rng.Float64()
		in, _ := certify(model3d.NewMeshIcosphere(cen, rad, n), fmt.Sprintf("icosphere(%v,%g,%d)", cen, rad, n), false)
		if in == nil {
			c.Undecided("no-certified-input")
			return
		}
		a := model3d.NewARAP(in.mesh)
		a.SetMaxIterations(30)
		cold := rng.Intn(2) == 0
		deform := a.SeqDeformer(cold)
		// incident face count per input vertex
		inc := map[C3]int{}
		for _, t := range in.tris {
			for _, p := range t {
				inc[nz(p)]++
			}
		}
		nv := len(in.im.pts)
		cur := map[int]bool{}
		for len(cur) < 2+rng.Intn(3) {
			cur[rng.Intn(nv)] = true
		}
		var hist []string
		steps := 3 + rng.Intn(4)
		for s := 0; s < steps; s++ {
			kind := "initial"
			if s > 0 {
				switch rng.Intn(5) {
				case 0:
					kind = "same-keys-moved"
				case 1, 2:
					kind = "strict-superset"
					for k := 1 + rng.Intn(2); k > 0 && len(cur) < nv/2; {
						if i := rng.Intn(nv); !cur[i] {
							cur[i] = true
							k--
						}
					}
				case 3:
					kind = "subset"
					for i := range cur {
						if len(cur) > 1 {
							delete(cur, i)
							break
						}
					}
				default:
					kind = "disjoint"
					next := map[int]bool{}
					for len(next) < 2 {
						if i := rng.Intn(nv); !cur[i] {
							next[i] = true
						}
					}
					cur = next
				}
			}
			cons := model3d.ARAPConstraints{}
			targets := map[C3]C3{}
			dup := false
			for i := range cur {
				p := in.im.pts[i]
				t := p.Add(model3d.XYZ(rng.NormFloat64(), rng.NormFloat64(), rng.NormFloat64()).Scale(0.15 * in.size))
				cons[p] = t
				if _, seen := targets[nz(t)]; seen {
					dup = true
				}
				targets[nz(t)] = p
			}
			hist = append(hist, fmt.Sprintf("%s(%d handles)", kind, len(cons)))
			extra := map[string]interface{}{"cold_start": cold, "history": hist, "step": s}
			out := deform(cons)
			ot := vlib.Tris(out)
			c.Count("calls."+api, 1)
			c.Count("arapseq.steps."+kind, 1)
			if !finiteTris(ot) {
				c.Violation(api+"/finite", "non-finite output for an icosphere", in.witness(extra))
				return
			}
			if _, ok := checkTopo(c, api, in, ot, topoOpts{moved: true, expectV: in.topo.Vertices}, extra); !ok {
				return
			}
			if dup {
				continue
			}
			got := map[C3]int{}
			for _, t := range ot {
				for _, p := range t {
					got[nz(p)]++
				}
			}
			for t, p := range targets {
				if got[t] != inc[nz(p)] {
					c.Violationf(api+"/constraints-exact", in.witness(extra), "after %s: target %s of constrained vertex %s has %d incident faces in the output, the vertex had %d", kind, hex3(t), hex3(p), got[t], inc[nz(p)])
					return
				}
			}
			c.Count("arapseq.constraints_checked", int64(len(cons)))
		}
		c.Nontrivial(fmt.Sprint("arapseq", in.desc, hist))
	})
}
