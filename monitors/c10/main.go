// C10 — Mesh processing keeps closed oriented manifolds closed, oriented,
// manifold. Invariant walker + per-operation reference rules over certified
// inputs (DESIGN.md C10).
package main

import (
	"time"

	"verif/vlib"
)

var sectionWall = map[string]float64{}

func timed(name string, f func()) {
	t := time.Now()
	f()
	sectionWall[name] = time.Since(t).Seconds()
}

func main() {
	r := vlib.Start("C10", "exploration")
	r.ScaleQuick(3) // quick tier: 3x the case counts written at the sections (still well under a minute)
	r.Rule("seeded input meshes (icospheres, tori with 3..8-gon sections, own grid boxes / voxel shapes / punched plates with exactly planar faces, MarchingCubes of own CSG solids, tetrahedra/bipyramids/prisms/octahedra, two-component and nested-shell meshes, anisotropically flattened slivers, SubdivideEdges of coarse polyhedra; 2D: integer polygons with exactly colinear runs, star polygons, pixel-region outlines, holes, bare triangles) are certified closed/oriented/manifold by the harness's raw-face walker before use; each operation (and each step of random chains of 2-5 operations) is judged by the same walker (closed, manifold, oriented, Euler characteristic, components) and by the rule its documentation publishes, recomputed independently; a case is non-trivial if the operation changed the mesh (distinct by input descriptor + parameters)")
	r.Assume("vertices are identified by bit-identical coordinates (+0 == -0), as the library's meshes do")
	r.Assume("an operation that moves vertices may map two vertices to identical coordinates without defect: outputs with fewer distinct vertices than the vertex bijection implies are undecided, not violations")
	r.Assume("area/volume preservation of EliminateCoplanar is judged only on inputs whose adjacent faces are, by the harness's own measurement, coplanar to 1e-11 rad or creased by more than 1e-2 rad; of 2D EliminateColinear only on integer coordinates where colinearity and the shoelace area are exact")
	r.Assume("ARAP: rigid-motion reproduction is judged for translations (1e-6*size) on any weighting and for rotations up to 60 degrees (1e-3*size, 2000 iterations, retried with 20000) on cotangent weights of near-equilateral icospheres only; other weightings are counted; a non-finite result is judged only for single-component meshes without needle corners")
	r.Assume("termination is restated as bounded progress: iterative operations run on their own goroutine; a call that has not returned after 20 s is repeated alone with 60 s, and only if that does not return either the clause \"terminates\" is violated for the API, which is then not called again in the run (guard.go); everything else is under the per-case watchdog of the framework")
	r.Assume("Mesh.Iterate order is arbitrary: all comparisons are order-insensitive, floating-point rules are compared with a tolerance of 1e-11..1e-8 of the coordinate scale and declined when two expected positions are closer than four tolerances")

	// the 2D colinear section runs beside the others: a call that does not
	// return costs its bounded-progress limits (guard.go) only once
	colinearDone := make(chan struct{})
	go func() {
		defer close(colinearDone)
		sec2DColinear(r)
		sec2DColinearCurved(r)
	}()
	splitDone := make(chan struct{})
	go func() {
		defer close(splitDone)
		secDecimateSplitAttempts(r)
	}()

	// well-shaped FlipDelaunay inputs first; only then the degenerate ones, whose
	// confirmed non-return removes the API from the rest of the run
	timed("secFlipDelaunay", func() { secFlipDelaunay(r) })
	flipDone := make(chan struct{})
	go func() {
		defer close(flipDone)
		secFlipDelaunayDegenerate(r)
	}()
	timed("secSubdivideEdges", func() { secSubdivideEdges(r) })
	timed("secLoop", func() { secLoop(r) })
	timed("secSubdivider", func() { secSubdivider(r) })
	timed("secDecimate", func() { secDecimate(r) })
	timed("secLarge", func() { secLarge(r) })
	timed("secCoplanar", func() { secCoplanar(r) })
	timed("secEliminateEdges", func() { secEliminateEdges(r) })
	timed("secBlur", func() { secBlur(r) })
	timed("secSmoothers", func() { secSmoothers(r) })
	timed("secFlattenBase", func() { secFlattenBase(r) })
	timed("secSmoothSliver", func() { secSmoothSliver(r) })
	timed("secARAP", func() { secARAP(r) })
	timed("secARAPSeq", func() { secARAPSeq(r) })
	timed("sec2D", func() { sec2D(r) })
	timed("secChains", func() { secChains(r) })
	<-colinearDone
	<-flipDone
	<-splitDone
	timed("secChains2D", func() { secChains2D(r) })

	r.Note("section_wall_s", sectionWall)

	// clauses claimed -> counters that must have been observed
	r.Require("topo.checked.model3d.SubdivideEdges", 50)
	r.Require("measure.checked.model3d.SubdivideEdges", 50)
	r.Require("loop.masks_matched", 30)
	r.Require("subdivider.flagged_edges", 100)
	r.Require("topo.checked.model3d.Decimator.Decimate", 50)
	r.Require("decimate.cases_with_removal", 20)
	r.Require("filter.protected_vertices.model3d.Decimator.Decimate", 50)
	r.Require("coplanar.flat_certified_cases", 30)
	r.Require("coplanar.vertices_removed", 100)
	r.Require("eliminate_edges.approved", 100)
	r.Require("flip.delaunay_checked", 30)
	r.Require("blur.rate0_cases", 10)
	r.Require("blur.rate1_cases", 10)
	r.Require("blur.rule_matched", 30)
	r.Require("smooth.rule_matched", 20)
	r.Require("flatten.cases_with_movement", 10)
	r.Require("arap.constraints_checked", 200)
	r.Require("arap.rigid_translation_cases", 5)
	r.Require("arap.rigid_rotation_cases", 3)
	r.Require("colinear2d.cases_with_adjacent_removable_vertices", 20)
	r.Require("decimate2d.limit_checked", 50)
	r.Require("subdivide2d.masks_matched", 50)
	r.Require("blur2d.rule_matched", 30)
	r.Require("chain.completed_2plus", 30)
	r.Require("chain2d.steps_held", 50)
	r.Finish()
}
