package main

// Section "large": the processing operations on closed manifolds of
// 18000-33000 faces (sizes at which a size-gated fast path, a parallel pass or
// a capacity assumption of an implementation would switch on). Same topology
// oracle as the other sections.

import (
	"fmt"
	"math"
	"time"

	"github.com/unixpickle/model3d/model3d"
	"verif/vlib"
)

func secLarge(r *vlib.Run) {
	r.Section("large", r.N(5, 40), vlib.SectionOpts{NoScale: true, Watchdog: 600 * time.Second}, func(c *vlib.Case) {
		rng := c.Rng
		n := 30 + rng.Intn(11)
		ctr := model3d.XYZ(rng.Float64()-0.5, rng.Float64()-0.5, rng.Float64()-0.5)
		m := model3d.NewMeshIcosphere(ctr, 0.5+rng.Float64(), n)
		desc := fmt.Sprintf("icosphere(%v,n=%d)", ctr, n)
		if rng.Intn(2) == 0 {
			sc := model3d.XYZ(0.4+0.6*rng.Float64(), 0.4+0.6*rng.Float64(), 0.4+0.6*rng.Float64())
			m = affine(m, sc, randUnit(rng), rng.Float64()*6, C3{})
			desc += fmt.Sprintf(".affine(%v)", sc)
		}
		in, ok := certify(m, desc, false)
		if !ok {
			c.Undecided("no-certified-input")
			return
		}
		c.Max("large.max_faces", float64(len(in.tris)))
		op := c.Index % 5
		extra := map[string]interface{}{"faces": len(in.tris)}
		run := func(api string, f func() *model3d.Mesh, o topoOpts) {
			res, ok := guarded(c, api, func() map[string]interface{} { return in.witness(extra) }, func() interface{} { return f() })
			if !ok {
				return
			}
			out := vlib.Tris(res.(*model3d.Mesh))
			c.Count("calls."+api+"(large)", 1)
			inputUntouched(c, api, in, extra)
			checkTopo(c, api, in, out, o, extra)
			c.Nontrivial(fmt.Sprintf("large|%s|%d|%d", api, n, len(out)))
		}
		switch op {
		case 0:
			eps := in.size * math.Pow(10, -3.5+1.5*rng.Float64())
			d := &model3d.Decimator{PlaneDistance: eps, BoundaryDistance: eps}
			extra["decimator"] = fmt.Sprintf("%+v", *d)
			run("model3d.Decimator.Decimate", func() *model3d.Mesh { return d.Decimate(in.mesh) }, topoOpts{expectV: -1})
		case 1:
			eps := in.size * math.Pow(10, -3.5+1.5*rng.Float64())
			extra["epsilon"] = eps
			run("model3d.DecimateSimple", func() *model3d.Mesh { return model3d.DecimateSimple(in.mesh, eps) }, topoOpts{expectV: -1})
		case 2:
			rate := 0.1 + 0.8*rng.Float64()
			extra["rate"] = rate
			run("model3d.Mesh.Blur", func() *model3d.Mesh { return in.mesh.Blur(rate) }, topoOpts{moved: true, expectV: in.topo.Vertices})
		case 3:
			run("model3d.Mesh.FlipDelaunay", func() *model3d.Mesh { return in.mesh.FlipDelaunay() }, topoOpts{moved: true, expectV: in.topo.Vertices})
		default:
			run("model3d.Mesh.SmoothAreas", func() *model3d.Mesh { return in.mesh.SmoothAreas(0.05, 2) }, topoOpts{moved: true, expectV: in.topo.Vertices})
		}
	})
}
