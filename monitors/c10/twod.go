package main

import (
	"fmt"
	"math"
	"math/rand"
	"sort"
	"strings"
	"time"

	"github.com/unixpickle/model3d/model2d"
	"verif/vlib"
)

// pinfo is a certified closed oriented 2D mesh (one or more loops).
type pinfo struct {
	mesh  *model2d.Mesh
	segs  []vlib.Seg
	topo  *vlib.Topo2
	desc  string
	exact bool // integer coordinates: colinearity is exact
	next  map[C2]C2
	prev  map[C2]C2
	verts []C2 // deterministic order
	size  float64
	maxA  float64
}

func loopMesh(loops [][]C2) *model2d.Mesh {
	m := model2d.NewMesh()
	for _, l := range loops {
		for i := range l {
			m.Add(&model2d.Segment{l[i], l[(i+1)%len(l)]})
		}
	}
	return m
}

func certify2(m *model2d.Mesh, desc string, exact bool) (*pinfo, bool) {
	if m.NumSegments() == 0 {
		return nil, false
	}
	segs := vlib.CanonSegs(vlib.Segs(m))
	for _, s := range segs {
		for _, p := range s {
			if math.IsNaN(p.X+p.Y) || math.IsInf(p.X+p.Y, 0) {
				return nil, false
			}
		}
	}
	t := vlib.AnalyzeSegs(segs)
	if !t.ClosedOrientedManifold() {
		return nil, false
	}
	inf := &pinfo{mesh: m, segs: segs, topo: t, desc: desc, exact: exact, next: map[C2]C2{}, prev: map[C2]C2{}}
	mn, mx := segs[0][0], segs[0][0]
	for _, s := range segs {
		a, b := nz2(s[0]), nz2(s[1])
		inf.next[a] = b
		inf.prev[b] = a
		inf.verts = append(inf.verts, a)
		mn, mx = mn.Min(a), mx.Max(a)
		inf.maxA = math.Max(inf.maxA, math.Max(math.Abs(a.X), math.Abs(a.Y)))
	}
	inf.size = mx.Dist(mn)
	return inf, true
}

func (in *pinfo) witness(extra map[string]interface{}) map[string]interface{} {
	w := map[string]interface{}{"mesh": in.desc, "segments": in.topo.Segments, "components": in.topo.Components}
	if len(in.segs) <= 80 {
		var ss []string
		for _, s := range in.segs {
			ss = append(ss, hex2(s[0])+"->"+hex2(s[1]))
		}
		w["segments_hex"] = ss
	}
	for k, v := range extra {
		w[k] = v
	}
	return w
}

func gcd(a, b int) int {
	if a < 0 {
		a = -a
	}
	if b < 0 {
		b = -b
	}
	for b != 0 {
		a, b = b, a%b
	}
	return a
}

// latticePolygon: integer star-shaped polygon scaled by m, every edge split at
// (a random subset of) its interior lattice points: exactly colinear runs.
func latticePolygon(rng *rand.Rand, off [2]int) ([]C2, string) {
	n := 3 + rng.Intn(8)
	type ip struct{ x, y int }
	seen := map[ip]bool{}
	var pts []ip
	for len(pts) < n {
		p := ip{rng.Intn(21) - 10, rng.Intn(21) - 10}
		if (p.x == 0 && p.y == 0) || seen[p] {
			continue
		}
		// one point per direction from the origin keeps the polygon star shaped
		g := gcd(p.x, p.y)
		d := ip{p.x / g, p.y / g}
		if seen[ip{d.x * 1000, d.y * 1000}] {
			continue
		}
		seen[ip{d.x * 1000, d.y * 1000}] = true
		seen[p] = true
		pts = append(pts, p)
	}
	sort.Slice(pts, func(i, j int) bool {
		return math.Atan2(float64(pts[i].y), float64(pts[i].x)) < math.Atan2(float64(pts[j].y), float64(pts[j].x))
	})
	m := 1 + rng.Intn(10)
	keep := []float64{1, 1, 0.5, 0.2}[rng.Intn(4)]
	var res []C2
	for i, p := range pts {
		q := pts[(i+1)%len(pts)]
		ax, ay, bx, by := p.x*m, p.y*m, q.x*m, q.y*m
		g := gcd(bx-ax, by-ay)
		res = append(res, model2d.XY(float64(ax+off[0]), float64(ay+off[1])))
		for k := 1; k < g; k++ {
			if rng.Float64() < keep {
				res = append(res, model2d.XY(float64(ax+(bx-ax)/g*k+off[0]), float64(ay+(by-ay)/g*k+off[1])))
			}
		}
	}
	if rng.Intn(2) == 0 { // clockwise orientation is just as valid
		for i, j := 0, len(res)-1; i < j; i, j = i+1, j-1 {
			res[i], res[j] = res[j], res[i]
		}
	}
	return res, fmt.Sprintf("lattice(n=%d,m=%d,keep=%g)", n, m, keep)
}

func starPolygon(rng *rand.Rand, cx, cy float64) ([]C2, string) {
	n := 3 + rng.Intn(40)
	angles := make([]float64, n)
	for i := range angles {
		angles[i] = rng.Float64() * 2 * math.Pi
	}
	sort.Float64s(angles)
	var res []C2
	for i, a := range angles {
		if i > 0 && a-angles[i-1] < 1e-6 {
			continue
		}
		r := 0.3 + rng.Float64()
		res = append(res, model2d.XY(cx+r*math.Cos(a), cy+r*math.Sin(a)))
	}
	if len(res) < 3 {
		res = []C2{model2d.XY(cx, cy), model2d.XY(cx+1, cy), model2d.XY(cx, cy+1)}
	}
	return res, fmt.Sprintf("star(n=%d)", len(res))
}

// pixelRegion: boundary of a union of unit squares (rectilinear, long
// colinear runs of unit segments, holes possible).
func pixelRegion(rng *rand.Rand) *model2d.Mesh {
	w, h := 2+rng.Intn(7), 2+rng.Intn(7)
	fill := map[[2]int]bool{}
	p := 0.5 + 0.45*rng.Float64()
	for i := 0; i < w; i++ {
		for j := 0; j < h; j++ {
			if rng.Float64() < p {
				fill[[2]int{i, j}] = true
			}
		}
	}
	m := model2d.NewMesh()
	P := func(i, j int) C2 { return model2d.XY(float64(i), float64(j)) }
	for c := range fill {
		i, j := c[0], c[1]
		if !fill[[2]int{i, j - 1}] {
			m.Add(&model2d.Segment{P(i, j), P(i+1, j)})
		}
		if !fill[[2]int{i + 1, j}] {
			m.Add(&model2d.Segment{P(i+1, j), P(i+1, j+1)})
		}
		if !fill[[2]int{i, j + 1}] {
			m.Add(&model2d.Segment{P(i+1, j+1), P(i, j+1)})
		}
		if !fill[[2]int{i - 1, j}] {
			m.Add(&model2d.Segment{P(i, j+1), P(i, j)})
		}
	}
	return m
}

func genPoly(c *vlib.Case, rng *rand.Rand, wantExact bool) *pinfo {
	for try := 0; try < 10; try++ {
		var m *model2d.Mesh
		var desc string
		exact := false
		k := rng.Intn(6)
		if wantExact && (k == 1 || k == 4) {
			k = 0
		}
		switch k {
		case 0:
			l, d := latticePolygon(rng, [2]int{0, 0})
			m, desc, exact = loopMesh([][]C2{l}), d, true
		case 1:
			l, d := starPolygon(rng, rng.Float64(), rng.Float64())
			m, desc = loopMesh([][]C2{l}), d
		case 2:
			m, desc, exact = pixelRegion(rng), "pixels", true
		case 3: // two components far apart (one may be a bare triangle)
			l1, d1 := latticePolygon(rng, [2]int{0, 0})
			l2, d2 := latticePolygon(rng, [2]int{500, 7})
			if rng.Intn(3) == 0 {
				l2, d2 = []C2{model2d.XY(500, 0), model2d.XY(503, 1), model2d.XY(501, 4)}, "triangle"
			}
			m, desc, exact = loopMesh([][]C2{l1, l2}), "two("+d1+";"+d2+")", true
		case 4: // nested loops with opposite orientation (a hole)
			outer, _ := starPolygon(rng, 0, 0)
			inner := []C2{model2d.XY(0.1, 0.1), model2d.XY(0, 0.12), model2d.XY(-0.1, -0.05), model2d.XY(0.05, -0.1)}
			m, desc = loopMesh([][]C2{outer, inner}), "star-with-hole"
		default: // tiny
			if rng.Intn(2) == 0 {
				m, desc, exact = loopMesh([][]C2{{model2d.XY(0, 0), model2d.XY(4, 1), model2d.XY(1, 3)}}), "triangle", true
			} else {
				m, desc, exact = loopMesh([][]C2{{model2d.XY(0, 0), model2d.XY(2, 0), model2d.XY(4, 0), model2d.XY(4, 3), model2d.XY(0, 3)}}), "quad-with-split-edge", true
			}
		}
		inf, ok := certify2(m, desc, exact)
		if !ok {
			c.Count("gen2.rejected", 1)
			continue
		}
		if wantExact && !exact {
			continue
		}
		c.Count("gen2.certified", 1)
		if inf.topo.Components > 1 {
			c.Count("gen2.multi-component", 1)
		}
		return inf
	}
	return nil
}

func checkTopo2(c *vlib.Case, api string, in *pinfo, out []vlib.Seg, moved bool, expectV int, extra map[string]interface{}) (*vlib.Topo2, bool) {
	c.Count("topo.checked."+api, 1)
	if len(in.segs) <= 12 {
		c.Sample(api, 1, in.witness(extra))
	}
	for _, s := range out {
		for _, p := range s {
			if math.IsNaN(p.X+p.Y) || math.IsInf(p.X+p.Y, 0) {
				if it, ok := extra["iters"].(int); ok && it > 1 && strings.HasPrefix(api, "model2d.Mesh.Smooth") {
					// Smooth/SmoothSq take the exactly optimal step along the
					// gradient: a triangle is at its fixed point (all vertices
					// on the centroid) after one step, and the next step is
					// 0/0. Repeating a step on a collapsed loop is not judged.
					c.Undecided("smooth2d:non-finite-after-collapse")
					return nil, false
				}
				c.Violation(api+"/finite", "output has a non-finite coordinate for a finite input", in.witness(extra))
				return nil, false
			}
		}
	}
	t := vlib.AnalyzeSegs(out)
	if moved && expectV >= 0 && t.Vertices < expectV {
		c.Undecided("coincident-images:" + api)
		return t, false
	}
	if !t.ClosedOrientedManifold() {
		w := in.witness(extra)
		w["problems"] = t.Problems
		c.Violationf(api+"/closed-oriented-manifold", w, "output is not a set of closed consistently oriented loops: segments=%d degenerate=%d bad-vertices=%d duplicate=%d; first: %s", t.Segments, t.Degenerate, t.BadVertices, t.Duplicate, first(t.Problems))
		return t, false
	}
	if t.Components != in.topo.Components {
		c.Violationf(api+"/components", in.witness(extra), "number of loops changed from %d to %d", in.topo.Components, t.Components)
		return t, false
	}
	c.Count("topo.held."+api, 1)
	return t, true
}

func vertexSet2(segs []vlib.Seg) map[C2]bool {
	res := map[C2]bool{}
	for _, s := range segs {
		res[nz2(s[0])] = true
		res[nz2(s[1])] = true
	}
	return res
}

// matchSegs: tolerance comparison of oriented segments against expected
// positions + index segments.
func matchSegs(pts []C2, segs [][2]int, out []vlib.Seg, tol float64) matchResult {
	// direct implementation (simple O(n log n) via sort on x)
	order := make([]int, len(pts))
	for i := range order {
		order[i] = i
	}
	sort.Slice(order, func(a, b int) bool { return pts[order[a]].X < pts[order[b]].X })
	xs := make([]float64, len(order))
	for i, j := range order {
		xs[i] = pts[j].X
	}
	for i := range order {
		for j := i + 1; j < len(order) && xs[j]-xs[i] <= 4*tol; j++ {
			if pts[order[i]].Dist(pts[order[j]]) <= 4*tol {
				return matchResult{undecided: true, msg: "two expected positions coincide within tolerance"}
			}
		}
	}
	find := func(p C2) (int, float64) {
		lo := sort.SearchFloat64s(xs, p.X-tol)
		best, bd := -1, math.Inf(1)
		for k := lo; k < len(xs) && xs[k] <= p.X+tol; k++ {
			if d := pts[order[k]].Dist(p); d < bd {
				best, bd = order[k], d
			}
		}
		return best, bd
	}
	if len(out) != len(segs) {
		return matchResult{msg: fmt.Sprintf("segment count %d, expected %d", len(out), len(segs))}
	}
	want := map[[2]int]int{}
	for _, s := range segs {
		want[s]++
	}
	worst := 0.0
	for _, s := range out {
		var e [2]int
		for k, p := range s {
			i, d := find(p)
			if i < 0 || d > tol {
				return matchResult{msg: fmt.Sprintf("output vertex %v is not within %.3g of any expected position", p, tol)}
			}
			worst = math.Max(worst, d)
			e[k] = i
		}
		if want[e] == 0 {
			return matchResult{msg: fmt.Sprintf("output segment %v->%v is not an expected segment or occurs too often", s[0], s[1])}
		}
		want[e]--
	}
	return matchResult{ok: true, worst: worst}
}

func (in *pinfo) indexed() ([]C2, [][2]int, map[C2]int) {
	id := map[C2]int{}
	for i, v := range in.verts {
		id[v] = i
	}
	segs := make([][2]int, len(in.segs))
	for i, s := range in.segs {
		segs[i] = [2]int{id[nz2(s[0])], id[nz2(s[1])]}
	}
	return in.verts, segs, id
}

func cross2(a, b C2) float64 { return a.X*b.Y - a.Y*b.X }

// sec2DColinear is sequential: if the call does not return, only one
// abandoned goroutine pair is left behind (see guard.go).
func sec2DColinear(r *vlib.Run) {
	r.Section("2d-eliminate-colinear", r.N(1200, 16000), vlib.SectionOpts{Sequential: true, Watchdog: 400 * time.Second}, func(c *vlib.Case) {
		const api = "model2d.Mesh.EliminateColinear"
		rng := c.Rng
		in := genPoly(c, rng, true)
		if in == nil {
			c.Undecided("no-certified-input")
			return
		}
		eps := 1e-8
		extra := map[string]interface{}{"epsilon": eps}
		// integer coordinates below 200 with primitive directions below 29:
		// distinct directions differ by > 1e-3 rad, so with 1e-8 exactly the
		// exactly-colinear, same-direction vertices are eligible.
		removable, longest, run := 0, 0, 0
		for _, v := range in.verts {
			a, b := in.prev[v], in.next[v]
			d1, d2 := v.Sub(a), b.Sub(v)
			if cross2(d1, d2) == 0 && d1.Dot(d2) > 0 {
				removable++
			}
		}
		// longest run of adjacent removable vertices
		for _, start := range in.verts {
			run = 0
			for v := start; run <= len(in.verts); v = in.next[v] {
				a, b := in.prev[v], in.next[v]
				d1, d2 := v.Sub(a), b.Sub(v)
				if !(cross2(d1, d2) == 0 && d1.Dot(d2) > 0) {
					break
				}
				run++
			}
			if run > longest {
				longest = run
			}
		}
		c.Count("colinear2d.removable_vertices", int64(removable))
		if longest >= 2 {
			c.Count("colinear2d.cases_with_adjacent_removable_vertices", 1)
		}
		extra["removable_vertices"] = removable
		extra["longest_run_of_adjacent_removable_vertices"] = longest
		res, gok := guarded(c, api, func() map[string]interface{} { return in.witness(extra) }, func() interface{} { return in.mesh.EliminateColinear(eps) })
		if !gok {
			return
		}
		out := vlib.Segs(res.(*model2d.Mesh))
		c.Count("calls."+api, 1)
		if removable > 0 {
			c.Nontrivial(fmt.Sprintf("colinear|%s|%d|%d", in.desc, removable, longest))
		}
		if ok, _ := vlib.EqualCanonSegs(vlib.CanonSegs(vlib.Segs(in.mesh)), in.segs); !ok {
			c.Violation(api+"/input-mutated", "the input mesh was modified", in.witness(extra))
		}
		t, ok := checkTopo2(c, api, in, out, false, -1, extra)
		outV := vertexSet2(out)
		for p := range outV {
			if _, old := in.next[p]; !old {
				c.Violationf(api+"/vertex-subset", in.witness(extra), "output vertex %s is not an input vertex", hex2(p))
				break
			}
		}
		if t == nil || !ok {
			return
		}
		a0, a1 := vlib.SignedArea2(in.segs), vlib.SignedArea2(out)
		if a0 != a1 { // integer arithmetic: exact
			c.Violationf(api+"/area", in.witness(extra), "enclosed signed area changed from %g to %g although only exactly colinear vertices may go", a0, a1)
		}
		c.Count("colinear2d.area_checked", 1)
		// corners (not removable) must survive
		for _, v := range in.verts {
			a, b := in.prev[v], in.next[v]
			d1, d2 := v.Sub(a), b.Sub(v)
			if !(cross2(d1, d2) == 0 && d1.Dot(d2) > 0) && !outV[v] {
				c.Violationf(api+"/corner-kept", in.witness(extra), "corner vertex %s (turning vertex of the outline) was removed", hex2(v))
				break
			}
		}
		left := len(outV) - (len(in.verts) - removable)
		c.Count("colinear2d.removable_left", int64(left))
		if left == 0 {
			c.Count("colinear2d.fully_reduced_cases", 1)
		}
	})
}

func sec2D(r *vlib.Run) {
	r.Section("2d-decimate", r.N(1200, 16000), vlib.SectionOpts{}, func(c *vlib.Case) {
		const api = "model2d.Mesh.Decimate"
		rng := c.Rng
		in := genPoly(c, rng, false)
		if in == nil {
			c.Undecided("no-certified-input")
			return
		}
		nv := len(in.verts)
		max := rng.Intn(nv + 3)
		extra := map[string]interface{}{"max_vertices": max}
		out := vlib.Segs(in.mesh.Decimate(max))
		c.Count("calls."+api, 1)
		c.Nontrivial(fmt.Sprintf("decimate2|%s|%d", in.desc, max))
		if ok, _ := vlib.EqualCanonSegs(vlib.CanonSegs(vlib.Segs(in.mesh)), in.segs); !ok {
			c.Violation(api+"/input-mutated", "the input mesh was modified", in.witness(extra))
		}
		t, ok := checkTopo2(c, api, in, out, false, -1, extra)
		outV := vertexSet2(out)
		for p := range outV {
			if _, old := in.next[p]; !old {
				c.Violationf(api+"/vertex-subset", in.witness(extra), "output vertex %s is not an input vertex", hex2(p))
				break
			}
		}
		if t == nil || !ok {
			return
		}
		if max >= nv {
			if eq, why := vlib.EqualCanonSegs(vlib.CanonSegs(out), in.segs); !eq {
				c.Violation(api+"/no-op-when-small-enough", "mesh already had <= maxVertices vertices but changed: "+why, in.witness(extra))
			}
			return
		}
		// triangles cannot lose a vertex without ceasing to be a loop: the
		// documented hard limit can only be met by loops that still have > 3
		// vertices; each loop reduced to a triangle may keep 3 extra.
		triLoops := 0
		sizes := map[int]int{}
		for i := range out {
			sizes[t.CompOfSeg[i]]++
		}
		for _, n := range sizes {
			if n == 3 {
				triLoops++
			}
		}
		c.Count("decimate2d.limit_checked", 1)
		if len(outV) > max+3*triLoops {
			c.Violationf(api+"/max-vertices", in.witness(extra), "%d vertices remain, maxVertices=%d is documented as a hard limit for manifold meshes (%d loops are bare triangles)", len(outV), max, triLoops)
		}
		if triLoops == 0 && len(outV) != max {
			c.Violationf(api+"/max-vertices", in.witness(extra), "%d vertices remain with maxVertices=%d although no loop is down to a triangle", len(outV), max)
		}
		c.Count("decimate2d.vertices_removed", int64(nv-len(outV)))
	})

	r.Section("2d-subdivide", r.N(900, 12000), vlib.SectionOpts{}, func(c *vlib.Case) {
		const api = "model2d.Mesh.Subdivide"
		rng := c.Rng
		in := genPoly(c, rng, false)
		if in == nil {
			c.Undecided("no-certified-input")
			return
		}
		iters := 1 + rng.Intn(3)
		extra := map[string]interface{}{"iters": iters}
		out := vlib.Segs(in.mesh.Subdivide(iters))
		c.Count("calls."+api, 1)
		c.Nontrivial(fmt.Sprintf("subdivide2|%s|%d", in.desc, iters))
		// Chaikin reference on the index form
		pts, segs, _ := in.indexed()
		for it := 0; it < iters; it++ {
			nxt := map[int]int{}
			for _, s := range segs {
				nxt[s[0]] = s[1]
			}
			var np []C2
			var ns [][2]int
			first := map[int]int{} // segment start vertex -> index of its 1/4 point
			for _, s := range segs {
				a, b := pts[s[0]], pts[s[1]]
				first[s[0]] = len(np)
				np = append(np, a.Scale(0.75).Add(b.Scale(0.25)), b.Scale(0.75).Add(a.Scale(0.25)))
			}
			for _, s := range segs {
				q := first[s[0]]
				ns = append(ns, [2]int{q, q + 1}, [2]int{q + 1, first[s[1]]})
			}
			pts, segs = np, ns
			if it+1 < iters && closePair2(pts, 4e-12*(in.maxA+in.size)) {
				// two corner points of an intermediate level coincide (the outline
				// crosses itself there): the next level is built on a vertex with
				// four segments, which the documented precondition (manifold) excludes
				c.Undecided("chaikin:intermediate level has coincident points")
				return
			}
		}
		n := len(in.segs)
		for i := 0; i < iters; i++ {
			n *= 2
		}
		if len(out) != n {
			c.Violationf(api+"/segment-count", in.witness(extra), "%d segments, expected 2^iters*N = %d", len(out), n)
		}
		checkTopo2(c, api, in, out, true, len(pts), extra)
		res := matchSegs(pts, segs, out, 1e-12*(in.maxA+in.size))
		switch {
		case res.undecided:
			c.Undecided("chaikin:" + res.msg)
		case !res.ok:
			c.Violation(api+"/corner-cutting-masks", "result differs from Chaikin corner cutting (1/4-3/4 points of every segment, joined in order) recomputed independently: "+res.msg, in.witness(extra))
		default:
			c.Count("subdivide2d.masks_matched", 1)
		}
		// the variant for meshes that may contain open paths does the same on a closed outline
		const apiP = "model2d.Mesh.SubdividePath"
		outP := vlib.Segs(in.mesh.SubdividePath(iters))
		c.Count("calls."+apiP, 1)
		if len(outP) != n {
			c.Violationf(apiP+"/segment-count", in.witness(extra), "%d segments, expected 2^iters*N = %d", len(outP), n)
		}
		checkTopo2(c, apiP, in, outP, true, len(pts), extra)
		resP := matchSegs(pts, segs, outP, 1e-12*(in.maxA+in.size))
		switch {
		case resP.undecided:
			c.Undecided("chaikin:" + resP.msg)
		case !resP.ok:
			c.Violation(apiP+"/corner-cutting-masks", "on a closed outline the result differs from Chaikin corner cutting recomputed independently: "+resP.msg, in.witness(extra))
		default:
			c.Count("subdivide2d.path_variant_masks_matched", 1)
		}
	})

	r.Section("2d-blur-smooth", r.N(1200, 16000), vlib.SectionOpts{}, func(c *vlib.Case) {
		rng := c.Rng
		in := genPoly(c, rng, false)
		if in == nil {
			c.Undecided("no-certified-input")
			return
		}
		pts, segs, id := in.indexed()
		switch rng.Intn(4) {
		case 0, 1:
			const api = "model2d.Mesh.Blur"
			rate := []float64{0, 1, rng.Float64(), 0.5}[rng.Intn(4)]
			extra := map[string]interface{}{"rate": rate}
			out := vlib.Segs(in.mesh.Blur(rate))
			c.Count("calls."+api, 1)
			c.Nontrivial(fmt.Sprintf("blur2|%s|%g", in.desc, rate))
			if rate == 0 {
				c.Count("blur2d.rate0_cases", 1)
				if ok, why := vlib.EqualCanonSegs(vlib.CanonSegs(out), in.segs); !ok {
					c.Violation(api+"/rate-0-identity", "rate 0 is documented as 'vertices remain where they are' but: "+why, in.witness(extra))
				}
				return
			}
			checkTopo2(c, api, in, out, true, len(pts), extra)
			want := make([]C2, len(pts))
			for i, p := range pts {
				mean := in.prev[p].Add(in.next[p]).Scale(0.5)
				want[i] = p.Scale(1 - rate).Add(mean.Scale(rate))
			}
			_ = id
			clause := "/rule"
			if rate == 1 {
				clause = "/rate-1-neighbour-mean"
				c.Count("blur2d.rate1_cases", 1)
			}
			res := matchSegs(want, segs, out, 1e-12*(in.maxA+in.size))
			switch {
			case res.undecided:
				c.Undecided("blur2d:" + res.msg)
			case !res.ok:
				c.Violation(api+clause, "result differs from (1-rate)*v + rate*mean(two neighbours): "+res.msg, in.witness(extra))
			default:
				c.Count("blur2d.rule_matched", 1)
			}
		default:
			sq := rng.Intn(2) == 0
			api := "model2d.Mesh.Smooth"
			if sq {
				api = "model2d.Mesh.SmoothSq"
			}
			iters := []int{0, 1, 1, 2, 3}[rng.Intn(5)]
			extra := map[string]interface{}{"iters": iters}
			var out []vlib.Seg
			if sq {
				out = vlib.Segs(in.mesh.SmoothSq(iters))
			} else {
				out = vlib.Segs(in.mesh.Smooth(iters))
			}
			c.Count("calls."+api, 1)
			c.Nontrivial(fmt.Sprintf("smooth2|%s|%d|%v", in.desc, iters, sq))
			if iters == 0 {
				if ok, why := vlib.EqualCanonSegs(vlib.CanonSegs(out), in.segs); !ok {
					c.Violation(api+"/zero-iterations-identity", "zero iterations changed the mesh: "+why, in.witness(extra))
				}
				return
			}
			if _, ok := checkTopo2(c, api, in, out, true, len(pts), extra); !ok {
				return
			}
			// one step moves every vertex along the descent direction of the
			// documented objective (sum of lengths / of squared lengths) by one
			// common non-negative step; for SmoothSq the step is the exact minimiser
			if iters == 1 {
				g := make([]C2, len(pts))
				for _, s := range segs {
					d := pts[s[1]].Sub(pts[s[0]])
					if !sq {
						if d.Norm() == 0 {
							g = nil
							break
						}
						d = d.Scale(1 / d.Norm())
					}
					g[s[0]] = g[s[0]].Add(d)
					g[s[1]] = g[s[1]].Sub(d)
				}
				if g != nil {
					step := math.NaN()
					if sq {
						var pa, pb float64
						for _, s := range segs {
							gd := g[s[0]].Sub(g[s[1]])
							pd := pts[s[0]].Sub(pts[s[1]])
							pa += gd.Dot(gd)
							pb += 2 * pd.Dot(gd)
						}
						step = -pb / (2 * pa)
					} else if in.topo.Components == 1 && len(pts) <= 300 {
						// the vertex correspondence is not published: walk both
						// loops and try every cyclic offset; for the right one
						// out[i+r] - p[i] = s*g[i] with one s >= 0
						id := map[C2]int{}
						for i, p := range pts {
							id[p] = i
						}
						var cyc []int
						for v, k := in.verts[0], 0; k < len(pts); v, k = in.next[v], k+1 {
							cyc = append(cyc, id[v])
						}
						onext := map[C2]C2{}
						for _, s := range out {
							onext[nz2(s[0])] = nz2(s[1])
						}
						var ocyc []C2
						for v, k := nz2(out[0][0]), 0; k < len(out); v, k = onext[v], k+1 {
							ocyc = append(ocyc, v)
						}
						var gg float64
						for _, x := range g {
							gg += x.Dot(x)
						}
						best, bestS := math.Inf(1), 0.0
						if gg > 0 && len(ocyc) == len(cyc) {
							for r := 0; r < len(cyc); r++ {
								var num float64
								for i, vi := range cyc {
									num += ocyc[(i+r)%len(cyc)].Sub(pts[vi]).Dot(g[vi])
								}
								s := num / gg
								worst := 0.0
								for i, vi := range cyc {
									if d := ocyc[(i+r)%len(cyc)].Dist(pts[vi].Add(g[vi].Scale(s))); d > worst {
										worst = d
									}
								}
								if worst < best {
									best, bestS = worst, s
								}
							}
							tol := 1e-9 * (in.maxA + in.size)
							c.Count("smooth2d.direction_checked", 1)
							if best > tol*(1+math.Abs(bestS)) || bestS < -1e-9 {
								c.Violationf(api+"/descent-direction", in.witness(extra), "one Smooth step is not v + s*g for any cyclic vertex correspondence, with g the descent direction of the total length (sum of unit segment directions) and one common s >= 0: best residual %.3g with s=%.6g", best, bestS)
							} else {
								c.Max("smooth2d.step_chosen_max", bestS)
								if bestS > 1e-12 {
									c.Count("smooth2d.positive_step_cases", 1)
								}
							}
						}
					}
					if sq && !math.IsNaN(step) && !math.IsInf(step, 0) {
						want := make([]C2, len(pts))
						for i, p := range pts {
							want[i] = p.Add(g[i].Scale(step))
						}
						res := matchSegs(want, segs, out, 1e-9*(in.maxA+in.size))
						switch {
						case res.undecided:
							c.Undecided("smoothsq-rule:" + res.msg)
						case !res.ok:
							c.Violation(api+"/exact-line-search-step", "one SmoothSq step differs from v + s*g with g the descent direction of the sum of squared lengths and s its exact minimiser: "+res.msg, in.witness(extra))
						default:
							c.Count("smooth2d.sq_rule_matched", 1)
						}
					}
				}
			}
			// the documented objective must not grow
			obj := func(ss []vlib.Seg) float64 {
				s := 0.0
				for _, x := range ss {
					d := x[0].Dist(x[1])
					if sq {
						d *= d
					}
					s += d
				}
				return s
			}
			before, after := obj(in.segs), obj(out)
			if !sq {
				// golden-section search has finite resolution and never compares
				// with step 0: growth of the length is counted, not judged
				if after > before {
					c.Count("smooth2d.length_grew(counted only)", 1)
				}
				return
			}
			c.Count("smooth2d.objective_checked", 1)
			if after > before*(1+1e-9) {
				c.Violationf(api+"/objective-not-increased", in.witness(extra), "the minimised quantity (sum of %s segment lengths) grew from %.17g to %.17g", map[bool]string{true: "squared", false: ""}[sq], before, after)
			}
		}
	})
}

// closePair2 reports whether two of the points are within tol of each other.
func closePair2(pts []C2, tol float64) bool {
	order := make([]int, len(pts))
	for i := range order {
		order[i] = i
	}
	sort.Slice(order, func(a, b int) bool { return pts[order[a]].X < pts[order[b]].X })
	for i := range order {
		for j := i + 1; j < len(order) && pts[order[j]].X-pts[order[i]].X <= tol; j++ {
			if pts[order[i]].Dist(pts[order[j]]) <= tol {
				return true
			}
		}
	}
	return false
}
