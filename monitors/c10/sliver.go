package main

// Smoothing a closed oriented manifold that contains an exactly zero-area face: an edge split at
// its exact midpoint on one side only, the T-junction closed by the colinear sliver (a, b, m). Such
// meshes come out of remeshing and format conversions; the area gradient of the sliver has no
// direction, and the result must stay finite, closed and manifold.

import (
	"fmt"

	"github.com/unixpickle/model3d/model3d"
	"verif/vlib"
)

func secSmoothSliver(r *vlib.Run) {
	r.Section("smooth.sliver", r.N(150, 2500), vlib.SectionOpts{}, func(c *vlib.Case) {
		rng := c.Rng
		// integer-coordinate boxes (subdivided or not): midpoints are exact
		k := 1 + rng.Intn(3)
		base := model3d.NewMeshRect(model3d.XYZ(0, 0, 0), model3d.XYZ(float64(2*(1+rng.Intn(3))), float64(2*(1+rng.Intn(3))), float64(2*(1+rng.Intn(3)))))
		if k > 1 {
			base = model3d.SubdivideEdges(base, 2)
		}
		tris := vlib.CanonTris(vlib.Tris(base))
		nsl := 1 + rng.Intn(3)
		used := map[int]bool{}
		for s := 0; s < nsl; s++ {
			ti := rng.Intn(len(tris))
			if used[ti] {
				continue
			}
			used[ti] = true
			t := tris[ti]
			e := rng.Intn(3)
			a, b, cc := t[e], t[(e+1)%3], t[(e+2)%3]
			m := a.Mid(b)
			if m.Sub(a) != b.Sub(m) {
				continue // not exactly the midpoint
			}
			tris[ti] = vlib.Tri{a, m, cc}
			tris = append(tris, vlib.Tri{m, b, cc}, vlib.Tri{a, b, m})
		}
		mesh := model3d.NewMesh()
		for _, t := range tris {
			mesh.Add(&model3d.Triangle{t[0], t[1], t[2]})
		}
		topo := vlib.AnalyzeTris(vlib.Tris(mesh))
		if !topo.ClosedOrientedManifold() {
			c.Undecided("sliver-input-not-certified")
			return
		}
		step := []float64{0.01, 0.05, 0.1}[rng.Intn(3)]
		iters := 1 + rng.Intn(4)
		var out *model3d.Mesh
		api := ""
		switch rng.Intn(3) {
		case 0:
			api = "model3d.Mesh.SmoothAreas"
			out = mesh.SmoothAreas(step, iters)
		case 1:
			api = "model3d.MeshSmoother"
			out = (&model3d.MeshSmoother{StepSize: step, Iterations: iters, ConstraintWeight: float64(rng.Intn(2))}).Smooth(mesh)
		default:
			api = "model3d.VoxelSmoother"
			out = (&model3d.VoxelSmoother{StepSize: step, Iterations: iters, MaxDistance: 0.3}).Smooth(mesh)
		}
		c.Count("sliver.calls."+api, 1)
		ot := vlib.Tris(out)
		wit := map[string]interface{}{"faces": len(tris), "slivers": len(used), "step": step, "iters": iters}
		if !finiteTris(ot) {
			c.Violation(api+"/finite", "non-finite coordinates after smoothing a closed manifold that contains an exactly zero-area face", wit)
			return
		}
		if len(ot) != len(tris) {
			c.Violation(api+"/face-count", fmt.Sprintf("%d faces, input had %d", len(ot), len(tris)), wit)
			return
		}
		t2 := vlib.AnalyzeTris(ot)
		if t2.Vertices == topo.Vertices && !t2.ClosedOrientedManifold() {
			// (if two vertices were moved onto the same coordinates the coordinate-keyed topology is not judged)
			c.Violation(api+"/closed-oriented-manifold", fmt.Sprint(t2.Problems), wit)
			return
		}
		c.Nontrivial(fmt.Sprint("sliver", c.Index, api))
	})
}
