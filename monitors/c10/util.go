package main

import (
	"fmt"
	"math"
	"sort"

	"github.com/unixpickle/model3d/model2d"
	"github.com/unixpickle/model3d/model3d"
	"verif/vlib"
)

type C3 = model3d.Coord3D
type C2 = model2d.Coord

// minfo is a certified input mesh: raw faces, own topology, own index form.
type minfo struct {
	mesh *model3d.Mesh
	tris []vlib.Tri
	topo *vlib.Topo3
	im   *imesh
	desc string
	// flat: every pair of adjacent faces is, by construction, either coplanar
	// (up to rounding of a rigid motion) or meets at a clearly visible angle.
	flat bool
	size float64 // diagonal of the bounding box
	maxA float64 // largest absolute coordinate
}

// imesh is the harness's own indexed form of a raw face list.
type imesh struct {
	pts   []C3
	faces [][3]int
	vid   map[C3]int
}

func nz(c C3) C3 {
	if c.X == 0 {
		c.X = 0
	}
	if c.Y == 0 {
		c.Y = 0
	}
	if c.Z == 0 {
		c.Z = 0
	}
	return c
}

func nz2(c C2) C2 {
	if c.X == 0 {
		c.X = 0
	}
	if c.Y == 0 {
		c.Y = 0
	}
	return c
}

func indexTris(tris []vlib.Tri) *imesh {
	im := &imesh{vid: map[C3]int{}}
	id := func(c C3) int {
		c = nz(c)
		if i, ok := im.vid[c]; ok {
			return i
		}
		i := len(im.pts)
		im.vid[c] = i
		im.pts = append(im.pts, c)
		return i
	}
	im.faces = make([][3]int, len(tris))
	for i, t := range tris {
		im.faces[i] = [3]int{id(t[0]), id(t[1]), id(t[2])}
	}
	return im
}

// neighbors returns, per vertex, the sorted list of distinct adjacent vertices.
func (im *imesh) neighbors() [][]int {
	sets := make([]map[int]bool, len(im.pts))
	for i := range sets {
		sets[i] = map[int]bool{}
	}
	for _, f := range im.faces {
		for a := 0; a < 3; a++ {
			for b := 0; b < 3; b++ {
				if f[a] != f[b] {
					sets[f[a]][f[b]] = true
				}
			}
		}
	}
	res := make([][]int, len(im.pts))
	for i, s := range sets {
		for j := range s {
			res[i] = append(res[i], j)
		}
		sort.Ints(res[i])
	}
	return res
}

type uedge [2]int

func mkEdge(a, b int) uedge {
	if a > b {
		a, b = b, a
	}
	return uedge{a, b}
}

// edgeOpposites maps each undirected edge to the vertices opposite to it.
func (im *imesh) edgeOpposites() map[uedge][]int {
	res := map[uedge][]int{}
	for _, f := range im.faces {
		for k := 0; k < 3; k++ {
			e := mkEdge(f[k], f[(k+1)%3])
			res[e] = append(res[e], f[(k+2)%3])
		}
	}
	return res
}

func finiteTris(tris []vlib.Tri) bool {
	for _, t := range tris {
		for _, p := range t {
			if !vlib.Finite3(p) {
				return false
			}
		}
	}
	return true
}

// certify runs the harness's own checker on a candidate input mesh.
func certify(m *model3d.Mesh, desc string, flat bool) (*minfo, bool) {
	if m == nil || m.NumTriangles() == 0 {
		return nil, false
	}
	tris := vlib.CanonTris(vlib.Tris(m)) // canonical order: replays do not depend on map order
	if !finiteTris(tris) {
		return nil, false
	}
	topo := vlib.AnalyzeTris(tris)
	if !topo.ClosedOrientedManifold() {
		return nil, false
	}
	// faces must have a numerically meaningful plane: the operations orient
	// their output by face normals, which do not exist for a face whose three
	// vertices are colinear. Near-degenerate faces (quality down to 1e-10) are
	// kept: they are part of the property's quantifier.
	if faceQuality(tris) < 1e-10 {
		return nil, false
	}
	inf := &minfo{mesh: m, tris: tris, topo: topo, desc: desc, flat: flat}
	inf.im = indexTris(tris)
	mn, mx := tris[0][0], tris[0][0]
	for _, t := range tris {
		for _, p := range t {
			mn, mx = mn.Min(p), mx.Max(p)
			for _, v := range [3]float64{p.X, p.Y, p.Z} {
				if a := math.Abs(v); a > inf.maxA {
					inf.maxA = a
				}
			}
		}
	}
	inf.size = mx.Dist(mn)
	return inf, true
}

func hex3(c C3) string { return fmt.Sprintf("(%x,%x,%x)", c.X, c.Y, c.Z) }
func hex2(c C2) string { return fmt.Sprintf("(%x,%x)", c.X, c.Y) }

// witness describes the case; small inputs are listed literally in hex.
func (in *minfo) witness(extra map[string]interface{}) map[string]interface{} {
	w := map[string]interface{}{"mesh": in.desc, "faces": in.topo.Faces, "vertices": in.topo.Vertices,
		"euler": in.topo.Euler, "components": in.topo.Components}
	if len(in.tris) <= 64 {
		var ts []string
		for _, t := range in.tris {
			ts = append(ts, hex3(t[0])+" "+hex3(t[1])+" "+hex3(t[2]))
		}
		w["triangles_hex"] = ts
	}
	for k, v := range extra {
		w[k] = v
	}
	return w
}

type topoOpts struct {
	// moved: the operation moves vertices, so two distinct vertices may
	// legitimately land on identical coordinates; such outputs are undecided.
	moved bool
	// expectV is the number of distinct vertices a correct result has when no
	// two images coincide (-1: unknown).
	expectV int
}

// checkTopo judges an output face list against the certified input: closed,
// manifold, consistently oriented, same Euler characteristic, same number of
// components. It returns the output topology and whether it was decided+held.
func checkTopo(c *vlib.Case, api string, in *minfo, out []vlib.Tri, o topoOpts, extra map[string]interface{}) (*vlib.Topo3, bool) {
	c.Count("topo.checked."+api, 1)
	if len(in.tris) <= 24 {
		c.Sample(api, 1, in.witness(extra))
	}
	if !finiteTris(out) {
		c.Violation(api+"/finite", "output has a non-finite coordinate for a finite input", in.witness(extra))
		return nil, false
	}
	t := vlib.AnalyzeTris(out)
	if o.moved && o.expectV >= 0 && t.Vertices < o.expectV {
		c.Undecided("coincident-images:" + api)
		return t, false
	}
	ok := true
	if !t.ClosedOrientedManifold() {
		w := in.witness(extra)
		w["problems"] = t.Problems
		w["out_faces"] = t.Faces
		c.Violationf(api+"/closed-oriented-manifold", w,
			"output is not a closed consistently oriented manifold: faces=%d degenerate=%d bad-directed-edges=%d (boundary=%d nonmanifold=%d inconsistent=%d) singular-vertices=%d duplicate-faces=%d; first: %v",
			t.Faces, t.Degenerate, t.BadDirected, t.BoundaryEdges, t.NonManifoldEdges, t.InconsistentEdges, t.SingularVertices, t.DuplicateFaces, first(t.Problems))
		return t, false
	}
	if t.Euler != in.topo.Euler {
		c.Violationf(api+"/euler", in.witness(extra), "Euler characteristic changed from %d to %d (V=%d E=%d F=%d)", in.topo.Euler, t.Euler, t.Vertices, t.Edges, t.Faces)
		ok = false
	}
	if t.Components != in.topo.Components {
		c.Violationf(api+"/components", in.witness(extra), "number of components changed from %d to %d", in.topo.Components, t.Components)
		ok = false
	}
	if ok {
		c.Count("topo.held."+api, 1)
	}
	return t, ok
}

func first(s []string) string {
	if len(s) == 0 {
		return ""
	}
	return s[0]
}

// ---------------------------------------------------------------------------
// tolerance matcher: output faces against expected positions + index faces

type matchResult struct {
	ok        bool
	undecided bool
	msg       string
	worst     float64
}

// matchFaces decides whether the raw output faces are, up to tol, exactly the
// expected indexed faces at the expected positions (orientation kept, order
// free). Undecided when two expected positions are closer than 4*tol.
func matchFaces(pts []C3, faces [][3]int, out []vlib.Tri, tol float64) matchResult {
	order := make([]int, len(pts))
	for i := range order {
		order[i] = i
	}
	sort.Slice(order, func(a, b int) bool { return pts[order[a]].X < pts[order[b]].X })
	xs := make([]float64, len(order))
	for i, j := range order {
		xs[i] = pts[j].X
	}
	// separation of expected points
	for i := range order {
		for j := i + 1; j < len(order) && xs[j]-xs[i] <= 4*tol; j++ {
			if pts[order[i]].Dist(pts[order[j]]) <= 4*tol {
				return matchResult{undecided: true, msg: "two expected positions coincide within tolerance"}
			}
		}
	}
	var worst float64
	find := func(p C3) (int, float64) {
		lo := sort.SearchFloat64s(xs, p.X-tol)
		best, bd := -1, math.Inf(1)
		for k := lo; k < len(xs) && xs[k] <= p.X+tol; k++ {
			if d := pts[order[k]].Dist(p); d < bd {
				best, bd = order[k], d
			}
		}
		return best, bd
	}
	if len(out) != len(faces) {
		return matchResult{msg: fmt.Sprintf("face count %d, expected %d", len(out), len(faces))}
	}
	canon := func(f [3]int) [3]int {
		for f[0] > f[1] || f[0] > f[2] {
			f = [3]int{f[1], f[2], f[0]}
		}
		return f
	}
	want := map[[3]int]int{}
	for _, f := range faces {
		want[canon(f)]++
	}
	for _, t := range out {
		var f [3]int
		for k, p := range t {
			i, d := find(p)
			if i < 0 || d > tol {
				// report the true nearest for the message
				bd := math.Inf(1)
				for _, q := range pts {
					if dd := q.Dist(p); dd < bd {
						bd = dd
					}
				}
				return matchResult{msg: fmt.Sprintf("output vertex %v is %.3g away from the nearest expected position (tolerance %.3g)", p, bd, tol)}
			}
			if d > worst {
				worst = d
			}
			f[k] = i
		}
		cf := canon(f)
		if want[cf] == 0 {
			return matchResult{msg: fmt.Sprintf("output face %v (expected-vertex indices %v) is not an expected face or occurs too often", t, f)}
		}
		want[cf]--
	}
	return matchResult{ok: true, worst: worst}
}

// ---------------------------------------------------------------------------
// measures with rounding scales

// volScale bounds the rounding error scale of SignedVolume: sum |a||b||c|/6.
func volScale(tris []vlib.Tri) float64 {
	var s float64
	for _, t := range tris {
		s += t[0].Norm() * t[1].Norm() * t[2].Norm()
	}
	return s / 6
}

// areaScale bounds the rounding error scale of Area3: sum (|a|+|b|+|c|)^2/2
// (coordinates, not edges: points computed by interpolation are only accurate
// relative to their coordinates).
func areaScale(tris []vlib.Tri) float64 {
	var s float64
	for _, t := range tris {
		l := t[0].Norm() + t[1].Norm() + t[2].Norm()
		s += l * l
	}
	return s / 2
}

func vertexSet(tris []vlib.Tri) map[C3]bool {
	res := map[C3]bool{}
	for _, t := range tris {
		for _, p := range t {
			res[nz(p)] = true
		}
	}
	return res
}

func minAngleCos(tris []vlib.Tri) float64 {
	// largest cosine of any corner angle (close to 1 = sliver)
	worst := -1.0
	for _, t := range tris {
		for k := 0; k < 3; k++ {
			a := t[(k+1)%3].Sub(t[k])
			b := t[(k+2)%3].Sub(t[k])
			d := a.Norm() * b.Norm()
			if d == 0 {
				return 1
			}
			if cs := a.Dot(b) / d; cs > worst {
				worst = cs
			}
		}
	}
	return worst
}

// faceQuality is the smallest 2*area / (longest edge)^2 over the faces
// (sqrt(3)/2 for an equilateral triangle, 0 for colinear vertices).
func faceQuality(tris []vlib.Tri) float64 {
	worst := math.Inf(1)
	for _, t := range tris {
		a2 := t[1].Sub(t[0]).Cross(t[2].Sub(t[0])).Norm()
		l := math.Max(t[0].Dist(t[1]), math.Max(t[1].Dist(t[2]), t[2].Dist(t[0])))
		if l == 0 {
			return 0
		}
		if q := a2 / (l * l); q < worst {
			worst = q
		}
	}
	return worst
}
