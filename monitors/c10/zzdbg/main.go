package main

import (
	"fmt"
	"time"

	"github.com/unixpickle/model3d/model2d"
	"github.com/unixpickle/model3d/model3d"
	"verif/vlib"
)

type C3 = model3d.Coord3D

type fsolid struct {
	min, max C3
	f        func(C3) bool
}

func (s *fsolid) Min() C3 { return s.min }
func (s *fsolid) Max() C3 { return s.max }
func (s *fsolid) Contains(p C3) bool {
	if p.X < s.min.X || p.Y < s.min.Y || p.Z < s.min.Z || p.X > s.max.X || p.Y > s.max.Y || p.Z > s.max.Z {
		return false
	}
	return s.f(p)
}

func within(d time.Duration, f func() string) string {
	ch := make(chan string, 1)
	go func() { ch <- f() }()
	select {
	case s := <-ch:
		return s
	case <-time.After(d):
		return fmt.Sprintf("DID NOT RETURN within %v", d)
	}
}

func topo(m *model3d.Mesh) string {
	t := vlib.AnalyzeTris(vlib.Tris(m))
	return fmt.Sprintf("faces=%d vertices=%d closed-oriented-manifold=%v euler=%d nonmanifold-edges=%d", t.Faces, t.Vertices, t.ClosedOrientedManifold(), t.Euler, t.NonManifoldEdges)
}

func main() {
	sq := func(pts ...model2d.Coord) *model2d.Mesh {
		m := model2d.NewMesh()
		for i := range pts {
			m.Add(&model2d.Segment{pts[i], pts[(i+1)%len(pts)]})
		}
		return m
	}
	one := sq(model2d.XY(0, 0), model2d.XY(2, 0), model2d.XY(4, 0), model2d.XY(4, 4), model2d.XY(0, 4))
	two := sq(model2d.XY(0, 0), model2d.XY(1, 0), model2d.XY(2, 0), model2d.XY(4, 0), model2d.XY(4, 4), model2d.XY(0, 4))
	fmt.Println("F1 one split point :", within(3*time.Second, func() string {
		r := one.EliminateColinear(1e-8)
		return fmt.Sprintf("%d segments, manifold=%v", r.NumSegments(), vlib.AnalyzeSegs(vlib.Segs(r)).ClosedOrientedManifold())
	}))
	fmt.Println("F1 two split points:", within(3*time.Second, func() string {
		r := two.EliminateColinear(1e-8)
		return fmt.Sprintf("%d segments, manifold=%v", r.NumSegments(), vlib.AnalyzeSegs(vlib.Segs(r)).ClosedOrientedManifold())
	}))

	base := model3d.NewMeshIcosphere(model3d.XYZ(0.1, 0.2, 0.3), 1, 2)
	var counts []int
	for rot := 0; rot < 3; rot++ {
		m := model3d.NewMesh()
		base.Iterate(func(t *model3d.Triangle) {
			m.Add(&model3d.Triangle{t[rot%3], t[(rot+1)%3], t[(rot+2)%3]})
		})
		n := 0
		m.EliminateEdges(func(tmp *model3d.Mesh, s model3d.Segment) bool { n++; return false })
		counts = append(counts, n)
	}
	fmt.Println("F2 icosphere(n=2), 120 edges, offered per rotation of the stored face vertices:", counts)

	// F3 prism
	ring := func(l int) []C3 {
		return []C3{model3d.XYZ(0, 0, float64(l)), model3d.XYZ(4, 0, float64(l)), model3d.XYZ(0, 4, float64(l))}
	}
	pm := model3d.NewMesh()
	add := func(a, b, c C3) { pm.Add(&model3d.Triangle{c, a, b}) } // stored rotated by 2
	quad := func(p1, p2, p3, p4 C3) { add(p1, p2, p4); add(p2, p3, p4) }
	b, t := ring(0), ring(3)
	add(b[0], b[2], b[1])
	add(t[0], t[1], t[2])
	for l := 0; l < 3; l++ {
		lo, hi := ring(l), ring(l+1)
		for i := 0; i < 3; i++ {
			j := (i + 1) % 3
			quad(lo[i], lo[j], hi[j], hi[i])
		}
	}
	target := model3d.NewSegment(model3d.XYZ(0, 0, 1), model3d.XYZ(4, 0, 1))
	done := false
	r := pm.EliminateEdges(func(tmp *model3d.Mesh, s model3d.Segment) bool {
		if !done && s == target {
			done = true
			return true
		}
		return false
	})
	fmt.Println("F3 prism input:", topo(pm), "; segment offered:", done, "; result:", topo(r))

	tm := model3d.SubdivideEdges(model3d.NewMeshTorus(C3{}, model3d.Z(1), 0.3, 1, 3, 3), 2)
	fmt.Println("F4 SubdivideEdges(torus 3x3, 2): input", topo(tm), "; FlipDelaunay:", within(5*time.Second, func() string { return topo(tm.FlipDelaunay()) }))
	A := model3d.XYZ(-0x1.55a8b08c582b3p-03, 0x1.25d2f14776446p-05, -0x1.9415c5f2400c9p-03)
	B := model3d.XYZ(-0x1.81c8a8900c015p-06, 0x1.3ce3d2bcd02efp-05, 0x1.1c4d6f3f34401p-05)
	C := model3d.XYZ(0x1.cb7b97d3da45fp-08, 0x1.3873ba662ae0ap-03, 0x1.06ed38090a12p-02)
	D := model3d.XYZ(0x1.3cbf27af19aadp-03, -0x1.62521e18234adp-03, -0x1.242cc93c3b1p-05)
	tet := model3d.NewMeshTriangles([]*model3d.Triangle{{A, B, C}, {A, C, D}, {A, D, B}, {B, D, C}})
	fmt.Println("F4 flat tetrahedron: input", topo(tet), "; FlipDelaunay:", within(5*time.Second, func() string { return topo(tet.FlipDelaunay()) }))

	sph := func(c C3, r float64) func(C3) bool { return func(p C3) bool { return p.Dist(c) < r } }
	cyl := func(p1, p2 C3, r float64) func(C3) bool {
		ax := p2.Sub(p1)
		l := ax.Norm()
		ax = ax.Scale(1 / l)
		return func(p C3) bool {
			v := p.Sub(p1)
			t := v.Dot(ax)
			return t >= 0 && t <= l && v.Sub(ax.Scale(t)).Norm() < r
		}
	}
	bmin, bmax := model3d.XYZ(0.0823962467509296, -0.08347469738537877, -0.019900975554890954), model3d.XYZ(0.4996768085494454, 0.24056143270989827, 0.3627988989415674)
	s1 := sph(model3d.XYZ(-0.20784099831707475, 0.017691417326075265, 0.004427855290237148), 0.3935867593707256)
	cy := cyl(model3d.XYZ(0.3941812302195531, 0.2159383268747438, -0.4754002127381401), model3d.XYZ(0.018092238622877732, 0.1417389089843314, -0.15059592110512077), 0.20416973824864942)
	s2 := sph(model3d.XYZ(0.4590546490695051, 0.3929888686019559, -0.1517629825240983), 0.5037791891109751)
	solid := &fsolid{bmin, bmax, func(p C3) bool { return !s1(p) && !(cy(p) && !s2(p)) }}
	mc := model3d.MarchingCubes(solid, 0.03477338014987632)
	fmt.Println("F5 input:", topo(mc))
	for _, sa := range []int{1, 2, 5} {
		d := &model3d.Decimator{FeatureAngle: 1.3277492303521596, PlaneDistance: 0.0006484427873890913, BoundaryDistance: 0.0008129561801061474, NoEdgePreservation: true, SplitAttempts: sa}
		start := time.Now()
		fmt.Printf("F5 SplitAttempts=%d: %s (%.2fs)\n", sa, within(60*time.Second, func() string { return topo(d.Decimate(mc)) }), time.Since(start).Seconds())
	}
}
