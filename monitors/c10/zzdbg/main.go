package main

import (
	"fmt"
	"math"
	"time"

	"github.com/unixpickle/model3d/model3d"
)

func main() {
	A := model3d.XYZ(-0x1.55a8b08c582b3p-03, 0x1.25d2f14776446p-05, -0x1.9415c5f2400c9p-03)
	B := model3d.XYZ(-0x1.81c8a8900c015p-06, 0x1.3ce3d2bcd02efp-05, 0x1.1c4d6f3f34401p-05)
	C := model3d.XYZ(0x1.cb7b97d3da45fp-08, 0x1.3873ba662ae0ap-03, 0x1.06ed38090a12p-02)
	D := model3d.XYZ(0x1.3cbf27af19aadp-03, -0x1.62521e18234adp-03, -0x1.242cc93c3b1p-05)
	m := model3d.NewMesh()
	m.Add(&model3d.Triangle{A, B, C})
	m.Add(&model3d.Triangle{A, C, D})
	m.Add(&model3d.Triangle{A, D, B})
	m.Add(&model3d.Triangle{B, D, C})
	ang := func(o, p, q model3d.Coord3D) float64 {
		a, b := p.Sub(o), q.Sub(o)
		return math.Atan2(a.Cross(b).Norm(), a.Dot(b))
	}
	pts := map[string]model3d.Coord3D{"A": A, "B": B, "C": C, "D": D}
	names := []string{"A", "B", "C", "D"}
	for i := 0; i < 4; i++ {
		for j := i + 1; j < 4; j++ {
			var o []string
			for _, n := range names {
				if n != names[i] && n != names[j] {
					o = append(o, n)
				}
			}
			s := ang(pts[o[0]], pts[names[i]], pts[names[j]]) + ang(pts[o[1]], pts[names[i]], pts[names[j]])
			fmt.Printf("edge %s%s: opposite angle sum = pi%+.4f\n", names[i], names[j], s-math.Pi)
		}
	}
	done := make(chan int, 1)
	go func() { done <- m.FlipDelaunay().NumTriangles() }()
	select {
	case n := <-done:
		fmt.Println("returned", n)
	case <-time.After(3 * time.Second):
		fmt.Println("HUNG")
	}
}
