package main

// A convex bipyramid whose ring vertices all have the same value of the
// library's coordinate hash (they lie on one level plane of the linear form the
// hash is the bit pattern of; solved bit-exactly through the verif-tagged
// export, hook H1). Edge- and vertex-keyed tables inside the mesh operations
// see maximal hash collisions on an otherwise ordinary closed manifold.

import (
	"fmt"
	"math"
	"math/rand"

	"github.com/unixpickle/model3d/model3d"
)

func hashValue(p C3) float64 { return math.Float64frombits(model3d.VerifFastHash64(p)) }

func onHashPlane(p C3, target uint64) (C3, bool) {
	tf := math.Float64frombits(target)
	kz := hashValue(model3d.Z(1))
	if !(kz > 0) || !(tf > 0) {
		return p, false
	}
	z0 := p.Z + (tf-hashValue(p))/kz
	f := func(z float64) float64 { return hashValue(model3d.XYZ(p.X, p.Y, z)) }
	lo, hi := z0-1e-9, z0+1e-9
	if !(f(lo) <= tf && f(hi) >= tf) {
		return p, false
	}
	for i := 0; i < 200; i++ {
		mid := lo + (hi-lo)/2
		if mid <= lo || mid >= hi {
			break
		}
		if f(mid) < tf {
			lo = mid
		} else {
			hi = mid
		}
	}
	for _, z := range []float64{hi, lo} {
		if q := model3d.XYZ(p.X, p.Y, z); model3d.VerifFastHash64(q) == target {
			return q, true
		}
	}
	return p, false
}

func collidingBipyramid(rng *rand.Rand) (*model3d.Mesh, string, bool) {
	center := model3d.XYZ(1.5+2*rng.Float64(), 0.5+2*rng.Float64(), 0.2*rng.Float64())
	size := 0.3 + 0.5*rng.Float64()
	k := model3d.XYZ(hashValue(model3d.X(1)), hashValue(model3d.Y(1)), hashValue(model3d.Z(1)))
	kn := k.Normalize()
	u := kn.Cross(model3d.Z(1)).Normalize()
	v := kn.Cross(u)
	n := 3 + rng.Intn(10)
	phase := rng.Float64() * 2 * math.Pi
	var ring []C3
	var target uint64
	for i := 0; i < n; i++ {
		th := phase + 2*math.Pi*float64(i)/float64(n)
		rad := size * (0.7 + 0.3*rng.Float64())
		p := center.Add(u.Scale(rad * math.Cos(th))).Add(v.Scale(rad * math.Sin(th)))
		if i == 0 {
			target = model3d.VerifFastHash64(p)
		} else {
			var ok bool
			if p, ok = onHashPlane(p, target); !ok {
				return nil, "", false
			}
		}
		ring = append(ring, p)
	}
	a := center.Add(kn.Scale(size * (0.5 + rng.Float64())))
	b := center.Sub(kn.Scale(size * (0.5 + rng.Float64())))
	m := model3d.NewMesh()
	for i := 0; i < n; i++ {
		p, q := ring[i], ring[(i+1)%n]
		t1 := &model3d.Triangle{a, p, q}
		if t1.Normal().Dot(t1[0].Add(t1[1]).Add(t1[2]).Scale(1.0/3).Sub(center)) < 0 {
			t1[1], t1[2] = t1[2], t1[1]
		}
		t2 := &model3d.Triangle{b, q, p}
		if t2.Normal().Dot(t2[0].Add(t2[1]).Add(t2[2]).Scale(1.0/3).Sub(center)) < 0 {
			t2[1], t2[2] = t2[2], t2[1]
		}
		m.Add(t1)
		m.Add(t2)
	}
	return m, fmt.Sprintf("hash-colliding-bipyramid(n=%d,center=%v,size=%g)", n, center, size), true
}
