package main

// EliminateColinear on gently curving outlines: regular polygons and circular arcs whose
// per-vertex turning angle is below the co-linearity tolerance. Every vertex is removable on
// its own, but removing one doubles the turning at its neighbours, so a correct implementation
// has to re-evaluate them; the result must stay an inscribed polygon close to the circle.
//
// The oracle uses an exact property of chords of a circle: two adjacent chords that span m1 and
// m2 of the original (equal) segments meet at a turning angle of (m1+m2)*theta1/2. A vertex may
// only be removed while the edges meeting there are "nearly co-linear" for the given epsilon;
// the library measures 1-cos(turning) < epsilon, i.e. turning < sqrt(2 eps). The monitor allows
// ten times that angle, so any reasonable reading of epsilon passes, while a run-away
// elimination (chords spanning a large part of the circle) does not.

import (
	"fmt"
	"math"
	"time"

	"github.com/unixpickle/model3d/model2d"
	"verif/vlib"
)

func sec2DColinearCurved(r *vlib.Run) {
	r.Section("2d-eliminate-colinear-curved", r.N(300, 4000), vlib.SectionOpts{Sequential: true, Watchdog: 400 * time.Second}, func(c *vlib.Case) {
		const api = "model2d.Mesh.EliminateColinear"
		rng := c.Rng
		n := 40 + rng.Intn(400)
		theta1 := 2 * math.Pi / float64(n)
		// epsilon between 0.6x and 6x the value at which a single vertex becomes eligible
		epsSingle := 1 - math.Cos(theta1)
		eps := epsSingle * (0.6 + 5.4*rng.Float64())
		theta0 := math.Acos(1 - eps)
		if 10*theta0 > 1.0 {
			c.Undecided("tolerance-angle-too-large-for-the-span-argument")
			return
		}
		radius := math.Pow(10, rng.Float64()*4-2)
		ctr := model2d.XY(rng.NormFloat64(), rng.NormFloat64()).Scale(radius)
		phase := rng.Float64()
		half := rng.Intn(3) == 0 // half disc: arc plus a diameter split into exactly colinear pieces
		var pts []model2d.Coord
		arcN := n
		if half {
			arcN = n / 2
		}
		for i := 0; i <= arcN; i++ {
			if !half && i == arcN {
				break
			}
			a := theta1 * (float64(i) + phase)
			pts = append(pts, ctr.Add(model2d.XY(math.Cos(a), math.Sin(a)).Scale(radius)))
		}
		arcLast := len(pts) - 1
		if half {
			// diameter from the last arc point back to the first, split into k pieces
			k := 2 + rng.Intn(6)
			a, b := pts[arcLast], pts[0]
			for j := 1; j < k; j++ {
				pts = append(pts, a.Add(b.Sub(a).Scale(float64(j)/float64(k))))
			}
		}
		clockwise := rng.Intn(2) == 0
		mesh := model2d.NewMesh()
		idx := map[model2d.Coord]int{}
		for i, p := range pts {
			idx[p] = i
			q := pts[(i+1)%len(pts)]
			if clockwise {
				mesh.Add(&model2d.Segment{q, p})
			} else {
				mesh.Add(&model2d.Segment{p, q})
			}
		}
		if len(idx) != len(pts) {
			c.Undecided("coincident-input-vertices")
			return
		}
		inSegs := vlib.Segs(mesh)
		a0 := vlib.SignedArea2(inSegs)
		wit := func() map[string]interface{} {
			return map[string]interface{}{"segments_on_full_circle": n, "half_disc": half, "radius": radius, "centre": fmt.Sprint(ctr), "phase": phase,
				"epsilon": eps, "epsilon_over_single_vertex_threshold": eps / epsSingle, "vertices": len(pts), "clockwise": clockwise}
		}
		res, gok := guarded(c, api, wit, func() interface{} { return mesh.EliminateColinear(eps) })
		if !gok {
			return
		}
		out := vlib.Segs(res.(*model2d.Mesh))
		c.Count("calls."+api, 1)
		c.Count("colinear2d.curved.calls", 1)
		if eps > epsSingle {
			c.Count("colinear2d.curved.calls_with_every_arc_vertex_eligible_on_its_own", 1)
		}
		topo := vlib.AnalyzeSegs(out)
		if !topo.ClosedOrientedManifold() || topo.Components != 1 {
			c.Violationf(api+"/closed-oriented-manifold", wit(), "result is not one closed oriented loop: %v components=%d", topo.Problems, topo.Components)
			return
		}
		if len(out) < 3 {
			c.Violationf(api+"/shape-preserving", wit(), "a circle-like outline of %d vertices was reduced to %d segments", len(pts), len(out))
			return
		}
		worst := 0.0
		for _, s := range out {
			i, ok1 := idx[s[0]]
			j, ok2 := idx[s[1]]
			if !ok1 || !ok2 {
				c.Violationf(api+"/vertex-subset", wit(), "output vertex %v or %v is not an input vertex", s[0], s[1])
				return
			}
			if clockwise {
				i, j = j, i
			}
			if i > arcLast || j > arcLast || (half && (j < i)) {
				continue // a piece of the diameter (exactly colinear, any merge is fine)
			}
			m := (j - i + len(pts)) % len(pts)
			if half {
				m = j - i
			}
			// the merge that created this chord joined two chords at a turning of m*theta1/2
			turning := float64(m) * theta1 / 2
			if m >= 2 && turning > worst {
				worst = turning
			}
			if m >= 2 && turning > 10*theta0 {
				c.Violationf(api+"/removed-only-nearly-colinear", wit(), "output segment spans %d original segments of the arc: the vertex removed last there joined edges turning by %.4g rad, tolerance angle for epsilon is %.4g rad", m, turning, theta0)
				return
			}
		}
		c.Max("colinear2d.curved.worst_turning_over_tolerance_angle", worst/theta0)
		a1 := vlib.SignedArea2(out)
		// inscribed polygon with chords spanning at most phi=10*theta0 each: area within phi^2/6 (+ the half disc's chord)
		phi := 10 * theta0
		if math.Abs(a1-a0) > math.Abs(a0)*(phi*phi/6*1.05+1e-9) || (a0 > 0) != (a1 > 0) {
			c.Violationf(api+"/area", wit(), "enclosed signed area changed from %g to %g", a0, a1)
			return
		}
		c.Count("colinear2d.curved.vertices_removed", int64(len(pts)-len(out)))
		if len(out) < len(pts) {
			c.Nontrivial(fmt.Sprint("curved", n, half, eps, radius))
		}
	})
}
