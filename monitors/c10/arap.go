package main

import (
	"fmt"
	"math"
	"math/rand"

	"github.com/unixpickle/model3d/model3d"
	"verif/vlib"
)

func rodrigues(axis C3, angle float64) func(C3) C3 {
	c, s := math.Cos(angle), math.Sin(angle)
	return func(p C3) C3 {
		return p.Scale(c).Add(axis.Cross(p).Scale(s)).Add(axis.Scale(axis.Dot(p) * (1 - c)))
	}
}

// nonCoplanar reports whether the chosen points span space robustly.
func nonCoplanar(pts []C3, size float64) bool {
	if len(pts) < 4 {
		return false
	}
	best := 0.0
	p0 := pts[0]
	for i := 1; i < len(pts); i++ {
		for j := i + 1; j < len(pts); j++ {
			n := pts[i].Sub(p0).Cross(pts[j].Sub(p0))
			for k := j + 1; k < len(pts); k++ {
				if v := math.Abs(n.Dot(pts[k].Sub(p0))); v > best {
					best = v
				}
			}
			if best > 0.01*size*size*size {
				return true
			}
		}
		if i > 12 {
			break
		}
	}
	return best > 0.01*size*size*size
}

func pickConstraints(rng *rand.Rand, in *minfo) ([]int, []int) {
	n := len(in.im.pts)
	k := 4 + rng.Intn(1+n/4)
	if k > n {
		k = n
	}
	perm := rng.Perm(n)
	res := perm[:k]
	// every connected component needs at least one constrained vertex:
	// otherwise the linear system of the method is singular and the answer
	// undefined (nothing in the documentation covers that case)
	comp := make([]int, n)
	for fi, f := range in.im.faces {
		for _, v := range f {
			comp[v] = in.topo.CompOfFace[fi]
		}
	}
	have := map[int]bool{}
	for _, v := range res {
		have[comp[v]] = true
	}
	for _, v := range perm[k:] {
		if !have[comp[v]] {
			have[comp[v]] = true
			res = append(res, v)
		}
	}
	return res, comp
}

func secARAP(r *vlib.Run) {
	const api = "model3d.ARAP.Deform"
	r.Section("arap", r.N(300, 4500), vlib.SectionOpts{Watchdog: 0}, func(c *vlib.Case) {
		rng := c.Rng
		// cotangent weights are documented for meshes with smaller-than-right
		// angles only: near-equilateral icospheres. Other meshes use the
		// absolute-cotangent / uniform schemes.
		cot := rng.Intn(3) == 0
		var in *minfo
		if cot {
			n := 1 + rng.Intn(3)
			cen := model3d.XYZ(rng.Float64()-0.5, rng.Float64()-0.5, rng.Float64()-0.5)
			rad := 0.5 + rng.Float64()
			in, _ = certify(model3d.NewMeshIcosphere(cen, rad, n), fmt.Sprintf("icosphere(%v,%g,%d)", cen, rad, n), false)
		} else {
			in = genMesh(c, rng, pick(rng, gIco, gTorus, gMC, gTiny, gGridBox, gVoxel, gGenus, gMulti), 700)
		}
		if in == nil {
			c.Undecided("no-certified-input")
			return
		}
		var a *model3d.ARAP
		scheme := "cotangent"
		if cot {
			a = model3d.NewARAP(in.mesh)
		} else {
			ws := []model3d.ARAPWeightingScheme{model3d.ARAPWeightingAbsCotangent, model3d.ARAPWeightingUniform}
			l, rw := ws[rng.Intn(2)], ws[rng.Intn(2)]
			scheme = fmt.Sprintf("linear=%d,rotation=%d", l, rw)
			if lo, hi := angleCosRange(in.tris); hi > 0.9999 || lo < -0.9999 {
				// the cotangent of a needle corner is not finite to working precision
				l, rw = model3d.ARAPWeightingUniform, model3d.ARAPWeightingUniform
				scheme = "uniform(needle input)"
			}
			a = model3d.NewARAPWeighted(in.mesh, l, rw)
		}
		// configuration accessors: documented defaults, setters and getters agree
		if a.Tolerance() != model3d.ARAPDefaultTolerance || a.MaxIterations() != model3d.ARAPMaxIterations || a.MinIterations() != model3d.ARAPMinIterations {
			c.Violationf("model3d.ARAP/default-configuration", nil, "new ARAP has tolerance %g, max %d, min %d iterations; documented defaults %g, %d, %d",
				a.Tolerance(), a.MaxIterations(), a.MinIterations(), model3d.ARAPDefaultTolerance, model3d.ARAPMaxIterations, model3d.ARAPMinIterations)
			return
		}
		{
			t, mx, mnI := math.Pow(10, -1-8*rng.Float64()), 1+rng.Intn(9000), rng.Intn(5)
			a.SetTolerance(t)
			a.SetMaxIterations(mx)
			a.SetMinIterations(mnI)
			if a.Tolerance() != t || a.MaxIterations() != mx || a.MinIterations() != mnI {
				c.Violationf("model3d.ARAP/setters-and-getters", nil, "set tolerance %g, max %d, min %d; read back %g, %d, %d", t, mx, mnI, a.Tolerance(), a.MaxIterations(), a.MinIterations())
				return
			}
			a.SetTolerance(model3d.ARAPDefaultTolerance)
			a.SetMaxIterations(model3d.ARAPMaxIterations)
			a.SetMinIterations(model3d.ARAPMinIterations)
			c.Count("arap.configuration_roundtrips", 1)
		}
		// AddAround: exactly the vertices within r of the centre, each moved by target-centre
		{
			ctr := in.im.pts[rng.Intn(len(in.im.pts))]
			if rng.Intn(3) == 0 {
				ctr = ctr.Add(model3d.XYZ(rng.NormFloat64(), rng.NormFloat64(), rng.NormFloat64()).Scale(0.2 * in.size))
			}
			rad := in.size * rng.Float64()
			target := ctr.Add(model3d.XYZ(rng.NormFloat64(), rng.NormFloat64(), rng.NormFloat64()).Scale(0.3 * in.size))
			got := model3d.ARAPConstraints{}
			got.AddAround(a, ctr, rad, target)
			want := map[C3]C3{}
			for _, p := range in.im.pts {
				if ctr.Dist(p) <= rad {
					want[p] = p.Add(target.Sub(ctr))
				}
			}
			same := len(got) == len(want)
			for p, q := range want {
				if g, ok := got[p]; !ok || g != q {
					same = false
				}
			}
			c.Count("arap.AddAround.calls", 1)
			if len(want) > 0 {
				c.Count("arap.AddAround.nonempty", 1)
			}
			if !same {
				c.Violationf("model3d.ARAPConstraints.AddAround/vertices-within-radius", map[string]interface{}{"center": hex3(ctr), "radius": rad, "target": hex3(target)},
					"AddAround produced %d constraints, the mesh has %d vertices within the radius (each to be moved by target-centre)", len(got), len(want))
				return
			}
		}
		mode := rng.Intn(4) // 0 translation, 1 rotation, 2 free handles, 3 all constrained / seq
		idx, comp := pickConstraints(rng, in)
		if mode == 3 && rng.Intn(2) == 0 {
			idx = rng.Perm(len(in.im.pts)) // every vertex constrained
		}
		var cpts []C3
		for _, i := range idx {
			cpts = append(cpts, in.im.pts[i])
		}
		axis, angle := randUnit(rng), (rng.Float64()*2-1)*math.Pi/3
		shift := model3d.XYZ(rng.NormFloat64(), rng.NormFloat64(), rng.NormFloat64()).Scale(in.size * 0.5)
		center := in.im.pts[idx[0]]
		rot := rodrigues(axis, angle)
		var motion func(C3) C3
		switch mode {
		case 0:
			motion = func(p C3) C3 { return p.Add(shift) }
		case 1:
			motion = func(p C3) C3 { return rot(p.Sub(center)).Add(center).Add(shift) }
		default:
			motion = nil
		}
		cons := model3d.ARAPConstraints{}
		for _, i := range idx {
			p := in.im.pts[i]
			if motion != nil {
				cons[p] = motion(p)
			} else {
				cons[p] = p.Add(model3d.XYZ(rng.NormFloat64(), rng.NormFloat64(), rng.NormFloat64()).Scale(0.1 * in.size))
			}
		}
		extra := map[string]interface{}{"scheme": scheme, "mode": mode, "constraints": len(cons)}
		if mode == 1 {
			extra["rotation"] = fmt.Sprintf("axis=%s angle=%x about %s shift %s", hex3(axis), angle, hex3(center), hex3(shift))
		}
		if mode == 0 {
			extra["shift"] = hex3(shift)
		}
		rigid := motion != nil && nonCoplanar(cpts, in.size) && in.topo.Components == 1
		if mode == 1 {
			a.SetMaxIterations(2000)
			a.SetTolerance(1e-12)
		} else {
			a.SetMaxIterations(60)
		}
		out := a.Deform(cons)
		ot := vlib.Tris(out)
		c.Count("calls."+api, 1)
		c.Nontrivial(fmt.Sprintf("arap|%s|%s|%d|%d", in.desc, scheme, mode, len(cons)))
		inputUntouched(c, api, in, extra)
		if !finiteTris(ot) {
			// a singular system (e.g. a component without any constraint, or
			// degenerate weights) is not a case the documentation covers
			lo, hi := angleCosRange(in.tris)
			if in.topo.Components > 1 || hi > 0.99 || lo < -0.99 {
				c.Undecided("arap:non-finite-with-unconstrained-component-or-degenerate-weights")
				return
			}
			c.Violation(api+"/finite", "non-finite output for a well-shaped single-component mesh", in.witness(extra))
			return
		}
		checkTopo(c, api, in, ot, topoOpts{moved: true, expectV: in.topo.Vertices}, extra)
		if len(ot) != len(in.tris) {
			c.Violationf(api+"/face-count", in.witness(extra), "%d faces, input had %d", len(ot), len(in.tris))
		}
		// constraints exact
		dm := a.DeformMap(cons, nil)
		c.Count("calls.model3d.ARAP.DeformMap", 1)
		outV := vertexSet(ot)
		for k, v := range cons {
			if got, ok := dm[k]; !ok || got != v {
				c.Violationf("model3d.ARAP.DeformMap/constraints-exact", in.witness(extra), "constrained vertex %s maps to %s, target was %s", hex3(k), hex3(got), hex3(v))
				break
			}
			if !outV[nz(v)] {
				c.Violationf(api+"/constraints-exact", in.witness(extra), "target %s of constrained vertex %s is not a vertex of the deformed mesh", hex3(v), hex3(k))
				break
			}
		}
		c.Count("arap.constraints_checked", int64(len(cons)))
		// positional constraints are met exactly whatever the iteration budget and the starting
		// point: no refinement steps at all, started from a caller's guess that does not satisfy
		// the constraints (the undeformed mesh)
		if rng.Intn(3) == 0 {
			oldMax, oldMin := a.MaxIterations(), a.MinIterations()
			a.SetMaxIterations(rng.Intn(2))
			a.SetMinIterations(0)
			guess := map[model3d.Coord3D]model3d.Coord3D{}
			for _, p := range in.im.pts {
				guess[p] = p
			}
			dm0 := a.DeformMap(cons, guess)
			c.Count("arap.deform_maps_with_a_guess_and_0_or_1_iterations", 1)
			for k, v := range cons {
				if got, ok := dm0[k]; !ok || got != v {
					c.Violationf("model3d.ARAP.DeformMap/constraints-exact", in.witness(extra), "with MaxIterations=%d and the undeformed mesh as initial guess, constrained vertex %s maps to %s, target was %s", a.MaxIterations(), hex3(k), hex3(got), hex3(v))
					break
				}
			}
			a.SetMaxIterations(oldMax)
			a.SetMinIterations(oldMin)
		}
		// connectivity under the published map
		if len(dm) != len(in.im.pts) {
			c.Violationf("model3d.ARAP.DeformMap/total", in.witness(extra), "map has %d keys, the mesh %d vertices", len(dm), len(in.im.pts))
		} else {
			mapped := make([]C3, len(in.im.pts))
			okMap := true
			for i, p := range in.im.pts {
				q, ok := dm[p]
				if !ok {
					okMap = false
					c.Violationf("model3d.ARAP.DeformMap/total", in.witness(extra), "input vertex %s has no image", hex3(p))
					break
				}
				mapped[i] = q
			}
			if okMap && finitePts(mapped) && in.topo.Components > 1 {
				// a component without any constrained vertex is free to move rigidly: its position is
				// fixed only by rounding (the order in which a Go map hands over the constraints), so two
				// runs need not agree on it
				c.Undecided("arap-mapping:mesh has a component that may carry no constraint")
			} else if okMap && finitePts(mapped) {
				res := matchFaces(mapped, in.im.faces, ot, 1e-7*(in.maxA+in.size+shift.Norm()))
				switch {
				case res.undecided:
					c.Undecided("arap-mapping:" + res.msg)
				case !res.ok:
					c.Violation(api+"/connectivity-under-mapping", "Deform() is not the input connectivity carried through DeformMap(): "+res.msg, in.witness(extra))
				default:
					c.Count("arap.mapping_connectivity_held", 1)
				}
			}
		}
		// Laplace: constraints exact as well
		lm := a.Laplace(cons)
		for k, v := range cons {
			if got := lm[k]; got != v {
				c.Violationf("model3d.ARAP.Laplace/constraints-exact", in.witness(extra), "constrained vertex %s maps to %s, target was %s", hex3(k), hex3(got), hex3(v))
				break
			}
		}
		// rigid reproduction
		if rigid {
			tol := 1e-6 * in.size
			if mode == 1 {
				tol = 1e-3 * in.size
			}
			dev := func(m map[C3]C3) float64 {
				w := 0.0
				for _, p := range in.im.pts {
					if d := m[p].Dist(motion(p)); d > w || math.IsNaN(d) {
						w = d
						if math.IsNaN(d) {
							return math.Inf(1)
						}
					}
				}
				return w
			}
			worst := dev(dm)
			if worst > tol && mode == 1 {
				// ARAP is a local iteration: a miss is re-run with ten times the iterations
				a.SetMaxIterations(20000)
				worst = dev(a.DeformMap(cons, nil))
				c.Count("arap.rigid_retries", 1)
			}
			name := []string{"translation", "rotation"}[mode]
			c.Count("arap.rigid_"+name+"_cases", 1)
			if worst > tol {
				if !cot && mode == 1 {
					// only the cotangent energy of a well-shaped mesh is known to
					// have the rigid motion as the limit of the iteration from the
					// Laplacian start for moderate rotations; other weightings are counted
					c.Undecided("arap-rigid-rotation-miss:" + scheme)
				} else {
					c.Violationf(api+"/rigid-"+name, in.witness(extra), "constraints are one rigid motion applied to %d non-coplanar vertices but a free vertex ends %.3g away from its rigid image (tolerance %.3g, size %.3g)", len(cons), worst, tol, in.size)
				}
			} else {
				c.Count("arap.rigid_"+name+"_held", 1)
				c.Max("worst_rigid_"+name+"_deviation_rel", worst/in.size)
			}
		}
		// SeqDeformer: same answers as fresh solves, whatever was cached
		if mode == 3 || rng.Intn(4) == 0 {
			a.SetMaxIterations(30)
			a.SetTolerance(model3d.ARAPDefaultTolerance)
			seq := a.SeqDeformer(true)
			cur := model3d.ARAPConstraints{}
			for k, v := range cons {
				cur[k] = v
			}
			for step := 0; step < 3; step++ {
				switch step {
				case 1: // same keys, new targets (cached factorisation path)
					for k, v := range cur {
						cur[k] = v.Add(model3d.XYZ(0.01, -0.02, 0.03).Scale(in.size))
					}
				case 2: // different key set of the same size
					// swap one constrained vertex for a free one of the same component
					for i, p := range in.im.pts {
						if _, ok := cur[p]; !ok && comp[i] == comp[idx[0]] {
							delete(cur, in.im.pts[idx[0]])
							cur[p] = p.Add(model3d.XYZ(0.02, 0.01, -0.01).Scale(in.size))
							break
						}
					}
				}
				got := vlib.Tris(seq(cur))
				c.Count("calls.model3d.ARAP.SeqDeformer", 1)
				if !finiteTris(got) {
					c.Undecided("arap-seq:non-finite")
					break
				}
				gv := vertexSet(got)
				bad := false
				for k, v := range cur {
					if !gv[nz(v)] {
						c.Violationf("model3d.ARAP.SeqDeformer/constraints-exact", in.witness(extra), "step %d: target %s of constrained vertex %s is not a vertex of the result", step, hex3(v), hex3(k))
						bad = true
						break
					}
				}
				if bad {
					break
				}
				fresh := a.DeformMap(cur, nil)
				mapped := make([]C3, len(in.im.pts))
				for i, p := range in.im.pts {
					mapped[i] = fresh[p]
				}
				if !finitePts(mapped) {
					c.Undecided("arap-seq:non-finite")
					break
				}
				res := matchFaces(mapped, in.im.faces, got, 1e-6*(in.maxA+in.size+shift.Norm()))
				switch {
				case res.undecided:
					c.Undecided("arap-seq:" + res.msg)
				case !res.ok:
					c.Violationf("model3d.ARAP.SeqDeformer/equals-fresh-solve", in.witness(extra), "step %d of a cold-start sequence differs from a fresh DeformMap with the same constraints: %s", step, res.msg)
				default:
					c.Count("arap.seq_steps_matched", 1)
				}
			}
		}
	})
}

func finitePts(ps []C3) bool {
	for _, p := range ps {
		if !vlib.Finite3(p) {
			return false
		}
	}
	return true
}

// angleCosRange returns the smallest and largest cosine of any corner angle.
func angleCosRange(tris []vlib.Tri) (lo, hi float64) {
	lo, hi = 1, -1
	for _, t := range tris {
		for k := 0; k < 3; k++ {
			a := t[(k+1)%3].Sub(t[k])
			b := t[(k+2)%3].Sub(t[k])
			d := a.Norm() * b.Norm()
			if d == 0 {
				return -1, 1
			}
			cs := a.Dot(b) / d
			lo, hi = math.Min(lo, cs), math.Max(hi, cs)
		}
	}
	return
}
