package main

import (
	"fmt"
	"math"
	"strings"
	"time"

	"github.com/unixpickle/model3d/model2d"
	"github.com/unixpickle/model3d/model3d"
	"verif/vlib"
)

type chainOp struct {
	api   string
	moved bool
	// prep draws the parameters and returns the library call (nil: skip),
	// the number of vertices of a correct result without coincidences (-1
	// unknown) and a label.
	prep func(in *minfo, c *vlib.Case) (call func() *model3d.Mesh, expectV int, label string)
}

func chainOps() []chainOp {
	return []chainOp{
		{"model3d.SubdivideEdges", true, func(in *minfo, c *vlib.Case) (func() *model3d.Mesh, int, string) {
			if in.topo.Faces*4 > 6000 {
				return nil, 0, ""
			}
			return func() *model3d.Mesh { return model3d.SubdivideEdges(in.mesh, 2) }, in.topo.Vertices + in.topo.Edges, "SubdivideEdges(2)"
		}},
		{"model3d.LoopSubdivision", true, func(in *minfo, c *vlib.Case) (func() *model3d.Mesh, int, string) {
			if in.topo.Faces*4 > 6000 {
				return nil, 0, ""
			}
			return func() *model3d.Mesh { return model3d.LoopSubdivision(in.mesh, 1) }, in.topo.Vertices + in.topo.Edges, "LoopSubdivision(1)"
		}},
		{"model3d.Decimator.Decimate", false, func(in *minfo, c *vlib.Case) (func() *model3d.Mesh, int, string) {
			eps := in.size * math.Pow(10, -3+2.5*c.Rng.Float64())
			d := &model3d.Decimator{PlaneDistance: eps, BoundaryDistance: eps, NoEdgePreservation: c.Rng.Intn(2) == 0, EliminateCorners: c.Rng.Intn(2) == 0}
			return func() *model3d.Mesh { return d.Decimate(in.mesh) }, -1, fmt.Sprintf("Decimate(%g,%v,%v)", eps, d.NoEdgePreservation, d.EliminateCorners)
		}},
		{"model3d.Mesh.EliminateCoplanar", false, func(in *minfo, c *vlib.Case) (func() *model3d.Mesh, int, string) {
			eps := []float64{1e-8, 1e-5, 1e-3}[c.Rng.Intn(3)]
			return func() *model3d.Mesh { return in.mesh.EliminateCoplanar(eps) }, -1, fmt.Sprintf("EliminateCoplanar(%g)", eps)
		}},
		{"model3d.Mesh.EliminateEdges", false, func(in *minfo, c *vlib.Case) (func() *model3d.Mesh, int, string) {
			el := edgeList(in.tris)
			pe := el[c.Rng.Intn(len(el))]
			thr := pe[0].Dist(pe[1])
			limit := 1 + c.Rng.Intn(1+in.topo.Vertices/2)
			return func() *model3d.Mesh {
				budget := limit
				return in.mesh.EliminateEdges(func(_ *model3d.Mesh, s model3d.Segment) bool {
					if budget > 0 && s[0].Dist(s[1]) <= thr {
						budget--
						return true
					}
					return false
				})
			}, -1, fmt.Sprintf("EliminateEdges(len<=%g, at most %d)", thr, limit)
		}},
		{"model3d.Mesh.FlipDelaunay", false, func(in *minfo, c *vlib.Case) (func() *model3d.Mesh, int, string) {
			return func() *model3d.Mesh { return in.mesh.FlipDelaunay() }, -1, "FlipDelaunay"
		}},
		{"model3d.Mesh.Blur", true, func(in *minfo, c *vlib.Case) (func() *model3d.Mesh, int, string) {
			rate := 0.2 + 0.6*c.Rng.Float64()
			return func() *model3d.Mesh { return in.mesh.Blur(rate, rate) }, in.topo.Vertices, fmt.Sprintf("Blur(%g,%g)", rate, rate)
		}},
		{"model3d.Mesh.SmoothAreas", true, func(in *minfo, c *vlib.Case) (func() *model3d.Mesh, int, string) {
			return func() *model3d.Mesh { return in.mesh.SmoothAreas(0.05, 2) }, in.topo.Vertices, "SmoothAreas(0.05,2)"
		}},
		{"model3d.VoxelSmoother", true, func(in *minfo, c *vlib.Case) (func() *model3d.Mesh, int, string) {
			vs := &model3d.VoxelSmoother{StepSize: 0.05, Iterations: 3, MaxDistance: in.size * 0.01}
			return func() *model3d.Mesh { return vs.Smooth(in.mesh) }, in.topo.Vertices, "VoxelSmoother(0.05,3)"
		}},
		{"model3d.Subdivider.Subdivide", true, func(in *minfo, c *vlib.Case) (func() *model3d.Mesh, int, string) {
			if in.topo.Faces*2 > 6000 {
				return nil, 0, ""
			}
			var picked []segKey
			for _, e := range edgeList(in.tris) {
				if c.Rng.Intn(3) == 0 {
					picked = append(picked, e)
				}
			}
			return func() *model3d.Mesh {
				sub := model3d.NewSubdivider()
				for _, e := range picked {
					sub.Add(e[0], e[1])
				}
				m := freshMesh(in)
				sub.Subdivide(m, func(a, b C3) C3 { return a.Mid(b) })
				return m
			}, in.topo.Vertices + len(picked), fmt.Sprintf("Subdivider(%d edges)", len(picked))
		}},
	}
}

func secChains(r *vlib.Run) {
	ops := chainOps()
	r.Section("chains", r.N(660, 8800), vlib.SectionOpts{Watchdog: 400 * time.Second}, func(c *vlib.Case) {
		rng := c.Rng
		in := genMesh(c, rng, -1, 1200)
		if in == nil {
			c.Undecided("no-certified-input")
			return
		}
		n := 2 + rng.Intn(4)
		var trail []string
		start := in.desc
		done := 0
		for step := 0; step < n; step++ {
			op := ops[rng.Intn(len(ops))]
			cur := in
			call, expectV, label := op.prep(cur, c)
			if call == nil {
				continue
			}
			res, gok := guarded(c, op.api, func() map[string]interface{} {
				return cur.witness(map[string]interface{}{"chain_start": start, "chain_so_far": strings.Join(trail, " -> "), "step": label})
			}, func() interface{} { return call() })
			if !gok {
				break
			}
			out := res.(*model3d.Mesh)
			trail = append(trail, label)
			extra := map[string]interface{}{"chain_start": start, "chain": strings.Join(trail, " -> "), "step": step}
			ot := vlib.Tris(out)
			t, ok := checkTopo(c, op.api, in, ot, topoOpts{moved: op.moved, expectV: expectV}, extra)
			if t == nil || !ok {
				break
			}
			done++
			c.Count("chain.steps_held", 1)
			next, good := certify(out, start+" -> "+strings.Join(trail, " -> "), false)
			if !good {
				break
			}
			in = next
		}
		c.Count(fmt.Sprintf("chain.length.%d", done), 1)
		if done >= 2 {
			c.Count("chain.completed_2plus", 1)
			c.Nontrivial("chain|" + start + "|" + strings.Join(trail, ">"))
		}
	})

}

func secChains2D(r *vlib.Run) {
	r.Section("2d-chains", r.N(900, 12000), vlib.SectionOpts{Watchdog: 400 * time.Second}, func(c *vlib.Case) {
		rng := c.Rng
		in := genPoly(c, rng, false)
		if in == nil {
			c.Undecided("no-certified-input")
			return
		}
		n := 2 + rng.Intn(4)
		var trail []string
		start := in.desc
		done := 0
		for step := 0; step < n; step++ {
			var call func() *model2d.Mesh
			var api, label string
			moved := false
			expectV := -1
			cur := in
			switch rng.Intn(6) {
			case 0:
				if in.topo.Segments > 4000 {
					continue
				}
				api, label, moved, expectV = "model2d.Mesh.Subdivide", "Subdivide(1)", true, 2*in.topo.Segments
				call = func() *model2d.Mesh { return cur.mesh.Subdivide(1) }
			case 1:
				k := rng.Intn(len(in.verts) + 1)
				api, label = "model2d.Mesh.Decimate", fmt.Sprintf("Decimate(%d)", k)
				call = func() *model2d.Mesh { return cur.mesh.Decimate(k) }
			case 2:
				eps := []float64{1e-8, 1e-4, 1e-2}[rng.Intn(3)]
				api, label = "model2d.Mesh.EliminateColinear", fmt.Sprintf("EliminateColinear(%g)", eps)
				call = func() *model2d.Mesh { return cur.mesh.EliminateColinear(eps) }
			case 3:
				rate := rng.Float64()
				api, label, moved, expectV = "model2d.Mesh.Blur", fmt.Sprintf("Blur(%g)", rate), true, len(in.verts)
				call = func() *model2d.Mesh { return cur.mesh.Blur(rate) }
			case 4:
				api, label, moved, expectV = "model2d.Mesh.Smooth", "Smooth(2)", true, len(in.verts)
				call = func() *model2d.Mesh { return cur.mesh.Smooth(2) }
			default:
				api, label, moved, expectV = "model2d.Mesh.SmoothSq", "SmoothSq(2)", true, len(in.verts)
				call = func() *model2d.Mesh { return cur.mesh.SmoothSq(2) }
			}
			trail = append(trail, label)
			extra := map[string]interface{}{"chain_start": start, "chain": strings.Join(trail, " -> "), "step": step}
			if strings.HasPrefix(api, "model2d.Mesh.Smooth") {
				extra["iters"] = 2
			}
			res, gok := guarded(c, api, func() map[string]interface{} { return cur.witness(extra) }, func() interface{} { return call() })
			if !gok {
				break
			}
			out := res.(*model2d.Mesh)
			t, ok := checkTopo2(c, api, in, vlib.Segs(out), moved, expectV, extra)
			if t == nil || !ok {
				break
			}
			done++
			c.Count("chain2d.steps_held", 1)
			next, good := certify2(out, start+" -> "+strings.Join(trail, " -> "), false)
			if !good {
				break
			}
			in = next
		}
		if done >= 2 {
			c.Count("chain2d.completed_2plus", 1)
			c.Nontrivial("chain2|" + start + "|" + strings.Join(trail, ">"))
		}
	})
}
