package main

import (
	"bufio"
	"fmt"
	"runtime/debug"
	"strings"
	"sync"
	"sync/atomic"
	"time"

	"verif/vlib"
)

// Bounded progress (DESIGN 0.5): a library call that does not return would
// otherwise end the whole monitor through the process watchdog and hide every
// other observation. guarded runs the call on its own goroutine; when the
// first limit passes the call is repeated alone with three times the limit,
// and only if that one does not return either is the clause "terminates"
// violated for the API. After one confirmed non-termination the API is not
// called again in this run (the abandoned goroutines keep spinning until the
// process exits, so this also bounds the cores lost).
const (
	firstLimit  = 20 * time.Second
	secondLimit = 60 * time.Second
)

type apiState struct {
	mu        sync.Mutex  // serialises investigations (slow path only)
	confirmed atomic.Bool // set once a non-return has been confirmed
}

var apiStates sync.Map // api -> *apiState

func stateOf(api string) *apiState {
	v, _ := apiStates.LoadOrStore(api, &apiState{})
	return v.(*apiState)
}

type callResult struct {
	out      interface{}
	panicked bool
	value    interface{}
	stack    string
}

func launch(fn func() interface{}) chan callResult {
	ch := make(chan callResult, 1)
	go func() {
		defer func() {
			if e := recover(); e != nil {
				ch <- callResult{panicked: true, value: e, stack: string(debug.Stack())}
				return
			}
		}()
		ch <- callResult{out: fn()}
	}()
	return ch
}

func panicSite(stack string) string {
	sc := bufio.NewScanner(strings.NewReader(stack))
	for sc.Scan() {
		line := sc.Text()
		if strings.HasPrefix(line, "github.com/unixpickle/model3d/") {
			line = strings.TrimPrefix(line, "github.com/unixpickle/model3d/")
			if i := strings.LastIndex(line, "("); i > 0 {
				line = line[:i]
			}
			return strings.Replace(line, "[...]", "", -1)
		}
	}
	return "unknown"
}

// guarded runs fn (a library call returning its result) and reports whether it
// returned normally.
func guarded(c *vlib.Case, api string, witness func() map[string]interface{}, fn func() interface{}) (interface{}, bool) {
	st := stateOf(api)
	if st.confirmed.Load() {
		c.Undecided("skipped-after-confirmed-non-termination:" + api)
		return nil, false
	}
	finish := func(r callResult) (interface{}, bool) {
		if r.panicked {
			lines := strings.Split(r.stack, "\n")
			if len(lines) > 40 {
				lines = lines[:40]
			}
			w := witness()
			w["panic"] = fmt.Sprint(r.value)
			w["stack"] = strings.Join(lines, "\n")
			c.Violation("panic/"+panicSite(r.stack), fmt.Sprintf("panic in library code: %v", r.value), w)
			return nil, false
		}
		return r.out, true
	}
	done := launch(fn)
	select {
	case r := <-done:
		return finish(r)
	case <-time.After(firstLimit):
	}
	c.Count("guard.first_limit_missed."+api, 1)
	st.mu.Lock()
	defer st.mu.Unlock()
	if st.confirmed.Load() {
		c.Undecided("skipped-after-confirmed-non-termination:" + api)
		return nil, false
	}
	select {
	case r := <-done:
		return finish(r)
	default:
	}
	second := launch(fn)
	select {
	case <-second:
		// merely slow: give the first call the same extension
		select {
		case r := <-done:
			return finish(r)
		case <-time.After(secondLimit):
		}
	case r := <-done:
		return finish(r)
	case <-time.After(secondLimit):
	}
	st.confirmed.Store(true)
	w := witness()
	w["limits"] = fmt.Sprintf("%v, then %v alone", firstLimit, secondLimit)
	c.Violation(api+"/terminates", fmt.Sprintf("call did not return within %v and, repeated alone, not within %v either (typical cost of such a call: well below a second)", firstLimit, secondLimit), w)
	return nil, false
}
