package main

import (
	"fmt"
	"math"
	"math/rand"

	"github.com/unixpickle/model3d/model3d"
	"verif/vlib"
)

// ---------------------------------------------------------------------------
// own deterministic solids (for MarchingCubes inputs)

type fsolid struct {
	min, max C3
	f        func(C3) bool
	desc     string
}

func (s *fsolid) Min() C3 { return s.min }
func (s *fsolid) Max() C3 { return s.max }
func (s *fsolid) Contains(p C3) bool {
	if p.X < s.min.X || p.Y < s.min.Y || p.Z < s.min.Z || p.X > s.max.X || p.Y > s.max.Y || p.Z > s.max.Z {
		return false
	}
	return s.f(p)
}

func randUnit(rng *rand.Rand) C3 {
	for {
		v := model3d.XYZ(rng.NormFloat64(), rng.NormFloat64(), rng.NormFloat64())
		if n := v.Norm(); n > 1e-3 {
			return v.Scale(1 / n)
		}
	}
}

func sSphere(c C3, r float64) *fsolid {
	return &fsolid{c.AddScalar(-r), c.AddScalar(r), func(p C3) bool { return p.Dist(c) < r }, fmt.Sprintf("sphere(%v,%g)", c, r)}
}
func sBox(min, max C3) *fsolid {
	return &fsolid{min, max, func(p C3) bool { return true }, fmt.Sprintf("box(%v,%v)", min, max)}
}
func sCylinder(p1, p2 C3, r float64) *fsolid {
	axis := p2.Sub(p1)
	l := axis.Norm()
	axis = axis.Scale(1 / l)
	return &fsolid{p1.Min(p2).AddScalar(-r), p1.Max(p2).AddScalar(r), func(p C3) bool {
		v := p.Sub(p1)
		t := v.Dot(axis)
		if t < 0 || t > l {
			return false
		}
		return v.Sub(axis.Scale(t)).Norm() < r
	}, fmt.Sprintf("cylinder(%v,%v,%g)", p1, p2, r)}
}
func sTorus(c, axis C3, inner, outer float64) *fsolid {
	return &fsolid{c.AddScalar(-(inner + outer)), c.AddScalar(inner + outer), func(p C3) bool {
		v := p.Sub(c)
		h := v.Dot(axis)
		rad := v.Sub(axis.Scale(h)).Norm()
		return math.Hypot(rad-outer, h) < inner
	}, fmt.Sprintf("torus(%v,%v,%g,%g)", c, axis, inner, outer)}
}
func sUnion(a, b *fsolid) *fsolid {
	return &fsolid{a.min.Min(b.min), a.max.Max(b.max), func(p C3) bool { return a.Contains(p) || b.Contains(p) }, "(" + a.desc + " | " + b.desc + ")"}
}
func sSubtract(a, b *fsolid) *fsolid {
	return &fsolid{a.min, a.max, func(p C3) bool { return a.Contains(p) && !b.Contains(p) }, "(" + a.desc + " - " + b.desc + ")"}
}

func sPrimitive(rng *rand.Rand) *fsolid {
	c := model3d.XYZ(rng.Float64()-0.5, rng.Float64()-0.5, rng.Float64()-0.5)
	switch rng.Intn(4) {
	case 0:
		return sSphere(c, 0.25+0.35*rng.Float64())
	case 1:
		return sBox(c, c.Add(model3d.XYZ(0.2+0.6*rng.Float64(), 0.2+0.6*rng.Float64(), 0.2+0.6*rng.Float64())))
	case 2:
		return sCylinder(c, c.Add(randUnit(rng).Scale(0.3+0.6*rng.Float64())), 0.12+0.25*rng.Float64())
	default:
		o := 0.3 + 0.3*rng.Float64()
		return sTorus(c, randUnit(rng), o*(0.25+0.4*rng.Float64()), o)
	}
}

func sCSG(rng *rand.Rand, depth int) *fsolid {
	if depth == 0 || rng.Intn(4) == 0 {
		return sPrimitive(rng)
	}
	a := sCSG(rng, depth-1)
	if rng.Intn(3) == 0 {
		return sSubtract(a, sCSG(rng, depth-1))
	}
	return sUnion(a, sCSG(rng, depth-1))
}

// holedPlate is a box with k through holes: genus k.
func holedPlate(rng *rand.Rand, k int) *fsolid {
	w := float64(k) + 0.5
	b := sBox(model3d.XYZ(0, 0, 0), model3d.XYZ(w, 1.5, 0.4+0.3*rng.Float64()))
	s := b
	for i := 0; i < k; i++ {
		cx := 0.75 + float64(i)
		r := 0.2 + 0.1*rng.Float64()
		s = sSubtract(s, sCylinder(model3d.XYZ(cx, 0.75, -1), model3d.XYZ(cx, 0.75, 2), r))
	}
	s.min = s.min.AddScalar(-0.01)
	s.max = s.max.AddScalar(0.01)
	return s
}

// ---------------------------------------------------------------------------
// own meshes

type builder struct{ tris []*model3d.Triangle }

func (b *builder) tri(p, q, r C3) { b.tris = append(b.tris, &model3d.Triangle{p, q, r}) }
func (b *builder) quad(rng *rand.Rand, p1, p2, p3, p4 C3) {
	if rng.Intn(2) == 0 {
		b.tri(p1, p2, p4)
		b.tri(p2, p3, p4)
	} else {
		b.tri(p1, p2, p3)
		b.tri(p1, p3, p4)
	}
}
func (b *builder) mesh() *model3d.Mesh {
	m := model3d.NewMeshTriangles(b.tris)
	// orient outward by the sign of the enclosed volume (single component only)
	if vlib.SignedVolume(vlib.Tris(m)) < 0 {
		m2 := model3d.NewMesh()
		for _, t := range b.tris {
			m2.Add(&model3d.Triangle{t[0], t[2], t[1]})
		}
		return m2
	}
	return m
}

func monotone(rng *rand.Rand, n int) []float64 {
	// dyadic, strictly increasing coordinates
	res := make([]float64, n+1)
	x := float64(rng.Intn(9)-4) / 4
	for i := range res {
		res[i] = x
		x += float64(1+rng.Intn(4)) / 8
	}
	return res
}

// voxelMesh emits the boundary of a set of grid cells with exactly
// representable coordinates; quads get a random diagonal.
func voxelMesh(rng *rand.Rand, xs, ys, zs []float64, filled func(i, j, k int) bool) *model3d.Mesh {
	nx, ny, nz := len(xs)-1, len(ys)-1, len(zs)-1
	in := func(i, j, k int) bool {
		if i < 0 || j < 0 || k < 0 || i >= nx || j >= ny || k >= nz {
			return false
		}
		return filled(i, j, k)
	}
	b := &builder{}
	P := func(i, j, k int) C3 { return model3d.XYZ(xs[i], ys[j], zs[k]) }
	for i := 0; i < nx; i++ {
		for j := 0; j < ny; j++ {
			for k := 0; k < nz; k++ {
				if !in(i, j, k) {
					continue
				}
				if !in(i-1, j, k) {
					b.quad(rng, P(i, j, k), P(i, j, k+1), P(i, j+1, k+1), P(i, j+1, k))
				}
				if !in(i+1, j, k) {
					b.quad(rng, P(i+1, j, k), P(i+1, j+1, k), P(i+1, j+1, k+1), P(i+1, j, k+1))
				}
				if !in(i, j-1, k) {
					b.quad(rng, P(i, j, k), P(i+1, j, k), P(i+1, j, k+1), P(i, j, k+1))
				}
				if !in(i, j+1, k) {
					b.quad(rng, P(i, j+1, k), P(i, j+1, k+1), P(i+1, j+1, k+1), P(i+1, j+1, k))
				}
				if !in(i, j, k-1) {
					b.quad(rng, P(i, j, k), P(i, j+1, k), P(i+1, j+1, k), P(i+1, j, k))
				}
				if !in(i, j, k+1) {
					b.quad(rng, P(i, j, k+1), P(i+1, j, k+1), P(i+1, j+1, k+1), P(i, j+1, k+1))
				}
			}
		}
	}
	return model3d.NewMeshTriangles(b.tris)
}

func gridBox(rng *rand.Rand) (*model3d.Mesh, string) {
	nx, ny, nz := 1+rng.Intn(5), 1+rng.Intn(5), 1+rng.Intn(4)
	m := voxelMesh(rng, monotone(rng, nx), monotone(rng, ny), monotone(rng, nz), func(i, j, k int) bool { return true })
	return m, fmt.Sprintf("gridBox(%d,%d,%d)", nx, ny, nz)
}

// voxelShape grows a face-connected cell set; holes/tunnels are possible.
func voxelShape(rng *rand.Rand) (*model3d.Mesh, string) {
	nx, ny, nz := 2+rng.Intn(4), 2+rng.Intn(4), 1+rng.Intn(3)
	cells := map[[3]int]bool{}
	cur := [3]int{rng.Intn(nx), rng.Intn(ny), rng.Intn(nz)}
	cells[cur] = true
	target := 2 + rng.Intn(nx*ny*nz)
	for steps := 0; len(cells) < target && steps < 400; steps++ {
		// random walk with restarts from existing cells
		if rng.Intn(3) == 0 {
			sc := sortedCells(cells)
			cur = sc[rng.Intn(len(sc))]
		}
		d := rng.Intn(3)
		nxt := cur
		if rng.Intn(2) == 0 {
			nxt[d]++
		} else {
			nxt[d]--
		}
		if nxt[0] < 0 || nxt[1] < 0 || nxt[2] < 0 || nxt[0] >= nx || nxt[1] >= ny || nxt[2] >= nz {
			continue
		}
		cells[nxt] = true
		cur = nxt
	}
	m := voxelMesh(rng, monotone(rng, nx), monotone(rng, ny), monotone(rng, nz), func(i, j, k int) bool { return cells[[3]int{i, j, k}] })
	return m, fmt.Sprintf("voxelShape(%d,%d,%d;%d cells)", nx, ny, nz, len(cells))
}

func sortedCells(cells map[[3]int]bool) [][3]int {
	res := make([][3]int, 0, len(cells))
	for c := range cells {
		res = append(res, c)
	}
	for i := 1; i < len(res); i++ {
		for j := i; j > 0 && lessCell(res[j], res[j-1]); j-- {
			res[j], res[j-1] = res[j-1], res[j]
		}
	}
	return res
}

func lessCell(a, b [3]int) bool {
	for k := 0; k < 3; k++ {
		if a[k] != b[k] {
			return a[k] < b[k]
		}
	}
	return false
}

// platePunched: flat plate of cells with k separate holes punched: genus k.
func platePunched(rng *rand.Rand, k int) (*model3d.Mesh, string) {
	nx, ny := 2*k+1, 3
	m := voxelMesh(rng, monotone(rng, nx), monotone(rng, ny), monotone(rng, 1), func(i, j, _ int) bool {
		return !(j == 1 && i%2 == 1)
	})
	return m, fmt.Sprintf("platePunched(genus %d)", k)
}

func tinyMesh(rng *rand.Rand) (*model3d.Mesh, string) {
	b := &builder{}
	rp := func(s float64) C3 {
		return model3d.XYZ(rng.Float64()-0.5, rng.Float64()-0.5, rng.Float64()-0.5).Scale(s)
	}
	switch rng.Intn(5) {
	case 4: // cap: a triangle with a fourth vertex over its interior (a flat
		// tetrahedron when the cap is low; every edge flip would duplicate an edge)
		a, b, cc := model3d.XYZ(1, 0, 0).Add(rp(0.4)), model3d.XYZ(-0.5, 0.8, 0).Add(rp(0.4)), model3d.XYZ(-0.5, -0.8, 0).Add(rp(0.4))
		top := a.Add(b).Add(cc).Scale(1.0 / 3).Add(rp(0.2)).Add(model3d.Z(0.05 + rng.Float64()))
		b2 := &builder{}
		b2.tri(a, cc, b)
		b2.tri(a, b, top)
		b2.tri(b, cc, top)
		b2.tri(cc, a, top)
		return b2.mesh(), "cap-tetrahedron"
	case 0: // tetrahedron
		p := []C3{model3d.XYZ(1, 1, 1), model3d.XYZ(1, -1, -1), model3d.XYZ(-1, 1, -1), model3d.XYZ(-1, -1, 1)}
		for i := range p {
			p[i] = p[i].Add(rp(0.8))
		}
		b.tri(p[0], p[1], p[2])
		b.tri(p[0], p[3], p[1])
		b.tri(p[0], p[2], p[3])
		b.tri(p[1], p[3], p[2])
		return b.mesh(), "tetrahedron"
	case 1: // bipyramid over a k-gon (k=3: non-face 3-cycle)
		k := 3 + rng.Intn(4)
		top, bot := model3d.XYZ(0, 0, 1).Add(rp(0.3)), model3d.XYZ(0, 0, -1).Add(rp(0.3))
		ring := make([]C3, k)
		for i := range ring {
			a := 2 * math.Pi * float64(i) / float64(k)
			ring[i] = model3d.XYZ(math.Cos(a), math.Sin(a), 0).Add(rp(0.3))
		}
		for i := 0; i < k; i++ {
			j := (i + 1) % k
			b.tri(ring[i], ring[j], top)
			b.tri(ring[j], ring[i], bot)
		}
		return b.mesh(), fmt.Sprintf("bipyramid(%d)", k)
	case 2: // prism over a k-gon, h layers
		k := 3 + rng.Intn(4)
		h := 1 + rng.Intn(4)
		layer := func(l int) []C3 {
			res := make([]C3, k)
			for i := range res {
				a := 2 * math.Pi * float64(i) / float64(k)
				res[i] = model3d.XYZ(math.Cos(a)*0.5, math.Sin(a)*0.5, float64(l)*0.7)
			}
			return res
		}
		ls := make([][]C3, h+1)
		for l := range ls {
			ls[l] = layer(l)
			for i := range ls[l] {
				ls[l][i] = ls[l][i].Add(rp(0.1))
			}
		}
		for i := 1; i+1 < k; i++ {
			b.tri(ls[0][0], ls[0][i+1], ls[0][i])
			b.tri(ls[h][0], ls[h][i], ls[h][i+1])
		}
		for l := 0; l < h; l++ {
			for i := 0; i < k; i++ {
				j := (i + 1) % k
				b.quad(rng, ls[l][i], ls[l][j], ls[l+1][j], ls[l+1][i])
			}
		}
		return b.mesh(), fmt.Sprintf("prism(%d,%d)", k, h)
	default: // octahedron
		p := []C3{model3d.X(1), model3d.X(-1), model3d.Y(1), model3d.Y(-1), model3d.Z(1), model3d.Z(-1)}
		for i := range p {
			p[i] = p[i].Add(rp(0.5))
		}
		for _, f := range [][3]int{{0, 2, 4}, {2, 1, 4}, {1, 3, 4}, {3, 0, 4}, {2, 0, 5}, {1, 2, 5}, {3, 1, 5}, {0, 3, 5}} {
			b.tri(p[f[0]], p[f[1]], p[f[2]])
		}
		return b.mesh(), "octahedron"
	}
}

// affine applies a rotation after an axis scaling (orientation preserving),
// with the harness's own arithmetic.
func affine(m *model3d.Mesh, scale C3, axis C3, angle float64, shift C3) *model3d.Mesh {
	c, s := math.Cos(angle), math.Sin(angle)
	rot := func(p C3) C3 {
		// Rodrigues
		return p.Scale(c).Add(axis.Cross(p).Scale(s)).Add(axis.Scale(axis.Dot(p) * (1 - c)))
	}
	res := model3d.NewMesh()
	for _, t := range m.TriangleSlice() {
		var t1 model3d.Triangle
		for i, p := range t {
			t1[i] = rot(model3d.XYZ(p.X*scale.X, p.Y*scale.Y, p.Z*scale.Z)).Add(shift)
		}
		res.Add(&t1)
	}
	return res
}

func inverted(m *model3d.Mesh) *model3d.Mesh {
	res := model3d.NewMesh()
	for _, t := range m.TriangleSlice() {
		res.Add(&model3d.Triangle{t[0], t[2], t[1]})
	}
	return res
}

func combine(ms ...*model3d.Mesh) *model3d.Mesh {
	res := model3d.NewMesh()
	for _, m := range ms {
		for _, t := range m.TriangleSlice() {
			t1 := *t
			res.Add(&t1)
		}
	}
	return res
}

const (
	gIco = iota
	gTorus
	gGridBox
	gVoxel
	gMC
	gTiny
	gMulti
	gSliver
	gSubdivided
	gGenus
	gCollide
	gKinds
	gFlatTiny = gKinds // only on request
)

var kindNames = []string{"icosphere", "torus", "gridbox", "voxel", "mc", "tiny", "multi", "sliver", "subdivided", "genus", "hash-colliding", "flat-tiny"}

func baseMesh(rng *rand.Rand, kind int, maxFaces int) (*model3d.Mesh, string, bool) {
	switch kind {
	case gIco:
		n := 1 + rng.Intn(4)
		for 20*n*n > maxFaces && n > 1 {
			n--
		}
		c := model3d.XYZ(rng.Float64()-0.5, rng.Float64()-0.5, rng.Float64()-0.5)
		r := 0.3 + 1.2*rng.Float64()
		m := model3d.NewMeshIcosphere(c, r, n)
		d := fmt.Sprintf("icosphere(%v,%g,%d)", c, r, n)
		if rng.Intn(2) == 0 {
			sc := model3d.XYZ(0.4+0.6*rng.Float64(), 0.4+0.6*rng.Float64(), 0.4+0.6*rng.Float64())
			ax, an := randUnit(rng), rng.Float64()*6
			m = affine(m, sc, ax, an, C3{})
			d += fmt.Sprintf(".affine(%v,%v,%g)", sc, ax, an)
		}
		return m, d, false
	case gTorus:
		outer := 0.5 + 0.7*rng.Float64()
		inner := outer * (0.15 + 0.6*rng.Float64())
		is, os := 3+rng.Intn(6), 3+rng.Intn(12)
		for 2*is*os > maxFaces {
			os--
		}
		c := model3d.XYZ(rng.Float64()-0.5, rng.Float64()-0.5, rng.Float64()-0.5)
		ax := randUnit(rng)
		return model3d.NewMeshTorus(c, ax, inner, outer, is, os), fmt.Sprintf("torus(%v,%v,%g,%g,%d,%d)", c, ax, inner, outer, is, os), false
	case gGridBox:
		m, d := gridBox(rng)
		if rng.Intn(2) == 0 {
			ax, an := randUnit(rng), rng.Float64()*6
			m = affine(m, model3d.XYZ(1, 1, 1), ax, an, C3{})
			d += fmt.Sprintf(".rot(%v,%g)", ax, an)
		}
		return m, d, true
	case gVoxel:
		m, d := voxelShape(rng)
		if rng.Intn(3) == 0 {
			ax, an := randUnit(rng), rng.Float64()*6
			m = affine(m, model3d.XYZ(1, 1, 1), ax, an, C3{})
			d += fmt.Sprintf(".rot(%v,%g)", ax, an)
		}
		return m, d, true
	case gMC:
		s := sCSG(rng, 2)
		ext := s.max.Sub(s.min)
		delta := math.Max(ext.X, math.Max(ext.Y, ext.Z)) / float64(8+rng.Intn(10))
		m := model3d.MarchingCubes(s, delta)
		return m, fmt.Sprintf("MarchingCubes(%s,%g)", s.desc, delta), false
	case gTiny:
		m, d := tinyMesh(rng)
		return m, d, false
	case gCollide:
		if m, d, ok := collidingBipyramid(rng); ok {
			return m, d, false
		}
		m, d := tinyMesh(rng)
		return m, d, false
	case gMulti:
		a, da, _ := baseMesh(rng, []int{gIco, gTorus, gGridBox, gTiny}[rng.Intn(4)], maxFaces/2)
		if rng.Intn(2) == 0 {
			// nested shell: inverted smaller copy inside an icosphere
			outer := model3d.NewMeshIcosphere(C3{}, 1, 2)
			inner := inverted(model3d.NewMeshIcosphere(model3d.XYZ(0.1, 0, 0), 0.5, 1+rng.Intn(2)))
			return combine(outer, inner), "shell(icosphere(1,2) - icosphere(0.5))", false
		}
		b, db, _ := baseMesh(rng, []int{gIco, gTorus, gGridBox, gTiny}[rng.Intn(4)], maxFaces/2)
		b = affine(b, model3d.XYZ(1, 1, 1), model3d.Z(1), 0, model3d.XYZ(8, 0.25, 0))
		return combine(a, b), "two(" + da + " ; " + db + "+(8,0.25,0))", false
	case gSliver:
		a, da, _ := baseMesh(rng, []int{gIco, gTorus, gTiny}[rng.Intn(3)], maxFaces)
		f := math.Pow(10, -1-3*rng.Float64())
		sc := model3d.XYZ(1, 1, f)
		ax, an := randUnit(rng), rng.Float64()*6
		return affine(a, sc, ax, an, C3{}), fmt.Sprintf("sliver(%s,z*%g,rot %v %g)", da, f, ax, an), false
	case gFlatTiny:
		a, da := tinyMesh(rng)
		f := math.Pow(10, -1.5-2*rng.Float64())
		ax, an := randUnit(rng), rng.Float64()*6
		return affine(a, model3d.XYZ(1, 1, f), ax, an, C3{}), fmt.Sprintf("flat(%s,z*%g,rot %v %g)", da, f, ax, an), false
	case gSubdivided:
		var m *model3d.Mesh
		var d string
		switch rng.Intn(4) {
		case 0:
			m, d = model3d.NewMeshIcosahedron(), "icosahedron"
		case 1:
			m, d = model3d.NewMeshRect(model3d.XYZ(-0.5, -0.25, 0), model3d.XYZ(0.75, 0.5, 1)), "rect"
		case 2:
			m, d = model3d.NewMeshTorus(C3{}, model3d.Z(1), 0.3, 1, 3+rng.Intn(2), 3+rng.Intn(3)), "coarse-torus"
		default:
			m, d = tinyMesh(rng)
		}
		n := 2 + rng.Intn(4)
		for m.NumTriangles()*n*n > maxFaces && n > 2 {
			n--
		}
		return model3d.SubdivideEdges(m, n), fmt.Sprintf("SubdivideEdges(%s,%d)", d, n), true
	default: // gGenus
		k := 2 + rng.Intn(2)
		if rng.Intn(2) == 0 {
			m, d := platePunched(rng, k)
			return m, d, true
		}
		s := holedPlate(rng, k)
		delta := 1.0 / float64(8+rng.Intn(5))
		return model3d.MarchingCubes(s, delta), fmt.Sprintf("MarchingCubes(holedPlate(%d),%g)", k, delta), false
	}
}

// genMesh returns a certified input of the requested kind (-1: any).
func genMesh(c *vlib.Case, rng *rand.Rand, kind int, maxFaces int) *minfo {
	for try := 0; try < 8; try++ {
		k := kind
		if k < 0 {
			k = rng.Intn(gKinds)
		}
		m, desc, flat := baseMesh(rng, k, maxFaces)
		if m.NumTriangles() > maxFaces*2 {
			c.Count("gen.rejected.too-big", 1)
			continue
		}
		inf, ok := certify(m, desc, flat)
		if !ok {
			c.Count("gen.rejected."+kindNames[k], 1)
			continue
		}
		c.Count("gen."+kindNames[k], 1)
		g := 0
		if inf.topo.Components > 0 {
			g = (2*inf.topo.Components - inf.topo.Euler) / 2
		}
		if g > 3 {
			g = 3
		}
		c.Count(fmt.Sprintf("gen.total-genus.%d", g), 1)
		if inf.topo.Components > 1 {
			c.Count("gen.multi-component", 1)
		}
		return inf
	}
	return nil
}

func pick(rng *rand.Rand, ks ...int) int { return ks[rng.Intn(len(ks))] }
