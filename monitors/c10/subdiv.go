package main

import (
	"fmt"
	"math"
	"sort"

	"github.com/unixpickle/model3d/model3d"
	"verif/vlib"
)

func freshMesh(in *minfo) *model3d.Mesh {
	m := model3d.NewMesh()
	for _, t := range in.tris {
		m.Add(&model3d.Triangle{t[0], t[1], t[2]})
	}
	return m
}

// inputUntouched: operations documented to create a new mesh must leave the
// argument's faces as they were.
func inputUntouched(c *vlib.Case, api string, in *minfo, extra map[string]interface{}) {
	now := vlib.CanonTris(vlib.Tris(in.mesh))
	if ok, why := vlib.EqualCanonTris(vlib.CanonTris(in.tris), now); !ok {
		c.Violation(api+"/input-mutated", "the input mesh was modified by an operation that returns a new mesh: "+why, in.witness(extra))
	}
}

func measureCheck(c *vlib.Case, api string, in *minfo, out []vlib.Tri, extra map[string]interface{}) {
	va, vb := vlib.SignedVolume(in.tris), vlib.SignedVolume(out)
	vs := volScale(in.tris) + volScale(out)
	c.Count("measure.checked."+api, 1)
	if d := math.Abs(va - vb); d > 1e-9*vs {
		c.Violationf(api+"/volume", in.witness(extra), "enclosed volume changed from %.17g to %.17g (difference %.3g, rounding scale %.3g)", va, vb, d, vs)
	} else if vs > 0 {
		c.Max("worst_rel_volume_change."+api, d/vs)
	}
	aa, ab := vlib.Area3(in.tris), vlib.Area3(out)
	as := areaScale(in.tris) + areaScale(out)
	if d := math.Abs(aa - ab); d > 1e-9*as {
		c.Violationf(api+"/area", in.witness(extra), "surface area changed from %.17g to %.17g (difference %.3g, rounding scale %.3g)", aa, ab, d, as)
	} else if as > 0 {
		c.Max("worst_rel_area_change."+api, d/as)
	}
}

func secSubdivideEdges(r *vlib.Run) {
	const api = "model3d.SubdivideEdges"
	r.Section("subdivide-edges", r.N(300, 5000), vlib.SectionOpts{}, func(c *vlib.Case) {
		rng := c.Rng
		in := genMesh(c, rng, -1, 1500)
		if in == nil {
			c.Undecided("no-certified-input")
			return
		}
		n := 1 + rng.Intn(6)
		for in.topo.Faces*n*n > 24000 && n > 1 {
			n--
		}
		extra := map[string]interface{}{"n": n}
		out := vlib.Tris(model3d.SubdivideEdges(in.mesh, n))
		c.Count("calls."+api, 1)
		c.Nontrivial(fmt.Sprintf("subdiv|%s|%d", in.desc, n))
		inputUntouched(c, api, in, extra)
		// new vertices are identified by coordinates: on a self-touching input two
		// edge points can coincide bit for bit (e.g. crossing diagonals sharing a
		// midpoint); such outputs have fewer distinct vertices and are undecided
		wantV := in.topo.Vertices + (n-1)*in.topo.Edges + (n-1)*(n-2)/2*in.topo.Faces
		t, ok := checkTopo(c, api, in, out, topoOpts{moved: true, expectV: wantV}, extra)
		if len(out) != n*n*in.topo.Faces {
			c.Violationf(api+"/face-count", in.witness(extra), "%d faces, expected n^2*F = %d", len(out), n*n*in.topo.Faces)
		}
		if ok {
			if t.Vertices != wantV {
				c.Violationf(api+"/vertex-count", in.witness(extra), "%d distinct vertices, expected V+(n-1)E+(n-1)(n-2)/2*F = %d", t.Vertices, wantV)
			}
		}
		measureCheck(c, api, in, out, extra)
		// original vertices are kept bit-exactly; new ones lie on the old surface
		outV := vertexSet(out)
		for p := range in.im.vid {
			if !outV[p] {
				c.Violationf(api+"/keeps-vertices", in.witness(extra), "input vertex %s is not a vertex of the result", hex3(p))
				break
			}
		}
		var cand []C3
		for p := range outV {
			if _, ok := in.im.vid[p]; !ok {
				cand = append(cand, p)
			}
		}
		budget := 2000000 / (len(in.tris) + 1)
		tol := 1e-7 * (in.size + in.maxA)
		for i := 0; i < len(cand) && i < budget; i++ {
			p := cand[(i*7919)%len(cand)]
			if d := vlib.MinDistToTris(p, in.tris); d > tol {
				c.Violationf(api+"/on-surface", in.witness(extra), "new vertex %s is %.3g away from the input surface", hex3(p), d)
				break
			}
			c.Count("subdivide.on_surface_checked", 1)
		}
	})
}

// loopReference recomputes one Loop step from the published masks.
func loopReference(im *imesh) ([]C3, [][3]int) {
	nb := im.neighbors()
	opp := im.edgeOpposites()
	pts := make([]C3, len(im.pts))
	for i, p := range im.pts {
		n := float64(len(nb[i]))
		beta := 3.0 / (8 * n)
		if len(nb[i]) == 3 {
			beta = 3.0 / 16
		}
		var sum C3
		for _, j := range nb[i] {
			sum = sum.Add(im.pts[j])
		}
		pts[i] = p.Scale(1 - n*beta).Add(sum.Scale(beta))
	}
	eid := map[uedge]int{}
	edgePoint := func(a, b int) int {
		e := mkEdge(a, b)
		if i, ok := eid[e]; ok {
			return i
		}
		o := opp[e]
		var q C3
		q = im.pts[a].Add(im.pts[b]).Scale(3.0 / 8)
		if len(o) == 2 {
			q = q.Add(im.pts[o[0]].Add(im.pts[o[1]]).Scale(1.0 / 8))
		}
		i := len(pts)
		pts = append(pts, q)
		eid[e] = i
		return i
	}
	var faces [][3]int
	for _, f := range im.faces {
		m1, m2, m3 := edgePoint(f[0], f[1]), edgePoint(f[1], f[2]), edgePoint(f[2], f[0])
		faces = append(faces, [3]int{m1, m2, m3}, [3]int{f[0], m1, m3}, [3]int{m1, f[1], m2}, [3]int{m3, m2, f[2]})
	}
	return pts, faces
}

func secLoop(r *vlib.Run) {
	const api = "model3d.LoopSubdivision"
	r.Section("loop-subdivision", r.N(360, 4800), vlib.SectionOpts{}, func(c *vlib.Case) {
		rng := c.Rng
		in := genMesh(c, rng, -1, 1200)
		if in == nil {
			c.Undecided("no-certified-input")
			return
		}
		iters := 1
		if in.topo.Faces <= 300 && rng.Intn(3) == 0 {
			iters = 2
		}
		extra := map[string]interface{}{"iters": iters}
		out := vlib.Tris(model3d.LoopSubdivision(in.mesh, iters))
		c.Count("calls."+api, 1)
		c.Nontrivial(fmt.Sprintf("loop|%s|%d", in.desc, iters))
		inputUntouched(c, api, in, extra)
		// masks
		im := in.im
		var pts []C3
		var faces [][3]int
		tol := 1e-11 * (in.maxA + in.size)
		for i := 0; i < iters; i++ {
			pts, faces = loopReference(im)
			im = &imesh{pts: pts, faces: faces}
			if i+1 < iters && closePair3(pts, 4*tol) {
				c.Undecided("loop-masks:intermediate level has coincident points")
				return
			}
		}
		wantV, e, f := in.topo.Vertices, in.topo.Edges, in.topo.Faces
		for i := 0; i < iters; i++ {
			wantV, e, f = wantV+e, 2*e+3*f, 4*f
		}
		checkTopo(c, api, in, out, topoOpts{moved: true, expectV: wantV}, extra)
		if len(out) != f {
			c.Violationf(api+"/face-count", in.witness(extra), "%d faces, expected 4^iters*F = %d", len(out), f)
		}
		res := matchFaces(pts, faces, out, tol)
		switch {
		case res.undecided:
			c.Undecided("loop-masks:" + res.msg)
		case !res.ok:
			c.Violation(api+"/masks", "result differs from the Loop masks (edge 3/8,3/8,1/8,1/8; vertex 1-n*beta, beta) recomputed independently: "+res.msg, in.witness(extra))
		default:
			c.Count("loop.masks_matched", 1)
			c.Max("worst_mask_residual."+api, res.worst)
		}
	})
}

type segKey [2]C3

func mkSegKey(a, b C3) segKey {
	a, b = nz(a), nz(b)
	if a.X < b.X || (a.X == b.X && a.Y < b.Y) || (a.X == b.X && a.Y == b.Y && a.Z < b.Z) {
		return segKey{a, b}
	}
	return segKey{b, a}
}

// edgeList lists the distinct undirected edges in face-list order.
func edgeList(tris []vlib.Tri) []segKey {
	seen := map[segKey]bool{}
	var res []segKey
	for _, t := range tris {
		for k := 0; k < 3; k++ {
			e := mkSegKey(t[k], t[(k+1)%3])
			if !seen[e] {
				seen[e] = true
				res = append(res, e)
			}
		}
	}
	return res
}

func edgeSetOf(tris []vlib.Tri) map[segKey]int {
	res := map[segKey]int{}
	for _, t := range tris {
		for k := 0; k < 3; k++ {
			res[mkSegKey(t[k], t[(k+1)%3])]++
		}
	}
	return res
}

func secSubdivider(r *vlib.Run) {
	const api = "model3d.Subdivider.Subdivide"
	r.Section("subdivider", r.N(480, 6400), vlib.SectionOpts{}, func(c *vlib.Case) {
		rng := c.Rng
		in := genMesh(c, rng, -1, 1500)
		if in == nil {
			c.Undecided("no-certified-input")
			return
		}
		edges := edgeSetOf(in.tris)
		p := []float64{0.03, 0.3, 0.7, 1}[rng.Intn(4)]
		exact := rng.Intn(2) == 0
		useFilter := rng.Intn(3) == 0
		sub := model3d.NewSubdivider()
		flagged := map[segKey]bool{}
		if useFilter {
			// symmetric predicate: long edges
			el := edgeList(in.tris)
			pe := el[rng.Intn(len(el))]
			thr := pe[0].Dist(pe[1])
			sub.AddFiltered(in.mesh, func(p1, p2 C3) bool {
				return p1.Dist(p2) >= thr
			})
			for e := range edges {
				if e[0].Dist(e[1]) >= thr {
					flagged[e] = true
				}
			}
		} else {
			// deterministic order: iterate the face list
			for _, t := range in.tris {
				for k := 0; k < 3; k++ {
					e := mkSegKey(t[k], t[(k+1)%3])
					if _, seen := flagged[e]; seen {
						continue
					}
					flagged[e] = rng.Float64() < p
					if flagged[e] {
						if rng.Intn(2) == 0 {
							sub.Add(t[k], t[(k+1)%3])
						} else {
							sub.Add(t[(k+1)%3], t[k])
						}
					}
				}
			}
			for e, f := range flagged {
				if !f {
					delete(flagged, e)
				}
			}
		}
		extra := map[string]interface{}{"flagged": len(flagged), "exact_midpoints": exact, "filter": useFilter}
		if sub.NumSegments() != len(flagged) {
			c.Violationf("model3d.Subdivider.NumSegments/count", in.witness(extra), "NumSegments()=%d after flagging %d distinct edges", sub.NumSegments(), len(flagged))
		}
		calls := map[segKey]int{}
		mids := map[segKey]C3{}
		midSet := map[C3]bool{}
		m := freshMesh(in)
		sub.Subdivide(m, func(p1, p2 C3) C3 {
			k := mkSegKey(p1, p2)
			calls[k]++
			mid := k[0].Add(k[1]).Scale(0.5)
			if !exact {
				// deterministic displacement from the coordinates, well below the edge length
				h := math.Sin(k[0].X*12.9898+k[0].Y*78.233+k[1].Z*37.719+k[1].X*3.1) * 0.2
				d := k[0].Dist(k[1])
				mid = mid.Add(model3d.XYZ(h, math.Cos(h*9), math.Sin(h*5)).Scale(0.1 * d))
			}
			mids[k] = mid
			midSet[nz(mid)] = true
			return mid
		})
		out := vlib.Tris(m)
		c.Count("calls."+api, 1)
		c.Count("subdivider.flagged_edges", int64(len(flagged)))
		c.Nontrivial(fmt.Sprintf("subdivider|%s|%d|%v|%v", in.desc, len(flagged), exact, useFilter))
		// callback discipline
		for k, n := range calls {
			if !flagged[k] {
				c.Violationf(api+"/callback", in.witness(extra), "midpoint callback invoked for %s-%s which was not flagged", hex3(k[0]), hex3(k[1]))
				break
			}
			if n != 1 {
				c.Violationf(api+"/callback", in.witness(extra), "midpoint callback invoked %d times for one segment", n)
				break
			}
		}
		if len(calls) != len(flagged) {
			c.Violationf(api+"/callback", in.witness(extra), "midpoint callback saw %d segments, %d were flagged", len(calls), len(flagged))
		}
		t, ok := checkTopo(c, api, in, out, topoOpts{moved: true, expectV: in.topo.Vertices + len(flagged)}, extra)
		if t == nil {
			return
		}
		if len(out) != in.topo.Faces+2*len(flagged) {
			c.Violationf(api+"/face-count", in.witness(extra), "%d faces, expected F + 2*flagged = %d", len(out), in.topo.Faces+2*len(flagged))
		}
		if ok && t.Vertices != in.topo.Vertices+len(flagged) {
			c.Violationf(api+"/vertex-count", in.witness(extra), "%d vertices, expected V + flagged = %d", t.Vertices, in.topo.Vertices+len(flagged))
		}
		for p := range vertexSet(out) {
			if _, isOld := in.im.vid[p]; !isOld && !midSet[p] {
				c.Violationf(api+"/midpoints-from-callback", in.witness(extra), "output vertex %s is neither an input vertex nor a value returned by the midpoint callback", hex3(p))
				break
			}
		}
		outEdges := edgeSetOf(out)
		for e := range edges {
			if flagged[e] {
				mid := mids[e]
				if outEdges[e] != 0 && !(mid == e[0] || mid == e[1]) {
					c.Violationf(api+"/only-flagged-split", in.witness(extra), "flagged edge %s-%s is still an edge of the result", hex3(e[0]), hex3(e[1]))
					break
				}
				if outEdges[mkSegKey(e[0], mid)] != 2 || outEdges[mkSegKey(mid, e[1])] != 2 {
					c.Violationf(api+"/only-flagged-split", in.witness(extra), "flagged edge %s-%s was not replaced by two edges through the callback midpoint %s", hex3(e[0]), hex3(e[1]), hex3(mid))
					break
				}
			} else if outEdges[e] != 2 {
				c.Violationf(api+"/only-flagged-split", in.witness(extra), "unflagged edge %s-%s is used by %d faces of the result (expected 2)", hex3(e[0]), hex3(e[1]), outEdges[e])
				break
			}
		}
		if exact {
			measureCheck(c, api, in, out, extra)
		}
	})
}

// closePair3 reports whether two of the points are within tol of each other.
func closePair3(pts []C3, tol float64) bool {
	order := make([]int, len(pts))
	for i := range order {
		order[i] = i
	}
	sort.Slice(order, func(a, b int) bool { return pts[order[a]].X < pts[order[b]].X })
	for i := range order {
		for j := i + 1; j < len(order) && pts[order[j]].X-pts[order[i]].X <= tol; j++ {
			if pts[order[i]].Dist(pts[order[j]]) <= tol {
				return true
			}
		}
	}
	return false
}
