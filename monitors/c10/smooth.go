package main

import (
	"fmt"
	"math"

	"github.com/unixpickle/model3d/model3d"
	"verif/vlib"
)

// blurReference applies the documented rule with the harness's own adjacency.
func blurReference(im *imesh, nb [][]int, rates []float64) []C3 {
	cur := append([]C3{}, im.pts...)
	for _, rate := range rates {
		next := make([]C3, len(cur))
		for i, p := range cur {
			if len(nb[i]) == 0 {
				next[i] = p
				continue
			}
			var sum C3
			for _, j := range nb[i] {
				sum = sum.Add(cur[j])
			}
			if rate == -1 {
				next[i] = sum.Add(p).Scale(1 / float64(len(nb[i])+1))
			} else {
				next[i] = sum.Scale(1 / float64(len(nb[i]))).Scale(rate).Add(p.Scale(1 - rate))
			}
		}
		cur = next
	}
	return cur
}

func secBlur(r *vlib.Run) {
	r.Section("blur", r.N(780, 10400), vlib.SectionOpts{}, func(c *vlib.Case) {
		rng := c.Rng
		in := genMesh(c, rng, -1, 2500)
		if in == nil {
			c.Undecided("no-certified-input")
			return
		}
		var rates []float64
		kind := rng.Intn(6)
		switch kind {
		case 0:
			rates = []float64{0}
		case 1:
			rates = []float64{1}
		case 2:
			rates = []float64{-1}
		case 3:
			rates = []float64{rng.Float64()}
		case 4:
			rates = []float64{0, 0, 0}
		default:
			for i, n := 0, 2+rng.Intn(4); i < n; i++ {
				rates = append(rates, []float64{0, 1, -1, rng.Float64(), 0.5}[rng.Intn(5)])
			}
		}
		api := "model3d.Mesh.Blur"
		nb := in.im.neighbors()
		extra := map[string]interface{}{"rates": rates}
		var out []vlib.Tri
		directed := false
		var altNb [][][]int
		if rng.Intn(3) == 0 {
			api = "model3d.Mesh.BlurFiltered"
			// symmetric pure predicate: both ends on the same side of a plane
			n := randUnit(rng)
			d := n.Dot(in.im.pts[rng.Intn(len(in.im.pts))])
			pred := func(a, b C3) bool { return (n.Dot(a) > d) == (n.Dot(b) > d) }
			extra["plane"] = fmt.Sprintf("n=%s d=%x", hex3(n), d)
			if rng.Intn(3) == 0 {
				// a directed predicate: f(a,b) != f(b,a) (e.g. "only vertices above the plane take
				// part", judged on the first argument). The documentation does not say which end is
				// which, so any reading that is applied consistently to all pairs is accepted.
				directed = true
				if rng.Intn(2) == 0 {
					pred = func(a, b C3) bool { return n.Dot(a) > d }
					extra["predicate"] = "first argument above the plane"
				} else {
					pred = func(a, b C3) bool { return n.Dot(a) > n.Dot(b) }
					extra["predicate"] = "first argument higher than the second along n"
				}
				c.Count("blur.directed_predicates", 1)
			}
			badArg := false
			out = vlib.Tris(in.mesh.BlurFiltered(func(a, b C3) bool {
				if _, ok := in.im.vid[nz(a)]; !ok {
					badArg = true
				}
				if _, ok := in.im.vid[nz(b)]; !ok {
					badArg = true
				}
				return pred(a, b)
			}, rates...))
			if badArg {
				c.Violation(api+"/filter-argument", "the neighbour filter was called with a coordinate that is not an initial vertex", in.witness(extra))
			}
			if directed {
				readings := []func(a, b C3) bool{
					pred,
					func(a, b C3) bool { return pred(b, a) },
					func(a, b C3) bool { return pred(a, b) || pred(b, a) },
					func(a, b C3) bool { return pred(a, b) && pred(b, a) },
				}
				for _, rd := range readings[1:] {
					alt := make([][]int, len(nb))
					for i := range nb {
						for _, j := range nb[i] {
							if rd(in.im.pts[i], in.im.pts[j]) {
								alt[i] = append(alt[i], j)
							}
						}
					}
					altNb = append(altNb, alt)
				}
			}
			for i := range nb {
				var keep []int
				for _, j := range nb[i] {
					if pred(in.im.pts[i], in.im.pts[j]) {
						keep = append(keep, j)
					}
				}
				nb[i] = keep
			}
		} else {
			out = vlib.Tris(in.mesh.Blur(rates...))
		}
		c.Count("calls."+api, 1)
		c.Nontrivial(fmt.Sprintf("blur|%s|%v|%s", in.desc, rates, api))
		inputUntouched(c, api, in, extra)
		allZero := true
		for _, x := range rates {
			if x != 0 {
				allZero = false
			}
		}
		if allZero {
			c.Count("blur.rate0_cases", 1)
			if ok, why := vlib.EqualCanonTris(vlib.CanonTris(out), in.tris); !ok {
				c.Violation(api+"/rate-0-identity", "rate 0 is documented as no movement but the faces changed: "+why, in.witness(extra))
			}
			return
		}
		checkTopo(c, api, in, out, topoOpts{moved: true, expectV: in.topo.Vertices}, extra)
		want := blurReference(in.im, nb, rates)
		tol := 1e-11 * (in.maxA + in.size) * float64(len(rates))
		res := matchFaces(want, in.im.faces, out, tol)
		for _, alt := range altNb {
			if res.ok || res.undecided {
				break
			}
			if r2 := matchFaces(blurReference(in.im, alt, rates), in.im.faces, out, tol); r2.ok {
				res = r2
				c.Count("blur.directed_predicates_matched_under_another_consistent_reading", 1)
			}
		}
		clause := "/rule"
		if len(rates) == 1 && rates[0] == 1 {
			clause = "/rate-1-neighbour-mean"
			c.Count("blur.rate1_cases", 1)
		} else if len(rates) == 1 && rates[0] == -1 {
			clause = "/rate-minus-1"
			c.Count("blur.rate_minus1_cases", 1)
		}
		switch {
		case res.undecided:
			c.Undecided("blur-rule:" + res.msg)
		case !res.ok:
			c.Violation(api+clause, "result differs from the documented rule ((1-r)*v + r*mean(neighbours); -1: mean of v and neighbours) recomputed independently: "+res.msg, in.witness(extra))
		default:
			c.Count("blur.rule_matched", 1)
			c.Max("worst_rule_residual."+api, res.worst)
		}
	})
}

// areaGrad is the gradient of the total area with respect to every vertex,
// from the closed form d|t|/da = n x (c-b) / 2.
func areaGrad(pts []C3, faces [][3]int) ([]C3, bool) {
	g := make([]C3, len(pts))
	for _, f := range faces {
		a, b, cc := pts[f[0]], pts[f[1]], pts[f[2]]
		n := b.Sub(a).Cross(cc.Sub(a))
		l := n.Norm()
		if l == 0 {
			return nil, false
		}
		n = n.Scale(1 / l)
		g[f[0]] = g[f[0]].Add(n.Cross(cc.Sub(b)).Scale(0.5))
		g[f[1]] = g[f[1]].Add(n.Cross(a.Sub(cc)).Scale(0.5))
		g[f[2]] = g[f[2]].Add(n.Cross(b.Sub(a)).Scale(0.5))
	}
	return g, true
}

type smootherRef struct {
	step       float64
	iters      int
	weight     float64
	dist       float64
	hard       func(C3) bool
	cfunc      func(origin, cur C3) C3 // MeshSmoother.ConstraintFunc
	voxelLimit float64                 // > 0: VoxelSmoother
}

func (s *smootherRef) run(im *imesh) ([]C3, bool) {
	cur := append([]C3{}, im.pts...)
	for it := 0; it < s.iters; it++ {
		next := append([]C3{}, cur...)
		if s.weight != 0 {
			for i, p := range next {
				d := im.pts[i].Sub(p)
				if s.dist > 0 {
					n := d.Norm()
					if n <= s.dist {
						continue
					}
					d = d.Scale((n - s.dist) / n)
				}
				next[i] = p.Add(d.Scale(2 * s.weight * s.step))
			}
		}
		if s.cfunc != nil {
			// documented: called with the original and the current position, its result is added
			// times the step size (after the quadratic constraint, before the area term)
			for i, p := range next {
				next[i] = p.Add(s.cfunc(im.pts[i], p).Scale(s.step))
			}
		}
		g, ok := areaGrad(cur, im.faces)
		if !ok {
			return nil, false
		}
		for i := range next {
			next[i] = next[i].Sub(g[i].Scale(s.step))
		}
		if s.hard != nil {
			for i, p := range im.pts {
				if s.hard(p) {
					next[i] = p
				}
			}
		}
		if s.voxelLimit > 0 {
			for i, p := range next {
				o := im.pts[i]
				l := model3d.XYZ(s.voxelLimit, s.voxelLimit, s.voxelLimit)
				next[i] = p.Max(o.Sub(l)).Min(o.Add(l))
			}
		}
		cur = next
	}
	return cur, true
}

func secSmoothers(r *vlib.Run) {
	r.Section("smoothers", r.N(720, 9600), vlib.SectionOpts{}, func(c *vlib.Case) {
		rng := c.Rng
		in := genMesh(c, rng, pick(rng, gIco, gTorus, gMC, gMC, gVoxel, gGridBox, gGenus, gMulti, gTiny, gSliver), 2000)
		if in == nil {
			c.Undecided("no-certified-input")
			return
		}
		// step relative to nothing: the gradient scales with the edge length,
		// so any step well below 1 moves a vertex by a fraction of an edge.
		step := []float64{0.01, 0.05, 0.1}[rng.Intn(3)]
		iters := rng.Intn(6)
		ref := &smootherRef{step: step, iters: iters}
		var out []vlib.Tri
		var mapping *model3d.CoordMap[C3]
		var api string
		extra := map[string]interface{}{"step": step, "iters": iters}
		var hard func(C3) bool
		switch rng.Intn(4) {
		case 0:
			api = "model3d.Mesh.SmoothAreas"
			out = vlib.Tris(in.mesh.SmoothAreas(step, iters))
		case 1, 2:
			api = "model3d.MeshSmoother"
			sm := &model3d.MeshSmoother{StepSize: step, Iterations: iters}
			if rng.Intn(2) == 0 {
				sm.ConstraintWeight = []float64{0.1, 1, 3}[rng.Intn(3)]
				ref.weight = sm.ConstraintWeight
				if rng.Intn(2) == 0 {
					sm.ConstraintDistance = in.size * 0.01 * rng.Float64()
					ref.dist = sm.ConstraintDistance
				}
			}
			if rng.Intn(2) == 0 {
				n := randUnit(rng)
				d := n.Dot(in.im.pts[rng.Intn(len(in.im.pts))])
				hard = func(p C3) bool { return n.Dot(p) > d }
				sm.HardConstraintFunc = hard
				ref.hard = hard
				extra["hard_plane"] = fmt.Sprintf("n=%s d=%x", hex3(n), d)
			}
			if rng.Intn(3) == 0 {
				// a caller-supplied soft constraint: a pull towards a plane through the mesh
				pn := randUnit(rng)
				pd := pn.Dot(in.im.pts[rng.Intn(len(in.im.pts))])
				kk := 0.2 + rng.Float64()
				cf := func(origin, cur C3) C3 {
					return pn.Scale(-kk * (pn.Dot(cur) - pd) * 0.1).Add(origin.Sub(cur).Scale(0.05))
				}
				sm.ConstraintFunc = cf
				ref.cfunc = cf
				extra["constraint_func"] = fmt.Sprintf("plane n=%s d=%x k=%g", hex3(pn), pd, kk)
				c.Count("smoothers.with_constraint_func", 1)
			}
			extra["smoother"] = fmt.Sprintf("weight=%g dist=%g", sm.ConstraintWeight, sm.ConstraintDistance)
			out = vlib.Tris(sm.Smooth(in.mesh))
			mapping = sm.SmoothMapping(in.mesh)
		default:
			api = "model3d.VoxelSmoother"
			vs := &model3d.VoxelSmoother{StepSize: step, Iterations: iters, MaxDistance: in.size * math.Pow(10, -1-2*rng.Float64())}
			ref.voxelLimit = vs.MaxDistance
			extra["max_distance"] = vs.MaxDistance
			out = vlib.Tris(vs.Smooth(in.mesh))
			mapping = vs.SmoothMapping(in.mesh)
		}
		c.Count("calls."+api, 1)
		c.Nontrivial(fmt.Sprintf("smooth|%s|%s|%v", api, in.desc, extra))
		inputUntouched(c, api, in, extra)
		if iters == 0 {
			c.Count("smooth.zero_iteration_cases", 1)
			if ok, why := vlib.EqualCanonTris(vlib.CanonTris(out), in.tris); !ok {
				c.Violation(api+"/zero-iterations-identity", "zero iterations changed the mesh: "+why, in.witness(extra))
			}
			return
		}
		checkTopo(c, api, in, out, topoOpts{moved: true, expectV: in.topo.Vertices}, extra)
		outV := vertexSet(out)
		if hard != nil {
			n := 0
			for _, p := range in.im.pts {
				if hard(p) {
					n++
					if !outV[p] {
						c.Violationf(api+"/hard-constraint", in.witness(extra), "hard-constrained vertex %s moved", hex3(p))
						break
					}
				}
			}
			c.Count("smooth.hard_constrained_vertices", int64(n))
		}
		// mapping: connectivity under the published vertex bijection
		var mapped []C3
		if mapping != nil {
			mapped = make([]C3, len(in.im.pts))
			okMap := true
			for i, p := range in.im.pts {
				q, ok := mapping.Load(p)
				if !ok {
					c.Violationf(api+".SmoothMapping/total", in.witness(extra), "input vertex %s has no image in the mapping", hex3(p))
					okMap = false
					break
				}
				mapped[i] = q
			}
			if okMap && mapping.Len() != len(in.im.pts) {
				c.Violationf(api+".SmoothMapping/total", in.witness(extra), "mapping has %d keys, the mesh %d vertices", mapping.Len(), len(in.im.pts))
			}
			if !okMap {
				mapped = nil
			}
		}
		tol := 1e-9 * (in.maxA + in.size)
		if mapped != nil {
			res := matchFaces(mapped, in.im.faces, out, tol)
			switch {
			case res.undecided:
				c.Undecided("smooth-mapping:" + res.msg)
			case !res.ok && (minAngleCos(in.tris) > 0.995 || minAngleCosIdx(mapped, in.im.faces) > 0.999):
				// Smooth() and SmoothMapping() are two separate runs over a map-ordered face list: their
				// floating point sums differ in order, and on sliver triangles (ill-conditioned area
				// gradient) that difference is amplified far beyond the matching tolerance (false alarm
				// of the first version of this clause at seed 5)
				c.Undecided("smooth-mapping:ill-conditioned-input-or-trajectory")
			case !res.ok:
				c.Violation(api+"/connectivity-under-mapping", "Smooth() is not the input connectivity carried through SmoothMapping(): "+res.msg, in.witness(extra))
			default:
				c.Count("smooth.mapping_connectivity_held", 1)
			}
			if ref.voxelLimit > 0 {
				for i, p := range in.im.pts {
					l := model3d.XYZ(ref.voxelLimit, ref.voxelLimit, ref.voxelLimit)
					lo, hi := p.Sub(l), p.Add(l)
					q := mapped[i]
					if q.X < lo.X || q.Y < lo.Y || q.Z < lo.Z || q.X > hi.X || q.Y > hi.Y || q.Z > hi.Z {
						c.Violationf(api+"/max-distance", in.witness(extra), "vertex %s moved to %s, farther than MaxDistance=%g in the maximum norm", hex3(p), hex3(q), ref.voxelLimit)
						break
					}
				}
				c.Count("smooth.voxel_limit_checked", 1)
			}
		}
		// gradient rule (well shaped meshes only: the area gradient of a sliver is ill conditioned)
		if minAngleCos(in.tris) > 0.995 {
			c.Undecided("smooth-rule:ill-conditioned-input")
			return
		}
		want, ok := ref.run(in.im)
		if !ok || minAngleCosIdx(want, in.im.faces) > 0.999 {
			c.Undecided("smooth-rule:ill-conditioned-trajectory")
			return
		}
		res := matchFaces(want, in.im.faces, out, 1e-8*(in.maxA+in.size))
		switch {
		case res.undecided:
			c.Undecided("smooth-rule:" + res.msg)
		case !res.ok:
			c.Violation(api+"/gradient-rule", "result differs from gradient descent on the surface area (plus the documented constraint terms) recomputed independently: "+res.msg, in.witness(extra))
		default:
			c.Count("smooth.rule_matched", 1)
			c.Max("worst_rule_residual."+api, res.worst)
		}
	})
}

func minAngleCosIdx(pts []C3, faces [][3]int) float64 {
	tris := make([]vlib.Tri, len(faces))
	for i, f := range faces {
		tris[i] = vlib.Tri{pts[f[0]], pts[f[1]], pts[f[2]]}
	}
	return minAngleCos(tris)
}

func secFlattenBase(r *vlib.Run) {
	const api = "model3d.Mesh.FlattenBase"
	r.Section("flatten-base", r.N(480, 6400), vlib.SectionOpts{}, func(c *vlib.Case) {
		rng := c.Rng
		base := genMesh(c, rng, pick(rng, gIco, gIco, gTorus, gMC, gTiny), 1500)
		if base == nil {
			c.Undecided("no-certified-input")
			return
		}
		// a flat base: clamp everything below a plane z=z0 onto it (own arithmetic)
		mn, mx := math.Inf(1), math.Inf(-1)
		for _, p := range base.im.pts {
			mn, mx = math.Min(mn, p.Z), math.Max(mx, p.Z)
		}
		z0 := mn + (mx-mn)*(0.05+0.3*rng.Float64())
		m := model3d.NewMesh()
		for _, t := range base.tris {
			var t1 model3d.Triangle
			for i, p := range t {
				if p.Z < z0 {
					p.Z = z0
				}
				t1[i] = p
			}
			m.Add(&t1)
		}
		in, ok := certify(m, fmt.Sprintf("clampZ(%s,%x)", base.desc, z0), false)
		if !ok {
			c.Count("gen.rejected.clamped", 1)
			c.Undecided("no-certified-input")
			return
		}
		angle := []float64{0, 0.3, math.Pi / 4, 1.0, 1.4}[rng.Intn(5)]
		extra := map[string]interface{}{"max_angle": angle, "z0": vlib.Hex(z0)}
		flat := in.mesh.FlattenBase(angle)
		out := vlib.Tris(flat)
		c.Count("calls."+api, 1)
		inputUntouched(c, api, in, extra)
		if len(out) != len(in.tris) {
			c.Violationf(api+"/face-count", in.witness(extra), "%d faces, input had %d", len(out), len(in.tris))
		}
		// every output vertex is an input vertex or its projection onto the base plane
		proj := map[C3]bool{}
		for _, p := range in.im.pts {
			q := p
			q.Z = z0
			proj[nz(q)] = true
		}
		outV := vertexSet(out)
		moved := 0
		omin := math.Inf(1)
		for p := range outV {
			omin = math.Min(omin, p.Z)
			if _, old := in.im.vid[p]; !old {
				moved++
				if !proj[p] {
					c.Violationf(api+"/only-projects", in.witness(extra), "output vertex %s is neither an input vertex nor an input vertex with z set to the base", hex3(p))
					break
				}
			}
		}
		if omin != z0 {
			c.Violationf(api+"/min-z", in.witness(extra), "minimum z changed from %x to %x", z0, omin)
		}
		c.Count("flatten.vertices_moved", int64(moved))
		if moved > 0 {
			c.Count("flatten.cases_with_movement", 1)
			c.Nontrivial(fmt.Sprintf("flatten|%s|%g", in.desc, angle))
		}
		if _, ok := checkTopo(c, api, in, out, topoOpts{moved: true, expectV: in.topo.Vertices}, extra); ok {
			// the returned mesh object itself goes on into the next operation (chains of operations):
			// whatever lazy state FlattenBase left in it must describe its faces
			if fi, good := certify(flat, in.desc+" -> FlattenBase", false); good && fi.topo.Faces*4 <= 8000 {
				follow, label := (*model3d.Mesh)(nil), ""
				res, gok := guarded(c, "model3d.LoopSubdivision", func() map[string]interface{} {
					return in.witness(map[string]interface{}{"chain": "FlattenBase -> LoopSubdivision(1) on the returned mesh object"})
				}, func() interface{} { return model3d.LoopSubdivision(flat, 1) })
				if gok {
					follow, label = res.(*model3d.Mesh), "LoopSubdivision(1)"
					c.Count("flatten.followed_by_subdivision", 1)
					checkTopo(c, "model3d.LoopSubdivision", fi, vlib.Tris(follow), topoOpts{moved: true, expectV: fi.topo.Vertices + fi.topo.Edges},
						map[string]interface{}{"chain": "FlattenBase -> " + label})
				}
			}
		}
		// which faces qualify: exactly two vertices on the base and a normal
		// within maxAngle of straight down (default 45 degrees)
		ang := angle
		if ang == 0 {
			ang = math.Pi / 4
		}
		qualifies := func(t vlib.Tri, margin float64) (yes, clear bool) {
			n := 0
			for _, p := range t {
				if p.Z == z0 {
					n++
				}
			}
			if n != 2 {
				return false, true
			}
			nr := t[1].Sub(t[0]).Cross(t[2].Sub(t[0]))
			l := nr.Norm()
			if l == 0 {
				return false, false
			}
			d := -nr.Z/l - math.Cos(ang)
			return d > 0, math.Abs(d) > margin
		}
		anyYes, allClear := false, true
		for _, t := range in.tris {
			y, cl := qualifies(t, 1e-9)
			if !cl {
				allClear = false
			} else if y {
				anyYes = true
			}
		}
		if allClear {
			c.Count("flatten.criterion_checked", 1)
			if !anyYes && moved > 0 {
				c.Violationf(api+"/angle-criterion", in.witness(extra), "%d vertices were moved although no face has two base vertices and a normal within maxAngle of straight down", moved)
			}
			if anyYes && moved == 0 && len(outV) == len(in.im.vid) {
				c.Violation(api+"/angle-criterion", "a face with two base vertices and a normal within maxAngle of straight down exists but nothing was flattened", in.witness(extra))
			}
		}
		if len(outV) == len(in.im.vid) { // no two vertices merged
			for _, t := range out {
				if y, cl := qualifies(t, 1e-9); y && cl {
					c.Violationf(api+"/angle-criterion", in.witness(extra), "result still has a face %v with two base vertices and a normal within maxAngle of straight down", t)
					break
				}
			}
		}
	})
}
