package main

// Section "mesh3d.large": one mesh of 40000-90000 faces through edits and
// queries (lazy index built over a large face set, removed from, added to,
// copied), each answer compared with a scan of the current faces.

import (
	"fmt"
	"math"

	"github.com/unixpickle/model3d/model3d"
	"verif/vlib"
)

func largeMesh(r *vlib.Run) {
	r.Section("mesh3d.large", r.N(2, 16), vlib.SectionOpts{NoScale: true}, func(c *vlib.Case) {
		rng := c.Rng
		n := 45 + rng.Intn(23) // 20*n*n faces
		mesh := model3d.NewMeshIcosphere(model3d.XYZ(rng.NormFloat64(), rng.NormFloat64(), rng.NormFloat64()), 1+rng.Float64(), n)
		mod := &model3{faces: mesh.TriangleSlice()}
		hist := []string{fmt.Sprintf("icosphere n=%d (%d faces)", n, len(mod.faces))}
		check := func(m *model3d.Mesh, md *model3, what string) bool {
			fail := func(clause, msg string) bool {
				c.Violation("model3d.Mesh."+clause+"(large)", msg, map[string]interface{}{"history": hist, "step": what})
				return false
			}
			if m.NumTriangles() != len(md.faces) {
				return fail("NumTriangles/count", fmt.Sprintf("NumTriangles=%d, scan %d", m.NumTriangles(), len(md.faces)))
			}
			verts := md.vertices()
			if got := m.VertexSlice(); len(got) != len(verts) {
				return fail("VertexSlice/set", fmt.Sprintf("%d vertices, scan finds %d", len(got), len(verts)))
			}
			mn := C3{X: math.Inf(1), Y: math.Inf(1), Z: math.Inf(1)}
			mx := mn.Scale(-1)
			for v := range verts {
				mn, mx = mn.Min(v), mx.Max(v)
			}
			if m.Min() != mn || m.Max() != mx {
				return fail("MinMax/bounds", fmt.Sprintf("Min/Max = %v %v, scan %v %v", m.Min(), m.Max(), mn, mx))
			}
			for k := 0; k < 8; k++ {
				f := md.faces[rng.Intn(len(md.faces))]
				v := f[rng.Intn(3)]
				if !samePtrMultiset(m.Find(v), md.find(v)) {
					return fail("Find/faces-at-vertex", fmt.Sprintf("Find(%v) differs from a scan", v))
				}
				if !samePtrMultiset(m.Find(f[0], f[1]), md.find(f[0], f[1])) {
					return fail("Find/faces-at-edge", fmt.Sprintf("Find(%v,%v) differs from a scan", f[0], f[1]))
				}
				if !samePtrMultiset(m.Neighbors(f), md.neighbors(f)) {
					return fail("Neighbors/set", "Neighbors(f) differs from a scan")
				}
				if !m.Contains(f) {
					return fail("Contains/member", "Contains(f) false for a current face")
				}
			}
			c.Count("mesh3d.large.checks", 1)
			return true
		}
		if !check(mesh, mod, "fresh") {
			return
		}
		// remove a patch and scattered faces, add new ones
		for k := 0; k < 200; k++ {
			f := mod.faces[rng.Intn(len(mod.faces))]
			mesh.Remove(f)
			mod.remove(f)
		}
		hist = append(hist, "removed 200 faces")
		if !check(mesh, mod, "after removals") {
			return
		}
		for k := 0; k < 100; k++ {
			f := mod.faces[rng.Intn(len(mod.faces))]
			nf := &model3d.Triangle{f[0], f[1], f[0].Mid(f[1]).Scale(1.1)}
			mesh.Add(nf)
			mod.add(nf)
		}
		hist = append(hist, "added 100 faces")
		if !check(mesh, mod, "after additions") {
			return
		}
		cp := mesh.Copy()
		f := mod.faces[rng.Intn(len(mod.faces))]
		cp.Remove(f)
		hist = append(hist, "copied, removed one face from the copy")
		if !check(mesh, mod, "original after editing the copy") {
			return
		}
		c.Max("mesh3d.large.max_faces", float64(len(mod.faces)))
		c.Nontrivial(fmt.Sprint("large", n))
	})
}
