package main

// Walks whose callback edits the mesh. Documented: "If f adds or removes triangles, they will not
// be visited" (Iterate, IterateSorted) and "If f adds or removes vertices, they will not be
// visited" (IterateVertices). The callback removes faces that may not have had their turn yet,
// adds new faces and merges whole meshes (smaller and larger than the receiver, with and without
// a built index) while the walk is under way.

import (
	"fmt"
	"math/rand"

	"github.com/unixpickle/model3d/model3d"
	"verif/vlib"
)

func walkWithEdits3(c *vlib.Case, mesh *model3d.Mesh, mod *model3, pool []C3, all *[]*model3d.Triangle, hist *[]string, rng *rand.Rand) bool {
	if len(mod.faces) == 0 {
		return true
	}
	mode := rng.Intn(4) // 0 Iterate, 1 IterateSorted with a comparator, 2 IterateSorted(nil), 3 IterateVertices
	name := []string{"Iterate", "IterateSorted", "IterateSorted", "IterateVertices"}[mode]
	*hist = append(*hist, "walk:"+name+"{")
	fail := func(clause, what string) bool {
		*hist = append(*hist, "}")
		c.Violation("model3d.Mesh."+name+"/"+clause, what, map[string]interface{}{"history": append([]string{}, (*hist)...)})
		return false
	}
	if rng.Intn(2) == 0 {
		mesh.VertexSlice() // the lazy index exists when the walk starts
	}
	initialFaces := map[*model3d.Triangle]bool{}
	for _, f := range mod.faces {
		initialFaces[f] = true
	}
	initialVerts := mod.vertices()
	everAbsent := map[C3]bool{} // vertices that had no face at some moment of the walk
	removedFaces := map[*model3d.Triangle]bool{}
	visitedF := map[*model3d.Triangle]int{}
	visitedV := map[C3]int{}
	edits := 0
	mergedLarger := false
	var bad string
	edit := func() {
		if edits >= 6 {
			return
		}
		switch rng.Intn(6) {
		case 0, 1, 2:
			if len(mod.faces) > 0 {
				f := mod.faces[rng.Intn(len(mod.faces))]
				*hist = append(*hist, fmt.Sprintf("Remove(#%p)", f))
				mesh.Remove(f)
				mod.remove(f)
				removedFaces[f] = true
				edits++
			}
		case 3:
			f := newFace(pool, rng)
			*all = append(*all, f)
			*hist = append(*hist, "Add(new)")
			mesh.Add(f)
			mod.add(f)
			edits++
		default:
			other := model3d.NewMesh()
			k := 1 + rng.Intn(3)
			if rng.Intn(2) == 0 && !mergedLarger && len(mod.faces) <= 150 {
				// strictly more faces than the receiver has now (once per walk, small meshes only:
				// each such merge doubles the mesh, and the comparisons after the walk are quadratic)
				k = len(mod.faces) + 1 + rng.Intn(3)
				mergedLarger = true
			}
			for i := 0; i < k; i++ {
				f := newFace(pool, rng)
				*all = append(*all, f)
				other.Add(f)
				mod.add(f)
			}
			if rng.Intn(2) == 0 {
				other.VertexSlice()
			}
			*hist = append(*hist, fmt.Sprintf("AddMesh(%d faces)", k))
			mesh.AddMesh(other)
			edits++
		}
		now := mod.vertices()
		for v := range initialVerts {
			if !now[v] {
				everAbsent[v] = true
			}
		}
	}
	onFace := func(f *model3d.Triangle) {
		if bad != "" {
			return
		}
		switch {
		case !initialFaces[f]:
			bad = fmt.Sprintf("added-faces-not-visited|the callback received face #%p, which was added during the walk", f)
		case !mod.has(f):
			bad = fmt.Sprintf("removed-faces-not-visited|the callback received face #%p, which had been removed from the mesh before its turn", f)
		}
		visitedF[f]++
		if rng.Intn(3) == 0 {
			edit()
		}
	}
	onVertex := func(p C3) {
		if bad != "" {
			return
		}
		switch {
		case !initialVerts[p]:
			bad = fmt.Sprintf("added-vertices-not-visited|the callback received vertex %s, which was not a vertex when the walk began", fmtC(p))
		case !mod.vertices()[p]:
			bad = fmt.Sprintf("removed-vertices-not-visited|the callback received vertex %s, which no face of the mesh contains any more", fmtC(p))
		}
		visitedV[p]++
		if rng.Intn(3) == 0 {
			edit()
		}
	}
	switch mode {
	case 0:
		mesh.Iterate(onFace)
	case 1:
		mesh.IterateSorted(onFace, func(a, b *model3d.Triangle) bool {
			if a[0] != b[0] {
				return lessC(a[0], b[0])
			}
			if a[1] != b[1] {
				return lessC(a[1], b[1])
			}
			return lessC(a[2], b[2])
		})
	case 2:
		mesh.IterateSorted(onFace, nil)
	default:
		mesh.IterateVertices(onVertex)
	}
	c.Count("mesh3d.walks_with_edits", 1)
	c.Count("mesh3d.walks_with_edits."+name, 1)
	c.Count("mesh3d.walks_with_edits.edits_made_by_callbacks", int64(edits))
	if bad != "" {
		i := 0
		for bad[i] != '|' {
			i++
		}
		return fail(bad[:i], bad[i+1:])
	}
	if mode < 3 {
		for f := range initialFaces {
			switch n := visitedF[f]; {
			case n > 1:
				return fail("each-face-once", fmt.Sprintf("face #%p was visited %d times", f, n))
			case n == 0 && !removedFaces[f]:
				return fail("every-remaining-face-visited", fmt.Sprintf("face #%p was in the mesh during the whole walk but was not visited", f))
			}
		}
	} else {
		for v := range initialVerts {
			switch n := visitedV[v]; {
			case n > 1:
				return fail("each-vertex-once", fmt.Sprintf("vertex %s was visited %d times", fmtC(v), n))
			case n == 0 && !everAbsent[v]:
				return fail("every-remaining-vertex-visited", fmt.Sprintf("vertex %s belonged to a face during the whole walk but was not visited", fmtC(v)))
			}
		}
	}
	*hist = append(*hist, "}")
	return true
}

func lessC(a, b C3) bool {
	if a.X != b.X {
		return a.X < b.X
	}
	if a.Y != b.Y {
		return a.Y < b.Y
	}
	return a.Z < b.Z
}
