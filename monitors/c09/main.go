// C09 — A mesh always answers as the plain set of its current faces would.
// Shape: seeded hostile history + executable model, compared after every step
// (DESIGN.md C09).
package main

import (
	"fmt"
	"math"
	"math/rand"
	"sort"

	"github.com/unixpickle/model3d/model3d"
	"verif/vlib"
)

type C3 = model3d.Coord3D

func main() {
	r := vlib.Start("C09", "exploration")
	r.ScaleQuick(2.5) // quick tier: 2.5x the case counts written at the sections (still well under a minute)
	r.Rule("seeded operation histories over small vertex pools (shared vertices, duplicate and degenerate faces, hash-colliding and signed-zero coordinates); after every step every observer is compared with a model (Go slice of face pointers + plain Go maps) and with a fresh mesh of the same faces; a history is non-trivial if it has >= 8 mutations and built the lazy index at least once; distinct by hash of the operation string")
	r.Assume("NaN coordinates are excluded (maps are not expected to handle them)")
	r.Assume("Mesh.Iterate order is arbitrary: all comparisons are order-insensitive")

	meshHistories3(r)
	meshHistories2(r)
	derivedLaws3(r)
	mapHistories(r)
	mapHistories2(r)
	editors(r)
	largeMesh(r)

	r.Require("mesh3d.histories", 10)
	r.Require("mesh3d.index_built_midway", 5)
	r.Require("maps.histories", 10)
	r.Require("maps.crossed_fast_to_slow", 3)
	r.Finish()
}

// ---------------------------------------------------------------------------
// vertex pools

func pool3(rng *rand.Rand) ([]C3, string) {
	kind := rng.Intn(5)
	var pts []C3
	n := 4 + rng.Intn(9)
	switch kind {
	case 0: // small integer grid
		for i := 0; i < n; i++ {
			pts = append(pts, model3d.XYZ(float64(rng.Intn(3)), float64(rng.Intn(3)), float64(rng.Intn(2))))
		}
		return pts, "grid"
	case 1: // random
		for i := 0; i < n; i++ {
			pts = append(pts, model3d.XYZ(rng.NormFloat64(), rng.NormFloat64(), rng.NormFloat64()))
		}
		return pts, "random"
	case 2: // hash colliding: differences below the rounding of the dot product
		base := model3d.XYZ(float64(1+rng.Intn(3)), float64(rng.Intn(2)), float64(rng.Intn(2)))
		pts = append(pts, base)
		for i := 0; i < n; i++ {
			p := base
			switch rng.Intn(3) {
			case 0:
				p.Y += 1e-20 * float64(1+rng.Intn(4))
			case 1:
				p.Z += 1e-21 * float64(1+rng.Intn(4))
			default:
				p.Y += 1e-22 * float64(1+rng.Intn(4))
				p.Z += 1e-23 * float64(1+rng.Intn(4))
			}
			if p.Y < 1e-10 && base.Y != 0 {
				p = base
				p.X = math.Nextafter(p.X, 2) // distinct non-colliding neighbour
			}
			pts = append(pts, p)
		}
		for i := 0; i < 3; i++ {
			pts = append(pts, model3d.XYZ(float64(rng.Intn(3)), float64(rng.Intn(3)), float64(rng.Intn(3))))
		}
		return pts, "colliding"
	case 3: // signed zeros
		nz := math.Copysign(0, -1)
		pts = []C3{{}, {X: nz, Y: nz, Z: nz}, {X: nz}, {Y: nz}, {Z: nz}, {X: 1}, {X: 1, Y: nz}, {Y: 1}, {Z: 1}, {X: nz, Y: 1, Z: nz}}
		return pts, "signed-zero"
	default: // subnormals and extremes
		for i := 0; i < n; i++ {
			pts = append(pts, model3d.XYZ(float64(rng.Intn(3))*5e-324, float64(rng.Intn(2))*1e308, float64(rng.Intn(3))))
		}
		return pts, "extreme"
	}
}

// ---------------------------------------------------------------------------
// model of a 3D mesh

type model3 struct {
	faces []*model3d.Triangle
}

func (m *model3) has(f *model3d.Triangle) bool {
	for _, g := range m.faces {
		if g == f {
			return true
		}
	}
	return false
}
func (m *model3) add(f *model3d.Triangle) {
	if !m.has(f) {
		m.faces = append(m.faces, f)
	}
}
func (m *model3) remove(f *model3d.Triangle) {
	for i, g := range m.faces {
		if g == f {
			m.faces = append(m.faces[:i:i], m.faces[i+1:]...)
			return
		}
	}
}

func hasVertex(f *model3d.Triangle, p C3) bool { return f[0] == p || f[1] == p || f[2] == p }

func (m *model3) find(ps ...C3) []*model3d.Triangle {
	var res []*model3d.Triangle
	for _, f := range m.faces {
		ok := true
		for _, p := range ps {
			if !hasVertex(f, p) {
				ok = false
				break
			}
		}
		if ok {
			res = append(res, f)
		}
	}
	return res
}

func degenerate(f *model3d.Triangle) bool { return f[0] == f[1] || f[1] == f[2] || f[0] == f[2] }

func (m *model3) neighbors(f *model3d.Triangle) []*model3d.Triangle {
	var res []*model3d.Triangle
	for _, g := range m.faces {
		if g == f {
			continue
		}
		n := 0
		for _, p := range f {
			if hasVertex(g, p) {
				n++
			}
		}
		if n > 1 {
			res = append(res, g)
		}
	}
	return res
}

func (m *model3) vertices() map[C3]bool {
	res := map[C3]bool{}
	for _, f := range m.faces {
		for _, p := range f {
			res[p] = true // Go map: +0 == -0
		}
	}
	return res
}

func (m *model3) vertexNeighbors() map[C3]map[C3]bool {
	res := map[C3]map[C3]bool{}
	for _, f := range m.faces {
		for i, p := range f {
			for j, q := range f {
				if i != j {
					if res[p] == nil {
						res[p] = map[C3]bool{}
					}
					res[p][q] = true
				}
			}
		}
	}
	return res
}

func ptrSet(fs []*model3d.Triangle) (map[*model3d.Triangle]int, int) {
	res := map[*model3d.Triangle]int{}
	for _, f := range fs {
		res[f]++
	}
	return res, len(fs)
}

func samePtrMultiset(a, b []*model3d.Triangle) bool {
	if len(a) != len(b) {
		return false
	}
	ma, _ := ptrSet(a)
	mb, _ := ptrSet(b)
	if len(ma) != len(mb) {
		return false
	}
	for k, v := range ma {
		if mb[k] != v {
			return false
		}
	}
	return true
}

func fmtC(c C3) string { return fmt.Sprintf("(%x,%x,%x)", c.X, c.Y, c.Z) }

func fmtFaces(fs []*model3d.Triangle) []string {
	var res []string
	for _, f := range fs {
		res = append(res, fmt.Sprintf("%p:%s%s%s", f, fmtC(f[0]), fmtC(f[1]), fmtC(f[2])))
	}
	sort.Strings(res)
	return res
}

// compare3 checks every observer of mesh against the model; api prefixes keys.
func compare3(c *vlib.Case, mesh *model3d.Mesh, mod *model3, pool []C3, hist *[]string, rng *rand.Rand, full bool) bool {
	ok := true
	fail := func(clause, what string) {
		ok = false
		c.Violation("model3d.Mesh."+clause, what, map[string]interface{}{"history": append([]string{}, *hist...), "model_faces": fmtFaces(mod.faces)})
	}
	if mesh.NumTriangles() != len(mod.faces) {
		fail("NumTriangles/count", fmt.Sprintf("NumTriangles=%d, model has %d", mesh.NumTriangles(), len(mod.faces)))
	}
	for _, f := range mod.faces {
		if !mesh.Contains(f) {
			fail("Contains/member", "Contains(f) false for a current face")
		}
	}
	ts := mesh.TriangleSlice()
	if !samePtrMultiset(ts, mod.faces) {
		fail("TriangleSlice/face-multiset", fmt.Sprintf("TriangleSlice has %d faces, model %d (or different pointers)", len(ts), len(mod.faces)))
	}
	if !full {
		return ok
	}
	var it []*model3d.Triangle
	mesh.Iterate(func(t *model3d.Triangle) { it = append(it, t) })
	if !samePtrMultiset(it, mod.faces) {
		fail("Iterate/face-multiset", fmt.Sprintf("Iterate visited %d faces, model %d", len(it), len(mod.faces)))
	}
	// vertices
	mv := mod.vertices()
	vs := mesh.VertexSlice()
	seen := map[C3]bool{}
	for _, v := range vs {
		if seen[v] {
			fail("VertexSlice/distinct", "VertexSlice returns a vertex twice (== semantics): "+fmtC(v))
		}
		seen[v] = true
		if !mv[v] {
			fail("VertexSlice/member", "VertexSlice returns a non-vertex "+fmtC(v))
		}
	}
	if len(seen) != len(mv) {
		fail("VertexSlice/count", fmt.Sprintf("VertexSlice has %d distinct vertices, model %d", len(seen), len(mv)))
	}
	var iv []C3
	mesh.IterateVertices(func(p C3) { iv = append(iv, p) })
	seen2 := map[C3]bool{}
	for _, v := range iv {
		seen2[v] = true
	}
	if len(iv) != len(mv) || len(seen2) != len(mv) {
		fail("IterateVertices/count", fmt.Sprintf("IterateVertices visited %d (%d distinct), model %d", len(iv), len(seen2), len(mv)))
	}
	// bounds
	if len(mod.faces) > 0 {
		mn, mx := mod.faces[0][0], mod.faces[0][0]
		for _, f := range mod.faces {
			for _, p := range f {
				mn = mn.Min(p)
				mx = mx.Max(p)
			}
		}
		if mesh.Min() != mn || mesh.Max() != mx {
			fail("MinMax/bounds", fmt.Sprintf("Min/Max = %v %v, model %v %v", mesh.Min(), mesh.Max(), mn, mx))
		}
	}
	// Find with 1..3 points
	for _, p := range pool {
		got := mesh.Find(p)
		want := mod.find(p)
		if !samePtrMultiset(got, want) {
			fail("Find/1-point", fmt.Sprintf("Find(%s): got %v want %v", fmtC(p), fmtFaces(got), fmtFaces(want)))
			break
		}
	}
	for k := 0; k < 12; k++ {
		p, q := pool[rng.Intn(len(pool))], pool[rng.Intn(len(pool))]
		got := mesh.Find(p, q)
		want := mod.find(p, q)
		if !samePtrMultiset(got, want) {
			fail("Find/2-point", fmt.Sprintf("Find(%s,%s): got %v want %v", fmtC(p), fmtC(q), fmtFaces(got), fmtFaces(want)))
			break
		}
		s := pool[rng.Intn(len(pool))]
		got = mesh.Find(p, q, s)
		want = mod.find(p, q, s)
		if !samePtrMultiset(got, want) {
			fail("Find/3-point", fmt.Sprintf("Find(3 points): got %v want %v", fmtFaces(got), fmtFaces(want)))
			break
		}
	}
	// Neighbors: for faces in the mesh and an equivalent face outside
	for _, f := range mod.faces {
		if degenerate(f) {
			continue // counted with repetition by the library; compared against a fresh mesh below
		}
		got := mesh.Neighbors(f)
		want := mod.neighbors(f)
		if !samePtrMultiset(got, want) {
			fail("Neighbors/edge-sharing", fmt.Sprintf("Neighbors(%v): got %v want %v", fmtFaces([]*model3d.Triangle{f}), fmtFaces(got), fmtFaces(want)))
			break
		}
	}
	// AllVertexNeighbors
	avn := mesh.AllVertexNeighbors()
	mvn := mod.vertexNeighbors()
	if avn.Len() != len(mvn) {
		fail("AllVertexNeighbors/keys", fmt.Sprintf("AllVertexNeighbors has %d keys, model %d", avn.Len(), len(mvn)))
	}
	for p, ns := range mvn {
		got := avn.Value(p)
		gs := map[C3]bool{}
		for _, g := range got {
			gs[g] = true
		}
		bad := len(gs) != len(ns) || len(got) != len(ns)
		for q := range ns {
			if !gs[q] {
				bad = true
			}
		}
		if bad {
			fail("AllVertexNeighbors/values", fmt.Sprintf("neighbors of %s: got %d entries (%d distinct), model %d", fmtC(p), len(got), len(gs), len(ns)))
			break
		}
	}
	// fresh mesh differential: literally "what a freshly built list of the current faces would return"
	fresh := model3d.NewMeshTriangles(append([]*model3d.Triangle{}, mod.faces...))
	for _, p := range pool {
		if !samePtrMultiset(mesh.Find(p), fresh.Find(p)) {
			fail("Find/fresh-differential", "Find differs from a fresh mesh of the same faces at "+fmtC(p))
			break
		}
	}
	for _, f := range mod.faces {
		if !samePtrMultiset(mesh.Neighbors(f), fresh.Neighbors(f)) {
			fail("Neighbors/fresh-differential", "Neighbors differs from a fresh mesh of the same faces")
			break
		}
	}
	if len(mesh.VertexSlice()) != len(fresh.VertexSlice()) {
		fail("VertexSlice/fresh-differential", "VertexSlice length differs from a fresh mesh of the same faces")
	}
	return ok
}

func newFace(pool []C3, rng *rand.Rand) *model3d.Triangle {
	t := &model3d.Triangle{pool[rng.Intn(len(pool))], pool[rng.Intn(len(pool))], pool[rng.Intn(len(pool))]}
	if rng.Intn(8) != 0 { // mostly non-degenerate
		for tries := 0; tries < 8 && degenerate(t); tries++ {
			t[rng.Intn(3)] = pool[rng.Intn(len(pool))]
		}
	}
	return t
}

func meshHistories3(r *vlib.Run) {
	n := r.N(6000, 60000)
	r.Section("mesh3d", n, vlib.SectionOpts{}, func(c *vlib.Case) {
		rng := c.Rng
		pool, kind := pool3(rng)
		// count real collisions in the pool
		hs := map[uint64]C3{}
		coll := 0
		for _, p := range pool {
			h := model3d.VerifFastHash64(p)
			if q, ok := hs[h]; ok && q != p {
				coll++
			}
			hs[h] = p
		}
		mesh := model3d.NewMesh()
		mod := &model3{}
		var hist []string
		var all []*model3d.Triangle // every face ever created
		steps := 10 + rng.Intn(40)
		builtMid := false
		wasFast := false
		crossed := false
		muts := 0
		// forks: shallow and deep copies taken mid-history continue as independent
		// meshes with their own models; an edit of one must never show in another
		type fork struct {
			m   *model3d.Mesh
			mod *model3
		}
		forks := []*fork{{mesh, mod}}
		for s := 0; s < steps; s++ {
			cur := forks[rng.Intn(len(forks))]
			mesh, mod = cur.m, cur.mod
			hist = append(hist, fmt.Sprintf("@mesh%d", indexOfFork(len(forks), func(i int) bool { return forks[i] == cur })))
			if len(forks) < 3 && rng.Intn(12) == 0 {
				var nm *model3d.Mesh
				nmod := &model3{}
				if rng.Intn(3) == 0 {
					// deep copy: fresh pointers, same coordinates, in the same order as the model
					nm = model3d.NewMesh()
					for _, f := range mod.faces {
						g := *f
						nm.Add(&g)
						nmod.faces = append(nmod.faces, &g)
					}
					nm = nm.Copy()
					hist = append(hist, "fork(NewMesh+Copy)")
				} else {
					nm = mesh.Copy()
					nmod.faces = append(nmod.faces, mod.faces...)
					hist = append(hist, "fork(Copy)")
				}
				forks = append(forks, &fork{nm, nmod})
				c.Count("mesh3d.forks", 1)
				continue
			}
			op := rng.Intn(20)
			switch {
			case op < 7:
				f := newFace(pool, rng)
				all = append(all, f)
				hist = append(hist, fmt.Sprintf("Add(new %s%s%s)", fmtC(f[0]), fmtC(f[1]), fmtC(f[2])))
				mesh.Add(f)
				mod.add(f)
				muts++
			case op < 8 && len(all) > 0: // same pointer again (or re-add removed)
				f := all[rng.Intn(len(all))]
				hist = append(hist, fmt.Sprintf("Add(existing#%p)", f))
				mesh.Add(f)
				mod.add(f)
				muts++
			case op < 9 && len(mod.faces) > 0: // duplicate coordinates, new pointer
				g := mod.faces[rng.Intn(len(mod.faces))]
				f := &model3d.Triangle{g[0], g[1], g[2]}
				all = append(all, f)
				hist = append(hist, "Add(dup-coords)")
				mesh.Add(f)
				mod.add(f)
				muts++
			case op < 13 && len(mod.faces) > 0:
				f := mod.faces[rng.Intn(len(mod.faces))]
				hist = append(hist, fmt.Sprintf("Remove(#%p)", f))
				mesh.Remove(f)
				mod.remove(f)
				muts++
			case op < 14:
				f := newFace(pool, rng)
				hist = append(hist, "Remove(absent)")
				mesh.Remove(f)
			case op < 15:
				other := model3d.NewMesh()
				k := rng.Intn(4)
				for i := 0; i < k; i++ {
					f := newFace(pool, rng)
					all = append(all, f)
					other.Add(f)
					mod.add(f)
				}
				if len(mod.faces) > 0 && rng.Intn(2) == 0 {
					f := mod.faces[rng.Intn(len(mod.faces))]
					other.Add(f)
				}
				if rng.Intn(2) == 0 {
					other.VertexSlice() // other has its index built
				}
				hist = append(hist, fmt.Sprintf("AddMesh(%d faces)", other.NumTriangles()))
				mesh.AddMesh(other)
				muts++
			case op < 16:
				hist = append(hist, "AddQuad")
				p := [4]C3{pool[rng.Intn(len(pool))], pool[rng.Intn(len(pool))], pool[rng.Intn(len(pool))], pool[rng.Intn(len(pool))]}
				ts := mesh.AddQuad(p[0], p[1], p[2], p[3])
				for _, t := range ts {
					all = append(all, t)
					mod.add(t)
				}
				muts++
			case op < 17:
				if !walkWithEdits3(c, mesh, mod, pool, &all, &hist, rng) {
					return
				}
				muts++
			default:
				// query that triggers lazy index construction
				before := mesh.VerifIndexBuilt()
				hist = append(hist, "query")
				compare3(c, mesh, mod, pool, &hist, rng, true)
				if !before && mesh.VerifIndexBuilt() && muts > 0 {
					builtMid = true
				}
			}
			if mesh.VerifIndexBuilt() {
				if mesh.VerifIndexIsFast() {
					wasFast = true
				} else if wasFast {
					crossed = true
				}
			}
			for _, fk := range forks {
				if !compare3(c, fk.m, fk.mod, pool, &hist, rng, false) {
					return
				}
			}
			if len(forks) > 1 && s%4 == 0 {
				for _, fk := range forks {
					if fk != cur && fk.m.VerifIndexBuilt() && !compare3(c, fk.m, fk.mod, pool, &hist, rng, true) {
						return
					}
				}
			}
		}
		for _, fk := range forks {
			compare3(c, fk.m, fk.mod, pool, &hist, rng, true)
		}
		mesh, mod = forks[0].m, forks[0].mod
		c.Count("mesh3d.histories", 1)
		c.Count("mesh3d.operations", int64(len(hist)))
		c.Count("mesh3d.pool."+kind, 1)
		c.Count("mesh3d.pool_hash_collisions", int64(coll))
		if builtMid {
			c.Count("mesh3d.index_built_midway", 1)
		}
		if crossed {
			c.Count("mesh3d.index_crossed_fast_to_slow", 1)
		}
		if muts >= 8 && mesh.VerifIndexBuilt() {
			c.Nontrivial(fmt.Sprint(hist))
		}
		if c.Index < 2 {
			c.Sample("mesh3d-history", 2, hist)
		}
	})
}

// ---------------------------------------------------------------------------
// derived meshes

func randomMesh3(rng *rand.Rand) (*model3d.Mesh, *model3, []C3, string) {
	pool, kind := pool3(rng)
	mesh := model3d.NewMesh()
	mod := &model3{}
	n := 1 + rng.Intn(14)
	if rng.Intn(10) == 0 {
		n = 0
	}
	for i := 0; i < n; i++ {
		f := newFace(pool, rng)
		mesh.Add(f)
		mod.add(f)
		if rng.Intn(6) == 0 {
			mesh.VertexSlice()
		}
		if rng.Intn(6) == 0 {
			g := &model3d.Triangle{f[0], f[1], f[2]}
			mesh.Add(g)
			mod.add(g)
		}
	}
	if rng.Intn(2) == 0 {
		mesh.VertexSlice()
	}
	return mesh, mod, pool, kind
}

func rawOf(fs []*model3d.Triangle) []vlib.Tri {
	res := make([]vlib.Tri, len(fs))
	for i, f := range fs {
		res[i] = vlib.Tri{f[0], f[1], f[2]}
	}
	return res
}

func mapTris(ts []vlib.Tri, f func(C3) C3) []vlib.Tri {
	res := make([]vlib.Tri, len(ts))
	for i, t := range ts {
		res[i] = vlib.Tri{f(t[0]), f(t[1]), f(t[2])}
	}
	return res
}

func derivedLaws3(r *vlib.Run) {
	n := r.N(6000, 60000)
	r.Section("derived3d", n, vlib.SectionOpts{}, func(c *vlib.Case) {
		rng := c.Rng
		mesh, mod, pool, kind := randomMesh3(rng)
		want := rawOf(mod.faces)
		check := func(api string, got *model3d.Mesh, wantTris []vlib.Tri) {
			c.Count("derived3d."+api, 1)
			if eq, why := vlib.EqualCanonTris(vlib.CanonTris(vlib.Tris(got)), vlib.CanonTris(wantTris)); !eq {
				c.Violation("model3d.Mesh."+api+"/face-multiset", why, map[string]interface{}{"input": fmtFaces(mod.faces), "pool": kind, "got_faces": got.NumTriangles(), "want_faces": len(wantTris)})
				return
			}
			// derived mesh answers like its own faces
			m2 := &model3{faces: got.TriangleSlice()}
			var h []string
			h = append(h, "derived:"+api)
			var pool2 []C3
			for v := range m2.vertices() {
				pool2 = append(pool2, v)
			}
			if len(pool2) == 0 {
				pool2 = pool
			}
			compare3(c, got, m2, pool2, &h, rng, true)
		}
		check("Copy", mesh.Copy(), want)
		if !samePtrMultiset(mesh.Copy().TriangleSlice(), mod.faces) {
			c.Violation("model3d.Mesh.Copy/same-pointers", "Copy does not hold the same face pointers", nil)
		}
		dc := mesh.DeepCopy()
		check("DeepCopy", dc, want)
		for _, f := range dc.TriangleSlice() {
			if mod.has(f) {
				c.Violation("model3d.Mesh.DeepCopy/fresh-pointers", "DeepCopy shares a face pointer with the original", nil)
			}
		}
		inv := mesh.InvertNormals()
		rev := make([]vlib.Tri, len(want))
		for i, t := range want {
			rev[i] = vlib.Tri{t[1], t[0], t[2]}
		}
		check("InvertNormals", inv, rev)
		check("InvertNormals.twice", inv.InvertNormals(), want)
		// MapCoords with injective and non-injective functions
		shift := model3d.XYZ(rng.NormFloat64(), rng.NormFloat64(), rng.NormFloat64())
		check("Translate", mesh.Translate(shift), mapTris(want, shift.Add))
		s := 0.5 + rng.Float64()*3
		check("Scale", mesh.Scale(s), mapTris(want, model3d.XYZ(s, s, s).Mul))
		round := func(p C3) C3 { return model3d.XYZ(math.Round(p.X), math.Round(p.Y), p.Z) }
		check("MapCoords.merge", mesh.MapCoords(round), mapTris(want, round))
		collapse := func(p C3) C3 { return model3d.XYZ(0, 0, 0) }
		check("MapCoords.collapse", mesh.MapCoords(collapse), mapTris(want, collapse))
		// A mapping function with state (per-vertex noise, a counter): the derived mesh must not depend
		// on whether the source's lazy index happened to exist, i.e. the function is applied once per
		// distinct vertex in both cases and shared vertices stay shared.
		{
			nv := len(mod.vertices())
			for _, built := range []bool{false, true} {
				src := model3d.NewMeshTriangles(append([]*model3d.Triangle{}, mod.faces...))
				if built {
					src.VertexSlice()
				}
				calls := 0
				noisy := func(p C3) C3 {
					calls++
					return model3d.XYZ(float64(calls), p.Y*0, p.Z*0)
				}
				got := src.MapCoords(noisy)
				c.Count("derived3d.MapCoords.stateful", 1)
				gv := map[C3]bool{}
				for _, t := range vlib.Tris(got) {
					for _, q := range t {
						gv[q] = true
					}
				}
				if calls != nv || len(gv) != nv {
					c.Violation("model3d.Mesh.MapCoords/once-per-vertex-whatever-the-index-state",
						fmt.Sprintf("source has %d distinct vertices (index built before: %v): mapping function called %d times, derived mesh has %d distinct vertices", nv, built, calls, len(gv)),
						map[string]interface{}{"input": fmtFaces(mod.faces), "pool": kind})
					break
				}
			}
		}
		if kind != "extreme" {
			rot := model3d.Rotation(model3d.XYZ(rng.NormFloat64(), rng.NormFloat64(), rng.NormFloat64()).Normalize(), rng.Float64()*6)
			check("Transform", mesh.Transform(rot), mapTris(want, rot.Apply))
			ax := model3d.XYZ(rng.NormFloat64(), rng.NormFloat64(), rng.NormFloat64()).Normalize()
			ang := rng.Float64() * 6
			check("Rotate", mesh.Rotate(ax, ang), mapTris(want, model3d.Rotation(ax, ang).Apply))
			if len(mod.faces) > 0 {
				mn, mx := mod.faces[0][0], mod.faces[0][0]
				for _, f := range mod.faces {
					for _, p := range f {
						mn, mx = mn.Min(p), mx.Max(p)
					}
				}
				off := mn.Mid(mx).Scale(-1)
				check("Center", mesh.Center(), mapTris(want, off.Add))
			}
		}
		// AddMesh into a non-empty target
		tgt, tmod, _, _ := randomMesh3(rng)
		tgt.AddMesh(mesh)
		for _, f := range mod.faces {
			tmod.add(f)
		}
		check("AddMesh", tgt, rawOf(tmod.faces))
		// the original is unchanged by all of the above
		if eq, why := vlib.EqualCanonTris(vlib.CanonTris(vlib.Tris(mesh)), vlib.CanonTris(want)); !eq {
			c.Violation("model3d.Mesh.derived/original-unchanged", why, nil)
		}
		if len(mod.faces) >= 3 {
			c.Nontrivial(fmt.Sprint(fmtFaces(mod.faces)))
		}
	})
}

func indexOfFork(n int, is func(int) bool) int {
	for i := 0; i < n; i++ {
		if is(i) {
			return i
		}
	}
	return -1
}
