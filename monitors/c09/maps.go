package main

import (
	"fmt"
	"math"
	"math/rand"

	"github.com/unixpickle/model3d/model2d"
	"github.com/unixpickle/model3d/model3d"
	"verif/vlib"
)

// mapOps adapts one of the twelve fast map types to a common shape so that
// one history runner and one plain-Go-map model serve all of them.
type mapOps[K comparable, V any] struct {
	Name       string
	Len        func() int
	Load       func(K) (V, bool)
	Value      func(K) V
	Delete     func(K)
	Store      func(K, V)
	Range      func(func(K, V) bool)
	KeyRange   func(func(K) bool)
	ValueRange func(func(V) bool)
	Append     func(K, int) V // nil unless a *ToSlice map
	Add        func(K, int) V // nil unless a *ToNumber map
	IsFast     func() bool
	Eq         func(a, b V) bool
	Rand       func(*rand.Rand) V
	AppendM    func(V, int) V // model of Append
	AddM       func(V, int) V // model of Add
}

func eqInt(a, b int) bool { return a == b }
func eqSlice(a, b []int) bool {
	if len(a) != len(b) {
		return false
	}
	for i := range a {
		if a[i] != b[i] {
			return false
		}
	}
	return true
}
func randInt(r *rand.Rand) int { return r.Intn(1000) }
func randSlice(r *rand.Rand) []int {
	n := r.Intn(3)
	var s []int
	for i := 0; i < n; i++ {
		s = append(s, r.Intn(1000))
	}
	return s
}

func runMapHistory[K comparable, V any](c *vlib.Case, ops mapOps[K, V], keys []K, fmtK func(K) string) {
	rng := c.Rng
	model := map[K]V{}
	var hist []string
	fail := func(clause, what string) {
		c.Violation(ops.Name+"/"+clause, what, map[string]interface{}{"history": append([]string{}, hist...)})
	}
	steps := 10 + rng.Intn(50)
	wasFast := ops.IsFast()
	crossed := false
	for s := 0; s < steps; s++ {
		k := keys[rng.Intn(len(keys))]
		op := rng.Intn(12)
		switch {
		case op < 4:
			v := ops.Rand(rng)
			hist = append(hist, fmt.Sprintf("Store(%s,%v)", fmtK(k), v))
			ops.Store(k, v)
			model[k] = v
		case op < 6:
			hist = append(hist, fmt.Sprintf("Delete(%s)", fmtK(k)))
			ops.Delete(k)
			delete(model, k)
		case op < 9 && ops.Append != nil:
			x := rng.Intn(1000)
			hist = append(hist, fmt.Sprintf("Append(%s,%d)", fmtK(k), x))
			got := ops.Append(k, x)
			want := ops.AppendM(model[k], x)
			model[k] = want
			if !ops.Eq(got, want) {
				fail("Append/result", fmt.Sprintf("Append returned %v, model %v", got, want))
				return
			}
		case op < 9 && ops.Add != nil:
			x := rng.Intn(1000)
			hist = append(hist, fmt.Sprintf("Add(%s,%d)", fmtK(k), x))
			got := ops.Add(k, x)
			want := ops.AddM(model[k], x)
			model[k] = want
			if !ops.Eq(got, want) {
				fail("Add/result", fmt.Sprintf("Add returned %v, model %v", got, want))
				return
			}
		default:
			hist = append(hist, fmt.Sprintf("Load(%s)", fmtK(k)))
		}
		if wasFast && !ops.IsFast() {
			crossed = true
		}
		wasFast = ops.IsFast()
		// compare complete observable state after every step
		if ops.Len() != len(model) {
			fail("Len/count", fmt.Sprintf("Len=%d, plain map has %d", ops.Len(), len(model)))
			return
		}
		for _, key := range keys {
			got, ok := ops.Load(key)
			want, wok := model[key]
			if ok != wok || (ok && !ops.Eq(got, want)) {
				fail("Load/value", fmt.Sprintf("Load(%s) = (%v,%v), plain map (%v,%v)", fmtK(key), got, ok, want, wok))
				return
			}
			if gv := ops.Value(key); wok && !ops.Eq(gv, want) {
				fail("Value/value", fmt.Sprintf("Value(%s) = %v, plain map %v", fmtK(key), gv, want))
				return
			}
		}
		seen := map[K]bool{}
		n := 0
		bad := ""
		ops.Range(func(key K, v V) bool {
			n++
			if seen[key] {
				bad = "Range visited a key twice: " + fmtK(key)
			}
			seen[key] = true
			if want, ok := model[key]; !ok || !ops.Eq(v, want) {
				bad = fmt.Sprintf("Range yielded (%s,%v), plain map has (%v,%v)", fmtK(key), v, want, ok)
			}
			return true
		})
		if bad == "" && n != len(model) {
			bad = fmt.Sprintf("Range visited %d entries, plain map has %d", n, len(model))
		}
		if bad != "" {
			fail("Range/entries", bad)
			return
		}
		nk := 0
		ops.KeyRange(func(key K) bool {
			nk++
			if _, ok := model[key]; !ok {
				bad = "KeyRange yielded absent key " + fmtK(key)
			}
			return true
		})
		nv := 0
		ops.ValueRange(func(v V) bool { nv++; return true })
		if bad == "" && (nk != len(model) || nv != len(model)) {
			bad = fmt.Sprintf("KeyRange/ValueRange visited %d/%d entries, plain map has %d", nk, nv, len(model))
		}
		if bad != "" {
			fail("KeyRange/entries", bad)
			return
		}
		if len(model) > 1 && s%7 == 0 {
			stop := 0
			ops.Range(func(K, V) bool { stop++; return false })
			stopK := 0
			ops.KeyRange(func(K) bool { stopK++; return false })
			stopV := 0
			ops.ValueRange(func(V) bool { stopV++; return false })
			if stop != 1 || stopK != 1 || stopV != 1 {
				fail("Range/early-stop", fmt.Sprintf("iteration continued after false: %d %d %d callbacks", stop, stopK, stopV))
				return
			}
		}
	}
	c.Count("maps.histories", 1)
	c.Count("maps."+ops.Name, 1)
	c.Count("maps.operations", int64(len(hist)))
	if crossed {
		c.Count("maps.crossed_fast_to_slow", 1)
		c.Count("maps.crossed."+ops.Name, 1)
	}
	if len(hist) >= 8 {
		c.Nontrivial(ops.Name + fmt.Sprint(hist))
	}
	if c.Index < 1 {
		c.Sample("map-history:"+ops.Name, 1, hist)
	}
}

// key pools

func keys3(rng *rand.Rand) []C3 {
	pts, _ := pool3(rng)
	if rng.Intn(3) == 0 { // force collisions and signed zeros into the same pool
		nz := math.Copysign(0, -1)
		pts = append(pts, C3{X: 1}, C3{X: 1, Y: 1e-20}, C3{X: 1, Z: 1e-21}, C3{}, C3{X: nz, Y: nz, Z: nz})
	}
	return pts
}

func keys2(rng *rand.Rand) []model2d.Coord {
	nz := math.Copysign(0, -1)
	var pts []model2d.Coord
	n := 4 + rng.Intn(8)
	switch rng.Intn(4) {
	case 0:
		for i := 0; i < n; i++ {
			pts = append(pts, model2d.XY(float64(rng.Intn(3)), float64(rng.Intn(3))))
		}
	case 1:
		for i := 0; i < n; i++ {
			pts = append(pts, model2d.XY(rng.NormFloat64(), rng.NormFloat64()))
		}
	case 2:
		pts = append(pts, model2d.XY(1, 0), model2d.XY(2, 1))
		for i := 0; i < n; i++ {
			pts = append(pts, model2d.XY(1, 1e-20*float64(1+rng.Intn(5))))
		}
	default:
		pts = []model2d.Coord{{}, {X: nz, Y: nz}, {X: nz}, {Y: nz}, {X: 1}, {X: 1, Y: nz}, {Y: 1}, {X: 1, Y: 1e-20}}
	}
	return pts
}

func fmtC2(c model2d.Coord) string { return fmt.Sprintf("(%x,%x)", c.X, c.Y) }

func mapHistories(r *vlib.Run) {
	n := r.N(12000, 120000)
	r.Section("maps3d", n, vlib.SectionOpts{}, func(c *vlib.Case) {
		rng := c.Rng
		pts := keys3(rng)
		edges := func() [][2]C3 {
			var es [][2]C3
			for i := 0; i < 12; i++ {
				es = append(es, [2]C3{pts[rng.Intn(len(pts))], pts[rng.Intn(len(pts))]})
			}
			return es
		}
		fmtE := func(e [2]C3) string { return fmtC(e[0]) + "-" + fmtC(e[1]) }
		switch c.Index % 6 {
		case 0:
			m := model3d.NewCoordMap[int]()
			runMapHistory(c, mapOps[C3, int]{Name: "model3d.CoordMap", Len: m.Len, Load: m.Load, Value: m.Value, Delete: m.Delete, Store: m.Store,
				Range: m.Range, KeyRange: m.KeyRange, ValueRange: m.ValueRange, IsFast: m.VerifIsFast, Eq: eqInt, Rand: randInt}, pts, fmtC)
		case 1:
			m := model3d.NewCoordToSlice[int]()
			runMapHistory(c, mapOps[C3, []int]{Name: "model3d.CoordToSlice", Len: m.Len, Load: m.Load, Value: m.Value, Delete: m.Delete, Store: m.Store,
				Range: m.Range, KeyRange: m.KeyRange, ValueRange: m.ValueRange, IsFast: m.VerifIsFast, Eq: eqSlice, Rand: randSlice,
				Append: m.Append, AppendM: func(v []int, x int) []int { return append(append([]int{}, v...), x) }}, pts, fmtC)
		case 2:
			m := model3d.NewCoordToNumber[int]()
			runMapHistory(c, mapOps[C3, int]{Name: "model3d.CoordToNumber", Len: m.Len, Load: m.Load, Value: m.Value, Delete: m.Delete, Store: m.Store,
				Range: m.Range, KeyRange: m.KeyRange, ValueRange: m.ValueRange, IsFast: m.VerifIsFast, Eq: eqInt, Rand: randInt,
				Add: m.Add, AddM: func(v int, x int) int { return v + x }}, pts, fmtC)
		case 3:
			m := model3d.NewEdgeMap[int]()
			runMapHistory(c, mapOps[[2]C3, int]{Name: "model3d.EdgeMap", Len: m.Len, Load: m.Load, Value: m.Value, Delete: m.Delete, Store: m.Store,
				Range: m.Range, KeyRange: m.KeyRange, ValueRange: m.ValueRange, IsFast: m.VerifIsFast, Eq: eqInt, Rand: randInt}, edges(), fmtE)
		case 4:
			m := model3d.NewEdgeToSlice[int]()
			runMapHistory(c, mapOps[[2]C3, []int]{Name: "model3d.EdgeToSlice", Len: m.Len, Load: m.Load, Value: m.Value, Delete: m.Delete, Store: m.Store,
				Range: m.Range, KeyRange: m.KeyRange, ValueRange: m.ValueRange, IsFast: m.VerifIsFast, Eq: eqSlice, Rand: randSlice,
				Append: m.Append, AppendM: func(v []int, x int) []int { return append(append([]int{}, v...), x) }}, edges(), fmtE)
		default:
			m := model3d.NewEdgeToNumber[int]()
			runMapHistory(c, mapOps[[2]C3, int]{Name: "model3d.EdgeToNumber", Len: m.Len, Load: m.Load, Value: m.Value, Delete: m.Delete, Store: m.Store,
				Range: m.Range, KeyRange: m.KeyRange, ValueRange: m.ValueRange, IsFast: m.VerifIsFast, Eq: eqInt, Rand: randInt,
				Add: m.Add, AddM: func(v int, x int) int { return v + x }}, edges(), fmtE)
		}
	})
}

func mapHistories2(r *vlib.Run) {
	n := r.N(12000, 120000)
	type K = model2d.Coord
	r.Section("maps2d", n, vlib.SectionOpts{}, func(c *vlib.Case) {
		rng := c.Rng
		pts := keys2(rng)
		edges := func() [][2]K {
			var es [][2]K
			for i := 0; i < 12; i++ {
				es = append(es, [2]K{pts[rng.Intn(len(pts))], pts[rng.Intn(len(pts))]})
			}
			return es
		}
		fmtE := func(e [2]K) string { return fmtC2(e[0]) + "-" + fmtC2(e[1]) }
		switch c.Index % 6 {
		case 0:
			m := model2d.NewCoordMap[int]()
			runMapHistory(c, mapOps[K, int]{Name: "model2d.CoordMap", Len: m.Len, Load: m.Load, Value: m.Value, Delete: m.Delete, Store: m.Store,
				Range: m.Range, KeyRange: m.KeyRange, ValueRange: m.ValueRange, IsFast: m.VerifIsFast, Eq: eqInt, Rand: randInt}, pts, fmtC2)
		case 1:
			m := model2d.NewCoordToSlice[int]()
			runMapHistory(c, mapOps[K, []int]{Name: "model2d.CoordToSlice", Len: m.Len, Load: m.Load, Value: m.Value, Delete: m.Delete, Store: m.Store,
				Range: m.Range, KeyRange: m.KeyRange, ValueRange: m.ValueRange, IsFast: m.VerifIsFast, Eq: eqSlice, Rand: randSlice,
				Append: m.Append, AppendM: func(v []int, x int) []int { return append(append([]int{}, v...), x) }}, pts, fmtC2)
		case 2:
			m := model2d.NewCoordToNumber[int]()
			runMapHistory(c, mapOps[K, int]{Name: "model2d.CoordToNumber", Len: m.Len, Load: m.Load, Value: m.Value, Delete: m.Delete, Store: m.Store,
				Range: m.Range, KeyRange: m.KeyRange, ValueRange: m.ValueRange, IsFast: m.VerifIsFast, Eq: eqInt, Rand: randInt,
				Add: m.Add, AddM: func(v int, x int) int { return v + x }}, pts, fmtC2)
		case 3:
			m := model2d.NewEdgeMap[int]()
			runMapHistory(c, mapOps[[2]K, int]{Name: "model2d.EdgeMap", Len: m.Len, Load: m.Load, Value: m.Value, Delete: m.Delete, Store: m.Store,
				Range: m.Range, KeyRange: m.KeyRange, ValueRange: m.ValueRange, IsFast: m.VerifIsFast, Eq: eqInt, Rand: randInt}, edges(), fmtE)
		case 4:
			m := model2d.NewEdgeToSlice[int]()
			runMapHistory(c, mapOps[[2]K, []int]{Name: "model2d.EdgeToSlice", Len: m.Len, Load: m.Load, Value: m.Value, Delete: m.Delete, Store: m.Store,
				Range: m.Range, KeyRange: m.KeyRange, ValueRange: m.ValueRange, IsFast: m.VerifIsFast, Eq: eqSlice, Rand: randSlice,
				Append: m.Append, AppendM: func(v []int, x int) []int { return append(append([]int{}, v...), x) }}, edges(), fmtE)
		default:
			m := model2d.NewEdgeToNumber[int]()
			runMapHistory(c, mapOps[[2]K, int]{Name: "model2d.EdgeToNumber", Len: m.Len, Load: m.Load, Value: m.Value, Delete: m.Delete, Store: m.Store,
				Range: m.Range, KeyRange: m.KeyRange, ValueRange: m.ValueRange, IsFast: m.VerifIsFast, Eq: eqInt, Rand: randInt,
				Add: m.Add, AddM: func(v int, x int) int { return v + x }}, edges(), fmtE)
		}
	})
}
