package main

import (
	"fmt"
	"math"
	"math/rand"
	"sort"

	"github.com/unixpickle/model3d/model2d"
	"github.com/unixpickle/model3d/model3d"
	"verif/vlib"
)

type K2 = model2d.Coord

type model2 struct{ faces []*model2d.Segment }

func (m *model2) has(f *model2d.Segment) bool {
	for _, g := range m.faces {
		if g == f {
			return true
		}
	}
	return false
}
func (m *model2) add(f *model2d.Segment) {
	if !m.has(f) {
		m.faces = append(m.faces, f)
	}
}
func (m *model2) remove(f *model2d.Segment) {
	for i, g := range m.faces {
		if g == f {
			m.faces = append(m.faces[:i:i], m.faces[i+1:]...)
			return
		}
	}
}
func (m *model2) find(ps ...K2) []*model2d.Segment {
	var res []*model2d.Segment
	for _, f := range m.faces {
		ok := true
		for _, p := range ps {
			if f[0] != p && f[1] != p {
				ok = false
			}
		}
		if ok {
			res = append(res, f)
		}
	}
	return res
}
func (m *model2) neighbors(f *model2d.Segment) []*model2d.Segment {
	var res []*model2d.Segment
	for _, g := range m.faces {
		if g == f {
			continue
		}
		if g[0] == f[0] || g[1] == f[0] || g[0] == f[1] || g[1] == f[1] {
			res = append(res, g)
		}
	}
	return res
}

func sameSegMultiset(a, b []*model2d.Segment) bool {
	if len(a) != len(b) {
		return false
	}
	ma := map[*model2d.Segment]int{}
	for _, f := range a {
		ma[f]++
	}
	for _, f := range b {
		ma[f]--
	}
	for _, v := range ma {
		if v != 0 {
			return false
		}
	}
	return true
}

func fmtSegs(fs []*model2d.Segment) []string {
	var res []string
	for _, f := range fs {
		res = append(res, fmt.Sprintf("%p:%s%s", f, fmtC2(f[0]), fmtC2(f[1])))
	}
	sort.Strings(res)
	return res
}

func compare2(c *vlib.Case, mesh *model2d.Mesh, mod *model2, pool []K2, hist *[]string, full bool) bool {
	ok := true
	fail := func(clause, what string) {
		ok = false
		c.Violation("model2d.Mesh."+clause, what, map[string]interface{}{"history": append([]string{}, *hist...), "model_faces": fmtSegs(mod.faces)})
	}
	if mesh.NumSegments() != len(mod.faces) {
		fail("NumSegments/count", fmt.Sprintf("NumSegments=%d, model %d", mesh.NumSegments(), len(mod.faces)))
	}
	if !sameSegMultiset(mesh.SegmentSlice(), mod.faces) {
		fail("SegmentSlice/face-multiset", "SegmentSlice differs from the model's faces")
	}
	for _, f := range mod.faces {
		if !mesh.Contains(f) {
			fail("Contains/member", "Contains(f) false for a current face")
		}
	}
	if !full {
		return ok
	}
	var it []*model2d.Segment
	mesh.Iterate(func(s *model2d.Segment) { it = append(it, s) })
	if !sameSegMultiset(it, mod.faces) {
		fail("Iterate/face-multiset", "Iterate differs from the model's faces")
	}
	mv := map[K2]bool{}
	for _, f := range mod.faces {
		mv[f[0]] = true
		mv[f[1]] = true
	}
	vs := mesh.VertexSlice()
	seen := map[K2]bool{}
	for _, v := range vs {
		if seen[v] || !mv[v] {
			fail("VertexSlice/member", "VertexSlice returns a duplicate or non-vertex "+fmtC2(v))
		}
		seen[v] = true
	}
	if len(seen) != len(mv) {
		fail("VertexSlice/count", fmt.Sprintf("VertexSlice has %d distinct vertices, model %d", len(seen), len(mv)))
	}
	nIter := 0
	mesh.IterateVertices(func(K2) { nIter++ })
	if nIter != len(mv) {
		fail("IterateVertices/count", fmt.Sprintf("IterateVertices visited %d, model %d", nIter, len(mv)))
	}
	if len(mod.faces) > 0 {
		mn, mx := mod.faces[0][0], mod.faces[0][0]
		for _, f := range mod.faces {
			for _, p := range f {
				mn = mn.Min(p)
				mx = mx.Max(p)
			}
		}
		if mesh.Min() != mn || mesh.Max() != mx {
			fail("MinMax/bounds", fmt.Sprintf("Min/Max = %v %v, model %v %v", mesh.Min(), mesh.Max(), mn, mx))
		}
	}
	for _, p := range pool {
		if got, want := mesh.Find(p), mod.find(p); !sameSegMultiset(got, want) {
			fail("Find/1-point", fmt.Sprintf("Find(%s): got %v want %v", fmtC2(p), fmtSegs(got), fmtSegs(want)))
			break
		}
		for _, q := range pool {
			if got, want := mesh.Find(p, q), mod.find(p, q); !sameSegMultiset(got, want) {
				fail("Find/2-point", fmt.Sprintf("Find(%s,%s): got %v want %v", fmtC2(p), fmtC2(q), fmtSegs(got), fmtSegs(want)))
				return ok
			}
		}
	}
	for _, f := range mod.faces {
		if got, want := mesh.Neighbors(f), mod.neighbors(f); !sameSegMultiset(got, want) {
			fail("Neighbors/vertex-sharing", fmt.Sprintf("Neighbors: got %v want %v", fmtSegs(got), fmtSegs(want)))
			break
		}
	}
	avn := mesh.AllVertexNeighbors()
	mvn := map[K2]map[K2]bool{}
	for _, f := range mod.faces {
		for i := 0; i < 2; i++ {
			if mvn[f[i]] == nil {
				mvn[f[i]] = map[K2]bool{}
			}
			mvn[f[i]][f[1-i]] = true
		}
	}
	if avn.Len() != len(mvn) {
		fail("AllVertexNeighbors/keys", fmt.Sprintf("AllVertexNeighbors has %d keys, model %d", avn.Len(), len(mvn)))
	}
	for p, ns := range mvn {
		got := avn.Value(p)
		gs := map[K2]bool{}
		for _, g := range got {
			gs[g] = true
		}
		bad := len(gs) != len(ns) || len(got) != len(ns)
		for q := range ns {
			if !gs[q] {
				bad = true
			}
		}
		if bad {
			fail("AllVertexNeighbors/values", fmt.Sprintf("neighbors of %s: got %d entries, model %d", fmtC2(p), len(got), len(ns)))
			break
		}
	}
	return ok
}

func newSeg(pool []K2, rng *rand.Rand) *model2d.Segment {
	s := &model2d.Segment{pool[rng.Intn(len(pool))], pool[rng.Intn(len(pool))]}
	if rng.Intn(8) != 0 {
		for tries := 0; tries < 8 && s[0] == s[1]; tries++ {
			s[1] = pool[rng.Intn(len(pool))]
		}
	}
	return s
}

func meshHistories2(r *vlib.Run) {
	n := r.N(6000, 60000)
	r.Section("mesh2d", n, vlib.SectionOpts{}, func(c *vlib.Case) {
		rng := c.Rng
		pool := keys2(rng)
		mesh := model2d.NewMesh()
		mod := &model2{}
		var hist []string
		var all []*model2d.Segment
		steps := 10 + rng.Intn(40)
		muts := 0
		type fork struct {
			m   *model2d.Mesh
			mod *model2
		}
		forks := []*fork{{mesh, mod}}
		for s := 0; s < steps; s++ {
			cur := forks[rng.Intn(len(forks))]
			mesh, mod = cur.m, cur.mod
			if len(forks) < 3 && rng.Intn(12) == 0 {
				nmod := &model2{}
				nmod.faces = append(nmod.faces, mod.faces...)
				forks = append(forks, &fork{mesh.Copy(), nmod})
				hist = append(hist, "fork(Copy)")
				c.Count("mesh2d.forks", 1)
				continue
			}
			op := rng.Intn(16)
			switch {
			case op < 6:
				f := newSeg(pool, rng)
				all = append(all, f)
				hist = append(hist, fmt.Sprintf("Add(new %s%s)", fmtC2(f[0]), fmtC2(f[1])))
				mesh.Add(f)
				mod.add(f)
				muts++
			case op < 7 && len(all) > 0:
				f := all[rng.Intn(len(all))]
				hist = append(hist, "Add(existing)")
				mesh.Add(f)
				mod.add(f)
			case op < 8 && len(mod.faces) > 0:
				g := mod.faces[rng.Intn(len(mod.faces))]
				f := &model2d.Segment{g[0], g[1]}
				all = append(all, f)
				hist = append(hist, "Add(dup-coords)")
				mesh.Add(f)
				mod.add(f)
				muts++
			case op < 11 && len(mod.faces) > 0:
				f := mod.faces[rng.Intn(len(mod.faces))]
				hist = append(hist, fmt.Sprintf("Remove(%s%s)", fmtC2(f[0]), fmtC2(f[1])))
				mesh.Remove(f)
				mod.remove(f)
				muts++
			case op < 12:
				hist = append(hist, "Remove(absent)")
				mesh.Remove(newSeg(pool, rng))
			case op < 13:
				other := model2d.NewMesh()
				for i := rng.Intn(4); i > 0; i-- {
					f := newSeg(pool, rng)
					all = append(all, f)
					other.Add(f)
					mod.add(f)
				}
				hist = append(hist, fmt.Sprintf("AddMesh(%d)", other.NumSegments()))
				mesh.AddMesh(other)
				muts++
			default:
				hist = append(hist, "query")
				compare2(c, mesh, mod, pool, &hist, true)
			}
			for _, fk := range forks {
				if !compare2(c, fk.m, fk.mod, pool, &hist, false) {
					return
				}
			}
			if len(forks) > 1 && s%4 == 0 {
				for _, fk := range forks {
					if fk != cur && !compare2(c, fk.m, fk.mod, pool, &hist, true) {
						return
					}
				}
			}
		}
		for _, fk := range forks {
			compare2(c, fk.m, fk.mod, pool, &hist, true)
		}
		mesh, mod = forks[0].m, forks[0].mod
		// derived meshes
		want := make([]vlib.Seg, len(mod.faces))
		for i, f := range mod.faces {
			want[i] = vlib.Seg{f[0], f[1]}
		}
		check := func(api string, got *model2d.Mesh, f func(vlib.Seg) vlib.Seg) {
			w := make([]vlib.Seg, len(want))
			for i, s := range want {
				w[i] = f(s)
			}
			c.Count("derived2d."+api, 1)
			if eq, why := vlib.EqualCanonSegs(vlib.CanonSegs(vlib.Segs(got)), vlib.CanonSegs(w)); !eq {
				c.Violation("model2d.Mesh."+api+"/face-multiset", why, map[string]interface{}{"input": fmtSegs(mod.faces)})
				return
			}
			m2 := &model2{faces: got.SegmentSlice()}
			var pool2 []K2
			for _, s := range m2.faces {
				pool2 = append(pool2, s[0], s[1])
			}
			if len(pool2) > 16 {
				pool2 = pool2[:16]
			}
			h := []string{"derived:" + api}
			compare2(c, got, m2, pool2, &h, true)
		}
		id := func(s vlib.Seg) vlib.Seg { return s }
		check("Copy", mesh.Copy(), id)
		check("DeepCopy", mesh.DeepCopy(), id)
		inv := mesh.InvertNormals()
		check("InvertNormals", inv, func(s vlib.Seg) vlib.Seg { return vlib.Seg{s[1], s[0]} })
		check("InvertNormals.twice", inv.InvertNormals(), id)
		sh := model2d.XY(rng.NormFloat64(), rng.NormFloat64())
		check("Translate", mesh.Translate(sh), func(s vlib.Seg) vlib.Seg { return vlib.Seg{s[0].Add(sh), s[1].Add(sh)} })
		round := func(p K2) K2 { return model2d.XY(math.Round(p.X), p.Y) }
		check("MapCoords.merge", mesh.MapCoords(round), func(s vlib.Seg) vlib.Seg { return vlib.Seg{round(s[0]), round(s[1])} })
		sc := 0.5 + rng.Float64()*2
		check("Scale", mesh.Scale(sc), func(s vlib.Seg) vlib.Seg { return vlib.Seg{s[0].Scale(sc), s[1].Scale(sc)} })
		check("Invert", mesh.Invert(), func(s vlib.Seg) vlib.Seg { return vlib.Seg{s[1], s[0]} })
		check("Invert.twice", mesh.Invert().Invert(), id)
		ang := rng.Float64() * 7
		rot := model2d.Rotation(ang)
		check("Rotate", mesh.Rotate(ang), func(s vlib.Seg) vlib.Seg { return vlib.Seg{rot.Apply(s[0]), rot.Apply(s[1])} })
		if len(mod.faces) > 0 {
			mn, mx := mod.faces[0][0], mod.faces[0][0]
			for _, f := range mod.faces {
				mn, mx = mn.Min(f[0]).Min(f[1]), mx.Max(f[0]).Max(f[1])
			}
			off := mn.Mid(mx).Scale(-1)
			check("Center", mesh.Center(), func(s vlib.Seg) vlib.Seg { return vlib.Seg{s[0].Add(off), s[1].Add(off)} })
		}
		c.Count("mesh2d.histories", 1)
		c.Count("mesh2d.operations", int64(len(hist)))
		if muts >= 8 {
			c.Nontrivial("2d" + fmt.Sprint(hist))
		}
		if c.Index < 1 {
			c.Sample("mesh2d-history", 1, hist)
		}
	})
}

// ---------------------------------------------------------------------------
// library in-place editors: the mesh they return/modify must answer like a
// fresh mesh of its own faces.

type blob struct {
	centers []C3
	radii   []float64
}

func (b *blob) Min() C3 {
	m := b.centers[0].AddScalar(-b.radii[0])
	for i, c := range b.centers {
		m = m.Min(c.AddScalar(-b.radii[i]))
	}
	return m
}
func (b *blob) Max() C3 {
	m := b.centers[0].AddScalar(b.radii[0])
	for i, c := range b.centers {
		m = m.Max(c.AddScalar(b.radii[i]))
	}
	return m
}
func (b *blob) Contains(p C3) bool {
	for i, c := range b.centers {
		if c.Dist(p) < b.radii[i] {
			return true
		}
	}
	return false
}

func checkFresh(c *vlib.Case, api string, mesh *model3d.Mesh, rng *rand.Rand) {
	c.Count("editors."+api, 1)
	mod := &model3{faces: mesh.TriangleSlice()}
	var pool []C3
	for v := range mod.vertices() {
		pool = append(pool, v)
		if len(pool) >= 40 {
			break
		}
	}
	if len(pool) == 0 {
		return
	}
	// sub-sample faces for the quadratic checks
	if len(mod.faces) > 400 {
		sub := &model3{}
		// keep everything for counts; neighbours checked through Find below
		h := []string{"editor:" + api}
		ok := true
		for _, p := range pool {
			if !samePtrMultiset(mesh.Find(p), mod.find(p)) {
				ok = false
				c.Violation("model3d."+api+"/Find-after-edit", "Find(vertex) differs from a scan of the mesh's own faces after "+api, map[string]interface{}{"vertex": fmtC(p)})
				break
			}
		}
		if ok && len(mesh.VertexSlice()) != len(mod.vertices()) {
			c.Violation("model3d."+api+"/VertexSlice-after-edit", "VertexSlice differs from the vertex set of the mesh's own faces after "+api, nil)
		}
		_ = sub
		_ = h
		return
	}
	h := []string{"editor:" + api}
	compare3(c, mesh, mod, pool, &h, rng, true)
}

func editors(r *vlib.Run) {
	n := r.N(200, 1500)
	r.Section("editors", n, vlib.SectionOpts{}, func(c *vlib.Case) {
		rng := c.Rng
		b := &blob{}
		for i := 0; i < 1+rng.Intn(3); i++ {
			b.centers = append(b.centers, model3d.XYZ(rng.Float64(), rng.Float64(), rng.Float64()))
			b.radii = append(b.radii, 0.3+rng.Float64()*0.5)
		}
		delta := 0.15 + rng.Float64()*0.15
		// MarchingCubes builds and queries the index, then mcSearch rewrites vertices in place
		m := model3d.MarchingCubesSearch(b, delta, 1+rng.Intn(4))
		checkFresh(c, "MarchingCubesSearch", m, rng)
		m2, _ := model3d.MarchingCubesInterior(b, delta, 2)
		checkFresh(c, "MarchingCubesInterior", m2, rng)
		dc := &model3d.DualContouring{S: model3d.SolidSurfaceEstimator{Solid: b}, Delta: delta, Repair: true, Clip: true}
		checkFresh(c, "DualContouring.Mesh(Repair)", dc.Mesh(), rng)
		// query first so that the index exists before the in-place edit
		m.VertexSlice()
		fb := m.FlattenBase(0)
		checkFresh(c, "Mesh.FlattenBase", fb, rng)
		checkFresh(c, "Mesh.FlattenBase(original)", m, rng)
		small := model3d.MarchingCubes(b, delta*2)
		small.VertexSlice()
		k := 0
		ee := small.EliminateEdges(func(tmp *model3d.Mesh, seg model3d.Segment) bool {
			k++
			return k%5 == 0
		})
		checkFresh(c, "Mesh.EliminateEdges", ee, rng)
		// the predicate queries the working mesh it is handed (bounds, faces at the edge's ends)
		// before deciding; collapses are aimed at the extreme vertices so that the bounds move.
		// Both the working mesh during the edit and the result afterwards must answer like a
		// fresh mesh of their current faces.
		small3 := model3d.MarchingCubes(b, delta*2)
		axis := rng.Intn(3)
		calls, failed := 0, false
		ee2 := small3.EliminateEdges(func(tmp *model3d.Mesh, seg model3d.Segment) bool {
			calls++
			mn, mx := tmp.Min(), tmp.Max()
			if !failed && calls%7 == 1 {
				fmn, fmx := C3{X: math.Inf(1), Y: math.Inf(1), Z: math.Inf(1)}, C3{X: math.Inf(-1), Y: math.Inf(-1), Z: math.Inf(-1)}
				nfind := 0
				tmp.Iterate(func(t *model3d.Triangle) {
					for _, p := range t {
						fmn, fmx = fmn.Min(p), fmx.Max(p)
					}
					if t[0] == seg[0] || t[1] == seg[0] || t[2] == seg[0] {
						nfind++
					}
				})
				c.Count("editors.queries_during_EliminateEdges", 1)
				if mn != fmn || mx != fmx {
					failed = true
					c.Violation("model3d.Mesh.EliminateEdges/bounds-of-working-mesh", fmt.Sprintf("inside the predicate (call %d) Min/Max = %v %v, the working mesh's faces span %v %v", calls, mn, mx, fmn, fmx), nil)
				} else if got := len(tmp.Find(seg[0])); got != nfind {
					failed = true
					c.Violation("model3d.Mesh.EliminateEdges/Find-on-working-mesh", fmt.Sprintf("inside the predicate (call %d) Find(edge end) returns %d faces, a scan finds %d", calls, got, nfind), nil)
				}
			}
			hi, lo := mx.Array()[axis], mn.Array()[axis]
			a, bb := seg[0].Array()[axis], seg[1].Array()[axis]
			return a == hi || bb == hi || a == lo || bb == lo
		})
		if !failed {
			checkFresh(c, "Mesh.EliminateEdges(predicate-queries-working-mesh)", ee2, rng)
		}
		// an edge whose ends are adjacent floating-point numbers: its midpoint rounds onto one of the
		// ends, so the merged vertex has the coordinates of a vertex that is being removed
		{
			src := model3d.MarchingCubes(b, delta*2)
			tris := src.TriangleSlice()
			if len(tris) > 0 {
				t := tris[rng.Intn(len(tris))]
				u, v := t[0], t[1]
				vNew := u
				switch rng.Intn(3) {
				case 0:
					vNew.X = math.Nextafter(u.X, math.Inf(1))
				case 1:
					vNew.Y = math.Nextafter(u.Y, math.Inf(-1))
				default:
					vNew.Z = math.Nextafter(u.Z, math.Inf(1))
				}
				adj := src.MapCoords(func(p C3) C3 {
					if p == v {
						return vNew
					}
					return p
				})
				adj.VertexSlice()
				collapsed := 0
				ee3 := adj.EliminateEdges(func(tmp *model3d.Mesh, seg model3d.Segment) bool {
					if (seg[0] == u && seg[1] == vNew) || (seg[0] == vNew && seg[1] == u) {
						collapsed++
						return true
					}
					return false
				})
				if collapsed > 0 {
					c.Count("editors.collapses_of_an_edge_between_adjacent_floats", 1)
				}
				checkFresh(c, "Mesh.EliminateEdges(edge-between-adjacent-floats)", ee3, rng)
			}
		}
		// bisection run until the floating-point bracket is exhausted on a box whose faces lie on
		// lattice planes: refined vertices of different lattice edges land on the same point
		{
			off := []float64{1, 3, 1024, 1 << 20}[rng.Intn(4)]
			sz := float64(1 + rng.Intn(2))
			box := model3d.NewRect(model3d.XYZ(off, off, off), model3d.XYZ(off+sz, off+sz, off+sz))
			dl := []float64{0.5, 0.25}[rng.Intn(2)]
			iters := []int{50, 64, 100}[rng.Intn(3)]
			ms := model3d.MarchingCubesSearch(box, dl, iters)
			c.Count("editors.exhausted_bisection_meshes", 1)
			checkFresh(c, "MarchingCubesSearch(exhausted-bisection-on-aligned-box)", ms, rng)
			mi, _ := model3d.MarchingCubesInterior(box, dl, iters)
			checkFresh(c, "MarchingCubesInterior(exhausted-bisection-on-aligned-box)", mi, rng)
		}
		rp := small.Repair(delta / 10)
		checkFresh(c, "Mesh.Repair", rp, rng)
		sd := model3d.NewSubdivider()
		small2 := small.Copy()
		small2.VertexSlice()
		sd.AddFiltered(small2, func(p1, p2 C3) bool { return p1.Dist(p2) > delta*1.5 })
		sd.Subdivide(small2, func(p1, p2 C3) C3 { return p1.Mid(p2) })
		checkFresh(c, "Subdivider.Subdivide", small2, rng)
		ec := small.EliminateCoplanar(1e-5)
		checkFresh(c, "Mesh.EliminateCoplanar", ec, rng)
		ls := model3d.SubdivideEdges(small, 2)
		checkFresh(c, "SubdivideEdges", ls, rng)
		c.Nontrivial(fmt.Sprint(b.centers, b.radii, delta))
	})
}
