package main

import (
	"fmt"
	"github.com/unixpickle/model3d/model3d"
	"github.com/unixpickle/model3d/model2d"
	"github.com/unixpickle/model3d/numerical"
)

func main() {
	// single interior vertex fan with 4 ring vertices
	s := &numerical.BiCGSTABSolver{MaxIters: 5000, MSETolerance: 1e-16}
	op := func(v numerical.Vec) numerical.Vec { return numerical.Vec{-v[0]} }
	func() {
		defer func() { fmt.Println("recover:", recover()) }()
		fmt.Println(s.SolveLinearSystem(op, numerical.Vec{0}, nil))
	}()
	fmt.Println(s.SolveLinearSystem(op, numerical.Vec{0.5}, nil))
	_ = model3d.Origin
	_ = model2d.Origin
}
