package main

import (
	"fmt"
	"math"
	"math/rand"

	"github.com/unixpickle/model3d/model3d"
	"verif/vlib"
	ref "verif/vlib/c18ref"
)

type C3 = model3d.Coord3D

// surface is a generated input with its certificate.
type surface struct {
	im     *ref.IMesh
	tris   []vlib.Tri
	cert   *ref.Cert
	desc   string
	planar bool // all vertices in one plane (before the rigid motion)
}

func (s *surface) witness() map[string]interface{} {
	return map[string]interface{}{"generator": s.desc, "topology": s.cert.Describe(), "faces_hex": ref.HexTris(s.tris, 48)}
}

func randRotation(rng *rand.Rand) func(C3) C3 {
	// random orthonormal frame by Gram-Schmidt
	a := model3d.XYZ(rng.NormFloat64(), rng.NormFloat64(), rng.NormFloat64()).Normalize()
	b := model3d.XYZ(rng.NormFloat64(), rng.NormFloat64(), rng.NormFloat64())
	b = b.Sub(a.Scale(a.Dot(b))).Normalize()
	cc := a.Cross(b)
	return func(p C3) C3 {
		return a.Scale(p.X).Add(b.Scale(p.Y)).Add(cc.Scale(p.Z))
	}
}

// finish applies a random similarity / anisotropic map (all keep topology)
// and certifies the result.
func finish(rng *rand.Rand, im *ref.IMesh, desc string, planar bool) *surface {
	switch rng.Intn(4) {
	case 0: // leave exactly representable coordinates alone
	case 1:
		s := model3d.XYZ(0.25+2*rng.Float64(), 0.25+2*rng.Float64(), 0.25+2*rng.Float64())
		im.MapV(func(p C3) C3 { return p.Mul(s) })
		desc += fmt.Sprintf(" scaled(%.3g,%.3g,%.3g)", s.X, s.Y, s.Z)
	default:
		rot := randRotation(rng)
		sc := math.Exp(rng.NormFloat64())
		off := model3d.XYZ(rng.NormFloat64(), rng.NormFloat64(), rng.NormFloat64()).Scale(3)
		im.MapV(func(p C3) C3 { return rot(p).Scale(sc).Add(off) })
		desc += fmt.Sprintf(" rigid*%.3g", sc)
	}
	tris := im.Tris()
	return &surface{im: im, tris: tris, cert: ref.Certify(tris), desc: desc, planar: planar}
}

func jitter(rng *rand.Rand, im *ref.IMesh, amp float64, keepZ bool) {
	im.MapV(func(p C3) C3 {
		d := model3d.XYZ(rng.Float64()-0.5, rng.Float64()-0.5, rng.Float64()-0.5).Scale(2 * amp)
		if keepZ {
			d.Z = 0
		}
		return p.Add(d)
	})
}

// ---------------------------------------------------------------------------
// discs

// genDisc returns a certified topological disc with non-degenerate faces, or
// nil if the attempt was rejected. maxCells bounds the size.
func genDisc(rng *rand.Rand, maxSide int) *surface {
	var im *ref.IMesh
	desc := ""
	planar := false
	switch k := rng.Intn(12); k {
	case 0, 1, 2, 3: // height field patch
		nx, ny := 1+rng.Intn(maxSide), 1+rng.Intn(maxSide)
		mode := rng.Intn(5)
		hs := make([]float64, (nx+1)*(ny+1))
		for i := range hs {
			switch mode {
			case 0:
				hs[i] = 0
			case 1:
				hs[i] = float64(rng.Intn(3))
			case 2:
				hs[i] = rng.NormFloat64() * 0.3
			case 3:
				hs[i] = rng.NormFloat64() * 3
			}
		}
		fx, fy := rng.Float64()*2, rng.Float64()*2
		h := func(i, j int) float64 {
			if mode == 4 {
				return 2 * math.Sin(fx*float64(i)) * math.Cos(fy*float64(j))
			}
			return hs[j*(nx+1)+i]
		}
		dm := rng.Intn(3)
		im = ref.Grid(nx, ny, h, func(i, j int) bool {
			switch dm {
			case 0:
				return true
			case 1:
				return (i+j)%2 == 0
			}
			return rng.Intn(2) == 0
		})
		planar = mode == 0
		desc = fmt.Sprintf("grid %dx%d height-mode %d diag-mode %d", nx, ny, mode, dm)
		if rng.Intn(2) == 0 {
			jitter(rng, im, 0.3, planar)
			desc += " jitter0.3"
		}
		if rng.Intn(4) == 0 {
			n := im.FlipEdges(rng, len(im.F))
			desc += fmt.Sprintf(" flips%d", n)
		}
	case 4: // fan around one interior vertex, star shaped ring
		n := 3 + rng.Intn(10)
		rs := make([]float64, n)
		for i := range rs {
			rs[i] = 0.3 + 2*rng.Float64()
		}
		apex := 0.0
		if rng.Intn(2) == 0 {
			apex = rng.NormFloat64() * 2
		}
		planar = apex == 0
		im = ref.Fan(n, apex, func(k int) float64 { return rs[k] })
		desc = fmt.Sprintf("fan n=%d apex=%.3g", n, apex)
	case 5:
		n := 1 + rng.Intn(2*maxSide)
		im = ref.Strip(n, func(i, j int) float64 { return 0.5 * math.Sin(float64(i)) * float64(j) })
		desc = fmt.Sprintf("strip n=%d", n)
	case 6:
		n := 3 + rng.Intn(3*maxSide)
		im = ref.PolygonFan(n)
		desc = fmt.Sprintf("polygon-fan n=%d (single triangle when n=3)", n)
	case 7, 8: // spherical cap
		lv := rng.Intn(3)
		if maxSide >= 24 {
			lv = 1 + rng.Intn(3)
		}
		base := ref.Octahedron()
		if rng.Intn(2) == 0 {
			base = ref.Icosahedron()
		}
		sp := ref.Sphere(base, lv)
		dir := model3d.XYZ(rng.NormFloat64(), rng.NormFloat64(), rng.NormFloat64()).Normalize()
		cut := -0.7 + 1.5*rng.Float64()
		sub := sp.SubsetFaces(func(fi int) bool { return sp.Centroid(fi).Dot(dir) > cut })
		if len(sub.F) == 0 {
			return nil
		}
		im = sub.LargestEdgeComponent()
		desc = fmt.Sprintf("cap of %s level %d cut %.3g", sp.Kind, lv, cut)
		if rng.Intn(2) == 0 {
			a := 0.2 + 0.5*rng.Float64()
			f1, f2 := 1+3*rng.Float64(), 1+3*rng.Float64()
			im.MapV(func(p C3) C3 { return p.Scale(1 + a*math.Sin(f1*p.X)*math.Cos(f2*p.Y)) })
			desc += " bumpy"
		}
	case 9: // grid with randomly removed rim triangles (ears, notches)
		nx, ny := 2+rng.Intn(maxSide), 2+rng.Intn(maxSide)
		g := ref.Grid(nx, ny, func(i, j int) float64 { return 0.4 * math.Sin(float64(i)+0.5*float64(j)) }, func(i, j int) bool { return rng.Intn(2) == 0 })
		p := 0.1 + 0.5*rng.Float64()
		sub := g.SubsetFaces(func(fi int) bool {
			cx, cy := (fi/2)%nx, (fi/2)/nx
			rim := cx == 0 || cy == 0 || cx == nx-1 || cy == ny-1
			return !(rim && rng.Float64() < p)
		})
		if len(sub.F) == 0 {
			return nil
		}
		im = sub.LargestEdgeComponent()
		desc = fmt.Sprintf("grid %dx%d with rim faces removed p=%.2g", nx, ny, p)
	case 10: // flat grid with strong in-plane jitter (planar, irregular)
		nx, ny := 2+rng.Intn(maxSide), 2+rng.Intn(maxSide)
		im = ref.Grid(nx, ny, func(i, j int) float64 { return 0 }, func(i, j int) bool { return rng.Intn(2) == 0 })
		jitter(rng, im, 0.45, true)
		planar = true
		desc = fmt.Sprintf("flat grid %dx%d jitter0.45", nx, ny)
	default: // anisotropic long patch
		nx, ny := 1+rng.Intn(3*maxSide), 1+rng.Intn(3)
		im = ref.Grid(nx, ny, func(i, j int) float64 { return float64((i * j) % 3) }, func(i, j int) bool { return (i+j)%2 == 0 })
		st := 0.05 + rng.Float64()
		im.MapV(func(p C3) C3 { return model3d.XYZ(p.X*st, p.Y, p.Z) })
		desc = fmt.Sprintf("long patch %dx%d stretch %.3g", nx, ny, st)
	}
	s := finish(rng, im, desc, planar)
	if !s.cert.Disc || !(s.cert.MinArea > 1e-9) {
		return nil
	}
	return s
}

// ---------------------------------------------------------------------------
// closed surfaces and subsets

func genClosedOne(rng *rand.Rand, big bool) (*ref.IMesh, string) {
	switch rng.Intn(9) {
	case 0, 1: // subdivided sphere, optionally bumpy / squashed
		base, name := ref.Octahedron(), "octa"
		switch rng.Intn(3) {
		case 0:
			base, name = ref.Icosahedron(), "icosa"
		case 1:
			base, name = ref.Tetrahedron(1, 1.3), "tetra"
		}
		lv := rng.Intn(3)
		if big {
			lv = 2 + rng.Intn(3)
			if name == "icosa" && rng.Intn(3) == 0 {
				lv = 5 // 20480 faces
			}
		}
		m := ref.Sphere(base, lv)
		desc := fmt.Sprintf("%s sphere level %d", name, lv)
		switch rng.Intn(3) {
		case 0:
			a := 0.1 + 0.6*rng.Float64()
			f1, f2 := 1+4*rng.Float64(), 1+4*rng.Float64()
			m.MapV(func(p C3) C3 { return p.Scale(1 + a*math.Sin(f1*p.X+1)*math.Cos(f2*p.Z)) })
			desc += " bumpy"
		case 1:
			s := model3d.XYZ(1, 0.05+rng.Float64(), 0.05+0.3*rng.Float64())
			m.MapV(func(p C3) C3 { return p.Mul(s) })
			desc += fmt.Sprintf(" squashed(%.3g,%.3g)", s.Y, s.Z)
		}
		return m, desc
	case 2: // torus
		nu, nv := 3+rng.Intn(14), 3+rng.Intn(8)
		if big {
			nu, nv = 10+rng.Intn(50), 5+rng.Intn(30)
		}
		dm := rng.Intn(3)
		m := ref.Torus(nu, nv, 1+rng.Float64(), 0.1+0.8*rng.Float64(), func(i, j int) bool {
			if dm == 2 {
				return rng.Intn(2) == 0
			}
			return dm == 0
		})
		return m, fmt.Sprintf("torus %dx%d diag-mode %d", nu, nv, dm)
	case 3: // slab with holes: genus = number of holes
		g := rng.Intn(4)
		w := 2*g + 1
		if g == 0 {
			w = 1 + rng.Intn(3)
		}
		h := 3
		var holes [][4]int
		for i := 0; i < g; i++ {
			holes = append(holes, [4]int{2*i + 1, 1, 2*i + 2, 2})
		}
		d := 1 + rng.Intn(2)
		m := ref.Voxels(ref.Frame(w, h, d, holes), func(k int) bool { return rng.Intn(2) == 0 })
		return m, fmt.Sprintf("voxel slab %dx%dx%d with %d holes", w, h, d, g)
	case 4: // random voxel blob (may be rejected by the certifier)
		n := 2 + rng.Intn(10)
		if big {
			n = 10 + rng.Intn(60)
		}
		m := ref.Voxels(ref.RandomBlob(rng, n), func(k int) bool { return rng.Intn(2) == 0 })
		return m, fmt.Sprintf("voxel blob %d cells", n)
	case 5: // flat tetrahedron: the base carries almost half of the area
		h := math.Pow(10, -3*rng.Float64())
		m := ref.Tetrahedron(1+rng.Float64(), h)
		if rng.Intn(3) == 0 {
			// an even more extreme case: base triangle strictly more than half?
			// impossible for a closed tetrahedron (the three others project
			// onto it), so use a needle apex far to the side instead.
			m.V[3] = model3d.XYZ(5*rng.NormFloat64(), 5*rng.NormFloat64(), h)
		}
		return m, fmt.Sprintf("flat tetrahedron h=%.3g", h)
	case 6:
		n := 3 + rng.Intn(10)
		return ref.Bipyramid(n, 0.01+2*rng.Float64(), 0.01+2*rng.Float64()), fmt.Sprintf("bipyramid n=%d", n)
	case 7: // subdivided voxel shape: large flat regions, many ties
		g := rng.Intn(3)
		var holes [][4]int
		for i := 0; i < g; i++ {
			holes = append(holes, [4]int{2*i + 1, 1, 2*i + 2, 2})
		}
		m := ref.Voxels(ref.Frame(2*g+1+rng.Intn(2), 3, 1, holes), func(k int) bool { return true })
		lv := 1
		if big {
			lv = 1 + rng.Intn(2)
		}
		for i := 0; i < lv; i++ {
			m = midSub(m)
		}
		return m, fmt.Sprintf("subdivided voxel slab genus %d level %d", g, lv)
	default: // octahedron / icosahedron with flipped edges
		m := ref.Sphere(ref.Icosahedron(), rng.Intn(2))
		n := m.FlipEdges(rng, 10+rng.Intn(40))
		return m, fmt.Sprintf("icosphere with %d edge flips", n)
	}
}

func midSub(m *ref.IMesh) *ref.IMesh { return refSubdivide(m) }

// refSubdivide is a flat 1-to-4 subdivision (no projection).
func refSubdivide(m *ref.IMesh) *ref.IMesh {
	res := &ref.IMesh{V: append([]C3{}, m.V...), Kind: m.Kind}
	mids := map[[2]int]int{}
	mid := func(a, b int) int {
		k := [2]int{a, b}
		if a > b {
			k = [2]int{b, a}
		}
		if i, ok := mids[k]; ok {
			return i
		}
		res.V = append(res.V, m.V[a].Mid(m.V[b]))
		mids[k] = len(res.V) - 1
		return len(res.V) - 1
	}
	for _, f := range m.F {
		ab, bc, ca := mid(f[0], f[1]), mid(f[1], f[2]), mid(f[2], f[0])
		res.F = append(res.F, [3]int{f[0], ab, ca}, [3]int{f[1], bc, ab}, [3]int{f[2], ca, bc}, [3]int{ab, bc, ca})
	}
	return res
}

// genManifold returns a certified input for the decomposition APIs: a closed
// manifold (one or several components, genus 0..3), an open disc, a mix, or a
// face subset of a certified manifold (holes, several boundary loops).
func genManifold(rng *rand.Rand, big bool) *surface {
	kind := rng.Intn(11)
	switch {
	case kind == 10:
		// open, connected, exactly one boundary loop - and not a disc: a closed surface of genus
		// >= 1 with one connected patch cut out (a face, or a face and the faces around it), or
		// a Moebius band
		if rng.Intn(3) == 0 {
			n := 5 + rng.Intn(12)
			im := &ref.IMesh{Kind: "moebius"}
			w := 0.2 + 0.5*rng.Float64()
			for i := 0; i < n; i++ {
				u := 2 * math.Pi * float64(i) / float64(n)
				for _, v := range []float64{w, -w} {
					im.V = append(im.V, model3d.XYZ((2+v*math.Cos(u/2))*math.Cos(u), (2+v*math.Cos(u/2))*math.Sin(u), v*math.Sin(u/2)))
				}
			}
			a := func(i int) int {
				if i == n {
					return 1
				}
				return 2 * i
			}
			b := func(i int) int {
				if i == n {
					return 0
				}
				return 2*i + 1
			}
			for i := 0; i < n; i++ {
				im.F = append(im.F, [3]int{a(i), b(i), a(i + 1)}, [3]int{b(i), b(i + 1), a(i + 1)})
			}
			s := finish(rng, im, fmt.Sprintf("moebius band of %d quads", n), false)
			if !s.cert.EdgeManifold || !(s.cert.MinArea > 1e-12) {
				return nil
			}
			return s
		}
		var im *ref.IMesh
		var desc string
		for try := 0; try < 20; try++ {
			im, desc = genClosedOne(rng, false)
			if ct := ref.Certify(im.Tris()); ct.Closed && ct.T.Components == 1 && ct.Genus() >= 1 {
				break
			}
			im = nil
		}
		if im == nil {
			return nil
		}
		seed := rng.Intn(len(im.F))
		cut := map[int]bool{seed: true}
		if rng.Intn(2) == 0 {
			// the faces sharing a vertex with the seed's first corner: a disc-shaped patch
			v := im.F[seed][0]
			for fi, f := range im.F {
				if f[0] == v || f[1] == v || f[2] == v {
					cut[fi] = true
				}
			}
		}
		sub := im.SubsetFaces(func(fi int) bool { return !cut[fi] })
		s := finish(rng, sub, fmt.Sprintf("genus >= 1 surface with a patch of %d faces cut out: %s", len(cut), desc), false)
		if !s.cert.EdgeManifold || !(s.cert.MinArea > 1e-12) {
			return nil
		}
		return s
	case kind <= 4: // single closed component
		im, desc := genClosedOne(rng, big)
		if rng.Intn(4) == 0 {
			jitter(rng, im, 0.05, false)
			desc += " jitter0.05"
		}
		s := finish(rng, im, "closed: "+desc, false)
		if !s.cert.Closed || !(s.cert.MinArea > 1e-12) {
			return nil
		}
		return s
	case kind <= 6: // several components, closed and open mixed
		n := 2 + rng.Intn(3)
		all := &ref.IMesh{Kind: "multi"}
		desc := "multi:"
		for i := 0; i < n; i++ {
			var part *ref.IMesh
			var d string
			if rng.Intn(3) == 0 {
				ds := genDisc(rng, 6)
				if ds == nil {
					continue
				}
				part, d = ds.im, ds.desc
			} else {
				part, d = genClosedOne(rng, false)
			}
			sc := math.Exp(0.7 * rng.NormFloat64())
			off := model3d.XYZ(float64(i)*40, rng.NormFloat64(), rng.NormFloat64())
			part.MapV(func(p C3) C3 { return p.Scale(sc).Add(off) })
			all.Append(part)
			desc += " [" + d + "]"
		}
		if len(all.F) == 0 {
			return nil
		}
		s := finish(rng, all, desc, false)
		if !s.cert.Manifold || !(s.cert.MinArea > 1e-12) {
			return nil
		}
		return s
	case kind == 7: // open disc
		return genDisc(rng, 12)
	default: // subset of a certified manifold: random faces removed
		im, desc := genClosedOne(rng, big)
		if rng.Intn(2) == 0 {
			im = ref.Grid(3+rng.Intn(10), 3+rng.Intn(10), func(i, j int) float64 { return 0.3 * float64((i*i+j)%4) }, func(i, j int) bool { return rng.Intn(2) == 0 })
			desc = "grid"
		}
		parent := ref.Certify(im.Tris())
		if !parent.Manifold {
			return nil
		}
		p := 0.02 + 0.3*rng.Float64()
		sub := im.SubsetFaces(func(fi int) bool { return rng.Float64() > p })
		if len(sub.F) == 0 {
			return nil
		}
		s := finish(rng, sub, fmt.Sprintf("subset(p=%.2g) of certified manifold: %s", p, desc), false)
		if !s.cert.EdgeManifold || !(s.cert.MinArea > 1e-12) {
			return nil
		}
		return s
	}
}
