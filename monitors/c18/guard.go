package main

import (
	"bufio"
	"fmt"
	"math/rand"
	"runtime/debug"
	"strings"

	"verif/vlib"
)

// guard runs a library call; a panic is recorded as a violation keyed by the
// innermost library function (like the framework's own recovery) but with the
// concrete input attached. ok is false if the call panicked.
func guard(c *vlib.Case, witness func() map[string]interface{}, call string, f func()) (ok bool) {
	defer func() {
		if e := recover(); e != nil {
			stack := string(debug.Stack())
			w := witness()
			w["call"] = call
			w["panic"] = fmt.Sprint(e)
			w["stack"] = trimStack(stack)
			c.Violation("panic/"+panicSite(stack), fmt.Sprintf("panic in library code on an input that meets the documented preconditions: %v (call: %s)", e, call), w)
			ok = false
		}
	}()
	f()
	return true
}

func panicSite(stack string) string {
	sc := bufio.NewScanner(strings.NewReader(stack))
	for sc.Scan() {
		line := sc.Text()
		if strings.HasPrefix(line, "github.com/unixpickle/model3d/") {
			line = strings.TrimPrefix(line, "github.com/unixpickle/model3d/")
			if i := strings.LastIndex(line, "("); i > 0 {
				line = line[:i]
			}
			line = strings.Replace(line, "[...]", "", -1)
			return line
		}
	}
	return "unknown"
}

func trimStack(s string) string {
	lines := strings.Split(s, "\n")
	if len(lines) > 30 {
		lines = lines[:30]
	}
	return strings.Join(lines, "\n")
}

// replayable wraps a case function for replays: the library ranges over Go
// maps (face sets), so e.g. the start triangle of a chart or the summation
// order of a right-hand side differ from run to run and a recorded case does
// not always show the same behaviour. In replay mode the case is therefore
// re-generated from its sub-seed and run 20 times (DESIGN 0.5).
func replayable(r *vlib.Run, fn func(c *vlib.Case)) func(c *vlib.Case) {
	return func(c *vlib.Case) {
		if !r.Replaying() {
			fn(c)
			return
		}
		for i := 0; i < 20; i++ {
			cc := *c
			cc.Rng = rand.New(rand.NewSource(c.SubSeed))
			fn(&cc)
		}
	}
}
