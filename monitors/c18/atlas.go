package main

import (
	"fmt"
	"math"
	"math/rand"
	"sort"
	"sync/atomic"

	"github.com/unixpickle/model3d/model2d"
	"github.com/unixpickle/model3d/model3d"
	"verif/vlib"
	ref "verif/vlib/c18ref"
)

type uvEntry struct {
	t3 *model3d.Triangle
	uv [3]C2
}

func lessC3(a, b C3) bool {
	if a.X != b.X {
		return a.X < b.X
	}
	if a.Y != b.Y {
		return a.Y < b.Y
	}
	return a.Z < b.Z
}

// sortedEntries lists a UV map in an order that does not depend on Go's map
// iteration (by the coordinates of the 3D triangle).
func sortedEntries(m model3d.MeshUVMap) []uvEntry {
	res := make([]uvEntry, 0, len(m))
	for t, uv := range m {
		res = append(res, uvEntry{t, uv})
	}
	sort.Slice(res, func(i, j int) bool {
		a, b := res[i].t3, res[j].t3
		for k := 0; k < 3; k++ {
			if a[k] != b[k] {
				return lessC3(a[k], b[k])
			}
		}
		return false
	})
	return res
}

func uvBounds(es []uvEntry) (lo, hi C2) {
	first := true
	for _, e := range es {
		for _, p := range e.uv {
			if first {
				lo, hi, first = p, p, false
			} else {
				lo, hi = lo.Min(p), hi.Max(p)
			}
		}
	}
	return
}

func triAspect3(t *model3d.Triangle) float64 {
	a := t[1].Sub(t[0]).Cross(t[2].Sub(t[0])).Norm()
	e := math.Max(t[0].Dist(t[1]), math.Max(t[1].Dist(t[2]), t[2].Dist(t[0])))
	if e == 0 {
		return 0
	}
	return a / (e * e)
}

func triAspect2(t [3]C2) float64 {
	a := math.Abs(ref.Orient2DValue(t[0], t[1], t[2]))
	e := math.Max(t[0].Dist(t[1]), math.Max(t[1].Dist(t[2]), t[2].Dist(t[0])))
	if e == 0 {
		return 0
	}
	return a / (e * e)
}

// checkMapFn applies the UV -> 3D oracle. For a query p the library returns a
// 3D point P and a triangle T. With beta' the barycentric coordinates of P in
// T (own least squares) and q = sum beta'_i uv_T,i the oracle demands: T is a
// face of the map, P lies on T, beta' >= 0, and q is a point of the
// triangulation nearest to p (q == p when p is inside a triangle). This is
// indifferent to which of several overlapping triangles is reported. On an
// overlap-free chart the triangle chosen for an interior query must be
// returned.
func checkMapFn(c *vlib.Case, rng *rand.Rand, uvm model3d.MeshUVMap, overlapFree bool, nIn, nOut int, desc string) {
	const api = "model3d.MeshUVMap.MapFn"
	es := sortedEntries(uvm)
	if len(es) == 0 {
		return
	}
	for _, e := range es {
		for _, p := range e.uv {
			if !finite2(p) {
				return // reported by the caller's own finite check
			}
		}
	}
	lo, hi := uvBounds(es)
	uvScale := math.Max(hi.X-lo.X, hi.Y-lo.Y)
	if !(uvScale > 0) {
		return
	}
	fn := uvm.MapFn()
	c.Count("mapfn.maps", 1)
	wit := func(p C2, P C3, t *model3d.Triangle, extra map[string]interface{}) map[string]interface{} {
		w := map[string]interface{}{"map": desc, "faces": len(es), "query_uv": hex2(p), "returned_point": hex3(P)}
		if t != nil {
			w["returned_triangle"] = []string{hex3(t[0]), hex3(t[1]), hex3(t[2])}
			if uv, ok := uvm[t]; ok {
				w["returned_triangle_uv"] = []string{hex2(uv[0]), hex2(uv[1]), hex2(uv[2])}
			}
		}
		for k, v := range extra {
			w[k] = v
		}
		return w
	}
	// returns q and ok
	generic := func(p C2, P C3, t *model3d.Triangle, dStar float64, kind string) bool {
		if t == nil {
			c.Violation(api+"/nil-triangle", "no triangle returned", wit(p, P, t, nil))
			return false
		}
		uv, ok := uvm[t]
		if !ok {
			c.Violation(api+"/unknown-triangle", "the returned triangle is not a face of the map", wit(p, P, t, nil))
			return false
		}
		if !vlib.Finite3(P) {
			c.Violation(api+"/finite", "non-finite 3D point", wit(p, P, t, nil))
			return false
		}
		if triAspect3(t) < 1e-4 || triAspect2(uv) < 1e-7 {
			c.Undecided("mapfn-returned-sliver")
			return false
		}
		b3, off := ref.Bary3([3]C3{t[0], t[1], t[2]}, P)
		scale3 := math.Max(t[0].Dist(t[1]), math.Max(t[1].Dist(t[2]), t[2].Dist(t[0])))
		if off > 1e-7*scale3 {
			c.Violation(api+"/point-on-triangle", fmt.Sprintf("the returned point is %g away from the plane of the returned triangle (size %g)", off, scale3), wit(p, P, t, nil))
			return false
		}
		for _, b := range b3 {
			if b < -1e-6 {
				c.Violation(api+"/point-on-triangle", fmt.Sprintf("the returned point has barycentric coordinates %v in the returned triangle", b3), wit(p, P, t, nil))
				return false
			}
		}
		q := uv[0].Scale(b3[0]).Add(uv[1].Scale(b3[1])).Add(uv[2].Scale(b3[2]))
		uvSize := math.Max(uv[0].Dist(uv[1]), math.Max(uv[1].Dist(uv[2]), uv[2].Dist(uv[0])))
		tol := 1e-6*uvSize + 1e-9*uvScale
		if dev := q.Dist(p); dev > dStar+tol {
			c.Violation(api+"/"+kind, fmt.Sprintf("the returned 3D point corresponds to UV %s, which is %g from the query; the nearest point of the triangulation is at distance %g", hex2(q), dev, dStar),
				wit(p, P, t, map[string]interface{}{"barycentric_of_returned_point": b3}))
			return false
		}
		return true
	}
	// interior queries
	for i := 0; i < nIn; i++ {
		e := es[rng.Intn(len(es))]
		if triAspect2(e.uv) < 1e-6 || triAspect3(e.t3) < 1e-4 {
			c.Undecided("mapfn-target-sliver")
			continue
		}
		// barycentric coordinates at least 0.02 away from the edges
		b := [3]float64{rng.Float64(), rng.Float64(), rng.Float64()}
		s := b[0] + b[1] + b[2]
		for k := range b {
			b[k] = 0.02 + 0.94*b[k]/s
		}
		p := e.uv[0].Scale(b[0]).Add(e.uv[1].Scale(b[1])).Add(e.uv[2].Scale(b[2]))
		P, t := fn(p)
		c.Count("mapfn.inside_queries", 1)
		if !generic(p, P, t, 0, "barycentric-position") {
			continue
		}
		if overlapFree {
			c.Count("mapfn.inside_identity_checked", 1)
			if t != e.t3 {
				c.Violation(api+"/wrong-triangle", "on an overlap-free chart a point strictly inside one UV triangle was mapped through another triangle",
					wit(p, P, t, map[string]interface{}{"chosen_triangle_uv": []string{hex2(e.uv[0]), hex2(e.uv[1]), hex2(e.uv[2])}, "chosen_barycentric": b}))
				continue
			}
			exp := e.t3[0].Scale(b[0]).Add(e.t3[1].Scale(b[1])).Add(e.t3[2].Scale(b[2]))
			size := math.Max(e.t3[0].Dist(e.t3[1]), e.t3[1].Dist(e.t3[2]))
			// conditioning of the UV barycentric solve
			if dev := exp.Dist(P); dev > 1e-7*size/math.Min(1, triAspect2(e.uv)*10) {
				c.Violation(api+"/same-barycentric-point", fmt.Sprintf("expected %s (same barycentric position in the 3D triangle), got a point %g away", hex3(exp), dev),
					wit(p, P, t, map[string]interface{}{"chosen_barycentric": b}))
			}
		}
	}
	// queries exactly on UV vertices and edge midpoints (shared by several
	// triangles, decided by rounding inside the library): any incident triangle
	// is acceptable, the position must still be right
	for i := 0; i < nIn/4; i++ {
		e := es[rng.Intn(len(es))]
		k := rng.Intn(3)
		p := e.uv[k]
		if rng.Intn(2) == 0 {
			p = e.uv[k].Mid(e.uv[(k+1)%3])
		}
		P, t := fn(p)
		c.Count("mapfn.vertex_edge_queries", 1)
		generic(p, P, t, 0, "barycentric-position")
	}
	// arbitrary queries around the triangulation (gaps, outside): nearest point
	for i := 0; i < nOut; i++ {
		p := model2d.XY(lo.X+(hi.X-lo.X)*(1.6*rng.Float64()-0.3), lo.Y+(hi.Y-lo.Y)*(1.6*rng.Float64()-0.3))
		dStar := math.Inf(1)
		for _, e := range es {
			if d := ref.ClosestOnTri2(e.uv, p).Dist(p); d < dStar {
				dStar = d
			}
		}
		P, t := fn(p)
		if dStar > 1e-6*uvScale {
			c.Count("mapfn.outside_queries", 1)
		} else {
			c.Count("mapfn.covered_queries", 1)
		}
		generic(p, P, t, dStar, "nearest-point")
	}
}

// ---------------------------------------------------------------------------
// PackMeshUVMaps

// packGuard runs f and turns the documented ToBounds panic ("bounds are
// invalid": the cell of a chart is smaller than twice the border) into ok=false.
func packGuard(f func()) (ok bool) {
	defer func() {
		if e := recover(); e != nil {
			if s, isStr := e.(string); isStr && s == "bounds are invalid" {
				ok = false
				return
			}
			panic(e)
		}
	}()
	f()
	return true
}

type bbox struct{ lo, hi C2 }

func boxOf(uvs [][3]C2) bbox {
	b := bbox{lo: uvs[0][0], hi: uvs[0][0]}
	for _, t := range uvs {
		for _, p := range t {
			b.lo, b.hi = b.lo.Min(p), b.hi.Max(p)
		}
	}
	return b
}

// gap is the L-infinity separation of two boxes (negative if they overlap).
func gap(a, b bbox) float64 {
	gx := math.Max(a.lo.X-b.hi.X, b.lo.X-a.hi.X)
	gy := math.Max(a.lo.Y-b.hi.Y, b.lo.Y-a.hi.Y)
	return math.Max(gx, gy)
}

func secPack(r *vlib.Run) {
	r.Section("pack", r.N(800, 3000), vlib.SectionOpts{}, replayable(r, func(c *vlib.Case) {
		rng := c.Rng
		k := 1 + rng.Intn(12)
		if rng.Intn(5) == 0 {
			k = 1 + rng.Intn(60)
		}
		var charts []model3d.MeshUVMap
		var descs []string
		for len(charts) < k {
			s := genDisc(rng, 4)
			if s == nil {
				continue
			}
			d := newDisc(s)
			bm := model3d.CircleBoundary(d.mesh)
			var uv *model3d.CoordMap[C2]
			if !guard(c, s.witness, "Floater97(circle, uniform, nil)", func() {
				uv = model3d.Floater97(d.mesh, bm, model3d.Floater97UniformWeights(d.mesh), nil)
			}) {
				continue
			}
			ch := model3d.NewMeshUVMapForCoords(d.mesh, uv)
			// own non-degeneracy requirement of ToBounds: a box with extent
			lo, hi := ch.Bounds2D()
			if !(hi.X-lo.X > 1e-6) || !(hi.Y-lo.Y > 1e-6) {
				continue
			}
			// random own affine placement: the packer must not care
			sc := math.Exp(rng.NormFloat64())
			off := model2d.XY(10*rng.NormFloat64(), 10*rng.NormFloat64())
			for t, tri := range ch {
				ch[t] = [3]C2{tri[0].Scale(sc).Add(off), tri[1].Scale(sc).Add(off), tri[2].Scale(sc).Add(off)}
			}
			charts = append(charts, ch)
			descs = append(descs, s.desc)
		}
		// MeshUVMap.ToBounds on one chart: the bounding box becomes the target
		{
			ch := charts[rng.Intn(len(charts))]
			tmin := model2d.XY(4*rng.NormFloat64(), 4*rng.NormFloat64())
			tmax := tmin.Add(model2d.XY(0.1+3*rng.Float64(), 0.1+3*rng.Float64()))
			moved := ch.ToBounds(tmin, tmax)
			lo, hi := moved.Bounds2D()
			var uvs [][3]C2
			for _, uv := range moved {
				uvs = append(uvs, uv)
			}
			c.Count("tobounds.calls", 1)
			if len(moved) != len(ch) || len(uvs) == 0 {
				c.Violation("model3d.MeshUVMap.ToBounds/faces", "face count changed", map[string]interface{}{"chart": descs})
			} else if b := boxOf(uvs); b.lo.Dist(tmin) > 1e-9 || b.hi.Dist(tmax) > 1e-9 || lo.Dist(b.lo) > 0 || hi.Dist(b.hi) > 0 {
				c.Violation("model3d.MeshUVMap.ToBounds/target-box", fmt.Sprintf("asked for %v..%v, own bounding box of the result %v..%v, Bounds2D %v..%v", tmin, tmax, b.lo, b.hi, lo, hi), map[string]interface{}{"chart": descs})
			}
		}
		min, max := model2d.XY(0, 0), model2d.XY(1, 1)
		if rng.Intn(2) == 0 {
			min = model2d.XY(math.Round(8*rng.NormFloat64())/4, math.Round(8*rng.NormFloat64())/4)
			max = min.Add(model2d.XY(0.25+float64(rng.Intn(16))/4, 0.25+float64(rng.Intn(16))/4))
		}
		side := math.Min(max.X-min.X, max.Y-min.Y)
		border := 0.0
		switch rng.Intn(3) {
		case 1:
			border = side / 4096
		case 2:
			border = side / 256
		}
		desc := fmt.Sprintf("PackMeshUVMaps(min=%v, max=%v, border=%x, %d charts)", min, max, border, k)
		var packed model3d.MeshUVMap
		if !packGuard(func() { packed = model3d.PackMeshUVMaps(min, max, border, charts) }) {
			c.Undecided("pack-cell-smaller-than-border")
			return
		}
		c.Count("pack.calls", 1)
		c.Count("pack.charts", int64(k))
		if border > 0 {
			c.Count("pack.with_border", 1)
		}
		wit := func(extra map[string]interface{}) map[string]interface{} {
			w := map[string]interface{}{"call": desc, "chart_inputs": descs}
			for k, v := range extra {
				w[k] = v
			}
			return w
		}
		const api = "model3d.PackMeshUVMaps"
		total := 0
		for _, ch := range charts {
			total += len(ch)
		}
		if len(packed) != total {
			c.Violation(api+"/every-face-once", fmt.Sprintf("%d faces in the packed map, %d in the inputs", len(packed), total), wit(nil))
			return
		}
		eps := 1e-12 * (1 + math.Max(math.Abs(min.X)+math.Abs(max.X), math.Abs(min.Y)+math.Abs(max.Y)))
		boxes := make([]bbox, len(charts))
		for i, ch := range charts {
			var before, after [][3]C2
			for t, uv := range ch {
				nuv, ok := packed[t]
				if !ok {
					c.Violation(api+"/every-face-once", "a face of an input chart is missing from the packed map", wit(nil))
					return
				}
				for _, p := range nuv {
					if !finite2(p) {
						c.Violation(api+"/finite", "non-finite packed coordinate "+hex2(p), wit(nil))
						return
					}
				}
				before = append(before, uv)
				after = append(after, nuv)
			}
			b0, b1 := boxOf(before), boxOf(after)
			boxes[i] = b1
			// inside the rectangle, border respected
			if b1.lo.X < min.X+border-eps || b1.lo.Y < min.Y+border-eps || b1.hi.X > max.X-border+eps || b1.hi.Y > max.Y-border+eps {
				c.Violation(api+"/inside-bounds", fmt.Sprintf("chart %d occupies %v..%v, outside the rectangle shrunk by the border", i, b1.lo, b1.hi), wit(nil))
				return
			}
			// each chart is rescaled and translated, nothing else
			worst := 0.0
			for j := range before {
				for v := 0; v < 3; v++ {
					rb := before[j][v].Sub(b0.lo).Div(b0.hi.Sub(b0.lo))
					ra := after[j][v].Sub(b1.lo).Div(b1.hi.Sub(b1.lo))
					worst = math.Max(worst, rb.Dist(ra))
				}
			}
			c.Max("pack.worst_relative_position_change", worst)
			if !(worst <= 1e-7) {
				c.Violation(api+"/rescale-translate-only", fmt.Sprintf("chart %d: relative positions inside the chart's bounding box changed by %g", i, worst), wit(nil))
				return
			}
		}
		c.Count("pack.charts_checked", int64(len(charts)))
		for i := range boxes {
			for j := i + 1; j < len(boxes); j++ {
				c.Count("pack.chart_pairs_checked", 1)
				if g := gap(boxes[i], boxes[j]); g < 2*border-eps {
					c.Violation(api+"/charts-disjoint", fmt.Sprintf("charts %d and %d are separated by %g, required 2*border = %g", i, j, g, 2*border),
						wit(map[string]interface{}{"box_a": []string{hex2(boxes[i].lo), hex2(boxes[i].hi)}, "box_b": []string{hex2(boxes[j].lo), hex2(boxes[j].hi)}}))
					return
				}
			}
		}
		c.Nontrivial(desc + fmt.Sprint(descs))
		c.Sample("pack", 2, map[string]interface{}{"call": desc})
		checkMapFn(c, rng, packed, false, 30, 20, desc)
	}))
}

// ---------------------------------------------------------------------------
// BuildAutomaticUVMap

func secAtlas(r *vlib.Run) {
	r.Section("atlas", r.N(350, 1200), vlib.SectionOpts{}, replayable(r, func(c *vlib.Case) {
		rng := c.Rng
		var s *surface
		for try := 0; try < 4 && s == nil; try++ {
			s = genManifold(rng, !r.Quick() && rng.Intn(8) == 0)
			if s != nil && (!s.cert.Manifold || len(s.tris) > r.N(1500, 25000)) {
				s = nil
			}
			// BuildAutomaticUVMap uses the shape-preserving weights: their
			// one-ring precondition must hold (see disc.shapeOK)
			if s != nil && !(ref.RingAngleMargin(s.tris) > 1e-3) {
				c.Count("atlas.ring_precondition_rejected", 1)
				s = nil
			}
		}
		if s == nil {
			c.Count("gen.rejected", 1)
			return
		}
		if atomic.LoadInt32(&nonDiscChartSeen) != 0 {
			c.Count("atlas.skipped_after_non_disc_chart", 1)
			return
		}
		mesh, ptrs := s.im.Mesh()
		// own pre-flight of the first two stages of the atlas builder on this very
		// mesh (same reason: a non-disc chart makes the builder spin)
		pre := model3d.MeshToPlaneGraphsLimited(mesh, 32768, 0)
		preDiscs := checkCharts(c, "model3d.MeshToPlaneGraphsLimited", s, "maxSize=32768 (atlas pre-flight)", pre, 32768, 0)
		if len(preDiscs) != len(pre) {
			c.Count("atlas.skipped_preflight_failed", 1)
			return
		}
		resolution := 1 << uint(11+rng.Intn(3))
		border := 1 / float64(resolution)
		desc := fmt.Sprintf("BuildAutomaticUVMap(resolution=%d)", resolution)
		const api = "model3d.BuildAutomaticUVMap"
		var uvm model3d.MeshUVMap
		called := true
		if !guard(c, s.witness, desc, func() {
			called = packGuard(func() { uvm = model3d.BuildAutomaticUVMap(mesh, resolution, false) })
		}) {
			return
		}
		if !called {
			c.Undecided("atlas-cell-smaller-than-border")
			return
		}
		c.Count("atlas.calls", 1)
		c.Count("atlas.input_faces", int64(len(s.tris)))
		wit := func(extra map[string]interface{}) map[string]interface{} {
			w := s.witness()
			w["call"] = desc
			for k, v := range extra {
				w[k] = v
			}
			return w
		}
		// every face exactly once
		var mapped []vlib.Tri
		for t := range uvm {
			mapped = append(mapped, vlib.Tri{t[0], t[1], t[2]})
		}
		if ok, diff := vlib.EqualCanonTris(vlib.CanonTris(s.tris), vlib.CanonTris(mapped)); !ok {
			c.Violation(api+"/every-face-once", "the mapped faces are not exactly the faces of the input: "+diff, wit(nil))
			return
		}
		same := 0
		for _, p := range ptrs {
			if _, ok := uvm[p]; ok {
				same++
			}
		}
		if same == len(ptrs) {
			c.Count("atlas.keys_are_input_pointers", 1)
		}
		// unit square
		for t, uv := range uvm {
			for _, p := range uv {
				if !finite2(p) || p.X < 0 || p.X > 1 || p.Y < 0 || p.Y > 1 {
					c.Violation(api+"/unit-square", "UV coordinate "+hex2(p)+" outside [0,1]^2",
						wit(map[string]interface{}{"face": []string{hex3(t[0]), hex3(t[1]), hex3(t[2])}}))
					return
				}
			}
		}
		c.Count("atlas.unit_square_checked", 1)
		// charts = classes of faces glued along an edge with identical UVs
		es := sortedEntries(uvm)
		type ekey struct {
			a, b   C3
			ua, ub C2
		}
		mk := func(a, b C3, ua, ub C2) ekey {
			a, b = nz(a), nz(b)
			if lessC3(b, a) {
				a, b, ua, ub = b, a, ub, ua
			}
			return ekey{a, b, ua, ub}
		}
		parent := make([]int, len(es))
		for i := range parent {
			parent[i] = i
		}
		var find func(int) int
		find = func(x int) int {
			for parent[x] != x {
				parent[x] = parent[parent[x]]
				x = parent[x]
			}
			return x
		}
		first := map[ekey]int{}
		for i, e := range es {
			for k := 0; k < 3; k++ {
				key := mk(e.t3[k], e.t3[(k+1)%3], e.uv[k], e.uv[(k+1)%3])
				if j, ok := first[key]; ok {
					parent[find(i)] = find(j)
				} else {
					first[key] = i
				}
			}
		}
		groups := map[int][][3]C2{}
		for i, e := range es {
			groups[find(i)] = append(groups[find(i)], e.uv)
		}
		var boxes []bbox
		var roots []int
		for g := range groups {
			roots = append(roots, g)
		}
		sort.Ints(roots)
		for _, g := range roots {
			boxes = append(boxes, boxOf(groups[g]))
		}
		c.Count("atlas.charts", int64(len(boxes)))
		c.Max("atlas.most_charts", float64(len(boxes)))
		minGap := math.Inf(1)
		for i := range boxes {
			for j := i + 1; j < len(boxes); j++ {
				g := gap(boxes[i], boxes[j])
				if g < minGap {
					minGap = g
				}
				if g < border*(1-1e-9) {
					c.Violation(api+"/charts-disjoint", fmt.Sprintf("two charts (UV-connected face classes) are separated by %g, the border is %g", g, border),
						wit(map[string]interface{}{"box_a": []string{hex2(boxes[i].lo), hex2(boxes[i].hi)}, "box_b": []string{hex2(boxes[j].lo), hex2(boxes[j].hi)}, "charts": len(boxes)}))
					return
				}
			}
		}
		if len(boxes) > 1 {
			c.Count("atlas.multi_chart_disjointness_decided", 1)
			c.Max("atlas.smallest_gap_in_borders_neg", -minGap/border)
		}
		c.Nontrivial(s.desc + "|" + desc)
		c.Sample("atlas", 3, map[string]interface{}{"input": s.desc, "topology": s.cert.Describe(), "call": desc, "charts": len(boxes)})
		checkMapFn(c, rng, uvm, false, 60, 20, desc+" of "+s.desc)
	}))
}

// thinUVSection: hand-made UV maps whose 2D triangles are long thin strips (height 1e-8..1e-5 of
// their length, the sharp corner listed first, second or third) next to ordinary triangles. A strip
// like that is a valid, non-degenerate UV triangle (large charts produce them along nearly
// straight boundary stretches); a query built from known barycentric coordinates must come back at
// the same barycentric position of the 3D triangle.
func thinUVSection(r *vlib.Run) {
	const api = "model3d.MeshUVMap.MapFn"
	r.Section("mapfn.thin", r.N(300, 6000), vlib.SectionOpts{}, func(c *vlib.Case) {
		rng := c.Rng
		uvm := model3d.MeshUVMap{}
		type entry struct {
			t3 *model3d.Triangle
			uv [3]C2
			h  float64
		}
		var es []entry
		n := 2 + rng.Intn(4)
		for i := 0; i < n; i++ {
			base := model3d.XYZ(float64(i)*3, 0, 0)
			t3 := &model3d.Triangle{base.Add(model3d.XYZ(rng.Float64(), rng.Float64(), rng.Float64())), base.Add(model3d.XYZ(1+rng.Float64(), rng.Float64(), 0.2)), base.Add(model3d.XYZ(rng.Float64(), 1+rng.Float64(), 0.5))}
			// disjoint cells of the unit square: cell i occupies y in [i*0.15, i*0.15+0.1]
			y0 := float64(i) * 0.15
			h := 0.1
			if i%2 == 0 {
				h = math.Pow(10, -8+3*rng.Float64())
			}
			uv := [3]C2{model2d.XY(0.1, y0), model2d.XY(0.9, y0), model2d.XY(0.9-0.3*rng.Float64(), y0+h)}
			// rotate the corner order: the sharp corners of the strip are the first two
			k := rng.Intn(3)
			uv = [3]C2{uv[k], uv[(k+1)%3], uv[(k+2)%3]}
			if rng.Intn(2) == 0 {
				uv[1], uv[2] = uv[2], uv[1]
			}
			uvm[t3] = uv
			es = append(es, entry{t3, uv, h})
		}
		fn := uvm.MapFn()
		c.Count("mapfn.thin.maps", 1)
		for q := 0; q < 20; q++ {
			e := es[rng.Intn(len(es))]
			b := [3]float64{rng.Float64(), rng.Float64(), rng.Float64()}
			s := b[0] + b[1] + b[2]
			for k := range b {
				b[k] = 0.05 + 0.85*b[k]/s
			}
			p := e.uv[0].Scale(b[0]).Add(e.uv[1].Scale(b[1])).Add(e.uv[2].Scale(b[2]))
			P, t := fn(p)
			c.Count("mapfn.thin.queries", 1)
			if e.h < 0.01 {
				c.Count("mapfn.thin.queries_in_strips", 1)
			}
			if t != e.t3 {
				c.Violation(api+"/wrong-triangle", "a point strictly inside one UV triangle of an overlap-free map was mapped through another triangle",
					map[string]interface{}{"strip_height": e.h, "uv": []string{hex2(e.uv[0]), hex2(e.uv[1]), hex2(e.uv[2])}, "barycentric": b, "query": hex2(p)})
				return
			}
			exp := e.t3[0].Scale(b[0]).Add(e.t3[1].Scale(b[1])).Add(e.t3[2].Scale(b[2]))
			// the query is only known to ~1e-16, i.e. 1e-16/h of the strip height
			tol := 1e-6 + 1e-14/e.h
			c.Max("mapfn.thin.worst_error", exp.Dist(P))
			if dev := exp.Dist(P); dev > tol {
				c.Violation(api+"/same-barycentric-point", fmt.Sprintf("strip of height %g: expected %s (same barycentric position in the 3D triangle), got a point %g away", e.h, hex3(exp), dev),
					map[string]interface{}{"strip_height": e.h, "uv": []string{hex2(e.uv[0]), hex2(e.uv[1]), hex2(e.uv[2])}, "barycentric": b, "query": hex2(p)})
				return
			}
		}
		c.Nontrivial(fmt.Sprint("thinuv", c.Index))
	})
}
