package main

import (
	"fmt"
	"math"
	"sync/atomic"

	"github.com/unixpickle/model3d/model3d"
	"verif/vlib"
	ref "verif/vlib/c18ref"
)

// nonDiscChartSeen is set once a decomposition returned a chart with boundary
// that is not a disc (annulus, pinched, several loops). BuildAutomaticUVMap
// feeds its own charts to boundarySequence, which does not terminate (and
// allocates without bound) on such charts, so the atlas section is skipped for
// the rest of the run: the defect is already reported under the precise key.
var nonDiscChartSeen int32

func meshTris(m *model3d.Mesh) []vlib.Tri { return vlib.Tris(m) }

func concatCharts(charts []*model3d.Mesh) []vlib.Tri {
	var all []vlib.Tri
	for _, ch := range charts {
		all = append(all, meshTris(ch)...)
	}
	return all
}

// checkCharts applies the decomposition oracle: the charts partition the input
// faces (multiset equality) and every chart is a topological disc.
func checkCharts(c *vlib.Case, api string, s *surface, opts string, charts []*model3d.Mesh, maxSize int, maxArea float64) (discs []*model3d.Mesh) {
	wit := func(extra map[string]interface{}) map[string]interface{} {
		w := s.witness()
		w["api"] = api
		w["options"] = opts
		w["charts"] = len(charts)
		for k, v := range extra {
			w[k] = v
		}
		return w
	}
	in := vlib.CanonTris(s.tris)
	out := vlib.CanonTris(concatCharts(charts))
	if ok, diff := vlib.EqualCanonTris(in, out); !ok {
		c.Violation(api+"/partition", "the faces of the charts are not exactly the faces of the input: "+diff, wit(nil))
	}
	c.Count("decompose.partition_checked", 1)
	for i, ch := range charts {
		ct := meshTris(ch)
		if len(ct) == 0 {
			c.Violation(api+"/empty-chart", fmt.Sprintf("chart %d of %d has no faces", i, len(charts)), wit(nil))
			continue
		}
		cert := ref.Certify(ct)
		c.Count("decompose.charts_checked", 1)
		if !cert.Disc {
			key := api + "/chart-not-disc"
			if cert.Manifold && cert.Closed {
				key = api + "/chart-closed-surface"
			}
			if key == api+"/chart-not-disc" {
				atomic.StoreInt32(&nonDiscChartSeen, 1)
			}
			c.Violation(key, fmt.Sprintf("chart %d of %d is not a topological disc: %s", i, len(charts), cert.Why),
				wit(map[string]interface{}{"chart_topology": cert.Describe(), "chart_faces_hex": ref.HexTris(ct, 48)}))
		} else {
			discs = append(discs, ch)
			c.Max("decompose.largest_disc_faces", float64(len(ct)))
		}
		if maxSize > 0 {
			c.Count("decompose.max_size_checked", 1)
			if len(ct) > maxSize {
				c.Violation(api+"/max-size", fmt.Sprintf("chart %d has %d faces, limit %d", i, len(ct), maxSize), wit(nil))
			}
		}
		if maxArea > 0 && len(ct) > 1 {
			c.Count("decompose.max_area_checked", 1)
			if a := vlib.Area3(ct); a > maxArea*(1+1e-9) {
				c.Violation(api+"/max-area", fmt.Sprintf("chart %d with %d faces has area %v, limit %v (only a single-face chart may exceed it)", i, len(ct), a, maxArea), wit(nil))
			}
		}
	}
	return discs
}

func secDecompose(r *vlib.Run) {
	big := !r.Quick()
	r.Section("decompose", r.N(4000, 16000), vlib.SectionOpts{}, replayable(r, func(c *vlib.Case) {
		rng := c.Rng
		s := genManifold(rng, big && rng.Intn(6) == 0)
		if s == nil {
			c.Count("gen.rejected", 1)
			return
		}
		mesh, _ := s.im.Mesh()
		total := vlib.Area3(s.tris)
		maxSize, maxArea := 0, 0.0
		api := "model3d.MeshToPlaneGraphs"
		mode := rng.Intn(5)
		switch mode {
		case 1:
			maxSize = 1 + rng.Intn(1+len(s.tris))
		case 2:
			maxArea = total * math.Pow(10, -2.5*rng.Float64())
		case 3:
			maxSize = 1 + rng.Intn(1+len(s.tris))
			maxArea = total * math.Pow(10, -2*rng.Float64())
		}
		if mode != 0 && mode != 4 && rng.Intn(4) == 0 {
			// limits that are reached exactly when the last face of the input (or of one of its
			// components) is taken in
			if maxSize > 0 {
				maxSize = len(s.tris)
				c.Count("decompose.max_size_equals_face_count", 1)
			}
			if maxArea > 0 {
				maxArea = total
				c.Count("decompose.max_area_equals_total_area", 1)
			}
		}
		opts := fmt.Sprintf("maxSize=%d maxArea=%x", maxSize, maxArea)
		var charts []*model3d.Mesh
		if mode == 0 || mode == 4 {
			charts = model3d.MeshToPlaneGraphs(mesh)
		} else {
			api = "model3d.MeshToPlaneGraphsLimited"
			charts = model3d.MeshToPlaneGraphsLimited(mesh, maxSize, maxArea)
			c.Count("decompose.limited_calls", 1)
		}
		c.Count("decompose.calls", 1)
		c.Count("decompose.input_faces", int64(len(s.tris)))
		if s.cert.Closed {
			c.Count("decompose.closed_inputs", 1)
			if s.cert.T.Components == 1 && s.cert.Genus() >= 1 {
				c.Count("decompose.genus_ge1_inputs", 1)
			}
			if s.cert.T.Components == 1 && s.cert.Genus() == 0 {
				c.Count("decompose.genus0_inputs", 1)
			}
		} else if s.cert.Disc {
			c.Count("decompose.disc_inputs", 1)
		} else if !s.cert.Manifold {
			c.Count("decompose.pinched_subset_inputs", 1)
		} else {
			c.Count("decompose.open_nondisc_inputs", 1)
		}
		if s.cert.T.Components > 1 {
			c.Count("decompose.multi_component_inputs", 1)
		}
		// the input mesh must not be consumed (the routine works on a copy)
		if ok, diff := vlib.EqualCanonTris(vlib.CanonTris(s.tris), vlib.CanonTris(meshTris(mesh))); !ok {
			c.Violation(api+"/input-modified", "the input mesh changed: "+diff, s.witness())
		}
		discs := checkCharts(c, api, s, opts, charts, maxSize, maxArea)
		c.Nontrivial(s.desc + "|" + api + "|" + opts)
		if len(discs) > 0 {
			c.Sample("decompose", 3, map[string]interface{}{"input": s.desc, "topology": s.cert.Describe(), "options": opts, "charts": len(charts)})
		}
		// a closed component can never be a single disc
		if s.cert.Closed && len(charts) < 2*s.cert.T.Components {
			c.Violation(api+"/too-few-charts", fmt.Sprintf("%d closed components decomposed into %d charts", s.cert.T.Components, len(charts)), s.witness())
		}
		// Documented: running the decomposition on one of its results is the
		// identity (a disc is one chart). Every triangulated 2-ball is extendably
		// shellable, so the greedy growth can always be completed.
		if len(discs) > 0 {
			d := discs[rng.Intn(len(discs))]
			dt := meshTris(d)
			again := model3d.MeshToPlaneGraphs(d)
			c.Count("decompose.identity_checked", 1)
			if len(again) != 1 {
				c.Violation("model3d.MeshToPlaneGraphs/identity-on-disc", fmt.Sprintf("a disc chart with %d faces was decomposed into %d charts", len(dt), len(again)),
					map[string]interface{}{"input": s.desc, "disc_faces_hex": ref.HexTris(dt, 64)})
			} else if ok, diff := vlib.EqualCanonTris(vlib.CanonTris(dt), vlib.CanonTris(meshTris(again[0]))); !ok {
				c.Violation("model3d.MeshToPlaneGraphs/identity-on-disc", "re-decomposed disc differs: "+diff,
					map[string]interface{}{"input": s.desc, "disc_faces_hex": ref.HexTris(dt, 64)})
			}
		}
	}))

	// The sphere-closing split on degenerate-but-valid closed surfaces: flat
	// (coplanar) tetrahedra are simplicial closed manifolds with non-degenerate
	// faces whose base carries exactly half of the area.
	r.Section("decompose-flat", r.N(400, 2000), vlib.SectionOpts{}, replayable(r, func(c *vlib.Case) {
		rng := c.Rng
		a := float64(2 + 2*rng.Intn(8))
		// apex strictly inside the base triangle (0,0) (a,0) (0,a), dyadic
		u := float64(1+rng.Intn(int(a)-1)) / 2
		v := float64(1+rng.Intn(int(a)-1)) / 2
		if u+v >= a-0.25 {
			u, v = 0.5, 0.5
		}
		im := &ref.IMesh{Kind: "flat-tetra"}
		im.V = []C3{model3d.XYZ(0, 0, 0), model3d.XYZ(a, 0, 0), model3d.XYZ(0, a, 0), model3d.XYZ(u, v, 0)}
		im.F = [][3]int{{0, 2, 1}, {0, 1, 3}, {1, 2, 3}, {2, 0, 3}}
		desc := fmt.Sprintf("closed: coplanar tetrahedron base (0,0)(%g,0)(0,%g) apex (%g,%g)", a, a, u, v)
		if rng.Intn(3) == 0 {
			h := math.Pow(2, -float64(20+rng.Intn(30)))
			im.V[3].Z = h
			desc += fmt.Sprintf(" lifted by %g", h)
		}
		s := finish(rng, im, desc, false)
		if !s.cert.Closed || !(s.cert.MinArea > 1e-12) {
			c.Count("gen.rejected", 1)
			return
		}
		mesh, _ := s.im.Mesh()
		charts := model3d.MeshToPlaneGraphs(mesh)
		c.Count("decompose.calls", 1)
		c.Count("decompose.flat_closed_inputs", 1)
		c.Count("decompose.closed_inputs", 1)
		checkCharts(c, "model3d.MeshToPlaneGraphs", s, "flat", charts, 0, 0)
		c.Nontrivial(s.desc)
	}))
}

func secSplit(r *vlib.Run) {
	r.Section("split", r.N(3000, 10000), vlib.SectionOpts{}, replayable(r, func(c *vlib.Case) {
		rng := c.Rng
		s := genDisc(rng, r.N(12, 30))
		if s == nil {
			c.Count("gen.rejected", 1)
			return
		}
		mesh, _ := s.im.Mesh()
		var decision func(t *model3d.Triangle) float64
		opts := "decision=nil"
		switch rng.Intn(4) {
		case 1:
			dir := model3d.XYZ(rng.NormFloat64(), rng.NormFloat64(), rng.NormFloat64())
			decision = func(t *model3d.Triangle) float64 { return t[0].Add(t[1]).Add(t[2]).Dot(dir) }
			opts = "decision=linear"
		case 2:
			k := 1 + 5*rng.Float64()
			decision = func(t *model3d.Triangle) float64 { return math.Sin(k*t[0].X) + math.Cos(k*t[1].Y+t[2].Z) }
			opts = "decision=oscillating"
		case 3:
			decision = func(t *model3d.Triangle) float64 { return 1 }
			opts = "decision=constant"
		}
		parts := model3d.SplitPlaneGraph(mesh, decision)
		c.Count("split.calls", 1)
		if ok, diff := vlib.EqualCanonTris(vlib.CanonTris(s.tris), vlib.CanonTris(meshTris(mesh))); !ok {
			c.Violation("model3d.SplitPlaneGraph/input-modified", "the input mesh changed: "+diff, s.witness())
		}
		discs := checkCharts(c, "model3d.SplitPlaneGraph", s, opts, parts, 0, 0)
		if len(s.tris) >= 2 && len(parts) < 2 {
			c.Violation("model3d.SplitPlaneGraph/not-split", fmt.Sprintf("a disc with %d faces was returned as %d part(s)", len(s.tris), len(parts)), s.witness())
		}
		if len(s.tris) == 1 {
			c.Count("split.single_face_inputs", 1)
		}
		if len(discs) >= 2 {
			c.Count("split.decided_ge2_discs", 1)
			c.Max("split.most_parts", float64(len(parts)))
		}
		c.Nontrivial(s.desc + "|split|" + opts)
		c.Sample("split", 2, map[string]interface{}{"input": s.desc, "options": opts, "parts": len(parts)})
	}))
}
