// C18 — Surface parameterisations are valid, disjoint and invertible.
// Shape: seeded hostile input generator + independent oracles (topology walk,
// exact 2D predicates, own residuals and certified reference solves) over the
// chart decomposition, boundary maps, convex-combination weights, Floater97,
// stretch minimisation, atlas packing and the UV->3D lookup (DESIGN.md C18).
package main

import (
	"verif/vlib"
)

func main() {
	r := vlib.Start("C18", "exploration")
	r.ScaleQuick(2) // quick tier: 2x the case counts written at the sections (still well under a minute)
	r.Rule("inputs are indexed meshes built by the monitor (height-field patches, fans, strips, spherical caps, subdivided spheres, tori, voxel slabs of genus 0-3, voxel blobs, flat and needle tetrahedra, bipyramids, edge-flipped and jittered variants, several components, face subsets of those) and certified by vlib.AnalyzeTris plus an own boundary walk before use; a case is non-trivial if the library produced at least one chart/parameterisation that the oracle decided; distinct by generator description + API + option string")
	r.Assume("vertices are identified by bit-identical coordinates (== on floats), as the library does")
	r.Assume("library results may depend on Go map order: only invariants of the outputs are checked")
	r.Assume("the tolerance of the interior-vertex equation is the documented stopping rule of the default solver (MSE 1e-16): max residual <= max(1e-7, 1.01e-8*sqrt(n))")
	r.Assume("a flipped or degenerate 2D triangle is only reported when a reference solution with a certified error bound shows that the solver tolerance cannot explain it")

	secDecompose(r)
	secSplit(r)
	secBoundaryWeights(r)
	secFloater(r)
	secStretch(r)
	secPack(r)
	secAtlas(r)
	thinUVSection(r)

	r.Require("decompose.calls", 50)
	r.Require("decompose.charts_checked", 100)
	r.Require("decompose.closed_inputs", 20)
	r.Require("decompose.genus_ge1_inputs", 5)
	r.Require("decompose.multi_component_inputs", 5)
	r.Require("decompose.limited_calls", 10)
	r.Require("split.calls", 30)
	r.Require("boundary.circle", 20)
	r.Require("boundary.square", 20)
	r.Require("boundary.pnorm", 20)
	r.Require("weights.uniform", 20)
	r.Require("weights.invchord", 20)
	r.Require("weights.shape", 20)
	r.Require("weights.shape_centres_vs_reference", 100)
	r.Require("floater.calls", 50)
	r.Require("floater.interior_vertices_checked", 500)
	r.Require("floater.strict_orientation_decided", 30)
	r.Require("floater.overlap_bruteforce", 10)
	r.Require("stretch.calls", 10)
	r.Require("pack.calls", 10)
	r.Require("atlas.calls", 5)
	r.Require("mapfn.inside_queries", 500)
	r.Require("mapfn.outside_queries", 100)
	r.Require("mapfn.thin.queries_in_strips", 500)
	r.Finish()
}
