package main

import (
	"fmt"
	"math"
	"math/rand"
	"sort"
	"strings"

	"github.com/unixpickle/model3d/model2d"
	"github.com/unixpickle/model3d/model3d"
	"github.com/unixpickle/model3d/numerical"
	"verif/vlib"
	ref "verif/vlib/c18ref"
)

type C2 = model2d.Coord

func nz(c C3) C3 {
	if c.X == 0 {
		c.X = 0
	}
	if c.Y == 0 {
		c.Y = 0
	}
	if c.Z == 0 {
		c.Z = 0
	}
	return c
}

func hex2(p C2) string { return fmt.Sprintf("(%x,%x)", p.X, p.Y) }
func hex3(p C3) string { return fmt.Sprintf("(%x,%x,%x)", p.X, p.Y, p.Z) }

func finite2(p C2) bool {
	return !math.IsNaN(p.X+p.Y) && !math.IsInf(p.X+p.Y, 0)
}

// coordMapToGo copies a library map into a plain Go map.
func coordMapToGo(m *model3d.CoordMap[C2]) map[C3]C2 {
	res := map[C3]C2{}
	m.Range(func(k C3, v C2) bool {
		res[nz(k)] = v
		return true
	})
	return res
}

func edgeMapToGo(m *model3d.EdgeMap[float64]) map[[2]C3]float64 {
	res := map[[2]C3]float64{}
	m.Range(func(k [2]C3, v float64) bool {
		res[[2]C3{nz(k[0]), nz(k[1])}] = v
		return true
	})
	return res
}

// disc bundles a certified disc with the own-derived combinatorics.
type disc struct {
	s        *surface
	mesh     *model3d.Mesh
	loop     []C3 // boundary loop in face orientation
	onBound  map[C3]bool
	adj      map[C3][]C3
	verts    []C3
	interior []C3

	shapeChecked, shapeGood bool
}

func newDisc(s *surface) *disc {
	d := &disc{s: s, loop: s.cert.Loops[0], onBound: map[C3]bool{}}
	d.mesh, _ = s.im.Mesh()
	for _, p := range d.loop {
		d.onBound[p] = true
	}
	d.adj = ref.Adjacency(s.tris)
	seen := map[C3]bool{}
	for _, t := range s.tris {
		for _, p := range t {
			p = nz(p)
			if !seen[p] {
				seen[p] = true
				d.verts = append(d.verts, p)
				if !d.onBound[p] {
					d.interior = append(d.interior, p)
				}
			}
		}
	}
	return d
}

// shapeOK certifies the (implicit) precondition of the shape-preserving
// weights: around every interior vertex no single angle between consecutive
// spokes reaches half of the angle sum (otherwise the flattened one-ring has a
// straight or reflex angle at the centre and Floater's construction is
// degenerate - this happens for fans folded flat, e.g. after edge flips in a
// planar mesh; the library documents a panic for such "degenerate" rings).
func (d *disc) shapeOK() bool {
	if d.shapeChecked {
		return d.shapeGood
	}
	d.shapeChecked = true
	d.shapeGood = ref.RingAngleMargin(d.s.tris) > 1e-3
	return d.shapeGood
}

// discOfMesh builds a disc bundle from a library mesh (e.g. a chart), or nil if
// the certificate fails.
func discOfMesh(m *model3d.Mesh, desc string) *disc {
	tris := meshTris(m)
	// deterministic order for the witness
	tris = vlib.CanonTris(tris)
	cert := ref.Certify(tris)
	if !cert.Disc || !(cert.MinArea > 1e-12) {
		return nil
	}
	im := &ref.IMesh{Kind: "chart"}
	idx := map[C3]int{}
	for _, t := range tris {
		var f [3]int
		for k, p := range t {
			p = nz(p)
			i, ok := idx[p]
			if !ok {
				i = len(im.V)
				idx[p] = i
				im.V = append(im.V, p)
			}
			f[k] = i
		}
		im.F = append(im.F, f)
	}
	s := &surface{im: im, tris: im.Tris(), desc: desc}
	s.cert = ref.Certify(s.tris)
	if !s.cert.Disc {
		return nil
	}
	return newDisc(s)
}

// ---------------------------------------------------------------------------
// boundary maps

type boundaryKind struct {
	name string
	p    float64 // PNorm exponent
}

func (b boundaryKind) String() string {
	if b.name == "pnorm" {
		return fmt.Sprintf("pnorm(%g)", b.p)
	}
	return b.name
}

func callBoundary(b boundaryKind, m *model3d.Mesh) *model3d.CoordMap[C2] {
	switch b.name {
	case "circle":
		return model3d.CircleBoundary(m)
	case "square":
		return model3d.SquareBoundary(m)
	default:
		return model3d.PNormBoundary(m, b.p)
	}
}

func randBoundaryKind(rng *rand.Rand) boundaryKind {
	switch rng.Intn(3) {
	case 0:
		return boundaryKind{name: "circle"}
	case 1:
		return boundaryKind{name: "square"}
	}
	ps := []float64{1.5, 2, 3, 4, 6}
	return boundaryKind{name: "pnorm", p: ps[rng.Intn(len(ps))]}
}

// polygonClass classifies the image polygon of the boundary loop: +2 strictly
// convex counter-clockwise (every consecutive triple turns left by more than
// rounding noise), +1 weakly convex ccw, the negatives for clockwise, 0
// otherwise (not convex or not a single turn).
func polygonClass(poly []C2) int {
	n := len(poly)
	if n < 3 {
		return 0
	}
	// Orientation of consecutive triples: exact sign, but a value within
	// rounding distance of zero (1e-12 of the squared extent) counts as
	// collinear: points placed on a straight side in floating point are not
	// exactly collinear.
	ext := 0.0
	for _, p := range poly {
		ext = math.Max(ext, math.Max(math.Abs(p.X-poly[0].X), math.Abs(p.Y-poly[0].Y)))
	}
	pos, neg, zero := 0, 0, 0
	for i := 0; i < n; i++ {
		a, b, cc := poly[i], poly[(i+1)%n], poly[(i+2)%n]
		o := ref.Orient2D(a, b, cc)
		if math.Abs(ref.Orient2DValue(a, b, cc)) <= 1e-12*ext*ext {
			o = 0
		}
		switch o {
		case 1:
			pos++
		case -1:
			neg++
		default:
			zero++
		}
	}
	if pos > 0 && neg > 0 {
		return 0
	}
	// single turn: the edge directions must wind exactly once
	turn := 0.0
	for i := 0; i < n; i++ {
		e1 := poly[(i+1)%n].Sub(poly[i])
		e2 := poly[(i+2)%n].Sub(poly[(i+1)%n])
		if e1.Norm() == 0 || e2.Norm() == 0 {
			return 0
		}
		turn += math.Atan2(e1.X*e2.Y-e1.Y*e2.X, e1.Dot(e2))
	}
	if math.Abs(math.Abs(turn)-2*math.Pi) > 1e-6 {
		return 0
	}
	switch {
	case pos > 0 && zero == 0:
		return 2
	case pos > 0:
		return 1
	case neg > 0 && zero == 0:
		return -2
	case neg > 0:
		return -1
	}
	return 0
}

// checkBoundary applies the boundary-map oracle and returns the image polygon
// in loop order plus its class.
func checkBoundary(c *vlib.Case, d *disc, b boundaryKind, bm map[C3]C2) ([]C2, int) {
	api := map[string]string{"circle": "model3d.CircleBoundary", "square": "model3d.SquareBoundary", "pnorm": "model3d.PNormBoundary"}[b.name]
	wit := func() map[string]interface{} {
		w := d.s.witness()
		w["boundary"] = b.String()
		var img []string
		for i, p := range d.loop {
			if i >= 64 {
				break
			}
			img = append(img, hex3(p)+" -> "+hex2(bm[p]))
		}
		w["boundary_loop_image"] = img
		return w
	}
	c.Count("boundary."+b.name, 1)
	// keys are exactly the boundary vertices
	if len(bm) != len(d.loop) {
		c.Violation(api+"/keys", fmt.Sprintf("boundary map has %d entries, the boundary loop has %d vertices", len(bm), len(d.loop)), wit())
		return nil, 0
	}
	poly := make([]C2, len(d.loop))
	for i, p := range d.loop {
		v, ok := bm[p]
		if !ok {
			c.Violation(api+"/keys", "boundary vertex "+hex3(p)+" has no image", wit())
			return nil, 0
		}
		if !finite2(v) {
			c.Violation(api+"/finite", "non-finite image "+hex2(v), wit())
			return nil, 0
		}
		poly[i] = v
	}
	// on the prescribed curve
	worst := 0.0
	for _, v := range poly {
		var dev float64
		switch b.name {
		case "circle":
			dev = math.Abs(v.Norm() - 1)
		case "square":
			dev = math.Abs(math.Max(math.Abs(v.X), math.Abs(v.Y)) - 1)
		default:
			dev = math.Abs(math.Pow(math.Pow(math.Abs(v.X), b.p)+math.Pow(math.Abs(v.Y), b.p), 1/b.p) - 1)
		}
		if dev > worst {
			worst = dev
		}
	}
	c.Max("boundary.worst_curve_deviation", worst)
	if worst > 1e-9 {
		c.Violation(api+"/on-curve", fmt.Sprintf("an image point is %g off the prescribed curve", worst), wit())
	}
	// in boundary order around the origin: the polar angle advances by less
	// than pi per step and by one full turn in total
	total := 0.0
	fwd, back := 0, 0
	for i := range poly {
		p, q := poly[i], poly[(i+1)%len(poly)]
		step := math.Atan2(p.X*q.Y-p.Y*q.X, p.Dot(q))
		if step > 0 {
			fwd++
		} else if step < 0 {
			back++
		}
		total += step
	}
	cls := polygonClass(poly)
	c.Count("boundary.order_checked", 1)
	if fwd != len(poly) || math.Abs(total-2*math.Pi) > 1e-6 {
		if back == len(poly) && math.Abs(total+2*math.Pi) <= 1e-6 {
			c.Violation(api+"/orientation-reversed", "the boundary is laid out clockwise although the faces run counter-clockwise: every triangle of a parameterisation over it is mirrored (flipped)", wit())
		} else {
			c.Violation(api+"/boundary-order", fmt.Sprintf("the images of consecutive boundary vertices do not advance monotonically once around the curve (%d forward steps, %d backward steps, total angle %g)", fwd, back, total), wit())
		}
		return poly, cls
	}
	want := 2
	if b.name == "square" {
		want = 1
	}
	if cls < want {
		// A strictly convex curve sampled at distinct angles must give a strictly
		// convex polygon unless rounding flattens it; that is a float limit and
		// only counted.
		if cls >= 1 {
			c.Count("boundary.strict_curve_but_weakly_convex_polygon", 1)
		} else {
			c.Violation(api+"/convex", fmt.Sprintf("the image polygon is not convex (class %d)", cls), wit())
		}
	}
	// evidence: arc-length placement of CircleBoundary (documented as "based on
	// segment length"; not part of the property, recorded only)
	if b.name == "circle" {
		lens := make([]float64, len(d.loop))
		sum := 0.0
		for i := range d.loop {
			lens[i] = d.loop[i].Dist(d.loop[(i+1)%len(d.loop)])
			sum += lens[i]
		}
		worstArc := 0.0
		for i := range poly {
			p, q := poly[i], poly[(i+1)%len(poly)]
			step := math.Atan2(p.X*q.Y-p.Y*q.X, p.Dot(q))
			if dv := math.Abs(step - 2*math.Pi*lens[i]/sum); dv > worstArc {
				worstArc = dv
			}
		}
		c.Max("boundary.circle_worst_arc_length_deviation", worstArc)
	}
	return poly, cls
}

// ---------------------------------------------------------------------------
// weights

type weightKind struct {
	name string
	r    float64
}

func (w weightKind) String() string {
	if w.name == "invchord" {
		return fmt.Sprintf("invchord(%g)", w.r)
	}
	return w.name
}

func randWeightKind(rng *rand.Rand, allowOwn bool) weightKind {
	n := 3
	if allowOwn {
		n = 4
	}
	switch rng.Intn(n) {
	case 0:
		return weightKind{name: "uniform"}
	case 1:
		rs := []float64{0.5, 1, 2, 3}
		return weightKind{name: "invchord", r: rs[rng.Intn(len(rs))]}
	case 2:
		return weightKind{name: "shape"}
	}
	return weightKind{name: "own-random"}
}

func callWeights(rng *rand.Rand, w weightKind, d *disc) *model3d.EdgeMap[float64] {
	switch w.name {
	case "uniform":
		return model3d.Floater97UniformWeights(d.mesh)
	case "invchord":
		return model3d.Floater97InvChordLengthWeights(d.mesh, w.r)
	case "shape":
		return model3d.Floater97ShapePreservingWeights(d.mesh)
	}
	// own strictly positive weights, normalised per interior centre
	res := model3d.NewEdgeMap[float64]()
	for _, v := range d.interior {
		ns := d.adj[v]
		ws := make([]float64, len(ns))
		sum := 0.0
		for i := range ws {
			ws[i] = math.Exp(1.5 * rng.NormFloat64())
			sum += ws[i]
		}
		for i, n := range ns {
			res.Store([2]C3{v, n}, ws[i]/sum)
		}
	}
	return res
}

// checkWeights applies the weight oracle (keys, non-negative, sum 1, closed
// forms / reference).
func checkWeights(c *vlib.Case, d *disc, w weightKind, wm map[[2]C3]float64) bool {
	api := map[string]string{"uniform": "model3d.Floater97UniformWeights", "invchord": "model3d.Floater97InvChordLengthWeights", "shape": "model3d.Floater97ShapePreservingWeights"}[w.name]
	wit := func(extra map[string]interface{}) map[string]interface{} {
		m := d.s.witness()
		m["weights"] = w.String()
		for k, v := range extra {
			m[k] = v
		}
		return m
	}
	c.Count("weights."+w.name, 1)
	centres := d.verts
	if w.name == "shape" {
		centres = d.interior
	}
	want := 0
	ok := true
	for _, v := range centres {
		ns := d.adj[v]
		want += len(ns)
		sum := 0.0
		var got []float64
		for _, n := range ns {
			x, present := wm[[2]C3{v, n}]
			if !present {
				c.Violation(api+"/keys", "no weight for the edge "+hex3(v)+" -> "+hex3(n), wit(nil))
				return false
			}
			if math.IsNaN(x) || math.IsInf(x, 0) || x < 0 {
				c.Violation(api+"/non-negative", fmt.Sprintf("weight %v for the edge %s -> %s", x, hex3(v), hex3(n)), wit(nil))
				ok = false
			}
			if x == 0 {
				c.Count("weights.zero_weight_seen", 1)
			}
			sum += x
			got = append(got, x)
		}
		c.Count("weights.centres_checked", 1)
		if math.Abs(sum-1) > 1e-9 {
			c.Violation(api+"/sum-to-one", fmt.Sprintf("weights of centre %s sum to %v", hex3(v), sum), wit(nil))
			ok = false
		}
		switch w.name {
		case "uniform":
			for _, x := range got {
				if math.Abs(x-1/float64(len(ns))) > 1e-14 {
					c.Violation(api+"/value", fmt.Sprintf("uniform weight %v at a vertex of degree %d", x, len(ns)), wit(nil))
					ok = false
				}
			}
		case "invchord":
			tot := 0.0
			exp := make([]float64, len(ns))
			for i, n := range ns {
				exp[i] = math.Pow(v.Dist(n), -w.r)
				tot += exp[i]
			}
			for i := range ns {
				if math.Abs(got[i]-exp[i]/tot) > 1e-12 {
					c.Violation(api+"/value", fmt.Sprintf("weight %v, expected dist^-r/sum = %v", got[i], exp[i]/tot), wit(nil))
					ok = false
				}
			}
		case "shape":
			ring, rok := ref.Ring(d.s.tris, v)
			if !rok {
				c.Undecided("shape-ring-not-cyclic")
				continue
			}
			rw, cond := ref.ShapePreserving(v, ring)
			if !(cond > 1e-6) {
				c.Undecided("shape-reference-ill-conditioned")
				continue
			}
			c.Count("weights.shape_centres_vs_reference", 1)
			worst := 0.0
			for i, n := range ring {
				if dv := math.Abs(wm[[2]C3{v, n}] - rw[i]); dv > worst {
					worst = dv
				}
			}
			c.Max("weights.shape_worst_deviation_from_reference", worst)
			if worst > 1e-7 {
				var rows []string
				for i, n := range ring {
					rows = append(rows, fmt.Sprintf("%s lib=%x ref=%x", hex3(n), wm[[2]C3{v, n}], rw[i]))
				}
				c.Violation(api+"/floater-definition", fmt.Sprintf("weights of centre %s differ from Floater's shape-preserving weights by %g", hex3(v), worst),
					wit(map[string]interface{}{"centre": hex3(v), "ring_weights": rows}))
				ok = false
			}
			// linear precision on planar rings: the centre is the weighted mean of
			// its neighbours in 3D (the defining property of the scheme)
			// (only where the planar ring is not folded over itself: the
			// unsigned angles at the centre then add up to a full turn and the
			// flattening is an isometry)
			angleSum := 0.0
			for k := range ring {
				v1, v2 := ring[k].Sub(v), ring[(k+1)%len(ring)].Sub(v)
				angleSum += math.Atan2(v1.Cross(v2).Norm(), v1.Dot(v2))
			}
			if d.s.planar && math.Abs(angleSum-2*math.Pi) < 1e-9 {
				var mean C3
				scale := 0.0
				for _, n := range ring {
					mean = mean.Add(n.Scale(wm[[2]C3{v, n}]))
					scale = math.Max(scale, n.Dist(v))
				}
				c.Count("weights.shape_planar_reproduction_checked", 1)
				if dv := mean.Dist(v); dv > 1e-9*scale+1e-12 {
					c.Violation(api+"/planar-reproduction", fmt.Sprintf("on a planar mesh the weighted mean of the neighbours misses the centre %s by %g (ring scale %g)", hex3(v), dv, scale),
						wit(map[string]interface{}{"centre": hex3(v)}))
					ok = false
				}
			}
		}
	}
	if len(wm) != want {
		c.Violation(api+"/keys", fmt.Sprintf("%d weights returned, %d (centre, neighbour) pairs expected", len(wm), want), wit(nil))
		ok = false
	}
	return ok
}

func secBoundaryWeights(r *vlib.Run) {
	r.Section("boundary-weights", r.N(3000, 10000), vlib.SectionOpts{}, replayable(r, func(c *vlib.Case) {
		rng := c.Rng
		s := genDisc(rng, r.N(10, 30))
		if s == nil {
			c.Count("gen.rejected", 1)
			return
		}
		d := newDisc(s)
		for _, b := range []boundaryKind{{name: "circle"}, {name: "square"}, randPNorm(rng)} {
			bm := coordMapToGo(callBoundary(b, d.mesh))
			checkBoundary(c, d, b, bm)
		}
		for _, w := range []weightKind{{name: "uniform"}, {name: "invchord", r: []float64{0.5, 1, 2, 3}[rng.Intn(4)]}, {name: "shape"}} {
			if w.name == "shape" && !d.shapeOK() {
				c.Count("weights.shape_precondition_rejected", 1)
				continue
			}
			var wm map[[2]C3]float64
			if guard(c, s.witness, "weights "+w.String(), func() { wm = edgeMapToGo(callWeights(rng, w, d)) }) {
				checkWeights(c, d, w, wm)
			}
		}
		c.Nontrivial(s.desc + "|boundary-weights")
		c.Sample("boundary-weights", 2, map[string]interface{}{"input": s.desc, "boundary_vertices": len(d.loop), "interior_vertices": len(d.interior)})
	}))
}

func randPNorm(rng *rand.Rand) boundaryKind {
	ps := []float64{1.5, 2, 3, 4, 6}
	return boundaryKind{name: "pnorm", p: ps[rng.Intn(len(ps))]}
}

// ---------------------------------------------------------------------------
// Floater97

// ownBoundary lays the loop out on a convex polygon of the monitor's choice
// ("all convex boundary maps"): an ellipse by index, or random sorted angles.
func ownBoundary(rng *rand.Rand, d *disc) (*model3d.CoordMap[C2], string) {
	n := len(d.loop)
	res := model3d.NewCoordMap[C2]()
	switch rng.Intn(2) {
	case 0:
		a, b := 0.5+2*rng.Float64(), 0.5+2*rng.Float64()
		off := model2d.XY(rng.NormFloat64(), rng.NormFloat64())
		for i, p := range d.loop {
			th := 2 * math.Pi * float64(i) / float64(n)
			res.Store(p, model2d.XY(a*math.Cos(th), b*math.Sin(th)).Add(off))
		}
		return res, fmt.Sprintf("own-ellipse(%.3g,%.3g)+offset", a, b)
	default:
		angs := make([]float64, n)
		for i := range angs {
			angs[i] = 2 * math.Pi * (float64(i) + 0.8*rng.Float64()) / float64(n)
		}
		sort.Float64s(angs)
		for i, p := range d.loop {
			res.Store(p, model2d.XY(math.Cos(angs[i]), math.Sin(angs[i])))
		}
		return res, "own-random-angles-on-circle"
	}
}

// buildSystem assembles the convex-combination system from the monitor's own
// adjacency and the weights handed to the library.
func buildSystem(d *disc, wm map[[2]C3]float64, bm map[C3]C2) (*ref.System, []float64, []float64, map[C3]int) {
	idx := map[C3]int{}
	for i, v := range d.interior {
		idx[v] = i
	}
	sys := &ref.System{N: len(d.interior), Rows: make([][]ref.Entry, len(d.interior))}
	bx := make([]float64, sys.N)
	by := make([]float64, sys.N)
	for i, v := range d.interior {
		for _, n := range d.adj[v] {
			w := wm[[2]C3{v, n}]
			if j, ok := idx[n]; ok {
				sys.Rows[i] = append(sys.Rows[i], ref.Entry{Col: j, W: w})
			} else {
				bx[i] += w * bm[n].X
				by[i] += w * bm[n].Y
			}
		}
	}
	return sys, bx, by, idx
}

type floaterResult struct {
	uv        map[C3]C2
	strictOK  bool // all triangles strictly positively oriented
	maxResid  float64
	polyClass int
}

// checkParam applies the parameterisation oracle to a result of Floater97.
// api is the key prefix; tolScale multiplies the residual tolerance.
func checkParam(c *vlib.Case, api string, d *disc, desc string, bm map[C3]C2, polyCls int, wm map[[2]C3]float64,
	uv map[C3]C2, checkResidual bool) *floaterResult {
	wit := func(extra map[string]interface{}) map[string]interface{} {
		m := d.s.witness()
		m["call"] = desc
		for k, v := range extra {
			m[k] = v
		}
		return m
	}
	res := &floaterResult{uv: uv, polyClass: polyCls}
	// every vertex mapped, boundary kept bit-exactly, all finite
	if len(uv) != len(d.verts) {
		c.Violation(api+"/keys", fmt.Sprintf("%d vertices mapped, the mesh has %d", len(uv), len(d.verts)), wit(nil))
		return nil
	}
	for _, v := range d.verts {
		p, ok := uv[v]
		if !ok {
			c.Violation(api+"/keys", "vertex "+hex3(v)+" is not mapped", wit(nil))
			return nil
		}
		if !finite2(p) {
			c.Violation(api+"/finite", "vertex "+hex3(v)+" mapped to "+hex2(p), wit(nil))
			return nil
		}
		if d.onBound[v] && p != bm[v] {
			c.Violation(api+"/boundary-fixed", fmt.Sprintf("boundary vertex %s moved from %s to %s", hex3(v), hex2(bm[v]), hex2(p)), wit(nil))
			return nil
		}
	}
	c.Count("param.boundary_fixed_checked", 1)
	if !checkResidual {
		return res
	}
	// interior vertex == weighted mean of its neighbours
	n := len(d.interior)
	tol := math.Max(1e-7, 1.01e-8*math.Sqrt(float64(n)))
	scale := 0.0
	for _, p := range bm {
		scale = math.Max(scale, math.Max(math.Abs(p.X), math.Abs(p.Y)))
	}
	var sumSq [2]float64
	for _, v := range d.interior {
		var mean C2
		for _, nb := range d.adj[v] {
			mean = mean.Add(uv[nb].Scale(wm[[2]C3{v, nb}]))
		}
		rx, ry := mean.X-uv[v].X, mean.Y-uv[v].Y
		sumSq[0] += rx * rx
		sumSq[1] += ry * ry
		rr := math.Max(math.Abs(rx), math.Abs(ry))
		if rr > res.maxResid {
			res.maxResid = rr
		}
		if rr > tol*math.Max(1, scale) {
			c.Violation(api+"/weighted-mean", fmt.Sprintf("interior vertex %s is at %s but the weighted mean of its neighbours is %s (residual %g, tolerance %g, %d unknowns)",
				hex3(v), hex2(uv[v]), hex2(mean), rr, tol*math.Max(1, scale), n), wit(nil))
			return res
		}
	}
	c.Count("floater.interior_vertices_checked", int64(n))
	c.Max("floater.worst_residual", res.maxResid)
	if n > 0 {
		c.Max("floater.worst_mse_over_default_tolerance", math.Max(sumSq[0], sumSq[1])/float64(n)/1e-16)
	}
	// orientation of every 2D triangle (exact predicate)
	var flipped, degenerate, positive []int
	for i, t := range d.s.tris {
		switch ref.Orient2D(uv[nz(t[0])], uv[nz(t[1])], uv[nz(t[2])]) {
		case 1:
			positive = append(positive, i)
		case -1:
			flipped = append(flipped, i)
		default:
			degenerate = append(degenerate, i)
		}
	}
	if polyCls < 0 {
		// clockwise own polygon: mirror image expected
		positive, flipped = flipped, positive
	}
	strict := polyCls == 2 || polyCls == -2
	suspects := append([]int{}, flipped...)
	if strict {
		suspects = append(suspects, degenerate...)
	}
	if len(suspects) == 0 {
		if strict {
			c.Count("floater.strict_orientation_decided", 1)
			res.strictOK = true
		} else {
			c.Count("floater.weak_orientation_decided", 1)
			c.Count("floater.weak_degenerate_triangles", int64(len(degenerate)))
		}
		return res
	}
	// Something is flipped (or degenerate under a strictly convex boundary):
	// decide with a certified reference whether the solver tolerance explains it.
	sys, bx, by, idx := buildSystem(d, wm, bm)
	rf, ok := sys.Solve(bx, by, 700, 4000)
	if !ok {
		c.Undecided("flip-without-certified-reference")
		return res
	}
	delta := rf.InvNorm*tol*math.Max(1, scale) + rf.Err
	pos := func(v C3) C2 {
		if i, ok := idx[v]; ok {
			return C2{X: rf.X[i], Y: rf.Y[i]}
		}
		return bm[v]
	}
	sign := 1.0
	if polyCls < 0 {
		sign = -1
	}
	worstUndecided := 0.0
	for _, ti := range suspects {
		t := d.s.tris[ti]
		a, b, cc := pos(nz(t[0])), pos(nz(t[1])), pos(nz(t[2]))
		o := sign * ref.Orient2DValue(a, b, cc)
		per := a.Dist(b) + b.Dist(cc) + cc.Dist(a)
		margin := 2*delta*per + 4*delta*delta
		if o <= margin && o > worstUndecided {
			worstUndecided = o
		}
		if o > margin {
			c.Violation(api+"/flip", fmt.Sprintf("triangle %d is flipped or degenerate in the library's result (orientation %d) but has signed double area %g in the certified reference solution; tolerance-induced change is at most %g",
				ti, ref.Orient2D(uv[nz(t[0])], uv[nz(t[1])], uv[nz(t[2])]), o, margin),
				wit(map[string]interface{}{"triangle": ref.HexTris([]vlib.Tri{t}, 1), "library_uv": []string{hex2(uv[nz(t[0])]), hex2(uv[nz(t[1])]), hex2(uv[nz(t[2])])},
					"reference_uv": []string{hex2(a), hex2(b), hex2(cc)}, "reference_method": rf.Method, "inv_norm_bound": rf.InvNorm}))
			return res
		}
		if strict && o < -margin {
			// Tutte/Floater says this cannot happen: the reference contradicts
			// the theorem, so the monitor's own preconditions must be wrong.
			c.Undecided("reference-contradicts-theorem")
			return res
		}
	}
	if strict {
		c.Undecided("flip-within-solver-tolerance(strictly-convex-boundary)")
	} else {
		c.Undecided("flip-within-solver-tolerance(weakly-convex-boundary)")
	}
	c.Max("floater.largest_reference_area_of_an_undecided_flip", worstUndecided)
	return res
}

// bruteForceOverlap checks with exact predicates that no two 2D triangles have
// intersecting interiors.
func bruteForceOverlap(c *vlib.Case, api string, d *disc, desc string, uv map[C3]C2) {
	n := len(d.s.tris)
	t2 := make([][3]C2, n)
	lo := make([]C2, n)
	hi := make([]C2, n)
	for i, t := range d.s.tris {
		t2[i] = [3]C2{uv[nz(t[0])], uv[nz(t[1])], uv[nz(t[2])]}
		lo[i] = t2[i][0].Min(t2[i][1]).Min(t2[i][2])
		hi[i] = t2[i][0].Max(t2[i][1]).Max(t2[i][2])
	}
	pairs := 0
	for i := 0; i < n; i++ {
		for j := i + 1; j < n; j++ {
			if lo[i].X > hi[j].X || lo[j].X > hi[i].X || lo[i].Y > hi[j].Y || lo[j].Y > hi[i].Y {
				continue
			}
			pairs++
			if ref.TrisOverlap(t2[i], t2[j]) {
				w := d.s.witness()
				w["call"] = desc
				w["triangle_a_uv"] = []string{hex2(t2[i][0]), hex2(t2[i][1]), hex2(t2[i][2])}
				w["triangle_b_uv"] = []string{hex2(t2[j][0]), hex2(t2[j][1]), hex2(t2[j][2])}
				c.Violation(api+"/overlap", fmt.Sprintf("2D triangles %d and %d have intersecting interiors", i, j), w)
				return
			}
		}
	}
	c.Count("floater.overlap_bruteforce", 1)
	c.Count("floater.overlap_pairs_tested", int64(pairs))
}

type floaterCall struct {
	d       *disc
	desc    string
	bm      map[C3]C2
	polyCls int
	wm      map[[2]C3]float64
	uv      map[C3]C2
	res     *floaterResult
}

// runFloater draws boundary, weights and solver, calls Floater97 and applies
// the oracle. Returns nil if the inputs failed their own oracle.
func runFloater(c *vlib.Case, rng *rand.Rand, d *disc, allowOwn bool) *floaterCall {
	var bmLib *model3d.CoordMap[C2]
	var bdesc string
	var bm map[C3]C2
	var cls int
	if allowOwn && rng.Intn(4) == 0 {
		bmLib, bdesc = ownBoundary(rng, d)
		bm = coordMapToGo(bmLib)
		poly := make([]C2, len(d.loop))
		for i, p := range d.loop {
			poly[i] = bm[p]
		}
		cls = polygonClass(poly)
		if cls <= 0 {
			c.Count("floater.own_boundary_rejected", 1)
			return nil
		}
	} else {
		b := randBoundaryKind(rng)
		bmLib = callBoundary(b, d.mesh)
		bm = coordMapToGo(bmLib)
		bdesc = b.String()
		poly, k := checkBoundary(c, d, b, bm)
		if poly == nil || k <= 0 {
			return nil
		}
		cls = k
	}
	w := randWeightKind(rng, allowOwn)
	if w.name == "shape" && !d.shapeOK() {
		c.Count("weights.shape_precondition_rejected", 1)
		w = weightKind{name: "uniform"}
	}
	var wmLib *model3d.EdgeMap[float64]
	if !guard(c, d.s.witness, "weights "+w.String(), func() { wmLib = callWeights(rng, w, d) }) {
		return nil
	}
	wm := edgeMapToGo(wmLib)
	if w.name != "own-random" {
		if !checkWeights(c, d, w, wm) {
			return nil
		}
	}
	var solver numerical.LargeLinearSolver
	sdesc := "solver=nil"
	checkDefault := func(ds *numerical.BiCGSTABSolver) bool {
		c.Count("floater.default_solver_descriptors_checked", 1)
		if ds == nil || ds.MaxIters != model3d.Floater97DefaultMaxIters || ds.MSETolerance != model3d.Floater97DefaultMSETol || ds.MAETolerance != 0 {
			c.Violation("model3d.Floater97DefaultSolver/default-configuration", fmt.Sprintf("Floater97DefaultSolver() returned %+v, the documented defaults are MaxIters=%d MSETolerance=%g", ds, model3d.Floater97DefaultMaxIters, model3d.Floater97DefaultMSETol), d.s.witness())
			return false
		}
		return true
	}
	switch rng.Intn(8) {
	case 0, 1:
		solver = &numerical.BiCGSTABSolver{MaxIters: model3d.Floater97DefaultMaxIters, MSETolerance: model3d.Floater97DefaultMSETol}
		sdesc = "solver=BiCGSTAB(default constants)"
	case 2:
		// the other documented stopping rule: mean absolute error
		solver = &numerical.BiCGSTABSolver{MaxIters: model3d.Floater97DefaultMaxIters, MAETolerance: 1e-9}
		sdesc = "solver=BiCGSTAB(MAETolerance=1e-9)"
		c.Count("floater.solver.mae_stopping_rule", 1)
	case 3:
		ds := model3d.Floater97DefaultSolver()
		if !checkDefault(ds) {
			return nil
		}
		solver = ds
		sdesc = "solver=Floater97DefaultSolver()"
	case 4:
		// history: an earlier caller took the default solver, loosened it for a quick preview and
		// used it; this call passes nil and must get the documented default behaviour
		ds := model3d.Floater97DefaultSolver()
		if !checkDefault(ds) {
			return nil
		}
		ds.MaxIters = 1 + rng.Intn(3)
		ds.MSETolerance = 1e-2
		func() {
			defer func() { recover() }() // the preview's quality is its caller's business
			model3d.Floater97(d.mesh, bmLib, wmLib, ds)
		}()
		if !checkDefault(model3d.Floater97DefaultSolver()) {
			return nil
		}
		sdesc = "solver=nil after a preview with a loosened Floater97DefaultSolver()"
		c.Count("floater.solver.nil_after_loosened_default", 1)
	}
	// Floater97 itself does not ask for consistently wound triangles: with a boundary map and
	// weights that do not depend on the winding (own map; uniform / chord-length / own weights,
	// computed from the mesh as it is) some faces may list their corners the other way round
	meshArg := d.mesh
	if strings.HasPrefix(bdesc, "own") && w.name != "shape" && rng.Intn(2) == 0 {
		meshArg = model3d.NewMesh()
		flipped := 0
		d.mesh.Iterate(func(t *model3d.Triangle) {
			if rng.Intn(3) == 0 {
				meshArg.Add(&model3d.Triangle{t[1], t[0], t[2]})
				flipped++
			} else {
				meshArg.Add(t)
			}
		})
		if flipped > 0 {
			sdesc += fmt.Sprintf(", %d faces wound the other way", flipped)
			c.Count("floater.calls_on_a_disc_with_mixed_winding", 1)
		}
	}
	desc := fmt.Sprintf("Floater97(boundary=%s, weights=%s, %s)", bdesc, w.String(), sdesc)
	var uvLib *model3d.CoordMap[C2]
	c.Count("floater.calls", 1)
	if !guard(c, d.s.witness, desc, func() { uvLib = model3d.Floater97(meshArg, bmLib, wmLib, solver) }) {
		return nil
	}
	c.Count("floater.boundary."+bdescShort(bdesc), 1)
	c.Count("floater.weights."+w.name, 1)
	// inputs must not be modified
	if !sameCoordMap(bm, coordMapToGo(bmLib)) {
		c.Violation("model3d.Floater97/input-modified", "the boundary map was modified", d.s.witness())
	}
	if !sameEdgeMap(wm, edgeMapToGo(wmLib)) {
		c.Violation("model3d.Floater97/input-modified", "the weight map was modified", d.s.witness())
	}
	uv := coordMapToGo(uvLib)
	res := checkParam(c, "model3d.Floater97", d, desc, bm, cls, wm, uv, true)
	if res == nil {
		return nil
	}
	c.Nontrivial(d.s.desc + "|" + desc)
	return &floaterCall{d: d, desc: desc, bm: bm, polyCls: cls, wm: wm, uv: uv, res: res}
}

func bdescShort(s string) string {
	for i, ch := range s {
		if ch == '(' {
			return s[:i]
		}
	}
	return s
}

func sameCoordMap(a, b map[C3]C2) bool {
	if len(a) != len(b) {
		return false
	}
	for k, v := range a {
		if w, ok := b[k]; !ok || w != v {
			return false
		}
	}
	return true
}

func sameEdgeMap(a, b map[[2]C3]float64) bool {
	if len(a) != len(b) {
		return false
	}
	for k, v := range a {
		if w, ok := b[k]; !ok || w != v {
			return false
		}
	}
	return true
}

func secFloater(r *vlib.Run) {
	r.Section("floater", r.N(4000, 14000), vlib.SectionOpts{}, replayable(r, func(c *vlib.Case) {
		rng := c.Rng
		var d *disc
		if rng.Intn(4) == 0 {
			// the documented pipeline: a chart of a closed surface
			s := genManifold(rng, false)
			if s == nil || len(s.tris) > 4000 {
				c.Count("gen.rejected", 1)
				return
			}
			mesh, _ := s.im.Mesh()
			charts := model3d.MeshToPlaneGraphs(mesh)
			if len(charts) == 0 {
				return
			}
			d = discOfMesh(charts[rng.Intn(len(charts))], "chart of ["+s.desc+"]")
			if d == nil {
				c.Count("floater.chart_not_certified", 1)
				return
			}
			c.Count("floater.library_chart_inputs", 1)
		} else {
			s := genDisc(rng, r.N(14, 40))
			if s == nil {
				c.Count("gen.rejected", 1)
				return
			}
			d = newDisc(s)
		}
		fc := runFloater(c, rng, d, true)
		if fc == nil {
			return
		}
		if len(d.interior) == 0 {
			c.Count("floater.no_interior_vertex", 1)
		}
		if fc.res.strictOK && len(d.s.tris) <= 500 {
			bruteForceOverlap(c, "model3d.Floater97", d, fc.desc, fc.uv)
		}
		c.Sample("floater", 3, map[string]interface{}{"input": d.s.desc, "call": fc.desc, "interior": len(d.interior), "worst_residual": fc.res.maxResid})
		// the UV -> 3D lookup on an overlap-free chart
		if fc.res.strictOK {
			uvm := model3d.NewMeshUVMapForCoords(d.mesh, goToCoordMap(fc.uv))
			checkMapFn(c, rng, uvm, true, 40, 12, "Floater97 chart: "+d.s.desc+" | "+fc.desc)
		}
		// ExtendBoundaryUVs (used by the atlas builder): documented to move
		// boundary-triangle vertices by at most maxDist; the boundary must be
		// centred at the origin, so only the library's own boundary maps.
		if !strings.Contains(fc.desc, "own-") {
			maxDist := []float64{0.01, 0.1, 0.5}[rng.Intn(3)]
			cm := goToCoordMap(fc.uv)
			call := fmt.Sprintf("ExtendBoundaryUVs(maxDist=%g) after %s", maxDist, fc.desc)
			if guard(c, d.s.witness, call, func() { model3d.ExtendBoundaryUVs(d.mesh, cm, maxDist) }) {
				after := coordMapToGo(cm)
				c.Count("extend.calls", 1)
				moved := 0
				for _, v := range d.verts {
					q, ok := after[v]
					if !ok || len(after) != len(fc.uv) {
						c.Violation("model3d.ExtendBoundaryUVs/keys", "the vertex set of the mapping changed", d.s.witness())
						break
					}
					dist := q.Dist(fc.uv[v])
					if !finite2(q) {
						w := d.s.witness()
						w["call"] = call
						c.Violation("model3d.ExtendBoundaryUVs/finite", "vertex "+hex3(v)+" moved to "+hex2(q), w)
						break
					}
					if dist > 0 {
						moved++
						if !d.onBound[v] {
							w := d.s.witness()
							w["call"] = call
							c.Violation("model3d.ExtendBoundaryUVs/interior-untouched", "interior vertex "+hex3(v)+" was moved", w)
							break
						}
						if dist > maxDist*(1+1e-9) {
							w := d.s.witness()
							w["call"] = call
							c.Violation("model3d.ExtendBoundaryUVs/max-dist", fmt.Sprintf("boundary vertex %s moved by %g > maxDist %g", hex3(v), dist, maxDist), w)
							break
						}
					}
				}
				c.Count("extend.vertices_moved", int64(moved))
			}
		}
	}))
}

func goToCoordMap(m map[C3]C2) *model3d.CoordMap[C2] {
	res := model3d.NewCoordMap[C2]()
	for k, v := range m {
		res.Store(k, v)
	}
	return res
}

// ---------------------------------------------------------------------------
// stretch minimisation

func secStretch(r *vlib.Run) {
	r.Section("stretch", r.N(800, 3000), vlib.SectionOpts{}, replayable(r, func(c *vlib.Case) {
		rng := c.Rng
		s := genDisc(rng, r.N(8, 20))
		if s == nil {
			c.Count("gen.rejected", 1)
			return
		}
		d := newDisc(s)
		b := randBoundaryKind(rng)
		if b.name == "square" {
			b = boundaryKind{name: "pnorm", p: 4}
		}
		bmLib := callBoundary(b, d.mesh)
		bm := coordMapToGo(bmLib)
		poly, cls := checkBoundary(c, d, b, bm)
		if poly == nil || cls < 2 {
			return
		}
		w := randWeightKind(rng, false)
		if w.name == "shape" && !d.shapeOK() {
			c.Count("weights.shape_precondition_rejected", 1)
			w = weightKind{name: "uniform"}
		}
		var wmLib *model3d.EdgeMap[float64]
		if !guard(c, s.witness, "weights "+w.String(), func() { wmLib = callWeights(rng, w, d) }) {
			return
		}
		if !checkWeights(c, d, w, edgeMapToGo(wmLib)) {
			return
		}
		nIters := []int{0, 1, 2, 5, 20}[rng.Intn(5)]
		eta := []float64{0.5, 0.75, 1}[rng.Intn(3)]
		desc := fmt.Sprintf("StretchMinimizingParameterization(boundary=%s, weights=%s, nIters=%d, eta=%g)", b.String(), w.String(), nIters, eta)
		c.Count("stretch.calls", 1)
		c.Count("stretch.weights."+w.name, 1)
		var uv map[C3]C2
		if !guard(c, s.witness, desc, func() {
			uv = coordMapToGo(model3d.StretchMinimizingParameterization(d.mesh, bmLib, wmLib, nil, nIters, eta, false))
		}) {
			return
		}
		c.Count("stretch.returned", 1)
		if checkParam(c, "model3d.StretchMinimizingParameterization", d, desc, bm, cls, nil, uv, false) == nil {
			return
		}
		// the (modified) weights must still be usable by Floater97: finite,
		// non-negative, centre sums 1
		wm := edgeMapToGo(wmLib)
		sums := map[C3]float64{}
		for k, x := range wm {
			if math.IsNaN(x) || math.IsInf(x, 0) || x < 0 {
				c.Violation("model3d.StretchMinimizingParameterization/weights-valid", fmt.Sprintf("final weight %v for %s -> %s", x, hex3(k[0]), hex3(k[1])), d.s.witness())
				return
			}
			sums[k[0]] += x
		}
		for _, v := range d.interior {
			if math.Abs(sums[v]-1) > 1e-6 {
				c.Violation("model3d.StretchMinimizingParameterization/weights-valid", fmt.Sprintf("final weights of interior centre %s sum to %v", hex3(v), sums[v]), d.s.witness())
				return
			}
		}
		c.Count("stretch.final_weights_checked", 1)
		c.Nontrivial(s.desc + "|" + desc)
		c.Sample("stretch", 2, map[string]interface{}{"input": s.desc, "call": desc})
	}))
}
