package main

import (
	"fmt"
	"math"
	"math/rand"

	"github.com/unixpickle/model3d/model2d"
	"github.com/unixpickle/model3d/model3d"
	"github.com/unixpickle/model3d/toolbox3d"
	"verif/vlib"
)

// spec describes one library transform; it can build the library object (2D
// or 3D) and, independently, the reference map.
type spec struct {
	Kind  string // translate scale vecscale matrix rotation joined squeeze pinch smart
	Off   V
	S     float64
	VS    V
	M     mat
	Axis  V
	Theta float64
	Kids  []*spec

	// squeeze / pinch / smart
	Ax           int
	Lo, Hi       float64
	Ratio, Power float64
	// smart
	BMin, BMax V
	PinchRange float64
	Unsq       [][2]float64
	Pinches    []float64
	UseCtor    bool    // build through NewSmartSqueeze (defaults for zero args)
	CtorRatio  float64 // arguments as passed to the constructor
	CtorPower  float64
}

func (s *spec) name(dim int) string {
	pkg := "model3d"
	if dim == 2 {
		pkg = "model2d"
	}
	switch s.Kind {
	case "translate":
		return pkg + ".Translate"
	case "scale":
		return pkg + ".Scale"
	case "vecscale":
		return pkg + ".VecScale"
	case "matrix":
		if dim == 2 {
			return pkg + ".Matrix2Transform"
		}
		return pkg + ".Matrix3Transform"
	case "rotation":
		return pkg + ".Rotation"
	case "joined":
		return pkg + ".JoinedTransform"
	case "squeeze":
		return "toolbox3d.AxisSqueeze"
	case "pinch":
		return "toolbox3d.AxisPinch"
	case "smart":
		return "toolbox3d.SmartSqueeze.Transform"
	}
	return pkg + "." + s.Kind
}

// isDist reports whether the library object is documented to be a
// DistTransform.
func (s *spec) isDist() bool {
	switch s.Kind {
	case "translate", "scale", "rotation":
		return true
	case "joined":
		for _, k := range s.Kids {
			if !k.isDist() {
				return false
			}
		}
		return true
	}
	return false
}

// factor is the similarity factor of a DistTransform.
func (s *spec) factor() float64 {
	switch s.Kind {
	case "scale":
		return s.S
	case "joined":
		k := 1.0
		for _, c := range s.Kids {
			k *= c.factor()
		}
		return k
	}
	return 1
}

func (s *spec) affine() bool {
	switch s.Kind {
	case "squeeze", "pinch", "smart":
		return false
	case "joined":
		for _, k := range s.Kids {
			if !k.affine() {
				return false
			}
		}
	}
	return true
}

func (s *spec) has(kind string) bool {
	if s.Kind == kind {
		return true
	}
	for _, k := range s.Kids {
		if k.has(kind) {
			return true
		}
	}
	return false
}

func (s *spec) blocked() []ival {
	var b []ival
	for _, u := range s.Unsq {
		b = append(b, ival{u[0], u[1]})
	}
	for _, p := range s.Pinches {
		b = append(b, ival{p - s.PinchRange, p + s.PinchRange})
	}
	return b
}

func (s *spec) ref() ref {
	switch s.Kind {
	case "translate":
		return rTranslate{s.Off}
	case "scale":
		return rVecScale{V{s.S, s.S, s.S}}
	case "vecscale":
		return rVecScale{s.VS}
	case "matrix":
		mi, ok := s.M.inverse()
		if !ok {
			panic("harness: singular matrix generated")
		}
		f, g := s.M.frob(), mi.frob()
		return rMatrix{m: s.M, mi: mi, f: f, g: g, k: f * g}
	case "rotation":
		m := rodrigues(s.Axis, s.Theta)
		return rMatrix{m: m, mi: m.transpose(), f: 1, g: 1, k: 1}
	case "joined":
		r := rJoined{}
		for _, k := range s.Kids {
			r = append(r, k.ref())
		}
		return r
	case "squeeze":
		return rPW{ax: s.Ax, xs: []float64{s.Lo, s.Hi}, ys: []float64{s.Lo, s.Lo + (s.Hi-s.Lo)*s.Ratio}}
	case "pinch":
		return rPinch{ax: s.Ax, lo: s.Lo, hi: s.Hi, pow: s.Power}
	case "smart":
		r := rJoined{}
		for _, p := range s.Pinches {
			r = append(r, rPinch{ax: s.Ax, lo: p - s.PinchRange, hi: p + s.PinchRange, pow: s.Power})
		}
		r = append(r, smartPW(s.Ax, s.BMin[s.Ax], s.BMax[s.Ax], s.Ratio, s.blocked()))
		return r
	}
	panic("harness: unknown kind " + s.Kind)
}

func (s *spec) lib3() model3d.Transform {
	switch s.Kind {
	case "translate":
		return &model3d.Translate{Offset: to3(s.Off)}
	case "scale":
		return &model3d.Scale{Scale: s.S}
	case "vecscale":
		return &model3d.VecScale{Scale: to3(s.VS)}
	case "matrix":
		m := model3d.Matrix3(s.M)
		return &model3d.Matrix3Transform{Matrix: &m}
	case "rotation":
		return model3d.Rotation(to3(s.Axis), s.Theta)
	case "joined":
		j := model3d.JoinedTransform{}
		for _, k := range s.Kids {
			j = append(j, k.lib3())
		}
		return j
	case "squeeze":
		return &toolbox3d.AxisSqueeze{Axis: toolbox3d.Axis(s.Ax), Min: s.Lo, Max: s.Hi, Ratio: s.Ratio}
	case "pinch":
		return &toolbox3d.AxisPinch{Axis: toolbox3d.Axis(s.Ax), Min: s.Lo, Max: s.Hi, Power: s.Power}
	case "smart":
		var ss *toolbox3d.SmartSqueeze
		if s.UseCtor {
			ss = toolbox3d.NewSmartSqueeze(toolbox3d.Axis(s.Ax), s.CtorRatio, s.PinchRange, s.CtorPower)
		} else {
			ss = &toolbox3d.SmartSqueeze{Axis: toolbox3d.Axis(s.Ax), SqueezeRatio: s.Ratio,
				PinchRange: s.PinchRange, PinchPower: s.Power}
		}
		for _, u := range s.Unsq {
			ss.AddUnsqueezable(u[0], u[1])
		}
		for _, p := range s.Pinches {
			ss.AddPinch(p)
		}
		return ss.Transform(model3d.NewRect(to3(s.BMin), to3(s.BMax)))
	}
	panic("harness: unknown kind " + s.Kind)
}

func (s *spec) lib2() model2d.Transform {
	switch s.Kind {
	case "translate":
		return &model2d.Translate{Offset: to2(s.Off)}
	case "scale":
		return &model2d.Scale{Scale: s.S}
	case "vecscale":
		return &model2d.VecScale{Scale: to2(s.VS)}
	case "matrix":
		m := model2d.Matrix2{s.M[0], s.M[1], s.M[3], s.M[4]}
		return &model2d.Matrix2Transform{Matrix: &m}
	case "rotation":
		return model2d.Rotation(s.Theta)
	case "joined":
		j := model2d.JoinedTransform{}
		for _, k := range s.Kids {
			j = append(j, k.lib2())
		}
		return j
	}
	panic("harness: kind has no 2D form: " + s.Kind)
}

func hexs(xs ...float64) []string {
	r := make([]string, len(xs))
	for i, x := range xs {
		r[i] = vlib.Hex(x)
	}
	return r
}

func (s *spec) describe() interface{} {
	m := map[string]interface{}{"kind": s.Kind}
	switch s.Kind {
	case "translate":
		m["offset"] = s.Off.hex()
		m["offset_dec"] = s.Off.String()
	case "scale":
		m["scale"] = vlib.Hex(s.S)
		m["scale_dec"] = s.S
	case "vecscale":
		m["scale"] = s.VS.hex()
		m["scale_dec"] = s.VS.String()
	case "matrix":
		m["matrix_rowmajor"] = hexs(s.M[:]...)
		m["matrix_dec"] = fmt.Sprint(s.M)
	case "rotation":
		m["axis"] = s.Axis.hex()
		m["axis_dec"] = s.Axis.String()
		m["theta"] = vlib.Hex(s.Theta)
		m["theta_dec"] = s.Theta
	case "joined":
		var kids []interface{}
		for _, k := range s.Kids {
			kids = append(kids, k.describe())
		}
		m["parts"] = kids
	case "squeeze":
		m["axis"] = s.Ax
		m["min_max_ratio"] = hexs(s.Lo, s.Hi, s.Ratio)
		m["dec"] = fmt.Sprint(s.Lo, s.Hi, s.Ratio)
	case "pinch":
		m["axis"] = s.Ax
		m["min_max_power"] = hexs(s.Lo, s.Hi, s.Power)
		m["dec"] = fmt.Sprint(s.Lo, s.Hi, s.Power)
	case "smart":
		m["axis"] = s.Ax
		m["bounds"] = []string{s.BMin.String(), s.BMax.String()}
		m["ratio_pinchrange_power"] = fmt.Sprint(s.Ratio, s.PinchRange, s.Power)
		m["unsqueezable"] = fmt.Sprint(s.Unsq)
		m["pinches"] = fmt.Sprint(s.Pinches)
		m["via_constructor"] = s.UseCtor
	}
	return m
}

// ---------------------------------------------------------------------------
// generators

type genOpts struct {
	dim      int
	distOnly bool // only kinds documented as DistTransform
	toolbox  bool // allow AxisSqueeze / AxisPinch / SmartSqueeze (3D)
	affine   bool // only affine kinds
	depth    int  // remaining nesting depth for joined
	cond     float64
	mild     bool // keep scales within [1/8, 8] and offsets small (wrapped-object sections)
}

func pick(rng *rand.Rand, xs ...float64) float64 { return xs[rng.Intn(len(xs))] }

func genScalePos(rng *rand.Rand, mild bool) float64 {
	if mild {
		switch rng.Intn(4) {
		case 0:
			return pick(rng, 0.5, 2, 0.25, 4, 1)
		case 1:
			return pick(rng, 3, 1.0/3, 1.5, 0.7, 5)
		default:
			return math.Exp((rng.Float64()*2 - 1) * math.Log(8))
		}
	}
	switch rng.Intn(6) {
	case 0:
		return pick(rng, 0.5, 2, 0.25, 4, 1, 1024, 1.0/1024)
	case 1:
		return pick(rng, 3, 1.0/3, 10, 0.1, 7, 1e3, 1e-3)
	case 2:
		return 1 + pick(rng, 1e-9, -1e-9, 1e-15, 1e-3)
	default:
		return math.Exp((rng.Float64()*2 - 1) * math.Log(1e3))
	}
}

func genCoord(rng *rand.Rand, mild bool) float64 {
	if mild {
		switch rng.Intn(4) {
		case 0:
			return pick(rng, 0, 1, -1, 2, -3, 0.5)
		default:
			return rng.NormFloat64() * 2
		}
	}
	switch rng.Intn(7) {
	case 0:
		return 0
	case 1:
		return pick(rng, 1, -1, 2, -2, 0.5, -2.5, 3)
	case 2:
		return rng.NormFloat64() * 100
	case 3:
		return rng.NormFloat64() * 1e-3
	case 4:
		return pick(rng, 1e4, -1e4, 12345.678, 1e-7)
	default:
		return rng.NormFloat64()
	}
}

func genVec(rng *rand.Rand, dim int, mild bool) V {
	v := V{genCoord(rng, mild), genCoord(rng, mild), genCoord(rng, mild)}
	if dim == 2 {
		v[2] = 0
	}
	return v
}

func genUnitAxis(rng *rand.Rand) V {
	switch rng.Intn(8) {
	case 0:
		return [...]V{{1, 0, 0}, {0, 1, 0}, {0, 0, 1}, {-1, 0, 0}, {0, -1, 0}, {0, 0, -1}}[rng.Intn(6)]
	case 1: // ties between components (OrthoBasis branches)
		cands := []V{{1, 1, 0}, {1, 0, 1}, {0, 1, 1}, {1, 1, 1}, {-1, 1, 0}, {1, -1, 1}, {1, 1, -1}, {-1, -1, -1}, {2, 2, 1}, {1, 2, 2}}
		return cands[rng.Intn(len(cands))].unit()
	case 2: // nearly axis aligned
		v := V{rng.NormFloat64() * 1e-8, rng.NormFloat64() * 1e-8, rng.NormFloat64() * 1e-8}
		v[rng.Intn(3)] = pick(rng, 1, -1)
		return v.unit()
	default:
		for {
			v := V{rng.NormFloat64(), rng.NormFloat64(), rng.NormFloat64()}
			if v.norm() > 1e-3 {
				return v.unit()
			}
		}
	}
}

func genTheta(rng *rand.Rand) float64 {
	switch rng.Intn(5) {
	case 0:
		return pick(rng, 0, math.Pi/2, math.Pi, -math.Pi/2, 2*math.Pi, math.Pi/4, -math.Pi, math.Pi/3)
	case 1:
		return pick(rng, 1e-9, -1e-9, 100, -57.3, 1e-3)
	default:
		return (rng.Float64()*2 - 1) * math.Pi
	}
}

func genMatrix(rng *rand.Rand, dim int, cond float64, mild bool) mat {
	for tries := 0; ; tries++ {
		var m mat
		n := dim
		fill := func(f func(i, j int) float64) {
			m = mat{}
			for i := 0; i < 3; i++ {
				for j := 0; j < 3; j++ {
					if i < n && j < n {
						m[3*i+j] = f(i, j)
					} else if i == j {
						m[3*i+j] = 1
					}
				}
			}
		}
		switch rng.Intn(7) {
		case 0: // rotation * diag * rotation with prescribed singular values
			rot := func() mat {
				if dim == 2 {
					return rodrigues(V{0, 0, 1}, genTheta(rng))
				}
				return rodrigues(genUnitAxis(rng), genTheta(rng))
			}
			base := genScalePos(rng, true)
			spread := math.Exp(rng.Float64() * math.Log(math.Min(cond/4, 1e4)))
			if mild {
				spread = math.Exp(rng.Float64() * math.Log(8))
			}
			d := identity()
			for i := 0; i < n; i++ {
				s := base * math.Exp(rng.Float64()*math.Log(spread))
				if rng.Intn(4) == 0 {
					s = -s
				}
				d[4*i] = s
			}
			m = rot().mulMat(d).mulMat(rot())
		case 1: // diagonal
			fill(func(i, j int) float64 {
				if i != j {
					return 0
				}
				s := genScalePos(rng, true)
				if rng.Intn(3) == 0 {
					s = -s
				}
				return s
			})
		case 2: // shear
			fill(func(i, j int) float64 {
				if i == j {
					return 1
				}
				return 0
			})
			i, j := rng.Intn(n), rng.Intn(n)
			if i != j {
				m[3*i+j] = pick(rng, 1, -1, 0.5, 2, 3, 1e-3, 10)
			}
		case 3: // signed permutation
			perm := rng.Perm(n)
			fill(func(i, j int) float64 {
				if perm[i] == j {
					return pick(rng, 1, -1)
				}
				return 0
			})
		case 4: // small integers
			fill(func(i, j int) float64 { return float64(rng.Intn(7) - 3) })
		default: // gaussian
			fill(func(i, j int) float64 { return rng.NormFloat64() })
		}
		mi, ok := m.inverse()
		if !ok {
			continue
		}
		c := m.frob() * mi.frob()
		lim := cond
		if mild {
			lim = 30
		}
		if c <= lim && m.frob() < 1e4 && mi.frob() < 1e4 {
			return m
		}
		if tries > 200 {
			return identity()
		}
	}
}

func genLeaf(rng *rand.Rand, o genOpts, kind string) *spec {
	switch kind {
	case "translate":
		return &spec{Kind: kind, Off: genVec(rng, o.dim, o.mild)}
	case "scale":
		return &spec{Kind: kind, S: genScalePos(rng, o.mild)}
	case "vecscale":
		vs := V{1, 1, 1}
		for i := 0; i < o.dim; i++ {
			vs[i] = genScalePos(rng, o.mild)
			if rng.Intn(3) == 0 {
				vs[i] = -vs[i]
			}
		}
		return &spec{Kind: kind, VS: vs}
	case "matrix":
		return &spec{Kind: kind, M: genMatrix(rng, o.dim, o.cond, o.mild)}
	case "rotation":
		ax := V{0, 0, 1}
		if o.dim == 3 {
			ax = genUnitAxis(rng)
		}
		return &spec{Kind: kind, Axis: ax, Theta: genTheta(rng)}
	case "squeeze":
		lo, hi := genRange(rng, o.mild)
		return &spec{Kind: kind, Ax: rng.Intn(3), Lo: lo, Hi: hi,
			Ratio: pick(rng, 0.1, 0.5, 2, 1, 0.01, 0.25, 10, math.Exp((rng.Float64()*2-1)*3))}
	case "pinch":
		lo, hi := genRange(rng, o.mild)
		return &spec{Kind: kind, Ax: rng.Intn(3), Lo: lo, Hi: hi,
			Power: pick(rng, 0.25, 4, 0.5, 2, 1, 3, 1.0/3, math.Exp((rng.Float64()*2-1)*1.6))}
	case "smart":
		return genSmart(rng, o)
	}
	panic("harness: genLeaf " + kind)
}

func genRange(rng *rand.Rand, mild bool) (float64, float64) {
	lo := genCoord(rng, mild)
	w := pick(rng, 1, 2, 0.5, 0.1, 3, 10, math.Abs(rng.NormFloat64())+0.01)
	return lo, lo + w
}

// genSmart builds a SmartSqueeze whose pinch ranges are pairwise disjoint
// (so that the order of the pinches cannot matter); unsqueezable ranges may
// overlap each other and the pinch ranges.
func genSmart(rng *rand.Rand, o genOpts) *spec {
	var bmin, bmax V
	for i := 0; i < 3; i++ {
		lo, hi := genRange(rng, true)
		if rng.Intn(3) == 0 {
			lo, hi = math.Round(lo), math.Round(lo)+float64(1+rng.Intn(6))
		}
		bmin[i], bmax[i] = lo, hi
	}
	return genSmartFor(rng, bmin, bmax)
}

// genSmartFor builds a SmartSqueeze for a model with the given bounds.
func genSmartFor(rng *rand.Rand, bmin, bmax V) *spec {
	s := &spec{Kind: "smart", Ax: rng.Intn(3), BMin: bmin, BMax: bmax}
	lo, hi := s.BMin[s.Ax], s.BMax[s.Ax]
	w := hi - lo
	s.Ratio = pick(rng, 0.1, 0.5, 0.25, 0.05, 2, 1)
	s.Power = pick(rng, 0.25, 0.5, 2, 1, 0.3)
	s.PinchRange = w * pick(rng, 0.01, 0.03, 0.05)
	s.CtorRatio, s.CtorPower = s.Ratio, s.Power
	if rng.Intn(4) == 0 {
		s.UseCtor = true
		if rng.Intn(2) == 0 {
			s.CtorRatio, s.Ratio = 0, toolbox3d.DefaultSqueezeRatio
		}
		if rng.Intn(2) == 0 {
			s.CtorPower, s.Power = 0, toolbox3d.DefaultPinchPower
		}
	}
	nu := rng.Intn(4)
	for i := 0; i < nu; i++ {
		a := lo + (rng.Float64()*1.4-0.2)*w
		b := a + rng.Float64()*0.4*w + 1e-3*w
		s.Unsq = append(s.Unsq, [2]float64{a, b})
	}
	np := rng.Intn(4)
	for i := 0; i < np; i++ {
		for t := 0; t < 20; t++ {
			p := lo + (rng.Float64()*1.2-0.1)*w
			if rng.Intn(4) == 0 {
				p = pick(rng, lo, hi)
			}
			ok := true
			for _, q := range s.Pinches {
				if math.Abs(p-q) <= 2.5*s.PinchRange {
					ok = false
				}
			}
			if ok {
				s.Pinches = append(s.Pinches, p)
				break
			}
		}
	}
	rng.Shuffle(len(s.Unsq), func(i, j int) { s.Unsq[i], s.Unsq[j] = s.Unsq[j], s.Unsq[i] })
	return s
}

func genSpec(rng *rand.Rand, o genOpts) *spec {
	kinds := []string{"translate", "scale", "rotation"}
	if !o.distOnly {
		kinds = append(kinds, "vecscale", "matrix")
		if o.toolbox && o.dim == 3 && !o.affine {
			kinds = append(kinds, "squeeze", "pinch", "smart")
		}
	}
	if o.depth > 0 && rng.Intn(4) == 0 {
		n := rng.Intn(6) // 0..5 parts
		j := &spec{Kind: "joined"}
		o2 := o
		o2.depth--
		for i := 0; i < n; i++ {
			j.Kids = append(j.Kids, genSpec(rng, o2))
		}
		return j
	}
	return genLeaf(rng, o, kinds[rng.Intn(len(kinds))])
}
