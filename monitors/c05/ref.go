package main

import (
	"math"
	"sort"
)

// ---------------------------------------------------------------------------
// Reference transforms: closed forms written from the documentation, used as
// the independent oracle and to derive conditioning (local Lipschitz bounds).

// acc accumulates conditioning information along one evaluation of a
// reference transform: F (G) bounds the product of the local Lipschitz
// constants of the stages (of their inverses), clamped below by one; K is the
// product of matrix condition numbers; M is the largest magnitude of any
// intermediate coordinate or constant.
type acc struct{ F, G, K, M float64 }

func newAcc() *acc { return &acc{F: 1, G: 1, K: 1} }

func (a *acc) see(v V) {
	if a == nil {
		return
	}
	if m := v.maxAbs(); m > a.M || math.IsNaN(m) {
		a.M = m
	}
}

func (a *acc) seeF(x float64) {
	if a == nil {
		return
	}
	if m := math.Abs(x); m > a.M {
		a.M = m
	}
}

func (a *acc) lip(f, g float64) {
	if a == nil {
		return
	}
	a.F *= math.Max(1, f)
	a.G *= math.Max(1, g)
}

type ref interface {
	fwd(x V, a *acc) V
	inv() ref
}

type rTranslate struct{ off V }

func (r rTranslate) fwd(x V, a *acc) V {
	a.see(x)
	a.see(r.off)
	y := x.add(r.off)
	a.see(y)
	return y
}
func (r rTranslate) inv() ref { return rTranslate{r.off.scale(-1)} }

type rVecScale struct{ vs V }

func (r rVecScale) fwd(x V, a *acc) V {
	a.see(x)
	y := x.mul(r.vs)
	a.see(y)
	ab := V{math.Abs(r.vs[0]), math.Abs(r.vs[1]), math.Abs(r.vs[2])}
	f := math.Max(ab[0], math.Max(ab[1], ab[2]))
	g := 1 / math.Min(ab[0], math.Min(ab[1], ab[2]))
	a.lip(f, g)
	return y
}
func (r rVecScale) inv() ref { return rVecScale{V{1 / r.vs[0], 1 / r.vs[1], 1 / r.vs[2]}} }

type rMatrix struct {
	m, mi mat
	f, g  float64 // Lipschitz bounds of m and mi
	k     float64 // condition bound (>= 1)
}

func (r rMatrix) fwd(x V, a *acc) V {
	a.see(x)
	y := r.m.apply(x)
	a.see(y)
	a.lip(r.f, r.g)
	if a != nil {
		a.K *= math.Max(1, r.k)
	}
	return y
}
func (r rMatrix) inv() ref { return rMatrix{m: r.mi, mi: r.m, f: r.g, g: r.f, k: r.k} }

type rJoined []ref

func (r rJoined) fwd(x V, a *acc) V {
	a.see(x)
	for _, t := range r {
		x = t.fwd(x, a)
	}
	return x
}
func (r rJoined) inv() ref {
	res := rJoined{}
	for i := len(r) - 1; i >= 0; i-- {
		res = append(res, r[i].inv())
	}
	return res
}

// rPW is a monotone piecewise-linear map of one coordinate with slope one
// outside [xs[0], xs[n]] and xs[0] fixed.
type rPW struct {
	ax     int
	xs, ys []float64
}

func (r rPW) fwd(x V, a *acc) V {
	a.see(x)
	u := x[r.ax]
	n := len(r.xs) - 1
	var y float64
	switch {
	case u <= r.xs[0]:
		y = r.ys[0] + (u - r.xs[0])
	case u >= r.xs[n]:
		y = r.ys[n] + (u - r.xs[n])
	default:
		i := sort.SearchFloat64s(r.xs, u) // first xs[i] >= u
		if i > 0 {
			i--
		}
		w := (r.ys[i+1] - r.ys[i]) / (r.xs[i+1] - r.xs[i])
		y = r.ys[i] + (u-r.xs[i])*w
	}
	f, g := 1.0, 1.0
	for i := 0; i < n; i++ {
		a.seeF(r.xs[i])
		a.seeF(r.ys[i])
		w := (r.ys[i+1] - r.ys[i]) / (r.xs[i+1] - r.xs[i])
		f = math.Max(f, w)
		g = math.Max(g, 1/w)
	}
	a.seeF(r.xs[n])
	a.seeF(r.ys[n])
	a.lip(f, g)
	x[r.ax] = y
	a.see(x)
	return x
}
func (r rPW) inv() ref { return rPW{ax: r.ax, xs: r.ys, ys: r.xs} }

type rPinch struct {
	ax     int
	lo, hi float64
	pow    float64
}

func (r rPinch) fwd(x V, a *acc) V {
	a.see(x)
	a.seeF(r.lo)
	a.seeF(r.hi)
	u := x[r.ax]
	if u < r.lo || u > r.hi {
		return x
	}
	c := (r.lo + r.hi) / 2
	h := (r.hi - r.lo) / 2
	t := (u - c) / h
	neg := t < 0
	if neg {
		t = -t
	}
	// local derivative pow * t^(pow-1); at t = 0 this is 0 or +Inf, which makes
	// the point ill-conditioned for one of the two round trips.
	d := r.pow * math.Pow(t, r.pow-1)
	if r.pow == 1 {
		d = 1
	}
	a.lip(d, 1/d)
	t = math.Pow(t, r.pow)
	if neg {
		t = -t
	}
	x[r.ax] = t*h + c
	a.see(x)
	return x
}
func (r rPinch) inv() ref { return rPinch{ax: r.ax, lo: r.lo, hi: r.hi, pow: 1 / r.pow} }

// lin is the linear part of an affine reference transform applied to d.
func lin(r ref, d V) V { return r.fwd(d, nil).sub(r.fwd(V{}, nil)) }

// interval arithmetic on the axis for the SmartSqueeze reference
type ival struct{ lo, hi float64 }

// smartPW builds the documented squeeze map of a SmartSqueeze: within
// [lo, hi] every stretch that is neither unsqueezable nor inside a pinch range
// is scaled by ratio, everything else keeps slope one.
func smartPW(ax int, lo, hi, ratio float64, blocked []ival) rPW {
	if !(lo < hi) {
		return rPW{ax: ax, xs: []float64{lo}, ys: []float64{lo}}
	}
	pts := []float64{lo, hi}
	for _, b := range blocked {
		for _, e := range []float64{b.lo, b.hi} {
			if e > lo && e < hi {
				pts = append(pts, e)
			}
		}
	}
	sort.Float64s(pts)
	xs := pts[:1]
	for _, p := range pts[1:] {
		if p != xs[len(xs)-1] {
			xs = append(xs, p)
		}
	}
	ys := make([]float64, len(xs))
	ys[0] = xs[0]
	for i := 0; i+1 < len(xs); i++ {
		mid := (xs[i] + xs[i+1]) / 2
		w := ratio
		for _, b := range blocked {
			if mid >= b.lo && mid < b.hi {
				w = 1
				break
			}
		}
		ys[i+1] = ys[i] + (xs[i+1]-xs[i])*w
	}
	return rPW{ax: ax, xs: xs, ys: ys}
}
