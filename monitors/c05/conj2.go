package main

import (
	"fmt"
	"math"
	"math/rand"

	"github.com/unixpickle/model3d/model2d"
)

// ---------------------------------------------------------------------------
// adapters 2D

type solid2 struct{ s model2d.Solid }

func (a solid2) lo() V             { return from2(a.s.Min()) }
func (a solid2) hi() V             { return from2(a.s.Max()) }
func (a solid2) contains(p V) bool { return a.s.Contains(to2(p)) }

type sdf2 struct{ s model2d.SDF }

func (a sdf2) lo() V           { return from2(a.s.Min()) }
func (a sdf2) hi() V           { return from2(a.s.Max()) }
func (a sdf2) sdf(p V) float64 { return a.s.SDF(to2(p)) }

type collider2 struct{ c model2d.Collider }

func (a collider2) lo() V { return from2(a.c.Min()) }
func (a collider2) hi() V { return from2(a.c.Max()) }
func (a collider2) rays(o, d V, cb bool) (int, []hit) {
	var hs []hit
	ray := &model2d.Ray{Origin: to2(o), Direction: to2(d)}
	if !cb {
		return a.c.RayCollisions(ray, nil), nil
	}
	n := a.c.RayCollisions(ray, func(rc model2d.RayCollision) {
		hs = append(hs, hit{s: rc.Scale, n: from2(rc.Normal)})
	})
	return n, hs
}
func (a collider2) first(o, d V) (hit, bool) {
	rc, ok := a.c.FirstRayCollision(&model2d.Ray{Origin: to2(o), Direction: to2(d)})
	return hit{s: rc.Scale, n: from2(rc.Normal)}, ok
}
func (a collider2) ball(c V, r float64) bool { return a.c.CircleCollision(to2(c), r) }

type meta2 struct{ m model2d.Metaball }

func (a meta2) lo() V                   { return from2(a.m.Min()) }
func (a meta2) hi() V                   { return from2(a.m.Max()) }
func (a meta2) field(p V) float64       { return a.m.MetaballField(to2(p)) }
func (a meta2) bound(d float64) float64 { return a.m.MetaballDistBound(d) }

// ---------------------------------------------------------------------------
// spies 2D

type spy2 struct{ *spyCore }

func (s spy2) Min() model2d.Coord { return to2(s.min) }
func (s spy2) Max() model2d.Coord { return to2(s.max) }

type spySolid2 struct{ spy2 }

func (s spySolid2) Contains(c model2d.Coord) bool {
	s.calls++
	s.pt = from2(c)
	return s.retB
}

type spySDF2 struct{ spy2 }

func (s spySDF2) SDF(c model2d.Coord) float64 {
	s.calls++
	s.pt = from2(c)
	return s.retVal
}

type spyCollider2 struct{ spy2 }

func (s spyCollider2) RayCollisions(r *model2d.Ray, f func(model2d.RayCollision)) int {
	s.calls++
	s.pt, s.dir = from2(r.Origin), from2(r.Direction)
	s.nilCb = f == nil
	if f != nil {
		for i, h := range s.hits {
			f(model2d.RayCollision{Scale: h.s, Normal: to2(h.n), Extra: spyMarker{i}})
		}
	}
	return len(s.hits)
}

func (s spyCollider2) FirstRayCollision(r *model2d.Ray) (model2d.RayCollision, bool) {
	s.calls++
	s.pt, s.dir = from2(r.Origin), from2(r.Direction)
	if len(s.hits) == 0 {
		return model2d.RayCollision{}, false
	}
	h := s.hits[0]
	return model2d.RayCollision{Scale: h.s, Normal: to2(h.n), Extra: spyMarker{0}}, true
}

func (s spyCollider2) CircleCollision(c model2d.Coord, r float64) bool {
	s.calls++
	s.pt, s.rad = from2(c), r
	return s.retB
}

type spyMeta2 struct{ spy2 }

func (s spyMeta2) MetaballField(c model2d.Coord) float64 {
	s.calls++
	s.pt = from2(c)
	return spyField(s.spyCore, s.pt)
}

func (s spyMeta2) MetaballDistBound(d float64) float64 {
	s.rad = d
	return d + d*d
}

// ---------------------------------------------------------------------------
// object catalogue 2D

type prim2 struct {
	kind string
	obj  interface {
		model2d.Solid
		model2d.SDF
		model2d.Collider
		model2d.Metaball
	}
	dist func(V) float64
	box  bool
	lo   V
	hi   V
	desc string
}

func genPrim2(rng *rand.Rand) prim2 {
	p := genPrim2Raw(rng, 0)
	if p.desc == "" {
		p.desc = fmt.Sprintf("%s%+v", p.kind, p.obj)
	}
	return p
}

// minAngle of a triangle in radians.
func minAngle(a, b, c V) float64 {
	ang := func(p, q, r V) float64 {
		u, v := q.sub(p).unit(), r.sub(p).unit()
		return math.Acos(math.Max(-1, math.Min(1, u.dot(v))))
	}
	return math.Min(ang(a, b, c), math.Min(ang(b, c, a), ang(c, a, b)))
}

func genPrim2Raw(rng *rand.Rand, minTriAngle float64) prim2 {
	ctr := genVec(rng, 2, true)
	switch rng.Intn(4) {
	case 0:
		rad := pick(rng, 1, 0.5, 2, 0.3+rng.Float64())
		return prim2{kind: "Circle", obj: &model2d.Circle{Center: to2(ctr), Radius: rad},
			dist: func(x V) float64 { return math.Max(0, x.dist(ctr)-rad) }}
	case 1:
		lo, hi := genBox(rng, 2)
		return prim2{kind: "Rect", obj: model2d.NewRect(to2(lo), to2(hi)), box: true, lo: lo, hi: hi,
			dist: func(x V) float64 { return boxDist(x, lo, hi) }}
	case 2:
		p2 := ctr.add(randDir(rng, 2).scale(pick(rng, 1, 2, 0.5+rng.Float64())))
		rad := pick(rng, 0.5, 1, 0.2+rng.Float64())
		return prim2{kind: "Capsule", obj: &model2d.Capsule{P1: to2(ctr), P2: to2(p2), Radius: rad},
			dist: func(x V) float64 { return math.Max(0, segDist(x, ctr, p2)-rad) }}
	default:
		// a triangle that is comfortably non-degenerate
		for {
			a := ctr
			b := ctr.add(randDir(rng, 2).scale(1 + rng.Float64()))
			cc := ctr.add(randDir(rng, 2).scale(1 + rng.Float64()))
			area := math.Abs(b.sub(a).cross(cc.sub(a))[2]) / 2
			if area > 0.2 && minAngle(a, b, cc) >= minTriAngle {
				return prim2{kind: "Triangle", obj: model2d.NewTriangle(to2(a), to2(b), to2(cc)),
					desc: fmt.Sprintf("Triangle%v%v%v", a, b, cc)}
			}
		}
	}
}

func genMesh2(rng *rand.Rand) (*model2d.Mesh, string) {
	switch rng.Intn(2) {
	case 0:
		lo, hi := genBox(rng, 2)
		return model2d.NewMeshRect(to2(lo), to2(hi)), "MeshRect"
	default:
		k := float64(2 + rng.Intn(4))
		amp := 0.1 + 0.3*rng.Float64()
		base := 1 + rng.Float64()
		m := model2d.NewMeshPolar(func(theta float64) float64 { return base * (1 + amp*math.Cos(k*theta)) }, 12+rng.Intn(30))
		off := genVec(rng, 2, true)
		return m.Translate(to2(off)), "MeshPolar"
	}
}

func wrapSolid2(obj model2d.Solid) func(s *spec, helper bool) (solidH, string) {
	return func(s *spec, helper bool) (solidH, string) {
		if helper {
			switch s.Kind {
			case "translate":
				return solid2{model2d.TranslateSolid(obj, to2(s.Off))}, "model2d.TranslateSolid"
			case "scale":
				return solid2{model2d.ScaleSolid(obj, s.S)}, "model2d.ScaleSolid"
			case "vecscale":
				return solid2{model2d.VecScaleSolid(obj, to2(s.VS))}, "model2d.VecScaleSolid"
			case "rotation":
				return solid2{model2d.RotateSolid(obj, s.Theta)}, "model2d.RotateSolid"
			}
		}
		return solid2{model2d.TransformSolid(s.lib2(), obj)}, "model2d.TransformSolid"
	}
}

func genSolid2(rng *rand.Rand) solidBundle {
	if rng.Intn(3) == 0 {
		lo, hi := genBox(rng, 2)
		core := &spyCore{min: lo, max: hi}
		sp := spySolid2{spy2{core}}
		return solidBundle{kind: "spy", orig: solid2{sp}, wrap: wrapSolid2(sp), spy: core}
	}
	if rng.Intn(5) == 0 {
		a, b := genPrim2(rng), genPrim2(rng)
		j := model2d.JoinedSolid{a.obj, b.obj}
		return solidBundle{kind: "Joined(" + a.kind + "," + b.kind + ")", desc: "Joined(" + a.desc + ", " + b.desc + ")", orig: solid2{j}, wrap: wrapSolid2(j)}
	}
	p := genPrim2(rng)
	return solidBundle{kind: p.kind, desc: p.desc, orig: solid2{p.obj}, wrap: wrapSolid2(p.obj)}
}

func wrapSDF2(obj model2d.SDF) func(s *spec) (sdfH, string) {
	return func(s *spec) (sdfH, string) {
		return sdf2{model2d.TransformSDF(s.lib2().(model2d.DistTransform), obj)}, "model2d.TransformSDF"
	}
}

func genSDF2(rng *rand.Rand) sdfBundle {
	switch rng.Intn(5) {
	case 0:
		lo, hi := genBox(rng, 2)
		core := &spyCore{min: lo, max: hi}
		sp := spySDF2{spy2{core}}
		return sdfBundle{kind: "spy", orig: sdf2{sp}, wrap: wrapSDF2(sp), spy: core}
	case 1:
		m, kind := genMesh2(rng)
		sd := model2d.MeshToSDF(m)
		return sdfBundle{kind: kind, orig: sdf2{sd}, wrap: wrapSDF2(sd), mesh: true}
	}
	p := genPrim2(rng)
	return sdfBundle{kind: p.kind, desc: p.desc, orig: sdf2{p.obj}, wrap: wrapSDF2(p.obj)}
}

func wrapCollider2(obj model2d.Collider) func(s *spec) (colliderH, string) {
	return func(s *spec) (colliderH, string) {
		return collider2{model2d.TransformCollider(s.lib2().(model2d.DistTransform), obj)}, "model2d.TransformCollider"
	}
}

func genCollider2(rng *rand.Rand) colliderBundle {
	switch rng.Intn(8) {
	case 0, 1, 2:
		lo, hi := genBox(rng, 2)
		core := &spyCore{min: lo, max: hi}
		sp := spyCollider2{spy2{core}}
		return colliderBundle{kind: "spy", orig: collider2{sp}, wrap: wrapCollider2(sp), spy: core}
	case 3:
		m, kind := genMesh2(rng)
		col := model2d.MeshToCollider(m)
		return colliderBundle{kind: kind, orig: collider2{col}, wrap: wrapCollider2(col)}
	case 4:
		a, b := genPrim2(rng), genPrim2(rng)
		j := model2d.NewJoinedCollider([]model2d.Collider{a.obj, b.obj})
		return colliderBundle{kind: "Joined(" + a.kind + "," + b.kind + ")", desc: "Joined(" + a.desc + ", " + b.desc + ")", orig: collider2{j}, wrap: wrapCollider2(j)}
	case 5:
		ctr := genVec(rng, 2, true)
		seg := &model2d.Segment{to2(ctr), to2(ctr.add(randDir(rng, 2).scale(1 + rng.Float64())))}
		return colliderBundle{kind: "Segment", orig: collider2{seg}, wrap: wrapCollider2(seg)}
	}
	p := genPrim2(rng)
	return colliderBundle{kind: p.kind, desc: p.desc, orig: collider2{p.obj}, wrap: wrapCollider2(p.obj)}
}

func wrapMeta2(obj model2d.Metaball) func(s *spec, helper bool) (metaH, string) {
	return func(s *spec, helper bool) (metaH, string) {
		if s.Kind == "vecscale" {
			return meta2{model2d.VecScaleMetaball(obj, to2(s.VS))}, "model2d.VecScaleMetaball"
		}
		if helper {
			switch s.Kind {
			case "translate":
				return meta2{model2d.TranslateMetaball(obj, to2(s.Off))}, "model2d.TranslateMetaball"
			case "scale":
				return meta2{model2d.ScaleMetaball(obj, s.S)}, "model2d.ScaleMetaball"
			case "rotation":
				return meta2{model2d.RotateMetaball(obj, s.Theta)}, "model2d.RotateMetaball"
			}
		}
		return meta2{model2d.TransformMetaball(s.lib2().(model2d.DistTransform), obj)}, "model2d.TransformMetaball"
	}
}

func genMeta2(rng *rand.Rand) metaBundle {
	if rng.Intn(3) == 0 {
		lo, hi := genBox(rng, 2)
		core := &spyCore{min: lo, max: hi}
		sp := spyMeta2{spy2{core}}
		return metaBundle{kind: "spy", orig: meta2{sp}, wrap: wrapMeta2(sp), spy: core,
			isBox: true, bmin: lo, bmax: hi, dist: func(x V) float64 { return boxDist(x, lo, hi) }}
	}
	p := genPrim2(rng)
	if rng.Intn(6) == 0 {
		m := model2d.SDFToMetaball(p.obj)
		return metaBundle{kind: "SDFToMetaball(" + p.kind + ")", desc: "SDFToMetaball(" + p.desc + ")", orig: meta2{m}, wrap: wrapMeta2(m), dist: p.dist, isBox: p.box, bmin: p.lo, bmax: p.hi}
	}
	return metaBundle{kind: p.kind, desc: p.desc, orig: meta2{p.obj}, wrap: wrapMeta2(p.obj), dist: p.dist, isBox: p.box, bmin: p.lo, bmax: p.hi}
}
