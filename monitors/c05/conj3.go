package main

import (
	"fmt"
	"math"
	"math/rand"

	"github.com/unixpickle/model3d/model3d"
)

// ---------------------------------------------------------------------------
// adapters 3D

type solid3 struct{ s model3d.Solid }

func (a solid3) lo() V             { return from3(a.s.Min()) }
func (a solid3) hi() V             { return from3(a.s.Max()) }
func (a solid3) contains(p V) bool { return a.s.Contains(to3(p)) }

type sdf3 struct{ s model3d.SDF }

func (a sdf3) lo() V           { return from3(a.s.Min()) }
func (a sdf3) hi() V           { return from3(a.s.Max()) }
func (a sdf3) sdf(p V) float64 { return a.s.SDF(to3(p)) }

type collider3 struct{ c model3d.Collider }

func (a collider3) lo() V { return from3(a.c.Min()) }
func (a collider3) hi() V { return from3(a.c.Max()) }
func (a collider3) rays(o, d V, cb bool) (int, []hit) {
	var hs []hit
	ray := &model3d.Ray{Origin: to3(o), Direction: to3(d)}
	if !cb {
		return a.c.RayCollisions(ray, nil), nil
	}
	n := a.c.RayCollisions(ray, func(rc model3d.RayCollision) {
		hs = append(hs, hit{s: rc.Scale, n: from3(rc.Normal)})
	})
	return n, hs
}
func (a collider3) first(o, d V) (hit, bool) {
	rc, ok := a.c.FirstRayCollision(&model3d.Ray{Origin: to3(o), Direction: to3(d)})
	return hit{s: rc.Scale, n: from3(rc.Normal)}, ok
}
func (a collider3) ball(c V, r float64) bool { return a.c.SphereCollision(to3(c), r) }

type meta3 struct{ m model3d.Metaball }

func (a meta3) lo() V                   { return from3(a.m.Min()) }
func (a meta3) hi() V                   { return from3(a.m.Max()) }
func (a meta3) field(p V) float64       { return a.m.MetaballField(to3(p)) }
func (a meta3) bound(d float64) float64 { return a.m.MetaballDistBound(d) }

// ---------------------------------------------------------------------------
// spies 3D (implement the library interfaces)

type spy3 struct{ *spyCore }

func (s spy3) Min() model3d.Coord3D { return to3(s.min) }
func (s spy3) Max() model3d.Coord3D { return to3(s.max) }

type spySolid3 struct{ spy3 }

func (s spySolid3) Contains(c model3d.Coord3D) bool {
	s.calls++
	s.pt = from3(c)
	return s.retB
}

type spySDF3 struct{ spy3 }

func (s spySDF3) SDF(c model3d.Coord3D) float64 {
	s.calls++
	s.pt = from3(c)
	return s.retVal
}

type spyCollider3 struct{ spy3 }

type spyMarker struct{ i int }

func (s spyCollider3) RayCollisions(r *model3d.Ray, f func(model3d.RayCollision)) int {
	s.calls++
	s.pt, s.dir = from3(r.Origin), from3(r.Direction)
	s.nilCb = f == nil
	if f != nil {
		for i, h := range s.hits {
			f(model3d.RayCollision{Scale: h.s, Normal: to3(h.n), Extra: spyMarker{i}})
		}
	}
	return len(s.hits)
}

func (s spyCollider3) FirstRayCollision(r *model3d.Ray) (model3d.RayCollision, bool) {
	s.calls++
	s.pt, s.dir = from3(r.Origin), from3(r.Direction)
	if len(s.hits) == 0 {
		return model3d.RayCollision{}, false
	}
	h := s.hits[0]
	return model3d.RayCollision{Scale: h.s, Normal: to3(h.n), Extra: spyMarker{0}}, true
}

func (s spyCollider3) SphereCollision(c model3d.Coord3D, r float64) bool {
	s.calls++
	s.pt, s.rad = from3(c), r
	return s.retB
}

// spyMeta3 is a box-shaped metaball with a non-linear field d + d^2 outside
// (signed depth inside) and the matching distance bound.
type spyMeta3 struct{ spy3 }

func spyField(core *spyCore, x V) float64 {
	d := boxDist(x, core.min, core.max)
	if d > 0 {
		return d + d*d
	}
	depth := math.Inf(1)
	for i := 0; i < 3; i++ {
		if core.max[i] == core.min[i] {
			continue // flat axis of a 2D object
		}
		depth = math.Min(depth, math.Min(x[i]-core.min[i], core.max[i]-x[i]))
	}
	return -depth
}

func (s spyMeta3) MetaballField(c model3d.Coord3D) float64 {
	s.calls++
	s.pt = from3(c)
	return spyField(s.spyCore, s.pt)
}

func (s spyMeta3) MetaballDistBound(d float64) float64 {
	s.rad = d
	return d + d*d
}

// ---------------------------------------------------------------------------
// object catalogue 3D

func genBox(rng *rand.Rand, dim int) (V, V) {
	var lo, hi V
	for i := 0; i < dim; i++ {
		lo[i] = genCoord(rng, true)
		hi[i] = lo[i] + pick(rng, 1, 2, 0.5, 3, 0.25+rng.Float64()*2)
	}
	return lo, hi
}

type prim3 struct {
	kind string
	obj  interface {
		model3d.Solid
		model3d.SDF
		model3d.Collider
		model3d.Metaball
	}
	dist func(V) float64 // closed-form distance to the surface from outside (harness), may be nil
	box  bool
	lo   V
	hi   V
	desc string
}

func segDist(x, a, b V) float64 {
	ab := b.sub(a)
	t := x.sub(a).dot(ab) / ab.dot(ab)
	t = math.Max(0, math.Min(1, t))
	return x.dist(a.add(ab.scale(t)))
}

func genPrim3(rng *rand.Rand) prim3 {
	p := genPrim3Raw(rng)
	p.desc = fmt.Sprintf("%s%+v", p.kind, p.obj)
	return p
}

func genPrim3Raw(rng *rand.Rand) prim3 {
	ctr := genVec(rng, 3, true)
	switch rng.Intn(6) {
	case 0:
		rad := pick(rng, 1, 0.5, 2, 0.3+rng.Float64())
		return prim3{kind: "Sphere", obj: &model3d.Sphere{Center: to3(ctr), Radius: rad},
			dist: func(x V) float64 { return math.Max(0, x.dist(ctr)-rad) }}
	case 1:
		lo, hi := genBox(rng, 3)
		return prim3{kind: "Rect", obj: model3d.NewRect(to3(lo), to3(hi)), box: true, lo: lo, hi: hi,
			dist: func(x V) float64 { return boxDist(x, lo, hi) }}
	case 2:
		p2 := ctr.add(randDir(rng, 3).scale(pick(rng, 1, 2, 0.5+rng.Float64())))
		rad := pick(rng, 0.5, 1, 0.2+rng.Float64())
		return prim3{kind: "Capsule", obj: &model3d.Capsule{P1: to3(ctr), P2: to3(p2), Radius: rad},
			dist: func(x V) float64 { return math.Max(0, segDist(x, ctr, p2)-rad) }}
	case 3:
		dir := randDir(rng, 3)
		if rng.Intn(3) == 0 {
			dir = V{0, 0, 1}
		}
		p2 := ctr.add(dir.scale(pick(rng, 1, 2, 0.5+rng.Float64())))
		return prim3{kind: "Cylinder", obj: &model3d.Cylinder{P1: to3(ctr), P2: to3(p2), Radius: pick(rng, 0.5, 1, 0.2+rng.Float64())}}
	case 4:
		dir := randDir(rng, 3)
		if rng.Intn(3) == 0 {
			dir = V{0, 0, 1}
		}
		tip := ctr.add(dir.scale(pick(rng, 1, 2, 0.5+rng.Float64())))
		return prim3{kind: "Cone", obj: &model3d.Cone{Tip: to3(tip), Base: to3(ctr), Radius: pick(rng, 0.5, 1, 0.2+rng.Float64())}}
	default:
		outer := pick(rng, 1, 2, 0.8+rng.Float64())
		inner := outer * pick(rng, 0.2, 0.5, 0.1+0.7*rng.Float64())
		return prim3{kind: "Torus", obj: &model3d.Torus{Center: to3(ctr), Axis: to3(genUnitAxis(rng)), OuterRadius: outer, InnerRadius: inner}}
	}
}

func genMesh3(rng *rand.Rand) (*model3d.Mesh, string) {
	ctr := genVec(rng, 3, true)
	switch rng.Intn(3) {
	case 0:
		lo, hi := genBox(rng, 3)
		return model3d.NewMeshRect(to3(lo), to3(hi)), "MeshRect"
	case 1:
		return model3d.NewMeshIcosphere(to3(ctr), pick(rng, 1, 0.5, 1.7), 1+rng.Intn(2)), "MeshIcosphere"
	default:
		p2 := ctr.add(randDir(rng, 3).scale(1 + rng.Float64()))
		return model3d.NewMeshCylinder(to3(ctr), to3(p2), 0.3+rng.Float64(), 5+rng.Intn(8)), "MeshCylinder"
	}
}

func wrapSolid3(obj model3d.Solid) func(s *spec, helper bool) (solidH, string) {
	return func(s *spec, helper bool) (solidH, string) {
		if helper {
			switch s.Kind {
			case "translate":
				return solid3{model3d.TranslateSolid(obj, to3(s.Off))}, "model3d.TranslateSolid"
			case "scale":
				return solid3{model3d.ScaleSolid(obj, s.S)}, "model3d.ScaleSolid"
			case "vecscale":
				return solid3{model3d.VecScaleSolid(obj, to3(s.VS))}, "model3d.VecScaleSolid"
			case "rotation":
				return solid3{model3d.RotateSolid(obj, to3(s.Axis), s.Theta)}, "model3d.RotateSolid"
			}
		}
		return solid3{model3d.TransformSolid(s.lib3(), obj)}, "model3d.TransformSolid"
	}
}

func genSolid3(rng *rand.Rand) solidBundle {
	if rng.Intn(3) == 0 {
		lo, hi := genBox(rng, 3)
		core := &spyCore{min: lo, max: hi}
		sp := spySolid3{spy3{core}}
		return solidBundle{kind: "spy", orig: solid3{sp}, wrap: wrapSolid3(sp), spy: core}
	}
	if rng.Intn(5) == 0 {
		a, b := genPrim3(rng), genPrim3(rng)
		j := model3d.JoinedSolid{a.obj, b.obj}
		return solidBundle{kind: "Joined(" + a.kind + "," + b.kind + ")", desc: "Joined(" + a.desc + ", " + b.desc + ")", orig: solid3{j}, wrap: wrapSolid3(j)}
	}
	p := genPrim3(rng)
	return solidBundle{kind: p.kind, desc: p.desc, orig: solid3{p.obj}, wrap: wrapSolid3(p.obj)}
}

func wrapSDF3(obj model3d.SDF) func(s *spec) (sdfH, string) {
	return func(s *spec) (sdfH, string) {
		return sdf3{model3d.TransformSDF(s.lib3().(model3d.DistTransform), obj)}, "model3d.TransformSDF"
	}
}

func genSDF3(rng *rand.Rand) sdfBundle {
	switch rng.Intn(5) {
	case 0:
		lo, hi := genBox(rng, 3)
		core := &spyCore{min: lo, max: hi}
		sp := spySDF3{spy3{core}}
		return sdfBundle{kind: "spy", orig: sdf3{sp}, wrap: wrapSDF3(sp), spy: core}
	case 1:
		m, kind := genMesh3(rng)
		sd := model3d.MeshToSDF(m)
		return sdfBundle{kind: kind, orig: sdf3{sd}, wrap: wrapSDF3(sd), mesh: true}
	}
	p := genPrim3(rng)
	return sdfBundle{kind: p.kind, desc: p.desc, orig: sdf3{p.obj}, wrap: wrapSDF3(p.obj)}
}

func wrapCollider3(obj model3d.Collider) func(s *spec) (colliderH, string) {
	return func(s *spec) (colliderH, string) {
		return collider3{model3d.TransformCollider(s.lib3().(model3d.DistTransform), obj)}, "model3d.TransformCollider"
	}
}

func genCollider3(rng *rand.Rand) colliderBundle {
	switch rng.Intn(8) {
	case 0, 1, 2:
		lo, hi := genBox(rng, 3)
		core := &spyCore{min: lo, max: hi}
		sp := spyCollider3{spy3{core}}
		return colliderBundle{kind: "spy", orig: collider3{sp}, wrap: wrapCollider3(sp), spy: core}
	case 3:
		m, kind := genMesh3(rng)
		col := model3d.MeshToCollider(m)
		return colliderBundle{kind: kind, orig: collider3{col}, wrap: wrapCollider3(col)}
	case 4:
		a, b := genPrim3(rng), genPrim3(rng)
		j := model3d.NewJoinedCollider([]model3d.Collider{a.obj, b.obj})
		return colliderBundle{kind: "Joined(" + a.kind + "," + b.kind + ")", desc: "Joined(" + a.desc + ", " + b.desc + ")", orig: collider3{j}, wrap: wrapCollider3(j)}
	case 5:
		ctr := genVec(rng, 3, true)
		tri := &model3d.Triangle{to3(ctr), to3(ctr.add(randDir(rng, 3).scale(1 + rng.Float64()))), to3(ctr.add(randDir(rng, 3).scale(1 + rng.Float64())))}
		return colliderBundle{kind: "Triangle", orig: collider3{tri}, wrap: wrapCollider3(tri)}
	}
	p := genPrim3(rng)
	return colliderBundle{kind: p.kind, desc: p.desc, orig: collider3{p.obj}, wrap: wrapCollider3(p.obj)}
}

func wrapMeta3(obj model3d.Metaball) func(s *spec, helper bool) (metaH, string) {
	return func(s *spec, helper bool) (metaH, string) {
		if s.Kind == "vecscale" {
			return meta3{model3d.VecScaleMetaball(obj, to3(s.VS))}, "model3d.VecScaleMetaball"
		}
		if helper {
			switch s.Kind {
			case "translate":
				return meta3{model3d.TranslateMetaball(obj, to3(s.Off))}, "model3d.TranslateMetaball"
			case "scale":
				return meta3{model3d.ScaleMetaball(obj, s.S)}, "model3d.ScaleMetaball"
			case "rotation":
				return meta3{model3d.RotateMetaball(obj, to3(s.Axis), s.Theta)}, "model3d.RotateMetaball"
			}
		}
		return meta3{model3d.TransformMetaball(s.lib3().(model3d.DistTransform), obj)}, "model3d.TransformMetaball"
	}
}

func genMeta3(rng *rand.Rand) metaBundle {
	if rng.Intn(3) == 0 {
		lo, hi := genBox(rng, 3)
		core := &spyCore{min: lo, max: hi}
		sp := spyMeta3{spy3{core}}
		return metaBundle{kind: "spy", orig: meta3{sp}, wrap: wrapMeta3(sp), spy: core,
			isBox: true, bmin: lo, bmax: hi, dist: func(x V) float64 { return boxDist(x, lo, hi) }}
	}
	p := genPrim3(rng)
	if rng.Intn(6) == 0 {
		m := model3d.SDFToMetaball(p.obj)
		return metaBundle{kind: "SDFToMetaball(" + p.kind + ")", desc: "SDFToMetaball(" + p.desc + ")", orig: meta3{m}, wrap: wrapMeta3(m), dist: p.dist, isBox: p.box, bmin: p.lo, bmax: p.hi}
	}
	return metaBundle{kind: p.kind, desc: p.desc, orig: meta3{p.obj}, wrap: wrapMeta3(p.obj), dist: p.dist, isBox: p.box, bmin: p.lo, bmax: p.hi}
}
