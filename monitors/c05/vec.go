package main

import (
	"fmt"
	"math"

	"github.com/unixpickle/model3d/model2d"
	"github.com/unixpickle/model3d/model3d"
	"verif/vlib"
)

// V is the harness's own vector type. 2D objects live in the z = 0 plane.
// Nothing in this file calls the library.
type V [3]float64

func (a V) add(b V) V         { return V{a[0] + b[0], a[1] + b[1], a[2] + b[2]} }
func (a V) sub(b V) V         { return V{a[0] - b[0], a[1] - b[1], a[2] - b[2]} }
func (a V) scale(s float64) V { return V{a[0] * s, a[1] * s, a[2] * s} }
func (a V) mul(b V) V         { return V{a[0] * b[0], a[1] * b[1], a[2] * b[2]} }
func (a V) dot(b V) float64   { return a[0]*b[0] + a[1]*b[1] + a[2]*b[2] }
func (a V) norm() float64     { return math.Sqrt(a.dot(a)) }
func (a V) dist(b V) float64  { return a.sub(b).norm() }
func (a V) cross(b V) V {
	return V{a[1]*b[2] - a[2]*b[1], a[2]*b[0] - a[0]*b[2], a[0]*b[1] - a[1]*b[0]}
}
func (a V) unit() V { return a.scale(1 / a.norm()) }
func (a V) maxAbs() float64 {
	return math.Max(math.Abs(a[0]), math.Max(math.Abs(a[1]), math.Abs(a[2])))
}
func (a V) min(b V) V {
	return V{math.Min(a[0], b[0]), math.Min(a[1], b[1]), math.Min(a[2], b[2])}
}
func (a V) max(b V) V {
	return V{math.Max(a[0], b[0]), math.Max(a[1], b[1]), math.Max(a[2], b[2])}
}
func (a V) finite() bool {
	s := a[0] + a[1] + a[2]
	return !math.IsNaN(s) && !math.IsInf(s, 0)
}
func (a V) hex() string {
	return fmt.Sprintf("(%s, %s, %s)", vlib.Hex(a[0]), vlib.Hex(a[1]), vlib.Hex(a[2]))
}
func (a V) String() string { return fmt.Sprintf("(%.17g, %.17g, %.17g)", a[0], a[1], a[2]) }

func to3(a V) model3d.Coord3D   { return model3d.XYZ(a[0], a[1], a[2]) }
func from3(c model3d.Coord3D) V { return V{c.X, c.Y, c.Z} }
func to2(a V) model2d.Coord     { return model2d.XY(a[0], a[1]) }
func from2(c model2d.Coord) V   { return V{c.X, c.Y, 0} }

// mat is a row-major 3x3 matrix (2D matrices are embedded with m[8] = 1).
type mat [9]float64

func (m mat) apply(v V) V {
	return V{
		m[0]*v[0] + m[1]*v[1] + m[2]*v[2],
		m[3]*v[0] + m[4]*v[1] + m[5]*v[2],
		m[6]*v[0] + m[7]*v[1] + m[8]*v[2],
	}
}

func (m mat) mulMat(n mat) mat {
	var r mat
	for i := 0; i < 3; i++ {
		for j := 0; j < 3; j++ {
			var s float64
			for k := 0; k < 3; k++ {
				s += m[3*i+k] * n[3*k+j]
			}
			r[3*i+j] = s
		}
	}
	return r
}

func (m mat) transpose() mat {
	return mat{m[0], m[3], m[6], m[1], m[4], m[7], m[2], m[5], m[8]}
}

func (m mat) frob() float64 {
	var s float64
	for _, x := range m {
		s += x * x
	}
	return math.Sqrt(s)
}

func (m mat) det() float64 {
	return m[0]*(m[4]*m[8]-m[5]*m[7]) - m[1]*(m[3]*m[8]-m[5]*m[6]) + m[2]*(m[3]*m[7]-m[4]*m[6])
}

func identity() mat { return mat{1, 0, 0, 0, 1, 0, 0, 0, 1} }

// inverse is the harness's own Gauss-Jordan inverse with partial pivoting
// (independent of Matrix3.Inverse, which uses the adjugate).
func (m mat) inverse() (mat, bool) {
	var a [3][6]float64
	for i := 0; i < 3; i++ {
		for j := 0; j < 3; j++ {
			a[i][j] = m[3*i+j]
		}
		a[i][3+i] = 1
	}
	for c := 0; c < 3; c++ {
		p := c
		for r := c + 1; r < 3; r++ {
			if math.Abs(a[r][c]) > math.Abs(a[p][c]) {
				p = r
			}
		}
		if a[p][c] == 0 {
			return mat{}, false
		}
		a[c], a[p] = a[p], a[c]
		piv := a[c][c]
		for j := 0; j < 6; j++ {
			a[c][j] /= piv
		}
		for r := 0; r < 3; r++ {
			if r == c {
				continue
			}
			f := a[r][c]
			if f == 0 {
				continue
			}
			for j := 0; j < 6; j++ {
				a[r][j] -= f * a[c][j]
			}
		}
	}
	var res mat
	for i := 0; i < 3; i++ {
		for j := 0; j < 3; j++ {
			res[3*i+j] = a[i][3+j]
		}
	}
	for _, x := range res {
		if math.IsNaN(x) || math.IsInf(x, 0) {
			return mat{}, false
		}
	}
	return res, true
}

// rodrigues is the right-handed rotation by theta around the unit axis k.
func rodrigues(k V, theta float64) mat {
	c, s := math.Cos(theta), math.Sin(theta)
	t := 1 - c
	x, y, z := k[0], k[1], k[2]
	return mat{
		c + x*x*t, x*y*t - z*s, x*z*t + y*s,
		y*x*t + z*s, c + y*y*t, y*z*t - x*s,
		z*x*t - y*s, z*y*t + x*s, c + z*z*t,
	}
}
