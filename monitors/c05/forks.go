package main

// Section "wrapper.forks": trees of wrapped objects. A wrapper (TransformSolid, TransformSDF,
// TransformCollider, Translate/Scale/RotateMetaball) may itself be wrapped again, and one object may
// be the parent of several different wrappers, each queried after the others were built. Every
// node is the image of the base shape under the composition of the maps on its path; the maps are
// kept to translations, uniform scales and rotations about z, whose inverses the harness writes
// down itself. Membership / field values are decided at points at least 1e-6 away from the image
// surface.

import (
	"fmt"
	"math"
	"math/rand"

	"github.com/unixpickle/model3d/model3d"
	"verif/vlib"
)

type forkMap struct {
	kind int // 0 translate, 1 scale, 2 rotate about z
	v    model3d.Coord3D
	s    float64
	ang  float64
}

func (m forkMap) inv(p model3d.Coord3D) model3d.Coord3D {
	switch m.kind {
	case 0:
		return p.Sub(m.v)
	case 1:
		return p.Scale(1 / m.s)
	default:
		c, s := math.Cos(-m.ang), math.Sin(-m.ang)
		return model3d.XYZ(c*p.X-s*p.Y, s*p.X+c*p.Y, p.Z)
	}
}

func (m forkMap) lib() model3d.DistTransform {
	switch m.kind {
	case 0:
		return &model3d.Translate{Offset: m.v}
	case 1:
		return &model3d.Scale{Scale: m.s}
	default:
		return model3d.Rotation(model3d.Z(1), m.ang)
	}
}

func (m forkMap) String() string {
	switch m.kind {
	case 0:
		return fmt.Sprintf("translate%v", m.v)
	case 1:
		return fmt.Sprintf("scale(%g)", m.s)
	default:
		return fmt.Sprintf("rotz(%g)", m.ang)
	}
}

func randForkMap(rng *rand.Rand) forkMap {
	switch rng.Intn(3) {
	case 0:
		return forkMap{kind: 0, v: model3d.XYZ(rng.NormFloat64(), rng.NormFloat64(), rng.NormFloat64())}
	case 1:
		return forkMap{kind: 1, s: 0.5 + 1.5*rng.Float64()}
	default:
		return forkMap{kind: 2, ang: rng.Float64() * 6}
	}
}

type forkNode struct {
	parent int
	m      forkMap
	scale  float64 // product of scale factors on the path
	solid  model3d.Solid
	sdf    model3d.SDF
	mb     model3d.Metaball
}

func forkSections(r *vlib.Run) {
	r.Section("wrapper.forks", r.N(1500, 20000), vlib.SectionOpts{}, func(c *vlib.Case) {
		rng := c.Rng
		ctr := model3d.XYZ(rng.NormFloat64(), rng.NormFloat64(), rng.NormFloat64()).Scale(0.5)
		rad := 0.5 + rng.Float64()
		base := &model3d.Sphere{Center: ctr, Radius: rad}
		nodes := []*forkNode{{parent: -1, scale: 1, solid: base, sdf: base, mb: base}}
		n := 4 + rng.Intn(10)
		desc := []string{"sphere"}
		for i := 1; i <= n; i++ {
			// mostly extend the deepest chain (deep parents), sometimes fork from any node
			p := len(nodes) - 1
			if rng.Intn(3) == 0 {
				p = rng.Intn(len(nodes))
			}
			m := randForkMap(rng)
			pn := nodes[p]
			nd := &forkNode{parent: p, m: m, scale: pn.scale}
			if m.kind == 1 {
				nd.scale *= m.s
			}
			nd.solid = model3d.TransformSolid(m.lib(), pn.solid)
			nd.sdf = model3d.TransformSDF(m.lib(), pn.sdf)
			switch m.kind {
			case 0:
				nd.mb = model3d.TranslateMetaball(pn.mb, m.v)
			case 1:
				nd.mb = model3d.ScaleMetaball(pn.mb, m.s)
			default:
				nd.mb = model3d.RotateMetaball(pn.mb, model3d.Z(1), m.ang)
			}
			nodes = append(nodes, nd)
			desc = append(desc, fmt.Sprintf("%d<-%d:%s", i, p, m))
		}
		wit := map[string]interface{}{"center": ctr, "radius": rad, "tree": desc}
		// every node is queried after the whole tree exists
		for i := 1; i < len(nodes); i++ {
			nd := nodes[i]
			pull := func(p model3d.Coord3D) model3d.Coord3D {
				for k := i; k > 0; k = nodes[k].parent {
					p = nodes[k].m.inv(p)
				}
				return p
			}
			mn, mx := nd.solid.Min(), nd.solid.Max()
			for q := 0; q < 6; q++ {
				p := mn.Add(model3d.XYZ(rng.Float64(), rng.Float64(), rng.Float64()).Mul(mx.Sub(mn)))
				if q == 0 {
					// the image of the centre
					p = mn.Mid(mx)
				}
				d := rad - pull(p).Dist(ctr) // signed distance in base units
				if math.Abs(d) < 1e-6 {
					continue
				}
				c.Count("wrapper.forks.queries", 1)
				if got := nd.solid.Contains(p); got != (d > 0) {
					wit["node"], wit["point"] = i, p
					c.Violationf("model3d.TransformSolid/image-of-the-original(wrapper-tree)", wit, "node %d Contains=%v, the point pulled back through the node's own path is %g inside the base sphere", i, got, d)
					return
				}
				if got := nd.sdf.SDF(p); math.Abs(got-d*nd.scale) > 1e-9*(1+math.Abs(d*nd.scale)) {
					wit["node"], wit["point"] = i, p
					c.Violationf("model3d.TransformSDF/image-of-the-original(wrapper-tree)", wit, "node %d SDF=%g, the base field at the pulled-back point times the path's scale is %g", i, got, d*nd.scale)
					return
				}
				if got, want := nd.mb.MetaballField(p), base.MetaballField(pull(p)); math.Abs(got-want) > 1e-9*(1+math.Abs(want)) {
					wit["node"], wit["point"] = i, p
					c.Violationf("model3d.TransformMetaball/image-of-the-original(wrapper-tree)", wit, "node %d MetaballField=%g, the base field at the pulled-back point is %g", i, got, want)
					return
				}
			}
		}
		c.Nontrivial(fmt.Sprint("forks", desc))
	})
}
