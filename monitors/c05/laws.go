package main

import (
	"fmt"
	"math"
	"math/rand"

	"github.com/unixpickle/model3d/model2d"
	"github.com/unixpickle/model3d/model3d"
	"verif/vlib"
)

// xf adapts a library transform (2D or 3D) to harness vectors.
type xf interface {
	apply(V) V
	bounds(lo, hi V) (V, V)
	inverse() xf
	// dist calls ApplyDistance; ok is false if the object is not a DistTransform.
	dist(d float64) (float64, bool)
}

type xf3 struct{ t model3d.Transform }

func (x xf3) apply(v V) V { return from3(x.t.Apply(to3(v))) }
func (x xf3) bounds(lo, hi V) (V, V) {
	a, b := x.t.ApplyBounds(to3(lo), to3(hi))
	return from3(a), from3(b)
}
func (x xf3) inverse() xf { return xf3{x.t.Inverse()} }
func (x xf3) dist(d float64) (float64, bool) {
	dt, ok := x.t.(model3d.DistTransform)
	if !ok {
		return 0, false
	}
	return dt.ApplyDistance(d), true
}

type xf2 struct{ t model2d.Transform }

func (x xf2) apply(v V) V { return from2(x.t.Apply(to2(v))) }
func (x xf2) bounds(lo, hi V) (V, V) {
	a, b := x.t.ApplyBounds(to2(lo), to2(hi))
	return from2(a), from2(b)
}
func (x xf2) inverse() xf { return xf2{x.t.Inverse()} }
func (x xf2) dist(d float64) (float64, bool) {
	dt, ok := x.t.(model2d.DistTransform)
	if !ok {
		return 0, false
	}
	return dt.ApplyDistance(d), true
}

func (s *spec) adapter(dim int) xf {
	if dim == 2 {
		return xf2{s.lib2()}
	}
	return xf3{s.lib3()}
}

const (
	relTol   = 1e-9 // DESIGN: relative error <= 1e-9 * cond
	condStop = 1e7  // beyond this amplification a case is undecided
)

func wit(s *spec, kv ...interface{}) map[string]interface{} {
	m := map[string]interface{}{"transform": s.describe()}
	for i := 0; i+1 < len(kv); i += 2 {
		k := kv[i].(string)
		switch v := kv[i+1].(type) {
		case V:
			m[k] = v.hex()
			m[k+"_dec"] = v.String()
		case float64:
			m[k] = vlib.Hex(v)
			m[k+"_dec"] = v
		default:
			m[k] = v
		}
	}
	return m
}

// specialCoords returns axis values at which the transform has a kink.
func (s *spec) specialCoords() (ax []int, vals []float64) {
	switch s.Kind {
	case "squeeze", "pinch":
		for _, v := range []float64{s.Lo, s.Hi, (s.Lo + s.Hi) / 2} {
			ax = append(ax, s.Ax)
			vals = append(vals, v)
		}
	case "smart":
		for _, u := range s.Unsq {
			ax = append(ax, s.Ax, s.Ax)
			vals = append(vals, u[0], u[1])
		}
		for _, p := range s.Pinches {
			ax = append(ax, s.Ax, s.Ax, s.Ax)
			vals = append(vals, p, p-s.PinchRange, p+s.PinchRange)
		}
		ax = append(ax, s.Ax, s.Ax)
		vals = append(vals, s.BMin[s.Ax], s.BMax[s.Ax])
	case "joined":
		for _, k := range s.Kids {
			a, v := k.specialCoords()
			ax = append(ax, a...)
			vals = append(vals, v...)
		}
	}
	return
}

func genPoint(rng *rand.Rand, dim int, s *spec) V {
	p := genVec(rng, dim, false)
	if rng.Intn(3) == 0 {
		p = genVec(rng, dim, true)
	}
	if ax, vals := s.specialCoords(); len(ax) > 0 && rng.Intn(2) == 0 {
		i := rng.Intn(len(ax))
		v := vals[i]
		switch rng.Intn(4) {
		case 0: // exactly on the kink
		case 1:
			v = math.Nextafter(v, math.Inf(1))
		case 2:
			v = math.Nextafter(v, math.Inf(-1))
		default:
			v += rng.NormFloat64() * 0.3
		}
		p[ax[i]] = v
	}
	return p
}

func maxAbsDiff(a, b V) float64 { return a.sub(b).maxAbs() }

// checkLaws checks inverse (both orders), bounds and distance laws of one
// transform, plus its Apply against the documented definition for the kinds
// whose documentation fixes it.
func checkLaws(c *vlib.Case, dim int, s *spec) {
	tl := newTally(c)
	defer tl.flush()
	rng := c.Rng
	name := s.name(dim)
	r := s.ref()
	ri := r.inv()
	t := s.adapter(dim)
	ti := t.inverse()
	pre := fmt.Sprintf("laws%dd.%s.", dim, s.Kind)
	tl.Count(pre+"transforms", 1)
	c.Sample(fmt.Sprintf("laws%dd.%s", dim, s.Kind), 1, s.describe())
	moved := false

	for i := 0; i < 10; i++ {
		p := genPoint(rng, dim, s)
		a := newAcc()
		yr := r.fwd(p, a)
		y := t.apply(p)
		if !y.finite() || !yr.finite() {
			c.Undecided("laws.non-finite")
			continue
		}
		if maxAbsDiff(y, p) > 1e-6*(1+p.maxAbs()) {
			moved = true
		}

		// Apply against the documented definition (affine kinds only: the
		// anchoring of the toolbox maps is not part of their documentation).
		if s.affine() {
			if amp := a.F * a.K; amp > condStop || math.IsNaN(amp) {
				c.Undecided("laws.apply.ill-conditioned")
			} else {
				tol := relTol * a.M * amp
				tl.Count(pre+"apply_definition", 1)
				if d := maxAbsDiff(y, yr); !(d <= tol) {
					c.Violationf(name+".Apply/definition", wit(s, "p", p, "got", y, "want", yr, "tol", tol),
						"%s.Apply(p) = %v but the documented map gives %v (diff %.3g > tol %.3g)", name, y, yr, d, tol)
				}
			}
		}

		// inverse after apply
		if amp := a.G * a.K; amp > condStop || math.IsNaN(amp) || math.IsInf(amp, 0) {
			c.Undecided("laws.inverse.ill-conditioned")
		} else {
			q := ti.apply(y)
			tol := relTol * a.M * amp
			tl.Count(pre+"inverse_after_apply", 1)
			d := maxAbsDiff(q, p)
			if tol > 0 {
				tl.Max("laws.worst_roundtrip_over_tol", d/tol)
			}
			if !(d <= tol) {
				c.Violationf(name+".Inverse/inverse-after-apply", wit(s, "p", p, "t(p)", y, "inv(t(p))", q, "tol", tol),
					"Inverse().Apply(Apply(p)) = %v, p = %v (diff %.3g > tol %.3g)", q, p, d, tol)
			}
		}

		// apply after inverse
		ai := newAcc()
		q0 := ri.fwd(p, ai)
		af := newAcc()
		r.fwd(q0, af)
		if amp := af.F * af.K; amp > condStop || math.IsNaN(amp) || math.IsInf(amp, 0) || !q0.finite() {
			c.Undecided("laws.inverse.ill-conditioned")
		} else {
			z := t.apply(ti.apply(p))
			tol := relTol * math.Max(ai.M, af.M) * amp
			tl.Count(pre+"apply_after_inverse", 1)
			d := maxAbsDiff(z, p)
			if tol > 0 {
				tl.Max("laws.worst_roundtrip_over_tol", d/tol)
			}
			if !(d <= tol) {
				c.Violationf(name+".Inverse/apply-after-inverse", wit(s, "p", p, "inv(p)", ti.apply(p), "t(inv(p))", z, "tol", tol),
					"Apply(Inverse().Apply(p)) = %v, p = %v (diff %.3g > tol %.3g)", z, p, d, tol)
			}
		}
	}
	if moved {
		c.Nontrivial(fmt.Sprintf("%d|%v", dim, s.describe()))
	}

	// bounds law
	for b := 0; b < 2; b++ {
		lo := genPoint(rng, dim, s)
		var hi V
		for i := 0; i < dim; i++ {
			ext := pick(rng, 0, 1, 2, 0.5, math.Abs(rng.NormFloat64()), math.Abs(rng.NormFloat64())*10, 1e-3)
			hi[i] = lo[i] + ext
		}
		if ax, vals := s.specialCoords(); len(ax) > 0 && rng.Intn(2) == 0 {
			i := rng.Intn(len(ax))
			if vals[i] >= lo[ax[i]] {
				hi[ax[i]] = vals[i]
			}
		}
		bmin, bmax := t.bounds(lo, hi)
		tl.Count(pre+"bounds_boxes", 1)
		if !bmin.finite() || !bmax.finite() {
			c.Violationf(name+".ApplyBounds/finite", wit(s, "min", lo, "max", hi), "ApplyBounds returned non-finite bounds %v %v", bmin, bmax)
			continue
		}
		var pts []V
		grid := [3][]float64{}
		for i := 0; i < 3; i++ {
			if i < dim {
				grid[i] = []float64{lo[i], lo[i] + (hi[i]-lo[i])/2, hi[i]}
			} else {
				grid[i] = []float64{0}
			}
		}
		for _, x := range grid[0] {
			for _, y := range grid[1] {
				for _, z := range grid[2] {
					pts = append(pts, V{x, y, z})
				}
			}
		}
		for i := 0; i < 8; i++ {
			var q V
			for j := 0; j < dim; j++ {
				q[j] = lo[j] + rng.Float64()*(hi[j]-lo[j])
				if q[j] > hi[j] {
					q[j] = hi[j]
				}
			}
			pts = append(pts, q)
		}
		for _, q := range pts {
			a := newAcc()
			r.fwd(q, a)
			y := t.apply(q)
			if !y.finite() {
				c.Undecided("laws.non-finite")
				continue
			}
			slack := relTol * math.Max(a.M, math.Max(bmin.maxAbs(), bmax.maxAbs()))
			tl.Count(pre+"bounds_points", 1)
			for j := 0; j < dim; j++ {
				if y[j] < bmin[j]-slack || y[j] > bmax[j]+slack {
					c.Violationf(name+".ApplyBounds/encloses-image", wit(s, "min", lo, "max", hi, "q", q, "t(q)", y, "newMin", bmin, "newMax", bmax),
						"ApplyBounds(%v, %v) = [%v, %v] does not contain Apply(%v) = %v", lo, hi, bmin, bmax, q, y)
					break
				}
			}
		}
	}

	// distance law
	if s.isDist() {
		k := s.factor()
		if _, ok := t.dist(1); !ok {
			c.Violationf(name+"/is-DistTransform", wit(s), "%s does not implement DistTransform", name)
			return
		}
		if _, ok := ti.dist(1); !ok {
			c.Violationf(name+".Inverse/is-DistTransform", wit(s), "Inverse() of the DistTransform %s is not a DistTransform", name)
		}
		for i := 0; i < 6; i++ {
			p := genPoint(rng, dim, s)
			dir := V{rng.NormFloat64(), rng.NormFloat64(), rng.NormFloat64()}
			if dim == 2 {
				dir[2] = 0
			}
			dir = dir.unit()
			l := (1 + p.maxAbs()) * pick(rng, 0.1, 1, 3, 10)
			q := p.add(dir.scale(l))
			d := p.dist(q)
			a := newAcc()
			r.fwd(p, a)
			r.fwd(q, a)
			if a.F*a.K > condStop {
				c.Undecided("laws.distance.ill-conditioned")
				continue
			}
			got, _ := t.dist(d)
			img := t.apply(p).dist(t.apply(q))
			tol := relTol*k*d + relTol*a.M*a.F
			tl.Count(pre+"distance_pairs", 1)
			if !(math.Abs(got-img) <= tol) {
				c.Violationf(name+".ApplyDistance/equals-image-distance", wit(s, "p", p, "q", q, "dist", d, "ApplyDistance", got, "image_dist", img),
					"ApplyDistance(|p-q| = %.17g) = %.17g but |t(p)-t(q)| = %.17g", d, got, img)
			}
			if back, ok := ti.dist(got); ok {
				tl.Count(pre+"distance_inverse", 1)
				if !(math.Abs(back-d) <= relTol*d*4) {
					c.Violationf(name+".Inverse/ApplyDistance-inverts", wit(s, "dist", d, "ApplyDistance", got, "back", back),
						"Inverse().ApplyDistance(ApplyDistance(%.17g)) = %.17g", d, back)
				}
			}
		}
	}
}

func lawsSections(r *vlib.Run) {
	r.Section("laws3d", r.N(80000, 1000000), vlib.SectionOpts{}, func(c *vlib.Case) {
		o := genOpts{dim: 3, toolbox: true, depth: 2, cond: 1e4}
		o.distOnly = c.Rng.Intn(3) == 0
		checkLaws(c, 3, genSpec(c.Rng, o))
	})
	r.Section("laws2d", r.N(50000, 600000), vlib.SectionOpts{}, func(c *vlib.Case) {
		o := genOpts{dim: 2, depth: 2, cond: 1e4}
		o.distOnly = c.Rng.Intn(3) == 0
		checkLaws(c, 2, genSpec(c.Rng, o))
	})
}
