// C05 — Transforms invert, and transformed objects are images of the original.
// Shape: seeded hostile transforms/points/rays + independent closed-form
// reference maps (ref.go) + recording ("spy") wrapped objects that observe the
// pulled-back query the library hands to the wrapped object (DESIGN.md C05).
package main

import (
	"verif/vlib"
)

func main() {
	r := vlib.Start("C05", "exploration")
	r.ScaleQuick(3) // quick tier: 3x the case counts written at the sections (still well under a minute)
	r.Rule("seeded transforms (Translate, positive Scale, VecScale incl. negative/anisotropic, general matrices with Frobenius condition <= 1e4, Rotation incl. axis-aligned and tie axes, JoinedTransform of 0-5 parts nested to depth 2, AxisSqueeze, AxisPinch, SmartSqueeze.Transform) in 2D and 3D, hostile points (kinks, box corners, large/small magnitudes), rays with non-unit directions and origins inside/outside; every wrapped-object query is decided against a closed-form reference map written in the harness and against the unwrapped object; a case is non-trivial if the transform moves some test point by more than 1e-6 relative; distinct by hash of dimension + transform parameters (+ wrapped object kind)")
	r.Assume("float64 rounding: laws are held to 1e-9 x (magnitude of intermediates) x (product of local Lipschitz constants of the stages, from the reference map) x (matrix condition bound); cases amplified beyond 1e7 are undecided")
	r.Assume("negative uniform Scale is not documented and not generated; JoinedTransform.ApplyDistance is only called when every part is a DistTransform (documented panic otherwise)")
	r.Assume("membership / hit-count comparisons are decided only where the unwrapped object answers identically on perturbed queries (the reference answer is stable)")

	lawsSections(r)
	toolboxSections(r)
	conjSections(r)
	mcSections(r)
	forkSections(r)

	// clauses claimed (property statement) and the counters they rest on
	for _, k := range []string{"translate", "scale", "vecscale", "matrix", "rotation", "joined"} {
		for _, d := range []string{"laws3d.", "laws2d."} {
			r.Require(d+k+".inverse_after_apply", 1000)
			r.Require(d+k+".apply_after_inverse", 1000)
			r.Require(d+k+".bounds_points", 5000)
		}
	}
	for _, k := range []string{"squeeze", "pinch", "smart"} {
		r.Require("laws3d."+k+".inverse_after_apply", 1000)
		r.Require("laws3d."+k+".apply_after_inverse", 1000)
		r.Require("laws3d."+k+".bounds_points", 5000)
		r.Require("toolbox."+k+".monotone_pairs", 1000)
		r.Require("toolbox."+k+".off_axis", 1000)
	}
	for _, k := range []string{"translate", "scale", "rotation", "joined"} {
		r.Require("laws3d."+k+".distance_pairs", 1000)
		r.Require("laws2d."+k+".distance_pairs", 1000)
	}
	r.Require("toolbox.squeeze.slope_pairs", 1000)
	r.Require("toolbox.pinch.doc_points", 1000)
	r.Require("toolbox.smart.stretch_pairs.squeezable", 500)
	r.Require("toolbox.smart.stretch_pairs.unsqueezable", 500)
	for _, d := range []string{"3d", "2d"} {
		r.Require("solid"+d+".membership", 5000)
		r.Require("solid"+d+".membership.inside", 1000)
		r.Require("solid"+d+".spy_queries", 5000)
		r.Require("sdf"+d+".values", 5000)
		r.Require("sdf"+d+".spy_queries", 1000)
		r.Require("collider"+d+".spy_rays", 2000)
		r.Require("collider"+d+".spy_first", 2000)
		r.Require("collider"+d+".spy_balls", 2000)
		r.Require("collider"+d+".spy_nil_callback_with_hits", 1000)
		r.Require("collider"+d+".rays", 5000)
		r.Require("collider"+d+".rays.hits2", 1000)
		r.Require("collider"+d+".first", 5000)
		r.Require("collider"+d+".balls", 5000)
		r.Require("metaball"+d+".field", 5000)
		r.Require("metaball"+d+".dist_bound", 5000)
		r.Require("metaball"+d+".bounds_points", 500)
		r.Require("mc"+d+".cases", 100)
		r.Require("mc"+d+".vertices_probed", 2000)
	}
	r.Require("mesh3d.transform", 100)
	r.Require("mesh3d.rotate", 100)
	r.Require("colorfunc.queries", 500)

	r.Finish()
}

func conjSections(r *vlib.Run) {
	anyT := func(c *vlib.Case, dim int) *spec {
		return genSpec(c.Rng, genOpts{dim: dim, toolbox: true, depth: 1, cond: 100, mild: true})
	}
	distT := func(c *vlib.Case, dim int) *spec {
		return genSpec(c.Rng, genOpts{dim: dim, distOnly: true, depth: 2, mild: true})
	}
	r.Section("solid3d", r.N(18000, 220000), vlib.SectionOpts{}, func(c *vlib.Case) {
		checkSolid(c, 3, anyT(c, 3), genSolid3(c.Rng))
	})
	r.Section("solid2d", r.N(12000, 150000), vlib.SectionOpts{}, func(c *vlib.Case) {
		checkSolid(c, 2, anyT(c, 2), genSolid2(c.Rng))
	})
	r.Section("sdf3d", r.N(12000, 150000), vlib.SectionOpts{}, func(c *vlib.Case) {
		checkSDF(c, 3, distT(c, 3), genSDF3(c.Rng))
	})
	r.Section("sdf2d", r.N(9000, 110000), vlib.SectionOpts{}, func(c *vlib.Case) {
		checkSDF(c, 2, distT(c, 2), genSDF2(c.Rng))
	})
	r.Section("collider3d", r.N(18000, 220000), vlib.SectionOpts{}, func(c *vlib.Case) {
		checkCollider(c, 3, distT(c, 3), genCollider3(c.Rng), "SphereCollision")
	})
	r.Section("collider2d", r.N(12000, 150000), vlib.SectionOpts{}, func(c *vlib.Case) {
		checkCollider(c, 2, distT(c, 2), genCollider2(c.Rng), "CircleCollision")
	})
	metaT := func(c *vlib.Case, dim int) *spec {
		if c.Rng.Intn(3) == 0 {
			return genLeaf(c.Rng, genOpts{dim: dim, mild: true}, "vecscale")
		}
		return distT(c, dim)
	}
	r.Section("metaball3d", r.N(12000, 150000), vlib.SectionOpts{}, func(c *vlib.Case) {
		checkMeta(c, 3, metaT(c, 3), genMeta3(c.Rng))
	})
	r.Section("metaball2d", r.N(9000, 110000), vlib.SectionOpts{}, func(c *vlib.Case) {
		checkMeta(c, 2, metaT(c, 2), genMeta2(c.Rng))
	})
}
