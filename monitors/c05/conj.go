package main

import (
	"fmt"
	"math"
	"math/rand"
	"sort"

	"verif/vlib"
)

// ---------------------------------------------------------------------------
// harness-side views of library objects (2D and 3D adapters are in conj3.go
// and conj2.go)

type bounded interface {
	lo() V
	hi() V
}

type solidH interface {
	bounded
	contains(V) bool
}

type sdfH interface {
	bounded
	sdf(V) float64
}

type hit struct {
	s float64
	n V
}

type colliderH interface {
	bounded
	// rays calls RayCollisions; with cb == false a nil callback is passed.
	rays(o, d V, cb bool) (int, []hit)
	first(o, d V) (hit, bool)
	ball(c V, r float64) bool
}

type metaH interface {
	bounded
	field(V) float64
	bound(float64) float64
}

// spyCore is the state of a recording wrapped object: it remembers the query
// the library handed to the wrapped object and answers with preset values.
type spyCore struct {
	min, max V

	calls  int
	pt     V
	dir    V
	rad    float64
	nilCb  bool
	retB   bool
	retVal float64
	hits   []hit
	// metaball: field = fieldFn(distance to the spy's own box), bound = fieldFn
}

func (s *spyCore) reset() { s.calls = 0; s.pt = V{}; s.dir = V{}; s.rad = 0; s.nilCb = false }

type solidBundle struct {
	kind string
	desc string // concrete parameters for witnesses
	orig solidH
	wrap func(s *spec, helper bool) (solidH, string)
	spy  *spyCore
}

type sdfBundle struct {
	kind string
	desc string // concrete parameters for witnesses
	orig sdfH
	wrap func(s *spec) (sdfH, string)
	spy  *spyCore
	mesh bool
}

type colliderBundle struct {
	kind string
	desc string // concrete parameters for witnesses
	orig colliderH
	wrap func(s *spec) (colliderH, string)
	spy  *spyCore
}

type metaBundle struct {
	kind string
	desc string // concrete parameters for witnesses
	orig metaH
	// wrap applies TransformMetaball (or a helper); for kind "vecscale" it
	// applies VecScaleMetaball.
	wrap func(s *spec, helper bool) (metaH, string)
	// dist is the harness's closed-form Euclidean distance from x to the zero
	// set of the original (>= 0 outside), valid for box and sphere shapes.
	dist func(x V) float64
	// box shape (for the exact distance to a per-axis scaled image)
	isBox      bool
	bmin, bmax V
	spy        *spyCore
}

func objDesc(kind, desc string) string {
	if desc != "" {
		return desc
	}
	return kind
}

// baseKind strips the operand list from a composite kind for counting.
func baseKind(k string) string {
	for i, ch := range k {
		if ch == '(' {
			return k[:i]
		}
	}
	return k
}

func pkgOf(dim int) string {
	if dim == 2 {
		return "model2d"
	}
	return "model3d"
}

// callSafely runs f and reports a panic as a string (so that one defect, e.g.
// a nil callback being invoked, does not hide the other clauses of the case).
func callSafely(f func()) (panicked string) {
	defer func() {
		if e := recover(); e != nil {
			panicked = fmt.Sprint(e)
		}
	}()
	f()
	return ""
}

// ---------------------------------------------------------------------------
// sampling and stability helpers

func boxPoint(rng *rand.Rand, dim int, lo, hi V, expand float64) V {
	var p V
	for i := 0; i < dim; i++ {
		w := hi[i] - lo[i]
		p[i] = lo[i] - expand*w + rng.Float64()*(1+2*expand)*w
	}
	return p
}

func boxScale(lo, hi V) float64 {
	return math.Max(hi.sub(lo).maxAbs(), 1e-9)
}

var probeDirs = func() []V {
	var ds []V
	for x := -1; x <= 1; x++ {
		for y := -1; y <= 1; y++ {
			for z := -1; z <= 1; z++ {
				if x == 0 && y == 0 && z == 0 {
					continue
				}
				ds = append(ds, V{float64(x), float64(y), float64(z)}.unit())
			}
		}
	}
	return ds
}()

// stableMember reports the membership of p and whether all probes at distance
// delta around p agree with it.
func stableMember(s solidH, dim int, p V, delta float64) (bool, bool) {
	b := s.contains(p)
	for _, d := range probeDirs {
		if dim == 2 && d[2] != 0 {
			continue
		}
		if s.contains(p.add(d.scale(delta))) != b {
			return b, false
		}
	}
	return b, true
}

// surfacePoint bisects between a member and a non-member of s.
func surfacePoint(rng *rand.Rand, s solidH, dim int) (V, bool) {
	lo, hi := s.lo(), s.hi()
	var in, out V
	haveIn, haveOut := false, false
	for i := 0; i < 40 && !(haveIn && haveOut); i++ {
		p := boxPoint(rng, dim, lo, hi, 0.2)
		if s.contains(p) {
			in, haveIn = p, true
		} else {
			out, haveOut = p, true
		}
	}
	if !haveIn || !haveOut {
		return V{}, false
	}
	for i := 0; i < 30; i++ {
		mid := in.add(out).scale(0.5)
		if s.contains(mid) {
			in = mid
		} else {
			out = mid
		}
	}
	return in, true
}

func randDir(rng *rand.Rand, dim int) V {
	for {
		d := V{rng.NormFloat64(), rng.NormFloat64(), rng.NormFloat64()}
		if dim == 2 {
			d[2] = 0
		}
		if d.norm() > 1e-3 {
			return d.unit()
		}
	}
}

// ---------------------------------------------------------------------------
// solids

func checkSolid(c *vlib.Case, dim int, s *spec, b solidBundle) {
	tl := newTally(c)
	defer tl.flush()
	rng := c.Rng
	r := s.ref()
	t := s.adapter(dim)
	helper := rng.Intn(2) == 0
	var w solidH
	var api string
	if p := callSafely(func() { w, api = b.wrap(s, helper) }); p != "" {
		c.Violationf(pkgOf(dim)+".TransformSolid/construct-panic", wit(s, "object", objDesc(b.kind, b.desc)), "constructing the transformed solid panicked: %s", p)
		return
	}
	pre := fmt.Sprintf("solid%dd.", dim)
	tl.Count(pre+"objects."+baseKind(b.kind), 1)
	tl.Count(pre+"api."+api, 1)
	key := func(clause string) string { return fmt.Sprintf("%s[%s]/%s", api, s.Kind, clause) }
	lo, hi := b.orig.lo(), b.orig.hi()
	scale := boxScale(lo, hi)
	c.Nontrivial(fmt.Sprintf("solid|%d|%s|%v", dim, b.kind, s.describe()))

	for i := 0; i < 12; i++ {
		var p V
		if b.spy != nil {
			// strictly inside the spy's box: it may legally answer anything there
			for j := 0; j < dim; j++ {
				wd := hi[j] - lo[j]
				p[j] = lo[j] + (0.02+0.96*rng.Float64())*wd
			}
		} else if sp, ok := surfacePoint(rng, b.orig, dim); ok && i%2 == 0 {
			p = sp.add(randDir(rng, dim).scale(scale * pick(rng, 1e-4, 1e-3, 1e-2, 0.1)))
		} else {
			p = boxPoint(rng, dim, lo, hi, 0.3)
		}
		a := newAcc()
		r.fwd(p, a)
		amp := a.G * a.K
		if !(amp <= 1e3) {
			c.Undecided("solid.ill-conditioned")
			continue
		}
		tol := relTol * a.M * amp
		q := t.apply(p)
		if !q.finite() {
			c.Undecided("solid.non-finite")
			continue
		}
		if b.spy != nil {
			for _, want := range []bool{true, false} {
				b.spy.reset()
				b.spy.retB = want
				got := w.contains(q)
				tl.Count(pre+"spy_queries", 1)
				if got != want {
					wl, wh := w.lo(), w.hi()
					clause := "result"
					if b.spy.calls == 0 {
						clause = "bounds-exclude-image-of-interior-point"
					}
					c.Violationf(key(clause), wit(s, "p", p, "t(p)", q, "orig_min", lo, "orig_max", hi, "new_min", wl, "new_max", wh),
						"transformed solid answered %v at t(p) while the original answers %v at p (original consulted %d times)", got, want, b.spy.calls)
					continue
				}
				if b.spy.calls > 0 {
					if d := maxAbsDiff(b.spy.pt, p); !(d <= tol) {
						c.Violationf(key("pulled-back-point"), wit(s, "p", p, "t(p)", q, "asked", b.spy.pt, "tol", tol),
							"Contains(t(p)) consulted the original at %v instead of p = %v", b.spy.pt, p)
					}
				}
			}
			continue
		}
		delta := math.Max(1e-6*(scale+a.M), 100*tol)
		want, stable := stableMember(b.orig, dim, p, delta)
		if !stable {
			c.Undecided("solid.near-boundary")
			continue
		}
		got := w.contains(q)
		tl.Count(pre+"membership", 1)
		if want {
			tl.Count(pre+"membership.inside", 1)
		}
		if got != want {
			wl, wh := w.lo(), w.hi()
			clause := "membership"
			if want {
				for j := 0; j < dim; j++ {
					if q[j] < wl[j] || q[j] > wh[j] {
						clause = "bounds-exclude-member"
					}
				}
			}
			c.Violationf(key(clause), wit(s, "object", objDesc(b.kind, b.desc), "p", p, "t(p)", q, "new_min", wl, "new_max", wh),
				"%s of %s: Contains(t(p)) = %v but original.Contains(p) = %v", api, b.kind, got, want)
		}
	}
}

// ---------------------------------------------------------------------------
// SDFs

func checkSDF(c *vlib.Case, dim int, s *spec, b sdfBundle) {
	tl := newTally(c)
	defer tl.flush()
	rng := c.Rng
	r := s.ref()
	t := s.adapter(dim)
	k := s.factor()
	var w sdfH
	var api string
	if p := callSafely(func() { w, api = b.wrap(s) }); p != "" {
		c.Violationf(pkgOf(dim)+".TransformSDF/construct-panic", wit(s, "object", objDesc(b.kind, b.desc)), "constructing the transformed SDF panicked: %s", p)
		return
	}
	pre := fmt.Sprintf("sdf%dd.", dim)
	tl.Count(pre+"objects."+baseKind(b.kind), 1)
	key := func(clause string) string { return fmt.Sprintf("%s[%s]/%s", api, s.Kind, clause) }
	lo, hi := b.orig.lo(), b.orig.hi()
	scale := boxScale(lo, hi)
	c.Nontrivial(fmt.Sprintf("sdf|%d|%s|%v", dim, b.kind, s.describe()))
	for i := 0; i < 12; i++ {
		p := boxPoint(rng, dim, lo, hi, 0.5)
		a := newAcc()
		r.fwd(p, a)
		amp := a.G * a.K
		if !(amp <= 1e4) {
			c.Undecided("sdf.ill-conditioned")
			continue
		}
		ptol := relTol * a.M * amp
		q := t.apply(p)
		if b.spy != nil {
			b.spy.reset()
			v := rng.NormFloat64() * scale
			b.spy.retVal = v
			got := w.sdf(q)
			tl.Count(pre+"spy_queries", 1)
			if b.spy.calls == 0 {
				c.Violationf(key("original-not-consulted"), wit(s, "p", p), "SDF(t(p)) did not consult the original SDF")
				continue
			}
			if d := maxAbsDiff(b.spy.pt, p); !(d <= ptol) {
				c.Violationf(key("pulled-back-point"), wit(s, "p", p, "t(p)", q, "asked", b.spy.pt, "tol", ptol),
					"SDF(t(p)) consulted the original at %v instead of p = %v", b.spy.pt, p)
			}
			if !(math.Abs(got-k*v) <= relTol*math.Abs(k*v)) {
				c.Violationf(key("scaled-distance"), wit(s, "p", p, "orig_sdf", v, "factor", k, "got", got),
					"SDF(t(p)) = %.17g but factor*original = %.17g*%.17g", got, k, v)
			}
			continue
		}
		v0 := b.orig.sdf(p)
		if b.mesh && math.Abs(v0) < 1e-5*scale {
			c.Undecided("sdf.mesh-near-surface")
			continue
		}
		got := w.sdf(q)
		want := k * v0
		tol := relTol*math.Abs(want) + k*ptol*4
		tl.Count(pre+"values", 1)
		if !(math.Abs(got-want) <= tol) {
			c.Violationf(key("scaled-distance"), wit(s, "object", objDesc(b.kind, b.desc), "p", p, "t(p)", q, "orig_sdf", v0, "factor", k, "got", got, "tol", tol),
				"%s of %s: SDF(t(p)) = %.17g, expected factor*SDF(p) = %.17g", api, b.kind, got, want)
		}
	}
}

// ---------------------------------------------------------------------------
// colliders

func sortHits(h []hit) []hit {
	r := append([]hit(nil), h...)
	sort.Slice(r, func(i, j int) bool { return r[i].s < r[j].s })
	return r
}

// genRay makes a ray with a non-unit direction; the origin is inside or
// outside the bounding box and the direction is mostly aimed at the box.
func genRay(rng *rand.Rand, dim int, lo, hi V) (V, V) {
	o := boxPoint(rng, dim, lo, hi, pick(rng, 0, 0.5, 2))
	var d V
	if rng.Intn(4) == 0 {
		d = randDir(rng, dim)
	} else {
		tgt := boxPoint(rng, dim, lo, hi, 0)
		d = tgt.sub(o)
		if d.norm() < 1e-6*boxScale(lo, hi) {
			d = randDir(rng, dim)
		} else {
			d = d.unit()
		}
	}
	return o, d.scale(pick(rng, 1, 0.01, 100, 3, 0.37, math.Exp(rng.NormFloat64())))
}

func checkCollider(c *vlib.Case, dim int, s *spec, b colliderBundle, ballName string) {
	tl := newTally(c)
	defer tl.flush()
	rng := c.Rng
	r := s.ref()
	ri := r.inv()
	k := s.factor()
	var w colliderH
	var api string
	if p := callSafely(func() { w, api = b.wrap(s) }); p != "" {
		c.Violationf(pkgOf(dim)+".TransformCollider/construct-panic", wit(s, "object", objDesc(b.kind, b.desc)), "TransformCollider panicked: %s", p)
		return
	}
	pre := fmt.Sprintf("collider%dd.", dim)
	tl.Count(pre+"objects."+baseKind(b.kind), 1)
	// Keys name the mechanism, not the entry point: RayCollisions and
	// FirstRayCollision share the pull-back of the ray and the push-forward of
	// the collision, so one defect there gets one key.
	key := func(method, clause string) string {
		switch clause {
		case "inner-ray-origin", "inner-ray-direction", "ray-parameter":
			return api + "/" + clause
		case "normal-not-unit", "normal-direction":
			return api + "/normal"
		case "nil-callback", "nil-callback-count":
			return api + ".RayCollisions/nil-callback"
		case "hits", "hit-normals", "hit", "hit-normal":
			return api + "/differs-from-original-collider"
		case "pulled-back-center", "pulled-back-radius", "result":
			return api + "." + method + "/pulled-back-query"
		}
		return fmt.Sprintf("%s.%s/%s", api, method, clause)
	}
	lo, hi := b.orig.lo(), b.orig.hi()
	scale := boxScale(lo, hi)
	c.Nontrivial(fmt.Sprintf("collider|%d|%s|%v", dim, b.kind, s.describe()))
	c.Sample(fmt.Sprintf("collider%dd.%s", dim, baseKind(b.kind)), 1, wit(s, "object", objDesc(b.kind, b.desc)))

	// expected unit normal in outer space for an inner unit normal
	outerNormal := func(n V) V { return lin(r, n).unit() }

	for i := 0; i < 10; i++ {
		o, d := genRay(rng, dim, lo, hi)
		a := newAcc()
		Q := r.fwd(o, a)
		r.fwd(o.add(d), a)
		E := lin(r, d)
		amp := a.G * a.K
		if !(amp <= 1e4) || !Q.finite() || !E.finite() || E.norm() == 0 {
			c.Undecided("collider.ill-conditioned")
			continue
		}
		ptol := relTol * a.M * amp
		wray := func(kv ...interface{}) map[string]interface{} {
			return wit(s, append([]interface{}{"object", objDesc(b.kind, b.desc), "orig_origin", o, "orig_direction", d, "outer_origin", Q, "outer_direction", E}, kv...)...)
		}

		if b.spy != nil {
			sp := b.spy
			// synthetic hits: 0..3 with increasing parameters and unit normals
			n := rng.Intn(4)
			sp.hits = nil
			for j := 0; j < n; j++ {
				sp.hits = append(sp.hits, hit{s: (float64(j) + rng.Float64()) * pick(rng, 1, 0.1, 10), n: randDir(rng, dim)})
			}
			sort.Slice(sp.hits, func(x, y int) bool { return sp.hits[x].s < sp.hits[y].s })

			// RayCollisions with a callback
			sp.reset()
			var cnt int
			var got []hit
			if p := callSafely(func() { cnt, got = w.rays(Q, E, true) }); p != "" {
				c.Violationf(key("RayCollisions", "panic"), wray("panic", p), "RayCollisions panicked: %s", p)
			} else {
				tl.Count(pre+"spy_rays", 1)
				if sp.calls == 0 {
					c.Violationf(key("RayCollisions", "original-not-consulted"), wray(), "RayCollisions did not consult the original collider")
				} else {
					if dd := maxAbsDiff(sp.pt, o); !(dd <= ptol) {
						c.Violationf(key("RayCollisions", "inner-ray-origin"), wray("asked_origin", sp.pt, "tol", ptol),
							"original collider was asked about a ray from %v; the pulled-back origin is %v", sp.pt, o)
					}
					dtol := ptol + relTol*d.norm()*amp
					if dd := maxAbsDiff(sp.dir, d); !(dd <= dtol) {
						c.Violationf(key("RayCollisions", "inner-ray-direction"), wray("asked_direction", sp.dir, "tol", dtol),
							"original collider was asked about direction %v; the linear pull-back of the outer direction is %v (a direction is not a point: offsets must not enter)", sp.dir, d)
					}
				}
				if cnt != n || len(got) != n {
					c.Violationf(key("RayCollisions", "count"), wray("returned", cnt, "callbacks", len(got), "original_hits", n),
						"RayCollisions returned %d and made %d callbacks; the original reported %d hits", cnt, len(got), n)
				} else {
					for j := range got {
						checkHit(c, key, "RayCollisions", wray, sp.hits[j], got[j], outerNormal, a.F*a.K)
					}
				}
			}
			// nil callback: documented as "simply used for counting"
			sp.reset()
			if p := callSafely(func() { cnt, _ = w.rays(Q, E, false) }); p != "" {
				if n > 0 {
					tl.Count(pre+"spy_nil_callback_with_hits", 1)
				}
				c.Violationf(key("RayCollisions", "nil-callback"), wray("panic", p, "original_hits", n),
					"RayCollisions(ray, nil) panicked (%s); a nil callback is documented as counting only", p)
			} else {
				tl.Count(pre+"spy_nil_callback", 1)
				if n > 0 {
					tl.Count(pre+"spy_nil_callback_with_hits", 1)
				}
				if cnt != n {
					c.Violationf(key("RayCollisions", "nil-callback-count"), wray("returned", cnt, "original_hits", n),
						"RayCollisions(ray, nil) returned %d; the original reported %d hits", cnt, n)
				}
			}
			// FirstRayCollision
			sp.reset()
			var fh hit
			var fok bool
			if p := callSafely(func() { fh, fok = w.first(Q, E) }); p != "" {
				c.Violationf(key("FirstRayCollision", "panic"), wray("panic", p), "FirstRayCollision panicked: %s", p)
			} else {
				tl.Count(pre+"spy_first", 1)
				if fok != (n > 0) {
					c.Violationf(key("FirstRayCollision", "collides"), wray("collides", fok, "original_hits", n), "FirstRayCollision collides = %v, original has %d hits", fok, n)
				} else if fok {
					checkHit(c, key, "FirstRayCollision", wray, sp.hits[0], fh, outerNormal, a.F*a.K)
				}
				if sp.calls > 0 {
					dtol := ptol + relTol*d.norm()*amp
					if !(maxAbsDiff(sp.pt, o) <= ptol) {
						c.Violationf(key("FirstRayCollision", "inner-ray-origin"), wray("asked_origin", sp.pt, "tol", ptol),
							"original collider was asked about a ray from %v; the pulled-back origin is %v", sp.pt, o)
					}
					if !(maxAbsDiff(sp.dir, d) <= dtol) {
						c.Violationf(key("FirstRayCollision", "inner-ray-direction"), wray("asked_direction", sp.dir, "tol", dtol),
							"original collider was asked about direction %v; the linear pull-back of the outer direction is %v (a direction is not a point: offsets must not enter)", sp.dir, d)
					}
				}
			}
			// sphere / circle collision
			cen := boxPoint(rng, dim, lo, hi, 0.5)
			rad := scale * pick(rng, 0.01, 0.1, 0.5, 2, rng.Float64())
			ac := newAcc()
			C := r.fwd(cen, ac)
			if ac.G*ac.K <= 1e4 {
				for _, want := range []bool{true, false} {
					sp.reset()
					sp.retB = want
					got := w.ball(C, k*rad)
					tl.Count(pre+"spy_balls", 1)
					ctol := relTol * ac.M * ac.G * ac.K
					if sp.calls == 0 {
						c.Violationf(key(ballName, "original-not-consulted"), wit(s, "center", cen), "%s did not consult the original collider", ballName)
						continue
					}
					if got != want {
						c.Violationf(key(ballName, "result"), wit(s, "center", cen, "radius", rad), "%s returned %v, original returned %v", ballName, got, want)
					}
					if !(maxAbsDiff(sp.pt, cen) <= ctol) {
						c.Violationf(key(ballName, "pulled-back-center"), wit(s, "center", cen, "outer_center", C, "asked", sp.pt),
							"original collider was asked about centre %v; the pull-back is %v", sp.pt, cen)
					}
					if !(math.Abs(sp.rad-rad) <= 4*relTol*rad) {
						c.Violationf(key(ballName, "pulled-back-radius"), wit(s, "radius", rad, "outer_radius", k*rad, "asked", sp.rad),
							"original collider was asked about radius %.17g; the pull-back of %.17g is %.17g", sp.rad, k*rad, rad)
					}
				}
			}
			_ = ri
			continue
		}

		// ---- real wrapped collider: compare with the original on the original ray
		n0, h0 := b.orig.rays(o, d, true)
		stable := true
		for j := 0; j < 4 && stable; j++ {
			o2 := o.add(randDir(rng, dim).scale(1e-6 * (scale + a.M)))
			d2 := d.add(randDir(rng, dim).scale(1e-6 * d.norm()))
			if n2, _ := b.orig.rays(o2, d2, true); n2 != n0 {
				stable = false
			}
		}
		h0 = sortHits(h0)
		dn := d.unit()
		for j, h := range h0 {
			if math.Abs(h.n.dot(dn)) < 1e-2 || h.s < 1e-4*scale/d.norm() {
				stable = false
			}
			if j > 0 && h.s-h0[j-1].s < 1e-4*scale/d.norm() {
				stable = false
			}
			if !h.n.finite() || math.Abs(h.n.norm()-1) > 1e-6 {
				stable = false // the original's own normals are C07's subject
			}
		}
		if !stable {
			c.Undecided("collider.unstable-ray")
			continue
		}
		var cnt int
		var got []hit
		if p := callSafely(func() { cnt, got = w.rays(Q, E, true) }); p != "" {
			c.Violationf(key("RayCollisions", "panic"), wray("panic", p), "RayCollisions panicked: %s", p)
			continue
		}
		tl.Count(pre+"rays", 1)
		tl.Count(fmt.Sprintf("%srays.hits%d", pre, minInt(n0, 3)), 1)
		if cnt != n0 || len(got) != n0 {
			c.Violationf(key("RayCollisions", "hits"), wray("returned", cnt, "callbacks", len(got), "original_hits", n0),
				"%s: %d hits (%d callbacks) on the transformed ray, %d on the original ray", b.kind, cnt, len(got), n0)
		} else {
			got = sortHits(got)
			stol := 1e-6 * (1 + a.F*a.K)
			for j := range got {
				if !(math.Abs(got[j].s-h0[j].s) <= stol*(1+math.Abs(h0[j].s))) {
					c.Violationf(key("RayCollisions", "hits"), wray("original_scale", h0[j].s, "got_scale", got[j].s),
						"%s: hit %d has ray parameter %.17g on the transformed ray, %.17g on the original ray", b.kind, j, got[j].s, h0[j].s)
					break
				}
				want := outerNormal(h0[j].n)
				if !(maxAbsDiff(got[j].n, want) <= 1e-5*(1+a.F*a.K)) {
					c.Violationf(key("RayCollisions", "hit-normals"), wray("original_normal", h0[j].n, "got_normal", got[j].n, "want_normal", want),
						"%s: hit %d has normal %v, expected the unit linear image %v of the original normal", b.kind, j, got[j].n, want)
					break
				}
			}
		}
		if p := callSafely(func() { cnt, _ = w.rays(Q, E, false) }); p != "" {
			c.Violationf(key("RayCollisions", "nil-callback"), wray("panic", p, "original_hits", n0),
				"RayCollisions(ray, nil) panicked (%s); a nil callback is documented as counting only", p)
		} else if cnt != n0 {
			c.Violationf(key("RayCollisions", "hits"), wray("returned", cnt, "original_hits", n0),
				"RayCollisions(ray, nil) returned %d, the original has %d hits", cnt, n0)
		}
		f0, ok0 := b.orig.first(o, d)
		var f1 hit
		var ok1 bool
		if p := callSafely(func() { f1, ok1 = w.first(Q, E) }); p != "" {
			c.Violationf(key("FirstRayCollision", "panic"), wray("panic", p), "FirstRayCollision panicked: %s", p)
		} else {
			tl.Count(pre+"first", 1)
			if ok0 != ok1 {
				c.Violationf(key("FirstRayCollision", "hit"), wray("collides", ok1, "original_collides", ok0), "%s: FirstRayCollision collides = %v, original %v", b.kind, ok1, ok0)
			} else if ok0 {
				stol := 1e-6 * (1 + a.F*a.K)
				if !(math.Abs(f1.s-f0.s) <= stol*(1+math.Abs(f0.s))) {
					c.Violationf(key("FirstRayCollision", "hit"), wray("original_scale", f0.s, "got_scale", f1.s),
						"%s: first hit has ray parameter %.17g on the transformed ray, %.17g on the original ray", b.kind, f1.s, f0.s)
				} else if want := outerNormal(f0.n); f0.n.finite() && !(maxAbsDiff(f1.n, want) <= 1e-5*(1+a.F*a.K)) {
					c.Violationf(key("FirstRayCollision", "hit-normal"), wray("original_normal", f0.n, "got_normal", f1.n, "want_normal", want),
						"%s: first hit has normal %v, expected %v", b.kind, f1.n, want)
				}
			}
		}
		// ball
		cen := boxPoint(rng, dim, lo, hi, 0.4)
		rad := scale * pick(rng, 0.01, 0.1, 0.3, 1, rng.Float64())
		b0 := b.orig.ball(cen, rad)
		bst := b.orig.ball(cen, rad*(1+1e-5)) == b0 && b.orig.ball(cen, rad*(1-1e-5)) == b0
		for j := 0; j < 4 && bst; j++ {
			if b.orig.ball(cen.add(randDir(rng, dim).scale(1e-6*(scale+a.M))), rad) != b0 {
				bst = false
			}
		}
		ac := newAcc()
		C := r.fwd(cen, ac)
		if !bst || !(ac.G*ac.K <= 1e4) {
			c.Undecided("collider.unstable-ball")
		} else {
			tl.Count(pre+"balls", 1)
			if got := w.ball(C, k*rad); got != b0 {
				c.Violationf(key(ballName, "equal"), wit(s, "object", objDesc(b.kind, b.desc), "center", cen, "radius", rad, "outer_center", C, "outer_radius", k*rad),
					"%s: %s(t(c), k*r) = %v, original %s(c, r) = %v", b.kind, ballName, got, ballName, b0)
			}
		}
	}
}

func minInt(a, b int) int {
	if a < b {
		return a
	}
	return b
}

// checkHit compares one outer collision with the synthetic inner collision
// the spy reported.
func checkHit(c *vlib.Case, key func(string, string) string, method string, w func(...interface{}) map[string]interface{},
	inner, outer hit, outerNormal func(V) V, amp float64) {
	if !(math.Abs(outer.s-inner.s) <= relTol*4*math.Abs(inner.s)) {
		c.Violationf(key(method, "ray-parameter"), w("original_scale", inner.s, "got_scale", outer.s),
			"collision at ray parameter %.17g of the pulled-back ray is reported at parameter %.17g of the outer ray (must be the same number)", inner.s, outer.s)
	}
	want := outerNormal(inner.n)
	ln := outer.n.norm()
	if !(math.Abs(ln-1) <= 1e-9) {
		c.Violationf(key(method, "normal-not-unit"), w("original_normal", inner.n, "got_normal", outer.n, "norm", ln),
			"reported normal %v has length %.17g", outer.n, ln)
	} else if !(maxAbsDiff(outer.n, want) <= relTol*amp*8) {
		c.Violationf(key(method, "normal-direction"), w("original_normal", inner.n, "got_normal", outer.n, "want_normal", want),
			"reported normal %v is not the unit linear image %v of the original normal", outer.n, want)
	}
}

// ---------------------------------------------------------------------------
// metaballs

func boxDist(x, lo, hi V) float64 {
	var s float64
	for i := 0; i < 3; i++ {
		d := math.Max(math.Max(lo[i]-x[i], x[i]-hi[i]), 0)
		s += d * d
	}
	return math.Sqrt(s)
}

func checkMeta(c *vlib.Case, dim int, s *spec, b metaBundle) {
	tl := newTally(c)
	defer tl.flush()
	rng := c.Rng
	r := s.ref()
	ri := r.inv()
	t := s.adapter(dim)
	helper := rng.Intn(2) == 0
	var w metaH
	var api string
	if p := callSafely(func() { w, api = b.wrap(s, helper) }); p != "" {
		c.Violationf(pkgOf(dim)+".TransformMetaball/construct-panic", wit(s, "object", objDesc(b.kind, b.desc)), "constructing the transformed metaball panicked: %s", p)
		return
	}
	pre := fmt.Sprintf("metaball%dd.", dim)
	tl.Count(pre+"objects."+baseKind(b.kind), 1)
	tl.Count(pre+"api."+api, 1)
	key := func(clause string) string { return fmt.Sprintf("%s[%s]/%s", api, s.Kind, clause) }
	lo, hi := b.orig.lo(), b.orig.hi()
	scale := boxScale(lo, hi)
	wl, wh := w.lo(), w.hi()
	c.Nontrivial(fmt.Sprintf("meta|%d|%s|%v", dim, b.kind, s.describe()))

	for i := 0; i < 12; i++ {
		p := boxPoint(rng, dim, lo, hi, pick(rng, 0.1, 0.5, 2))
		a := newAcc()
		r.fwd(p, a)
		amp := a.G * a.K
		if !(amp <= 1e4) {
			c.Undecided("metaball.ill-conditioned")
			continue
		}
		ptol := relTol * a.M * amp
		q := t.apply(p)
		if b.spy != nil {
			b.spy.reset()
		}
		f0 := b.orig.field(p)
		if b.spy != nil {
			b.spy.reset()
		}
		f1 := w.field(q)
		tl.Count(pre+"field", 1)
		if b.spy != nil {
			if b.spy.calls == 0 {
				c.Violationf(key("original-not-consulted"), wit(s, "p", p), "MetaballField(t(p)) did not consult the original")
			} else if d := maxAbsDiff(b.spy.pt, p); !(d <= ptol) {
				c.Violationf(key("pulled-back-point"), wit(s, "p", p, "t(p)", q, "asked", b.spy.pt, "tol", ptol),
					"MetaballField(t(p)) consulted the original at %v instead of p = %v", b.spy.pt, p)
			}
		}
		// all generated originals have fields that are Lipschitz with a
		// constant <= lipField in Euclidean distance
		ftol := relTol*math.Abs(f0) + lipField(b, f0)*ptol*4
		if !(math.Abs(f1-f0) <= ftol) {
			c.Violationf(key("field"), wit(s, "object", objDesc(b.kind, b.desc), "p", p, "t(p)", q, "orig_field", f0, "got_field", f1, "tol", ftol),
				"%s of %s: MetaballField(t(p)) = %.17g, original MetaballField(p) = %.17g", api, b.kind, f1, f0)
			continue
		}
		// bounds: a point where the field is clearly <= 0 must be inside Min/Max
		if f1 < -1e-6*scale {
			tl.Count(pre+"bounds_points", 1)
			slack := relTol * math.Max(a.M, math.Max(wl.maxAbs(), wh.maxAbs()))
			for j := 0; j < dim; j++ {
				if q[j] < wl[j]-slack || q[j] > wh[j]+slack {
					c.Violationf(key("bounds"), wit(s, "object", objDesc(b.kind, b.desc), "p", p, "t(p)", q, "field", f1, "new_min", wl, "new_max", wh),
						"field %.17g <= 0 at %v outside the reported bounds [%v, %v]", f1, q, wl, wh)
					break
				}
			}
		}
		// MetaballDistBound: with D the true Euclidean distance from q to the
		// transformed zero set, field(q) >= bound(D') for every D' <= D.
		if b.dist == nil {
			continue
		}
		var D float64
		switch {
		case s.isDist():
			x := ri.fwd(q, nil)
			D = s.factor() * b.dist(x)
		case s.Kind == "vecscale" && b.isBox:
			l2, h2 := b.bmin.mul(s.VS), b.bmax.mul(s.VS)
			D = boxDist(q, l2.min(h2), l2.max(h2))
		case s.Kind == "vecscale":
			// lower bound only: distances shrink by at most min |scale|
			x := ri.fwd(q, nil)
			ab := V{math.Abs(s.VS[0]), math.Abs(s.VS[1]), math.Abs(s.VS[2])}
			m := math.Min(ab[0], ab[1])
			if dim == 3 {
				m = math.Min(m, ab[2])
			}
			D = m * b.dist(x)
		default:
			continue
		}
		if !(D > 1e-6*scale) {
			continue
		}
		for _, frac := range []float64{1, 0.5, 1e-3} {
			dq := D * frac * (1 - 1e-9)
			bd := w.bound(dq)
			tl.Count(pre+"dist_bound", 1)
			if !(f1 >= bd-relTol*math.Abs(bd)-lipField(b, f0)*ptol*4) {
				c.Violationf(key("dist-bound-not-a-lower-bound"), wit(s, "object", objDesc(b.kind, b.desc), "q", q, "true_distance", D, "asked_distance", dq, "bound", bd, "field", f1),
					"%s of %s: MetaballDistBound(%.17g) = %.17g exceeds the field %.17g at a point whose distance to the surface is %.17g", api, b.kind, dq, bd, f1, D)
				break
			}
		}
	}
}

// lipField bounds the Euclidean Lipschitz constant of the original field near
// a point with field value f.
func lipField(b metaBundle, f float64) float64 {
	if b.spy != nil {
		// field = d + d^2/scale-free: derivative 1 + 2 d, with d <= |f|
		return 1 + 2*math.Abs(f)
	}
	return 1
}
