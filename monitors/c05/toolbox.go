package main

import (
	"fmt"
	"math"

	"verif/vlib"
)

// Laws specific to the toolbox3d axis maps (beyond the generic inverse and
// bounds laws, which laws3d applies to them as to every other transform):
// identity off the axis, independence of the other coordinates, monotone
// along the axis, and the slopes / fixed regions their documentation states.

func withAxis(p V, ax int, u float64) V {
	p[ax] = u
	return p
}

func checkToolbox(c *vlib.Case, s *spec) {
	tl := newTally(c)
	defer tl.flush()
	rng := c.Rng
	name := s.name(3)
	t := s.adapter(3)
	r := s.ref()
	ax := s.Ax
	pre := "toolbox." + s.Kind + "."
	tl.Count(pre+"transforms", 1)
	c.Nontrivial(fmt.Sprintf("toolbox|%v", s.describe()))

	// interesting axis range
	lo, hi := s.Lo, s.Hi
	if s.Kind == "smart" {
		lo, hi = s.BMin[ax], s.BMax[ax]
	}
	w := hi - lo
	axisVal := func() float64 {
		if _, vals := s.specialCoords(); len(vals) > 0 && rng.Intn(3) == 0 {
			v := vals[rng.Intn(len(vals))]
			switch rng.Intn(3) {
			case 0:
				return v
			case 1:
				return math.Nextafter(v, math.Inf(1))
			default:
				return math.Nextafter(v, math.Inf(-1))
			}
		}
		return lo - 0.5*w + rng.Float64()*2*w
	}

	for i := 0; i < 16; i++ {
		base := genVec(rng, 3, true)
		u1, u2 := axisVal(), axisVal()
		if u1 > u2 {
			u1, u2 = u2, u1
		}
		p1, p2 := withAxis(base, ax, u1), withAxis(base, ax, u2)
		a := newAcc()
		yr1 := r.fwd(p1, a)
		yr2 := r.fwd(p2, a)
		y1, y2 := t.apply(p1), t.apply(p2)
		if !y1.finite() || !y2.finite() {
			c.Undecided("toolbox.non-finite")
			continue
		}
		M := 1 + a.M

		// identity off the axis (exact: the other coordinates are not touched)
		tl.Count(pre+"off_axis", 2)
		for j := 0; j < 3; j++ {
			if j != ax && (y1[j] != p1[j] || y2[j] != p2[j]) {
				c.Violationf(name+"/identity-off-axis", wit(s, "p", p1, "t(p)", y1), "coordinate %d changed although the map acts along axis %d", j, ax)
			}
		}
		// the axis value does not depend on the other coordinates
		other := withAxis(genVec(rng, 3, true), ax, u1)
		if yo := t.apply(other); yo[ax] != y1[ax] {
			c.Violationf(name+"/axis-independent-of-other-coordinates", wit(s, "p", p1, "p'", other, "t(p)", y1, "t(p')", yo),
				"same axis value %v maps to %v and %v depending on the other coordinates", u1, y1[ax], yo[ax])
		}
		// monotone along the axis
		tl.Count(pre+"monotone_pairs", 1)
		if y2[ax] < y1[ax]-1e-12*M {
			c.Violationf(name+"/monotone", wit(s, "p1", p1, "p2", p2, "t(p1)", y1, "t(p2)", y2),
				"axis values %.17g < %.17g map to %.17g > %.17g", u1, u2, y1[ax], y2[ax])
		} else if yr2[ax]-yr1[ax] > 1e-6*M && !(y2[ax] > y1[ax]) {
			c.Violationf(name+"/monotone", wit(s, "p1", p1, "p2", p2, "t(p1)", y1, "t(p2)", y2),
				"distinct axis values %.17g < %.17g collapse to %.17g, %.17g", u1, u2, y1[ax], y2[ax])
		}

		switch s.Kind {
		case "squeeze":
			// documented: Ratio = new length / old length inside [Min, Max];
			// nothing else is compressed
			var slope float64
			switch {
			case u1 >= s.Lo && u2 <= s.Hi:
				slope = s.Ratio
			case u2 <= s.Lo || u1 >= s.Hi:
				slope = 1
			default:
				continue
			}
			tl.Count(pre+"slope_pairs", 1)
			want := slope * (u2 - u1)
			if !(math.Abs((y2[ax]-y1[ax])-want) <= relTol*M*math.Max(1, s.Ratio)) {
				c.Violationf(name+"/length-ratio", wit(s, "u1", u1, "u2", u2, "t(u1)", y1[ax], "t(u2)", y2[ax], "slope", slope),
					"length %.17g between axis values %.17g and %.17g became %.17g, expected %.17g", u2-u1, u1, u2, y2[ax]-y1[ax], want)
			}
		case "pinch":
			cen := (s.Lo + s.Hi) / 2
			for _, pr := range [][2]float64{{u1, y1[ax]}, {u2, y2[ax]}} {
				u, y := pr[0], pr[1]
				tl.Count(pre+"doc_points", 1)
				tol := relTol * M
				switch {
				case u < s.Lo || u > s.Hi:
					if y != u {
						c.Violationf(name+"/identity-outside-region", wit(s, "u", u, "t(u)", y), "axis value %.17g outside [Min, Max] moved to %.17g", u, y)
					}
				default:
					if y < s.Lo-tol || y > s.Hi+tol {
						c.Violationf(name+"/region-maps-into-itself", wit(s, "u", u, "t(u)", y), "axis value %.17g inside the region left it: %.17g", u, y)
					}
					if (u-cen)*(y-cen) < -tol*tol {
						c.Violationf(name+"/side-of-centre", wit(s, "u", u, "t(u)", y), "axis value %.17g crossed the centre %.17g: %.17g", u, cen, y)
					}
					du, dy := math.Abs(u-cen), math.Abs(y-cen)
					switch {
					case s.Power == 1 && math.Abs(y-u) > tol:
						c.Violationf(name+"/power-one-is-identity", wit(s, "u", u, "t(u)", y), "Power 1 moved %.17g to %.17g", u, y)
					case s.Power > 1 && dy > du+tol:
						c.Violationf(name+"/higher-power-pulls-to-centre", wit(s, "u", u, "t(u)", y), "Power %.3g moved %.17g away from the centre: %.17g", s.Power, u, y)
					case s.Power < 1 && dy < du-tol:
						c.Violationf(name+"/lower-power-pushes-from-centre", wit(s, "u", u, "t(u)", y), "Power %.3g moved %.17g towards the centre: %.17g", s.Power, u, y)
					}
				}
			}
		}
	}

	if s.Kind == "smart" {
		// Within one stretch of the axis that is entirely squeezable (or entirely
		// unsqueezable and away from the pinches) the map is linear with slope
		// SqueezeRatio (or one).
		pw := smartPW(ax, lo, hi, s.Ratio, s.blocked())
		inPinch := func(u float64) bool {
			for _, p := range s.Pinches {
				if u >= p-s.PinchRange*1.001 && u <= p+s.PinchRange*1.001 {
					return true
				}
			}
			return false
		}
		type stretch struct{ a, b, slope float64 }
		var st []stretch
		for i := 0; i+1 < len(pw.xs); i++ {
			sl := (pw.ys[i+1] - pw.ys[i]) / (pw.xs[i+1] - pw.xs[i])
			st = append(st, stretch{pw.xs[i], pw.xs[i+1], sl})
		}
		for _, x := range st {
			if !(x.b-x.a > 1e-6*w) {
				continue
			}
			m := (x.b - x.a) * 1e-3
			u1 := x.a + m + rng.Float64()*(x.b-x.a-2*m)
			u2 := x.a + m + rng.Float64()*(x.b-x.a-2*m)
			if u1 > u2 {
				u1, u2 = u2, u1
			}
			if inPinch(u1) || inPinch(u2) || inPinch((u1+u2)/2) || inPinch(x.a+m) || inPinch(x.b-m) {
				continue
			}
			base := genVec(rng, 3, true)
			a := newAcc()
			r.fwd(withAxis(base, ax, u1), a)
			r.fwd(withAxis(base, ax, u2), a)
			y1, y2 := t.apply(withAxis(base, ax, u1)), t.apply(withAxis(base, ax, u2))
			want := x.slope * (u2 - u1)
			kind := "unsqueezable"
			if x.slope != 1 {
				kind = "squeezable"
			}
			tl.Count(pre+"stretch_pairs."+kind, 1)
			if !(math.Abs((y2[ax]-y1[ax])-want) <= relTol*(1+a.M)*a.F) {
				c.Violationf(name+"/length-ratio", wit(s, "u1", u1, "u2", u2, "t(u1)", y1[ax], "t(u2)", y2[ax], "slope", x.slope, "stretch", fmt.Sprint(x.a, x.b)),
					"length %.17g inside the %s stretch [%.17g, %.17g] became %.17g, expected slope %.17g", u2-u1, kind, x.a, x.b, y2[ax]-y1[ax], x.slope)
			}
		}
	}
}

func toolboxSections(r *vlib.Run) {
	r.Section("toolbox", r.N(24000, 300000), vlib.SectionOpts{}, func(c *vlib.Case) {
		kind := []string{"squeeze", "pinch", "smart"}[c.Index%3]
		checkToolbox(c, genLeaf(c.Rng, genOpts{dim: 3, mild: true}, kind))
	})
}
