package main

import (
	"fmt"
	"math"
	"math/rand"

	"github.com/unixpickle/model3d/model2d"
	"github.com/unixpickle/model3d/model3d"
	"github.com/unixpickle/model3d/toolbox3d"
	"verif/vlib"
)

// MarchingCubesConj / MarchingSquaresConj: the result must be exactly the
// search mesh of the transformed solid mapped back through the inverse (face
// multiset), every vertex must lie on the surface of the ORIGINAL solid (to
// within the search resolution pulled back through the inverse), and the
// orientation must be that of the mesh in transformed space (only
// orientation-preserving transforms are generated).

// genMCSpecs returns 1-3 orientation-preserving transforms placed relative to
// the model's bounds.
func genMCSpecs(rng *rand.Rand, dim int, bmin, bmax V) []*spec {
	n := 1 + rng.Intn(3)
	var res []*spec
	for i := 0; i < n; i++ {
		o := genOpts{dim: dim, mild: true, cond: 30}
		kinds := []string{"translate", "scale", "rotation", "vecscale", "matrix"}
		if dim == 3 {
			kinds = append(kinds, "squeeze", "squeeze", "smart", "pinch")
		}
		var s *spec
		switch k := kinds[rng.Intn(len(kinds))]; k {
		case "vecscale":
			s = genLeaf(rng, o, k)
			for j := range s.VS {
				s.VS[j] = math.Abs(s.VS[j])
			}
		case "matrix":
			for {
				s = genLeaf(rng, o, k)
				if s.M.det() > 0 {
					break
				}
			}
		case "squeeze":
			ax := rng.Intn(3)
			w := bmax[ax] - bmin[ax]
			a := bmin[ax] + w*pick(rng, 0.1, 0.2, 0.3, -0.1)
			b := bmax[ax] - w*pick(rng, 0.1, 0.2, 0.3, -0.1)
			s = &spec{Kind: "squeeze", Ax: ax, Lo: a, Hi: b, Ratio: pick(rng, 0.1, 0.2, 0.5, 0.3, 2)}
		case "pinch":
			ax := rng.Intn(3)
			w := bmax[ax] - bmin[ax]
			cen := pick(rng, bmin[ax], bmax[ax], (bmin[ax]+bmax[ax])/2)
			s = &spec{Kind: "pinch", Ax: ax, Lo: cen - 0.1*w, Hi: cen + 0.1*w, Power: pick(rng, 0.25, 0.5, 2)}
		case "smart":
			s = genSmartFor(rng, bmin, bmax)
		default:
			s = genLeaf(rng, o, k)
		}
		res = append(res, s)
	}
	return res
}

func mcSection3(c *vlib.Case) {
	tl := newTally(c)
	defer tl.flush()
	rng := c.Rng
	p := genPrim3(rng)
	for p.kind == "Cone" { // its apex makes the surface probe unsound; covered as a solid elsewhere
		p = genPrim3(rng)
	}
	solid := model3d.Solid(p.obj)
	bmin, bmax := from3(solid.Min()), from3(solid.Max())
	specs := genMCSpecs(rng, 3, bmin, bmax)
	js := &spec{Kind: "joined", Kids: specs}
	r := js.ref()
	var xforms []model3d.Transform
	for _, s := range specs {
		xforms = append(xforms, s.lib3())
	}
	joined := model3d.JoinedTransform(xforms)
	ts := model3d.TransformSolid(joined, solid)
	tmin, tmax := from3(ts.Min()), from3(ts.Max())
	if !model3d.BoundsValid(ts) {
		c.Violationf("model3d.TransformSolid/bounds-valid", wit(js, "object", p.kind), "transformed solid has invalid bounds %v %v", tmin, tmax)
		return
	}
	// resolve the thinnest extent with a few cells, but keep the grid bounded
	size := boxScale(tmin, tmax)
	delta := math.Max(minExtent(tmin, tmax, 3)/float64(3+rng.Intn(4)), size/48)
	iters := 6 + rng.Intn(4)
	tl.Count("mc3d.cases", 1)
	tl.Count("mc3d.objects."+p.kind, 1)
	for _, s := range specs {
		tl.Count("mc3d.transforms."+s.Kind, 1)
	}

	ref1 := model3d.MarchingCubesSearch(ts, delta, iters)
	ref2 := model3d.MarchingCubesSearch(ts, delta, iters)
	if ok, _ := vlib.EqualCanonTris(vlib.CanonTris(vlib.Tris(ref1)), vlib.CanonTris(vlib.Tris(ref2))); !ok {
		c.Undecided("mc3d.search-nondeterministic")
		return
	}
	conj := model3d.MarchingCubesConj(solid, delta, iters, xforms...)
	inv := joined.Inverse()
	refTris := vlib.Tris(ref1)
	mapped := make([]vlib.Tri, len(refTris))
	for i, t := range refTris {
		for j, v := range t {
			mapped[i][j] = inv.Apply(v)
		}
	}
	conjTris := vlib.Tris(conj)
	w := wit(js, "object", p.desc, "delta", delta, "iters", iters, "faces", len(conjTris))
	if len(conjTris) == 0 {
		c.Undecided("mc3d.empty-mesh")
		return
	}
	c.Nontrivial(fmt.Sprintf("mc3|%s|%v|%v", p.kind, js.describe(), delta))
	c.Sample("mc3d", 2, w)
	tl.Count("mc3d.faces", int64(len(conjTris)))
	if ok, why := vlib.EqualCanonTris(vlib.CanonTris(mapped), vlib.CanonTris(conjTris)); !ok {
		c.Violationf("model3d.MarchingCubesConj/equals-search-of-transformed-solid-mapped-back", w,
			"MarchingCubesConj differs from MarchingCubesSearch(TransformSolid(...)) mapped through the inverse: %s", why)
	}
	// the SmartSqueeze shortcut is MarchingCubesConj through the squeeze's own transform
	if c.Index%3 == 0 {
		ax := rng.Intn(3)
		lo, hi := solid.Min().Array()[ax], solid.Max().Array()[ax]
		sq := toolbox3d.NewSmartSqueeze(toolbox3d.Axis(ax), []float64{0, 0.1, 0.3, 0.7}[rng.Intn(4)], (hi-lo)*0.02, []float64{0, 0.25, 0.5}[rng.Intn(3)])
		for k := rng.Intn(3); k > 0; k-- {
			a := lo + (hi-lo)*rng.Float64()
			sq.AddUnsqueezable(a, a+(hi-lo)*0.3*rng.Float64())
		}
		if rng.Intn(2) == 0 {
			sq.AddPinch(lo + (hi-lo)*(0.2+0.6*rng.Float64()))
		}
		want := model3d.MarchingCubesConj(solid, delta, iters, sq.Transform(solid))
		got := sq.MarchingCubesSearch(solid, delta, iters)
		tl.Count("mc3d.smart_squeeze_shortcuts", 1)
		if ok, why := vlib.EqualCanonTris(vlib.CanonTris(vlib.Tris(want)), vlib.CanonTris(vlib.Tris(got))); !ok {
			c.Violationf("toolbox3d.SmartSqueeze.MarchingCubesSearch/equals-conjugated-search", wit(js, "object", p.desc, "delta", delta, "iters", iters, "squeeze", fmt.Sprintf("%+v", *sq)),
				"differs from MarchingCubesConj(solid, delta, iters, squeeze.Transform(solid)): %s", why)
		}
	}
	if js.has("squeeze") || js.has("pinch") || js.has("smart") {
		// Mapping the vertices of a coarse mesh through a map that is only piecewise linear along an
		// axis re-straightens the faces: a thin sliver can change the sign of its volume although the
		// map itself preserves orientation (found as a false alarm of this clause at seed 2: an
		// 8-face mesh across a squeeze breakpoint). The clause is decided for affine maps only.
		c.Undecided("mc3d.orientation-under-non-affine-map")
	} else if a, b := vlib.SignedVolume(conjTris), vlib.SignedVolume(refTris); a*b <= 0 {
		c.Violationf("model3d.MarchingCubesConj/orientation", w, "signed volume %.6g of the result vs %.6g in transformed space: orientation flipped by an orientation-preserving transform", a, b)
	}
	// every vertex lies on the surface of the original solid
	seen := map[model3d.Coord3D]bool{}
	objSize := minExtent(bmin, bmax, 3)
	res := delta / math.Pow(2, float64(iters))
	bad := 0
	for _, t := range conjTris {
		for _, v3 := range t {
			if seen[v3] {
				continue
			}
			seen[v3] = true
			v := from3(v3)
			a := newAcc()
			r.fwd(v, a)
			if !(a.G*a.K <= 100) {
				tl.Count("mc3d.vertices_skipped_ill_conditioned", 1)
				continue
			}
			rad := 4*a.G*a.K*res + 1e-9*(1+a.M)
			if rad > 0.02*objSize {
				// the probe argument needs a radius far below the feature size
				tl.Count("mc3d.vertices_skipped_coarse", 1)
				continue
			}
			in, out := false, false
			if solid.Contains(v3) {
				in = true
			} else {
				out = true
			}
			for _, d := range probeDirs {
				if solid.Contains(to3(v.add(d.scale(rad)))) {
					in = true
				} else {
					out = true
				}
			}
			tl.Count("mc3d.vertices_probed", 1)
			if !(in && out) && bad == 0 {
				bad++
				w2 := wit(js, "object", p.desc, "delta", delta, "iters", iters, "vertex", v, "probe_radius", rad)
				c.Violationf("model3d.MarchingCubesConj/vertex-on-original-surface", w2,
					"vertex %v of the result is not within %.3g of the surface of the original %s (all 27 probes inside=%v)", v, rad, p.kind, in)
			}
		}
	}
}

func mcSection2(c *vlib.Case) {
	tl := newTally(c)
	defer tl.flush()
	rng := c.Rng
	// triangles with very acute corners defeat the 32-direction surface probe
	p := genPrim2Raw(rng, math.Pi/6)
	if p.desc == "" {
		p.desc = fmt.Sprintf("%s%+v", p.kind, p.obj)
	}
	solid := model2d.Solid(p.obj)
	bmin, bmax := from2(solid.Min()), from2(solid.Max())
	specs := genMCSpecs(rng, 2, bmin, bmax)
	js := &spec{Kind: "joined", Kids: specs}
	r := js.ref()
	var xforms []model2d.Transform
	for _, s := range specs {
		xforms = append(xforms, s.lib2())
	}
	joined := model2d.JoinedTransform(xforms)
	ts := model2d.TransformSolid(joined, solid)
	tmin, tmax := from2(ts.Min()), from2(ts.Max())
	size := boxScale(tmin, tmax)
	delta := math.Max(minExtent(tmin, tmax, 2)/float64(3+rng.Intn(6)), size/200)
	iters := 6 + rng.Intn(4)
	tl.Count("mc2d.cases", 1)
	tl.Count("mc2d.objects."+p.kind, 1)
	for _, s := range specs {
		tl.Count("mc2d.transforms."+s.Kind, 1)
	}
	var ref1, ref2 *model2d.Mesh
	if pn := callSafely(func() {
		ref1 = model2d.MarchingSquaresSearch(ts, delta, iters)
		ref2 = model2d.MarchingSquaresSearch(ts, delta, iters)
	}); pn != "" {
		// a failure of the plain search is not this property's subject
		c.Undecided("mc2d.search-panics")
		return
	}
	if ok, _ := vlib.EqualCanonSegs(vlib.CanonSegs(vlib.Segs(ref1)), vlib.CanonSegs(vlib.Segs(ref2))); !ok {
		c.Undecided("mc2d.search-nondeterministic")
		return
	}
	conj := model2d.MarchingSquaresConj(solid, delta, iters, xforms...)
	inv := joined.Inverse()
	refSegs := vlib.Segs(ref1)
	mapped := make([]vlib.Seg, len(refSegs))
	for i, s := range refSegs {
		for j, v := range s {
			mapped[i][j] = inv.Apply(v)
		}
	}
	conjSegs := vlib.Segs(conj)
	if len(conjSegs) == 0 {
		c.Undecided("mc2d.empty-mesh")
		return
	}
	w := wit(js, "object", p.desc, "delta", delta, "iters", iters, "faces", len(conjSegs))
	c.Nontrivial(fmt.Sprintf("mc2|%s|%v|%v", p.kind, js.describe(), delta))
	c.Sample("mc2d", 2, w)
	tl.Count("mc2d.faces", int64(len(conjSegs)))
	if ok, why := vlib.EqualCanonSegs(vlib.CanonSegs(mapped), vlib.CanonSegs(conjSegs)); !ok {
		c.Violationf("model2d.MarchingSquaresConj/equals-search-of-transformed-solid-mapped-back", w,
			"MarchingSquaresConj differs from MarchingSquaresSearch(TransformSolid(...)) mapped through the inverse: %s", why)
	}
	if a, b := vlib.SignedArea2(conjSegs), vlib.SignedArea2(refSegs); a*b <= 0 {
		c.Violationf("model2d.MarchingSquaresConj/orientation", w, "signed area %.6g of the result vs %.6g in transformed space", a, b)
	}
	seen := map[model2d.Coord]bool{}
	objSize := minExtent(bmin, bmax, 2)
	res := delta / math.Pow(2, float64(iters))
	bad := 0
	for _, s := range conjSegs {
		for _, v2 := range s {
			if seen[v2] {
				continue
			}
			seen[v2] = true
			v := from2(v2)
			a := newAcc()
			r.fwd(v, a)
			if !(a.G*a.K <= 100) {
				tl.Count("mc2d.vertices_skipped_ill_conditioned", 1)
				continue
			}
			rad := 4*a.G*a.K*res + 1e-9*(1+a.M)
			if rad > 0.02*objSize {
				tl.Count("mc2d.vertices_skipped_coarse", 1)
				continue
			}
			in, out := false, false
			if solid.Contains(v2) {
				in = true
			} else {
				out = true
			}
			for _, d := range probeDirs2 {
				if solid.Contains(to2(v.add(d.scale(rad)))) {
					in = true
				} else {
					out = true
				}
			}
			tl.Count("mc2d.vertices_probed", 1)
			if !(in && out) && bad == 0 {
				bad++
				w2 := wit(js, "object", p.desc, "delta", delta, "iters", iters, "vertex", v, "probe_radius", rad)
				c.Violationf("model2d.MarchingSquaresConj/vertex-on-original-surface", w2,
					"vertex %v of the result is not within %.3g of the outline of the original %s", v, rad, p.kind)
			}
		}
	}
}

// ---------------------------------------------------------------------------
// Mesh.Transform / Mesh.Rotate and CoordColorFunc.Transform

func meshSection(c *vlib.Case) {
	rng := c.Rng
	if c.Index%2 == 0 {
		m, kind := genMesh3(rng)
		s := genSpec(rng, genOpts{dim: 3, toolbox: true, depth: 1, cond: 100, mild: true})
		t := s.lib3()
		got := vlib.Tris(m.Transform(t))
		src := vlib.Tris(m)
		want := make([]vlib.Tri, len(src))
		for i, f := range src {
			for j, v := range f {
				want[i][j] = t.Apply(v)
			}
		}
		c.Count("mesh3d.transform", 1)
		if ok, why := vlib.EqualCanonTris(vlib.CanonTris(want), vlib.CanonTris(got)); !ok {
			c.Violationf("model3d.Mesh.Transform/faces-are-images", wit(s, "mesh", kind), "Mesh.Transform is not the face-wise image under Apply: %s", why)
		}
		// Rotate against the reference rotation
		rs := genLeaf(rng, genOpts{dim: 3}, "rotation")
		rr := rs.ref()
		rot := vlib.Tris(m.Rotate(to3(rs.Axis), rs.Theta))
		c.Count("mesh3d.rotate", 1)
		// compare as multisets with tolerance: sort both by the reference image
		wantR := make([]vlib.Tri, len(src))
		for i, f := range src {
			for j, v := range f {
				wantR[i][j] = to3(rr.fwd(from3(v), nil))
			}
		}
		if !matchTris(wantR, rot, 1e-9*(1+from3(m.Max()).maxAbs()+from3(m.Min()).maxAbs())) {
			c.Violationf("model3d.Mesh.Rotate/faces-are-rotated", wit(rs, "mesh", kind), "Mesh.Rotate does not rotate the faces right-handedly around the axis by the angle")
		}
		return
	}
	// CoordColorFunc.Transform: the colour at t(p) is the colour at p
	s := genSpec(rng, genOpts{dim: 3, toolbox: true, depth: 1, cond: 100, mild: true})
	r := s.ref()
	var asked V
	calls := 0
	cf := toolbox3d.CoordColorFunc(func(c model3d.Coord3D) model3d.Coord3D {
		calls++
		asked = from3(c)
		return model3d.XYZ(0.25, 0.5, 0.75)
	})
	tcf := cf.Transform(s.lib3())
	for i := 0; i < 8; i++ {
		p := genVec(rng, 3, true)
		a := newAcc()
		r.fwd(p, a)
		if !(a.G*a.K <= 1e4) {
			c.Undecided("colorfunc.ill-conditioned")
			continue
		}
		q := s.lib3().Apply(to3(p))
		calls = 0
		col := tcf(q)
		c.Count("colorfunc.queries", 1)
		if calls != 1 || col != model3d.XYZ(0.25, 0.5, 0.75) {
			c.Violationf("toolbox3d.CoordColorFunc.Transform/result", wit(s, "p", p), "transformed colour function made %d calls and returned %v", calls, col)
		} else if d := maxAbsDiff(asked, p); !(d <= relTol*a.M*a.G*a.K) {
			c.Violationf("toolbox3d.CoordColorFunc.Transform/pulled-back-point", wit(s, "p", p, "asked", asked), "colour at t(p) was looked up at %v instead of p = %v", asked, p)
		}
	}
}

// matchTris reports whether two face lists are equal as multisets up to tol
// per coordinate (greedy matching on canonically rotated faces; faces of the
// generated meshes are well separated compared with tol).
func matchTris(want, got []vlib.Tri, tol float64) bool {
	if len(want) != len(got) {
		return false
	}
	used := make([]bool, len(got))
	close3 := func(a, b vlib.Tri) bool {
		for rot := 0; rot < 3; rot++ {
			ok := true
			for j := 0; j < 3; j++ {
				if maxAbsDiff(from3(a[j]), from3(b[(j+rot)%3])) > tol {
					ok = false
					break
				}
			}
			if ok {
				return true
			}
		}
		return false
	}
	for _, w := range want {
		found := false
		for i, g := range got {
			if !used[i] && close3(w, g) {
				used[i] = true
				found = true
				break
			}
		}
		if !found {
			return false
		}
	}
	return true
}

func mcSections(r *vlib.Run) {
	r.Section("mc3d", r.N(700, 9000), vlib.SectionOpts{}, mcSection3)
	r.Section("mc2d", r.N(2000, 24000), vlib.SectionOpts{}, mcSection2)
	r.Section("mesh", r.N(4000, 48000), vlib.SectionOpts{}, meshSection)
}

func minExtent(lo, hi V, dim int) float64 {
	m := math.Inf(1)
	for i := 0; i < dim; i++ {
		m = math.Min(m, hi[i]-lo[i])
	}
	return m
}

var probeDirs2 = func() []V {
	var ds []V
	for i := 0; i < 32; i++ {
		a := 2 * math.Pi * float64(i) / 32
		ds = append(ds, V{math.Cos(a), math.Sin(a), 0})
	}
	return ds
}()
