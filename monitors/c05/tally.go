package main

import "verif/vlib"

// tally batches evidence counters per case: the run's counters sit behind one
// mutex, and the hot sections would otherwise contend on it millions of times.
type tally struct {
	c   *vlib.Case
	m   map[string]int64
	max map[string]float64
}

func newTally(c *vlib.Case) *tally {
	return &tally{c: c, m: map[string]int64{}, max: map[string]float64{}}
}

func (t *tally) Count(name string, n int64) { t.m[name] += n }

func (t *tally) Max(name string, v float64) {
	if old, ok := t.max[name]; !ok || v > old {
		t.max[name] = v
	}
}

func (t *tally) flush() {
	for k, v := range t.m {
		t.c.Count(k, v)
	}
	for k, v := range t.max {
		t.c.Max(k, v)
	}
}
