package main

import (
	"fmt"
	"math"
	"math/rand"
	"sort"

	"github.com/unixpickle/model3d/model2d"
	"github.com/unixpickle/model3d/model3d"
	"verif/vlib"
)

// pt is a point of either dimension (Z unused in 2D).
type pt struct{ X, Y, Z float64 }

func (p pt) bits() [3]uint64 {
	return [3]uint64{math.Float64bits(p.X), math.Float64bits(p.Y), math.Float64bits(p.Z)}
}

func (p pt) String() string { return fmt.Sprintf("(%g,%g,%g)", p.X, p.Y, p.Z) }
func (p pt) hex() string    { return fmt.Sprintf("(%x,%x,%x)", p.X, p.Y, p.Z) }

// treeAPI hides model3d.CoordTree / model2d.CoordTree behind one face.
type treeAPI struct {
	pkg   string
	dim   int
	build func(ps []pt) *treeInst
	hand  func(rng *rand.Rand, ps []pt) *treeInst
}

type treeInst struct {
	empty    bool
	leaf     bool
	contains func(p pt) bool
	nn       func(p pt) pt
	dist     func(p pt) float64
	knn      func(k int, p pt) []pt
	ball     func(p pt, r float64) bool
	slice    func() []pt
	sqDist   func(a, b pt) float64 // the library's own point-to-point routine
	ptDist   func(a, b pt) float64
	single   func(q pt) *treeInst // one-point tree: the "per-object routine"
	// the two children reached through the exported fields (nil for an absent child)
	children func() []*treeInst
}

func to3(p pt) C3   { return model3d.XYZ(p.X, p.Y, p.Z) }
func from3(c C3) pt { return pt{c.X, c.Y, c.Z} }
func to2(p pt) C2   { return model2d.XY(p.X, p.Y) }
func from2(c C2) pt { return pt{c.X, c.Y, 0} }

func build3(ps []pt) *treeInst {
	cs := make([]C3, len(ps))
	for i, p := range ps {
		cs[i] = to3(p)
	}
	return wrap3(model3d.NewCoordTree(cs))
}

func wrap3(t *model3d.CoordTree) *treeInst {
	return &treeInst{
		children: func() []*treeInst {
			var res []*treeInst
			if t != nil && t.LessThan != nil {
				res = append(res, wrap3(t.LessThan))
			}
			if t != nil && t.GreaterEqual != nil {
				res = append(res, wrap3(t.GreaterEqual))
			}
			return res
		},
		empty:    t.Empty(),
		leaf:     t.Leaf(),
		contains: func(p pt) bool { return t.Contains(to3(p)) },
		nn:       func(p pt) pt { return from3(t.NearestNeighbor(to3(p))) },
		dist:     func(p pt) float64 { return t.Dist(to3(p)) },
		knn: func(k int, p pt) []pt {
			r := t.KNN(k, to3(p))
			res := make([]pt, len(r))
			for i, x := range r {
				res[i] = from3(x)
			}
			return res
		},
		ball: func(p pt, r float64) bool { return t.SphereCollision(to3(p), r) },
		slice: func() []pt {
			r := t.Slice()
			res := make([]pt, len(r))
			for i, x := range r {
				res[i] = from3(x)
			}
			return res
		},
		sqDist: func(a, b pt) float64 { return to3(a).SquaredDist(to3(b)) },
		ptDist: func(a, b pt) float64 { return to3(a).Dist(to3(b)) },
		single: func(q pt) *treeInst { return build3([]pt{q}) },
	}
}

func build2(ps []pt) *treeInst {
	cs := make([]C2, len(ps))
	for i, p := range ps {
		cs[i] = to2(p)
	}
	return wrap2(model2d.NewCoordTree(cs))
}

func wrap2(t *model2d.CoordTree) *treeInst {
	return &treeInst{
		children: func() []*treeInst {
			var res []*treeInst
			if t != nil && t.LessThan != nil {
				res = append(res, wrap2(t.LessThan))
			}
			if t != nil && t.GreaterEqual != nil {
				res = append(res, wrap2(t.GreaterEqual))
			}
			return res
		},
		empty:    t.Empty(),
		leaf:     t.Leaf(),
		contains: func(p pt) bool { return t.Contains(to2(p)) },
		nn:       func(p pt) pt { return from2(t.NearestNeighbor(to2(p))) },
		dist:     func(p pt) float64 { return t.Dist(to2(p)) },
		knn: func(k int, p pt) []pt {
			r := t.KNN(k, to2(p))
			res := make([]pt, len(r))
			for i, x := range r {
				res[i] = from2(x)
			}
			return res
		},
		ball: func(p pt, r float64) bool { return t.SphereCollision(to2(p), r) },
		slice: func() []pt {
			r := t.Slice()
			res := make([]pt, len(r))
			for i, x := range r {
				res[i] = from2(x)
			}
			return res
		},
		sqDist: func(a, b pt) float64 { return to2(a).SquaredDist(to2(b)) },
		ptDist: func(a, b pt) float64 { return to2(a).Dist(to2(b)) },
		single: func(q pt) *treeInst { return build2([]pt{q}) },
	}
}

// hand3 / hand2 assemble a tree through the exported fields with a seeded split axis and pivot at
// every node (what the fields document: LessThan holds the points below the node's coordinate on
// SplitAxis, GreaterEqual the others); the axes do not follow the depth.
func hand3(rng *rand.Rand, ps []pt) *model3d.CoordTree {
	if len(ps) == 0 {
		return nil
	}
	ax := rng.Intn(3)
	k := rng.Intn(len(ps))
	piv := to3(ps[k])
	var lo, hi []pt
	for i, p := range ps {
		if i == k {
			continue
		}
		if to3(p).Array()[ax] < piv.Array()[ax] {
			lo = append(lo, p)
		} else {
			hi = append(hi, p)
		}
	}
	return &model3d.CoordTree{Coord: piv, SplitAxis: ax, LessThan: hand3(rng, lo), GreaterEqual: hand3(rng, hi)}
}

func hand2(rng *rand.Rand, ps []pt) *model2d.CoordTree {
	if len(ps) == 0 {
		return nil
	}
	ax := rng.Intn(2)
	k := rng.Intn(len(ps))
	piv := to2(ps[k])
	var lo, hi []pt
	for i, p := range ps {
		if i == k {
			continue
		}
		if to2(p).Array()[ax] < piv.Array()[ax] {
			lo = append(lo, p)
		} else {
			hi = append(hi, p)
		}
	}
	return &model2d.CoordTree{Coord: piv, SplitAxis: ax, LessThan: hand2(rng, lo), GreaterEqual: hand2(rng, hi)}
}

var tree3API = treeAPI{"model3d", 3, build3, func(rng *rand.Rand, ps []pt) *treeInst { return wrap3(hand3(rng, ps)) }}
var tree2API = treeAPI{"model2d", 2, build2, func(rng *rand.Rand, ps []pt) *treeInst { return wrap2(hand2(rng, ps)) }}

// genPoints draws a point cloud; exact clouds are on a small integer grid
// (squared distances are then exact integers).
func genPoints(rng *rand.Rand, dim, n int) (ps []pt, kind string, exact bool, g int) {
	g = 2 + rng.Intn(7)
	coord := func(f func() float64) pt {
		p := pt{X: f(), Y: f()}
		if dim == 3 {
			p.Z = f()
		}
		return p
	}
	switch k := rng.Intn(10); {
	case k < 3:
		kind, exact = "grid", true
		for i := 0; i < n; i++ {
			ps = append(ps, coord(func() float64 { return float64(rng.Intn(g + 1)) }))
		}
	case k < 4: // many points share coordinates on the split axes, signed zeros included
		kind, exact = "grid-coplanar", true
		nz := math.Copysign(0, -1)
		for i := 0; i < n; i++ {
			p := coord(func() float64 { return float64(rng.Intn(g + 1)) })
			switch rng.Intn(3) {
			case 0:
				p.X = pick(rng, []float64{0, nz, 1})
			case 1:
				p.Y = pick(rng, []float64{0, nz, 2})
			}
			ps = append(ps, p)
		}
	case k < 6: // heavy duplication
		kind, exact = "duplicates", true
		base := 1 + rng.Intn(4)
		var pool []pt
		for i := 0; i < base; i++ {
			pool = append(pool, coord(func() float64 { return float64(rng.Intn(g + 1)) }))
		}
		for i := 0; i < n; i++ {
			ps = append(ps, pool[rng.Intn(len(pool))])
		}
	case k < 7: // points at Pythagorean offsets from a centre: many exact distance ties
		kind, exact = "pythagorean", true
		offs := [][3]float64{{3, 4, 0}, {4, 3, 0}, {5, 0, 0}, {0, 5, 0}, {0, 3, 4}, {0, 4, 3}, {0, 0, 5}, {3, 0, 4}, {4, 0, 3}}
		c := coord(func() float64 { return float64(rng.Intn(g + 1)) })
		for i := 0; i < n; i++ {
			o := offs[rng.Intn(len(offs))]
			sg := func() float64 { return float64(2*rng.Intn(2) - 1) }
			p := pt{c.X + sg()*o[0], c.Y + sg()*o[1], c.Z + sg()*o[2]}
			if dim == 2 {
				if o[2] != 0 {
					p = pt{c.X + sg()*o[2], c.Y + sg()*(o[0]+o[1]), 0}
				}
				p.Z = 0
			}
			if rng.Intn(4) == 0 {
				p = coord(func() float64 { return float64(rng.Intn(g + 1)) })
			}
			ps = append(ps, p)
		}
	default:
		kind = "random"
		for i := 0; i < n; i++ {
			ps = append(ps, coord(rng.NormFloat64))
		}
	}
	return
}

func genTreeQuery(rng *rand.Rand, dim int, ps []pt, exact bool, g int) (pt, string) {
	coord := func(f func() float64) pt {
		p := pt{X: f(), Y: f()}
		if dim == 3 {
			p.Z = f()
		}
		return p
	}
	switch k := rng.Intn(10); {
	case k < 2 && len(ps) > 0:
		return ps[rng.Intn(len(ps))], "member"
	case k < 4 && len(ps) > 1: // midpoint: equidistant from two members
		a, b := ps[rng.Intn(len(ps))], ps[rng.Intn(len(ps))]
		p := pt{(a.X + b.X) / 2, (a.Y + b.Y) / 2, (a.Z + b.Z) / 2}
		return p, "midpoint"
	case k < 7 && exact:
		return coord(func() float64 { return float64(rng.Intn(2*g+5)-2) * 0.5 }), "grid"
	case k < 8 && len(ps) > 0: // shares one coordinate with a member (on a split plane)
		p := coord(func() float64 { return 3 * rng.NormFloat64() })
		m := ps[rng.Intn(len(ps))]
		switch rng.Intn(dim) {
		case 0:
			p.X = m.X
		case 1:
			p.Y = m.Y
		default:
			p.Z = m.Z
		}
		return p, "on-split-plane"
	default:
		if exact {
			return coord(func() float64 { return float64(g) * (1.5*rng.Float64() - 0.25) }), "random"
		}
		return coord(func() float64 { return 1.5 * rng.NormFloat64() }), "random"
	}
}

func ptsWitness(ps []pt) interface{} {
	if len(ps) > 80 {
		return fmt.Sprintf("%d points (regenerate from seed/section/index)", len(ps))
	}
	res := make([]string, len(ps))
	for i, p := range ps {
		res[i] = p.String() + " = " + p.hex()
	}
	return res
}

func closeRel(a, b float64) bool {
	return math.Abs(a-b) <= 1e-12*math.Max(math.Abs(a), math.Abs(b))
}

func treeCase(c *vlib.Case, api treeAPI, n, queries int) {
	rng := c.Rng
	ps, kind, exact, g := genPoints(rng, api.dim, n)
	t := api.build(ps)
	treeCheck(c, api, t, ps, kind, exact, g, queries)
	// sub-trees reached through the exported fields answer for exactly their own points
	if len(ps) <= 3000 {
		cur := t
		for depth := 0; depth < 4; depth++ {
			ch := cur.children()
			if len(ch) == 0 {
				break
			}
			cur = ch[rng.Intn(len(ch))]
			c.Count(fmt.Sprintf("tree%dd.subtrees_checked", api.dim), 1)
			treeCheck(c, api, cur, cur.slice(), kind+"/subtree", exact, g, 2)
		}
		// and so does a tree assembled by hand through those fields
		if len(ps) <= 400 && rng.Intn(3) == 0 {
			c.Count(fmt.Sprintf("tree%dd.hand_built_trees", api.dim), 1)
			treeCheck(c, api, api.hand(rng, ps), ps, kind+"/hand-built", exact, g, 3)
		}
	}
}

func treeCheck(c *vlib.Case, api treeAPI, t *treeInst, ps []pt, kind string, exact bool, g int, queries int) {
	rng := c.Rng
	pre := fmt.Sprintf("tree%dd", api.dim)
	c.Count(pre+".clouds", 1)
	c.Count(pre+".cloud."+kind, 1)
	c.Count(pre+".points", int64(len(ps)))
	key := func(m, clause string) string { return api.pkg + ".CoordTree." + m + "/" + clause }
	base := func(extra map[string]interface{}) map[string]interface{} {
		w := map[string]interface{}{"cloud_kind": kind, "points": ptsWitness(ps)}
		for k, v := range extra {
			w[k] = v
		}
		return w
	}

	// --- permutation clause: Slice() returns every input point exactly once
	in := map[[3]uint64]int{}
	for _, p := range ps {
		in[p.bits()]++
	}
	sl := t.slice()
	out := map[[3]uint64]int{}
	for _, p := range sl {
		out[p.bits()]++
	}
	same := len(sl) == len(ps) && len(in) == len(out)
	for k, v := range in {
		if out[k] != v {
			same = false
		}
	}
	c.Count(pre+".Slice.compared", 1)
	if !same {
		c.Violation(key("Slice", "permutation-of-input"), fmt.Sprintf("Slice has %d points (%d distinct), input %d (%d distinct) or different multiplicities", len(sl), len(out), len(ps), len(in)), base(nil))
	}
	if t.empty != (len(ps) == 0) {
		c.Violation(key("Empty", "iff-no-points"), fmt.Sprintf("Empty()=%v for %d points", t.empty, len(ps)), base(nil))
	}
	if t.leaf != (len(ps) <= 1) {
		c.Violation(key("Leaf", "iff-at-most-one-point"), fmt.Sprintf("Leaf()=%v for %d points", t.leaf, len(ps)), base(nil))
	}
	if len(ps) == 0 {
		c.Count(pre+".clouds_empty", 1)
	}
	if len(ps) == 1 {
		c.Count(pre+".clouds_single", 1)
	}

	for q := 0; q < queries; q++ {
		p, qk := genTreeQuery(rng, api.dim, ps, exact, g)
		c.Count(pre+".queries", 1)
		c.Count(pre+".query."+qk, 1)
		// linear scan with the library's own point-to-point routines
		sq := make([]float64, len(ps))
		minSq := math.Inf(1)
		isMember := false
		for i, x := range ps {
			sq[i] = t.sqDist(p, x)
			if sq[i] < minSq {
				minSq = sq[i]
			}
			if to3(x) == to3(p) { // == semantics (+0 == -0)
				isMember = true
			}
		}
		sorted := append([]float64{}, sq...)
		sort.Float64s(sorted)
		qw := func(extra map[string]interface{}) map[string]interface{} {
			w := base(map[string]interface{}{"query": p.String() + " = " + p.hex(), "query_kind": qk})
			for k, v := range extra {
				w[k] = v
			}
			return w
		}
		ties := 0
		for _, d := range sq {
			if d == minSq {
				ties++
			}
		}
		if ties > 1 {
			c.Count(pre+".queries_with_nearest_ties", 1)
		}

		// Contains
		c.Count(pre+".Contains.compared", 1)
		if got := t.contains(p); got != isMember {
			c.Violation(key("Contains", "iff-member"), fmt.Sprintf("Contains=%v, linear scan says %v", got, isMember), qw(nil))
		}
		if isMember {
			c.Count(pre+".Contains.true", 1)
		}

		// NearestNeighbor / Dist
		if len(ps) > 0 {
			c.Count(pre+".NearestNeighbor.compared", 1)
			nn := t.nn(p)
			if in[nn.bits()] == 0 && !ptIn(ps, nn) {
				c.Violation(key("NearestNeighbor", "member"), "returned point "+nn.String()+" is not in the tree", qw(nil))
			}
			gd := t.sqDist(p, nn)
			switch {
			case gd == minSq:
				c.Count(pre+".NearestNeighbor.bit_equal", 1)
			case closeRel(gd, minSq):
				c.Count(pre+".NearestNeighbor.within_tolerance", 1)
			default:
				c.Violation(key("NearestNeighbor", "attains-minimum"),
					fmt.Sprintf("returned %v at squared distance %v, linear scan minimum %v", nn, gd, minSq), qw(map[string]interface{}{"got_sq": hx(gd), "want_sq": hx(minSq)}))
			}
			c.Count(pre+".Dist.compared", 1)
			d := t.dist(p)
			if wantD := t.ptDist(nn, p); d != wantD && !closeRel(d*d, minSq) {
				c.Violation(key("Dist", "distance-to-nearest"), fmt.Sprintf("Dist=%v, nearest neighbour is at %v (squared min %v)", d, wantD, minSq), qw(nil))
			}
		}

		// KNN: k = 0, small, = n, > n
		var ks []int
		ks = append(ks, 1+rng.Intn(4))
		if len(ps) > 0 {
			ks = append(ks, 1+rng.Intn(len(ps)), len(ps))
		}
		ks = append(ks, len(ps)+1+rng.Intn(3))
		if rng.Intn(4) == 0 {
			ks = append(ks, 0)
		}
		if rng.Intn(3) == 0 {
			// k as "no limit" (documented: fewer than K coordinates are returned if the tree is smaller)
			ks = append(ks, math.MaxInt)
			c.Count(pre+".KNN.k_is_max_int", 1)
		}
		for _, k := range ks {
			c.Count(pre+".KNN.compared", 1)
			if k >= len(ps) {
				c.Count(pre+".KNN.k_ge_n", 1)
			}
			got := t.knn(k, p)
			wantLen := k
			if len(ps) < k {
				wantLen = len(ps)
			}
			kw := func() map[string]interface{} {
				var gs []string
				for _, x := range got {
					gs = append(gs, fmt.Sprintf("%v@%v", x, t.sqDist(p, x)))
				}
				return qw(map[string]interface{}{"k": k, "got": gs, "want_sq_dists": sorted[:wantLen]})
			}
			if len(got) != wantLen {
				c.Violation(key("KNN", "count"), fmt.Sprintf("KNN(%d) returned %d points, tree has %d", k, len(got), len(ps)), kw())
				continue
			}
			// members with multiplicity
			used := map[[3]uint64]int{}
			bad := false
			for _, x := range got {
				used[x.bits()]++
				if used[x.bits()] > in[x.bits()] {
					bad = true
				}
			}
			if bad {
				c.Violation(key("KNN", "members-with-multiplicity"), "a returned point is not in the tree or is returned more often than it occurs", kw())
				continue
			}
			// ascending and equal to the k smallest distances
			asc, match := true, true
			for i, x := range got {
				d := t.sqDist(p, x)
				if i > 0 && d < t.sqDist(p, got[i-1]) {
					asc = false
				}
				if d != sorted[i] && !closeRel(d, sorted[i]) {
					match = false
				}
			}
			if !asc {
				c.Violation(key("KNN", "ascending"), "results are not sorted by ascending distance", kw())
			}
			if !match {
				c.Violation(key("KNN", "k-smallest-distances"), "distance multiset differs from the k smallest distances of the linear scan", kw())
			}
		}

		// SphereCollision: radius at exact distances, just around, random
		var rs []float64
		if len(ps) > 0 {
			d := math.Sqrt(sq[rng.Intn(len(ps))])
			rs = append(rs, d, math.Sqrt(minSq), math.Nextafter(math.Sqrt(minSq), 0), d*rng.Float64())
			// distance to a split plane candidate: |coordinate difference| to a member
			m := ps[rng.Intn(len(ps))]
			rs = append(rs, math.Abs(m.X-p.X), math.Abs(m.Y-p.Y))
		}
		rs = append(rs, pick(rng, pythag), 3*rng.Float64())
		for _, r := range rs {
			if !(r >= 0) || math.IsInf(r, 0) {
				continue
			}
			c.Count(pre+".SphereCollision.compared", 1)
			got := t.ball(p, r)
			rr := r * r
			var want, decided bool
			switch {
			case minSq <= rr*(1-1e-12):
				want, decided = true, true
			case minSq > rr*(1+1e-12) || len(ps) == 0:
				want, decided = false, true
			default:
				// boundary: closedness is whatever the library does for one point
				// (a one-point tree has nothing to prune), decided only for small clouds.
				if len(ps) <= 64 {
					for _, x := range ps {
						if t.single(x).ball(p, r) {
							want = true
							break
						}
					}
					decided = true
					c.Count(pre+".SphereCollision.boundary_decided_by_single_point_trees", 1)
				}
			}
			if !decided {
				c.Undecided(pre + ".SphereCollision.radius-at-distance")
				continue
			}
			if want {
				c.Count(pre+".SphereCollision.scan_true", 1)
			} else {
				c.Count(pre+".SphereCollision.scan_false", 1)
			}
			if got != want {
				clause := "lost-point"
				if got {
					clause = "false-positive"
				}
				c.Violation(key("SphereCollision", clause), fmt.Sprintf("SphereCollision(r=%v)=%v, linear scan %v (min squared distance %v, r^2 %v)", r, got, want, minSq, rr),
					qw(map[string]interface{}{"radius": fmt.Sprintf("%g = %x", r, r)}))
			}
		}
		if len(ps) >= 3 {
			c.Nontrivial(fmt.Sprintf("%s|%s|%d|%s", pre, kind, len(ps), p.hex()))
		}
	}
}

func ptIn(ps []pt, p pt) bool {
	for _, x := range ps {
		if x == p {
			return true
		}
	}
	return false
}
