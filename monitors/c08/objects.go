package main

import (
	"fmt"
	"math"
	"math/rand"

	"github.com/unixpickle/model3d/model3d"
	"github.com/unixpickle/model3d/render3d"
	"verif/vlib"
)

type objScene struct {
	objs  []render3d.Object
	desc  []string
	kind  string
	exact bool
	grid  int
	tris  *scene3 // used to aim queries
}

func genObjScene(rng *rand.Rand, n int) *objScene {
	g := 2 + rng.Intn(6)
	s := &objScene{grid: g}
	add := func(col model3d.Collider, d string) {
		mat := &render3d.LambertMaterial{DiffuseColor: render3d.NewColor(float64(len(s.objs)))}
		s.objs = append(s.objs, &render3d.ColliderObject{Collider: col, Material: mat})
		s.desc = append(s.desc, d)
	}
	proxy := &scene3{grid: g}
	addTri := func(t *model3d.Triangle) {
		add(t, "triangle "+decTri(t)+" = "+fmtTri(t))
		proxy.tris = append(proxy.tris, t)
	}
	// a proxy triangle spanning an object's box lets the 3D query generators aim at it
	addProxy := func(mn, mx C3) {
		proxy.tris = append(proxy.tris, &model3d.Triangle{mn, mx, model3d.XYZ(mn.X, mx.Y, mx.Z)})
	}
	switch k := rng.Intn(8); {
	case k < 2:
		s.kind, s.exact = "grid-flat-triangles", true
		for i := 0; i < n; i++ {
			addTri(gridAxisTri(rng, g))
		}
	case k < 3:
		s.kind, s.exact = "same-bounds-triangles", true
		mn := ipt(rng, g)
		mx := mn.Add(model3d.XYZ(float64(rng.Intn(3)), float64(1+rng.Intn(3)), float64(1+rng.Intn(3))))
		for i := 0; i < n; i++ {
			if rng.Intn(4) == 0 {
				addTri(gridAxisTri(rng, g))
			} else {
				addTri(boxSpanTri(rng, mn, mx))
			}
		}
	case k < 5:
		s.kind, s.exact = "grid-mixed", true
		for i := 0; i < n; i++ {
			switch rng.Intn(4) {
			case 0:
				addTri(gridAxisTri(rng, g))
			case 1:
				addTri(gridGeneralTri(rng, g))
			case 2:
				c := ipt(rng, g)
				r := pick(rng, []float64{0.5, 1, 1.5, 2})
				sp := &model3d.Sphere{Center: c, Radius: r}
				add(sp, fmt.Sprintf("sphere %s r=%g", decC3(c), r))
				addProxy(sp.Min(), sp.Max())
			default:
				mn := ipt(rng, g)
				mx := mn.Add(model3d.XYZ(float64(rng.Intn(3)), float64(rng.Intn(3)), float64(1+rng.Intn(2))))
				add(model3d.NewRect(mn, mx), fmt.Sprintf("rect %s%s", decC3(mn), decC3(mx)))
				addProxy(mn, mx)
			}
		}
	default:
		s.kind = "random"
		for i := 0; i < n; i++ {
			c := model3d.XYZ(rng.NormFloat64(), rng.NormFloat64(), rng.NormFloat64()).Scale(3)
			switch rng.Intn(3) {
			case 0:
				addTri(randomTri(rng, c, 0.1+rng.Float64()*1.5))
			case 1:
				sp := &model3d.Sphere{Center: c, Radius: 0.1 + rng.Float64()}
				add(sp, fmt.Sprintf("sphere %s r=%x", fmtC3(c), sp.Radius))
				addProxy(sp.Min(), sp.Max())
			default:
				h := model3d.XYZ(rng.Float64(), rng.Float64(), rng.Float64()).Scale(0.1 + rng.Float64())
				add(model3d.NewRect(c.Sub(h), c.Add(h)), fmt.Sprintf("rect %s%s", fmtC3(c.Sub(h)), fmtC3(c.Add(h))))
				addProxy(c.Sub(h), c.Add(h))
			}
		}
	}
	// now and then the scene also has an unbounded object (an infinite ground slab, as scenes
	// with a floor have): its box, and the box of every branch that holds it, has infinite extent
	if n >= 2 && rng.Intn(10) == 0 {
		inf := math.Inf(1)
		z := float64(rng.Intn(g+1)) - 0.5
		mn, mx := model3d.XYZ(-inf, -inf, z-1), model3d.XYZ(inf, inf, z)
		if rng.Intn(3) == 0 {
			mn, mx = model3d.XYZ(-inf, -inf, -inf), model3d.XYZ(inf, inf, z) // half space
		}
		add(&model3d.Rect{MinVal: mn, MaxVal: mx}, fmt.Sprintf("unbounded slab %v..%v", mn, mx))
		// swap it to a seeded position
		i := rng.Intn(len(s.objs))
		last := len(s.objs) - 1
		s.objs[i], s.objs[last] = s.objs[last], s.objs[i]
		s.desc[i], s.desc[last] = s.desc[last], s.desc[i]
		s.kind += "+unbounded"
	}
	proxy.exact = s.exact
	proxy.kind = s.kind
	s.tris = proxy
	return s
}

func objectCase(c *vlib.Case, n, queries int) {
	rng := c.Rng
	s := genObjScene(rng, n)
	type variant struct {
		ctor string
		o    render3d.Object
	}
	cp := func() []render3d.Object { return append([]render3d.Object{}, s.objs...) }
	var vs []variant
	vs = append(vs, variant{"BVHToObject(NewBVHAreaDensity)", render3d.BVHToObject(model3d.NewBVHAreaDensity(cp()))})
	h := cp()
	if rng.Intn(2) == 0 {
		model3d.GroupBounders(h)
	}
	vs = append(vs, variant{"BVHToObject(hand-built n-ary BVH)", render3d.BVHToObject(handBVH(rng, h))})
	c.Count("objects.scenes", 1)
	c.Count("objects.scene."+s.kind, 1)
	c.Count("objects.objects", int64(len(s.objs)))
	if len(s.objs) == 1 {
		c.Count("objects.scenes_single", 1)
	}
	for q := 0; q < queries; q++ {
		r, rk := genRay3(rng, s.tris)
		// linear scan: every object's own Cast
		type bh struct {
			i     int
			scale float64
			mat   render3d.Material
		}
		var brute []bh
		minAll, minRobust := math.Inf(1), math.Inf(1)
		for i, o := range s.objs {
			if rc, m, ok := o.Cast(r); ok {
				brute = append(brute, bh{i, rc.Scale, m})
				if rc.Scale < minAll {
					minAll = rc.Scale
				}
				if rc.Scale < minRobust && slab3(r, o.Min(), o.Max(), false, false) == slabRobust {
					minRobust = rc.Scale
				}
			}
		}
		c.Count("objects.cast.queries", 1)
		c.Count("objects.cast.query."+rk, 1)
		if len(brute) > 0 {
			c.Count("objects.cast.scan_hits", 1)
		}
		if len(brute) >= 2 {
			c.Count("objects.cast.queries_with_2plus_hits", 1)
			c.Nontrivial(fmt.Sprintf("cast|%s|%d|%s%s", s.kind, len(s.objs), fmtC3(r.Origin), fmtC3(r.Direction)))
		}
		for _, v := range vs {
			w := func(extra map[string]interface{}) map[string]interface{} {
				d := interface{}(s.desc)
				if len(s.desc) > 48 {
					d = fmt.Sprintf("%d objects (regenerate)", len(s.desc))
				}
				res := map[string]interface{}{"constructor": v.ctor, "scene_kind": s.kind, "objects": d,
					"ray_origin": decC3(r.Origin) + " = " + fmtC3(r.Origin), "ray_direction": decC3(r.Direction) + " = " + fmtC3(r.Direction), "query_kind": rk}
				for k, x := range extra {
					res[k] = x
				}
				return res
			}
			rc, mat, ok := v.o.Cast(r)
			c.Count("objects.cast.compared", 1)
			if ok {
				member := false
				for _, b := range brute {
					if b.scale == rc.Scale && b.mat == mat {
						member = true
					}
				}
				switch {
				case !member:
					c.Violation("render3d.FilteredObject.Cast/member", fmt.Sprintf("returned hit (scale %v) with its material is not a hit of any single object", rc.Scale), w(nil))
				case rc.Scale > minRobust:
					c.Violation("render3d.FilteredObject.Cast/not-nearest", fmt.Sprintf("returned scale %v, an object is hit (robustly through its box) at %v", rc.Scale, minRobust), w(map[string]interface{}{"got": hx(rc.Scale), "want": hx(minRobust)}))
				case rc.Scale > minAll:
					c.Undecided("objects.cast.nearest-at-box-boundary")
				}
			} else if !math.IsInf(minRobust, 1) {
				c.Violation("render3d.FilteredObject.Cast/lost-hit", fmt.Sprintf("reports no hit, linear scan over the objects has a robust hit at scale %v", minRobust), w(map[string]interface{}{"want": hx(minRobust)}))
			} else if len(brute) > 0 {
				c.Undecided("objects.cast.nearest-at-box-boundary")
			}
			// bounds of the hierarchy are the union of the objects' bounds
			if q == 0 {
				mn, mx := s.objs[0].Min(), s.objs[0].Max()
				for _, o := range s.objs[1:] {
					mn, mx = mn.Min(o.Min()), mx.Max(o.Max())
				}
				if v.o.Min() != mn || v.o.Max() != mx {
					c.Violation("render3d.BVHToObject.MinMax/union-of-children", fmt.Sprintf("bounds %v %v, union %v %v", v.o.Min(), v.o.Max(), mn, mx), w(nil))
				}
			}
		}
	}
}
