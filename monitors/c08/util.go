package main

import (
	"fmt"
	"math"
	"math/rand"

	"github.com/unixpickle/model3d/model2d"
	"github.com/unixpickle/model3d/model3d"
)

type C3 = model3d.Coord3D
type C2 = model2d.Coord

func hx(f float64) string { return fmt.Sprintf("%x", f) }

func fmtC3(c C3) string { return fmt.Sprintf("(%x,%x,%x)", c.X, c.Y, c.Z) }
func fmtC2(c C2) string { return fmt.Sprintf("(%x,%x)", c.X, c.Y) }

func decC3(c C3) string { return fmt.Sprintf("(%g,%g,%g)", c.X, c.Y, c.Z) }
func decC2(c C2) string { return fmt.Sprintf("(%g,%g)", c.X, c.Y) }

func fmtTri(t *model3d.Triangle) string {
	return fmtC3(t[0]) + fmtC3(t[1]) + fmtC3(t[2])
}
func decTri(t *model3d.Triangle) string {
	return decC3(t[0]) + decC3(t[1]) + decC3(t[2])
}
func fmtSeg2(s *model2d.Segment) string { return fmtC2(s[0]) + fmtC2(s[1]) }
func decSeg2(s *model2d.Segment) string { return decC2(s[0]) + decC2(s[1]) }

// witnessTris lists a scene for a witness (hex and decimal), truncated.
func witnessTris(ts []*model3d.Triangle) interface{} {
	if len(ts) > 48 {
		return fmt.Sprintf("%d triangles (regenerate from seed/section/index)", len(ts))
	}
	res := make([]string, len(ts))
	for i, t := range ts {
		res[i] = fmt.Sprintf("#%d %s = %s", i, decTri(t), fmtTri(t))
	}
	return res
}

func witnessSegs(ss []*model2d.Segment) interface{} {
	if len(ss) > 64 {
		return fmt.Sprintf("%d segments (regenerate from seed/section/index)", len(ss))
	}
	res := make([]string, len(ss))
	for i, s := range ss {
		res[i] = fmt.Sprintf("#%d %s = %s", i, decSeg2(s), fmtSeg2(s))
	}
	return res
}

// ---------------------------------------------------------------------------
// Exactness predicates (no math/big needed: error-free transformations).

// exactDiff reports whether the float x-y equals the real x-y.
func exactDiff(x, y float64) bool {
	s := x - y
	if math.IsInf(s, 0) || math.IsNaN(s) {
		return false
	}
	bb := s - x
	err := (x - (s - bb)) + (-y - bb)
	return err == 0
}

// exactQuot reports whether t == q/d in real arithmetic.
func exactQuot(t, d, q float64) bool {
	if math.IsInf(t, 0) || math.IsNaN(t) {
		return false
	}
	return math.FMA(t, d, -q) == 0
}

// exactSq reports whether the float a*a is the real square.
func exactSq(a float64) bool {
	p := a * a
	if math.IsInf(p, 0) {
		return false
	}
	return math.FMA(a, a, -p) == 0
}

// ---------------------------------------------------------------------------
// Slab analysis. This is NOT the oracle for hits (the oracle is the linear
// scan with the library's per-object routine); it only classifies whether a
// brute-force hit is one that no correct bounding-box pruning could lose.
//
// Justification (DESIGN C08 "Margin"): every bounding box on the path from
// the root to an object contains the object's own box; with the standard
// slab formula all roundings are monotone, hence the interval computed for an
// ancestor contains the interval computed for the object's own box. So it is
// enough to look at the object's own box. To stay sound against other
// correct formulations (multiplying by an inverse direction, comparing hit
// points, ...) each comparison the test makes has to hold either with a
// relative margin or non-strictly between exactly computed quantities.

type slabVerdict int

const (
	slabMiss    slabVerdict = iota // the ray misses the object's box: pruning is legitimate
	slabFragile                    // passes only within rounding: undecided
	slabRobust                     // no correct pruning may lose this object
)

const slabRelTol = 1e-9

// slabCheck analyses origin o, direction d against the box [mn,mx].
// segment: the parameter is limited to [0,1]; dirExact says whether d is the
// exact difference of the segment's end points.
func slabCheck(o, d, mn, mx []float64, segment, dirExact bool) slabVerdict {
	n := len(o)
	var t1, t2 [3]float64
	var e1, e2, act [3]bool
	anyAct := false
	for a := 0; a < n; a++ {
		if d[a] == 0 {
			if o[a] < mn[a] || o[a] > mx[a] {
				return slabMiss
			}
			continue
		}
		q1 := mn[a] - o[a]
		q2 := mx[a] - o[a]
		a1 := q1 / d[a]
		a2 := q2 / d[a]
		x1 := exactDiff(mn[a], o[a]) && exactQuot(a1, d[a], q1)
		x2 := exactDiff(mx[a], o[a]) && exactQuot(a2, d[a], q2)
		if a1 > a2 {
			a1, a2 = a2, a1
			x1, x2 = x2, x1
		}
		if math.IsNaN(a1) || math.IsNaN(a2) {
			return slabFragile
		}
		if a2 < 0 {
			// The sign of a correctly rounded quotient of a correctly rounded
			// difference is always the true sign.
			return slabMiss
		}
		t1[a], t2[a], e1[a], e2[a], act[a] = a1, a2, x1, x2, true
		anyAct = true
	}
	if !anyAct {
		return slabRobust // direction is zero on every axis and the origin is inside
	}
	robust := true
	for a := 0; a < n; a++ {
		if !act[a] {
			continue
		}
		for b := 0; b < n; b++ {
			if !act[b] || a == b {
				continue
			}
			// the test needs t2[a] >= t1[b]
			if t2[a] < t1[b] {
				return slabMiss
			}
			if math.IsInf(t2[a], 1) && !math.IsInf(t1[b], 1) {
				continue
			}
			if math.IsInf(t1[b], -1) && !math.IsInf(t2[a], -1) {
				continue
			}
			if math.IsInf(t2[a], 0) || math.IsInf(t1[b], 0) {
				robust = false
				continue
			}
			diff := t2[a] - t1[b]
			if diff > slabRelTol*(math.Abs(t2[a])+math.Abs(t1[b])) {
				continue
			}
			if diff == 0 && e2[a] && e1[b] {
				continue
			}
			robust = false
		}
		if segment {
			if t1[a] > 1 {
				return slabMiss
			}
			if t1[a] <= 1-slabRelTol {
				continue
			}
			if e1[a] && dirExact {
				continue
			}
			robust = false
		}
	}
	if robust {
		return slabRobust
	}
	return slabFragile
}

func slab3(r *model3d.Ray, mn, mx C3, segment, dirExact bool) slabVerdict {
	o, d, a, b := r.Origin.Array(), r.Direction.Array(), mn.Array(), mx.Array()
	return slabCheck(o[:], d[:], a[:], b[:], segment, dirExact)
}

func slab2(r *model2d.Ray, mn, mx C2, segment, dirExact bool) slabVerdict {
	o, d, a, b := r.Origin.Array(), r.Direction.Array(), mn.Array(), mx.Array()
	return slabCheck(o[:], d[:], a[:], b[:], segment, dirExact)
}

// boxDist2 is the squared distance from c to the box [mn,mx] (0 inside).
// exact reports whether the float result is the real value.
func boxDist2(c, mn, mx []float64) (d2 float64, exact bool) {
	exact = true
	for a := range c {
		var q float64
		switch {
		case c[a] < mn[a]:
			q = mn[a] - c[a]
			exact = exact && exactDiff(mn[a], c[a])
		case c[a] > mx[a]:
			q = c[a] - mx[a]
			exact = exact && exactDiff(c[a], mx[a])
		default:
			continue
		}
		exact = exact && exactSq(q)
		s := d2 + q*q
		// exact sum?
		if exact {
			bb := s - d2
			if (d2-(s-bb))+(q*q-bb) != 0 {
				exact = false
			}
		}
		d2 = s
	}
	return
}

func boxDist2C3(c, mn, mx C3) (float64, bool) {
	a, b, d := c.Array(), mn.Array(), mx.Array()
	return boxDist2(a[:], b[:], d[:])
}

func boxDist2C2(c, mn, mx C2) (float64, bool) {
	a, b, d := c.Array(), mn.Array(), mx.Array()
	return boxDist2(a[:], b[:], d[:])
}

// ballTouchesBoxRobust: no correct pruning may discard a box at squared
// distance d2 for a ball of radius r.
func ballTouchesBoxRobust(d2 float64, d2exact bool, r float64) bool {
	rr := r * r
	if d2 <= rr*(1-1e-12) {
		return true
	}
	return d2 <= rr && d2exact && exactSq(r)
}

func boxesIntersect3(amn, amx, bmn, bmx C3) bool {
	return !(amn.X > bmx.X || amn.Y > bmx.Y || amn.Z > bmx.Z ||
		bmn.X > amx.X || bmn.Y > amx.Y || bmn.Z > amx.Z)
}

func boxesIntersect2(amn, amx, bmn, bmx C2) bool {
	return !(amn.X > bmx.X || amn.Y > bmx.Y || bmn.X > amx.X || bmn.Y > amx.Y)
}

// ---------------------------------------------------------------------------
// small random helpers

func pick[T any](rng *rand.Rand, xs []T) T { return xs[rng.Intn(len(xs))] }

func randUnit3(rng *rand.Rand) C3 {
	for {
		v := model3d.XYZ(rng.NormFloat64(), rng.NormFloat64(), rng.NormFloat64())
		if n := v.Norm(); n > 1e-3 {
			return v.Scale(1 / n)
		}
	}
}

func randUnit2(rng *rand.Rand) C2 {
	for {
		v := model2d.XY(rng.NormFloat64(), rng.NormFloat64())
		if n := v.Norm(); n > 1e-3 {
			return v.Scale(1 / n)
		}
	}
}

// sizeDist draws a scene size: many tiny scenes, some medium, few large.
func sizeDist(rng *rand.Rand, max int) int {
	switch x := rng.Intn(20); {
	case x < 3:
		return 1
	case x < 6:
		return 2
	case x < 8:
		return 3
	case x < 13:
		return 4 + rng.Intn(9)
	case x < 18:
		return 13 + rng.Intn(60)
	default:
		n := 73 + rng.Intn(300)
		if n > max {
			n = max
		}
		return n
	}
}

// ---------------------------------------------------------------------------
// Own bounding boxes (plain comparisons; the library's Min/Max are not trusted
// where the classification of a lost hit depends on them).

func lo(a, b float64) float64 {
	if b < a {
		return b
	}
	return a
}

func hi(a, b float64) float64 {
	if b > a {
		return b
	}
	return a
}

func triBox(t *model3d.Triangle) (C3, C3) {
	mn, mx := t[0], t[0]
	for _, p := range t[1:] {
		mn = C3{X: lo(mn.X, p.X), Y: lo(mn.Y, p.Y), Z: lo(mn.Z, p.Z)}
		mx = C3{X: hi(mx.X, p.X), Y: hi(mx.Y, p.Y), Z: hi(mx.Z, p.Z)}
	}
	return mn, mx
}

func segBox(s *model2d.Segment) (C2, C2) {
	return C2{X: lo(s[0].X, s[1].X), Y: lo(s[0].Y, s[1].Y)}, C2{X: hi(s[0].X, s[1].X), Y: hi(s[0].Y, s[1].Y)}
}

func slabTri(r *model3d.Ray, t *model3d.Triangle, segment, dirExact bool) slabVerdict {
	mn, mx := triBox(t)
	return slab3(r, mn, mx, segment, dirExact)
}

func slabSeg(r *model2d.Ray, s *model2d.Segment, segment, dirExact bool) slabVerdict {
	mn, mx := segBox(s)
	return slab2(r, mn, mx, segment, dirExact)
}

func boxDistTri(c C3, t *model3d.Triangle) (float64, bool) {
	mn, mx := triBox(t)
	return boxDist2C3(c, mn, mx)
}

func boxDistSeg(c C2, s *model2d.Segment) (float64, bool) {
	mn, mx := segBox(s)
	return boxDist2C2(c, mn, mx)
}

func triBoxMeets(t *model3d.Triangle, mn, mx C3) bool {
	a, b := triBox(t)
	return boxesIntersect3(a, b, mn, mx)
}

func segBoxMeets(s *model2d.Segment, mn, mx C2) bool {
	a, b := segBox(s)
	return boxesIntersect2(a, b, mn, mx)
}
