// C08 — Spatial indexes return exactly the brute-force answer.
// Shape: differential monitor. The same query is answered through the
// hierarchy and by a linear scan over the individual triangles / segments /
// points / objects with the library's own per-object routine, so the only
// difference is the index (DESIGN.md C08).
package main

import (
	"verif/vlib"
)

func main() {
	r := vlib.Start("C08", "exploration")
	r.ScaleQuick(2) // quick tier: 2x the case counts written at the sections (still well under a minute)
	r.Rule("seeded scenes (integer/dyadic grids with axis-aligned triangles = flat boxes, many objects with identical bounds, duplicates, single and empty sets, closed box surfaces, icospheres, random general position; 1..20000 objects) and queries aimed at box faces/corners, along axes with zero components, starting on box faces, with radii equal to exact box distances, k >= n; each query is answered by the index and by a linear scan with the library's per-object routine; a query is non-trivial if the linear scan finds >= 2 hits (rays) or the set has >= 3 objects (distance / neighbour queries); distinct by hash of scene kind, size and query coordinates")
	r.Assume("the per-object routines (Triangle/Segment ray, ball, segment, rect, triangle, Closest; Coord.SquaredDist) are the reference: C06/C07 check them, C08 only checks that the index adds or loses nothing")
	r.Assume("a lost hit is a violation only if the query passes the lost object's own bounding box robustly (each comparison of the slab / distance test holds with relative margin 1e-9, or non-strictly between exactly computed quantities); otherwise it is counted undecided")
	r.Assume("distances from SDF/CoordTree are compared with relative tolerance 1e-9 / 1e-12; ties may be broken either way (identity of the nearest object is not compared)")
	r.Assume("degenerate (zero-area / zero-length) primitives are used only for the permutation clause; NaN and infinite coordinates are excluded")
	r.Assume("constructors that panic by design on empty input (NewBVHAreaDensity, MeshToSDF, CoordTree.NearestNeighbor) are not given empty input")

	small := func(c *vlib.Case) int { return c.Rng.Intn(5) }

	r.Section("perm", r.N(6000, 40000), vlib.SectionOpts{}, func(c *vlib.Case) {
		n := sizeDist(c.Rng, 400)
		if c.Rng.Intn(12) == 0 {
			n = 0
		}
		permCase(c, n)
	})
	r.Section("perm.large", r.N(6, 40), vlib.SectionOpts{}, func(c *vlib.Case) {
		permCase(c, 2000+c.Rng.Intn(r.N(4000, 20000)))
	})

	r.Section("coll3d.small", r.N(8000, 40000), vlib.SectionOpts{}, func(c *vlib.Case) {
		n := small(c)
		if n == 0 {
			emptyColliderCase3(c)
			return
		}
		colliderCase3(c, n, 6)
	})
	r.Section("coll3d.medium", r.N(1500, 8000), vlib.SectionOpts{}, func(c *vlib.Case) {
		colliderCase3(c, sizeDist(c.Rng, 400), 8)
	})
	r.Section("coll3d.large", r.N(8, 48), vlib.SectionOpts{}, func(c *vlib.Case) {
		colliderCase3(c, 1500+c.Rng.Intn(r.N(2500, 20000)), 12)
	})

	r.Section("sdf3d", r.N(2000, 12000), vlib.SectionOpts{}, func(c *vlib.Case) {
		n := sizeDist(c.Rng, 400)
		if c.Rng.Intn(3) == 0 {
			n = 1 + small(c)
		}
		sdfCase3(c, n, 10)
	})
	r.Section("sdf3d.large", r.N(6, 32), vlib.SectionOpts{}, func(c *vlib.Case) {
		sdfCase3(c, 1500+c.Rng.Intn(r.N(2500, 20000)), 25)
	})

	for _, api := range []treeAPI{tree3API, tree2API} {
		api := api
		name := "tree3d"
		if api.dim == 2 {
			name = "tree2d"
		}
		r.Section(name, r.N(7000, 40000), vlib.SectionOpts{}, func(c *vlib.Case) {
			n := sizeDist(c.Rng, 400)
			switch c.Rng.Intn(12) {
			case 0:
				n = 0
			case 1, 2, 3:
				n = 1 + small(c)
			}
			treeCase(c, api, n, 6)
		})
		r.Section(name+".large", r.N(6, 32), vlib.SectionOpts{}, func(c *vlib.Case) {
			treeCase(c, api, 2000+c.Rng.Intn(r.N(4000, 20000)), 20)
		})
	}

	r.Section("coll2d.small", r.N(8000, 40000), vlib.SectionOpts{}, func(c *vlib.Case) {
		colliderCase2(c, small(c), 6)
	})
	r.Section("coll2d.medium", r.N(1800, 10000), vlib.SectionOpts{}, func(c *vlib.Case) {
		colliderCase2(c, sizeDist(c.Rng, 400), 8)
	})
	r.Section("coll2d.large", r.N(8, 48), vlib.SectionOpts{}, func(c *vlib.Case) {
		colliderCase2(c, 1500+c.Rng.Intn(r.N(2500, 20000)), 12)
	})
	r.Section("sdf2d", r.N(2500, 15000), vlib.SectionOpts{}, func(c *vlib.Case) {
		n := sizeDist(c.Rng, 400)
		if c.Rng.Intn(3) == 0 {
			n = 1 + small(c)
		}
		sdfCase2(c, n, 10)
	})

	// beyond any plausible size threshold of the builders (2^14 objects and more)
	huge := func(c *vlib.Case) int { return 17000 + c.Rng.Intn(9000) }
	r.Section("coll3d.huge", r.N(2, 12), vlib.SectionOpts{NoScale: true}, func(c *vlib.Case) { colliderCase3(c, huge(c), 10) })
	r.Section("sdf3d.huge", r.N(1, 8), vlib.SectionOpts{NoScale: true}, func(c *vlib.Case) { sdfCase3(c, huge(c), 12) })
	r.Section("tree3d.huge", r.N(1, 8), vlib.SectionOpts{NoScale: true}, func(c *vlib.Case) { treeCase(c, tree3API, huge(c), 12) })
	r.Section("tree2d.huge", r.N(1, 8), vlib.SectionOpts{NoScale: true}, func(c *vlib.Case) { treeCase(c, tree2API, huge(c), 12) })
	r.Section("coll2d.huge", r.N(2, 12), vlib.SectionOpts{NoScale: true}, func(c *vlib.Case) { colliderCase2(c, huge(c), 10) })
	r.Section("objects.huge", r.N(1, 8), vlib.SectionOpts{NoScale: true}, func(c *vlib.Case) { objectCase(c, huge(c), 8) })

	r.Section("objects", r.N(4500, 25000), vlib.SectionOpts{}, func(c *vlib.Case) {
		n := sizeDist(c.Rng, 300)
		if c.Rng.Intn(3) == 0 {
			n = 1 + small(c)
		}
		objectCase(c, n, 8)
	})

	// every clause named in the property statement must have been observed
	for name, min := range map[string]int64{
		"coll3d.ray.RayCollisions.compared":            2000,
		"coll3d.ray.FirstRayCollision.compared":        2000,
		"coll3d.ray.brute_hits_robust":                 1000,
		"coll3d.ray.queries_with_2plus_hits":           200,
		"coll3d.sphere.scan_true":                      500,
		"coll3d.sphere.scan_false":                     500,
		"coll3d.segment.scan_true":                     300,
		"coll3d.rect.scan_true":                        300,
		"coll3d.triangle.queries_with_segments":        300,
		"coll3d.scene.same-bounds":                     20,
		"coll3d.scene.grid-flat":                       20,
		"coll3d.scenes_single":                         20,
		"coll3d.scenes_empty":                          20,
		"coll3d.scenes_with_flattening":                50,
		"coll3d.ctor.NewJoinedCollider(nested, n-ary)": 500,
		"sdf3d.compared":                               2000,
		"tree3d.NearestNeighbor.compared":              2000,
		"tree3d.KNN.compared":                          2000,
		"tree3d.KNN.k_ge_n":                            500,
		"tree3d.SphereCollision.scan_true":             500,
		"tree3d.SphereCollision.scan_false":            500,
		"tree3d.Contains.true":                         200,
		"tree3d.Slice.compared":                        500,
		"tree3d.clouds_empty":                          10,
		"tree2d.NearestNeighbor.compared":              2000,
		"tree2d.KNN.compared":                          2000,
		"tree2d.SphereCollision.scan_true":             500,
		"coll2d.ray.brute_hits":                        1000,
		"coll2d.circle.scan_true":                      300,
		"coll2d.segment.scan_true":                     300,
		"coll2d.rect.scan_true":                        300,
		"sdf2d.compared":                               2000,
		"objects.cast.scan_hits":                       1000,
		"objects.cast.queries_with_2plus_hits":         200,
		"perm.GroupTriangles":                          500,
		"perm.GroupSegments":                           500,
		"perm.model3d.GroupBounders":                   500,
		"perm.model3d.NewBVHAreaDensity":               500,
		"perm.model2d.NewBVHAreaDensity":               500,
	} {
		r.Require(name, min)
	}
	r.Finish()
}
