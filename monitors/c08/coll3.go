package main

import (
	"fmt"
	"math"
	"math/rand"

	"github.com/unixpickle/model3d/model3d"
	"verif/vlib"
)

// A variant3 is one hierarchical collider together with the list of
// triangles it was built from (the linear scan runs over that list).
type variant3 struct {
	ctor  string
	c     model3d.Collider
	multi model3d.MultiCollider // nil if only a Collider
	tris  []*model3d.Triangle
}

// handBVH builds a BVH with random arity (2..4) over the given order: the doc
// of BVH allows "a branch with two or more children".
func handBVH[B model3d.Bounder](rng *rand.Rand, objs []B) *model3d.BVH[B] {
	if len(objs) == 1 {
		return &model3d.BVH[B]{Leaf: objs[0]}
	}
	k := 2 + rng.Intn(3)
	if k > len(objs) {
		k = len(objs)
	}
	// k non-empty consecutive parts
	cuts := map[int]bool{}
	for len(cuts) < k-1 {
		cuts[1+rng.Intn(len(objs)-1)] = true
	}
	res := &model3d.BVH[B]{}
	start := 0
	for i := 1; i <= len(objs); i++ {
		if cuts[i] || i == len(objs) {
			res.Branch = append(res.Branch, handBVH(rng, objs[start:i]))
			start = i
		}
	}
	return res
}

// nestedJoined3 uses the exported NewJoinedCollider directly with random
// arity: children are plain *JoinedCollider values (the other arm of the
// flattening type switch).
func nestedJoined3(rng *rand.Rand, tris []*model3d.Triangle) model3d.Collider {
	if len(tris) == 1 {
		return tris[0]
	}
	k := 2 + rng.Intn(3)
	if k > len(tris) {
		k = len(tris)
	}
	cuts := map[int]bool{}
	for len(cuts) < k-1 {
		cuts[1+rng.Intn(len(tris)-1)] = true
	}
	var children []model3d.Collider
	start := 0
	for i := 1; i <= len(tris); i++ {
		if cuts[i] || i == len(tris) {
			children = append(children, nestedJoined3(rng, tris[start:i]))
			start = i
		}
	}
	return model3d.NewJoinedCollider(children)
}

// flattenEvents counts the nodes of the halving recursion (the shape
// GroupedTrianglesToCollider builds) whose bounds equal their parent's: those
// are flattened by NewJoinedCollider.
func flattenEvents(tris []*model3d.Triangle) int {
	if len(tris) < 2 {
		return 0
	}
	pmn, pmx := sceneBounds(tris)
	mid := len(tris) / 2
	n := 0
	for _, half := range [][]*model3d.Triangle{tris[:mid], tris[mid:]} {
		if len(half) >= 2 {
			if mn, mx := sceneBounds(half); mn == pmn && mx == pmx {
				n++
			}
		}
		n += flattenEvents(half)
	}
	return n
}

func buildVariants3(rng *rand.Rand, s *scene3) (res []variant3, flattenCount int) {
	tris := s.tris
	n := len(tris)
	cp := func() []*model3d.Triangle { return append([]*model3d.Triangle{}, tris...) }

	m := model3d.NewMeshTriangles(cp())
	mc := model3d.MeshToCollider(m)
	res = append(res, variant3{"MeshToCollider", mc, mc, tris})

	g := cp()
	model3d.GroupTriangles(g)
	gc := model3d.GroupedTrianglesToCollider(g)
	flattenCount = flattenEvents(g)
	res = append(res, variant3{"GroupedTrianglesToCollider(GroupTriangles)", gc, gc, tris})

	if n > 0 {
		// ungrouped order, with a repeated pointer now and then: still a valid
		// (if inefficient) input according to the doc.
		u := cp()
		rng.Shuffle(len(u), func(i, j int) { u[i], u[j] = u[j], u[i] })
		if rng.Intn(3) == 0 {
			u = append(u, u[rng.Intn(len(u))])
		}
		// the caller keeps using (here: scrambling) the slice it handed over
		handed := append([]*model3d.Triangle{}, u...)
		uc := model3d.GroupedTrianglesToCollider(handed)
		rng.Shuffle(len(handed), func(i, j int) { handed[i], handed[j] = handed[j], handed[i] })
		for i := range handed {
			if i%2 == 0 {
				handed[i] = handed[0]
			}
		}
		res = append(res, variant3{"GroupedTrianglesToCollider(ungrouped)", uc, uc, u})

		bc := model3d.BVHToCollider(model3d.NewBVHAreaDensity(cp()))
		res = append(res, variant3{"BVHToCollider(NewBVHAreaDensity)", bc, bc, tris})

		h := cp()
		if rng.Intn(2) == 0 {
			model3d.GroupTriangles(h)
		}
		hc := model3d.BVHToCollider(handBVH(rng, h))
		res = append(res, variant3{"BVHToCollider(hand-built n-ary BVH)", hc, hc, tris})

		nj := cp()
		if rng.Intn(2) == 0 {
			model3d.GroupTriangles(nj)
		}
		res = append(res, variant3{"NewJoinedCollider(nested, n-ary)", nestedJoined3(rng, nj), nil, tris})

		// one joined collider used as a child of two different joins (base+x built first, then
		// base+y): each join, and the shared child, must keep answering for exactly its own members
		if n >= 4 {
			all := cp()
			rng.Shuffle(len(all), func(i, j int) { all[i], all[j] = all[j], all[i] })
			amn, amx := sceneBounds(all)
			// two triangles that do not contribute to the overall bounds, so the child's bounds equal
			// the join's (the case NewJoinedCollider flattens)
			xi, yi := -1, -1
			for i := 0; i < len(all) && yi < 0; i++ {
				rest := append(append([]*model3d.Triangle{}, all[:i]...), all[i+1:]...)
				if xi >= 0 {
					rest = nil
					for j, t := range all {
						if j != xi && j != i {
							rest = append(rest, t)
						}
					}
				}
				if mn, mx := sceneBounds(rest); mn == amn && mx == amx {
					if xi < 0 {
						xi = i
					} else {
						yi = i
					}
				}
			}
			if xi >= 0 && yi >= 0 {
				var baseTris []*model3d.Triangle
				var baseColl []model3d.Collider
				for j, t := range all {
					if j != xi && j != yi {
						baseTris = append(baseTris, t)
						baseColl = append(baseColl, t)
					}
				}
				base := model3d.NewJoinedCollider(baseColl)
				a := model3d.NewJoinedCollider([]model3d.Collider{base, all[xi]})
				b := model3d.NewJoinedCollider([]model3d.Collider{base, all[yi]})
				res = append(res, variant3{"NewJoinedCollider(shared child + x, built first)", a, nil, append(append([]*model3d.Triangle{}, baseTris...), all[xi])})
				res = append(res, variant3{"NewJoinedCollider(shared child + y, built second)", b, nil, append(append([]*model3d.Triangle{}, baseTris...), all[yi])})
				res = append(res, variant3{"NewJoinedCollider(the shared child)", base, nil, baseTris})
			}
		}

		cs := make([]model3d.Collider, n)
		gg := cp()
		model3d.GroupTriangles(gg)
		wrapped := rng.Intn(2) == 0
		for i, t := range gg {
			if wrapped {
				// documented use: "wrappers around triangles" - a caller's own leaf type
				cs[i] = &taggedTriangle{Triangle: t, Part: i}
			} else {
				cs[i] = t
			}
		}
		cc := model3d.GroupedCollidersToCollider(cs)
		mcc, _ := cc.(model3d.MultiCollider)
		name := "GroupedCollidersToCollider"
		if wrapped {
			name += "(caller's wrapper type around each triangle)"
		}
		res = append(res, variant3{name, cc, mcc, tris})
	}
	return res, flattenCount
}

type hit3 struct {
	tri   *model3d.Triangle
	scale float64
}

func hitKey(h hit3) string { return fmt.Sprintf("%p/%x", h.tri, h.scale) }

func triOfCollision(rc model3d.RayCollision) *model3d.Triangle {
	if tc, ok := rc.Extra.(*model3d.TriangleCollision); ok && tc != nil {
		return tc.Triangle
	}
	return nil
}

func triIndex(ts []*model3d.Triangle, t *model3d.Triangle) int {
	for i, x := range ts {
		if x == t {
			return i
		}
	}
	return -1
}

func rayWitness(s *scene3, v *variant3, r *model3d.Ray, extra map[string]interface{}) map[string]interface{} {
	w := map[string]interface{}{
		"constructor": v.ctor, "scene_kind": s.kind, "triangles": witnessTris(v.tris),
		"ray_origin": decC3(r.Origin) + " = " + fmtC3(r.Origin), "ray_direction": decC3(r.Direction) + " = " + fmtC3(r.Direction),
	}
	for k, x := range extra {
		w[k] = x
	}
	return w
}

// checkRay3 compares RayCollisions and FirstRayCollision with the linear scan.
func checkRay3(c *vlib.Case, s *scene3, v *variant3, r *model3d.Ray, qkind string) {
	// linear scan with the library's per-triangle routine
	var brute []hit3
	var robust []bool
	for _, t := range v.tris {
		t.RayCollisions(r, func(rc model3d.RayCollision) {
			brute = append(brute, hit3{t, rc.Scale})
			robust = append(robust, slabTri(r, t, false, false) == slabRobust)
		})
	}
	c.Count("coll3d.ray.queries", 1)
	c.Count("coll3d.ray.query."+qkind, 1)
	c.Count("coll3d.ray.brute_hits", int64(len(brute)))
	nRobust := 0
	for _, b := range robust {
		if b {
			nRobust++
		}
	}
	c.Count("coll3d.ray.brute_hits_robust", int64(nRobust))
	if len(brute) >= 2 {
		c.Count("coll3d.ray.queries_with_2plus_hits", 1)
		c.Nontrivial(fmt.Sprintf("ray3|%s|%d|%s%s|%d", s.kind, len(v.tris), fmtC3(r.Origin), fmtC3(r.Direction), len(brute)))
	}

	// --- RayCollisions
	var got []hit3
	cnt := v.c.RayCollisions(r, func(rc model3d.RayCollision) {
		got = append(got, hit3{triOfCollision(rc), rc.Scale})
	})
	cntNil := v.c.RayCollisions(r, nil)
	if cnt != len(got) || cntNil != cnt {
		c.Violation("model3d.JoinedCollider.RayCollisions/count-equals-callbacks",
			fmt.Sprintf("returned %d, callback ran %d times, nil-callback call returned %d", cnt, len(got), cntNil), rayWitness(s, v, r, nil))
	}
	want := map[string]int{}
	for _, h := range brute {
		want[hitKey(h)]++
	}
	for _, h := range got {
		k := hitKey(h)
		if want[k] == 0 {
			c.Violation("model3d.JoinedCollider.RayCollisions/extra-hit",
				fmt.Sprintf("hierarchy reports a hit (triangle #%d, scale %v) that the linear scan does not have (or more often than the scan)", triIndex(v.tris, h.tri), h.scale),
				rayWitness(s, v, r, map[string]interface{}{"scan_hits": len(brute), "hierarchy_hits": len(got)}))
			continue
		}
		want[k]--
	}
	for i, h := range brute {
		k := hitKey(h)
		if want[k] > 0 {
			want[k]--
			if robust[i] {
				c.Violation("model3d.JoinedCollider.RayCollisions/lost-hit",
					fmt.Sprintf("linear scan hits triangle #%d %s at scale %v (ray passes its box robustly), hierarchy reports %d of %d hits without it",
						triIndex(v.tris, h.tri), decTri(h.tri), h.scale, len(got), len(brute)),
					rayWitness(s, v, r, map[string]interface{}{"lost_triangle": fmtTri(h.tri), "lost_scale": hx(h.scale), "query_kind": qkind}))
			} else {
				c.Undecided("coll3d.ray.lost-hit-at-box-boundary")
				c.Sample("undecided-lost-ray-hit", 1, rayWitness(s, v, r, map[string]interface{}{"lost_triangle": decTri(h.tri) + " = " + fmtTri(h.tri), "lost_scale": hx(h.scale), "query_kind": qkind}))
			}
		}
	}
	c.Count("coll3d.ray.RayCollisions.compared", 1)

	// --- FirstRayCollision
	minAll, minRobust := math.Inf(1), math.Inf(1)
	var bruteFirst []hit3
	for _, t := range v.tris {
		if rc, ok := t.FirstRayCollision(r); ok {
			bruteFirst = append(bruteFirst, hit3{t, rc.Scale})
			if rc.Scale < minAll {
				minAll = rc.Scale
			}
			if rc.Scale < minRobust && slabTri(r, t, false, false) == slabRobust {
				minRobust = rc.Scale
			}
		}
	}
	rc, ok := v.c.FirstRayCollision(r)
	c.Count("coll3d.ray.FirstRayCollision.compared", 1)
	if ok {
		c.Count("coll3d.ray.FirstRayCollision.hits", 1)
		member := false
		gt := triOfCollision(rc)
		for _, h := range bruteFirst {
			if h.tri == gt && (h.scale == rc.Scale) {
				member = true
			}
		}
		if !member {
			c.Violation("model3d.JoinedCollider.FirstRayCollision/member",
				fmt.Sprintf("returned hit (triangle #%d, scale %v) is not a hit of the linear scan", triIndex(v.tris, gt), rc.Scale), rayWitness(s, v, r, nil))
		} else if rc.Scale > minRobust {
			c.Violation("model3d.JoinedCollider.FirstRayCollision/not-minimal",
				fmt.Sprintf("returned scale %v, linear scan has a robust hit at %v", rc.Scale, minRobust), rayWitness(s, v, r, map[string]interface{}{"got": hx(rc.Scale), "want": hx(minRobust)}))
		} else if rc.Scale > minAll {
			c.Undecided("coll3d.ray.first-hit-at-box-boundary")
		}
	} else {
		if !math.IsInf(minRobust, 1) {
			c.Violation("model3d.JoinedCollider.FirstRayCollision/lost-hit",
				fmt.Sprintf("reports no collision, linear scan has a robust first hit at scale %v (%d hits)", minRobust, len(bruteFirst)),
				rayWitness(s, v, r, map[string]interface{}{"want": hx(minRobust), "query_kind": qkind}))
		} else if len(bruteFirst) > 0 {
			c.Undecided("coll3d.ray.first-hit-at-box-boundary")
		}
	}
}

func checkSphere3(c *vlib.Case, s *scene3, v *variant3, center C3, rad float64, qkind string) {
	brute := false
	robust := false
	var wt *model3d.Triangle
	for _, t := range v.tris {
		if t.SphereCollision(center, rad) {
			brute = true
			d2, ex := boxDistTri(center, t)
			if ballTouchesBoxRobust(d2, ex, rad) {
				robust = true
				wt = t
				break
			}
		}
	}
	got := v.c.SphereCollision(center, rad)
	c.Count("coll3d.sphere.queries", 1)
	c.Count("coll3d.sphere.query."+qkind, 1)
	if brute {
		c.Count("coll3d.sphere.scan_true", 1)
	} else {
		c.Count("coll3d.sphere.scan_false", 1)
	}
	w := func() map[string]interface{} {
		return map[string]interface{}{"constructor": v.ctor, "scene_kind": s.kind, "triangles": witnessTris(v.tris),
			"center": decC3(center) + " = " + fmtC3(center), "radius": fmt.Sprintf("%g = %x", rad, rad), "query_kind": qkind}
	}
	switch {
	case got && !brute:
		c.Violation("model3d.JoinedCollider.SphereCollision/false-positive", "hierarchy reports a collision, no triangle does", w())
	case !got && brute && robust:
		ww := w()
		ww["touching_triangle"] = decTri(wt)
		c.Violation("model3d.JoinedCollider.SphereCollision/lost-collision",
			fmt.Sprintf("triangle #%d collides with the ball (its box is robustly within reach), hierarchy reports none", triIndex(v.tris, wt)), ww)
	case !got && brute:
		c.Undecided("coll3d.sphere.box-distance-at-radius")
	}
}

func checkSegment3(c *vlib.Case, s *scene3, v *variant3, seg model3d.Segment, dirExact bool, qkind string) {
	if v.multi == nil {
		return
	}
	brute, robust := false, false
	var wt *model3d.Triangle
	r := &model3d.Ray{Origin: seg[0], Direction: seg[1].Sub(seg[0])}
	for _, t := range v.tris {
		if t.SegmentCollision(seg) {
			brute = true
			if slabTri(r, t, true, dirExact) == slabRobust {
				robust, wt = true, t
				break
			}
		}
	}
	got := v.multi.SegmentCollision(seg)
	c.Count("coll3d.segment.queries", 1)
	if brute {
		c.Count("coll3d.segment.scan_true", 1)
	} else {
		c.Count("coll3d.segment.scan_false", 1)
	}
	w := func() map[string]interface{} {
		return map[string]interface{}{"constructor": v.ctor, "scene_kind": s.kind, "triangles": witnessTris(v.tris),
			"segment": decC3(seg[0]) + decC3(seg[1]) + " = " + fmtC3(seg[0]) + fmtC3(seg[1]), "query_kind": qkind}
	}
	switch {
	case got && !brute:
		c.Violation("model3d.joinedMultiCollider.SegmentCollision/false-positive", "hierarchy reports a collision, no triangle does", w())
	case !got && brute && robust:
		ww := w()
		ww["hit_triangle"] = decTri(wt)
		c.Violation("model3d.joinedMultiCollider.SegmentCollision/lost-collision",
			fmt.Sprintf("triangle #%d collides with the segment (which passes its box robustly), hierarchy reports none", triIndex(v.tris, wt)), ww)
	case !got && brute:
		c.Undecided("coll3d.segment.at-box-boundary")
	}
}

func checkRect3(c *vlib.Case, s *scene3, v *variant3, rect *model3d.Rect, qkind string) {
	if v.multi == nil {
		return
	}
	brute, robust := false, false
	var wt *model3d.Triangle
	for _, t := range v.tris {
		if t.RectCollision(rect) {
			brute = true
			// Box overlap is decided by comparisons only, so it is exact.
			if triBoxMeets(t, rect.MinVal, rect.MaxVal) {
				robust, wt = true, t
				break
			}
		}
	}
	got := v.multi.RectCollision(rect)
	c.Count("coll3d.rect.queries", 1)
	if brute {
		c.Count("coll3d.rect.scan_true", 1)
	} else {
		c.Count("coll3d.rect.scan_false", 1)
	}
	w := func() map[string]interface{} {
		return map[string]interface{}{"constructor": v.ctor, "scene_kind": s.kind, "triangles": witnessTris(v.tris),
			"rect": decC3(rect.MinVal) + decC3(rect.MaxVal) + " = " + fmtC3(rect.MinVal) + fmtC3(rect.MaxVal), "query_kind": qkind}
	}
	switch {
	case got && !brute:
		c.Violation("model3d.joinedMultiCollider.RectCollision/false-positive", "hierarchy reports a collision, no triangle does", w())
	case !got && brute && robust:
		ww := w()
		ww["hit_triangle"] = decTri(wt)
		c.Violation("model3d.joinedMultiCollider.RectCollision/lost-collision",
			fmt.Sprintf("triangle #%d collides with the rect (boxes overlap), hierarchy reports none", triIndex(v.tris, wt)), ww)
	case !got && brute:
		c.Undecided("coll3d.rect.disjoint-boxes-yet-triangle-says-yes")
	}
}

func segKey3(sg model3d.Segment) string { return fmtC3(sg[0]) + fmtC3(sg[1]) }

func checkTriQuery3(c *vlib.Case, s *scene3, v *variant3, q *model3d.Triangle, qkind string) {
	if v.multi == nil {
		return
	}
	want := map[string]int{}
	robust := map[string]bool{}
	nb := 0
	for _, t := range v.tris {
		segs := t.TriangleCollisions(q)
		qmn, qmx := triBox(q)
		ov := triBoxMeets(t, qmn, qmx)
		for _, sg := range segs {
			k := segKey3(sg)
			want[k]++
			nb++
			if ov {
				robust[k] = true
			}
		}
	}
	got := v.multi.TriangleCollisions(q)
	c.Count("coll3d.triangle.queries", 1)
	c.Count("coll3d.triangle.scan_segments", int64(nb))
	if nb > 0 {
		c.Count("coll3d.triangle.queries_with_segments", 1)
	}
	w := func() map[string]interface{} {
		return map[string]interface{}{"constructor": v.ctor, "scene_kind": s.kind, "triangles": witnessTris(v.tris),
			"query_triangle": decTri(q) + " = " + fmtTri(q), "query_kind": qkind, "scan_segments": nb, "hierarchy_segments": len(got)}
	}
	for _, sg := range got {
		k := segKey3(sg)
		if want[k] == 0 {
			c.Violation("model3d.joinedMultiCollider.TriangleCollisions/extra-segment", "hierarchy returns a segment the linear scan does not (or more often)", w())
			continue
		}
		want[k]--
	}
	for k, n := range want {
		if n > 0 {
			if robust[k] {
				c.Violation("model3d.joinedMultiCollider.TriangleCollisions/lost-segment",
					fmt.Sprintf("linear scan finds %d segments, hierarchy %d; a missing one comes from a triangle whose box overlaps the query's box", nb, len(got)), w())
			} else {
				c.Undecided("coll3d.triangle.disjoint-boxes-yet-segment")
			}
		}
	}
}

// boundsCheck3: the collider's bounds are the union of the triangles' bounds.
func boundsCheck3(c *vlib.Case, s *scene3, v *variant3) {
	if len(v.tris) == 0 {
		return
	}
	mn, mx := sceneBounds(v.tris)
	if v.c.Min() != mn || v.c.Max() != mx {
		c.Violation("model3d.JoinedCollider.MinMax/union-of-children", fmt.Sprintf("bounds %v %v, union of triangle bounds %v %v", v.c.Min(), v.c.Max(), mn, mx),
			map[string]interface{}{"constructor": v.ctor, "triangles": witnessTris(v.tris)})
	}
}

func colliderCase3(c *vlib.Case, n, queries int) {
	rng := c.Rng
	var s *scene3
	if n == 0 {
		s = &scene3{kind: "empty", exact: true, grid: 4}
	} else {
		s = genScene3(rng, n)
	}
	vs, fl := buildVariants3(rng, s)
	c.Count("coll3d.scenes", 1)
	c.Count("coll3d.flattened_nodes_in_grouped_collider", int64(fl))
	if fl > 0 {
		c.Count("coll3d.scenes_with_flattening", 1)
	}
	c.Count("coll3d.scene."+s.kind, 1)
	c.Count("coll3d.triangles", int64(len(s.tris)))
	switch {
	case len(s.tris) == 0:
		c.Count("coll3d.scenes_empty", 1)
	case len(s.tris) == 1:
		c.Count("coll3d.scenes_single", 1)
	}
	for i := range vs {
		boundsCheck3(c, s, &vs[i])
	}
	for q := 0; q < queries; q++ {
		r, rk := genRay3(rng, s)
		cen, rad, bk := genBall3(rng, s)
		if rng.Intn(8) == 0 {
			// a radius computed as a difference (or passed through a mirroring scale) can come
			// out negative: no triangle collides, so the hierarchy must not either
			rad, bk = -rad*math.Pow(10, 2*rng.Float64()), bk+"-negative-radius"
		}
		seg, dex, sk := genSegment3(rng, s)
		rect, tk := genRect3(rng, s)
		qt, qk := genQueryTri3(rng, s)
		for i := range vs {
			v := &vs[i]
			c.Count("coll3d.ctor."+v.ctor, 1)
			checkRay3(c, s, v, r, rk)
			checkSphere3(c, s, v, cen, rad, bk)
			checkSegment3(c, s, v, seg, dex, sk)
			checkRect3(c, s, v, rect, tk)
			checkTriQuery3(c, s, v, qt, qk)
		}
	}
	if c.Index < 2 && len(s.tris) > 0 && len(s.tris) <= 6 {
		c.Sample("coll3d-scene", 2, map[string]interface{}{"kind": s.kind, "triangles": witnessTris(s.tris)})
	}
}

func emptyColliderCase3(c *vlib.Case) { colliderCase3(c, 0, 6) }

// taggedTriangle is a caller-defined leaf: a triangle that remembers which part it belongs to.
type taggedTriangle struct {
	*model3d.Triangle
	Part int
}
