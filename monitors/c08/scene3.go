package main

import (
	"math"
	"math/rand"

	"github.com/unixpickle/model3d/model3d"
)

// A scene3 is a list of distinct triangle pointers (coordinates may repeat).
type scene3 struct {
	tris  []*model3d.Triangle
	kind  string
	exact bool // all coordinates are small dyadic rationals
	grid  int  // extent of the integer grid for exact scenes
}

func nondegenerate(t *model3d.Triangle) bool {
	c := t[1].Sub(t[0]).Cross(t[2].Sub(t[0]))
	return c.Norm() > 0
}

// wellShaped rejects slivers: the library's Closest/Dist invert a 3x3 matrix
// built from the edges, whose accuracy is not specified for thin triangles.
func wellShaped(t *model3d.Triangle) bool {
	a, b, c := t[1].Dist(t[0]), t[2].Dist(t[1]), t[0].Dist(t[2])
	mx := math.Max(a, math.Max(b, c))
	if mx == 0 {
		return false
	}
	area := t[1].Sub(t[0]).Cross(t[2].Sub(t[0])).Norm() / 2
	alt := 2 * area / mx
	return alt/mx > 0.08
}

func ipt(rng *rand.Rand, g int) C3 {
	return model3d.XYZ(float64(rng.Intn(g+1)), float64(rng.Intn(g+1)), float64(rng.Intn(g+1)))
}

// gridAxisTri: right triangle in an axis-aligned plane, integer corners: its
// bounding box is flat.
func gridAxisTri(rng *rand.Rand, g int) *model3d.Triangle {
	axis := rng.Intn(3)
	k := float64(rng.Intn(g + 1))
	u0 := rng.Intn(g)
	u1 := u0 + 1 + rng.Intn(g-u0)
	v0 := rng.Intn(g)
	v1 := v0 + 1 + rng.Intn(g-v0)
	corners := [4][2]float64{{float64(u0), float64(v0)}, {float64(u1), float64(v0)}, {float64(u1), float64(v1)}, {float64(u0), float64(v1)}}
	skip := rng.Intn(4)
	var t model3d.Triangle
	j := 0
	for i, c := range corners {
		if i == skip {
			continue
		}
		var arr [3]float64
		arr[axis] = k
		arr[(axis+1)%3] = c[0]
		arr[(axis+2)%3] = c[1]
		t[j] = model3d.NewCoord3DArray(arr)
		j++
	}
	if rng.Intn(2) == 0 {
		t[0], t[1] = t[1], t[0]
	}
	return &t
}

func gridGeneralTri(rng *rand.Rand, g int) *model3d.Triangle {
	for {
		t := &model3d.Triangle{ipt(rng, g), ipt(rng, g), ipt(rng, g)}
		if nondegenerate(t) && wellShaped(t) {
			return t
		}
	}
}

// boxSpanTri: three corners of the box [mn,mx] whose bounding box is the
// whole box (many triangles with identical bounds).
func boxSpanTri(rng *rand.Rand, mn, mx C3) *model3d.Triangle {
	a, b := mn.Array(), mx.Array()
	for {
		var t model3d.Triangle
		var lo, hi [3]bool
		for i := 0; i < 3; i++ {
			var arr [3]float64
			for ax := 0; ax < 3; ax++ {
				if rng.Intn(2) == 0 {
					arr[ax] = a[ax]
					lo[ax] = true
				} else {
					arr[ax] = b[ax]
					hi[ax] = true
				}
			}
			t[i] = model3d.NewCoord3DArray(arr)
		}
		ok := true
		for ax := 0; ax < 3; ax++ {
			if a[ax] != b[ax] && !(lo[ax] && hi[ax]) {
				ok = false
			}
		}
		if ok && nondegenerate(&t) {
			return &t
		}
	}
}

func randomTri(rng *rand.Rand, center C3, size float64) *model3d.Triangle {
	for {
		var t model3d.Triangle
		for i := range t {
			t[i] = center.Add(model3d.XYZ(rng.NormFloat64(), rng.NormFloat64(), rng.NormFloat64()).Scale(size))
		}
		if wellShaped(&t) {
			return &t
		}
	}
}

// boxSurface: the six faces of an integer box cut into unit quads, two
// triangles each: a closed mesh made only of flat-box triangles.
func boxSurface(rng *rand.Rand, mn C3, nx, ny, nz int) []*model3d.Triangle {
	var res []*model3d.Triangle
	dims := [3]int{nx, ny, nz}
	m := mn.Array()
	for axis := 0; axis < 3; axis++ {
		u, v := (axis+1)%3, (axis+2)%3
		for side := 0; side < 2; side++ {
			k := m[axis]
			if side == 1 {
				k += float64(dims[axis])
			}
			for i := 0; i < dims[u]; i++ {
				for j := 0; j < dims[v]; j++ {
					p := func(di, dj int) C3 {
						var arr [3]float64
						arr[axis] = k
						arr[u] = m[u] + float64(i+di)
						arr[v] = m[v] + float64(j+dj)
						return model3d.NewCoord3DArray(arr)
					}
					a, b, c, d := p(0, 0), p(1, 0), p(1, 1), p(0, 1)
					if side == 0 {
						b, d = d, b
					}
					if rng.Intn(2) == 0 {
						res = append(res, &model3d.Triangle{a, b, c}, &model3d.Triangle{a, c, d})
					} else {
						res = append(res, &model3d.Triangle{a, b, d}, &model3d.Triangle{b, c, d})
					}
				}
			}
		}
	}
	return res
}

// genScene3 draws a scene of about n triangles (n==0: kind decides).
func genScene3(rng *rand.Rand, n int) *scene3 {
	g := 2 + rng.Intn(7)
	s := &scene3{grid: g}
	switch k := rng.Intn(12); {
	case k < 2:
		s.kind, s.exact = "grid-flat", true
		for i := 0; i < n; i++ {
			s.tris = append(s.tris, gridAxisTri(rng, g))
		}
	case k < 3:
		s.kind, s.exact = "grid-general", true
		for i := 0; i < n; i++ {
			s.tris = append(s.tris, gridGeneralTri(rng, g))
		}
	case k < 5:
		// identical bounds: a few boxes (possibly flat, possibly nested in one
		// another with shared faces), many triangles spanning each.
		s.kind, s.exact = "same-bounds", true
		nb := 1 + rng.Intn(3)
		type box struct{ mn, mx C3 }
		var boxes []box
		for i := 0; i < nb; i++ {
			mn := ipt(rng, g)
			mx := mn.Add(model3d.XYZ(float64(rng.Intn(3)), float64(1+rng.Intn(3)), float64(1+rng.Intn(3))))
			if rng.Intn(3) == 0 {
				// permute the flat axis
				a, b := mn.Array(), mx.Array()
				sh := rng.Intn(3)
				var a2, b2 [3]float64
				for ax := 0; ax < 3; ax++ {
					a2[(ax+sh)%3], b2[(ax+sh)%3] = a[ax], b[ax]
				}
				mn, mx = model3d.NewCoord3DArray(a2), model3d.NewCoord3DArray(b2)
			}
			boxes = append(boxes, box{mn, mx})
		}
		for i := 0; i < n; i++ {
			b := boxes[rng.Intn(len(boxes))]
			s.tris = append(s.tris, boxSpanTri(rng, b.mn, b.mx))
		}
	case k < 6:
		s.kind, s.exact = "duplicates", true
		for len(s.tris) < n {
			var t *model3d.Triangle
			if rng.Intn(2) == 0 {
				t = gridAxisTri(rng, g)
			} else {
				t = gridGeneralTri(rng, g)
			}
			s.tris = append(s.tris, t)
			for rng.Intn(2) == 0 && len(s.tris) < n {
				d := *t
				if rng.Intn(2) == 0 {
					d[0], d[1], d[2] = d[1], d[2], d[0]
				}
				s.tris = append(s.tris, &d)
			}
		}
	case k < 7:
		s.kind, s.exact = "box-surface", true
		lim := 1
		for 6*lim*lim*2 < n && lim < 12 {
			lim++
		}
		nx, ny, nz := 1+rng.Intn(lim), 1+rng.Intn(lim), 1+rng.Intn(lim)
		s.tris = boxSurface(rng, model3d.XYZ(float64(rng.Intn(3)), float64(rng.Intn(3)), float64(rng.Intn(3))), nx, ny, nz)
		s.grid = 3 + lim
	case k < 8:
		s.kind = "icosphere"
		sub := 1
		for 20*(sub+1)*(sub+1) <= n {
			sub++
		}
		c := model3d.XYZ(rng.NormFloat64(), rng.NormFloat64(), rng.NormFloat64())
		m := model3d.NewMeshIcosphere(c, 0.5+2*rng.Float64(), sub)
		s.tris = m.TriangleSlice()
		// library meshes come in map order: make the scene reproducible
		sortTris(s.tris)
	case k < 9:
		// mixed: dyadic grid (quarters), flat and general
		s.kind, s.exact = "dyadic-mixed", true
		for i := 0; i < n; i++ {
			var t *model3d.Triangle
			if rng.Intn(2) == 0 {
				t = gridAxisTri(rng, g)
			} else {
				t = gridGeneralTri(rng, g)
			}
			sc := pick(rng, []float64{0.25, 0.5, 1, 2})
			off := model3d.XYZ(float64(rng.Intn(5))*0.25, float64(rng.Intn(5))*0.25, float64(rng.Intn(5))*0.25)
			for j := range t {
				t[j] = t[j].Scale(sc).Add(off)
			}
			s.tris = append(s.tris, t)
		}
		s.grid = 2*g + 2
	default:
		s.kind = "random"
		nc := 1 + rng.Intn(4)
		centers := make([]C3, nc)
		for i := range centers {
			centers[i] = model3d.XYZ(rng.NormFloat64(), rng.NormFloat64(), rng.NormFloat64()).Scale(3)
		}
		for i := 0; i < n; i++ {
			c := centers[rng.Intn(nc)].Add(model3d.XYZ(rng.NormFloat64(), rng.NormFloat64(), rng.NormFloat64()))
			s.tris = append(s.tris, randomTri(rng, c, 0.05+rng.Float64()*1.5))
		}
	}
	return s
}

func less3(a, b C3) bool {
	if a.X != b.X {
		return a.X < b.X
	}
	if a.Y != b.Y {
		return a.Y < b.Y
	}
	return a.Z < b.Z
}

func sortTris(ts []*model3d.Triangle) {
	// insertion-free: simple sort by vertices
	sortSlice(ts, func(a, b *model3d.Triangle) bool {
		for i := 0; i < 3; i++ {
			if a[i] != b[i] {
				return less3(a[i], b[i])
			}
		}
		return false
	})
}

func sceneBounds(ts []*model3d.Triangle) (C3, C3) {
	mn, mx := triBox(ts[0])
	for _, t := range ts[1:] {
		a, b := triBox(t)
		mn = C3{X: lo(mn.X, a.X), Y: lo(mn.Y, a.Y), Z: lo(mn.Z, a.Z)}
		mx = C3{X: hi(mx.X, b.X), Y: hi(mx.Y, b.Y), Z: hi(mx.Z, b.Z)}
	}
	return mn, mx
}

// ---------------------------------------------------------------------------
// queries

// exactPoint: half-integer point in and around the grid.
func exactPoint(rng *rand.Rand, g int) C3 {
	f := func() float64 { return float64(rng.Intn(2*g+9)-4) * 0.5 }
	return model3d.XYZ(f(), f(), f())
}

func exactDir(rng *rand.Rand) C3 {
	for {
		var arr [3]float64
		switch rng.Intn(4) {
		case 0: // axis
			arr[rng.Intn(3)] = pick(rng, []float64{1, -1, 2, -0.5})
		case 1: // in an axis plane
			a := rng.Intn(3)
			arr[(a+1)%3] = float64(rng.Intn(5) - 2)
			arr[(a+2)%3] = float64(rng.Intn(5) - 2)
		default:
			for i := range arr {
				arr[i] = float64(rng.Intn(7) - 3)
			}
		}
		d := model3d.NewCoord3DArray(arr)
		if d.Norm() > 0 {
			d = d.Scale(pick(rng, []float64{1, 1, 1, 0.5, 2, 0.125, 8}))
			if rng.Intn(3) == 0 {
				// zero components of either sign, as a negated axis vector has them (1/-0 = -Inf)
				nz := math.Copysign(0, -1)
				if d.X == 0 && rng.Intn(2) == 0 {
					d.X = nz
				}
				if d.Y == 0 && rng.Intn(2) == 0 {
					d.Y = nz
				}
				if d.Z == 0 && rng.Intn(2) == 0 {
					d.Z = nz
				}
			}
			return d
		}
	}
}

// pointOnTri: a point of the triangle; exact scenes use vertices, edge
// midpoints and the midpoint of a median (all exactly representable for
// dyadic input).
func pointOnTri(rng *rand.Rand, t *model3d.Triangle, exact bool) C3 {
	if exact {
		switch rng.Intn(4) {
		case 0:
			return t[rng.Intn(3)]
		case 1:
			i := rng.Intn(3)
			return t[i].Mid(t[(i+1)%3])
		default:
			i := rng.Intn(3)
			return t[i].Mid(t[(i+1)%3]).Mid(t[(i+2)%3]) // interior point (1/4,1/4,1/2)
		}
	}
	a, b := rng.Float64(), rng.Float64()
	if a+b > 1 {
		a, b = 1-a, 1-b
	}
	return t[0].Add(t[1].Sub(t[0]).Scale(a)).Add(t[2].Sub(t[0]).Scale(b))
}

// boxFeaturePoint: a corner, an edge midpoint, a face centre of a box or of the
// scene box.
func boxFeaturePoint(rng *rand.Rand, mn, mx C3) C3 {
	a, b := mn.Array(), mx.Array()
	var arr [3]float64
	for i := range arr {
		switch rng.Intn(3) {
		case 0:
			arr[i] = a[i]
		case 1:
			arr[i] = b[i]
		default:
			arr[i] = (a[i] + b[i]) / 2
		}
	}
	return model3d.NewCoord3DArray(arr)
}

func genRay3(rng *rand.Rand, s *scene3) (*model3d.Ray, string) {
	n := len(s.tris)
	if n == 0 {
		return &model3d.Ray{Origin: exactPoint(rng, 4), Direction: exactDir(rng)}, "empty"
	}
	smn, smx := sceneBounds(s.tris)
	switch k := rng.Intn(10); {
	case k < 4: // aimed at a point of a triangle
		t := s.tris[rng.Intn(n)]
		target := pointOnTri(rng, t, s.exact)
		var o C3
		if s.exact {
			o = exactPoint(rng, s.grid)
		} else {
			o = target.Add(randUnit3(rng).Scale(0.2 + 6*rng.Float64()))
		}
		d := target.Sub(o)
		if d.Norm() == 0 {
			d = exactDir(rng)
		}
		if s.exact {
			d = d.Scale(pick(rng, []float64{1, 1, 2, 0.5, 4}))
		} else {
			d = d.Scale(0.1 + 3*rng.Float64())
		}
		return &model3d.Ray{Origin: o, Direction: d}, "aimed"
	case k < 6: // axis/plane direction from a grid point or a box feature
		var o C3
		if rng.Intn(2) == 0 {
			t := s.tris[rng.Intn(n)]
			o = boxFeaturePoint(rng, t.Min(), t.Max())
		} else if s.exact {
			o = exactPoint(rng, s.grid)
		} else {
			o = boxFeaturePoint(rng, smn, smx)
		}
		return &model3d.Ray{Origin: o, Direction: exactDir(rng)}, "axis"
	case k < 8: // starts on a box face / corner (of a triangle box or the scene box), aimed at a triangle
		var o C3
		if rng.Intn(2) == 0 {
			o = boxFeaturePoint(rng, smn, smx)
		} else {
			t := s.tris[rng.Intn(n)]
			o = boxFeaturePoint(rng, t.Min(), t.Max())
		}
		target := pointOnTri(rng, s.tris[rng.Intn(n)], s.exact)
		d := target.Sub(o)
		if d.Norm() == 0 {
			d = exactDir(rng)
		}
		return &model3d.Ray{Origin: o, Direction: d}, "from-box"
	default:
		o := smn.Mid(smx).Add(randUnit3(rng).Scale(smx.Dist(smn) * (0.1 + rng.Float64())))
		return &model3d.Ray{Origin: o, Direction: randUnit3(rng).Scale(0.2 + 2*rng.Float64())}, "random"
	}
}

var pythag = []float64{1, 2, 3, 5, 13, 0.5, 2.5, 1.25, 6.5, 10}

func genBall3(rng *rand.Rand, s *scene3) (C3, float64, string) {
	n := len(s.tris)
	if n == 0 {
		return exactPoint(rng, 4), pick(rng, pythag), "empty"
	}
	smn, smx := sceneBounds(s.tris)
	diag := smx.Dist(smn) + 1
	switch k := rng.Intn(10); {
	case k < 3 && s.exact: // grid centre, Pythagorean radius
		c := exactPoint(rng, s.grid)
		if rng.Intn(2) == 0 {
			// centre offset from a box corner by a 3-4-5 / 2-3-6 / 1-2-2 vector
			t := s.tris[rng.Intn(n)]
			corner := boxFeaturePoint(rng, t.Min(), t.Max())
			v := pick(rng, [][4]float64{{3, 4, 0, 5}, {0, 3, 4, 5}, {1, 2, 2, 3}, {2, 3, 6, 7}, {4, 0, 3, 5}, {1.5, 2, 0, 2.5}, {0, 0, 2, 2}})
			sg := func() float64 { return float64(2*rng.Intn(2) - 1) }
			return corner.Add(model3d.XYZ(sg()*v[0], sg()*v[1], sg()*v[2])), v[3], "pythagorean"
		}
		return c, pick(rng, pythag), "grid"
	case k < 6: // radius equal to the distance to a triangle's box (computed like the textbook formula)
		t := s.tris[rng.Intn(n)]
		var c C3
		if s.exact {
			c = exactPoint(rng, s.grid)
		} else {
			c = smn.Mid(smx).Add(randUnit3(rng).Scale(diag * rng.Float64()))
		}
		d2, _ := boxDist2C3(c, t.Min(), t.Max())
		r := math.Sqrt(d2)
		switch rng.Intn(4) {
		case 0:
			r = math.Nextafter(r, math.Inf(1))
		case 1:
			r *= 1 + rng.Float64()
		case 2:
			r += 0.5 * rng.Float64()
		}
		if r <= 0 {
			r = 0.25
		}
		return c, r, "box-distance"
	case k < 8: // near a triangle
		t := s.tris[rng.Intn(n)]
		p := pointOnTri(rng, t, false)
		dist := diag * 0.3 * rng.Float64()
		c := p.Add(randUnit3(rng).Scale(dist))
		return c, dist * (0.5 + rng.Float64()), "near"
	default:
		c := smn.Mid(smx).Add(randUnit3(rng).Scale(diag * rng.Float64() * 1.5))
		return c, diag * rng.Float64(), "random"
	}
}

func genSegment3(rng *rand.Rand, s *scene3) (model3d.Segment, bool, string) {
	r, kind := genRay3(rng, s)
	// stretch so that the end point is before / at / after the target
	f := pick(rng, []float64{0.5, 1, 1, 2, 4, 0.25})
	var seg model3d.Segment
	seg[0] = r.Origin
	seg[1] = r.Origin.Add(r.Direction.Scale(f))
	if seg[0] == seg[1] {
		seg[1] = seg[0].Add(exactDir(rng))
	}
	ex := exactDiff(seg[1].X, seg[0].X) && exactDiff(seg[1].Y, seg[0].Y) && exactDiff(seg[1].Z, seg[0].Z)
	return seg, ex, kind
}

func genRect3(rng *rand.Rand, s *scene3) (*model3d.Rect, string) {
	n := len(s.tris)
	if n == 0 {
		a := exactPoint(rng, 4)
		return model3d.NewRect(a, a.Add(model3d.XYZ(1, 1, 1))), "empty"
	}
	smn, smx := sceneBounds(s.tris)
	switch k := rng.Intn(8); {
	case k < 3: // shares faces/corners with a triangle's box, possibly flat
		t := s.tris[rng.Intn(n)]
		a := boxFeaturePoint(rng, t.Min(), t.Max())
		b := boxFeaturePoint(rng, smn, smx)
		if rng.Intn(2) == 0 {
			b = a.Add(model3d.XYZ(float64(rng.Intn(3)), float64(rng.Intn(3)), float64(rng.Intn(3))).Scale(0.5))
		}
		return model3d.NewRect(a.Min(b), a.Max(b)), "touching"
	case k < 5 && s.exact:
		a, b := exactPoint(rng, s.grid), exactPoint(rng, s.grid)
		return model3d.NewRect(a.Min(b), a.Max(b)), "grid"
	default:
		c := smn.Mid(smx).Add(randUnit3(rng).Scale(smx.Dist(smn) * rng.Float64()))
		h := model3d.XYZ(rng.Float64(), rng.Float64(), rng.Float64()).Scale(0.02 + smx.Dist(smn)*0.4*rng.Float64())
		return model3d.NewRect(c.Sub(h), c.Add(h)), "random"
	}
}

func genQueryTri3(rng *rand.Rand, s *scene3) (*model3d.Triangle, string) {
	n := len(s.tris)
	if n == 0 {
		return gridGeneralTri(rng, 4), "empty"
	}
	switch k := rng.Intn(8); {
	case k < 3 && s.exact:
		if rng.Intn(2) == 0 {
			return gridAxisTri(rng, s.grid), "grid-flat"
		}
		return gridGeneralTri(rng, s.grid), "grid"
	case k < 6: // crosses a triangle of the scene
		t := s.tris[rng.Intn(n)]
		p := pointOnTri(rng, t, false)
		size := 0.1 + t[0].Dist(t[1])*rng.Float64()
		return randomTri(rng, p, size), "crossing"
	default:
		smn, smx := sceneBounds(s.tris)
		c := smn.Mid(smx).Add(randUnit3(rng).Scale(smx.Dist(smn) * rng.Float64()))
		return randomTri(rng, c, 0.1+smx.Dist(smn)*0.5*rng.Float64()), "random"
	}
}

func genPoint3(rng *rand.Rand, s *scene3) (C3, string) {
	smn, smx := sceneBounds(s.tris)
	diag := smx.Dist(smn) + 0.5
	switch k := rng.Intn(8); {
	case k < 3 && s.exact:
		return exactPoint(rng, s.grid), "grid"
	case k < 5:
		t := s.tris[rng.Intn(len(s.tris))]
		return boxFeaturePoint(rng, t.Min(), t.Max()), "box-feature"
	case k < 7:
		t := s.tris[rng.Intn(len(s.tris))]
		return pointOnTri(rng, t, false).Add(randUnit3(rng).Scale(diag * 0.2 * rng.Float64())), "near"
	default:
		return smn.Mid(smx).Add(randUnit3(rng).Scale(diag * 1.5 * rng.Float64())), "random"
	}
}
