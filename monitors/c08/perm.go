package main

import (
	"fmt"
	"math/rand"
	"reflect"
	"sort"

	"github.com/unixpickle/model3d/model2d"
	"github.com/unixpickle/model3d/model3d"
	"verif/vlib"
)

func sortSlice[T any](xs []T, less func(a, b T) bool) {
	sort.Slice(xs, func(i, j int) bool { return less(xs[i], xs[j]) })
}

func sameMultiset[T any](a, b []T) (bool, string) {
	if len(a) != len(b) {
		return false, fmt.Sprintf("length %d vs %d", len(a), len(b))
	}
	m := map[interface{}]int{}
	for _, x := range a {
		m[interface{}(x)]++
	}
	for _, x := range b {
		m[interface{}(x)]--
	}
	missing, extra := 0, 0
	for _, v := range m {
		if v > 0 {
			missing += v
		} else if v < 0 {
			extra -= v
		}
	}
	if missing != 0 || extra != 0 {
		return false, fmt.Sprintf("%d input objects missing, %d objects occur too often", missing, extra)
	}
	return true, ""
}

// leaves3 walks a BVH, checks its shape and returns the leaves.
func isNilValue(x interface{}) bool {
	if x == nil {
		return true
	}
	v := reflect.ValueOf(x)
	switch v.Kind() {
	case reflect.Ptr, reflect.Interface, reflect.Map, reflect.Slice, reflect.Func:
		return v.IsNil()
	}
	return false
}

func leaves3[B model3d.Bounder](b *model3d.BVH[B], out *[]B, problems *[]string) {
	if b == nil {
		*problems = append(*problems, "nil node")
		return
	}
	if !isNilValue(interface{}(b.Leaf)) {
		if len(b.Branch) != 0 {
			*problems = append(*problems, "node with both Leaf and Branch")
		}
		*out = append(*out, b.Leaf)
		return
	}
	if len(b.Branch) < 2 {
		*problems = append(*problems, fmt.Sprintf("branch with %d children", len(b.Branch)))
	}
	for _, ch := range b.Branch {
		leaves3(ch, out, problems)
	}
}

func leaves2(b *model2d.BVH[*model2d.Segment], out *[]*model2d.Segment, problems *[]string) {
	if b == nil {
		*problems = append(*problems, "nil node")
		return
	}
	if b.Leaf != nil {
		if len(b.Branch) != 0 {
			*problems = append(*problems, "node with both Leaf and Branch")
		}
		*out = append(*out, b.Leaf)
		return
	}
	if len(b.Branch) < 2 {
		*problems = append(*problems, fmt.Sprintf("branch with %d children", len(b.Branch)))
	}
	for _, ch := range b.Branch {
		leaves2(ch, out, problems)
	}
}

// permScene3 adds what the collider scenes avoid: degenerate triangles,
// everything identical, repeated pointers.
func permScene3(rng *rand.Rand, n int) ([]*model3d.Triangle, string) {
	if n == 0 {
		return nil, "empty"
	}
	switch rng.Intn(5) {
	case 0:
		t := gridGeneralTri(rng, 5)
		res := make([]*model3d.Triangle, n)
		for i := range res {
			d := *t
			res[i] = &d
		}
		return res, "all-identical"
	case 1:
		var res []*model3d.Triangle
		for i := 0; i < n; i++ {
			p := ipt(rng, 3)
			switch rng.Intn(3) {
			case 0:
				res = append(res, &model3d.Triangle{p, p, p}) // point
			case 1:
				res = append(res, &model3d.Triangle{p, ipt(rng, 3), p}) // needle
			default:
				res = append(res, gridAxisTri(rng, 3))
			}
		}
		return res, "degenerate"
	case 2:
		s := genScene3(rng, n)
		res := s.tris
		for i := 0; i < 1+n/4 && len(res) > 0; i++ {
			res = append(res, res[rng.Intn(len(res))]) // repeated pointer
		}
		return res, "repeated-pointers+" + s.kind
	default:
		s := genScene3(rng, n)
		return s.tris, s.kind
	}
}

func permCase(c *vlib.Case, n int) {
	rng := c.Rng
	// ---- 3D triangles
	tris, kind := permScene3(rng, n)
	c.Count("perm.cases", 1)
	c.Count("perm.scene3."+kind, 1)
	w3 := func(ctor string) map[string]interface{} {
		return map[string]interface{}{"constructor": ctor, "scene_kind": kind, "triangles": witnessTris(tris)}
	}
	{
		g := append([]*model3d.Triangle{}, tris...)
		model3d.GroupTriangles(g)
		c.Count("perm.GroupTriangles", 1)
		if ok, why := sameMultiset(tris, g); !ok {
			c.Violation("model3d.GroupTriangles/permutation-of-input", why, w3("GroupTriangles"))
		}
		g2 := append([]*model3d.Triangle{}, tris...)
		model3d.GroupBounders(g2)
		c.Count("perm.model3d.GroupBounders", 1)
		if ok, why := sameMultiset(tris, g2); !ok {
			c.Violation("model3d.GroupBounders/permutation-of-input", why, w3("GroupBounders[*Triangle]"))
		}
		if len(tris) > 0 {
			b := model3d.NewBVHAreaDensity(append([]*model3d.Triangle{}, tris...))
			var lv []*model3d.Triangle
			var probs []string
			leaves3(b, &lv, &probs)
			c.Count("perm.model3d.NewBVHAreaDensity", 1)
			if ok, why := sameMultiset(tris, lv); !ok {
				c.Violation("model3d.NewBVHAreaDensity/permutation-of-input", why, w3("NewBVHAreaDensity[*Triangle]"))
			}
			if len(probs) > 0 {
				c.Violation("model3d.NewBVHAreaDensity/node-shape", fmt.Sprint(probs), w3("NewBVHAreaDensity[*Triangle]"))
			}
		}
	}
	// ---- 3D mixed bounders through the interface type
	{
		var bs []model3d.Bounder
		for _, t := range tris {
			switch rng.Intn(3) {
			case 0:
				bs = append(bs, t)
			case 1:
				bs = append(bs, model3d.NewRect(t.Min(), t.Max()))
			default:
				bs = append(bs, &model3d.Sphere{Center: t[0], Radius: float64(rng.Intn(3))})
			}
		}
		g := append([]model3d.Bounder{}, bs...)
		model3d.GroupBounders(g)
		c.Count("perm.model3d.GroupBounders", 1)
		if ok, why := sameMultiset(bs, g); !ok {
			c.Violation("model3d.GroupBounders/permutation-of-input", why, w3("GroupBounders[Bounder] (triangles, rects with the same boxes, spheres)"))
		}
		if len(bs) > 0 {
			b := model3d.NewBVHAreaDensity(append([]model3d.Bounder{}, bs...))
			var lv []model3d.Bounder
			var probs []string
			leaves3(b, &lv, &probs)
			c.Count("perm.model3d.NewBVHAreaDensity", 1)
			if ok, why := sameMultiset(bs, lv); !ok {
				c.Violation("model3d.NewBVHAreaDensity/permutation-of-input", why, w3("NewBVHAreaDensity[Bounder]"))
			}
			if len(probs) > 0 {
				c.Violation("model3d.NewBVHAreaDensity/node-shape", fmt.Sprint(probs), w3("NewBVHAreaDensity[Bounder]"))
			}
		}
	}
	// ---- 2D segments
	{
		s := genScene2(rng, n)
		segs := s.segs
		if rng.Intn(3) == 0 && len(segs) > 0 {
			for i := 0; i < 1+n/4; i++ {
				segs = append(segs, segs[rng.Intn(len(segs))])
			}
		}
		if rng.Intn(4) == 0 {
			for i := 0; i < 1+n/4; i++ {
				p := ipt2(rng, 3)
				segs = append(segs, &model2d.Segment{p, p}) // zero-length: bounds only
			}
		}
		w2 := func(ctor string) map[string]interface{} {
			return map[string]interface{}{"constructor": ctor, "scene_kind": s.kind, "segments": witnessSegs(segs)}
		}
		c.Count("perm.scene2."+s.kind, 1)
		g := append([]*model2d.Segment{}, segs...)
		model2d.GroupSegments(g)
		c.Count("perm.GroupSegments", 1)
		if ok, why := sameMultiset(segs, g); !ok {
			c.Violation("model2d.GroupSegments/permutation-of-input", why, w2("GroupSegments"))
		}
		g2 := append([]*model2d.Segment{}, segs...)
		model2d.GroupBounders(g2)
		c.Count("perm.model2d.GroupBounders", 1)
		if ok, why := sameMultiset(segs, g2); !ok {
			c.Violation("model2d.GroupBounders/permutation-of-input", why, w2("GroupBounders[*Segment]"))
		}
		if len(segs) > 0 {
			b := model2d.NewBVHAreaDensity(append([]*model2d.Segment{}, segs...))
			var lv []*model2d.Segment
			var probs []string
			leaves2(b, &lv, &probs)
			c.Count("perm.model2d.NewBVHAreaDensity", 1)
			if ok, why := sameMultiset(segs, lv); !ok {
				c.Violation("model2d.NewBVHAreaDensity/permutation-of-input", why, w2("NewBVHAreaDensity[*Segment]"))
			}
			if len(probs) > 0 {
				c.Violation("model2d.NewBVHAreaDensity/node-shape", fmt.Sprint(probs), w2("NewBVHAreaDensity[*Segment]"))
			}
		}
	}
	if n >= 3 {
		c.Nontrivial(fmt.Sprintf("perm|%s|%d|%d", kind, n, c.Index))
	}
}
