package main

import (
	"fmt"
	"math"
	"math/rand"

	"github.com/unixpickle/model3d/model2d"
	"verif/vlib"
)

type scene2 struct {
	segs  []*model2d.Segment
	kind  string
	exact bool
	grid  int
}

func ipt2(rng *rand.Rand, g int) C2 {
	return model2d.XY(float64(rng.Intn(g+1)), float64(rng.Intn(g+1)))
}

func genScene2(rng *rand.Rand, n int) *scene2 {
	g := 2 + rng.Intn(7)
	s := &scene2{grid: g}
	if n == 0 {
		s.kind, s.exact = "empty", true
		return s
	}
	gridSeg := func(axisOnly bool) *model2d.Segment {
		for {
			a, b := ipt2(rng, g), ipt2(rng, g)
			if axisOnly {
				if rng.Intn(2) == 0 {
					b.X = a.X
				} else {
					b.Y = a.Y
				}
			}
			if a != b {
				return &model2d.Segment{a, b}
			}
		}
	}
	switch k := rng.Intn(10); {
	case k < 2: // axis-aligned segments: flat boxes
		s.kind, s.exact = "grid-flat", true
		for i := 0; i < n; i++ {
			s.segs = append(s.segs, gridSeg(true))
		}
	case k < 3:
		s.kind, s.exact = "grid-general", true
		for i := 0; i < n; i++ {
			s.segs = append(s.segs, gridSeg(false))
		}
	case k < 5: // identical bounds: both diagonals of a few rectangles, in both directions
		s.kind, s.exact = "same-bounds", true
		nb := 1 + rng.Intn(3)
		type box struct{ mn, mx C2 }
		var boxes []box
		for i := 0; i < nb; i++ {
			mn := ipt2(rng, g)
			mx := mn.Add(model2d.XY(float64(rng.Intn(3)), float64(1+rng.Intn(3))))
			if rng.Intn(2) == 0 {
				mn, mx = model2d.XY(mn.Y, mn.X), model2d.XY(mx.Y, mx.X)
			}
			boxes = append(boxes, box{mn, mx})
		}
		for i := 0; i < n; i++ {
			b := boxes[rng.Intn(nb)]
			var sg model2d.Segment
			switch rng.Intn(4) {
			case 0:
				sg = model2d.Segment{b.mn, b.mx}
			case 1:
				sg = model2d.Segment{b.mx, b.mn}
			case 2:
				sg = model2d.Segment{model2d.XY(b.mn.X, b.mx.Y), model2d.XY(b.mx.X, b.mn.Y)}
			default:
				sg = model2d.Segment{model2d.XY(b.mx.X, b.mn.Y), model2d.XY(b.mn.X, b.mx.Y)}
			}
			if sg[0] == sg[1] {
				sg[1] = sg[1].Add(model2d.XY(1, 0))
			}
			s.segs = append(s.segs, &sg)
		}
	case k < 6:
		s.kind, s.exact = "duplicates", true
		for len(s.segs) < n {
			sg := gridSeg(rng.Intn(2) == 0)
			s.segs = append(s.segs, sg)
			for rng.Intn(2) == 0 && len(s.segs) < n {
				d := *sg
				if rng.Intn(2) == 0 {
					d[0], d[1] = d[1], d[0]
				}
				s.segs = append(s.segs, &d)
			}
		}
	case k < 7: // closed rectilinear polygon: rectangle outline cut in unit segments
		s.kind, s.exact = "rect-outline", true
		w, h := 1+rng.Intn(1+n/4), 1+rng.Intn(1+n/4)
		o := ipt2(rng, 3)
		for i := 0; i < w; i++ {
			s.segs = append(s.segs, &model2d.Segment{o.Add(model2d.XY(float64(i), 0)), o.Add(model2d.XY(float64(i+1), 0))})
			s.segs = append(s.segs, &model2d.Segment{o.Add(model2d.XY(float64(i+1), float64(h))), o.Add(model2d.XY(float64(i), float64(h)))})
		}
		for j := 0; j < h; j++ {
			s.segs = append(s.segs, &model2d.Segment{o.Add(model2d.XY(0, float64(j+1))), o.Add(model2d.XY(0, float64(j)))})
			s.segs = append(s.segs, &model2d.Segment{o.Add(model2d.XY(float64(w), float64(j))), o.Add(model2d.XY(float64(w), float64(j+1)))})
		}
		s.grid = 4 + w + h
	case k < 8: // circle polygon
		s.kind = "circle"
		cnt := n
		if cnt < 3 {
			cnt = 3
		}
		c := model2d.XY(rng.NormFloat64(), rng.NormFloat64())
		r := 0.5 + 2*rng.Float64()
		for i := 0; i < cnt; i++ {
			a0 := 2 * math.Pi * float64(i) / float64(cnt)
			a1 := 2 * math.Pi * float64(i+1) / float64(cnt)
			s.segs = append(s.segs, &model2d.Segment{c.Add(model2d.XY(math.Cos(a0), math.Sin(a0)).Scale(r)), c.Add(model2d.XY(math.Cos(a1), math.Sin(a1)).Scale(r))})
		}
	default:
		s.kind = "random"
		for i := 0; i < n; i++ {
			c := model2d.XY(rng.NormFloat64(), rng.NormFloat64()).Scale(3)
			d := randUnit2(rng).Scale(0.05 + 1.5*rng.Float64())
			s.segs = append(s.segs, &model2d.Segment{c, c.Add(d)})
		}
	}
	return s
}

func bounds2(ss []*model2d.Segment) (C2, C2) {
	mn, mx := segBox(ss[0])
	for _, s := range ss[1:] {
		a, b := segBox(s)
		mn = C2{X: lo(mn.X, a.X), Y: lo(mn.Y, a.Y)}
		mx = C2{X: hi(mx.X, b.X), Y: hi(mx.Y, b.Y)}
	}
	return mn, mx
}

func exactPoint2(rng *rand.Rand, g int) C2 {
	f := func() float64 { return float64(rng.Intn(2*g+9)-4) * 0.5 }
	return model2d.XY(f(), f())
}

func exactDir2(rng *rand.Rand) C2 {
	for {
		var d C2
		switch rng.Intn(3) {
		case 0:
			if rng.Intn(2) == 0 {
				d.X = pick(rng, []float64{1, -1, 2, -0.5})
			} else {
				d.Y = pick(rng, []float64{1, -1, 2, -0.5})
			}
		default:
			d = model2d.XY(float64(rng.Intn(7)-3), float64(rng.Intn(7)-3))
		}
		if d.Norm() > 0 {
			d = d.Scale(pick(rng, []float64{1, 1, 0.5, 2, 0.125}))
			if rng.Intn(3) == 0 { // zero components of either sign
				if d.X == 0 {
					d.X = math.Copysign(0, -1)
				}
				if d.Y == 0 {
					d.Y = math.Copysign(0, -1)
				}
			}
			return d
		}
	}
}

func pointOnSeg(rng *rand.Rand, s *model2d.Segment, exact bool) C2 {
	if exact {
		switch rng.Intn(4) {
		case 0:
			return s[rng.Intn(2)]
		case 1:
			return s[0].Mid(s[1])
		default:
			return s[0].Mid(s[1]).Mid(s[rng.Intn(2)])
		}
	}
	return s[0].Add(s[1].Sub(s[0]).Scale(rng.Float64()))
}

func boxFeature2(rng *rand.Rand, mn, mx C2) C2 {
	f := func(a, b float64) float64 {
		switch rng.Intn(3) {
		case 0:
			return a
		case 1:
			return b
		}
		return (a + b) / 2
	}
	return model2d.XY(f(mn.X, mx.X), f(mn.Y, mx.Y))
}

func genRay2(rng *rand.Rand, s *scene2) (*model2d.Ray, string) {
	n := len(s.segs)
	if n == 0 {
		return &model2d.Ray{Origin: exactPoint2(rng, 4), Direction: exactDir2(rng)}, "empty"
	}
	smn, smx := bounds2(s.segs)
	switch k := rng.Intn(10); {
	case k < 4:
		target := pointOnSeg(rng, s.segs[rng.Intn(n)], s.exact)
		var o C2
		if s.exact {
			o = exactPoint2(rng, s.grid)
		} else {
			o = target.Add(randUnit2(rng).Scale(0.2 + 6*rng.Float64()))
		}
		d := target.Sub(o)
		if d.Norm() == 0 {
			d = exactDir2(rng)
		}
		if s.exact {
			d = d.Scale(pick(rng, []float64{1, 1, 2, 0.5}))
		} else {
			d = d.Scale(0.1 + 3*rng.Float64())
		}
		return &model2d.Ray{Origin: o, Direction: d}, "aimed"
	case k < 6:
		var o C2
		if rng.Intn(2) == 0 {
			sg := s.segs[rng.Intn(n)]
			o = boxFeature2(rng, sg.Min(), sg.Max())
		} else if s.exact {
			o = exactPoint2(rng, s.grid)
		} else {
			o = boxFeature2(rng, smn, smx)
		}
		return &model2d.Ray{Origin: o, Direction: exactDir2(rng)}, "axis"
	case k < 8:
		var o C2
		if rng.Intn(2) == 0 {
			o = boxFeature2(rng, smn, smx)
		} else {
			sg := s.segs[rng.Intn(n)]
			o = boxFeature2(rng, sg.Min(), sg.Max())
		}
		d := pointOnSeg(rng, s.segs[rng.Intn(n)], s.exact).Sub(o)
		if d.Norm() == 0 {
			d = exactDir2(rng)
		}
		return &model2d.Ray{Origin: o, Direction: d}, "from-box"
	default:
		o := smn.Mid(smx).Add(randUnit2(rng).Scale((smx.Dist(smn) + 0.5) * (0.1 + rng.Float64())))
		return &model2d.Ray{Origin: o, Direction: randUnit2(rng).Scale(0.2 + 2*rng.Float64())}, "random"
	}
}

func genCircle2(rng *rand.Rand, s *scene2) (C2, float64, string) {
	n := len(s.segs)
	if n == 0 {
		return exactPoint2(rng, 4), pick(rng, pythag), "empty"
	}
	smn, smx := bounds2(s.segs)
	diag := smx.Dist(smn) + 1
	switch k := rng.Intn(10); {
	case k < 3 && s.exact:
		if rng.Intn(2) == 0 {
			sg := s.segs[rng.Intn(n)]
			corner := boxFeature2(rng, sg.Min(), sg.Max())
			v := pick(rng, [][3]float64{{3, 4, 5}, {4, 3, 5}, {0, 2, 2}, {1.5, 2, 2.5}, {5, 12, 13}, {6, 8, 10}})
			sg2 := func() float64 { return float64(2*rng.Intn(2) - 1) }
			return corner.Add(model2d.XY(sg2()*v[0], sg2()*v[1])), v[2], "pythagorean"
		}
		return exactPoint2(rng, s.grid), pick(rng, pythag), "grid"
	case k < 6:
		sg := s.segs[rng.Intn(n)]
		var c C2
		if s.exact {
			c = exactPoint2(rng, s.grid)
		} else {
			c = smn.Mid(smx).Add(randUnit2(rng).Scale(diag * rng.Float64()))
		}
		d2, _ := boxDist2C2(c, sg.Min(), sg.Max())
		r := math.Sqrt(d2)
		switch rng.Intn(4) {
		case 0:
			r = math.Nextafter(r, math.Inf(1))
		case 1:
			r *= 1 + rng.Float64()
		case 2:
			r += 0.5 * rng.Float64()
		}
		if r <= 0 {
			r = 0.25
		}
		return c, r, "box-distance"
	case k < 8:
		p := pointOnSeg(rng, s.segs[rng.Intn(n)], false)
		dist := diag * 0.3 * rng.Float64()
		return p.Add(randUnit2(rng).Scale(dist)), dist * (0.5 + rng.Float64()), "near"
	default:
		return smn.Mid(smx).Add(randUnit2(rng).Scale(diag * 1.5 * rng.Float64())), diag * rng.Float64(), "random"
	}
}

func genRect2(rng *rand.Rand, s *scene2) (*model2d.Rect, string) {
	n := len(s.segs)
	if n == 0 {
		a := exactPoint2(rng, 4)
		return model2d.NewRect(a, a.Add(model2d.XY(1, 1))), "empty"
	}
	smn, smx := bounds2(s.segs)
	switch k := rng.Intn(8); {
	case k < 3:
		sg := s.segs[rng.Intn(n)]
		a := boxFeature2(rng, sg.Min(), sg.Max())
		b := boxFeature2(rng, smn, smx)
		if rng.Intn(2) == 0 {
			b = a.Add(model2d.XY(float64(rng.Intn(3)), float64(rng.Intn(3))).Scale(0.5))
		}
		return model2d.NewRect(a.Min(b), a.Max(b)), "touching"
	case k < 5 && s.exact:
		a, b := exactPoint2(rng, s.grid), exactPoint2(rng, s.grid)
		return model2d.NewRect(a.Min(b), a.Max(b)), "grid"
	default:
		c := smn.Mid(smx).Add(randUnit2(rng).Scale(smx.Dist(smn) * rng.Float64()))
		h := model2d.XY(rng.Float64(), rng.Float64()).Scale(0.02 + smx.Dist(smn)*0.4*rng.Float64())
		return model2d.NewRect(c.Sub(h), c.Add(h)), "random"
	}
}

type variant2 struct {
	ctor  string
	c     model2d.Collider
	multi model2d.MultiCollider // nil if only a Collider
	segs  []*model2d.Segment
}

func mv2(ctor string, m model2d.MultiCollider, segs []*model2d.Segment) variant2 {
	return variant2{ctor, m, m, segs}
}

func nestedJoined2(rng *rand.Rand, segs []*model2d.Segment) model2d.Collider {
	if len(segs) == 1 {
		return segs[0]
	}
	k := 2 + rng.Intn(3)
	if k > len(segs) {
		k = len(segs)
	}
	cuts := map[int]bool{}
	for len(cuts) < k-1 {
		cuts[1+rng.Intn(len(segs)-1)] = true
	}
	var children []model2d.Collider
	start := 0
	for i := 1; i <= len(segs); i++ {
		if cuts[i] || i == len(segs) {
			children = append(children, nestedJoined2(rng, segs[start:i]))
			start = i
		}
	}
	return model2d.NewJoinedCollider(children)
}

func buildVariants2(rng *rand.Rand, s *scene2) []variant2 {
	cp := func() []*model2d.Segment { return append([]*model2d.Segment{}, s.segs...) }
	var res []variant2
	res = append(res, mv2("MeshToCollider", model2d.MeshToCollider(model2d.NewMeshSegments(cp())), s.segs))
	g := cp()
	model2d.GroupSegments(g)
	res = append(res, mv2("GroupedSegmentsToCollider(GroupSegments)", model2d.GroupedSegmentsToCollider(g), s.segs))
	if len(s.segs) > 0 {
		u := cp()
		rng.Shuffle(len(u), func(i, j int) { u[i], u[j] = u[j], u[i] })
		if rng.Intn(3) == 0 {
			u = append(u, u[rng.Intn(len(u))])
		}
		res = append(res, mv2("GroupedSegmentsToCollider(ungrouped)", model2d.GroupedSegmentsToCollider(u), u))
		res = append(res, mv2("BVHToCollider(NewBVHAreaDensity)", model2d.BVHToCollider(model2d.NewBVHAreaDensity(cp())), s.segs))
		h := cp()
		if rng.Intn(2) == 0 {
			model2d.GroupSegments(h)
		}
		res = append(res, mv2("BVHToCollider(hand-built n-ary BVH)", model2d.BVHToCollider(handBVH2(rng, h)), s.segs))
		nj := cp()
		if rng.Intn(2) == 0 {
			model2d.GroupSegments(nj)
		}
		res = append(res, variant2{"NewJoinedCollider(nested, n-ary)", nestedJoined2(rng, nj), nil, s.segs})
	}
	return res
}

func handBVH2(rng *rand.Rand, objs []*model2d.Segment) *model2d.BVH[*model2d.Segment] {
	if len(objs) == 1 {
		return &model2d.BVH[*model2d.Segment]{Leaf: objs[0]}
	}
	k := 2 + rng.Intn(3)
	if k > len(objs) {
		k = len(objs)
	}
	cuts := map[int]bool{}
	for len(cuts) < k-1 {
		cuts[1+rng.Intn(len(objs)-1)] = true
	}
	res := &model2d.BVH[*model2d.Segment]{}
	start := 0
	for i := 1; i <= len(objs); i++ {
		if cuts[i] || i == len(objs) {
			res.Branch = append(res.Branch, handBVH2(rng, objs[start:i]))
			start = i
		}
	}
	return res
}

type hit2 struct {
	seg   *model2d.Segment
	scale float64
}

func segIndex(ss []*model2d.Segment, s *model2d.Segment) int {
	for i, x := range ss {
		if x == s {
			return i
		}
	}
	return -1
}

func colliderCase2(c *vlib.Case, n, queries int) {
	rng := c.Rng
	s := genScene2(rng, n)
	vs := buildVariants2(rng, s)
	c.Count("coll2d.scenes", 1)
	c.Count("coll2d.scene."+s.kind, 1)
	c.Count("coll2d.segments", int64(len(s.segs)))
	if len(s.segs) == 0 {
		c.Count("coll2d.scenes_empty", 1)
	}
	if len(s.segs) == 1 {
		c.Count("coll2d.scenes_single", 1)
	}
	for q := 0; q < queries; q++ {
		r, rk := genRay2(rng, s)
		cen, rad, ck := genCircle2(rng, s)
		if rng.Intn(8) == 0 {
			rad, ck = -rad*math.Pow(10, 2*rng.Float64()), ck+"-negative-radius"
		}
		r2, sk := genRay2(rng, s)
		f := pick(rng, []float64{0.5, 1, 1, 2, 4, 0.25})
		qs := &model2d.Segment{r2.Origin, r2.Origin.Add(r2.Direction.Scale(f))}
		if qs[0] == qs[1] {
			qs[1] = qs[0].Add(exactDir2(rng))
		}
		dirExact := exactDiff(qs[1].X, qs[0].X) && exactDiff(qs[1].Y, qs[0].Y)
		rect, tk := genRect2(rng, s)
		for i := range vs {
			v := &vs[i]
			c.Count("coll2d.ctor."+v.ctor, 1)
			base := func(extra map[string]interface{}) map[string]interface{} {
				w := map[string]interface{}{"constructor": v.ctor, "scene_kind": s.kind, "segments": witnessSegs(v.segs)}
				for k, x := range extra {
					w[k] = x
				}
				return w
			}
			// ---- rays
			{
				var brute []hit2
				var robust []bool
				for _, sg := range v.segs {
					sg.RayCollisions(r, func(rc model2d.RayCollision) {
						brute = append(brute, hit2{sg, rc.Scale})
						robust = append(robust, slabSeg(r, sg, false, false) == slabRobust)
					})
				}
				c.Count("coll2d.ray.queries", 1)
				c.Count("coll2d.ray.query."+rk, 1)
				c.Count("coll2d.ray.brute_hits", int64(len(brute)))
				if len(brute) >= 2 {
					c.Count("coll2d.ray.queries_with_2plus_hits", 1)
					c.Nontrivial(fmt.Sprintf("ray2|%s|%d|%s%s", s.kind, len(v.segs), fmtC2(r.Origin), fmtC2(r.Direction)))
				}
				rw := func(extra map[string]interface{}) map[string]interface{} {
					w := base(map[string]interface{}{"ray_origin": decC2(r.Origin) + " = " + fmtC2(r.Origin), "ray_direction": decC2(r.Direction) + " = " + fmtC2(r.Direction), "query_kind": rk})
					for k, x := range extra {
						w[k] = x
					}
					return w
				}
				var got []hit2
				cnt := v.c.RayCollisions(r, func(rc model2d.RayCollision) {
					sg, _ := rc.Extra.(*model2d.Segment)
					got = append(got, hit2{sg, rc.Scale})
				})
				if cntNil := v.c.RayCollisions(r, nil); cnt != len(got) || cntNil != cnt {
					c.Violation("model2d.JoinedCollider.RayCollisions/count-equals-callbacks", fmt.Sprintf("returned %d, callback ran %d times, nil-callback call returned %d", cnt, len(got), cntNil), rw(nil))
				}
				want := map[string]int{}
				hk := func(h hit2) string { return fmt.Sprintf("%p/%x", h.seg, h.scale) }
				for _, h := range brute {
					want[hk(h)]++
				}
				for _, h := range got {
					if want[hk(h)] == 0 {
						c.Violation("model2d.JoinedCollider.RayCollisions/extra-hit", fmt.Sprintf("hierarchy reports a hit (segment #%d, scale %v) the linear scan does not have", segIndex(v.segs, h.seg), h.scale), rw(nil))
						continue
					}
					want[hk(h)]--
				}
				for i, h := range brute {
					if want[hk(h)] > 0 {
						want[hk(h)]--
						if robust[i] {
							c.Violation("model2d.JoinedCollider.RayCollisions/lost-hit",
								fmt.Sprintf("linear scan hits segment #%d %s at scale %v (ray passes its box robustly), hierarchy reports %d of %d hits without it", segIndex(v.segs, h.seg), decSeg2(h.seg), h.scale, len(got), len(brute)),
								rw(map[string]interface{}{"lost_segment": fmtSeg2(h.seg), "lost_scale": hx(h.scale)}))
						} else {
							c.Undecided("coll2d.ray.lost-hit-at-box-boundary")
							c.Sample("undecided-lost-ray-hit-2d", 2, rw(map[string]interface{}{"lost_segment": decSeg2(h.seg) + " = " + fmtSeg2(h.seg), "lost_scale": hx(h.scale)}))
						}
					}
				}
				// first
				minAll, minRobust := math.Inf(1), math.Inf(1)
				var bf []hit2
				for _, sg := range v.segs {
					if rc, ok := sg.FirstRayCollision(r); ok {
						bf = append(bf, hit2{sg, rc.Scale})
						if rc.Scale < minAll {
							minAll = rc.Scale
						}
						if rc.Scale < minRobust && slabSeg(r, sg, false, false) == slabRobust {
							minRobust = rc.Scale
						}
					}
				}
				rc, ok := v.c.FirstRayCollision(r)
				c.Count("coll2d.ray.FirstRayCollision.compared", 1)
				if ok {
					gs, _ := rc.Extra.(*model2d.Segment)
					member := false
					for _, h := range bf {
						if h.seg == gs && h.scale == rc.Scale {
							member = true
						}
					}
					if !member {
						c.Violation("model2d.JoinedCollider.FirstRayCollision/member", fmt.Sprintf("returned hit (segment #%d, scale %v) is not a hit of the linear scan", segIndex(v.segs, gs), rc.Scale), rw(nil))
					} else if rc.Scale > minRobust {
						c.Violation("model2d.JoinedCollider.FirstRayCollision/not-minimal", fmt.Sprintf("returned scale %v, linear scan has a robust hit at %v", rc.Scale, minRobust), rw(nil))
					} else if rc.Scale > minAll {
						c.Undecided("coll2d.ray.first-hit-at-box-boundary")
					}
				} else if !math.IsInf(minRobust, 1) {
					c.Violation("model2d.JoinedCollider.FirstRayCollision/lost-hit", fmt.Sprintf("reports no collision, linear scan has a robust first hit at scale %v", minRobust), rw(nil))
				} else if len(bf) > 0 {
					c.Undecided("coll2d.ray.first-hit-at-box-boundary")
				}
			}
			// ---- circles
			{
				brute, robust := false, false
				var ws *model2d.Segment
				for _, sg := range v.segs {
					if sg.CircleCollision(cen, rad) {
						brute = true
						d2, ex := boxDistSeg(cen, sg)
						if ballTouchesBoxRobust(d2, ex, rad) {
							robust, ws = true, sg
							break
						}
					}
				}
				got := v.c.CircleCollision(cen, rad)
				c.Count("coll2d.circle.queries", 1)
				c.Count("coll2d.circle.query."+ck, 1)
				if brute {
					c.Count("coll2d.circle.scan_true", 1)
				} else {
					c.Count("coll2d.circle.scan_false", 1)
				}
				cw := func() map[string]interface{} {
					return base(map[string]interface{}{"center": decC2(cen) + " = " + fmtC2(cen), "radius": fmt.Sprintf("%g = %x", rad, rad), "query_kind": ck})
				}
				switch {
				case got && !brute:
					c.Violation("model2d.JoinedCollider.CircleCollision/false-positive", "hierarchy reports a collision, no segment does", cw())
				case !got && brute && robust:
					c.Violation("model2d.JoinedCollider.CircleCollision/lost-collision", fmt.Sprintf("segment #%d %s collides with the circle (its box is robustly within reach), hierarchy reports none", segIndex(v.segs, ws), decSeg2(ws)), cw())
				case !got && brute:
					c.Undecided("coll2d.circle.box-distance-at-radius")
				}
			}
			// ---- segments
			if v.multi != nil {
				brute, robust := false, false
				var ws *model2d.Segment
				qr := &model2d.Ray{Origin: qs[0], Direction: qs[1].Sub(qs[0])}
				for _, sg := range v.segs {
					if sg.SegmentCollision(qs) {
						brute = true
						if slabSeg(qr, sg, true, dirExact) == slabRobust {
							robust, ws = true, sg
							break
						}
					}
				}
				got := v.multi.SegmentCollision(qs)
				c.Count("coll2d.segment.queries", 1)
				if brute {
					c.Count("coll2d.segment.scan_true", 1)
				} else {
					c.Count("coll2d.segment.scan_false", 1)
				}
				sw := func() map[string]interface{} {
					return base(map[string]interface{}{"segment": decSeg2(qs) + " = " + fmtSeg2(qs), "query_kind": sk})
				}
				switch {
				case got && !brute:
					c.Violation("model2d.joinedMultiCollider.SegmentCollision/false-positive", "hierarchy reports a collision, no segment does", sw())
				case !got && brute && robust:
					c.Violation("model2d.joinedMultiCollider.SegmentCollision/lost-collision", fmt.Sprintf("segment #%d %s collides with the query segment (which passes its box robustly), hierarchy reports none", segIndex(v.segs, ws), decSeg2(ws)), sw())
				case !got && brute:
					c.Undecided("coll2d.segment.at-box-boundary")
				}
			}
			// ---- rects
			if v.multi != nil {
				brute, robust := false, false
				var ws *model2d.Segment
				for _, sg := range v.segs {
					if sg.RectCollision(rect) {
						brute = true
						if segBoxMeets(sg, rect.MinVal, rect.MaxVal) {
							robust, ws = true, sg
							break
						}
					}
				}
				got := v.multi.RectCollision(rect)
				c.Count("coll2d.rect.queries", 1)
				if brute {
					c.Count("coll2d.rect.scan_true", 1)
				} else {
					c.Count("coll2d.rect.scan_false", 1)
				}
				tw := func() map[string]interface{} {
					return base(map[string]interface{}{"rect": decC2(rect.MinVal) + decC2(rect.MaxVal) + " = " + fmtC2(rect.MinVal) + fmtC2(rect.MaxVal), "query_kind": tk})
				}
				switch {
				case got && !brute:
					c.Violation("model2d.joinedMultiCollider.RectCollision/false-positive", "hierarchy reports a collision, no segment does", tw())
				case !got && brute && robust:
					c.Violation("model2d.joinedMultiCollider.RectCollision/lost-collision", fmt.Sprintf("segment #%d %s collides with the rect (boxes overlap), hierarchy reports none", segIndex(v.segs, ws), decSeg2(ws)), tw())
				case !got && brute:
					c.Undecided("coll2d.rect.disjoint-boxes-yet-segment-says-yes")
				}
			}
		}
	}
}

// sdfCase2: model2d.MeshToSDF / GroupedSegmentsToSDF vs linear scan.
func sdfCase2(c *vlib.Case, n, queries int) {
	rng := c.Rng
	var s *scene2
	for {
		s = genScene2(rng, n)
		if len(s.segs) > 0 {
			break
		}
	}
	type variant struct {
		ctor string
		f    model2d.FaceSDF
	}
	var vs []variant
	vs = append(vs, variant{"MeshToSDF", model2d.MeshToSDF(model2d.NewMeshSegments(append([]*model2d.Segment{}, s.segs...)))})
	g := append([]*model2d.Segment{}, s.segs...)
	model2d.GroupSegments(g)
	vs = append(vs, variant{"GroupedSegmentsToSDF(GroupSegments)", model2d.GroupedSegmentsToSDF(g)})
	u := append([]*model2d.Segment{}, s.segs...)
	rng.Shuffle(len(u), func(i, j int) { u[i], u[j] = u[j], u[i] })
	vs = append(vs, variant{"GroupedSegmentsToSDF(ungrouped)", model2d.GroupedSegmentsToSDF(u)})
	member := map[*model2d.Segment]bool{}
	for _, sg := range s.segs {
		member[sg] = true
	}
	smn, smx := bounds2(s.segs)
	diag := smx.Dist(smn) + 0.5
	c.Count("sdf2d.scenes", 1)
	c.Count("sdf2d.scene."+s.kind, 1)
	for q := 0; q < queries; q++ {
		var p C2
		var pk string
		switch k := rng.Intn(8); {
		case k < 3 && s.exact:
			p, pk = exactPoint2(rng, s.grid), "grid"
		case k < 5:
			sg := s.segs[rng.Intn(len(s.segs))]
			p, pk = boxFeature2(rng, sg.Min(), sg.Max()), "box-feature"
		case k < 7:
			p, pk = pointOnSeg(rng, s.segs[rng.Intn(len(s.segs))], false).Add(randUnit2(rng).Scale(diag*0.2*rng.Float64())), "near"
		default:
			p, pk = smn.Mid(smx).Add(randUnit2(rng).Scale(diag*1.5*rng.Float64())), "random"
		}
		best := math.Inf(1)
		var bestSeg *model2d.Segment
		for _, sg := range s.segs {
			d := sg.Closest(p).Dist(p)
			if d < best {
				best, bestSeg = d, sg
			}
		}
		if math.IsNaN(best) || math.IsInf(best, 0) {
			c.Undecided("sdf2d.scan-not-finite")
			continue
		}
		bd2, _ := boxDistSeg(p, bestSeg)
		attainRobust := math.Sqrt(bd2) <= best*(1+distRelTol)+1e-300
		c.Count("sdf2d.queries", 1)
		c.Count("sdf2d.query."+pk, 1)
		c.Nontrivial(fmt.Sprintf("sdf2|%s|%d|%s", s.kind, len(s.segs), fmtC2(p)))
		for _, v := range vs {
			w := func() map[string]interface{} {
				return map[string]interface{}{"constructor": v.ctor, "scene_kind": s.kind, "segments": witnessSegs(s.segs),
					"point": decC2(p) + " = " + fmtC2(p), "scan_min": fmt.Sprintf("%g = %x", best, best), "scan_segment": decSeg2(bestSeg), "query_kind": pk}
			}
			d := v.f.SDF(p)
			face, pt, d2 := v.f.FaceSDF(p)
			pt3, d3 := v.f.PointSDF(p)
			_, d4 := v.f.NormalSDF(p)
			ad := math.Abs(d)
			c.Count("sdf2d.compared", 1)
			if math.Abs(d2) != ad || math.Abs(d3) != ad || math.Abs(d4) != ad {
				c.Violation("model2d.meshSDF.SDF/variants-agree", fmt.Sprintf("|SDF|=%v |FaceSDF|=%v |PointSDF|=%v |NormalSDF|=%v", ad, math.Abs(d2), math.Abs(d3), math.Abs(d4)), w())
			}
			switch {
			case ad > best*(1+distRelTol)+1e-300:
				if attainRobust {
					c.Violation("model2d.meshSDF.SDF/not-the-minimum", fmt.Sprintf("|SDF| = %v but segment #%d is at distance %v", ad, segIndex(s.segs, bestSeg), best), w())
				} else {
					c.Undecided("sdf2d.attaining-segment-outside-own-box")
				}
			case ad < best*(1-distRelTol):
				c.Violation("model2d.meshSDF.SDF/below-the-minimum", fmt.Sprintf("|SDF| = %v is smaller than the distance to every segment (min %v)", ad, best), w())
			case ad == best:
				c.Count("sdf2d.distance_bit_equal", 1)
			default:
				c.Count("sdf2d.distance_within_tolerance", 1)
			}
			if !member[face] {
				c.Violation("model2d.meshSDF.FaceSDF/face-is-member", "returned face is not one of the input segments", w())
			} else if cp := face.Closest(p); cp != pt || cp.Dist(p) != math.Abs(d2) {
				c.Violation("model2d.meshSDF.FaceSDF/point-attains-distance", fmt.Sprintf("face.Closest(p)=%v at %v, returned point %v, |dist| %v", cp, cp.Dist(p), pt, math.Abs(d2)), w())
			}
			if pt3 != pt {
				c.Violation("model2d.meshSDF.PointSDF/same-point-as-FaceSDF", fmt.Sprintf("PointSDF %v FaceSDF %v", pt3, pt), w())
			}
		}
	}
}
