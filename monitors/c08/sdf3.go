package main

import (
	"fmt"
	"math"

	"github.com/unixpickle/model3d/model3d"
	"verif/vlib"
)

const distRelTol = 1e-9

// sdfCase3: MeshToSDF / GroupedTrianglesToSDF against the linear scan with
// Triangle.Closest (the routine the hierarchy uses at its leaves).
func sdfCase3(c *vlib.Case, n, queries int) {
	rng := c.Rng
	var s *scene3
	for {
		s = genScene3(rng, n)
		if len(s.tris) > 0 {
			break
		}
	}
	type variant struct {
		ctor string
		f    model3d.FaceSDF
	}
	var vs []variant
	vs = append(vs, variant{"MeshToSDF", model3d.MeshToSDF(model3d.NewMeshTriangles(append([]*model3d.Triangle{}, s.tris...)))})
	g := append([]*model3d.Triangle{}, s.tris...)
	model3d.GroupTriangles(g)
	vs = append(vs, variant{"GroupedTrianglesToSDF(GroupTriangles)", model3d.GroupedTrianglesToSDF(g)})
	u := append([]*model3d.Triangle{}, s.tris...)
	rng.Shuffle(len(u), func(i, j int) { u[i], u[j] = u[j], u[i] })
	vs = append(vs, variant{"GroupedTrianglesToSDF(ungrouped)", model3d.GroupedTrianglesToSDF(u)})

	member := map[*model3d.Triangle]bool{}
	for _, t := range s.tris {
		member[t] = true
	}
	c.Count("sdf3d.scenes", 1)
	c.Count("sdf3d.scene."+s.kind, 1)
	for q := 0; q < queries; q++ {
		p, pk := genPoint3(rng, s)
		// linear scan
		best := math.Inf(1)
		var bestTri *model3d.Triangle
		ties := 0
		for _, t := range s.tris {
			d := t.Closest(p).Dist(p)
			if d < best {
				best, bestTri, ties = d, t, 0
			} else if d == best {
				ties++
			}
		}
		if math.IsNaN(best) || math.IsInf(best, 0) {
			c.Undecided("sdf3d.scan-not-finite")
			continue
		}
		// Is the attaining triangle one that no correct pruning can drop? Its box
		// must not be (numerically) farther than the distance its own routine reports.
		bd2, _ := boxDistTri(p, bestTri)
		attainRobust := math.Sqrt(bd2) <= best*(1+distRelTol)+1e-300
		c.Count("sdf3d.queries", 1)
		c.Count("sdf3d.query."+pk, 1)
		if ties > 0 {
			c.Count("sdf3d.queries_with_ties", 1)
		}
		c.Nontrivial(fmt.Sprintf("sdf3|%s|%d|%s", s.kind, len(s.tris), fmtC3(p)))
		for _, v := range vs {
			w := func() map[string]interface{} {
				return map[string]interface{}{"constructor": v.ctor, "scene_kind": s.kind, "triangles": witnessTris(s.tris),
					"point": decC3(p) + " = " + fmtC3(p), "scan_min": fmt.Sprintf("%g = %x", best, best), "scan_triangle": decTri(bestTri), "query_kind": pk}
			}
			d := v.f.SDF(p)
			face, pt, d2 := v.f.FaceSDF(p)
			pt3, d3 := v.f.PointSDF(p)
			nrm, d4 := v.f.NormalSDF(p)
			c.Count("sdf3d.compared", 1)
			ad := math.Abs(d)
			if math.Abs(d2) != ad || math.Abs(d3) != ad || math.Abs(d4) != ad {
				c.Violation("model3d.meshSDF.SDF/variants-agree", fmt.Sprintf("|SDF|=%v |FaceSDF|=%v |PointSDF|=%v |NormalSDF|=%v", ad, math.Abs(d2), math.Abs(d3), math.Abs(d4)), w())
			}
			switch {
			case ad > best*(1+distRelTol)+1e-300:
				if attainRobust {
					ww := w()
					ww["got"] = fmt.Sprintf("%g = %x", ad, ad)
					c.Violation("model3d.meshSDF.SDF/not-the-minimum",
						fmt.Sprintf("|SDF| = %v but triangle #%d is at distance %v", ad, triIndex(s.tris, bestTri), best), ww)
				} else {
					c.Undecided("sdf3d.attaining-triangle-outside-own-box")
				}
			case ad < best*(1-distRelTol):
				ww := w()
				ww["got"] = fmt.Sprintf("%g = %x", ad, ad)
				c.Violation("model3d.meshSDF.SDF/below-the-minimum", fmt.Sprintf("|SDF| = %v is smaller than the distance to every triangle (min %v)", ad, best), ww)
			case ad == best:
				c.Count("sdf3d.distance_bit_equal", 1)
			default:
				c.Count("sdf3d.distance_within_tolerance", 1)
			}
			// the returned face/point must be a member attaining the reported distance
			if !member[face] {
				c.Violation("model3d.meshSDF.FaceSDF/face-is-member", "returned face is not one of the input triangles", w())
			} else {
				cp := face.Closest(p)
				if cp != pt || cp.Dist(p) != math.Abs(d2) {
					c.Violation("model3d.meshSDF.FaceSDF/point-attains-distance",
						fmt.Sprintf("face.Closest(p)=%v at %v, returned point %v, |dist| %v", cp, cp.Dist(p), pt, math.Abs(d2)), w())
				}
				if fn := face.Normal(); fn != nrm {
					// ties may pick another face in a separate call only if the structure is nondeterministic; it is not.
					c.Violation("model3d.meshSDF.NormalSDF/normal-of-face", fmt.Sprintf("NormalSDF normal %v, FaceSDF face normal %v", nrm, fn), w())
				}
			}
			if pt3 != pt {
				c.Violation("model3d.meshSDF.PointSDF/same-point-as-FaceSDF", fmt.Sprintf("PointSDF %v FaceSDF %v", pt3, pt), w())
			}
		}
	}
}
