module verif

go 1.18

require github.com/unixpickle/model3d v0.0.0

require (
	github.com/pkg/errors v0.9.1 // indirect
	github.com/unixpickle/essentials v1.3.0 // indirect
	github.com/unixpickle/splaytree v1.1.0 // indirect
)

replace github.com/unixpickle/model3d => /repo
