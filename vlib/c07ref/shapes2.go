package c07ref

import (
	"fmt"
	"math"
	"sort"
)

// Hit2 is one reference intersection of a 2D ray with an outline.
type Hit2 struct {
	T    float64
	P    V2
	N    V2
	Tang float64
	Feat float64
	Rad  float64 // see Hit.Rad
	Seg  int
}

// Shape2 is a reference outline (see Shape3).
type Shape2 interface {
	Name() string
	RayHits(o, d V2) []Hit2
	SDF(p V2) float64
	Closed() bool
	Center() V2
	Size() float64
	Describe() string
}

func SortHits2(h []Hit2) {
	sort.Slice(h, func(i, j int) bool { return h[i].T < h[j].T })
}

// ---------------------------------------------------------------------------

type Circle struct {
	C V2
	R float64
}

func (s *Circle) Name() string     { return "circle" }
func (s *Circle) Closed() bool     { return true }
func (s *Circle) Center() V2       { return s.C }
func (s *Circle) Size() float64    { return s.R }
func (s *Circle) Describe() string { return fmt.Sprintf("circle c=%s r=%x", c7hex2(s.C), s.R) }
func (s *Circle) SDF(p V2) float64 { return s.R - p.Dist(s.C) }
func (s *Circle) RayHits(o, d V2) []Hit2 {
	dn := d.Norm()
	dh := d.Scale(1 / dn)
	oc := o.Sub(s.C)
	sm := -oc.Dot(dh)
	perp := oc.Add(dh.Scale(sm))
	h2 := s.R*s.R - perp.Dot(perp)
	if !(h2 > 0) {
		return nil
	}
	h := math.Sqrt(h2)
	var res []Hit2
	for _, sd := range [2]float64{sm - h, sm + h} {
		if sd > 0 {
			p := o.Add(dh.Scale(sd))
			n := p.Sub(s.C).Unit()
			res = append(res, Hit2{T: sd / dn, P: p, N: n, Tang: math.Abs(n.Dot(dh)), Feat: math.Inf(1), Rad: s.R})
		}
	}
	return res
}

// ---------------------------------------------------------------------------

type Rect2 struct{ Min, Max V2 }

func (b *Rect2) Name() string  { return "rect" }
func (b *Rect2) Closed() bool  { return true }
func (b *Rect2) Center() V2    { return b.Min.Add(b.Max).Scale(0.5) }
func (b *Rect2) Size() float64 { return b.Max.Sub(b.Min).Norm() / 2 }
func (b *Rect2) Describe() string {
	return fmt.Sprintf("rect min=%s max=%s", c7hex2(b.Min), c7hex2(b.Max))
}
func (b *Rect2) SDF(p V2) float64 {
	qx := math.Max(b.Min.X-p.X, p.X-b.Max.X)
	qy := math.Max(b.Min.Y-p.Y, p.Y-b.Max.Y)
	if qx > 0 || qy > 0 {
		return -math.Hypot(math.Max(qx, 0), math.Max(qy, 0))
	}
	return math.Min(-qx, -qy)
}
func (b *Rect2) RayHits(o, d V2) []Hit2 {
	dn := d.Norm()
	dh := d.Scale(1 / dn)
	oa, da := [2]float64{o.X, o.Y}, [2]float64{dh.X, dh.Y}
	mn, mx := [2]float64{b.Min.X, b.Min.Y}, [2]float64{b.Max.X, b.Max.Y}
	var res []Hit2
	for i := 0; i < 2; i++ {
		if da[i] == 0 {
			continue
		}
		j := 1 - i
		for side, f := range [2]float64{mn[i], mx[i]} {
			s := (f - oa[i]) / da[i]
			if !(s > 0) {
				continue
			}
			var p, n [2]float64
			p[i] = f
			p[j] = oa[j] + da[j]*s
			m := math.Min(p[j]-mn[j], mx[j]-p[j])
			if !(m > -borderSlack*(mx[j]-mn[j])) {
				continue
			}
			n[i] = float64(2*side - 1)
			res = append(res, Hit2{T: s / dn, P: V2{p[0], p[1]}, N: V2{n[0], n[1]}, Tang: math.Abs(da[i]), Feat: math.Max(0, m), Rad: math.Inf(1)})
		}
	}
	return res
}

// ---------------------------------------------------------------------------

type Capsule2 struct {
	P1, P2 V2
	R      float64
}

func (c *Capsule2) Name() string  { return "capsule" }
func (c *Capsule2) Closed() bool  { return true }
func (c *Capsule2) Center() V2    { return c.P1.Add(c.P2).Scale(0.5) }
func (c *Capsule2) Size() float64 { return c.P1.Dist(c.P2)/2 + c.R }
func (c *Capsule2) Describe() string {
	return fmt.Sprintf("capsule p1=%s p2=%s r=%x", c7hex2(c.P1), c7hex2(c.P2), c.R)
}
func (c *Capsule2) SDF(p V2) float64 { return c.R - PointSegDist2(p, c.P1, c.P2) }
func (c *Capsule2) RayHits(o, d V2) []Hit2 {
	dn := d.Norm()
	dh := d.Scale(1 / dn)
	l := c.P1.Dist(c.P2)
	a := c.P2.Sub(c.P1).Scale(1 / l)
	nl := V2{-a.Y, a.X}
	var res []Hit2
	// the two straight sides: lines at offset +-R from the axis
	den := dh.Dot(nl)
	if den != 0 {
		off := o.Sub(c.P1).Dot(nl)
		for _, sg := range [2]float64{-1, 1} {
			s := (sg*c.R - off) / den
			if !(s > 0) {
				continue
			}
			p := o.Add(dh.Scale(s))
			z := p.Sub(c.P1).Dot(a)
			if z >= 0 && z <= l {
				res = append(res, Hit2{T: s / dn, P: p, N: nl.Scale(sg), Tang: math.Abs(den), Feat: math.Min(z, l-z), Rad: math.Inf(1)})
			}
		}
	}
	for k, ctr := range [2]V2{c.P1, c.P2} {
		ci := &Circle{C: ctr, R: c.R}
		for _, h := range ci.RayHits(o, dh) {
			z := h.P.Sub(c.P1).Dot(a)
			if (k == 0 && z < 0) || (k == 1 && z > l) {
				h.T /= dn
				if k == 0 {
					h.Feat = -z
				} else {
					h.Feat = z - l
				}
				res = append(res, h)
			}
		}
	}
	return res
}

// ---------------------------------------------------------------------------
// Segs2 is an outline made of directed segments. For closed outlines the
// outward normal of each segment is decided at construction by probing the
// crossing-number membership on both sides of the midpoint (no orientation
// convention is assumed); for open outlines it is the left normal (-dy, dx),
// which is the convention model2d.Segment documents.

type Segs2 struct {
	Label  string
	Segs   [][2]V2
	Norm   []V2
	closed bool
	Ctr    V2
	Sz     float64
	// Bad is set when an outward normal could not be decided.
	Bad bool
}

func NewSegs2(label string, segs [][2]V2, closed bool) *Segs2 {
	s := &Segs2{Label: label, Segs: segs, closed: closed}
	mn := V2{math.Inf(1), math.Inf(1)}
	mx := V2{math.Inf(-1), math.Inf(-1)}
	for _, g := range segs {
		for _, p := range g {
			mn = V2{math.Min(mn.X, p.X), math.Min(mn.Y, p.Y)}
			mx = V2{math.Max(mx.X, p.X), math.Max(mx.Y, p.Y)}
		}
	}
	s.Ctr = mn.Add(mx).Scale(0.5)
	s.Sz = mx.Sub(mn).Norm() / 2
	s.Norm = make([]V2, len(segs))
	for i, g := range segs {
		d := g[1].Sub(g[0]).Unit()
		left := V2{-d.Y, d.X}
		if !closed {
			s.Norm[i] = left
			continue
		}
		mid := g[0].Add(g[1]).Scale(0.5)
		eps := 1e-6 * s.Sz
		inL := s.crossing(mid.Add(left.Scale(eps)))
		inR := s.crossing(mid.Sub(left.Scale(eps)))
		switch {
		case inL && !inR:
			s.Norm[i] = left.Scale(-1)
		case inR && !inL:
			s.Norm[i] = left
		default:
			s.Bad = true
			s.Norm[i] = left
		}
	}
	return s
}

// crossing is the even-odd membership test with the half-open vertex rule.
func (s *Segs2) crossing(p V2) bool {
	in := false
	for _, g := range s.Segs {
		a, b := g[0], g[1]
		if (a.Y > p.Y) != (b.Y > p.Y) {
			x := a.X + (p.Y-a.Y)/(b.Y-a.Y)*(b.X-a.X)
			if p.X < x {
				in = !in
			}
		}
	}
	return in
}

func (s *Segs2) Name() string  { return s.Label }
func (s *Segs2) Closed() bool  { return s.closed }
func (s *Segs2) Center() V2    { return s.Ctr }
func (s *Segs2) Size() float64 { return s.Sz }
func (s *Segs2) Describe() string {
	str := s.Label
	if len(s.Segs) <= 24 {
		for _, g := range s.Segs {
			str += fmt.Sprintf(" [%s %s]", c7hex2(g[0]), c7hex2(g[1]))
		}
	} else {
		str += fmt.Sprintf(" (%d segments)", len(s.Segs))
	}
	return str
}
func (s *Segs2) Dist(p V2) float64 {
	d := math.Inf(1)
	for _, g := range s.Segs {
		d = math.Min(d, PointSegDist2(p, g[0], g[1]))
	}
	return d
}
func (s *Segs2) SDF(p V2) float64 {
	d := s.Dist(p)
	if s.closed && s.crossing(p) {
		return d
	}
	return -d
}

// RaySeg2 intersects the ray (o, unit dh) with the segment ab.
func RaySeg2(o, dh, a, b V2) (s, u float64, ok bool) {
	e := b.Sub(a)
	den := dh.Cross(e)
	if den == 0 {
		return 0, 0, false
	}
	ao := a.Sub(o)
	s = ao.Cross(e) / den
	u = ao.Cross(dh) / den
	return s, u, s > 0 && u > -borderSlack && u < 1+borderSlack
}

func (s *Segs2) RayHits(o, d V2) []Hit2 {
	dn := d.Norm()
	dh := d.Scale(1 / dn)
	var res []Hit2
	for i, g := range s.Segs {
		sd, u, ok := RaySeg2(o, dh, g[0], g[1])
		if !ok {
			continue
		}
		l := g[0].Dist(g[1])
		p := g[0].Add(g[1].Sub(g[0]).Scale(u))
		res = append(res, Hit2{T: sd / dn, P: p, N: s.Norm[i], Tang: math.Abs(s.Norm[i].Dot(dh)),
			Feat: math.Max(0, math.Min(u, 1-u)) * l, Rad: math.Inf(1), Seg: i})
	}
	return res
}

// ---------------------------------------------------------------------------

type Union2 struct{ Parts []Shape2 }

func (u *Union2) Name() string { return "union" }
func (u *Union2) Closed() bool {
	for _, p := range u.Parts {
		if !p.Closed() {
			return false
		}
	}
	return true
}
func (u *Union2) Center() V2 {
	var c V2
	for _, p := range u.Parts {
		c = c.Add(p.Center())
	}
	return c.Scale(1 / float64(len(u.Parts)))
}
func (u *Union2) Size() float64 {
	c := u.Center()
	s := 0.0
	for _, p := range u.Parts {
		s = math.Max(s, c.Dist(p.Center())+p.Size())
	}
	return s
}
func (u *Union2) Describe() string {
	s := "union{"
	for i, p := range u.Parts {
		if i > 0 {
			s += "; "
		}
		s += p.Describe()
	}
	return s + "}"
}
func (u *Union2) SDF(p V2) float64 {
	d := math.Inf(1)
	par := 0
	for _, s := range u.Parts {
		v := s.SDF(p)
		if v > 0 {
			par++
		}
		d = math.Min(d, math.Abs(v))
	}
	if par%2 == 1 {
		return d
	}
	return -d
}
func (u *Union2) RayHits(o, d V2) []Hit2 {
	var res []Hit2
	for _, s := range u.Parts {
		res = append(res, s.RayHits(o, d)...)
	}
	return res
}

// ---------------------------------------------------------------------------

type Similarity2 struct {
	Inner Shape2
	M     [2]V2 // columns, orthonormal
	S     float64
	T     V2
}

func (s *Similarity2) lin(x V2) V2    { return s.M[0].Scale(x.X).Add(s.M[1].Scale(x.Y)) }
func (s *Similarity2) linInv(x V2) V2 { return V2{s.M[0].Dot(x), s.M[1].Dot(x)} }
func (s *Similarity2) apply(x V2) V2  { return s.lin(x).Scale(s.S).Add(s.T) }
func (s *Similarity2) inv(x V2) V2    { return s.linInv(x.Sub(s.T)).Scale(1 / s.S) }
func (s *Similarity2) Name() string   { return "transformed-" + s.Inner.Name() }
func (s *Similarity2) Closed() bool   { return s.Inner.Closed() }
func (s *Similarity2) Center() V2     { return s.apply(s.Inner.Center()) }
func (s *Similarity2) Size() float64  { return s.S * s.Inner.Size() }
func (s *Similarity2) Describe() string {
	return fmt.Sprintf("similarity(scale=%x cols=%s%s t=%s) of %s", s.S, c7hex2(s.M[0]), c7hex2(s.M[1]), c7hex2(s.T), s.Inner.Describe())
}
func (s *Similarity2) SDF(p V2) float64 { return s.S * s.Inner.SDF(s.inv(p)) }
func (s *Similarity2) RayHits(o, d V2) []Hit2 {
	hs := s.Inner.RayHits(s.inv(o), s.linInv(d).Scale(1/s.S))
	for i := range hs {
		hs[i].P = s.apply(hs[i].P)
		hs[i].N = s.lin(hs[i].N)
		hs[i].Feat *= s.S
		hs[i].Rad *= s.S
	}
	return hs
}
