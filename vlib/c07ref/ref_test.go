package c07ref

import (
	"math"
	"math/rand"
	"testing"
)

func rv3(r *rand.Rand) V3 { return V3{r.NormFloat64(), r.NormFloat64(), r.NormFloat64()} }
func rv2(r *rand.Rand) V2 { return V2{r.NormFloat64(), r.NormFloat64()} }

func shapes3(r *rand.Rand) []Shape3 {
	circ := &Circle{C: rv2(r), R: 0.5 + r.Float64()}
	return []Shape3{
		&Sphere{C: rv3(r), R: 0.5 + r.Float64()},
		&Box{Min: V3{-1, -2, -0.5}, Max: V3{0.5, 1, 2}},
		&Cylinder{P1: rv3(r), P2: rv3(r).Add(V3{3, 0, 0}), R: 0.5 + r.Float64()},
		&Capsule{P1: rv3(r), P2: rv3(r).Add(V3{0, 3, 0}), R: 0.5 + r.Float64()},
		&Cone{Tip: rv3(r), Base: rv3(r).Add(V3{0, 0, 3}), R: 0.5 + r.Float64()},
		&Torus{C: rv3(r), A: rv3(r).Unit(), R: 1 + r.Float64(), R2: 0.1 + 0.8*r.Float64()},
		&Prism{Base: circ, Z0: -1, Z1: 0.7},
		&Similarity3{Inner: &Cone{Tip: V3{0, 0, 1}, Base: V3{}, R: 0.5}, M: [3]V3{{0, 1, 0}, {0, 0, 1}, {1, 0, 0}}, S: 2.5, T: rv3(r)},
	}
}

// Every reference hit lies on the reference surface, has a unit normal that
// agrees with the numerical gradient of the SDF, and the hit count has the
// parity of the origin's membership.
func TestRef3SelfConsistency(t *testing.T) {
	r := rand.New(rand.NewSource(7))
	for iter := 0; iter < 300; iter++ {
		for _, s := range shapes3(r) {
			for k := 0; k < 20; k++ {
				o := s.Center().Add(rv3(r).Scale(s.Size() * (0.2 + 2*r.Float64())))
				tgt := s.Center().Add(rv3(r).Scale(s.Size() * 0.5))
				d := tgt.Sub(o).Scale(math.Pow(10, r.Float64()*4-2))
				hits := s.RayHits(o, d)
				minTang := 1.0
				for _, h := range hits {
					if e := math.Abs(s.SDF(h.P)); e > 1e-9*s.Size() {
						t.Fatalf("%s: hit off surface by %g (%s)", s.Name(), e, s.Describe())
					}
					if e := h.P.Dist(o.Add(d.Scale(h.T))); e > 1e-9*(s.Size()+o.Dist(h.P)) {
						t.Fatalf("%s: T inconsistent with P by %g", s.Name(), e)
					}
					if e := math.Abs(h.N.Norm() - 1); e > 1e-12 {
						t.Fatalf("%s: normal not unit", s.Name())
					}
					minTang = math.Min(minTang, h.Tang)
					if h.Feat > 1e-3*s.Size() {
						eps := 1e-6 * s.Size()
						g := (s.SDF(h.P.Add(h.N.Scale(eps))) - s.SDF(h.P.Sub(h.N.Scale(eps)))) / (2 * eps)
						if math.Abs(g+1) > 1e-3 {
							t.Fatalf("%s: normal is not the outward gradient direction: dSDF/dn=%g (%s)", s.Name(), g, s.Describe())
						}
					}
				}
				if math.Abs(s.SDF(o)) > 1e-6 && minTang > 1e-3 {
					if (len(hits)%2 == 1) != (s.SDF(o) > 0) {
						t.Fatalf("%s: parity %d hits but sdf(o)=%g (%s) o=%v d=%v", s.Name(), len(hits), s.SDF(o), s.Describe(), o, d)
					}
				}
			}
		}
	}
}

func TestRealRoots(t *testing.T) {
	// (x-1)(x-2)(x+3)(x-0.5) expanded
	p := []float64{1}
	for _, r := range []float64{1, 2, -3, 0.5} {
		q := make([]float64, len(p)+1)
		for i, c := range p {
			q[i+1] += c
			q[i] -= c * r
		}
		p = q
	}
	roots, _ := RealRoots(p)
	want := []float64{-3, 0.5, 1, 2}
	if len(roots) != 4 {
		t.Fatalf("roots %v", roots)
	}
	for i := range want {
		if math.Abs(roots[i]-want[i]) > 1e-12 {
			t.Fatalf("roots %v", roots)
		}
	}
	if roots, _ := RealRoots([]float64{1, 0, 1}); len(roots) != 0 {
		t.Fatalf("x^2+1 has roots %v", roots)
	}
	if roots, _ := RealRoots([]float64{1, 0, 0, 0, 1}); len(roots) != 0 {
		t.Fatalf("x^4+1 has roots %v", roots)
	}
}

func TestIsect(t *testing.T) {
	tri := [3]V3{{0, 0, 0}, {2, 0, 0}, {0, 2, 0}}
	if hit, at, m := SegTri(V3{0.5, 0.5, -1}, V3{0.5, 0.5, 1}, tri); !hit || at.Dist(V3{0.5, 0.5, 0}) > 1e-15 || math.Abs(m-0.5) > 1e-12 {
		t.Fatalf("segtri %v %v %v", hit, at, m)
	}
	if hit, _, m := SegTri(V3{3, 3, -1}, V3{3, 3, 1}, tri); hit || math.Abs(m-math.Sqrt(8)) > 1e-12 {
		t.Fatalf("segtri miss %v %v", hit, m)
	}
	if g := BoxTri(V3{-1, -1, -1}, V3{1, 1, 1}, tri); !(g < 0) {
		t.Fatalf("boxtri %v", g)
	}
	if g := BoxTri(V3{-1, -1, 1}, V3{1, 1, 2}, tri); math.Abs(g-1) > 1e-12 {
		t.Fatalf("boxtri sep %v", g)
	}
	// corner case only the cross axes separate
	tri2 := [3]V3{{3, 0, -5}, {0, 3, -5}, {1.5, 1.5, 5}}
	if g := BoxTri(V3{-1, -1, -1}, V3{1, 1, 1}, tri2); !(g > 0) {
		t.Fatalf("boxtri cross-axis %v", g)
	}
	st, seg, _ := TriTri(tri, [3]V3{{0.5, 0.5, -1}, {0.5, 0.5, 1}, {5, 5, 0.5}})
	if st != 1 || math.Abs(seg[0].Dist(seg[1])-math.Sqrt(0.5)) > 1e-12 {
		t.Fatalf("tritri %v %v", st, seg)
	}
	if d := SegBoxDepth3(V3{-5, 0, 0}, V3{5, 0, 0}, V3{-1, -1, -1}, V3{1, 1, 1}); math.Abs(d-1) > 1e-9 {
		t.Fatalf("segbox %v", d)
	}
	if hit, m := SegSeg2(V2{-1, 0}, V2{1, 0}, V2{0, -1}, V2{0, 1}); !hit || math.Abs(m-1) > 1e-12 {
		t.Fatalf("segseg %v %v", hit, m)
	}
	if d := SegSegDist3(V3{0, 0, 0}, V3{1, 0, 0}, V3{0.5, -1, 1}, V3{0.5, 1, 1}); math.Abs(d-1) > 1e-12 {
		t.Fatalf("segsegdist %v", d)
	}
}

func TestRef2(t *testing.T) {
	r := rand.New(rand.NewSource(3))
	star := func() *Segs2 {
		n := 7
		var pts []V2
		for i := 0; i < n; i++ {
			th := -2 * math.Pi * float64(i) / float64(n)
			rad := 0.5 + r.Float64()
			pts = append(pts, V2{rad * math.Cos(th), rad * math.Sin(th)})
		}
		var segs [][2]V2
		for i := range pts {
			segs = append(segs, [2]V2{pts[i], pts[(i+1)%n]})
		}
		return NewSegs2("star", segs, true)
	}
	for iter := 0; iter < 300; iter++ {
		st := star()
		if st.Bad {
			t.Fatal("bad star")
		}
		for i, g := range st.Segs {
			d := g[1].Sub(g[0]).Unit()
			if st.Norm[i].Dist(V2{-d.Y, d.X}) > 1e-12 {
				t.Fatal("clockwise polygon must have left normals outward")
			}
		}
		for _, s := range []Shape2{&Circle{C: rv2(r), R: 1}, &Rect2{Min: V2{-1, -2}, Max: V2{2, 1}},
			&Capsule2{P1: rv2(r), P2: rv2(r).Add(V2{3, 0}), R: 0.7}, st} {
			for k := 0; k < 20; k++ {
				o := s.Center().Add(rv2(r).Scale(s.Size() * (0.2 + 2*r.Float64())))
				d := s.Center().Add(rv2(r).Scale(0.4 * s.Size())).Sub(o).Scale(math.Pow(10, r.Float64()*4-2))
				hits := s.RayHits(o, d)
				mt := 1.0
				for _, h := range hits {
					if e := math.Abs(s.SDF(h.P)); e > 1e-9*s.Size() {
						t.Fatalf("%s off surface %g", s.Name(), e)
					}
					if e := h.P.Dist(o.Add(d.Scale(h.T))); e > 1e-9*(s.Size()+o.Dist(h.P)) {
						t.Fatalf("%s T/P %g", s.Name(), e)
					}
					mt = math.Min(mt, h.Tang)
					if h.Feat > 1e-3 {
						eps := 1e-6
						g := (s.SDF(h.P.Add(h.N.Scale(eps))) - s.SDF(h.P.Sub(h.N.Scale(eps)))) / (2 * eps)
						if math.Abs(g+1) > 1e-3 {
							t.Fatalf("%s normal gradient %g", s.Name(), g)
						}
					}
				}
				if math.Abs(s.SDF(o)) > 1e-6 && mt > 1e-3 && (len(hits)%2 == 1) != (s.SDF(o) > 0) {
					t.Fatalf("%s parity", s.Name())
				}
			}
		}
	}
}
