// Package c07ref is the reference geometry of the C07 monitor: its own vector
// arithmetic, closed-form ray/surface intersections, exact signed distances and
// query-shape intersection tests. Nothing here calls into model3d/model2d
// geometry code; the library's Coord types are only converted field by field.
package c07ref

import (
	"math"

	"github.com/unixpickle/model3d/model2d"
	"github.com/unixpickle/model3d/model3d"
)

type C3 = model3d.Coord3D
type C2 = model2d.Coord

// V3 is an independent 3-vector.
type V3 struct{ X, Y, Z float64 }

// V2 is an independent 2-vector.
type V2 struct{ X, Y float64 }

func From3(c C3) V3 { return V3{c.X, c.Y, c.Z} }
func From2(c C2) V2 { return V2{c.X, c.Y} }
func (a V3) C3() C3 { return C3{X: a.X, Y: a.Y, Z: a.Z} }
func (a V2) C2() C2 { return C2{X: a.X, Y: a.Y} }

func (a V3) Add(b V3) V3        { return V3{a.X + b.X, a.Y + b.Y, a.Z + b.Z} }
func (a V3) Sub(b V3) V3        { return V3{a.X - b.X, a.Y - b.Y, a.Z - b.Z} }
func (a V3) Scale(s float64) V3 { return V3{a.X * s, a.Y * s, a.Z * s} }
func (a V3) Dot(b V3) float64   { return a.X*b.X + a.Y*b.Y + a.Z*b.Z }
func (a V3) Cross(b V3) V3 {
	return V3{a.Y*b.Z - a.Z*b.Y, a.Z*b.X - a.X*b.Z, a.X*b.Y - a.Y*b.X}
}
func (a V3) Norm() float64 { return math.Sqrt(a.Dot(a)) }
func (a V3) Unit() V3 {
	// scaled to avoid overflow/underflow for extreme magnitudes
	m := math.Max(math.Abs(a.X), math.Max(math.Abs(a.Y), math.Abs(a.Z)))
	if m == 0 || math.IsInf(m, 0) || math.IsNaN(m) {
		return a
	}
	b := a.Scale(1 / m)
	return b.Scale(1 / b.Norm())
}
func (a V3) Dist(b V3) float64 { return a.Sub(b).Norm() }
func (a V3) XY() V2            { return V2{a.X, a.Y} }
func (a V3) Arr() [3]float64   { return [3]float64{a.X, a.Y, a.Z} }
func (a V3) Finite() bool {
	return !math.IsNaN(a.X+a.Y+a.Z) && !math.IsInf(a.X+a.Y+a.Z, 0)
}
func Arr3(v [3]float64) V3 { return V3{v[0], v[1], v[2]} }

func (a V2) Add(b V2) V2        { return V2{a.X + b.X, a.Y + b.Y} }
func (a V2) Sub(b V2) V2        { return V2{a.X - b.X, a.Y - b.Y} }
func (a V2) Scale(s float64) V2 { return V2{a.X * s, a.Y * s} }
func (a V2) Dot(b V2) float64   { return a.X*b.X + a.Y*b.Y }
func (a V2) Cross(b V2) float64 { return a.X*b.Y - a.Y*b.X }
func (a V2) Norm() float64      { return math.Hypot(a.X, a.Y) }
func (a V2) Unit() V2 {
	n := a.Norm()
	if n == 0 || math.IsInf(n, 0) || math.IsNaN(n) {
		return a
	}
	return a.Scale(1 / n)
}
func (a V2) Dist(b V2) float64 { return a.Sub(b).Norm() }
func (a V2) Finite() bool      { return !math.IsNaN(a.X+a.Y) && !math.IsInf(a.X+a.Y, 0) }

// OrthoFrame returns two unit vectors orthogonal to the unit vector a and to
// each other, with u x v = a.
func OrthoFrame(a V3) (V3, V3) {
	var h V3
	ax, ay, az := math.Abs(a.X), math.Abs(a.Y), math.Abs(a.Z)
	switch {
	case ax <= ay && ax <= az:
		h = V3{1, 0, 0}
	case ay <= az:
		h = V3{0, 1, 0}
	default:
		h = V3{0, 0, 1}
	}
	u := h.Sub(a.Scale(h.Dot(a))).Unit()
	v := a.Cross(u)
	return u, v
}

// PointSegDist3 is the distance from p to the segment ab.
func PointSegDist3(p, a, b V3) float64 {
	ab := b.Sub(a)
	l2 := ab.Dot(ab)
	if l2 == 0 {
		return p.Dist(a)
	}
	t := p.Sub(a).Dot(ab) / l2
	if t < 0 {
		t = 0
	} else if t > 1 {
		t = 1
	}
	return p.Dist(a.Add(ab.Scale(t)))
}

// PointSegDist2 is the distance from p to the segment ab.
func PointSegDist2(p, a, b V2) float64 {
	ab := b.Sub(a)
	l2 := ab.Dot(ab)
	if l2 == 0 {
		return p.Dist(a)
	}
	t := p.Sub(a).Dot(ab) / l2
	if t < 0 {
		t = 0
	} else if t > 1 {
		t = 1
	}
	return p.Dist(a.Add(ab.Scale(t)))
}

// ClosestOnTri returns the point of triangle abc closest to p (Ericson,
// Real-Time Collision Detection 5.1.5, re-derived region by region).
func ClosestOnTri(p, a, b, c V3) V3 {
	ab, ac, ap := b.Sub(a), c.Sub(a), p.Sub(a)
	d1, d2 := ab.Dot(ap), ac.Dot(ap)
	if d1 <= 0 && d2 <= 0 {
		return a
	}
	bp := p.Sub(b)
	d3, d4 := ab.Dot(bp), ac.Dot(bp)
	if d3 >= 0 && d4 <= d3 {
		return b
	}
	vc := d1*d4 - d3*d2
	if vc <= 0 && d1 >= 0 && d3 <= 0 {
		return a.Add(ab.Scale(d1 / (d1 - d3)))
	}
	cp := p.Sub(c)
	d5, d6 := ab.Dot(cp), ac.Dot(cp)
	if d6 >= 0 && d5 <= d6 {
		return c
	}
	vb := d5*d2 - d1*d6
	if vb <= 0 && d2 >= 0 && d6 <= 0 {
		return a.Add(ac.Scale(d2 / (d2 - d6)))
	}
	va := d3*d6 - d5*d4
	if va <= 0 && (d4-d3) >= 0 && (d5-d6) >= 0 {
		w := (d4 - d3) / ((d4 - d3) + (d5 - d6))
		return b.Add(c.Sub(b).Scale(w))
	}
	den := 1 / (va + vb + vc)
	v := vb * den
	w := vc * den
	return a.Add(ab.Scale(v)).Add(ac.Scale(w))
}

// PointTriDist is the distance from p to the triangle abc. It takes the
// minimum of the region-based closest point and the three edge distances so
// that a misclassified region (rounding) can only over-estimate by rounding.
func PointTriDist(p, a, b, c V3) float64 {
	d := p.Dist(ClosestOnTri(p, a, b, c))
	d = math.Min(d, PointSegDist3(p, a, b))
	d = math.Min(d, PointSegDist3(p, b, c))
	d = math.Min(d, PointSegDist3(p, c, a))
	return d
}
