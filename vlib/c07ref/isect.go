package c07ref

import "math"

// Reference intersection tests for the query shapes of C07 (segment, box,
// triangle). Each returns the boolean answer and a margin: the size of the
// perturbation (as a distance) the answer is certainly stable against. Callers
// decide a case only when the margin exceeds their tolerance.

// SegSegDist3 is the distance between segments p1q1 and p2q2.
func SegSegDist3(p1, q1, p2, q2 V3) float64 {
	d1, d2, r := q1.Sub(p1), q2.Sub(p2), p1.Sub(p2)
	a, e, f := d1.Dot(d1), d2.Dot(d2), d2.Dot(r)
	clamp := func(x float64) float64 { return math.Max(0, math.Min(1, x)) }
	var s, t float64
	switch {
	case a == 0 && e == 0:
		return p1.Dist(p2)
	case a == 0:
		t = clamp(f / e)
	default:
		c := d1.Dot(r)
		if e == 0 {
			s = clamp(-c / a)
		} else {
			b := d1.Dot(d2)
			den := a*e - b*b
			if den > 0 {
				s = clamp((b*f - c*e) / den)
			}
			t = (b*s + f) / e
			if t < 0 {
				t = 0
				s = clamp(-c / a)
			} else if t > 1 {
				t = 1
				s = clamp((b - c) / a)
			}
		}
	}
	best := p1.Add(d1.Scale(s)).Dist(p2.Add(d2.Scale(t)))
	// guard against the nearly parallel case: endpoint distances are upper bounds
	best = math.Min(best, PointSegDist3(p1, p2, q2))
	best = math.Min(best, PointSegDist3(q1, p2, q2))
	best = math.Min(best, PointSegDist3(p2, p1, q1))
	best = math.Min(best, PointSegDist3(q2, p1, q1))
	return best
}

// SegTri reports whether segment p0p1 crosses triangle t, the crossing point
// and the stability margin.
func SegTri(p0, p1 V3, t [3]V3) (hit bool, at V3, margin float64) {
	n := t[1].Sub(t[0]).Cross(t[2].Sub(t[0]))
	nn := n.Norm()
	if nn == 0 {
		return false, at, 0
	}
	nu := n.Scale(1 / nn)
	h0 := p0.Sub(t[0]).Dot(nu)
	h1 := p1.Sub(t[0]).Dot(nu)
	miss := func() float64 {
		d := math.Min(PointTriDist(p0, t[0], t[1], t[2]), PointTriDist(p1, t[0], t[1], t[2]))
		for i := 0; i < 3; i++ {
			d = math.Min(d, SegSegDist3(p0, p1, t[i], t[(i+1)%3]))
		}
		return d
	}
	if (h0 > 0) == (h1 > 0) || h0 == 0 || h1 == 0 {
		return false, at, miss()
	}
	u := h0 / (h0 - h1)
	p := p0.Add(p1.Sub(p0).Scale(u))
	w0 := t[1].Sub(p).Cross(t[2].Sub(p)).Dot(n) / (nn * nn)
	w1 := t[2].Sub(p).Cross(t[0].Sub(p)).Dot(n) / (nn * nn)
	w2 := t[0].Sub(p).Cross(t[1].Sub(p)).Dot(n) / (nn * nn)
	if !(w0 > 0 && w1 > 0 && w2 > 0) {
		return false, at, miss()
	}
	feat := math.Min(PointSegDist3(p, t[0], t[1]), math.Min(PointSegDist3(p, t[1], t[2]), PointSegDist3(p, t[2], t[0])))
	// a crossing is stable when both end points are clear of the plane and the
	// crossing point is clear of the border; shallow crossings move fast, so
	// scale the border clearance by the sine of the crossing angle.
	sin := math.Abs(h0-h1) / p0.Dist(p1)
	return true, p, math.Min(math.Min(math.Abs(h0), math.Abs(h1)), feat*sin)
}

// BoxTri is the separating-axis test of a solid box against a triangle.
// gap > 0: separated by at least gap; gap < 0: every candidate axis overlaps by
// at least -gap (so the sets intersect).
func BoxTri(mn, mx V3, t [3]V3) (gap float64) {
	c := mn.Add(mx).Scale(0.5)
	h := mx.Sub(mn).Scale(0.5)
	v := [3]V3{t[0].Sub(c), t[1].Sub(c), t[2].Sub(c)}
	e := [3]V3{v[1].Sub(v[0]), v[2].Sub(v[1]), v[0].Sub(v[2])}
	ax := []V3{{1, 0, 0}, {0, 1, 0}, {0, 0, 1}, e[0].Cross(e[1])}
	scale := h.Norm() + v[0].Norm() + v[1].Norm() + v[2].Norm()
	for i := 0; i < 3; i++ {
		for _, u := range [3]V3{{1, 0, 0}, {0, 1, 0}, {0, 0, 1}} {
			ax = append(ax, u.Cross(e[i]))
		}
	}
	gap = math.Inf(-1)
	for _, a := range ax {
		an := a.Norm()
		if an <= 1e-12*scale*scale && an <= 1e-12*scale {
			continue
		}
		if an == 0 {
			continue
		}
		a = a.Scale(1 / an)
		r := h.X*math.Abs(a.X) + h.Y*math.Abs(a.Y) + h.Z*math.Abs(a.Z)
		p0, p1, p2 := v[0].Dot(a), v[1].Dot(a), v[2].Dot(a)
		lo := math.Min(p0, math.Min(p1, p2))
		hi := math.Max(p0, math.Max(p1, p2))
		// intervals [-r, r] and [lo, hi]
		g := math.Max(lo-r, -r-hi)
		gap = math.Max(gap, g)
	}
	return gap
}

// TriTri computes the intersection segment of two triangles in general
// position. state: +1 = they cross in the returned segment, -1 = disjoint,
// 0 = not in general position; margin is the stability margin of the answer.
func TriTri(a, b [3]V3) (state int, seg [2]V3, margin float64) {
	margin = math.Inf(1)
	var pts []V3
	for k := 0; k < 2; k++ {
		s, t := a, b
		if k == 1 {
			s, t = b, a
		}
		for i := 0; i < 3; i++ {
			hit, at, m := SegTri(s[i], s[(i+1)%3], t)
			margin = math.Min(margin, m)
			if hit {
				pts = append(pts, at)
			}
		}
	}
	switch len(pts) {
	case 0:
		return -1, seg, margin
	case 2:
		return 1, [2]V3{pts[0], pts[1]}, margin
	}
	return 0, seg, 0
}

// MaxConcaveOnSeg3 maximises a concave function along the segment by ternary
// search.
func c7maxOnSeg(f func(u float64) float64) float64 {
	lo, hi := 0.0, 1.0
	for i := 0; i < 100; i++ {
		m1 := lo + (hi-lo)/3
		m2 := hi - (hi-lo)/3
		if f(m1) < f(m2) {
			lo = m1
		} else {
			hi = m2
		}
	}
	return math.Max(f((lo+hi)/2), math.Max(f(0), f(1)))
}

// SegBoxDepth3 returns the maximum over the segment of the box's signed
// distance (positive inside): > 0 the segment enters the solid box by that
// depth, < 0 it stays that far away. The signed distance of a convex set is
// concave, so ternary search finds the maximum.
func SegBoxDepth3(p0, p1, mn, mx V3) float64 {
	b := &Box{Min: mn, Max: mx}
	return c7maxOnSeg(func(u float64) float64 { return b.SDF(p0.Add(p1.Sub(p0).Scale(u))) })
}

// SegRectDepth2 is the 2D version of SegBoxDepth3.
func SegRectDepth2(p0, p1, mn, mx V2) float64 {
	b := &Rect2{Min: mn, Max: mx}
	return c7maxOnSeg(func(u float64) float64 { return b.SDF(p0.Add(p1.Sub(p0).Scale(u))) })
}

// SegSeg2 reports whether two 2D segments cross and the stability margin.
func SegSeg2(a, b, c, d V2) (hit bool, margin float64) {
	lineDist := func(p, q, x V2) float64 { // signed distance of x from line pq
		e := q.Sub(p)
		return e.Cross(x.Sub(p)) / e.Norm()
	}
	c1, d1 := lineDist(a, b, c), lineDist(a, b, d)
	a1, b1 := lineDist(c, d, a), lineDist(c, d, b)
	if (c1 > 0) != (d1 > 0) && (a1 > 0) != (b1 > 0) && c1 != 0 && d1 != 0 && a1 != 0 && b1 != 0 {
		// crossing; shallow crossings are sensitive, scale like SegTri
		sin := math.Abs(b.Sub(a).Unit().Cross(d.Sub(c).Unit()))
		m := math.Min(math.Min(math.Abs(c1), math.Abs(d1)), math.Min(math.Abs(a1), math.Abs(b1)))
		return true, m * sin
	}
	m := math.Min(math.Min(PointSegDist2(a, c, d), PointSegDist2(b, c, d)),
		math.Min(PointSegDist2(c, a, b), PointSegDist2(d, a, b)))
	return false, m
}
