package c07ref

import (
	"fmt"
	"math"
	"sort"
)

// Hit is one reference intersection of a ray with a surface.
type Hit struct {
	T    float64 // ray parameter in units of the direction that was passed in
	P    V3      // point of intersection
	N    V3      // outward unit normal of the smooth patch that was hit
	Tang float64 // |unit(d) . N|: 0 = grazing, 1 = head on
	// Feat is the distance from P to the border of its smooth patch (edge,
	// rim, apex, seam between analytic pieces); +Inf when the surface has none.
	Feat float64
	// Rad is (a lower bound of) the smallest radius of curvature of the surface
	// at P; +Inf on planar patches. A position error e turns the normal by about
	// e/Rad, so normals are only compared where Rad is not tiny.
	Rad  float64
	Bary [3]float64 // triangles only
	Face int        // triangles only
}

// Shape3 is a reference surface: closed-form ray intersections and exact
// signed distance (positive inside; for open surfaces always <= 0).
type Shape3 interface {
	Name() string
	// RayHits returns every intersection with t > 0 of o + t*d; d need not be
	// a unit vector. Unsorted.
	RayHits(o, d V3) []Hit
	SDF(p V3) float64
	Closed() bool
	Center() V3
	Size() float64
	Describe() string
}

func c7hex3(v V3) string { return fmt.Sprintf("(%x,%x,%x)", v.X, v.Y, v.Z) }
func c7hex2(v V2) string { return fmt.Sprintf("(%x,%x)", v.X, v.Y) }

// borderSlack is the relative slack with which hits on the border of a smooth
// patch are still reported (with Feat clamped to 0).
const borderSlack = 1e-9

// SortHits sorts hits by parameter.
func SortHits(h []Hit) {
	sort.Slice(h, func(i, j int) bool { return h[i].T < h[j].T })
}

// ---------------------------------------------------------------------------
// sphere

type Sphere struct {
	C V3
	R float64
}

func (s *Sphere) Name() string     { return "sphere" }
func (s *Sphere) Closed() bool     { return true }
func (s *Sphere) Center() V3       { return s.C }
func (s *Sphere) Size() float64    { return s.R }
func (s *Sphere) Describe() string { return fmt.Sprintf("sphere c=%s r=%x", c7hex3(s.C), s.R) }
func (s *Sphere) SDF(p V3) float64 {
	return s.R - p.Dist(s.C)
}
func (s *Sphere) RayHits(o, d V3) []Hit {
	dn := d.Norm()
	dh := d.Scale(1 / dn)
	oc := o.Sub(s.C)
	sm := -oc.Dot(dh)
	perp := oc.Add(dh.Scale(sm))
	h2 := s.R*s.R - perp.Dot(perp)
	if !(h2 > 0) {
		return nil
	}
	h := math.Sqrt(h2)
	var res []Hit
	for _, sd := range [2]float64{sm - h, sm + h} {
		if sd > 0 {
			p := o.Add(dh.Scale(sd))
			n := p.Sub(s.C).Unit()
			res = append(res, Hit{T: sd / dn, P: p, N: n, Tang: math.Abs(n.Dot(dh)), Feat: math.Inf(1), Rad: s.R})
		}
	}
	return res
}

// ---------------------------------------------------------------------------
// axis-aligned box

type Box struct{ Min, Max V3 }

func (b *Box) Name() string  { return "box" }
func (b *Box) Closed() bool  { return true }
func (b *Box) Center() V3    { return b.Min.Add(b.Max).Scale(0.5) }
func (b *Box) Size() float64 { return b.Max.Sub(b.Min).Norm() / 2 }
func (b *Box) Describe() string {
	return fmt.Sprintf("box min=%s max=%s", c7hex3(b.Min), c7hex3(b.Max))
}
func (b *Box) SDF(p V3) float64 {
	pa, mn, mx := p.Arr(), b.Min.Arr(), b.Max.Arr()
	out2 := 0.0
	depth := math.Inf(1)
	for i := 0; i < 3; i++ {
		q := math.Max(mn[i]-pa[i], pa[i]-mx[i])
		if q > 0 {
			out2 += q * q
		}
		depth = math.Min(depth, -q)
	}
	if out2 > 0 {
		return -math.Sqrt(out2)
	}
	return depth
}
func (b *Box) RayHits(o, d V3) []Hit {
	dn := d.Norm()
	dh := d.Scale(1 / dn)
	oa, da, mn, mx := o.Arr(), dh.Arr(), b.Min.Arr(), b.Max.Arr()
	var res []Hit
	for i := 0; i < 3; i++ {
		if da[i] == 0 {
			continue
		}
		for side, f := range [2]float64{mn[i], mx[i]} {
			s := (f - oa[i]) / da[i]
			if !(s > 0) {
				continue
			}
			var p [3]float64
			feat := math.Inf(1)
			ok := true
			for j := 0; j < 3; j++ {
				if j == i {
					p[j] = f
					continue
				}
				p[j] = oa[j] + da[j]*s
				m := math.Min(p[j]-mn[j], mx[j]-p[j])
				if !(m > -borderSlack*(mx[j]-mn[j])) {
					ok = false
				}
				feat = math.Min(feat, math.Max(m, 0))
			}
			if !ok {
				continue
			}
			var n [3]float64
			n[i] = float64(2*side - 1)
			res = append(res, Hit{T: s / dn, P: Arr3(p), N: Arr3(n), Tang: math.Abs(da[i]), Feat: feat, Rad: math.Inf(1)})
		}
	}
	return res
}

// ---------------------------------------------------------------------------
// cylinder and capsule

type Cylinder struct {
	P1, P2 V3
	R      float64
}

func (c *Cylinder) Name() string  { return "cylinder" }
func (c *Cylinder) Closed() bool  { return true }
func (c *Cylinder) Center() V3    { return c.P1.Add(c.P2).Scale(0.5) }
func (c *Cylinder) Size() float64 { return math.Hypot(c.P1.Dist(c.P2)/2, c.R) }
func (c *Cylinder) Describe() string {
	return fmt.Sprintf("cylinder p1=%s p2=%s r=%x", c7hex3(c.P1), c7hex3(c.P2), c.R)
}

// c7axial decomposes p relative to the axis (base b, unit a) into axial
// coordinate and perpendicular vector.
func c7axial(p, b, a V3) (float64, V3) {
	v := p.Sub(b)
	z := v.Dot(a)
	return z, v.Sub(a.Scale(z))
}

func (c *Cylinder) SDF(p V3) float64 {
	l := c.P1.Dist(c.P2)
	a := c.P2.Sub(c.P1).Scale(1 / l)
	z, perp := c7axial(p, c.P1, a)
	dz := math.Min(z, l-z)
	dr := c.R - perp.Norm()
	if dz > 0 && dr > 0 {
		return math.Min(dz, dr)
	}
	return -math.Hypot(math.Max(-dz, 0), math.Max(-dr, 0))
}

// c7side intersects the ray (o, unit dh) with the infinite cylinder of radius
// r around the axis (b, a); it returns the distances along the ray (any sign).
func c7side(o, dh, b, a V3, r float64) []float64 {
	dz := dh.Dot(a)
	dp := dh.Sub(a.Scale(dz))
	dpn := dp.Norm()
	if dpn == 0 {
		return nil
	}
	du := dp.Scale(1 / dpn)
	_, op := c7axial(o, b, a)
	sm := -op.Dot(du)
	perp := op.Add(du.Scale(sm))
	h2 := r*r - perp.Dot(perp)
	if !(h2 > 0) {
		return nil
	}
	h := math.Sqrt(h2)
	return []float64{(sm - h) / dpn, (sm + h) / dpn}
}

func (c *Cylinder) RayHits(o, d V3) []Hit {
	dn := d.Norm()
	dh := d.Scale(1 / dn)
	l := c.P1.Dist(c.P2)
	a := c.P2.Sub(c.P1).Scale(1 / l)
	var res []Hit
	for _, s := range c7side(o, dh, c.P1, a, c.R) {
		if !(s > 0) {
			continue
		}
		p := o.Add(dh.Scale(s))
		z, perp := c7axial(p, c.P1, a)
		if z > -borderSlack*l && z < l*(1+borderSlack) {
			n := perp.Unit()
			res = append(res, Hit{T: s / dn, P: p, N: n, Tang: math.Abs(n.Dot(dh)), Feat: math.Max(0, math.Min(z, l-z)), Rad: c.R})
		}
	}
	dz := dh.Dot(a)
	if dz != 0 {
		oz, _ := c7axial(o, c.P1, a)
		for k, zc := range [2]float64{0, l} {
			s := (zc - oz) / dz
			if !(s > 0) {
				continue
			}
			p := o.Add(dh.Scale(s))
			_, perp := c7axial(p, c.P1, a)
			rho := perp.Norm()
			if rho < c.R*(1+borderSlack) {
				n := a.Scale(float64(2*k - 1))
				res = append(res, Hit{T: s / dn, P: p, N: n, Tang: math.Abs(dz), Feat: math.Max(0, c.R-rho), Rad: math.Inf(1)})
			}
		}
	}
	return res
}

type Capsule struct {
	P1, P2 V3
	R      float64
}

func (c *Capsule) Name() string  { return "capsule" }
func (c *Capsule) Closed() bool  { return true }
func (c *Capsule) Center() V3    { return c.P1.Add(c.P2).Scale(0.5) }
func (c *Capsule) Size() float64 { return c.P1.Dist(c.P2)/2 + c.R }
func (c *Capsule) Describe() string {
	return fmt.Sprintf("capsule p1=%s p2=%s r=%x", c7hex3(c.P1), c7hex3(c.P2), c.R)
}
func (c *Capsule) SDF(p V3) float64 { return c.R - PointSegDist3(p, c.P1, c.P2) }
func (c *Capsule) RayHits(o, d V3) []Hit {
	dn := d.Norm()
	dh := d.Scale(1 / dn)
	l := c.P1.Dist(c.P2)
	a := c.P2.Sub(c.P1).Scale(1 / l)
	var res []Hit
	for _, s := range c7side(o, dh, c.P1, a, c.R) {
		if !(s > 0) {
			continue
		}
		p := o.Add(dh.Scale(s))
		z, perp := c7axial(p, c.P1, a)
		if z >= 0 && z <= l {
			n := perp.Unit()
			res = append(res, Hit{T: s / dn, P: p, N: n, Tang: math.Abs(n.Dot(dh)), Feat: math.Min(z, l-z), Rad: c.R})
		}
	}
	for k, ctr := range [2]V3{c.P1, c.P2} {
		sp := &Sphere{C: ctr, R: c.R}
		for _, h := range sp.RayHits(o, dh) {
			z, _ := c7axial(h.P, c.P1, a)
			if (k == 0 && z < 0) || (k == 1 && z > l) {
				h.T = h.T / dn
				if k == 0 {
					h.Feat = -z
				} else {
					h.Feat = z - l
				}
				res = append(res, h)
			}
		}
	}
	return res
}

// ---------------------------------------------------------------------------
// cone

type Cone struct {
	Tip, Base V3
	R         float64
}

func (c *Cone) Name() string  { return "cone" }
func (c *Cone) Closed() bool  { return true }
func (c *Cone) Center() V3    { return c.Tip.Add(c.Base).Scale(0.5) }
func (c *Cone) Size() float64 { return math.Hypot(c.Tip.Dist(c.Base)/2, c.R) }
func (c *Cone) Describe() string {
	return fmt.Sprintf("cone tip=%s base=%s r=%x", c7hex3(c.Tip), c7hex3(c.Base), c.R)
}
func (c *Cone) SDF(p V3) float64 {
	h := c.Tip.Dist(c.Base)
	a := c.Tip.Sub(c.Base).Scale(1 / h)
	z, perp := c7axial(p, c.Base, a)
	rho := perp.Norm()
	q := V2{z, rho}
	dist := math.Min(PointSegDist2(q, V2{h, 0}, V2{0, c.R}), PointSegDist2(q, V2{0, 0}, V2{0, c.R}))
	if z > 0 && z < h && rho < c.R*(1-z/h) {
		return dist
	}
	return -dist
}
func (c *Cone) RayHits(o, d V3) []Hit {
	dn := d.Norm()
	dh := d.Scale(1 / dn)
	h := c.Tip.Dist(c.Base)
	a := c.Tip.Sub(c.Base).Scale(1 / h)
	k := c.R / h
	oz, op := c7axial(o, c.Base, a)
	dz := dh.Dot(a)
	dp := dh.Sub(a.Scale(dz))
	A := dp.Dot(dp) - k*k*dz*dz
	B := op.Dot(dp) + k*k*(h-oz)*dz
	C := op.Dot(op) - k*k*(h-oz)*(h-oz)
	var ss []float64
	if A == 0 {
		if B != 0 {
			ss = append(ss, -C/(2*B))
		}
	} else if disc := B*B - A*C; disc > 0 {
		sq := math.Sqrt(disc)
		var q float64
		if B >= 0 {
			q = -(B + sq)
		} else {
			q = -(B - sq)
		}
		ss = append(ss, q/A)
		if q != 0 {
			ss = append(ss, C/q)
		}
	}
	slant := math.Sqrt(1 + k*k)
	var res []Hit
	for _, s := range ss {
		if !(s > 0) || math.IsInf(s, 0) {
			continue
		}
		p := o.Add(dh.Scale(s))
		z, perp := c7axial(p, c.Base, a)
		if z > -borderSlack*h && z < h*(1+borderSlack) {
			rh := perp.Unit()
			n := rh.Scale(h).Add(a.Scale(c.R)).Unit()
			res = append(res, Hit{T: s / dn, P: p, N: n, Tang: math.Abs(n.Dot(dh)), Feat: math.Max(0, math.Min(z, h-z)*slant), Rad: perp.Norm()})
		}
	}
	if dz != 0 {
		s := -oz / dz
		if s > 0 {
			p := o.Add(dh.Scale(s))
			_, perp := c7axial(p, c.Base, a)
			if rho := perp.Norm(); rho < c.R*(1+borderSlack) {
				res = append(res, Hit{T: s / dn, P: p, N: a.Scale(-1), Tang: math.Abs(dz), Feat: math.Max(0, c.R-rho), Rad: math.Inf(1)})
			}
		}
	}
	return res
}

// ---------------------------------------------------------------------------
// torus

type Torus struct {
	C     V3
	A     V3      // unit axis
	R, R2 float64 // R = ring (outer) radius, R2 = tube (inner) radius
}

func (t *Torus) Name() string  { return "torus" }
func (t *Torus) Closed() bool  { return true }
func (t *Torus) Center() V3    { return t.C }
func (t *Torus) Size() float64 { return t.R + t.R2 }
func (t *Torus) Describe() string {
	return fmt.Sprintf("torus c=%s axis=%s R=%x r=%x", c7hex3(t.C), c7hex3(t.A), t.R, t.R2)
}
func (t *Torus) SDF(p V3) float64 {
	z, perp := c7axial(p, t.C, t.A)
	return t.R2 - math.Hypot(perp.Norm()-t.R, z)
}
func (t *Torus) RayHits(o, d V3) []Hit {
	dn := d.Norm()
	dh := d.Scale(1 / dn)
	oc := o.Sub(t.C)
	s0 := -oc.Dot(dh)
	q := oc.Add(dh.Scale(s0))
	qq := q.Dot(q)
	R, r := t.R, t.R2
	A := qq + R*R - r*r
	qa := q.Dot(t.A)
	da := dh.Dot(t.A)
	poly := []float64{
		A*A - 4*R*R*(qq-qa*qa),
		8 * R * R * qa * da,
		2*A - 4*R*R*(1-da*da),
		0,
		1,
	}
	roots, _ := RealRoots(poly)
	var res []Hit
	for _, u := range roots {
		s := u + s0
		if !(s > 0) {
			continue
		}
		p := o.Add(dh.Scale(s))
		z, perp := c7axial(p, t.C, t.A)
		rho := perp.Norm()
		if rho == 0 {
			continue
		}
		ring := perp.Scale(R / rho)
		n := perp.Sub(ring).Add(t.A.Scale(z)).Unit()
		res = append(res, Hit{T: s / dn, P: p, N: n, Tang: math.Abs(n.Dot(dh)), Feat: math.Inf(1), Rad: math.Min(r, R-r)})
	}
	return res
}

// ---------------------------------------------------------------------------
// triangle soup / mesh

type Mesh struct {
	Label  string
	Tris   [][3]V3
	Inside func(p V3) bool // nil for open surfaces
	Ctr    V3
	Sz     float64
	Desc   string
}

// NewMesh computes the bounding centre/size.
func NewMesh(label string, tris [][3]V3, inside func(V3) bool) *Mesh {
	m := &Mesh{Label: label, Tris: tris, Inside: inside}
	mn := V3{math.Inf(1), math.Inf(1), math.Inf(1)}
	mx := V3{math.Inf(-1), math.Inf(-1), math.Inf(-1)}
	for _, t := range tris {
		for _, p := range t {
			mn = V3{math.Min(mn.X, p.X), math.Min(mn.Y, p.Y), math.Min(mn.Z, p.Z)}
			mx = V3{math.Max(mx.X, p.X), math.Max(mx.Y, p.Y), math.Max(mx.Z, p.Z)}
		}
	}
	m.Ctr = mn.Add(mx).Scale(0.5)
	m.Sz = mx.Sub(mn).Norm() / 2
	return m
}

func (m *Mesh) Name() string  { return m.Label }
func (m *Mesh) Closed() bool  { return m.Inside != nil }
func (m *Mesh) Center() V3    { return m.Ctr }
func (m *Mesh) Size() float64 { return m.Sz }
func (m *Mesh) Describe() string {
	if m.Desc != "" {
		return m.Desc
	}
	if len(m.Tris) <= 4 {
		s := m.Label
		for _, t := range m.Tris {
			s += fmt.Sprintf(" [%s %s %s]", c7hex3(t[0]), c7hex3(t[1]), c7hex3(t[2]))
		}
		return s
	}
	return fmt.Sprintf("%s (%d triangles)", m.Label, len(m.Tris))
}
func (m *Mesh) Dist(p V3) float64 {
	d := math.Inf(1)
	for _, t := range m.Tris {
		d = math.Min(d, PointTriDist(p, t[0], t[1], t[2]))
	}
	return d
}
func (m *Mesh) SDF(p V3) float64 {
	d := m.Dist(p)
	if m.Inside != nil && m.Inside(p) {
		return d
	}
	return -d
}

// RayTri intersects the ray (o, unit dh) with one triangle by intersecting
// the supporting plane and computing area coordinates of the hit point.
func RayTri(o, dh V3, t [3]V3) (hit Hit, ok bool) {
	e1, e2 := t[1].Sub(t[0]), t[2].Sub(t[0])
	n := e1.Cross(e2)
	nn2 := n.Dot(n)
	if nn2 == 0 {
		return hit, false
	}
	nu := n.Scale(1 / math.Sqrt(nn2))
	den := dh.Dot(nu)
	if math.Abs(den) < 1e-12 {
		// parallel to the plane up to rounding: no transversal crossing
		return hit, false
	}
	s := t[0].Sub(o).Dot(nu) / den
	if !(s > 0) || math.IsInf(s, 0) {
		return hit, false
	}
	p := o.Add(dh.Scale(s))
	w0 := t[1].Sub(p).Cross(t[2].Sub(p)).Dot(n) / nn2
	w1 := t[2].Sub(p).Cross(t[0].Sub(p)).Dot(n) / nn2
	w2 := t[0].Sub(p).Cross(t[1].Sub(p)).Dot(n) / nn2
	// hits on (or within rounding of) the border are reported, with Feat ~ 0,
	// so that callers see the ray is not in general position instead of
	// silently losing the hit
	if !(w0 > -borderSlack && w1 > -borderSlack && w2 > -borderSlack) {
		return hit, false
	}
	if math.Abs(w0+w1+w2-1) > 1e-6 {
		// the three area coordinates are computed independently; when they do
		// not sum to one the point is so far away that they are rounding noise
		return hit, false
	}
	feat := math.Min(PointSegDist3(p, t[0], t[1]), math.Min(PointSegDist3(p, t[1], t[2]), PointSegDist3(p, t[2], t[0])))
	if w0 <= 0 || w1 <= 0 || w2 <= 0 {
		feat = 0
	}
	return Hit{T: s, P: p, N: nu, Tang: math.Abs(den), Feat: feat, Rad: math.Inf(1), Bary: [3]float64{w0, w1, w2}}, true
}

func (m *Mesh) RayHits(o, d V3) []Hit {
	dn := d.Norm()
	dh := d.Scale(1 / dn)
	var res []Hit
	for i, t := range m.Tris {
		if h, ok := RayTri(o, dh, t); ok {
			h.T /= dn
			h.Face = i
			res = append(res, h)
		}
	}
	return res
}

// AngleWeightedVertexNormals computes "mean weighted by angle" vertex normals
// (the scheme Mesh.VertexNormals documents) from the raw triangles.
func AngleWeightedVertexNormals(tris [][3]V3) map[V3]V3 {
	sum := map[V3]V3{}
	for _, t := range tris {
		n := t[1].Sub(t[0]).Cross(t[2].Sub(t[0])).Unit()
		for i := 0; i < 3; i++ {
			u := t[(i+1)%3].Sub(t[i]).Unit()
			v := t[(i+2)%3].Sub(t[i]).Unit()
			ang := math.Acos(math.Max(-1, math.Min(1, u.Dot(v))))
			sum[t[i]] = sum[t[i]].Add(n.Scale(ang))
		}
	}
	for k, v := range sum {
		sum[k] = v.Unit()
	}
	return sum
}

// ---------------------------------------------------------------------------
// union (a joined collider): surfaces are reported independently, the inside is
// defined by even-odd parity, the distance to the surface is the minimum.

type Union3 struct {
	Parts []Shape3
}

func (u *Union3) Name() string { return "union" }
func (u *Union3) Closed() bool {
	for _, p := range u.Parts {
		if !p.Closed() {
			return false
		}
	}
	return true
}
func (u *Union3) Center() V3 {
	var c V3
	for _, p := range u.Parts {
		c = c.Add(p.Center())
	}
	return c.Scale(1 / float64(len(u.Parts)))
}
func (u *Union3) Size() float64 {
	c := u.Center()
	s := 0.0
	for _, p := range u.Parts {
		s = math.Max(s, c.Dist(p.Center())+p.Size())
	}
	return s
}
func (u *Union3) Describe() string {
	s := "union{"
	for i, p := range u.Parts {
		if i > 0 {
			s += "; "
		}
		s += p.Describe()
	}
	return s + "}"
}
func (u *Union3) SDF(p V3) float64 {
	d := math.Inf(1)
	par := 0
	for _, s := range u.Parts {
		v := s.SDF(p)
		if v > 0 {
			par++
		}
		d = math.Min(d, math.Abs(v))
	}
	if par%2 == 1 {
		return d
	}
	return -d
}

// MinPartMargin is the smallest |SDF| over the parts: the distance from p to
// the closest individual surface (equals |SDF|).
func (u *Union3) RayHits(o, d V3) []Hit {
	var res []Hit
	for _, s := range u.Parts {
		res = append(res, s.RayHits(o, d)...)
	}
	return res
}

// ---------------------------------------------------------------------------
// similarity transform x -> S*M*x + T (M orthonormal)

type Similarity3 struct {
	Inner Shape3
	M     [3]V3 // columns of the orthonormal matrix
	S     float64
	T     V3
}

func (s *Similarity3) apply(x V3) V3 {
	return s.lin(x).Scale(s.S).Add(s.T)
}
func (s *Similarity3) lin(x V3) V3 {
	return s.M[0].Scale(x.X).Add(s.M[1].Scale(x.Y)).Add(s.M[2].Scale(x.Z))
}
func (s *Similarity3) linInv(x V3) V3 {
	return V3{s.M[0].Dot(x), s.M[1].Dot(x), s.M[2].Dot(x)}
}
func (s *Similarity3) inv(x V3) V3 {
	return s.linInv(x.Sub(s.T)).Scale(1 / s.S)
}
func (s *Similarity3) Name() string  { return "transformed-" + s.Inner.Name() }
func (s *Similarity3) Closed() bool  { return s.Inner.Closed() }
func (s *Similarity3) Center() V3    { return s.apply(s.Inner.Center()) }
func (s *Similarity3) Size() float64 { return s.S * s.Inner.Size() }
func (s *Similarity3) Describe() string {
	return fmt.Sprintf("similarity(scale=%x cols=%s%s%s t=%s) of %s", s.S, c7hex3(s.M[0]), c7hex3(s.M[1]), c7hex3(s.M[2]), c7hex3(s.T), s.Inner.Describe())
}
func (s *Similarity3) SDF(p V3) float64 { return s.S * s.Inner.SDF(s.inv(p)) }
func (s *Similarity3) RayHits(o, d V3) []Hit {
	hs := s.Inner.RayHits(s.inv(o), s.linInv(d).Scale(1/s.S))
	for i := range hs {
		hs[i].P = s.apply(hs[i].P)
		hs[i].N = s.lin(hs[i].N)
		hs[i].Feat *= s.S
		hs[i].Rad *= s.S
	}
	return hs
}

// ---------------------------------------------------------------------------
// prism: a closed 2D shape extruded over z in [Z0, Z1]

type Prism struct {
	Base   Shape2
	Z0, Z1 float64
}

func (p *Prism) Name() string { return "prism-" + p.Base.Name() }
func (p *Prism) Closed() bool { return true }
func (p *Prism) Center() V3 {
	c := p.Base.Center()
	return V3{c.X, c.Y, (p.Z0 + p.Z1) / 2}
}
func (p *Prism) Size() float64 { return math.Hypot(p.Base.Size(), (p.Z1-p.Z0)/2) }
func (p *Prism) Describe() string {
	return fmt.Sprintf("prism z=[%x,%x] over %s", p.Z0, p.Z1, p.Base.Describe())
}
func (p *Prism) SDF(q V3) float64 {
	d2 := p.Base.SDF(q.XY())
	dz := math.Min(q.Z-p.Z0, p.Z1-q.Z)
	if d2 > 0 && dz > 0 {
		return math.Min(d2, dz)
	}
	return -math.Hypot(math.Max(-d2, 0), math.Max(-dz, 0))
}
func (p *Prism) RayHits(o, d V3) []Hit {
	dn := d.Norm()
	dh := d.Scale(1 / dn)
	var res []Hit
	d2 := dh.XY()
	if d2.X != 0 || d2.Y != 0 {
		for _, h := range p.Base.RayHits(o.XY(), d2) {
			z := o.Z + h.T*dh.Z
			sl := borderSlack * (p.Z1 - p.Z0)
			if z > p.Z0-sl && z < p.Z1+sl {
				n := V3{h.N.X, h.N.Y, 0}
				res = append(res, Hit{T: h.T / dn, P: V3{h.P.X, h.P.Y, z}, N: n,
					Tang: math.Abs(n.Dot(dh)), Feat: math.Max(0, math.Min(h.Feat, math.Min(z-p.Z0, p.Z1-z))), Rad: h.Rad})
			}
		}
	}
	if dh.Z != 0 {
		for k, zc := range [2]float64{p.Z0, p.Z1} {
			s := (zc - o.Z) / dh.Z
			if !(s > 0) {
				continue
			}
			q := o.XY().Add(d2.Scale(s))
			if sd := p.Base.SDF(q); sd > -borderSlack*p.Base.Size() {
				res = append(res, Hit{T: s / dn, P: V3{q.X, q.Y, zc}, N: V3{0, 0, float64(2*k - 1)},
					Tang: math.Abs(dh.Z), Feat: math.Max(0, sd), Rad: math.Inf(1)})
			}
		}
	}
	return res
}
