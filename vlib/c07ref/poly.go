package c07ref

import (
	"math"
	"sort"
)

// PolyEval evaluates p[0] + p[1] x + ... by Horner's rule.
func PolyEval(p []float64, x float64) float64 {
	r := 0.0
	for i := len(p) - 1; i >= 0; i-- {
		r = r*x + p[i]
	}
	return r
}

// RealRoots isolates the simple real roots of the polynomial with
// coefficients p (ascending powers) by recursion on the derivative: between two
// consecutive critical points the polynomial is monotone, so a sign change is
// bisected to full precision. It returns the sorted roots and the sorted
// critical points (roots of p'). Roots of even multiplicity produce no sign
// change and are NOT returned; callers decide near-tangency from the critical
// points.
func RealRoots(p []float64) (roots, crit []float64) {
	n := len(p)
	for n > 0 && p[n-1] == 0 {
		n--
	}
	p = p[:n]
	switch {
	case n <= 1:
		return nil, nil
	case n == 2:
		return []float64{-p[0] / p[1]}, nil
	case n == 3:
		a, b, c := p[2], p[1], p[0]
		crit = []float64{-b / (2 * a)}
		disc := b*b - 4*a*c
		if disc <= 0 {
			return nil, crit
		}
		s := math.Sqrt(disc)
		var q float64
		if b >= 0 {
			q = -(b + s) / 2
		} else {
			q = -(b - s) / 2
		}
		r1 := q / a
		r2 := c / q
		if q == 0 {
			r2 = r1
		}
		if r1 > r2 {
			r1, r2 = r2, r1
		}
		return []float64{r1, r2}, crit
	}
	d := make([]float64, n-1)
	for i := 1; i < n; i++ {
		d[i-1] = p[i] * float64(i)
	}
	crit, _ = RealRoots(d)
	// the derivative's own even-multiplicity roots are inflection-like points
	// of p and do not separate monotone pieces, so missing them is harmless.
	bound := 0.0
	for i := 0; i < n-1; i++ {
		bound = math.Max(bound, math.Abs(p[i]/p[n-1]))
	}
	bound += 1
	pts := append([]float64{-bound}, crit...)
	pts = append(pts, bound)
	sort.Float64s(pts)
	for i := 0; i+1 < len(pts); i++ {
		lo, hi := pts[i], pts[i+1]
		if !(lo < hi) {
			continue
		}
		flo, fhi := PolyEval(p, lo), PolyEval(p, hi)
		if flo == 0 {
			roots = append(roots, lo)
			continue
		}
		if fhi == 0 {
			if i+2 == len(pts) {
				roots = append(roots, hi)
			}
			continue
		}
		if (flo < 0) == (fhi < 0) {
			continue
		}
		for k := 0; k < 200; k++ {
			mid := lo + (hi-lo)/2
			if mid <= lo || mid >= hi {
				break
			}
			fm := PolyEval(p, mid)
			if fm == 0 {
				lo, hi = mid, mid
				break
			}
			if (fm < 0) == (flo < 0) {
				lo = mid
			} else {
				hi = mid
			}
		}
		roots = append(roots, lo+(hi-lo)/2)
	}
	sort.Float64s(roots)
	// drop exact duplicates
	out := roots[:0]
	for i, r := range roots {
		if i == 0 || r != roots[i-1] {
			out = append(out, r)
		}
	}
	return out, crit
}
