// Package c19ref is the reference side of the C19 monitor (materials, focus
// points and area lights of render3d): its own vector arithmetic, sphere
// quadrature adapted to the lobes the harness derives from its own
// reflection/Snell code, rigorous binomial tail bounds, and closed forms for
// Schlick/Snell and for light surfaces. Nothing here calls render3d; the
// library's Coord3D is only converted field by field.
package c19ref

import (
	"math"

	"github.com/unixpickle/model3d/model3d"
)

// C3 is the library coordinate (used for passing values only).
type C3 = model3d.Coord3D

// V is an independent 3-vector.
type V struct{ X, Y, Z float64 }

func From(c C3) V           { return V{c.X, c.Y, c.Z} }
func (a V) C() C3           { return C3{X: a.X, Y: a.Y, Z: a.Z} }
func XYZ(x, y, z float64) V { return V{x, y, z} }

func (a V) Add(b V) V         { return V{a.X + b.X, a.Y + b.Y, a.Z + b.Z} }
func (a V) Sub(b V) V         { return V{a.X - b.X, a.Y - b.Y, a.Z - b.Z} }
func (a V) Scale(s float64) V { return V{a.X * s, a.Y * s, a.Z * s} }
func (a V) Neg() V            { return V{-a.X, -a.Y, -a.Z} }
func (a V) Dot(b V) float64   { return a.X*b.X + a.Y*b.Y + a.Z*b.Z }
func (a V) Norm2() float64    { return a.Dot(a) }
func (a V) Norm() float64     { return math.Sqrt(a.Dot(a)) }
func (a V) Dist(b V) float64  { return a.Sub(b).Norm() }
func (a V) Cross(b V) V {
	return V{a.Y*b.Z - a.Z*b.Y, a.Z*b.X - a.X*b.Z, a.X*b.Y - a.Y*b.X}
}
func (a V) Unit() V {
	m := math.Max(math.Abs(a.X), math.Max(math.Abs(a.Y), math.Abs(a.Z)))
	if m == 0 || math.IsInf(m, 0) || math.IsNaN(m) {
		return a
	}
	b := a.Scale(1 / m)
	return b.Scale(1 / b.Norm())
}
func (a V) Finite() bool {
	s := a.X + a.Y + a.Z
	return !math.IsNaN(s) && !math.IsInf(s, 0)
}
func (a V) Arr() [3]float64 { return [3]float64{a.X, a.Y, a.Z} }

// Hex renders the vector with hexadecimal floats (for witnesses).
func (a V) Hex() [3]string {
	return [3]string{hexf(a.X), hexf(a.Y), hexf(a.Z)}
}

// Frame is an orthonormal frame with polar axis A.
type Frame struct{ A, X, Y V }

// NewFrame builds a frame about the (normalised) axis a. The construction is
// the harness's own (Gram-Schmidt against the coordinate axis least aligned
// with a), not the library's OrthoBasis.
func NewFrame(a V) Frame {
	a = a.Unit()
	e := V{1, 0, 0}
	ax, ay, az := math.Abs(a.X), math.Abs(a.Y), math.Abs(a.Z)
	if ay <= ax && ay <= az {
		e = V{0, 1, 0}
	} else if az <= ax && az <= ay {
		e = V{0, 0, 1}
	}
	x := e.Sub(a.Scale(e.Dot(a))).Unit()
	y := a.Cross(x).Unit()
	return Frame{A: a, X: x, Y: y}
}

// At returns the unit vector with t = 1-cos(polar angle) and azimuth phi.
// Parameterising by t keeps full precision next to the axis.
func (f Frame) At(t, phi float64) V {
	s := math.Sqrt(t * (2 - t))
	sn, cs := math.Sincos(phi)
	return f.A.Scale(1 - t).Add(f.X.Scale(s * cs)).Add(f.Y.Scale(s * sn))
}

// Coords returns (t, phi) of a unit vector w, phi in [0, 2pi).
func (f Frame) Coords(w V) (t, phi float64) {
	d := w.Sub(f.A)
	t = d.Norm2() / 2
	phi = math.Atan2(w.Dot(f.Y), w.Dot(f.X))
	if phi < 0 {
		phi += 2 * math.Pi
	}
	if phi >= 2*math.Pi {
		phi = 0
	}
	return
}
