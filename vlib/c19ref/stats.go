package c19ref

import "math"

// klBern is the Kullback-Leibler divergence KL(Bernoulli(q) || Bernoulli(p)).
func klBern(q, p float64) float64 {
	var s float64
	if q > 0 {
		if p <= 0 {
			return math.Inf(1)
		}
		s += q * math.Log(q/p)
	}
	if q < 1 {
		if p >= 1 {
			return math.Inf(1)
		}
		s += (1 - q) * math.Log((1-q)/(1-p))
	}
	return s
}

// ChernoffLogP returns a rigorous upper bound on the natural logarithm of the
// probability that X ~ Binomial(n, p), for some p in [pLo, pHi], deviates at
// least as far as the observed k on the observed side (0 when k/n lies inside
// the band). P(X >= k) <= exp(-n KL(k/n || p)) for k/n >= p (Chernoff-Hoeffding),
// and symmetrically for the lower tail; the bound holds for every n and p, so
// no minimum expected count is needed for soundness.
func ChernoffLogP(n, k int64, pLo, pHi float64) float64 {
	if n <= 0 {
		return 0
	}
	q := float64(k) / float64(n)
	switch {
	case q > pHi:
		return -float64(n) * klBern(q, pHi)
	case q < pLo:
		return -float64(n) * klBern(q, pLo)
	}
	return 0
}

// BinVerdict is the outcome of one family of binomial bin tests.
type BinVerdict struct {
	Fail      bool
	Worst     int     // index of the most significant bin
	WorstLogP float64 // bound on ln P for that bin (<= 0)
	Threshold float64 // ln(alpha / (2 * tests))
	Tests     int
}

// TestBins compares counts with expected probabilities. Every probability is
// widened to the band [p(1-rel)-abs, p(1+rel)+abs] to absorb quadrature error;
// the family-wise false-alarm probability is at most alpha (Bonferroni over
// bins and both tails, each tail bounded by Chernoff).
func TestBins(counts []int64, probs []float64, n int64, rel, abs, alpha float64, familyTests int) BinVerdict {
	if familyTests < len(counts) {
		familyTests = len(counts)
	}
	v := BinVerdict{Tests: familyTests, Threshold: math.Log(alpha / (2 * float64(familyTests))), Worst: -1}
	for i, k := range counts {
		p := probs[i]
		lo := math.Max(0, p*(1-rel)-abs)
		hi := math.Min(1, p*(1+rel)+abs)
		lp := ChernoffLogP(n, k, lo, hi)
		if v.Worst < 0 || lp < v.WorstLogP {
			v.Worst, v.WorstLogP = i, lp
		}
	}
	v.Fail = v.WorstLogP < v.Threshold
	return v
}
