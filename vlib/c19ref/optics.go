package c19ref

import "math"

// DeltaEps is the cosine half-width render3d documents for its delta-lobe
// approximation (material.go: cosineEpsilon; "eps/2 is the spanned fraction of
// the sphere").
const DeltaEps = 1e-8

// Mirror reflects the propagation direction v at a surface with unit normal n.
func Mirror(n, v V) V { return v.Sub(n.Scale(2 * n.Dot(v))) }

// Snell refracts the propagation direction s (unit) at a surface with unit
// normal n; the medium on the side n points to has index 1, the other side has
// index ior. Vector form of Snell's law (Heckbert):
//
//	T = eta*s + (eta*cos_i - cos_t)*N,  N = normal facing against s,
//	eta = n_from/n_to, sin_t = eta*sin_i.
//
// tir reports total internal reflection (then the mirrored direction is
// returned). margin = |sin_t - 1| tells how close the case is to the
// critical angle.
func Snell(n, s V, ior float64) (t V, tir bool, margin float64) {
	c := n.Dot(s)
	N := n
	eta := 1 / ior // entering: from index 1 into ior
	if c > 0 {
		// leaving the medium: s travels along n
		N = n.Neg()
		eta = ior
	}
	sin2I := s.Sub(n.Scale(c)).Norm2()
	sinT := eta * math.Sqrt(sin2I)
	margin = math.Abs(sinT - 1)
	if sinT > 1 {
		return Mirror(n, s), true, margin
	}
	cosT := math.Sqrt(1 - sinT*sinT)
	// eta*s + (eta*cos_i - cos_t)*N, with eta*(s + cos_i*N) written as the scaled
	// tangential part of s
	tang := s.Sub(n.Scale(c)).Scale(eta)
	return tang.Sub(N.Scale(cosT)), false, margin
}

// Schlick is Schlick's approximation of the Fresnel reflectance for a medium
// of index ior against index 1: R0 + (1-R0)(1-cos)^5, R0 = ((ior-1)/(ior+1))^2.
func Schlick(ior, cos float64) float64 {
	x := (ior - 1) / (ior + 1)
	r0 := x * x
	return r0 + (1-r0)*math.Pow(1-cos, 5)
}

// ---------------------------------------------------------------------------
// Reference quantile edges (in t = 1-cos about the lobe axis). They only place
// bins so that a correct sampler fills them evenly; expected bin masses always
// come from quadrature of the library's own density.

// PowerCosEdges: lobe with density proportional to cos^alpha on the hemisphere.
func PowerCosEdges(alpha float64, n int) []float64 {
	var es []float64
	for i := 1; i <= n; i++ {
		q := 1 - float64(i)/float64(n)
		es = append(es, -math.Expm1(math.Log(q)/(alpha+1))) // 1 - q^(1/(alpha+1))
	}
	es[len(es)-1] = 1
	return es
}

// LambertEdges: cosine-weighted hemisphere, cos = sqrt(q).
func LambertEdges(n int) []float64 { return PowerCosEdges(1, n) }

// HGEdges: Henyey-Greenstein lobe with asymmetry g in (0,1) about its forward
// axis; t(s) for s = 1-2i/n, from the closed-form inverse CDF written in a
// cancellation-free form.
func HGEdges(g float64, n int) []float64 {
	g = math.Min(math.Max(g, 1e-5), 1-1e-5)
	var es []float64
	for i := 1; i < n; i++ {
		s := 1 - 2*float64(i)/float64(n)
		pt := (1 - g*g) / (1 + g*s)
		es = append(es, (1-g)*(1-s)*(pt+1-g)/(2*(1+g*s)))
	}
	return es
}

// ConeEdges: uniform cone with 1-cos <= tmax.
func ConeEdges(tmax float64, n int) []float64 {
	var es []float64
	for i := 1; i <= n; i++ {
		es = append(es, tmax*float64(i)/float64(n))
	}
	return es
}

// UniformEdges: equal-area polar bins over the whole sphere.
func UniformEdges(n int) []float64 {
	var es []float64
	for i := 1; i < n; i++ {
		es = append(es, 2*float64(i)/float64(n))
	}
	return es
}
