package c19ref

import (
	"math"
	"sort"
	"strconv"
	"sync"
)

func hexf(x float64) string { return strconv.FormatFloat(x, 'x', -1, 64) }

// ---------------------------------------------------------------------------
// Gauss-Legendre rules

var glCache sync.Map // int -> [2][]float64

// GaussLegendre returns the n-point rule on [-1,1].
func GaussLegendre(n int) (xs, ws []float64) {
	if v, ok := glCache.Load(n); ok {
		p := v.([2][]float64)
		return p[0], p[1]
	}
	xs = make([]float64, n)
	ws = make([]float64, n)
	for i := 0; i < (n+1)/2; i++ {
		x := math.Cos(math.Pi * (float64(i) + 0.75) / (float64(n) + 0.5))
		var dp float64
		for it := 0; it < 100; it++ {
			p0, p1 := 1.0, x
			for k := 2; k <= n; k++ {
				p0, p1 = p1, (float64(2*k-1)*x*p1-float64(k-1)*p0)/float64(k)
			}
			dp = float64(n) * (x*p1 - p0) / (x*x - 1)
			dx := p1 / dp
			x -= dx
			if math.Abs(dx) < 1e-16 {
				break
			}
		}
		// recompute derivative at the converged root
		p0, p1 := 1.0, x
		for k := 2; k <= n; k++ {
			p0, p1 = p1, (float64(2*k-1)*x*p1-float64(k-1)*p0)/float64(k)
		}
		dp = float64(n) * (x*p1 - p0) / (x*x - 1)
		xs[i] = -x
		xs[n-1-i] = x
		w := 2 / ((1 - x*x) * dp * dp)
		ws[i] = w
		ws[n-1-i] = w
	}
	glCache.Store(n, [2][]float64{xs, ws})
	return
}

// ---------------------------------------------------------------------------
// Cuts: loci where the integrand may be discontinuous or kinked.

// Cut is the small circle {w on the unit sphere : w.B = C}.
type Cut struct {
	B V
	C float64
}

// Plane is the great circle orthogonal to b.
func Plane(b V) Cut { return Cut{B: b, C: 0} }

// phiRoots appends the azimuths at which the circle t=const of frame f meets
// the cut.
func phiRoots(dst []float64, f Frame, t float64, c Cut) []float64 {
	s := math.Sqrt(t * (2 - t))
	a := s * f.X.Dot(c.B)
	b := s * f.Y.Dot(c.B)
	c0 := c.C - (1-t)*f.A.Dot(c.B)
	r := math.Hypot(a, b)
	if r == 0 || math.Abs(c0) >= r {
		return dst
	}
	base := math.Atan2(b, a)
	d := math.Acos(c0 / r)
	for _, p := range [2]float64{base + d, base - d} {
		p = math.Mod(p, 2*math.Pi)
		if p < 0 {
			p += 2 * math.Pi
		}
		dst = append(dst, p)
	}
	return dst
}

// tangencies returns the t values at which a circle about the frame axis is
// tangent to the cut (the phi-integral has a square-root type singularity in t
// there).
func tangencies(f Frame, c Cut) []float64 {
	bn := c.B.Norm()
	if bn == 0 || math.Abs(c.C) > bn {
		return nil
	}
	cosb := f.A.Dot(c.B) / bn
	cosb = math.Max(-1, math.Min(1, cosb))
	// beta from the more accurate of acos / asin forms
	beta := math.Acos(cosb)
	if math.Abs(cosb) > 0.9 {
		sinb := f.A.Cross(c.B).Norm() / bn
		if cosb > 0 {
			beta = math.Asin(math.Min(1, sinb))
		} else {
			beta = math.Pi - math.Asin(math.Min(1, sinb))
		}
	}
	psi := math.Acos(math.Max(-1, math.Min(1, c.C/bn)))
	var res []float64
	for _, th := range [2]float64{math.Abs(beta - psi), beta + psi} {
		if th > math.Pi {
			th = 2*math.Pi - th
		}
		h := math.Sin(th / 2)
		res = append(res, 2*h*h)
	}
	return res
}

// ---------------------------------------------------------------------------
// Region: one frame with a (t, phi) bin grid; integrates a function over the
// part of the sphere selected by Keep, bin by bin.

type Region struct {
	Frame  Frame
	TEdges []float64 // ascending, TEdges[0] == 0, last == 2
	NPhi   int       // azimuth bins (>= 1)
	Cuts   []Cut     // discontinuity loci (material cuts and region borders)
	Keep   func(w V) bool
	NT, NP int // Gauss orders per panel / per azimuth piece (default 8 / 8)

	specials []float64
}

func (r *Region) prepare() {
	if r.NT == 0 {
		r.NT = 8
	}
	if r.NP == 0 {
		r.NP = 8
	}
	if r.NPhi < 1 {
		r.NPhi = 1
	}
	var sp []float64
	for k := 1; k <= 52; k++ {
		sp = append(sp, math.Ldexp(1, -k))
	}
	sp = append(sp, 1, 1.5)
	for k := 1; k <= 8; k++ {
		sp = append(sp, 2-math.Ldexp(1, -k))
	}
	for _, c := range r.Cuts {
		for _, ts := range tangencies(r.Frame, c) {
			if ts <= 0 || ts >= 2 {
				continue
			}
			sp = append(sp, ts)
			m := math.Min(ts, 2-ts)
			for k := 1; k <= 6; k++ {
				d := math.Ldexp(m, -k)
				sp = append(sp, ts-d, ts+d)
			}
		}
	}
	sort.Float64s(sp)
	r.specials = sp
}

// NumTBins is the number of polar bins.
func (r *Region) NumTBins() int { return len(r.TEdges) - 1 }

// Bin returns the (polar, azimuth) bin of the unit vector w.
func (r *Region) Bin(w V) (a, b int) {
	t, phi := r.Frame.Coords(w)
	a = sort.SearchFloat64s(r.TEdges, t) - 1 // TEdges[a] < t <= TEdges[a+1]
	if a < 0 {
		a = 0
	}
	if a >= len(r.TEdges)-1 {
		a = len(r.TEdges) - 2
	}
	n := r.NPhi
	if n < 1 {
		n = 1
	}
	b = int(phi / (2 * math.Pi) * float64(n))
	if b >= n {
		b = n - 1
	}
	return
}

// Integrate returns res[a][b][k] = (1/4pi) * integral over bin (a,b) (restricted
// to Keep) of the k-th component of f. Evals counts integrand evaluations.
func (r *Region) Integrate(dim int, f func(w V, out []float64)) (res [][][]float64, evals int) {
	if r.specials == nil {
		r.prepare()
	}
	nphi := r.NPhi
	res = make([][][]float64, len(r.TEdges)-1)
	for a := range res {
		res[a] = make([][]float64, nphi)
		for b := range res[a] {
			res[a][b] = make([]float64, dim)
		}
	}
	xt, wt := GaussLegendre(r.NT)
	xp, wp := GaussLegendre(r.NP)
	out := make([]float64, dim)
	acc := make([]float64, dim)
	var roots, brk []float64
	binW := 2 * math.Pi / float64(nphi)
	const maxPiece = math.Pi / 4
	for a := 0; a+1 < len(r.TEdges); a++ {
		lo, hi := r.TEdges[a], r.TEdges[a+1]
		if !(hi > lo) {
			continue
		}
		// panels
		pts := []float64{lo}
		i0 := sort.SearchFloat64s(r.specials, lo)
		for i := i0; i < len(r.specials) && r.specials[i] < hi; i++ {
			s := r.specials[i]
			if s > pts[len(pts)-1] && s > lo {
				pts = append(pts, s)
			}
		}
		pts = append(pts, hi)
		for pi := 0; pi+1 < len(pts); pi++ {
			p0, p1 := pts[pi], pts[pi+1]
			half := (p1 - p0) / 2
			if !(half > 0) {
				continue
			}
			for ti := range xt {
				t := p0 + half*(1+xt[ti])
				if t <= 0 || t >= 2 {
					continue
				}
				wT := wt[ti] * half
				roots = roots[:0]
				for _, c := range r.Cuts {
					roots = phiRoots(roots, r.Frame, t, c)
				}
				brk = brk[:0]
				for b := 0; b <= nphi; b++ {
					brk = append(brk, float64(b)*binW)
				}
				brk = append(brk, roots...)
				sort.Float64s(brk)
				for k := 0; k+1 < len(brk); k++ {
					q0, q1 := brk[k], brk[k+1]
					if q1-q0 < 1e-14 {
						continue
					}
					mid := (q0 + q1) / 2
					if r.Keep != nil && !r.Keep(r.Frame.At(t, mid)) {
						continue
					}
					b := int(mid / binW)
					if b >= nphi {
						b = nphi - 1
					}
					nsub := int(math.Ceil((q1 - q0) / maxPiece))
					sub := (q1 - q0) / float64(nsub)
					for j := range acc {
						acc[j] = 0
					}
					for s := 0; s < nsub; s++ {
						s0 := q0 + float64(s)*sub
						for pj := range xp {
							phi := s0 + sub/2*(1+xp[pj])
							f(r.Frame.At(t, phi), out)
							evals++
							w := wp[pj] * sub / 2
							for j := range acc {
								acc[j] += w * out[j]
							}
						}
					}
					cell := res[a][b]
					for j := range acc {
						cell[j] += acc[j] * wT / (4 * math.Pi)
					}
				}
			}
		}
	}
	return
}

// ---------------------------------------------------------------------------
// Lobes and Voronoi partition of the sphere by lobe axes.

// Lobe is a direction about which the integrand is expected to concentrate,
// with the polar bin edges (in t = 1-cos) that spread its mass evenly.
type Lobe struct {
	Axis   V
	TEdges []float64 // interior edges are cleaned by Partition; may be nil
	NPhi   int
	Name   string
	// MinEdge > 0 removes every polar edge below it from the region (used for
	// delta lobes: the sampler puts the whole cap mass at the axis, so bins
	// finer than the cap cannot be compared).
	MinEdge float64
}

// Partition is a set of regions, one per distinct lobe axis, each owning the
// directions nearest to its axis.
type Partition struct {
	Regions []*Region
	axes    []V
}

func cleanEdges(es []float64) []float64 {
	out := []float64{0}
	tmp := append([]float64{}, es...)
	sort.Float64s(tmp)
	for _, e := range tmp {
		if math.IsNaN(e) || e <= 0 || e >= 2 {
			continue
		}
		last := out[len(out)-1]
		if e > last && (last == 0 || e > last*(1+1e-9)) {
			out = append(out, e)
		}
	}
	return append(out, 2)
}

// NewPartition merges lobes whose axes coincide (within 1e-7 rad) and builds
// the regions. cuts are the integrand's own discontinuity loci.
func NewPartition(lobes []Lobe, cuts []Cut) *Partition {
	p := &Partition{}
	type merged struct {
		axis    V
		edges   []float64
		nphi    int
		minEdge float64
	}
	var ms []*merged
	for _, l := range lobes {
		ax := l.Axis.Unit()
		found := false
		for _, m := range ms {
			if m.axis.Sub(ax).Norm2() < 1e-14 {
				m.edges = append(m.edges, l.TEdges...)
				if l.NPhi > 0 && (m.nphi == 0 || l.NPhi < m.nphi) {
					m.nphi = l.NPhi
				}
				m.minEdge = math.Max(m.minEdge, l.MinEdge)
				found = true
				break
			}
		}
		if !found {
			ms = append(ms, &merged{axis: ax, edges: append([]float64{}, l.TEdges...), nphi: l.NPhi, minEdge: l.MinEdge})
		}
	}
	for _, m := range ms {
		p.axes = append(p.axes, m.axis)
	}
	for i, m := range ms {
		if m.nphi == 0 {
			m.nphi = 8
		}
		var es []float64
		for _, e := range m.edges {
			if e >= m.minEdge {
				es = append(es, e)
			}
		}
		r := &Region{Frame: NewFrame(m.axis), TEdges: cleanEdges(es), NPhi: m.nphi}
		r.Cuts = append(r.Cuts, cuts...)
		for j, o := range ms {
			if j != i {
				r.Cuts = append(r.Cuts, Plane(m.axis.Sub(o.axis)))
			}
		}
		if len(ms) > 1 {
			idx := i
			r.Keep = func(w V) bool { return p.Nearest(w) == idx }
		}
		p.Regions = append(p.Regions, r)
	}
	return p
}

// Nearest returns the index of the region owning w.
func (p *Partition) Nearest(w V) int {
	best, bi := math.Inf(1), 0
	for i, a := range p.axes {
		d := w.Sub(a).Norm2()
		if d < best {
			best, bi = d, i
		}
	}
	return bi
}

// MinAxisSeparation is the smallest angle (as chord length) between two
// distinct region axes; +Inf with one region.
func (p *Partition) MinAxisSeparation() float64 {
	m := math.Inf(1)
	for i := range p.axes {
		for j := i + 1; j < len(p.axes); j++ {
			d := p.axes[i].Dist(p.axes[j])
			if d < m {
				m = d
			}
		}
	}
	return m
}

// Masses integrates a scalar function; res[region][a][b].
func (p *Partition) Masses(f func(w V) float64) (res [][][]float64, total float64, evals int) {
	for _, r := range p.Regions {
		m, ev := r.Integrate(1, func(w V, out []float64) { out[0] = f(w) })
		evals += ev
		rm := make([][]float64, len(m))
		for a := range m {
			rm[a] = make([]float64, len(m[a]))
			for b := range m[a] {
				rm[a][b] = m[a][b][0]
				total += m[a][b][0]
			}
		}
		res = append(res, rm)
	}
	return
}

// Total integrates a vector function over the whole sphere, (1/4pi) * integral.
func (p *Partition) Total(dim int, f func(w V, out []float64)) ([]float64, int) {
	tot := make([]float64, dim)
	evals := 0
	for _, r := range p.Regions {
		m, ev := r.Integrate(dim, f)
		evals += ev
		for a := range m {
			for b := range m[a] {
				for k := range tot {
					tot[k] += m[a][b][k]
				}
			}
		}
	}
	return tot, evals
}
