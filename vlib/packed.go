package vlib

import (
	"fmt"
	"math"

	"github.com/unixpickle/model3d/model3d"
)

// Packed3 lays many small lattice patterns out in one big lattice solid,
// separated by two empty lattice points, so that one meshing call covers
// thousands of patterns; the result is split per pattern block again.
type Packed3 struct {
	Solid    *BitSolid3
	P        [3]int // pattern size in lattice points
	Stride   [3]int
	G        [3]int // grid of blocks
	Patterns [][]bool
}

// PackPatterns3 builds the packed solid. Each pattern has P[0]*P[1]*P[2] bits
// in x-fastest order. delta should be dyadic; origin is 0.
func PackPatterns3(patterns [][]bool, p [3]int, delta float64) *Packed3 {
	n := len(patterns)
	g := int(math.Ceil(math.Cbrt(float64(n))))
	if g < 1 {
		g = 1
	}
	G := [3]int{g, g, (n + g*g - 1) / (g * g)}
	if G[2] < 1 {
		G[2] = 1
	}
	stride := [3]int{p[0] + 2, p[1] + 2, p[2] + 2}
	s := NewBitSolid3(C3{}, delta, G[0]*stride[0], G[1]*stride[1], G[2]*stride[2])
	for idx, pat := range patterns {
		bx, by, bz := idx%G[0], (idx/G[0])%G[1], idx/(G[0]*G[1])
		for k := 0; k < p[2]; k++ {
			for j := 0; j < p[1]; j++ {
				for i := 0; i < p[0]; i++ {
					if pat[(k*p[1]+j)*p[0]+i] {
						s.Set(bx*stride[0]+1+i, by*stride[1]+1+j, bz*stride[2]+1+k, true)
					}
				}
			}
		}
	}
	return &Packed3{Solid: s, P: p, Stride: stride, G: G, Patterns: patterns}
}

// Block is one pattern's share of a packed mesh.
type Block struct {
	Index  int
	Origin [3]int // lattice index of the block's first (empty) point
	Tris   []Tri
}

// Split distributes triangles to blocks by their first vertex; it reports
// triangles whose vertices fall into different blocks (impossible for a
// correct marching-cubes mesh since patterns are separated by empty space).
func (p *Packed3) Split(tris []Tri) (blocks []Block, straddling int) {
	blocks = make([]Block, len(p.Patterns))
	for i := range blocks {
		bx, by, bz := i%p.G[0], (i/p.G[0])%p.G[1], i/(p.G[0]*p.G[1])
		blocks[i] = Block{Index: i, Origin: [3]int{bx * p.Stride[0], by * p.Stride[1], bz * p.Stride[2]}}
	}
	blockOf := func(c C3) int {
		q := c.Scale(1 / p.Solid.Delta)
		bx := int(math.Floor(q.X / float64(p.Stride[0])))
		by := int(math.Floor(q.Y / float64(p.Stride[1])))
		bz := int(math.Floor(q.Z / float64(p.Stride[2])))
		if bx < 0 || by < 0 || bz < 0 || bx >= p.G[0] || by >= p.G[1] || bz >= p.G[2] {
			return -1
		}
		return (bz*p.G[1]+by)*p.G[0] + bx
	}
	for _, t := range tris {
		b0, b1, b2 := blockOf(t[0]), blockOf(t[1]), blockOf(t[2])
		if b0 != b1 || b0 != b2 || b0 < 0 || b0 >= len(blocks) {
			straddling++
			continue
		}
		blocks[b0].Tris = append(blocks[b0].Tris, t)
	}
	return
}

// CheckBlock applies the C01/C02 sample-side oracle to one block: closed
// oriented manifold, and exact winding number at every lattice point of the
// block equal to the point's bit (1 inside, 0 outside). scale must make all
// vertex coordinates integral (2/delta for plain marching cubes,
// 2^(iters+1)/delta after search refinement). It returns a description of the
// first problem, or "".
func (p *Packed3) CheckBlock(b *Block, scale float64) string {
	pat := p.Patterns[b.Index]
	any := false
	for _, v := range pat {
		if v {
			any = true
			break
		}
	}
	if !any {
		if len(b.Tris) != 0 {
			return fmt.Sprintf("empty pattern produced %d triangles", len(b.Tris))
		}
		return ""
	}
	if len(b.Tris) == 0 {
		return "non-empty pattern produced no triangles"
	}
	topo := AnalyzeTris(b.Tris)
	if !topo.ClosedOrientedManifold() {
		return fmt.Sprintf("not a closed oriented manifold: %v", topo.Problems)
	}
	its, ok := TrisToI3(b.Tris, scale)
	if !ok {
		return "vertex coordinates are not on the expected dyadic grid"
	}
	d := p.Solid.Delta
	for k := 0; k < p.Stride[2]; k++ {
		for j := 0; j < p.Stride[1]; j++ {
			for i := 0; i < p.Stride[0]; i++ {
				gi, gj, gk := b.Origin[0]+i, b.Origin[1]+j, b.Origin[2]+k
				pt, ok := ToI3(model3d.XYZ(float64(gi)*d, float64(gj)*d, float64(gk)*d), scale)
				if !ok {
					return "lattice point not integral"
				}
				w, ok := Winding3(its, pt)
				if !ok {
					return fmt.Sprintf("lattice point (%d,%d,%d) lies on the surface or winding undecidable", i, j, k)
				}
				want := 0
				if p.Solid.Get(gi, gj, gk) {
					want = 1
				}
				if w != want {
					return fmt.Sprintf("lattice point (%d,%d,%d) of the block: solid says contained=%v but the surface's winding number there is %d (want %d; -1 means inverted normals)", i, j, k, want == 1, w, want)
				}
			}
		}
	}
	return ""
}

// CellConfigs returns the 8-bit marching-cubes configurations of all cells of
// the block (bit order of the library: corner index = x + 2y + 4z).
func (p *Packed3) CellConfigs(b *Block, f func(cfg uint8)) {
	for k := 0; k < p.Stride[2]-1; k++ {
		for j := 0; j < p.Stride[1]-1; j++ {
			for i := 0; i < p.Stride[0]-1; i++ {
				var cfg uint8
				for c := 0; c < 8; c++ {
					if p.Solid.Get(b.Origin[0]+i+(c&1), b.Origin[1]+j+((c>>1)&1), b.Origin[2]+k+((c>>2)&1)) {
						cfg |= 1 << uint(c)
					}
				}
				f(cfg)
			}
		}
	}
}

// PatternString renders a pattern for witnesses.
func PatternString(pat []bool, p [3]int) string {
	s := ""
	for k := 0; k < p[2]; k++ {
		if k > 0 {
			s += "/"
		}
		for j := 0; j < p[1]; j++ {
			if j > 0 {
				s += ","
			}
			for i := 0; i < p[0]; i++ {
				if pat[(k*p[1]+j)*p[0]+i] {
					s += "1"
				} else {
					s += "0"
				}
			}
		}
	}
	return s
}
