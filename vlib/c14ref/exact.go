// Package c14ref holds the exact (integer) planar geometry used by the C14
// monitor: orientation predicates, segment intersection, even-odd point
// location, certification of polygonal regions and the exact cover check of a
// set of triangles against a region. Nothing here calls the library.
//
// All coordinates are int64 with |x| <= MaxCoord, so that every orientation
// determinant (also of the 3x scaled copies used for centroids) fits in an
// int64; rational comparisons use 128-bit products.
package c14ref

import (
	"math/bits"
	"sort"
)

// MaxCoord bounds the magnitude of every coordinate handed to this package.
const MaxCoord = 1 << 26

// P is an integer point.
type P struct{ X, Y int64 }

// Cross is (b-a) x (c-a): positive when a,b,c turn counter-clockwise (y up).
func Cross(a, b, c P) int64 {
	return (b.X-a.X)*(c.Y-a.Y) - (b.Y-a.Y)*(c.X-a.X)
}

func sgn(x int64) int {
	if x > 0 {
		return 1
	}
	if x < 0 {
		return -1
	}
	return 0
}

// Orient is the sign of Cross.
func Orient(a, b, c P) int { return sgn(Cross(a, b, c)) }

func minmax(a, b int64) (int64, int64) {
	if a < b {
		return a, b
	}
	return b, a
}

// OnSegment reports whether c, known to be colinear with a,b, lies on the
// closed segment ab.
func onSegment(a, b, c P) bool {
	x0, x1 := minmax(a.X, b.X)
	y0, y1 := minmax(a.Y, b.Y)
	return c.X >= x0 && c.X <= x1 && c.Y >= y0 && c.Y <= y1
}

// SegsIntersect reports whether the closed segments ab and cd share a point.
func SegsIntersect(a, b, c, d P) bool {
	o1 := Orient(a, b, c)
	o2 := Orient(a, b, d)
	o3 := Orient(c, d, a)
	o4 := Orient(c, d, b)
	if o1 != o2 && o3 != o4 {
		return true
	}
	if o1 == 0 && onSegment(a, b, c) {
		return true
	}
	if o2 == 0 && onSegment(a, b, d) {
		return true
	}
	if o3 == 0 && onSegment(c, d, a) {
		return true
	}
	if o4 == 0 && onSegment(c, d, b) {
		return true
	}
	return false
}

// Area2 is twice the signed area of a loop (positive = counter-clockwise).
func Area2(loop []P) int64 {
	var s int64
	for i, a := range loop {
		b := loop[(i+1)%len(loop)]
		s += a.X*b.Y - a.Y*b.X
	}
	return s
}

// Locate classifies p against the union of loops by the even-odd rule:
// +1 inside, 0 on a loop, -1 outside.
func Locate(p P, loops [][]P) int {
	inside := false
	for _, loop := range loops {
		n := len(loop)
		for i := 0; i < n; i++ {
			a, b := loop[i], loop[(i+1)%n]
			if Orient(a, b, p) == 0 && onSegment(a, b, p) {
				return 0
			}
			if (a.Y > p.Y) != (b.Y > p.Y) {
				// the edge crosses the horizontal line through p; is the crossing to the right?
				o := Orient(a, b, p)
				if b.Y > a.Y {
					if o > 0 {
						inside = !inside
					}
				} else if o < 0 {
					inside = !inside
				}
			}
		}
	}
	if inside {
		return 1
	}
	return -1
}

// Region is a set of pairwise disjoint simple loops; the enclosed set is
// defined by the even-odd rule.
type Region struct {
	Loops [][]P
	Depth []int // nesting depth of each loop (0 = outermost)
}

// NumVertices is the total vertex count.
func (r *Region) NumVertices() int {
	n := 0
	for _, l := range r.Loops {
		n += len(l)
	}
	return n
}

// Holes is the number of loops of odd depth.
func (r *Region) Holes() int {
	h := 0
	for _, d := range r.Depth {
		if d%2 == 1 {
			h++
		}
	}
	return h
}

// Roots is the number of loops of even depth (each starts one connected piece
// of the region).
func (r *Region) Roots() int { return len(r.Loops) - r.Holes() }

// Area2 is twice the (positive) area of the region.
func (r *Region) Area2() int64 {
	var s int64
	for i, l := range r.Loops {
		a := Area2(l)
		if a < 0 {
			a = -a
		}
		if r.Depth[i]%2 == 0 {
			s += a
		} else {
			s -= a
		}
	}
	return s
}

// Flat returns all vertices, loop after loop.
func (r *Region) Flat() []P {
	var res []P
	for _, l := range r.Loops {
		res = append(res, l...)
	}
	return res
}

type edgeRec struct {
	a, b       P
	loop, idx  int
	x0, x1     int64
	y0, y1     int64
	loopLength int
}

// LoopsDisjointFrom reports whether no edge of loop touches an edge of any of
// the given loops (closed segments).
func LoopsDisjointFrom(loop []P, others [][]P) bool {
	for i, a := range loop {
		b := loop[(i+1)%len(loop)]
		ax0, ax1 := minmax(a.X, b.X)
		ay0, ay1 := minmax(a.Y, b.Y)
		for _, o := range others {
			for j, c := range o {
				d := o[(j+1)%len(o)]
				cx0, cx1 := minmax(c.X, d.X)
				if cx1 < ax0 || cx0 > ax1 {
					continue
				}
				cy0, cy1 := minmax(c.Y, d.Y)
				if cy1 < ay0 || cy0 > ay1 {
					continue
				}
				if SegsIntersect(a, b, c, d) {
					return false
				}
			}
		}
	}
	return true
}

// Certify checks that loops are pairwise disjoint simple polygons (every pair
// of non-adjacent edges is disjoint as closed segments, adjacent edges share
// only their common endpoint, no zero-length edge, non-zero area, all
// coordinates within MaxCoord). On success it returns the region with nesting
// depths; reason names the first failed condition otherwise.
func Certify(loops [][]P) (reg *Region, reason string) {
	var edges []edgeRec
	for li, l := range loops {
		if len(l) < 3 {
			return nil, "loop with fewer than 3 vertices"
		}
		for i, a := range l {
			if a.X > MaxCoord || a.X < -MaxCoord || a.Y > MaxCoord || a.Y < -MaxCoord {
				return nil, "coordinate out of range"
			}
			b := l[(i+1)%len(l)]
			if a == b {
				return nil, "zero-length edge"
			}
			x0, x1 := minmax(a.X, b.X)
			y0, y1 := minmax(a.Y, b.Y)
			edges = append(edges, edgeRec{a: a, b: b, loop: li, idx: i, x0: x0, x1: x1, y0: y0, y1: y1, loopLength: len(l)})
		}
		if Area2(l) == 0 {
			return nil, "zero-area loop"
		}
	}
	sort.Slice(edges, func(i, j int) bool { return edges[i].x0 < edges[j].x0 })
	for i := range edges {
		e := &edges[i]
		for j := i + 1; j < len(edges); j++ {
			f := &edges[j]
			if f.x0 > e.x1 {
				break
			}
			if f.y1 < e.y0 || f.y0 > e.y1 {
				continue
			}
			if e.loop == f.loop {
				n := e.loopLength
				var p, q, s P // p->q->s consecutive
				adjacent := false
				if (e.idx+1)%n == f.idx {
					p, q, s, adjacent = e.a, e.b, f.b, true
				} else if (f.idx+1)%n == e.idx {
					p, q, s, adjacent = f.a, f.b, e.b, true
				}
				if adjacent {
					// folded-back spike: s on the ray from q through p
					if Orient(p, q, s) == 0 && (p.X-q.X)*(s.X-q.X)+(p.Y-q.Y)*(s.Y-q.Y) > 0 {
						return nil, "spike (adjacent edges overlap)"
					}
					continue
				}
			}
			if SegsIntersect(e.a, e.b, f.a, f.b) {
				return nil, "edges touch or cross"
			}
		}
	}
	reg = &Region{Loops: loops, Depth: make([]int, len(loops))}
	for i, l := range loops {
		for j, o := range loops {
			if i != j && Locate(l[0], [][]P{o}) > 0 {
				reg.Depth[i]++
			}
		}
	}
	return reg, ""
}

// Orient applies the library's convention in place: loops of even depth
// clockwise (negative Area2, y up), loops of odd depth counter-clockwise.
func (r *Region) OrientForMesh() {
	for i, l := range r.Loops {
		a := Area2(l)
		wantNeg := r.Depth[i]%2 == 0
		if (a < 0) != wantNeg {
			for x, y := 0, len(l)-1; x < y; x, y = x+1, y-1 {
				l[x], l[y] = l[y], l[x]
			}
		}
	}
}

// cmpFrac compares n1/d1 with n2/d2 for d1, d2 > 0 using 128-bit products.
func cmpFrac(n1, d1, n2, d2 int64) int {
	return cmpProd(n1, d2, n2, d1)
}

// cmpProd compares a*b with c*d exactly.
func cmpProd(a, b, c, d int64) int {
	s1 := sgn(a) * sgn(b)
	s2 := sgn(c) * sgn(d)
	if s1 != s2 {
		if s1 < s2 {
			return -1
		}
		return 1
	}
	if s1 == 0 {
		return 0
	}
	h1, l1 := bits.Mul64(abs64(a), abs64(b))
	h2, l2 := bits.Mul64(abs64(c), abs64(d))
	c0 := 0
	if h1 != h2 {
		if h1 < h2 {
			c0 = -1
		} else {
			c0 = 1
		}
	} else if l1 != l2 {
		if l1 < l2 {
			c0 = -1
		} else {
			c0 = 1
		}
	}
	return c0 * s1
}

func abs64(x int64) uint64 {
	if x < 0 {
		return uint64(-x)
	}
	return uint64(x)
}

// SegMeetsOpenTri reports whether the open segment ab contains a point of the
// open triangle t. t must be counter-clockwise and non-degenerate.
func SegMeetsOpenTri(a, b P, t [3]P) bool {
	// s in (lo, hi) as fractions; start with (0,1)
	loN, loD := int64(0), int64(1)
	hiN, hiD := int64(1), int64(1)
	for i := 0; i < 3; i++ {
		fa := Cross(t[i], t[(i+1)%3], a)
		fb := Cross(t[i], t[(i+1)%3], b)
		d := fb - fa
		switch {
		case d == 0:
			if fa <= 0 {
				return false
			}
		case d > 0:
			// fa + s*d > 0  <=>  s > -fa/d
			if cmpFrac(-fa, d, loN, loD) > 0 {
				loN, loD = -fa, d
			}
		default:
			// s < fa/(-d)
			if cmpFrac(fa, -d, hiN, hiD) < 0 {
				hiN, hiD = fa, -d
			}
		}
	}
	return cmpFrac(loN, loD, hiN, hiD) < 0
}

// TriInteriorsMeet reports whether two non-degenerate counter-clockwise
// triangles have intersecting open interiors (exact separating-axis test).
func TriInteriorsMeet(s, t [3]P) bool {
	sep := func(u, v [3]P) bool {
		for i := 0; i < 3; i++ {
			a, b := u[i], u[(i+1)%3]
			if Cross(a, b, v[0]) <= 0 && Cross(a, b, v[1]) <= 0 && Cross(a, b, v[2]) <= 0 {
				return true
			}
		}
		return false
	}
	return !sep(s, t) && !sep(t, s)
}
