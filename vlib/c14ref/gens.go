package c14ref

import (
	"math"
	"math/rand"
	"sort"
)

// ---------------------------------------------------------------------------
// single-loop families. Every generator returns integer vertices inside
// [-R,R]^2 (best effort); nothing is trusted: the caller certifies simplicity
// exactly and drops what fails.

func rnd(x float64) int64 { return int64(math.Round(x)) }

func irange(rng *rand.Rand, lo, hi int64) int64 { // inclusive
	if hi <= lo {
		return lo
	}
	return lo + rng.Int63n(hi-lo+1)
}

func genRect(rng *rand.Rand, R int64) []P {
	x0 := irange(rng, -R, R-1)
	x1 := irange(rng, x0+1, R)
	y0 := irange(rng, -R, R-1)
	y1 := irange(rng, y0+1, R)
	return []P{{x0, y0}, {x1, y0}, {x1, y1}, {x0, y1}}
}

func genTriangle(rng *rand.Rand, R int64) []P {
	for {
		a := P{irange(rng, -R, R), irange(rng, -R, R)}
		b := P{irange(rng, -R, R), irange(rng, -R, R)}
		c := P{irange(rng, -R, R), irange(rng, -R, R)}
		if Cross(a, b, c) != 0 {
			return []P{a, b, c}
		}
	}
}

func hull(pts []P, keepColinear bool) []P {
	sort.Slice(pts, func(i, j int) bool {
		if pts[i].X != pts[j].X {
			return pts[i].X < pts[j].X
		}
		return pts[i].Y < pts[j].Y
	})
	// unique
	u := pts[:0]
	for i, p := range pts {
		if i == 0 || p != pts[i-1] {
			u = append(u, p)
		}
	}
	pts = u
	if len(pts) < 3 {
		return nil
	}
	bad := func(c int64) bool {
		if keepColinear {
			return c < 0
		}
		return c <= 0
	}
	var lower, upper []P
	for _, p := range pts {
		for len(lower) >= 2 && bad(Cross(lower[len(lower)-2], lower[len(lower)-1], p)) {
			lower = lower[:len(lower)-1]
		}
		lower = append(lower, p)
	}
	for i := len(pts) - 1; i >= 0; i-- {
		p := pts[i]
		for len(upper) >= 2 && bad(Cross(upper[len(upper)-2], upper[len(upper)-1], p)) {
			upper = upper[:len(upper)-1]
		}
		upper = append(upper, p)
	}
	res := append(lower[:len(lower)-1], upper[:len(upper)-1]...)
	return res
}

func genConvex(rng *rand.Rand, R int64, n int) []P {
	var pts []P
	ecc := 0.3 + 0.7*rng.Float64()
	for i := 0; i < 2*n; i++ {
		th := rng.Float64() * 2 * math.Pi
		pts = append(pts, P{rnd(float64(R) * math.Cos(th)), rnd(float64(R) * ecc * math.Sin(th))})
	}
	return hull(pts, false)
}

func genStar(rng *rand.Rand, R int64, n int) []P {
	angles := make([]float64, n)
	for i := range angles {
		angles[i] = rng.Float64() * 2 * math.Pi
	}
	if rng.Intn(3) == 0 { // regular spacing with jitter
		for i := range angles {
			angles[i] = (float64(i) + 0.6*rng.Float64()) * 2 * math.Pi / float64(n)
		}
	}
	sort.Float64s(angles)
	rlo := 0.15 + 0.75*rng.Float64()
	mode := rng.Intn(3)
	pts := make([]P, 0, n)
	for i, th := range angles {
		var r float64
		switch mode {
		case 0:
			r = rlo + (1-rlo)*rng.Float64()
		case 1: // alternating spikes: every other vertex reflex
			if i%2 == 0 {
				r = 1
			} else {
				r = rlo
			}
		default:
			r = rlo + (1-rlo)*(0.5+0.5*math.Sin(3*th+float64(n)))
		}
		p := P{rnd(float64(R) * r * math.Cos(th)), rnd(float64(R) * r * math.Sin(th))}
		if len(pts) > 0 && pts[len(pts)-1] == p {
			continue
		}
		pts = append(pts, p)
	}
	if len(pts) > 1 && pts[0] == pts[len(pts)-1] {
		pts = pts[:len(pts)-1]
	}
	return pts
}

func genSpiral(rng *rand.Rand, R int64, maxN int) []P {
	turns := 1.25 + 2.5*rng.Float64()
	m := 6 + rng.Intn(10) // steps per turn
	K := int(turns * float64(m))
	if 2*(K+1) > maxN {
		K = maxN/2 - 1
	}
	if K < 3 {
		K = 3
	}
	gap := 0.8 * float64(R) / turns
	w := gap * (0.25 + 0.4*rng.Float64())
	if w > 0.25*float64(R) {
		w = 0.25 * float64(R)
	}
	var outer, inner []P
	dir := 1.0
	if rng.Intn(2) == 0 {
		dir = -1
	}
	ph := rng.Float64() * 2 * math.Pi
	for k := 0; k <= K; k++ {
		th := dir*2*math.Pi*float64(k)/float64(m) + ph
		rc := float64(R)*0.16 + gap*float64(k)/float64(m)
		outer = append(outer, P{rnd((rc + w/2) * math.Cos(th)), rnd((rc + w/2) * math.Sin(th))})
		inner = append(inner, P{rnd((rc - w/2) * math.Cos(th)), rnd((rc - w/2) * math.Sin(th))})
	}
	res := append([]P{}, outer...)
	for i := len(inner) - 1; i >= 0; i-- {
		res = append(res, inner[i])
	}
	return res
}

// sortedDistinct returns k distinct sorted integers in [lo,hi] including lo and hi.
func sortedDistinct(rng *rand.Rand, lo, hi int64, k int) []int64 {
	if int64(k) > hi-lo+1 {
		k = int(hi - lo + 1)
	}
	if k < 2 {
		k = 2
	}
	set := map[int64]bool{lo: true, hi: true}
	for len(set) < k {
		set[irange(rng, lo, hi)] = true
	}
	res := make([]int64, 0, k)
	for v := range set {
		res = append(res, v)
	}
	sort.Slice(res, func(i, j int) bool { return res[i] < res[j] })
	return res
}

// genComb: rectilinear comb with optional slanted teeth; teeth point up.
func genComb(rng *rand.Rand, R int64, maxN int) []P {
	W := 2 * R
	k := 2 + rng.Intn(7)
	if maxN > 60 {
		k = 2 + rng.Intn(maxN/4)
	}
	if 4*k+2 > maxN {
		k = (maxN - 2) / 4
	}
	if int64(2*k) > W+1 {
		k = int((W + 1) / 2)
	}
	if k < 1 {
		return genRect(rng, R)
	}
	xs := sortedDistinct(rng, 0, W, 2*k)
	k = len(xs) / 2
	B := irange(rng, 1, max64(1, R/2))
	H := 2*R - B
	if H < 1 {
		return genRect(rng, R)
	}
	slant := rng.Intn(3) == 0
	equalH := rng.Intn(3) == 0
	h0 := irange(rng, 1, H)
	res := []P{{0, -B}, {W, -B}}
	for i := k - 1; i >= 0; i-- {
		xl, xr := xs[2*i], xs[2*i+1]
		h := irange(rng, 1, H)
		if equalH {
			h = h0
		}
		tl, tr := xl, xr
		if slant && xr-xl >= 3 {
			d := irange(rng, 0, (xr-xl-1)/2)
			tl, tr = xl+d, xr-d
		}
		res = append(res, P{xr, 0}, P{tr, h}, P{tl, h}, P{xl, 0})
	}
	for i := range res {
		res[i].X -= R
		res[i].Y -= R - B
	}
	return res
}

func max64(a, b int64) int64 {
	if a > b {
		return a
	}
	return b
}

// genStairBand: ascending staircase chain and its copy shifted by (-t,+t).
func genStairBand(rng *rand.Rand, R int64, maxN int) []P {
	steps := 2 + rng.Intn(10)
	if maxN > 60 {
		steps = 2 + rng.Intn(maxN/4)
	}
	if 4*steps+2 > maxN {
		steps = (maxN - 2) / 4
	}
	if steps < 1 {
		steps = 1
	}
	t := irange(rng, 1, max64(1, R/3))
	W := 2*R - t
	if W < int64(steps) {
		return genRect(rng, R)
	}
	xs := sortedDistinct(rng, 0, W, steps+1)
	ys := sortedDistinct(rng, 0, W, len(xs))
	if len(ys) < len(xs) {
		xs = xs[:len(ys)]
	}
	var chain []P
	for i := range xs {
		if i > 0 {
			chain = append(chain, P{xs[i], ys[i-1]})
		}
		chain = append(chain, P{xs[i], ys[i]})
	}
	res := append([]P{}, chain...)
	for i := len(chain) - 1; i >= 0; i-- {
		res = append(res, P{chain[i].X - t, chain[i].Y + t})
	}
	for i := range res {
		res[i].X -= R - t
		res[i].Y -= R
	}
	return res
}

// genZigBand: x-monotone zigzag path and its vertical translate.
func genZigBand(rng *rand.Rand, R int64, maxN int) []P {
	k := 3 + rng.Intn(14)
	if maxN > 60 {
		k = 3 + rng.Intn(maxN/2)
	}
	if 2*k > maxN {
		k = maxN / 2
	}
	if int64(k) > 2*R+1 {
		k = int(2*R + 1)
	}
	if k < 2 {
		return genRect(rng, R)
	}
	xs := sortedDistinct(rng, -R, R, k)
	t := irange(rng, 1, max64(1, R/2))
	amp := 2*R - t
	saw := rng.Intn(2) == 0
	var path []P
	for i, x := range xs {
		var y int64
		if saw {
			if i%2 == 0 {
				y = irange(rng, 0, amp/3)
			} else {
				y = irange(rng, amp-amp/3, amp)
			}
		} else {
			y = irange(rng, 0, amp)
		}
		path = append(path, P{x, y - R})
	}
	res := append([]P{}, path...)
	for i := len(path) - 1; i >= 0; i-- {
		res = append(res, P{path[i].X, path[i].Y + t})
	}
	return res
}

// genHistogram: base line and columns of random heights; optionally keeps the
// colinear vertices between equal columns.
func genHistogram(rng *rand.Rand, R int64, maxN int) []P {
	c := 2 + rng.Intn(10)
	if maxN > 60 {
		c = 2 + rng.Intn(maxN/2)
	}
	if 2*c+2 > maxN {
		c = (maxN - 2) / 2
	}
	if c < 1 {
		c = 1
	}
	xs := sortedDistinct(rng, -R, R, c+1)
	c = len(xs) - 1
	levels := int64(2 + rng.Intn(4))
	keep := rng.Intn(2) == 0
	hs := make([]int64, c)
	for i := range hs {
		hs[i] = -R + 1 + (2*R-1)*irange(rng, 1, levels)/levels
		if hs[i] <= -R {
			hs[i] = -R + 1
		}
	}
	res := []P{{xs[0], -R}, {xs[c], -R}}
	for i := c - 1; i >= 0; i-- {
		// column i spans xs[i]..xs[i+1] at height hs[i]; we arrive at x = xs[i+1]
		if i == c-1 || hs[i] != hs[i+1] || keep {
			res = append(res, P{xs[i+1], hs[i]})
		}
		if i == 0 {
			res = append(res, P{xs[0], hs[0]})
		} else if hs[i-1] != hs[i] {
			res = append(res, P{xs[i], hs[i]})
		}
	}
	return res
}

// genTwoOpt: random points, untangled by 2-opt moves.
func genTwoOpt(rng *rand.Rand, R int64, n int) []P {
	seen := map[P]bool{}
	var pts []P
	for tries := 0; len(pts) < n && tries < 20*n; tries++ {
		p := P{irange(rng, -R, R), irange(rng, -R, R)}
		if !seen[p] {
			seen[p] = true
			pts = append(pts, p)
		}
	}
	n = len(pts)
	if n < 3 {
		return nil
	}
	for iter := 0; iter < 40*n; iter++ {
		found := false
	search:
		for i := 0; i < n; i++ {
			for j := i + 2; j < n; j++ {
				if i == 0 && j == n-1 {
					continue
				}
				a, b := pts[i], pts[i+1]
				c, d := pts[j], pts[(j+1)%n]
				if SegsIntersect(a, b, c, d) {
					// reverse pts[i+1..j]
					for x, y := i+1, j; x < y; x, y = x+1, y-1 {
						pts[x], pts[y] = pts[y], pts[x]
					}
					found = true
					break search
				}
			}
		}
		if !found {
			break
		}
	}
	return pts
}

// subdivide inserts lattice points on edges (exactly colinear runs).
func subdivide(rng *rand.Rand, loop []P, prob float64, maxExtra int) []P {
	var res []P
	extra := 0
	for i, a := range loop {
		b := loop[(i+1)%len(loop)]
		res = append(res, a)
		dx, dy := b.X-a.X, b.Y-a.Y
		g := gcd(abs(dx), abs(dy))
		if g > 1 && rng.Float64() < prob && extra < maxExtra {
			// choose up to 3 interior lattice points
			cnt := 1 + rng.Intn(3)
			if int64(cnt) > g-1 {
				cnt = int(g - 1)
			}
			ks := map[int64]bool{}
			for len(ks) < cnt {
				ks[irange(rng, 1, g-1)] = true
			}
			var kl []int64
			for k := range ks {
				kl = append(kl, k)
			}
			sort.Slice(kl, func(i, j int) bool { return kl[i] < kl[j] })
			for _, k := range kl {
				res = append(res, P{a.X + dx/g*k, a.Y + dy/g*k})
				extra++
			}
		}
	}
	return res
}

func abs(x int64) int64 {
	if x < 0 {
		return -x
	}
	return x
}
func gcd(a, b int64) int64 {
	for b != 0 {
		a, b = b, a%b
	}
	return a
}

// StripColinear removes vertices whose two edges are exactly colinear.
func StripColinear(loop []P) []P {
	for {
		var res []P
		n := len(loop)
		for i, p := range loop {
			a := loop[(i+n-1)%n]
			b := loop[(i+1)%n]
			if Cross(a, p, b) != 0 {
				res = append(res, p)
			}
		}
		if len(res) == len(loop) {
			return res
		}
		loop = res
		if len(loop) < 3 {
			return loop
		}
	}
}

// d4 applies one of the 8 lattice symmetries.
func d4(k int, p P) P {
	switch k & 7 {
	case 0:
		return p
	case 1:
		return P{-p.Y, p.X}
	case 2:
		return P{-p.X, -p.Y}
	case 3:
		return P{p.Y, -p.X}
	case 4:
		return P{-p.X, p.Y}
	case 5:
		return P{p.X, -p.Y}
	case 6:
		return P{p.Y, p.X}
	default:
		return P{-p.Y, -p.X}
	}
}

var FamilyNames = []string{"convex", "star", "spiral", "comb", "stairs", "zigzag", "histogram", "2opt", "rect", "triangle"}

// GenLoop draws one polygon of a random (or the requested) family inside
// [-R,R]^2 and certifies it; returns nil when the attempt is not simple.
func GenLoop(rng *rand.Rand, R int64, maxN int, family int) ([]P, string) {
	if R < 1 {
		return nil, ""
	}
	if family < 0 {
		family = rng.Intn(8)
		if R < 4 {
			family = 8 + rng.Intn(2)
		}
	}
	n := 3 + rng.Intn(maxN-2)
	var loop []P
	switch family {
	case 0:
		loop = genConvex(rng, R, n)
	case 1:
		loop = genStar(rng, R, n)
	case 2:
		loop = genSpiral(rng, R, maxN)
	case 3:
		loop = genComb(rng, R, maxN)
	case 4:
		loop = genStairBand(rng, R, maxN)
	case 5:
		loop = genZigBand(rng, R, maxN)
	case 6:
		loop = genHistogram(rng, R, maxN)
	case 7:
		if n > 28 {
			n = 28
		}
		loop = genTwoOpt(rng, R, n)
	case 8:
		loop = genRect(rng, R)
	default:
		loop = genTriangle(rng, R)
	}
	if len(loop) < 3 {
		return nil, ""
	}
	k := rng.Intn(8)
	for i := range loop {
		loop[i] = d4(k, loop[i])
	}
	if rng.Intn(4) == 0 {
		loop = subdivide(rng, loop, 0.5, maxN/4+1)
	}
	if _, why := Certify([][]P{loop}); why != "" {
		return nil, ""
	}
	return loop, FamilyNames[family]
}

// MustLoop retries GenLoop until a certified polygon comes out.
func MustLoop(rng *rand.Rand, R int64, maxN int, family int) ([]P, string, int) {
	rejects := 0
	for {
		l, f := GenLoop(rng, R, maxN, family)
		if l != nil {
			return l, f, rejects
		}
		rejects++
		if rejects > 50 {
			family = 8
		}
	}
}

// ---------------------------------------------------------------------------
// regions with holes, islands and several roots

type RegionGen struct {
	Loops    [][]P
	Fams     []string
	Rejected int
	maxLoops int
	maxDepth int
	maxN     int
}

func (g *RegionGen) place(rng *rand.Rand, cx, cy, half int64, depth int, family int) {
	if len(g.Loops) >= g.maxLoops || half < 1 {
		return
	}
	loop, fam := GenLoop(rng, half, g.maxN, family)
	if loop == nil {
		g.Rejected++
		return
	}
	for i := range loop {
		loop[i].X += cx
		loop[i].Y += cy
	}
	if !LoopsDisjointFrom(loop, g.Loops) {
		g.Rejected++
		return
	}
	g.Loops = append(g.Loops, loop)
	g.Fams = append(g.Fams, fam)
	if depth >= g.maxDepth || half < 8 {
		return
	}
	attempts := rng.Intn(7)
	for i := 0; i < attempts; i++ {
		sub := int64(float64(half) * (0.1 + 0.35*rng.Float64()))
		if sub < 1 {
			sub = 1
		}
		span := (half - sub) * 6 / 10
		ccx := cx + irange(rng, -span, span)
		ccy := cy + irange(rng, -span, span)
		g.place(rng, ccx, ccy, sub, depth+1, -1)
	}
}

// GenRegion builds a set of pairwise disjoint simple loops inside [-R,R]^2.
func GenRegion(rng *rand.Rand, R int64, maxLoops, maxDepth, maxN int) *RegionGen {
	g := &RegionGen{maxLoops: maxLoops, maxDepth: maxDepth, maxN: maxN}
	for len(g.Loops) == 0 {
		roots := 1
		if rng.Intn(4) == 0 {
			roots = 2 + rng.Intn(3)
		}
		for i := 0; i < roots; i++ {
			half := R
			var cx, cy int64
			fam := -1
			if roots > 1 {
				half = R / 2
				cx = irange(rng, -R/2, R/2)
				cy = irange(rng, -R/2, R/2)
			}
			// parents that leave room inside are preferred when children are wanted
			if maxDepth > 0 && rng.Intn(3) != 0 {
				fam = []int{0, 1, 8, 1}[rng.Intn(4)]
			}
			g.place(rng, cx, cy, half, 0, fam)
		}
	}
	return g
}

// ---------------------------------------------------------------------------
// rectilinear regions traced from bitmaps

func GenBitmap(rng *rand.Rand, w, h int) [][]bool {
	bm := make([][]bool, h+2)
	for j := range bm {
		bm[j] = make([]bool, w+2)
	}
	dens := 0.3 + 0.5*rng.Float64()
	for j := 1; j <= h; j++ {
		for i := 1; i <= w; i++ {
			bm[j][i] = rng.Float64() < dens
		}
	}
	// optional smoothing (cellular automaton) for blobs with holes
	for it := rng.Intn(4); it > 0; it-- {
		nb := make([][]bool, h+2)
		for j := range nb {
			nb[j] = make([]bool, w+2)
		}
		for j := 1; j <= h; j++ {
			for i := 1; i <= w; i++ {
				cnt := 0
				for dj := -1; dj <= 1; dj++ {
					for di := -1; di <= 1; di++ {
						if bm[j+dj][i+di] {
							cnt++
						}
					}
				}
				nb[j][i] = cnt >= 5
			}
		}
		bm = nb
	}
	// remove diagonal-only contacts (they would make a degree-4 vertex)
	for changed := true; changed; {
		changed = false
		for j := 0; j <= h; j++ {
			for i := 0; i <= w; i++ {
				a, b, c, d := bm[j][i], bm[j][i+1], bm[j+1][i], bm[j+1][i+1]
				if (a && d && !b && !c) || (b && c && !a && !d) {
					// fill inside the frame, clear when on the frame border
					if j >= 1 && j+1 <= h && i >= 1 && i+1 <= w {
						bm[j][i], bm[j][i+1], bm[j+1][i], bm[j+1][i+1] = true, true, true, true
					} else {
						bm[j][i], bm[j][i+1], bm[j+1][i], bm[j+1][i+1] = false, false, false, false
					}
					changed = true
				}
			}
		}
	}
	return bm
}

// TraceBitmap returns the boundary loops of the filled pixels (unit edges,
// filled side on the right of each edge, i.e. outer loops clockwise).
func TraceBitmap(bm [][]bool) [][]P {
	next := map[P]P{}
	h := len(bm)
	w := len(bm[0])
	get := func(i, j int) bool {
		if i < 0 || j < 0 || j >= h || i >= w {
			return false
		}
		return bm[j][i]
	}
	for j := 0; j < h; j++ {
		for i := 0; i < w; i++ {
			if !bm[j][i] {
				continue
			}
			x, y := int64(i), int64(j)
			if !get(i, j+1) { // top, heading +x
				next[P{x, y + 1}] = P{x + 1, y + 1}
			}
			if !get(i+1, j) { // right, heading -y
				next[P{x + 1, y + 1}] = P{x + 1, y}
			}
			if !get(i, j-1) { // bottom, heading -x
				next[P{x + 1, y}] = P{x, y}
			}
			if !get(i-1, j) { // left, heading +y
				next[P{x, y}] = P{x, y + 1}
			}
		}
	}
	// deterministic order of loop starts
	starts := make([]P, 0, len(next))
	for p := range next {
		starts = append(starts, p)
	}
	sort.Slice(starts, func(i, j int) bool {
		if starts[i].X != starts[j].X {
			return starts[i].X < starts[j].X
		}
		return starts[i].Y < starts[j].Y
	})
	seen := map[P]bool{}
	var loops [][]P
	for _, s := range starts {
		if seen[s] {
			continue
		}
		var loop []P
		p := s
		for !seen[p] {
			seen[p] = true
			loop = append(loop, p)
			p = next[p]
		}
		loops = append(loops, loop)
	}
	return loops
}
