package c14ref

import (
	"fmt"
	"sort"
)

// CoverResult is the exact verdict on a list of triangles (given as vertex
// triples) against a certified region.
type CoverResult struct {
	Triangles  int
	Degenerate int // zero-area triangles (ignored by every clause)
	CCW        int // non-degenerate triangles turning counter-clockwise
	CW         int

	// Inside clause: first offending triangle, or -1.
	OutsideTri int
	OutsideWhy string

	// Overlap clause: first offending pair, or -1.
	OverlapA, OverlapB int

	// Area clause (twice the areas).
	SumArea2, WantArea2 int64
}

// OK reports whether inside, overlap and area clauses all hold.
func (c *CoverResult) OK() bool {
	return c.OutsideTri < 0 && c.OverlapA < 0 && c.SumArea2 == c.WantArea2
}

func (c *CoverResult) String() string {
	return fmt.Sprintf("tris=%d degenerate=%d ccw=%d cw=%d outside=%d(%s) overlap=(%d,%d) area2=%d want=%d",
		c.Triangles, c.Degenerate, c.CCW, c.CW, c.OutsideTri, c.OutsideWhy, c.OverlapA, c.OverlapB, c.SumArea2, c.WantArea2)
}

type triRec struct {
	t              [3]P // counter-clockwise
	idx            int
	x0, x1, y0, y1 int64
}

func min3(a, b, c int64) int64 {
	if b < a {
		a = b
	}
	if c < a {
		a = c
	}
	return a
}
func max3(a, b, c int64) int64 {
	if b > a {
		a = b
	}
	if c > a {
		a = c
	}
	return a
}

// CheckCover decides, exactly, whether the triangles lie inside the region
// (no region edge meets an open triangle and the centroid is inside by the
// even-odd rule), have pairwise disjoint interiors, and sum to the region's
// area. Zero-area triangles are counted and otherwise ignored.
func CheckCover(reg *Region, tris [][3]P) *CoverResult {
	res := &CoverResult{Triangles: len(tris), OutsideTri: -1, OverlapA: -1, OverlapB: -1, WantArea2: reg.Area2()}
	var recs []triRec
	for i, t := range tris {
		c := Cross(t[0], t[1], t[2])
		if c == 0 {
			res.Degenerate++
			continue
		}
		if c > 0 {
			res.CCW++
			res.SumArea2 += c
		} else {
			res.CW++
			res.SumArea2 -= c
			t[1], t[2] = t[2], t[1]
		}
		recs = append(recs, triRec{t: t, idx: i,
			x0: min3(t[0].X, t[1].X, t[2].X), x1: max3(t[0].X, t[1].X, t[2].X),
			y0: min3(t[0].Y, t[1].Y, t[2].Y), y1: max3(t[0].Y, t[1].Y, t[2].Y)})
	}
	sort.Slice(recs, func(i, j int) bool { return recs[i].x0 < recs[j].x0 })

	// region edges sorted by min x
	var edges []edgeRec
	for li, l := range reg.Loops {
		for i, a := range l {
			b := l[(i+1)%len(l)]
			x0, x1 := minmax(a.X, b.X)
			y0, y1 := minmax(a.Y, b.Y)
			edges = append(edges, edgeRec{a: a, b: b, loop: li, idx: i, x0: x0, x1: x1, y0: y0, y1: y1})
		}
	}
	sort.Slice(edges, func(i, j int) bool { return edges[i].x0 < edges[j].x0 })
	var maxEdgeW int64
	for _, e := range edges {
		if w := e.x1 - e.x0; w > maxEdgeW {
			maxEdgeW = w
		}
	}

	// 3x scaled loops for centroid location
	scaled := make([][]P, len(reg.Loops))
	for i, l := range reg.Loops {
		scaled[i] = make([]P, len(l))
		for j, p := range l {
			scaled[i][j] = P{3 * p.X, 3 * p.Y}
		}
	}

	// inside clause
	for ri := range recs {
		r := &recs[ri]
		// candidate edges: x0 in [r.x0-maxEdgeW, r.x1]
		lo := sort.Search(len(edges), func(i int) bool { return edges[i].x0 >= r.x0-maxEdgeW })
		bad := false
		for k := lo; k < len(edges); k++ {
			e := &edges[k]
			if e.x0 > r.x1 {
				break
			}
			if e.x1 < r.x0 || e.y1 < r.y0 || e.y0 > r.y1 {
				continue
			}
			if SegMeetsOpenTri(e.a, e.b, r.t) {
				res.OutsideTri = r.idx
				res.OutsideWhy = fmt.Sprintf("region edge (%d,%d)-(%d,%d) passes through the open triangle", e.a.X, e.a.Y, e.b.X, e.b.Y)
				bad = true
				break
			}
		}
		if !bad {
			cen := P{r.t[0].X + r.t[1].X + r.t[2].X, r.t[0].Y + r.t[1].Y + r.t[2].Y}
			if Locate(cen, scaled) <= 0 {
				res.OutsideTri = r.idx
				res.OutsideWhy = "centroid is not inside the region (even-odd)"
				bad = true
			}
		}
		if bad {
			break
		}
	}

	// overlap clause
overlap:
	for i := range recs {
		a := &recs[i]
		for j := i + 1; j < len(recs); j++ {
			b := &recs[j]
			if b.x0 >= a.x1 {
				break
			}
			if b.y1 <= a.y0 || b.y0 >= a.y1 {
				continue
			}
			if TriInteriorsMeet(a.t, b.t) {
				res.OverlapA, res.OverlapB = a.idx, b.idx
				break overlap
			}
		}
	}
	return res
}

// NoThreeColinear reports whether no three distinct vertices of the region
// are colinear (only evaluated for small inputs; ok=false when skipped).
func NoThreeColinear(reg *Region, maxN int) (general bool, ok bool) {
	pts := reg.Flat()
	if len(pts) > maxN {
		return false, false
	}
	for i := range pts {
		for j := i + 1; j < len(pts); j++ {
			for k := j + 1; k < len(pts); k++ {
				if Cross(pts[i], pts[j], pts[k]) == 0 {
					return false, true
				}
			}
		}
	}
	return true, true
}
