package vlib

import (
	"fmt"
	"math"
	"math/rand"

	"github.com/unixpickle/model3d/model3d"
)

// FSolid is the harness's own deterministic solid: an explicit box and a
// membership function; Contains is false outside the box by construction, so
// the Solid contract holds whatever the function does.
type FSolid struct {
	Lo, Hi C3
	F      func(C3) bool
	Desc   string
}

func (s *FSolid) Min() C3 { return s.Lo }
func (s *FSolid) Max() C3 { return s.Hi }
func (s *FSolid) Contains(p C3) bool {
	if p.X < s.Lo.X || p.Y < s.Lo.Y || p.Z < s.Lo.Z || p.X > s.Hi.X || p.Y > s.Hi.Y || p.Z > s.Hi.Z {
		return false
	}
	return s.F(p)
}

func randUnit(rng *rand.Rand) C3 {
	for {
		v := model3d.XYZ(rng.NormFloat64(), rng.NormFloat64(), rng.NormFloat64())
		if n := v.Norm(); n > 1e-3 {
			return v.Scale(1 / n)
		}
	}
}

func sphere(c C3, r float64) *FSolid {
	return &FSolid{c.AddScalar(-r), c.AddScalar(r), func(p C3) bool { return p.Dist(c) < r }, fmt.Sprintf("sphere(%v,%g)", c, r)}
}

func box(min, max C3) *FSolid {
	return &FSolid{min, max, func(p C3) bool { return true }, fmt.Sprintf("box(%v,%v)", min, max)}
}

func cylinder(p1, p2 C3, r float64) *FSolid {
	axis := p2.Sub(p1)
	l := axis.Norm()
	axis = axis.Scale(1 / l)
	mn := p1.Min(p2).AddScalar(-r)
	mx := p1.Max(p2).AddScalar(r)
	return &FSolid{mn, mx, func(p C3) bool {
		v := p.Sub(p1)
		t := v.Dot(axis)
		if t < 0 || t > l {
			return false
		}
		return v.Sub(axis.Scale(t)).Norm() < r
	}, fmt.Sprintf("cylinder(%v,%v,%g)", p1, p2, r)}
}

func capsule(p1, p2 C3, r float64) *FSolid {
	axis := p2.Sub(p1)
	l2 := axis.Dot(axis)
	return &FSolid{p1.Min(p2).AddScalar(-r), p1.Max(p2).AddScalar(r), func(p C3) bool {
		t := p.Sub(p1).Dot(axis) / l2
		t = math.Max(0, math.Min(1, t))
		return p.Dist(p1.Add(axis.Scale(t))) < r
	}, fmt.Sprintf("capsule(%v,%v,%g)", p1, p2, r)}
}

func torus(c, axis C3, inner, outer float64) *FSolid {
	return &FSolid{c.AddScalar(-(inner + outer)), c.AddScalar(inner + outer), func(p C3) bool {
		v := p.Sub(c)
		h := v.Dot(axis)
		rad := v.Sub(axis.Scale(h)).Norm()
		return math.Hypot(rad-outer, h) < inner
	}, fmt.Sprintf("torus(%v,%v,%g,%g)", c, axis, inner, outer)}
}

func union(a, b *FSolid) *FSolid {
	return &FSolid{a.Lo.Min(b.Lo), a.Hi.Max(b.Hi), func(p C3) bool { return a.Contains(p) || b.Contains(p) }, "(" + a.Desc + " | " + b.Desc + ")"}
}
func intersect(a, b *FSolid) *FSolid {
	return &FSolid{a.Lo, a.Hi, func(p C3) bool { return a.Contains(p) && b.Contains(p) }, "(" + a.Desc + " & " + b.Desc + ")"}
}
func subtract(a, b *FSolid) *FSolid {
	return &FSolid{a.Lo, a.Hi, func(p C3) bool { return a.Contains(p) && !b.Contains(p) }, "(" + a.Desc + " - " + b.Desc + ")"}
}

// rotated returns s rotated about a point (membership by the inverse map).
func rotated(s *FSolid, axis C3, angle float64, about C3) *FSolid {
	fw := model3d.Rotation(axis, angle)
	bw := model3d.Rotation(axis, -angle)
	var mn, mx C3
	for i := 0; i < 8; i++ {
		c := s.Lo
		if i&1 != 0 {
			c.X = s.Hi.X
		}
		if i&2 != 0 {
			c.Y = s.Hi.Y
		}
		if i&4 != 0 {
			c.Z = s.Hi.Z
		}
		q := fw.Apply(c.Sub(about)).Add(about)
		if i == 0 {
			mn, mx = q, q
		} else {
			mn, mx = mn.Min(q), mx.Max(q)
		}
	}
	pad := mx.Sub(mn).Norm() * 1e-9
	return &FSolid{mn.AddScalar(-pad), mx.AddScalar(pad), func(p C3) bool {
		return s.Contains(bw.Apply(p.Sub(about)).Add(about))
	}, fmt.Sprintf("rot(%s,%v,%g)", s.Desc, axis, angle)}
}

func primitive(rng *rand.Rand, size float64) *FSolid {
	c := model3d.XYZ(rng.Float64()-0.5, rng.Float64()-0.5, rng.Float64()-0.5).Scale(size)
	switch rng.Intn(5) {
	case 0:
		return sphere(c, size*(0.15+0.35*rng.Float64()))
	case 1:
		return box(c, c.Add(model3d.XYZ(0.1+rng.Float64(), 0.1+rng.Float64(), 0.1+rng.Float64()).Scale(size*0.6)))
	case 2:
		return cylinder(c, c.Add(randUnit(rng).Scale(size*(0.2+0.6*rng.Float64()))), size*(0.08+0.25*rng.Float64()))
	case 3:
		return capsule(c, c.Add(randUnit(rng).Scale(size*(0.2+0.6*rng.Float64()))), size*(0.08+0.2*rng.Float64()))
	default:
		o := size * (0.2 + 0.3*rng.Float64())
		return torus(c, randUnit(rng), o*(0.15+0.5*rng.Float64()), o)
	}
}

func csg(rng *rand.Rand, depth int, size float64) *FSolid {
	if depth == 0 || rng.Intn(4) == 0 {
		return primitive(rng, size)
	}
	a := csg(rng, depth-1, size)
	switch rng.Intn(6) {
	case 0, 1:
		return union(a, csg(rng, depth-1, size))
	case 2:
		return intersect(a, csg(rng, depth-1, size))
	case 3, 4:
		return subtract(a, csg(rng, depth-1, size))
	default:
		return rotated(a, randUnit(rng), rng.Float64()*6, a.Lo.Mid(a.Hi))
	}
}

// snapBox replaces the bounds by an enclosing box on the dyadic grid 1/q so
// that, with a dyadic spacing, the library's lattice is exact.
func snapBox(s *FSolid, q float64) *FSolid {
	mn := model3d.XYZ(math.Floor(s.Lo.X*q)/q, math.Floor(s.Lo.Y*q)/q, math.Floor(s.Lo.Z*q)/q)
	mx := model3d.XYZ(math.Ceil(s.Hi.X*q)/q, math.Ceil(s.Hi.Y*q)/q, math.Ceil(s.Hi.Z*q)/q)
	inner := s
	return &FSolid{mn, mx, inner.Contains, "snap(" + s.Desc + ")"}
}

// thinFeature builds slabs and needles whose thickness is just above or just
// below one spacing, and surfaces passing within 1e-9 of lattice points.
func thinFeature(rng *rand.Rand, delta float64) *FSolid {
	switch rng.Intn(4) {
	case 0: // slab
		t := delta * (0.9 + 0.2*rng.Float64())
		o := rng.Float64() * delta
		return box(model3d.XYZ(0, 0, o), model3d.XYZ(1, 1, o+t))
	case 1: // needle
		t := delta * (0.9 + 0.3*rng.Float64())
		o := rng.Float64() * delta
		return box(model3d.XYZ(o, o, 0), model3d.XYZ(o+t, o+t, 1))
	case 2: // sphere whose surface passes within 1e-9 of lattice points
		k := float64(2 + rng.Intn(4))
		eps := (rng.Float64()*2 - 1) * 1e-9
		b := sphere(model3d.XYZ(0, 0, 0), k*delta+eps)
		b.Lo = model3d.XYZ(-k*delta-delta, -k*delta-delta, -k*delta-delta) // lattice through the centre
		b.Hi = b.Lo.Scale(-1)
		return b
	default: // thin diagonal plate
		n := randUnit(rng)
		t := delta * (0.6 + 0.8*rng.Float64())
		b := box(model3d.XYZ(-1, -1, -1), model3d.XYZ(1, 1, 1))
		b.F = func(p C3) bool { return math.Abs(p.Dot(n)) < t && p.Norm() < 0.9 }
		b.Desc = fmt.Sprintf("plate(%v,%g)", n, t)
		return b
	}
}

// HookedSolid calls Hook at the start of every Contains (delay injection,
// arrival-order logging). Hook must be safe for concurrent use.
type HookedSolid struct {
	S    model3d.Solid
	Hook func(C3)
}

func (h *HookedSolid) Min() C3 { return h.S.Min() }
func (h *HookedSolid) Max() C3 { return h.S.Max() }
func (h *HookedSolid) Contains(p C3) bool {
	h.Hook(p)
	return h.S.Contains(p)
}

// Exported constructors of the harness's own solids.
func CSG(rng *rand.Rand, depth int, size float64) *FSolid { return csg(rng, depth, size) }
func ThinFeature(rng *rand.Rand, delta float64) *FSolid   { return thinFeature(rng, delta) }
func SnapBox(s *FSolid, q float64) *FSolid                { return snapBox(s, q) }
func SphereSolid(c C3, r float64) *FSolid                 { return sphere(c, r) }
func BoxSolid(min, max C3) *FSolid                        { return box(min, max) }
func TorusSolid(c, axis C3, inner, outer float64) *FSolid { return torus(c, axis, inner, outer) }
func CapsuleSolid(p1, p2 C3, r float64) *FSolid           { return capsule(p1, p2, r) }
func CylinderSolid(p1, p2 C3, r float64) *FSolid          { return cylinder(p1, p2, r) }
func UnionSolid(a, b *FSolid) *FSolid                     { return union(a, b) }
func SubtractSolid(a, b *FSolid) *FSolid                  { return subtract(a, b) }
func IntersectSolid(a, b *FSolid) *FSolid                 { return intersect(a, b) }
func RandUnit3(rng *rand.Rand) C3                         { return randUnit(rng) }
